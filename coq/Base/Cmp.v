(* helpers used by the generated correspondence files (Run/cases_*.v) *)
From Coq Require Import PrimFloat List Bool Arith ZArith.
From PV Require Import Base.Num Base.NumF Base.Res.
Import ListNotations.

Fixpoint flist_same (a b : list float) : bool :=
  match a, b with
  | [], [] => true
  | x :: a', y :: b' => fsame x y && flist_same a' b'
  | _, _ => false
  end.
Fixpoint fmat_same (a b : list (list float)) : bool :=
  match a, b with
  | [], [] => true
  | x :: a', y :: b' => flist_same x y && fmat_same a' b'
  | _, _ => false
  end.
Fixpoint nlist_same (a b : list nat) : bool :=
  match a, b with
  | [], [] => true
  | x :: a', y :: b' => (x =? y) && nlist_same a' b'
  | _, _ => false
  end.
Fixpoint nmat_same (a b : list (list nat)) : bool :=
  match a, b with
  | [], [] => true
  | x :: a', y :: b' => nlist_same x y && nmat_same a' b'
  | _, _ => false
  end.
Fixpoint blist_same (a b : list bool) : bool :=
  match a, b with
  | [], [] => true
  | x :: a', y :: b' => Bool.eqb x y && blist_same a' b'
  | _, _ => false
  end.
Fixpoint zlist_same (a b : list Z) : bool :=
  match a, b with
  | [], [] => true
  | x :: a', y :: b' => Z.eqb x y && zlist_same a' b'
  | _, _ => false
  end.

(* indices of the cases whose check evaluated to false *)
Fixpoint failing (i : nat) (l : list bool) : list nat :=
  match l with [] => [] | b :: t => if b then failing (S i) t else i :: failing (S i) t end.

Definition no_events {T} (l : list (event T)) : bool := match l with [] => true | _ => false end.

(* attribute triples (index, rank, crowding) written by a survival: the last write per index must agree *)
Definition attrs_agree (model expd : list (nat * nat * float)) : bool :=
  forallb (fun e => match find (fun a => fst (fst a) =? fst (fst e)) (rev model) with
                    | Some a => (snd (fst a) =? snd (fst e)) && fsame (snd a) (snd e)
                    | None => false end) expd
  && forallb (fun a => existsb (fun e => fst (fst e) =? fst (fst a)) expd) model.

Definition pairs_agree (model expd : list (nat * nat)) : bool :=
  forallb (fun e => match find (fun a => fst a =? fst e) (rev model) with
                    | Some a => snd a =? snd e | None => false end) expd
  && forallb (fun a => existsb (fun e => fst e =? fst a) expd) model.

Definition no_more {E} (l : list E) : bool := match l with [] => true | _ => false end.
