(* helpers used by the generated correspondence files (Run/cases_*.v) *)
From Coq Require Import PrimFloat List Bool Arith ZArith.
From PV Require Import Base.Num Base.NumF Base.Res.
Import ListNotations.

Fixpoint flist_same (a b : list float) : bool :=
  match a, b with
  | [], [] => true
  | x :: a', y :: b' => fsame x y && flist_same a' b'
  | _, _ => false
  end.
Fixpoint fmat_same (a b : list (list float)) : bool :=
  match a, b with
  | [], [] => true
  | x :: a', y :: b' => flist_same x y && fmat_same a' b'
  | _, _ => false
  end.
Fixpoint nlist_same (a b : list nat) : bool :=
  match a, b with
  | [], [] => true
  | x :: a', y :: b' => (x =? y) && nlist_same a' b'
  | _, _ => false
  end.
Fixpoint nmat_same (a b : list (list nat)) : bool :=
  match a, b with
  | [], [] => true
  | x :: a', y :: b' => nlist_same x y && nmat_same a' b'
  | _, _ => false
  end.
Fixpoint blist_same (a b : list bool) : bool :=
  match a, b with
  | [], [] => true
  | x :: a', y :: b' => Bool.eqb x y && blist_same a' b'
  | _, _ => false
  end.
Fixpoint zlist_same (a b : list Z) : bool :=
  match a, b with
  | [], [] => true
  | x :: a', y :: b' => Z.eqb x y && zlist_same a' b'
  | _, _ => false
  end.

(* indices of the cases whose check evaluated to false *)
Fixpoint failing (i : nat) (l : list bool) : list nat :=
  match l with [] => [] | b :: t => if b then failing (S i) t else i :: failing (S i) t end.

Definition no_events {T} (l : list (event T)) : bool := match l with [] => true | _ => false end.

(* attribute triples (index, rank, crowding) written by a survival: the last write per index must agree *)
Definition attrs_agree (model expd : list (nat * nat * float)) : bool :=
  forallb (fun e => match find (fun a => fst (fst a) =? fst (fst e)) (rev model) with
                    | Some a => (snd (fst a) =? snd (fst e)) && fsame (snd a) (snd e)
                    | None => false end) expd
  && forallb (fun a => existsb (fun e => fst (fst e) =? fst (fst a)) expd) model.

Definition pairs_agree (model expd : list (nat * nat)) : bool :=
  forallb (fun e => match find (fun a => fst a =? fst e) (rev model) with
                    | Some a => snd a =? snd e | None => false end) expd
  && forallb (fun a => existsb (fun e => fst e =? fst a) expd) model.

Definition no_more {E} (l : list E) : bool := match l with [] => true | _ => false end.

(* state-based comparison of rank attributes: previous ranks updated by the writes of this step *)
Fixpoint set_opt_nth (n : nat) (v : option nat) (l : list (option nat)) : list (option nat) :=
  match l, n with
  | [], _ => []
  | _ :: t, O => v :: t
  | h :: t, S k => h :: set_opt_nth k v t
  end.
Definition apply_rank_writes (prev : list (option nat)) (attrs : list (nat * nat * float)) : list (option nat) :=
  fold_left (fun acc a => set_opt_nth (fst (fst a)) (Some (snd (fst a))) acc) attrs prev.
Definition opt_nat_same (a b : option nat) : bool :=
  match a, b with Some x, Some y => x =? y | None, None => true | _, _ => false end.
Fixpoint olist_same (a b : list (option nat)) : bool :=
  match a, b with
  | [], [] => true
  | x :: a', y :: b' => opt_nat_same x y && olist_same a' b'
  | _, _ => false
  end.
(* crowding attribute of every index written in this step = its last write *)
Definition crowding_agree (attrs : list (nat * nat * float)) (crowd_after : list float) : bool :=
  forallb (fun a => match find (fun b => fst (fst b) =? fst (fst a)) (rev attrs) with
                    | Some b => fsame (snd b) (nth (fst (fst a)) crowd_after nan)
                    | None => false end) attrs.
