(* list helpers shared by the models *)
From Coq Require Import List Bool Arith Lia.
From PV Require Import Base.Res.
Import ListNotations.

Fixpoint set_nth {A} (n : nat) (a : A) (l : list A) : list A :=
  match l, n with
  | [], _ => []
  | _ :: t, O => a :: t
  | h :: t, S k => h :: set_nth k a t
  end.

Fixpoint reshape {A} (n v : nat) (l : list A) : list (list A) :=
  match n with O => [] | S k => firstn v l :: reshape k v (skipn v l) end.

Fixpoint map_M {E A B} (f : A -> SM E B) (l : list A) : SM E (list B) :=
  match l with
  | [] => ret []
  | a :: t => b <- f a ;; bs <- map_M f t ;; ret (b :: bs)
  end.

Fixpoint map3 {A B C D} (f : A -> B -> C -> D) (a : list A) (b : list B) (c : list C) : list D :=
  match a, b, c with
  | x :: a', y :: b', z :: c' => f x y z :: map3 f a' b' c'
  | _, _, _ => []
  end.

Fixpoint map2 {A B C} (f : A -> B -> C) (a : list A) (b : list B) : list C :=
  match a, b with x :: a', y :: b' => f x y :: map2 f a' b' | _, _ => [] end.

Definition nth_opt {A} (l : list A) (n : nat) : option A := nth_error l n.

Lemma set_nth_length {A} n (a : A) l : length (set_nth n a l) = length l.
Proof. revert n. induction l as [|h t IH]; intros [|n]; cbn; auto. Qed.

Lemma nth_set_nth {A} n m (a d : A) l : n < length l ->
  nth m (set_nth n a l) d = if m =? n then a else nth m l d.
Proof.
  revert n m. induction l as [|h t IH]; intros [|n] [|m] Hn; cbn in *; try lia; auto.
  apply IH. lia.
Qed.

Lemma map_M_ok {E A B} (f : A -> SM E B) l : forall s bs s',
  map_M f l s = Ok (bs, s') ->
  Forall2 (fun a b => exists s1 s2, f a s1 = Ok (b, s2)) l bs.
Proof.
  induction l as [|a t IH]; cbn; intros s bs s' H.
  - apply ret_ok in H as [<- _]. constructor.
  - apply bind_ok in H as (b & s1 & Hb & H). apply bind_ok in H as (bs' & s2 & Ht & H).
    apply ret_ok in H as [<- _]. constructor; eauto.
Qed.

Lemma reshape_length {A} n v (l : list A) : length (reshape n v l) = n.
Proof. revert l. induction n; cbn; auto. Qed.

Lemma reshape_rows {A} n v (l : list A) : length l = n * v ->
  Forall (fun r => length r = v) (reshape n v l).
Proof.
  revert l. induction n as [|n IH]; cbn; intros l H; constructor.
  - rewrite firstn_length. lia.
  - apply IH. rewrite skipn_length. lia.
Qed.

Lemma map2_length {A B C} (f : A -> B -> C) a b : length (map2 f a b) = min (length a) (length b).
Proof. revert b. induction a; intros [|y b]; cbn; auto. Qed.

Lemma map3_length {A B C D} (f : A -> B -> C -> D) a b c :
  length (map3 f a b c) = min (length a) (min (length b) (length c)).
Proof. revert b c. induction a; intros [|y b] [|z c]; cbn; auto. Qed.

Lemma Forall2_impl {A B} (P Q : A -> B -> Prop) l l' :
  (forall a b, P a b -> Q a b) -> Forall2 P l l' -> Forall2 Q l l'.
Proof. intros HI H. induction H; constructor; auto. Qed.

Lemma Forall2_length {A B} (P : A -> B -> Prop) l l' : Forall2 P l l' -> length l = length l'.
Proof. induction 1; cbn; congruence. Qed.

Lemma firstn_repeat_app {A} (a : A) v m : firstn v (repeat a (v + m)) = repeat a v.
Proof. induction v; cbn; [reflexivity|]. now rewrite IHv. Qed.
Lemma skipn_repeat_app {A} (a : A) v m : skipn v (repeat a (v + m)) = repeat a m.
Proof. induction v; cbn; auto. Qed.
Lemma reshape_repeat {A} (a : A) n v : reshape n v (repeat a (n * v)) = repeat (repeat a v) n.
Proof.
  induction n as [|n IH]; cbn; [reflexivity|].
  now rewrite firstn_repeat_app, skipn_repeat_app, IH.
Qed.
Lemma nth_repeat_lt {A} (a d : A) n p : p < n -> nth p (repeat a n) d = a.
Proof. revert p. induction n; intros [|p] H; cbn; try lia; auto. apply IHn. lia. Qed.
Lemma map_const_repeat {A B} (f : A -> B) (b : B) l : (forall x, In x l -> f x = b) -> map f l = repeat b (length l).
Proof. induction l as [|x l IH]; cbn; intro H; [reflexivity|]. rewrite H by now left. f_equal. apply IH. intros; apply H; now right. Qed.

Lemma Forall_firstn {A} (P : A -> Prop) n l : Forall P l -> Forall P (firstn n l).
Proof. revert l. induction n; intros [|x l] H; cbn; try constructor; inversion H; auto. Qed.
Lemma Forall_skipn {A} (P : A -> Prop) n l : Forall P l -> Forall P (skipn n l).
Proof. revert l. induction n; intros [|x l] H; cbn; auto. inversion H; auto. Qed.
Lemma reshape_Forall {A} (P : A -> Prop) n v (l : list A) : Forall P l -> Forall (Forall P) (reshape n v l).
Proof.
  revert l. induction n as [|n IH]; cbn; intros l H; constructor.
  - now apply Forall_firstn.
  - apply IH. now apply Forall_skipn.
Qed.

Inductive Forall3 {A B C} (R : A -> B -> C -> Prop) : list A -> list B -> list C -> Prop :=
| Forall3_nil : Forall3 R [] [] []
| Forall3_cons x y z a b c : R x y z -> Forall3 R a b c -> Forall3 R (x :: a) (y :: b) (z :: c).

Lemma map3_Forall3 {A B C} (f : A -> B -> C -> bool) a : forall b c,
  length a = length b -> length c = length b ->
  Forall (fun x => x = false) (map3 f a b c) -> Forall3 (fun x y z => f x y z = false) a b c.
Proof.
  induction a as [|x a IH]; intros [|y b] [|z c] H1 H2 HF; cbn in *; try discriminate; constructor.
  - now inversion HF.
  - apply IH; try lia. now inversion HF.
Qed.

Lemma existsb_id_false l : existsb (fun b : bool => b) l = false -> Forall (fun x => x = false) l.
Proof.
  induction l as [|b l IH]; cbn; intro H; constructor.
  - now apply orb_false_iff in H.
  - apply IH. now apply orb_false_iff in H.
Qed.

Lemma Forall2_of_all {A B} (R : A -> B -> Prop) (a : list A) : forall (b : list B),
  length a = length b -> (forall x y, In x a -> In y b -> R x y) -> Forall2 R a b.
Proof.
  induction a as [|x a IH]; intros [|y b] Hl H; cbn in *; try discriminate; constructor.
  - apply H; now left.
  - apply IH; [lia|]. intros; apply H; now right.
Qed.

Lemma NoDup_app_one {A} (l : list A) c : NoDup l -> ~ In c l -> NoDup (l ++ [c]).
Proof.
  induction l as [|x l IH]; cbn; intros Hn Hi; [constructor; [intros []|constructor]|].
  inversion Hn; subst. constructor.
  - intro H. apply in_app_or in H as [H|[H|[]]]; [contradiction|]. subst. apply Hi. now left.
  - apply IH; [assumption|]. intro H. apply Hi. now right.
Qed.

Lemma Forall3_nth {A B C} (R : A -> B -> C -> Prop) a : forall b c,
  length b = length a -> length c = length a ->
  (forall k x y z, nth_error a k = Some x -> nth_error b k = Some y -> nth_error c k = Some z -> R x y z) ->
  Forall3 R a b c.
Proof.
  induction a as [|x a IH]; intros [|y b] [|z c] H1 H2 H; cbn in *; try discriminate; constructor.
  - apply (H 0); reflexivity.
  - apply IH; try lia. intros k x' y' z' Ha Hb Hc. apply (H (S k)); assumption.
Qed.

Fixpoint all_some {A} (l : list (option A)) : option (list A) :=
  match l with
  | [] => Some []
  | Some a :: t => option_map (cons a) (all_some t)
  | None :: _ => None
  end.
(* fancy indexing l[idx]; an index out of range gives None (IndexError) *)
Definition pick {A} (l : list A) (idx : list nat) : option (list A) := all_some (map (nth_error l) idx).

Lemma NoDup_app_intro {A} (a b : list A) : NoDup a -> NoDup b -> (forall x, In x a -> ~ In x b) -> NoDup (a ++ b).
Proof.
  induction a as [|x a IH]; cbn; intros Ha Hb H; [assumption|]. inversion Ha; subst. constructor.
  - intro Hin. apply in_app_or in Hin as [Hin|Hin]; [contradiction|]. apply (H x); [now left|assumption].
  - apply IH; [assumption|assumption|]. intros y Hy. apply H. now right.
Qed.
Lemma NoDup_app_inv {A} (a b : list A) : NoDup (a ++ b) -> NoDup a /\ NoDup b /\ (forall x, In x a -> ~ In x b).
Proof.
  induction a as [|x a IH]; cbn; intro H; [split; [constructor|split; [assumption|intros ? []]]|].
  inversion H as [|? ? Hn H']; subst. destruct (IH H') as (Ha & Hb & Hd). repeat split; auto.
  - constructor; [|assumption]. intro Hi. apply Hn. apply in_or_app. now left.
  - intros y [<-|Hy]; [|auto]. intro Hi. apply Hn. apply in_or_app. now right.
Qed.

Lemma NoDup_firstn {A} n (l : list A) : NoDup l -> NoDup (firstn n l).
Proof.
  revert l. induction n as [|n IH]; intros [|x l] H; cbn; try constructor.
  - inversion H; subst. intro Hi. apply H2. clear - Hi. revert l Hi. induction n; intros [|y l] Hi; cbn in *; try contradiction.
    destruct Hi; [now left|right; auto].
  - inversion H; auto.
Qed.
Lemma incl_firstn {A} n (l : list A) : incl (firstn n l) l.
Proof. revert l. induction n; intros [|x l] y Hy; cbn in *; try contradiction. destruct Hy; [now left|right; now apply IHn]. Qed.
Lemma Forall_incl {A} (P : A -> Prop) l l' : incl l l' -> Forall P l' -> Forall P l.
Proof. intros Hi H. rewrite Forall_forall in *. auto. Qed.

Lemma filter_compl_length {A} (f g : A -> bool) (l : list A) :
  (forall x, In x l -> g x = negb (f x)) -> length (filter f l) + length (filter g l) = length l.
Proof.
  induction l as [|x l IH]; cbn; intro H; [reflexivity|].
  rewrite (H x) by now left. destruct (f x); cbn; rewrite <- IH by (intros; apply H; now right); lia.
Qed.

Lemma incl_skipn_aux {A} n (l : list A) : incl (skipn n l) l.
Proof. revert l. induction n; intros [|x l] y Hy; cbn in *; try assumption. right. now apply IHn. Qed.

Definition transpose {A} (dflt : A) (n : nat) (cols : list (list A)) : list (list A) :=
  map (fun i => map (fun c => nth i c dflt) cols) (seq 0 n).

Lemma last_In {A} (l : list A) d : l <> [] -> In (last l d) l.
Proof.
  induction l as [|a l IH]; intro H; [congruence|]. destruct l as [|b l']; [now left|].
  right. apply IH. discriminate.
Qed.

Lemma map_fst_combine_eq {A B} (a : list A) (b : list B) : length a = length b -> map fst (combine a b) = a.
Proof. revert b. induction a as [|x a IH]; intros [|y b] H; cbn in *; try discriminate; [reflexivity|]. f_equal. apply IH. lia. Qed.

Lemma nth_error_last {A} (l : list A) d : l <> [] -> nth_error l (length l - 1) = Some (last l d).
Proof.
  induction l as [|a l IH]; intro H; [congruence|]. destruct l as [|b l']; [reflexivity|].
  cbn [length]. replace (S (S (length l')) - 1) with (S (length (b :: l') - 1)) by (cbn; lia).
  cbn [nth_error]. rewrite IH by discriminate. reflexivity.
Qed.
