(* Number dictionaries: every model is written once over [num]; it is
   instantiated with exact rationals (theorems) and with binary64 (runs). *)
From Coq Require Import List Bool.
Import ListNotations.

Record num := {
  T :> Type;
  zero : T; one : T; two : T; half : T;
  of_nat : nat -> T;
  add : T -> T -> T; sub : T -> T -> T; mul : T -> T -> T; div : T -> T -> T;
  ltb : T -> T -> bool; leb : T -> T -> bool; eqb : T -> T -> bool
}.

(* extended numbers: infinities, NaN, absolute value, square root *)
Record xnum := {
  base :> num;
  pinf : base; ninf : base; qnan : base;
  isnan : base -> bool;
  absx : base -> base;
  negx : base -> base;
  sqrtx : base -> base
}.

Declare Scope num_scope.
Delimit Scope num_scope with num.

(* strict-weak-order laws used by all order-only theorems; [ok] restricts the
   carrier to the values on which the laws hold (finite floats, all rationals) *)
Record ord_laws (N : num) (ok : N -> Prop) := {
  lt_irrefl : forall x, ok x -> ltb N x x = false;
  lt_trans  : forall x y z, ok x -> ok y -> ok z ->
      ltb N x y = true -> ltb N y z = true -> ltb N x z = true;
  lt_cotrans : forall x y z, ok x -> ok y -> ok z ->
      ltb N x z = true -> ltb N x y = true \/ ltb N y z = true;
  le_is_not_gt : forall x y, ok x -> ok y -> leb N x y = negb (ltb N y x);
  eq_is_incomp : forall x y, ok x -> ok y ->
      eqb N x y = negb (ltb N x y) && negb (ltb N y x)
}.

Section OrdFacts.
Context {N : num} {ok : N -> Prop} (L : ord_laws N ok).

Lemma lt_asym x y : ok x -> ok y -> ltb N x y = true -> ltb N y x = false.
Proof.
  intros Hx Hy H. destruct (ltb N y x) eqn:E; [|reflexivity].
  pose proof (lt_trans _ _ L x y x Hx Hy Hx H E) as Ht.
  rewrite (lt_irrefl _ _ L x Hx) in Ht. discriminate.
Qed.

Lemma le_refl x : ok x -> leb N x x = true.
Proof. intro Hx. rewrite (le_is_not_gt _ _ L) by assumption. now rewrite (lt_irrefl _ _ L). Qed.

Lemma le_trans x y z : ok x -> ok y -> ok z ->
  leb N x y = true -> leb N y z = true -> leb N x z = true.
Proof.
  intros Hx Hy Hz. rewrite !(le_is_not_gt _ _ L) by assumption.
  intros H1 H2. destruct (ltb N z x) eqn:E; [|reflexivity].
  destruct (lt_cotrans _ _ L z y x Hz Hy Hx E) as [H|H]; rewrite H in *; discriminate.
Qed.

Lemma le_total x y : ok x -> ok y -> leb N x y = true \/ leb N y x = true.
Proof.
  intros Hx Hy. rewrite !(le_is_not_gt _ _ L) by assumption.
  destruct (ltb N y x) eqn:E; [right|left; reflexivity].
  now rewrite (lt_asym y x Hy Hx E).
Qed.

Lemma lt_le x y : ok x -> ok y -> ltb N x y = true -> leb N x y = true.
Proof. intros Hx Hy H. rewrite (le_is_not_gt _ _ L) by assumption. now rewrite (lt_asym x y Hx Hy H). Qed.

Lemma lt_le_trans x y z : ok x -> ok y -> ok z ->
  ltb N x y = true -> leb N y z = true -> ltb N x z = true.
Proof.
  intros Hx Hy Hz H1. rewrite (le_is_not_gt _ _ L) by assumption. intro H2.
  destruct (lt_cotrans _ _ L x z y Hx Hz Hy H1) as [H|H]; [exact H|]. rewrite H in H2. discriminate.
Qed.

Lemma le_lt_trans x y z : ok x -> ok y -> ok z ->
  leb N x y = true -> ltb N y z = true -> ltb N x z = true.
Proof.
  intros Hx Hy Hz. rewrite (le_is_not_gt _ _ L) by assumption. intros H1 H2.
  destruct (lt_cotrans _ _ L y x z Hy Hx Hz H2) as [H|H]; [|exact H]. rewrite H in H1. discriminate.
Qed.
End OrdFacts.
