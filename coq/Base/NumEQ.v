(* Extended rationals: exact arithmetic on finite values, IEEE-754 rules for +inf, -inf and NaN.
   This is the instance the theorems about crowding VALUES are proved for (the binary64 instance is the one that runs). *)
From Coq Require Import QArith Qabs Lqa Bool.
From PV Require Import Base.Num.

Inductive eq := Fin (q : Q) | PInf | NInf | ENaN.

Definition eneg (a : eq) : eq := match a with Fin q => Fin (- q) | PInf => NInf | NInf => PInf | ENaN => ENaN end.
Definition eadd (a b : eq) : eq :=
  match a, b with
  | ENaN, _ | _, ENaN => ENaN
  | Fin x, Fin y => Fin (x + y)
  | PInf, NInf | NInf, PInf => ENaN
  | PInf, _ | _, PInf => PInf
  | NInf, _ | _, NInf => NInf
  end.
Definition esub (a b : eq) : eq := eadd a (eneg b).
Definition qsign (x : Q) : comparison := (0 ?= x)%Q.      (* Lt: positive, Gt: negative, Eq: zero *)
Definition einf_signed (pos : bool) : eq := if pos then PInf else NInf.
Definition emul (a b : eq) : eq :=
  match a, b with
  | ENaN, _ | _, ENaN => ENaN
  | Fin x, Fin y => Fin (x * y)
  | Fin x, PInf | PInf, Fin x => match qsign x with Lt => PInf | Gt => NInf | Eq => ENaN end
  | Fin x, NInf | NInf, Fin x => match qsign x with Lt => NInf | Gt => PInf | Eq => ENaN end
  | PInf, PInf | NInf, NInf => PInf
  | PInf, NInf | NInf, PInf => NInf
  end.
Definition ediv (a b : eq) : eq :=
  match a, b with
  | ENaN, _ | _, ENaN => ENaN
  | Fin x, Fin y => match qsign y with
                    | Eq => match qsign x with Lt => PInf | Gt => NInf | Eq => ENaN end     (* x / 0 *)
                    | _ => Fin (x / y)
                    end
  | Fin _, PInf | Fin _, NInf => Fin 0
  | PInf, Fin y => match qsign y with Gt => NInf | _ => PInf end
  | NInf, Fin y => match qsign y with Gt => PInf | _ => NInf end
  | _, _ => ENaN                                                                              (* inf / inf *)
  end.
Definition eltb (a b : eq) : bool :=
  match a, b with
  | ENaN, _ | _, ENaN => false
  | Fin x, Fin y => negb (Qle_bool y x)
  | NInf, NInf | PInf, _ => false
  | NInf, _ => true
  | Fin _, PInf => true
  | Fin _, NInf => false
  end.
Definition eleb (a b : eq) : bool :=
  match a, b with
  | ENaN, _ | _, ENaN => false
  | Fin x, Fin y => Qle_bool x y
  | NInf, _ | _, PInf => true
  | _, _ => false
  end.
Definition eeqb (a b : eq) : bool :=
  match a, b with
  | Fin x, Fin y => Qeq_bool x y
  | PInf, PInf | NInf, NInf => true
  | _, _ => false
  end.
Definition eisnan (a : eq) : bool := match a with ENaN => true | _ => false end.
Definition eabs (a : eq) : eq := match a with Fin q => Fin (Qabs q) | PInf | NInf => PInf | ENaN => ENaN end.

Definition EQn : num := {|
  T := eq; zero := Fin 0; one := Fin 1; two := Fin 2; half := Fin (1 # 2);
  of_nat := fun n => Fin (inject_Z (Z.of_nat n));
  add := eadd; sub := esub; mul := emul; div := ediv;
  ltb := eltb; leb := eleb; eqb := eeqb |}.

(* sqrt is not available on rationals: placeholder, unused by the theorems *)
Definition EQx : xnum := {|
  base := EQn; pinf := PInf; ninf := NInf; qnan := ENaN; isnan := eisnan; absx := eabs; negx := eneg; sqrtx := fun x => x |}.

Definition isfin (a : eq) : Prop := exists q, a = Fin q.

(* the comparison on finite values is a strict weak order *)
Lemma EQn_ord : ord_laws EQn isfin.
Proof.
  constructor; cbn.
  - intros x [q ->]. cbn. destruct (Qle_bool q q) eqn:E; [reflexivity|]. exfalso.
    assert (Qle_bool q q = true) by (apply Qle_bool_iff; apply Qle_refl). congruence.
  - intros x y z [a ->] [b ->] [c ->]. cbn. rewrite !negb_true_iff. intros H1 H2.
    destruct (Qle_bool c a) eqn:E; [|reflexivity]. apply Qle_bool_iff in E.
    assert (Hba : ~ (b <= a)%Q) by (intro Hx; apply Qle_bool_iff in Hx; congruence).
    assert (Hcb : ~ (c <= b)%Q) by (intro Hx; apply Qle_bool_iff in Hx; congruence). lra.
  - intros x y z [a ->] [b ->] [c ->]. cbn. rewrite !negb_true_iff. intro H1.
    assert (Hca : ~ (c <= a)%Q) by (intro Hx; apply Qle_bool_iff in Hx; congruence).
    destruct (Qle_bool b a) eqn:E1; [|now left]. right. destruct (Qle_bool c b) eqn:E2; [|reflexivity].
    apply Qle_bool_iff in E1, E2. lra.
  - intros x y [a ->] [b ->]. cbn. now rewrite negb_involutive.
  - intros x y [a ->] [b ->]. cbn. rewrite !negb_involutive.
    destruct (Qeq_bool a b) eqn:E.
    + apply Qeq_bool_iff in E. symmetry. apply andb_true_iff. split; apply Qle_bool_iff; lra.
    + symmetry. apply andb_false_iff. destruct (Qle_bool b a) eqn:E1; [|now left]. destruct (Qle_bool a b) eqn:E2; [|now right].
      apply Qle_bool_iff in E1, E2. assert (Hab : (a == b)%Q) by lra. apply Qeq_bool_iff in Hab. congruence.
Qed.
