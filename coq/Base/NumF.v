(* IEEE-754 binary64: the instance that is run against NumPy *)
From Coq Require Import PrimFloat Uint63 ZArith Bool.
From PV Require Import Base.Num.

Definition f_of_nat (n : nat) : float := of_uint63 (Uint63.of_Z (Z.of_nat n)).

Definition Fn : num := {|
  T := float; zero := 0%float; one := 1%float; two := 2%float; half := 0.5%float;
  of_nat := f_of_nat;
  add := PrimFloat.add; sub := PrimFloat.sub; mul := PrimFloat.mul; div := PrimFloat.div;
  ltb := PrimFloat.ltb; leb := PrimFloat.leb; eqb := PrimFloat.eqb |}.

Definition Fx : xnum := {|
  base := Fn; pinf := infinity; ninf := neg_infinity; qnan := nan;
  isnan := is_nan; absx := abs; negx := PrimFloat.opp; sqrtx := PrimFloat.sqrt |}.

(* bit-level equality (NaNs identified): distinguishes the sign of zero *)
Definition fsame (x y : float) : bool :=
  (is_nan x && is_nan y) ||
  (PrimFloat.eqb x y && PrimFloat.eqb (1 / x) (1 / y)).
