(* On finite binary64 values the IEEE comparisons are the comparisons of the real numbers they denote (Flocq), hence a
   strict weak order: every order-only theorem of the development also holds for the number system the code computes in.
   This file is the only one that depends on the real-number axioms of the standard library (through Flocq). *)
From Coq Require Import Reals Lra Bool.
From Flocq Require Import Core.Raux IEEE754.BinarySingleNaN IEEE754.PrimFloat.
From Coq Require Import PrimFloat FloatOps.
From PV Require Import Base.Num Base.NumF.

Definition fin (x : float) : Prop := BinarySingleNaN.is_finite (Prim2B x) = true.
Definition fR (x : float) : R := B2R (Prim2B x).

Lemma ltb_R x y : fin x -> fin y -> PrimFloat.ltb x y = Rlt_bool (fR x) (fR y).
Proof. intros Hx Hy. rewrite ltb_equiv. apply Bltb_correct; assumption. Qed.
Lemma leb_R x y : fin x -> fin y -> PrimFloat.leb x y = Rle_bool (fR x) (fR y).
Proof. intros Hx Hy. rewrite leb_equiv. apply Bleb_correct; assumption. Qed.
Lemma eqb_R x y : fin x -> fin y -> PrimFloat.eqb x y = Req_bool (fR x) (fR y).
Proof. intros Hx Hy. rewrite eqb_equiv. apply Beqb_correct; assumption. Qed.

Lemma Fn_ord : ord_laws Fn fin.
Proof.
  constructor; cbn.
  - intros x Hx. rewrite ltb_R by assumption. apply Rlt_bool_false. lra.
  - intros x y z Hx Hy Hz. rewrite !ltb_R by assumption.
    do 2 (case Rlt_bool_spec; try discriminate; intro). intros _ _. apply Rlt_bool_true. lra.
  - intros x y z Hx Hy Hz. rewrite !ltb_R by assumption.
    case Rlt_bool_spec; try discriminate. intros H _.
    destruct (Rlt_bool_spec (fR x) (fR y)); [left; reflexivity|].
    right. apply Rlt_bool_true. lra.
  - intros x y Hx Hy. rewrite leb_R, ltb_R by assumption.
    case Rle_bool_spec; case Rlt_bool_spec; intros; try reflexivity; lra.
  - intros x y Hx Hy. rewrite eqb_R, !ltb_R by assumption.
    case Req_bool_spec; do 2 case Rlt_bool_spec; intros; try reflexivity; lra.
Qed.

Lemma fin_zero : fin (zero Fn).
Proof. reflexivity. Qed.

(* every binary64 value except NaN: the IEEE comparisons are those of the extended real line *)
Definition nonnanf (x : float) : Prop := BinarySingleNaN.is_nan (Prim2B x) = false.

(* position on the extended real line *)
Inductive ext := EN (s : bool) | ER (r : R).   (* EN true = -inf, EN false = +inf *)
Definition ext_of (b : binary_float prec emax) : ext :=
  match b with
  | B754_infinity s => EN s
  | _ => ER (B2R b)
  end.
Definition ext_lt (a b : ext) : bool :=
  match a, b with
  | EN true, EN true => false
  | EN true, _ => true
  | _, EN true => false
  | EN false, _ => false
  | ER _, EN false => true
  | ER x, ER y => Rlt_bool x y
  end.

Lemma Bltb_ext (x y : binary_float prec emax) : BinarySingleNaN.is_nan x = false -> BinarySingleNaN.is_nan y = false -> Bltb x y = ext_lt (ext_of x) (ext_of y).
Proof.
  intros Hx Hy. destruct x as [sx|sx| |sx mx ex Bx], y as [sy|sy| |sy my ey By]; try discriminate;
    try (cbn; destruct sx; try destruct sy; reflexivity); try (cbn; destruct sy; reflexivity).
  all: try (apply Bltb_correct; reflexivity).
Qed.

Definition ext_le (a b : ext) : bool :=
  match a, b with
  | EN true, _ => true
  | _, EN false => true
  | EN false, _ => false
  | ER _, EN true => false
  | ER x, ER y => Rle_bool x y
  end.
Definition ext_eq (a b : ext) : bool :=
  match a, b with
  | EN s, EN t => Bool.eqb s t
  | ER x, ER y => Req_bool x y
  | _, _ => false
  end.

Lemma Bleb_ext (x y : binary_float prec emax) : BinarySingleNaN.is_nan x = false -> BinarySingleNaN.is_nan y = false ->
  Bleb x y = ext_le (ext_of x) (ext_of y).
Proof.
  intros Hx Hy. destruct x as [sx|sx| |sx mx ex Bx], y as [sy|sy| |sy my ey By]; try discriminate;
    try (cbn; destruct sx; try destruct sy; reflexivity); try (cbn; destruct sy; reflexivity).
  all: try (apply Bleb_correct; reflexivity).
Qed.

Lemma Beqb_ext (x y : binary_float prec emax) : BinarySingleNaN.is_nan x = false -> BinarySingleNaN.is_nan y = false ->
  Beqb x y = ext_eq (ext_of x) (ext_of y).
Proof.
  intros Hx Hy. destruct x as [sx|sx| |sx mx ex Bx], y as [sy|sy| |sy my ey By]; try discriminate;
    try (cbn; destruct sx; try destruct sy; reflexivity); try (cbn; destruct sy; reflexivity).
  all: try (apply Beqb_correct; reflexivity).
Qed.

Definition fext (x : float) : ext := ext_of (Prim2B x).

Lemma ltb_ext x y : nonnanf x -> nonnanf y -> PrimFloat.ltb x y = ext_lt (fext x) (fext y).
Proof. intros Hx Hy. rewrite ltb_equiv. now apply Bltb_ext. Qed.
Lemma leb_ext x y : nonnanf x -> nonnanf y -> PrimFloat.leb x y = ext_le (fext x) (fext y).
Proof. intros Hx Hy. rewrite leb_equiv. now apply Bleb_ext. Qed.
Lemma eqb_ext x y : nonnanf x -> nonnanf y -> PrimFloat.eqb x y = ext_eq (fext x) (fext y).
Proof. intros Hx Hy. rewrite eqb_equiv. now apply Beqb_ext. Qed.

Ltac rb := repeat match goal with
  | |- context [Rlt_bool ?a ?b] => destruct (Rlt_bool_spec a b)
  | H : context [Rlt_bool ?a ?b] |- _ => destruct (Rlt_bool_spec a b)
  | |- context [Rle_bool ?a ?b] => destruct (Rle_bool_spec a b)
  | |- context [Req_bool ?a ?b] => destruct (Req_bool_spec a b)
  end.

Lemma Fn_ord_nn : ord_laws Fn nonnanf.
Proof.
  constructor; cbn.
  - intros x Hx. rewrite ltb_ext by assumption. destruct (fext x) as [[|]|r]; cbn; try reflexivity. apply Rlt_bool_false. lra.
  - intros x y z Hx Hy Hz. rewrite !ltb_ext by assumption.
    destruct (fext x) as [[|]|a], (fext y) as [[|]|b], (fext z) as [[|]|c]; cbn; try discriminate; try reflexivity; intros; rb; try discriminate; try reflexivity; lra.
  - intros x y z Hx Hy Hz. rewrite !ltb_ext by assumption.
    destruct (fext x) as [[|]|a], (fext y) as [[|]|b], (fext z) as [[|]|c]; cbn; try discriminate; intros; try (left; reflexivity); try (right; reflexivity); rb; try discriminate; try (left; reflexivity); try (right; reflexivity); lra.
  - intros x y Hx Hy. rewrite leb_ext, ltb_ext by assumption.
    destruct (fext x) as [[|]|a], (fext y) as [[|]|b]; cbn; try reflexivity; rb; try reflexivity; lra.
  - intros x y Hx Hy. rewrite eqb_ext, !ltb_ext by assumption.
    destruct (fext x) as [[|]|a], (fext y) as [[|]|b]; cbn; try reflexivity; rb; try reflexivity; lra.
Qed.

Lemma nonnanf_inf : nonnanf infinity. Proof. reflexivity. Qed.
