(* On finite binary64 values the IEEE comparisons are the comparisons of the real numbers they denote (Flocq), hence a
   strict weak order: every order-only theorem of the development also holds for the number system the code computes in.
   This file is the only one that depends on the real-number axioms of the standard library (through Flocq). *)
From Coq Require Import Reals Lra Bool.
From Flocq Require Import Core.Raux IEEE754.BinarySingleNaN IEEE754.PrimFloat.
From Coq Require Import PrimFloat.
From PV Require Import Base.Num Base.NumF.

Definition fin (x : float) : Prop := BinarySingleNaN.is_finite (Prim2B x) = true.
Definition fR (x : float) : R := B2R (Prim2B x).

Lemma ltb_R x y : fin x -> fin y -> PrimFloat.ltb x y = Rlt_bool (fR x) (fR y).
Proof. intros Hx Hy. rewrite ltb_equiv. apply Bltb_correct; assumption. Qed.
Lemma leb_R x y : fin x -> fin y -> PrimFloat.leb x y = Rle_bool (fR x) (fR y).
Proof. intros Hx Hy. rewrite leb_equiv. apply Bleb_correct; assumption. Qed.
Lemma eqb_R x y : fin x -> fin y -> PrimFloat.eqb x y = Req_bool (fR x) (fR y).
Proof. intros Hx Hy. rewrite eqb_equiv. apply Beqb_correct; assumption. Qed.

Lemma Fn_ord : ord_laws Fn fin.
Proof.
  constructor; cbn.
  - intros x Hx. rewrite ltb_R by assumption. apply Rlt_bool_false. lra.
  - intros x y z Hx Hy Hz. rewrite !ltb_R by assumption.
    do 2 (case Rlt_bool_spec; try discriminate; intro). intros _ _. apply Rlt_bool_true. lra.
  - intros x y z Hx Hy Hz. rewrite !ltb_R by assumption.
    case Rlt_bool_spec; try discriminate. intros H _.
    destruct (Rlt_bool_spec (fR x) (fR y)); [left; reflexivity|].
    right. apply Rlt_bool_true. lra.
  - intros x y Hx Hy. rewrite leb_R, ltb_R by assumption.
    case Rle_bool_spec; case Rlt_bool_spec; intros; try reflexivity; lra.
  - intros x y Hx Hy. rewrite eqb_R, !ltb_R by assumption.
    case Req_bool_spec; do 2 case Rlt_bool_spec; intros; try reflexivity; lra.
Qed.

Lemma fin_zero : fin (zero Fn).
Proof. reflexivity. Qed.
