(* exact rationals *)
From Coq Require Import QArith Qabs Lqa Bool.
From PV Require Import Base.Num.

Definition Qltb (x y : Q) : bool := negb (Qle_bool y x).

Definition Qn : num := {|
  T := Q; zero := 0; one := 1; two := 2; half := 1 # 2;
  of_nat := fun n => inject_Z (Z.of_nat n);
  add := Qplus; sub := Qminus; mul := Qmult; div := Qdiv;
  ltb := Qltb; leb := Qle_bool; eqb := Qeq_bool |}.

Lemma Qltb_lt x y : Qltb x y = true <-> x < y.
Proof.
  unfold Qltb. rewrite negb_true_iff. split.
  - intro H. apply Qnot_le_lt. intro Hle. apply Qle_bool_iff in Hle. congruence.
  - intro H. destruct (Qle_bool y x) eqn:E; [|reflexivity].
    apply Qle_bool_iff in E. exfalso. apply (Qlt_not_le _ _ H E).
Qed.
Lemma Qltb_ge x y : Qltb x y = false <-> y <= x.
Proof.
  unfold Qltb. rewrite negb_false_iff. apply Qle_bool_iff.
Qed.
Lemma Qleb_le x y : Qle_bool x y = true <-> x <= y.
Proof. apply Qle_bool_iff. Qed.
Lemma Qleb_gt x y : Qle_bool x y = false <-> y < x.
Proof.
  split.
  - intro H. apply Qnot_le_lt. intro Hle. apply Qle_bool_iff in Hle. congruence.
  - intro H. destruct (Qle_bool x y) eqn:E; [|reflexivity].
    apply Qle_bool_iff in E. exfalso. apply (Qlt_not_le _ _ H E).
Qed.

Lemma Qn_ord : ord_laws Qn (fun _ => True).
Proof.
  constructor; cbn; intros.
  - apply Qltb_ge. apply Qle_refl.
  - apply Qltb_lt. apply Qltb_lt in H2, H3. lra.
  - apply Qltb_lt in H2. destruct (Qlt_le_dec x y) as [Hl|Hl].
    + left. now apply Qltb_lt.
    + right. apply Qltb_lt. lra.
  - unfold Qltb. now rewrite negb_involutive.
  - unfold Qltb. rewrite !negb_involutive.
    destruct (Qeq_bool x y) eqn:E.
    + apply Qeq_bool_iff in E. symmetry. apply andb_true_iff. split; apply Qle_bool_iff; lra.
    + symmetry. apply andb_false_iff.
      destruct (Qle_bool y x) eqn:E1; [|now left]. destruct (Qle_bool x y) eqn:E2; [|now right].
      apply Qle_bool_iff in E1, E2. assert (x == y) by lra. apply Qeq_bool_iff in H1. congruence.
Qed.

(* extended-number dictionary over Q for the functions that use only abs / neg (no infinities, no square root):
   the remaining fields are placeholders and no theorem depends on them *)
Definition Qx : xnum := {|
  base := Qn; pinf := 0; ninf := 0; qnan := 0; isnan := fun _ => false;
  absx := Qabs; negx := Qopp; sqrtx := fun x => x |}.
