(* results, draw events and the draw-consuming monad *)
From Coq Require Import List Bool Arith.
Import ListNotations.

Inductive err := OutOfDraws | Desync (site : nat) | OOB (site : nat) | BadShape (site : nat) | Fuel.
Inductive res (A : Type) := Ok (a : A) | Err (e : err).
Arguments Ok {A} a. Arguments Err {A} e.

Definition rbind {A B} (r : res A) (f : A -> res B) : res B :=
  match r with Ok a => f a | Err e => Err e end.

(* what the code obtains from numpy.random, in call order *)
Inductive event (T : Type) :=
| ERand (shape : list nat) (vals : list T)          (* np.random.random(shape); [] = scalar call *)
| EChoice (n k : nat) (vals : list nat)             (* np.random.choice(n, k) *)
| ERandint (lo hi : nat) (size : option nat) (vals : list nat)  (* np.random.randint(lo, hi, size) *)
| EPerm (n : nat) (vals : list nat).                (* np.random.permutation(n) *)
Arguments ERand {T}. Arguments EChoice {T}. Arguments ERandint {T}. Arguments EPerm {T}.

(* state monad over a stream of events: draw events (M) or oracle answers (Model/RankCrowd.v) *)
Definition SM (E A : Type) := list E -> res (A * list E).
Definition M (T A : Type) := SM (event T) A.
Definition ret {E A} (a : A) : SM E A := fun s => Ok (a, s).
Definition bind {E A B} (m : SM E A) (f : A -> SM E B) : SM E B :=
  fun s => match m s with Ok (a, s') => f a s' | Err e => Err e end.
Definition fail {E A} (e : err) : SM E A := fun _ => Err e.
Definition lift {E A} (site : nat) (o : option A) : SM E A :=
  match o with Some a => ret a | None => fail (BadShape site) end.

Notation "x <- e ;; k" := (bind e (fun x => k)) (at level 61, e at next level, right associativity).
Notation "' p <- e ;; k" := (bind e (fun p => k)) (at level 61, p pattern, e at next level, right associativity).

Definition list_nat_eqb (a b : list nat) : bool :=
  (length a =? length b) && forallb (fun p => fst p =? snd p) (combine a b).

Fixpoint prodn (l : list nat) : nat := match l with [] => 1 | x :: t => x * prodn t end.

(* next event must be a float draw of exactly this shape *)
Definition draw_rand {T} (site : nat) (shape : list nat) : M T (list T) := fun s =>
  match s with
  | ERand sh vals :: s' =>
      if list_nat_eqb sh shape && (length vals =? prodn shape) then Ok (vals, s') else Err (Desync site)
  | _ :: _ => Err (Desync site)
  | [] => Err OutOfDraws
  end.

Definition draw_choice {T} (site n k : nat) : M T (list nat) := fun s =>
  match s with
  | EChoice n' k' vals :: s' =>
      if (n' =? n) && (k' =? k) && (length vals =? k) && forallb (fun v => v <? n) vals
      then Ok (vals, s') else Err (Desync site)
  | _ :: _ => Err (Desync site)
  | [] => Err OutOfDraws
  end.

Definition opt_nat_eqb (a b : option nat) : bool :=
  match a, b with Some x, Some y => x =? y | None, None => true | _, _ => false end.

Definition draw_randint {T} (site lo hi : nat) (size : option nat) : M T (list nat) := fun s =>
  match s with
  | ERandint lo' hi' size' vals :: s' =>
      if (lo' =? lo) && (hi' =? hi) && opt_nat_eqb size' size &&
         (length vals =? match size with Some k => k | None => 1 end) &&
         forallb (fun v => (lo <=? v) && (v <? hi)) vals
      then Ok (vals, s') else Err (Desync site)
  | _ :: _ => Err (Desync site)
  | [] => Err OutOfDraws
  end.

Lemma bind_ok {E A B} (m : SM E A) (f : A -> SM E B) s b s2 :
  bind m f s = Ok (b, s2) -> exists a s1, m s = Ok (a, s1) /\ f a s1 = Ok (b, s2).
Proof.
  unfold bind. destruct (m s) as [[a s1]|e]; [|discriminate]. intro H. now exists a, s1.
Qed.

Lemma ret_ok {E A} (a b : A) (s s' : list E) : ret a s = Ok (b, s') -> a = b /\ s = s'.
Proof. unfold ret. intro H. now inversion H. Qed.

Lemma lift_ok {E A} site (o : option A) (s s' : list E) a :
  lift site o s = Ok (a, s') -> o = Some a /\ s = s'.
Proof. destruct o; cbn; unfold ret, fail; intro H; inversion H; auto. Qed.

Lemma list_nat_eqb_eq a b : list_nat_eqb a b = true -> a = b.
Proof.
  unfold list_nat_eqb. rewrite andb_true_iff. revert b.
  induction a as [|x a IH]; intros [|y b] [Hl Hf]; try discriminate; [reflexivity|].
  cbn in *. apply andb_true_iff in Hf as [Hxy Hf]. apply Nat.eqb_eq in Hxy. subst.
  f_equal. apply IH. split; assumption.
Qed.

Lemma draw_rand_ok {T} site shape (s s' : list (event T)) vals :
  draw_rand site shape s = Ok (vals, s') ->
  s = ERand shape vals :: s' /\ length vals = prodn shape.
Proof.
  unfold draw_rand. destruct s as [|[sh v|? ? ?|? ? ? ?|? ?] s0]; try discriminate.
  destruct (list_nat_eqb sh shape) eqn:E1; cbn; [|discriminate].
  destruct (length v =? prodn shape) eqn:E2; [|discriminate].
  intro H. inversion H; subst. apply list_nat_eqb_eq in E1. apply Nat.eqb_eq in E2. subst. auto.
Qed.

Lemma draw_choice_ok {T} site n k (s s' : list (event T)) vals :
  draw_choice site n k s = Ok (vals, s') ->
  s = EChoice n k vals :: s' /\ length vals = k /\ Forall (fun v => v < n) vals.
Proof.
  unfold draw_choice. destruct s as [|[sh v|n' k' v|? ? ? ?|? ?] s0]; try discriminate.
  destruct ((n' =? n) && (k' =? k) && (length v =? k) && forallb (fun v => v <? n) v) eqn:E; [|discriminate].
  intro H. inversion H; subst.
  apply andb_true_iff in E as [E E4]. apply andb_true_iff in E as [E E3]. apply andb_true_iff in E as [E1 E2].
  apply Nat.eqb_eq in E1, E2, E3. subst. split; [reflexivity|]. split; [reflexivity|].
  apply Forall_forall. intros x Hx. rewrite forallb_forall in E4. apply Nat.ltb_lt. auto.
Qed.

Lemma draw_randint_ok {T} site lo hi size (s s' : list (event T)) vals :
  draw_randint site lo hi size s = Ok (vals, s') ->
  s = ERandint lo hi size vals :: s' /\
  length vals = match size with Some k => k | None => 1 end /\
  Forall (fun v => lo <= v < hi) vals.
Proof.
  unfold draw_randint. destruct s as [|[sh v|n' k' v|lo' hi' size' v|? ?] s0]; try discriminate.
  match goal with |- (if ?c then _ else _) = _ -> _ => destruct c eqn:E; [|discriminate] end.
  intro H. inversion H; subst.
  apply andb_true_iff in E as [E E5]. apply andb_true_iff in E as [E E4].
  apply andb_true_iff in E as [E E3]. apply andb_true_iff in E as [E1 E2].
  apply Nat.eqb_eq in E1, E2, E4.
  assert (size' = size) as ->.
  { destruct size', size; cbn in E3; try discriminate; [apply Nat.eqb_eq in E3; now subst|reflexivity]. }
  subst. split; [reflexivity|]. split; [assumption|].
  apply Forall_forall. intros x Hx. rewrite forallb_forall in E5. specialize (E5 x Hx).
  apply andb_true_iff in E5 as [H1 H1']. apply Nat.leb_le in H1. apply Nat.ltb_lt in H1'. auto.
Qed.
