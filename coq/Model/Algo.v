(* pymoode/algorithms : one generation (tell) of DE / NSDE / GDE3 and EvolutionaryAlgorithm, and _set_optimum.
   Populations are lists of individuals; results are indices into the candidate list, so "same object" is
   identity of indices and evaluated individuals are immutable. *)
From Coq Require Import List Bool Arith ZArith.
From PV Require Import Base.Num Base.Res Base.ListX Model.Dominance Model.RankCrowd.
Import ListNotations.

Section Algo.
Context {N : num}.
Notation ind := (mind N).

(* GDE3._advance: candidates handed to the survival, slot by slot; parent k = index k, offspring k = index n + k *)
Definition gde3_slot (n k : nat) (p o : ind) : list nat :=
  let rel := get_relation (m_f p) (m_f o) (m_cv p) (m_cv o) in
  if Z.eqb rel 0 then [k; n + k] else if Z.eqb rel (-1) then [n + k] else [k].

Fixpoint gde3_cands_aux (n k : nat) (pop off : list ind) : list nat :=
  match pop, off with
  | p :: pop', o :: off' => gde3_slot n k p o ++ gde3_cands_aux n (S k) pop' off'
  | _, _ => []
  end.
Definition gde3_candidates (pop off : list ind) : list nat := gde3_cands_aux (length pop) 0 pop off.

Inductive survk := SRnC | SCRnC.

(* survival.do(problem, candidates, n_survive): indices into the candidate list, and the rank attributes written *)
Definition survive (sk : survk) (constr : bool) (cands : list ind) (n : nat)
  : SM (oevent N) (list nat * list (nat * nat * N)) :=
  match sk with
  | SRnC => rnc_survival constr cands n
  | SCRnC => '(s, a, _) <- crnc_survival constr cands n ;; ret (s, a)
  end.

(* NSDE._advance / EvolutionaryAlgorithm._advance: merge, then truncate *)
Definition mu_plus_lambda (sk : survk) (constr : bool) (pop off : list ind) (n : nat) :=
  survive sk constr (pop ++ off) n.

(* GDE3._advance *)
Definition gde3_step (sk : survk) (constr : bool) (pop off : list ind) (n : nat)
  : SM (oevent N) (list nat * list (nat * nat * N)) :=
  let cand_idx := gde3_candidates pop off in
  cands <- lift 701 (pick (pop ++ off) cand_idx) ;;
  '(s, a) <- survive sk constr cands n ;;
  s' <- lift 702 (pick cand_idx s) ;;
  a' <- lift 703 (all_some (map (fun t => match nth_error cand_idx (fst (fst t)) with
                                          | Some i => Some (i, snd (fst t), snd t) | None => None end) a)) ;;
  ret (s', a').

(* _set_optimum: least-CV member if nothing is feasible, else the members whose rank attribute is 0 *)
Fixpoint argmin_cv (l : list ind) (i best : nat) (bv : N) : nat :=
  match l with
  | [] => best
  | p :: t => if ltb N (m_cv p) bv then argmin_cv t (S i) i (m_cv p) else argmin_cv t (S i) best bv
  end.

Definition set_optimum (pop : list ind) (ranks : list (option nat)) : list nat :=
  if existsb (@m_feas N) pop then
    filter (fun i => match nth i ranks None with Some 0 => true | _ => false end) (seq 0 (length pop))
  else match pop with [] => [] | p :: t => [argmin_cv t 1 0 (m_cv p)] end.
End Algo.
