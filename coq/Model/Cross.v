(* pymoode/operators/dex.py : cross_binomial, cross_exp, row_at_least_once_true, DEX._do *)
From Coq Require Import List Bool Arith.
From PV Require Import Base.Num Base.Res Base.ListX.
Import ListNotations.

Definition has_true (r : list bool) : bool := existsb (fun b => b) r.

Section Cross.
Context {N : num}.

(* for k in np.where(~np.any(M, axis=1))[0]: M[k, np.random.randint(d)] = True *)
Definition force_row (v : nat) (r : list bool) : M N (list bool) :=
  if has_true r then ret r
  else js <- draw_randint 201 0 v None ;;
       match js with [j] => ret (set_nth j true r) | _ => fail (BadShape 201) end.

Definition at_least_once (v : nat) (rows : list (list bool)) : M N (list (list bool)) :=
  map_M (force_row v) rows.

(* M = np.random.random((n_matings, n_var)) < prob *)
Definition cross_binomial (n v : nat) (cr : N) (alo : bool) : M N (list (list bool)) :=
  us <- draw_rand 202 [n; v] ;;
  let rows := reshape n v (map (fun u => ltb N u cr) us) in
  if alo then at_least_once v rows else ret rows.

(* inner loop of cross_exp: j-th step of the row that started at [start] *)
Fixpoint exp_row (cr : N) (v start j fuel : nat) (mask : list bool) : M N (list bool) :=
  match fuel with
  | O => ret mask
  | S fuel' =>
      us <- draw_rand 203 [] ;;
      match us with
      | [u] => if ltb N u cr
               then exp_row cr v start (S j) fuel' (set_nth ((start + j) mod v) true mask)
               else ret mask
      | _ => fail (BadShape 203)
      end
  end.

Definition cross_exp (n v : nat) (cr : N) (alo : bool) : M N (list (list bool)) :=
  ss <- draw_randint 204 0 v (Some n) ;;
  rows <- map_M (fun s => exp_row cr v s 0 v (repeat false v)) ss ;;
  if alo then at_least_once v rows else ret rows.

Inductive cx := Bin | Exp.
Definition cross_mask (c : cx) := match c with Bin => cross_binomial | Exp => cross_exp end.

(* U = np.array(X_, copy=True); U[M] = V[M] *)
Definition apply_mask {A} (rows : list (list bool)) (X V : list (list A)) : list (list A) :=
  map3 (fun r x v => map3 (fun (m : bool) xi vi => if m then vi else xi) r x v) rows X V.

Definition dex (c : cx) (cr : N) (alo : bool) (X V : list (list N)) : M N (list (list N)) :=
  let n := length X in let v := length (hd [] X) in
  rows <- cross_mask c n v cr alo ;;
  ret (apply_mask rows X V).
End Cross.
