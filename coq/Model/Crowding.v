(* pymoode/survival/rank_and_crowding/metrics.py : CrowdingDiversity.do, FunctionalDiversity._do (duplicate filter,
   short fronts), FuncionalDiversityMNN._do, calc_crowding_distance, calc_crowding_entropy;
   pymoo.util.misc.find_duplicates (epsilon = 1e-32). *)
From Coq Require Import List Bool Arith.
From PV Require Import Base.Num Base.Res Base.ListX.
Import ListNotations.

Section Crowding.
Context {X : xnum}.
Notation N := (base X).
Notation "a + b" := (add N a b). Notation "a - b" := (sub N a b).
Notation "a * b" := (mul N a b). Notation "a / b" := (div N a b).

Definition col (F : list (list N)) (m : nat) : list N := map (fun r => nth m r (qnan X)) F.

(* np.argsort(kind="mergesort") of one column: stable insertion by '<' *)
Fixpoint ins_idx (v : list N) (i : nat) (l : list nat) : list nat :=
  match l with
  | [] => [i]
  | h :: t => if ltb N (nth i v (qnan X)) (nth h v (qnan X)) then i :: l else h :: ins_idx v i t
  end.
Definition argsort (v : list N) : list nat := fold_left (fun acc i => ins_idx v i acc) (seq 0 (length v)) [].

Definition nan0 (x : N) : N := if isnan X x then zero N else x.

(* out[idx[k]] = vals[k] *)
Definition scatter (n : nat) (idx : list nat) (vals : list N) : list N :=
  fold_left (fun acc p => set_nth (fst p) (snd p) acc) (combine idx vals) (repeat (zero N) n).

(* np.sum(A, axis=1) for fewer than 8 columns: left to right *)
Definition sum_lr (l : list N) : N := match l with [] => zero N | x :: t => fold_left (add N) t x end.
Definition prod_lr (l : list N) : N := match l with [] => one N | x :: t => fold_left (mul N) t x end.

(* transpose of a list of columns, each of length n *)
Definition rows_of (n : nat) (cols : list (list N)) : list (list N) :=
  map (fun i => map (fun c => nth i c (qnan X)) cols) (seq 0 n).

(* one objective of calc_crowding_distance: contribution of every point, in the original order *)
Definition cd_col (v : list N) : list N :=
  let n := length v in
  let idx := argsort v in
  let s := map (fun i => nth i v (qnan X)) idx in
  let first := nth 0 s (qnan X) in let lst := nth (n - 1) s (qnan X) in
  let norm0 := lst - first in
  let norm := if eqb N norm0 (zero N) then qnan X else norm0 in
  let prev := ninf X :: s in                 (* F[k-1], with -inf before the first *)
  let next := tl s ++ [pinf X] in            (* F[k+1], with +inf after the last *)
  let dl := map2 (fun a b => nan0 ((a - b) / norm)) s prev in
  let dn := map2 (fun a b => nan0 ((b - a) / norm)) s next in
  scatter n idx (map2 (add N) dl dn).

Definition calc_crowding_distance (F : list (list N)) : list N :=
  let n := length F in let m := length (hd [] F) in
  let cols := map (fun j => cd_col (col F j)) (seq 0 m) in
  map (fun r => sum_lr r / of_nat N m) (rows_of n cols).

(* crowding entropy needs log2 (libm): oracle.  lg = list of (argument, value) pairs recorded from np.log2;
   the model looks its arguments up (bit-identical) and fails if one is missing. *)
Definition lookup_log (feq : N -> N -> bool) (lg : list (N * N)) (x : N) : option N :=
  match find (fun p => feq (fst p) x) lg with Some p => Some (snd p) | None => None end.

Definition ce_col (feq : N -> N -> bool) (lg : list (N * N)) (v : list N) : option (list N) :=
  let n := length v in
  let idx := argsort v in
  let s := map (fun i => nth i v (qnan X)) idx in
  let first := nth 0 s (qnan X) in let lst := nth (n - 1) s (qnan X) in
  let norm0 := lst - first in
  let norm := if eqb N norm0 (zero N) then qnan X else norm0 in
  let prev := ninf X :: s in
  let next := tl s ++ [pinf X] in
  let dl := map2 (fun a b => nan0 (a - b)) s prev in
  let du := map2 (fun a b => nan0 (b - a)) s next in
  let cd := map2 (add N) dl du in
  (* entropy: +inf in the first and last sorted row, -(pl*log2(pl) + pu*log2(pu)) inside *)
  let ent := map3 (fun k lu c =>
                     if (k =? 0) || (k =? n - 1) then Some (pinf X) else
                     let pl := fst lu / c in let pu := snd lu / c in
                     match lookup_log feq lg pl, lookup_log feq lg pu with
                     | Some ll, Some l2 => Some (negx X (pl * ll + pu * l2))
                     | _, _ => None
                     end) (seq 0 n) (combine dl du) cd in
  match all_some ent with
  | Some e => Some (scatter n idx (map2 (fun c en => nan0 (c * en / norm)) cd e))
  | None => None
  end.

Definition calc_crowding_entropy (feq : N -> N -> bool) (lg : list (N * N)) (F : list (list N)) : option (list N) :=
  let n := length F in let m := length (hd [] F) in
  match all_some (map (fun j => ce_col feq lg (col F j)) (seq 0 m)) with
  | Some cols => Some (map sum_lr (rows_of n cols))
  | None => None
  end.

(* pymoo find_duplicates(F, epsilon=1e-32): Euclidean distance to an EARLIER row <= epsilon *)
Definition edist (a b : list N) : N :=
  sqrtx X (fold_left (fun acc p => acc + (fst p - snd p) * (fst p - snd p)) (combine a b) (zero N)).
Fixpoint dup_flags (eps : N) (seen rest : list (list N)) : list bool :=
  match rest with
  | [] => []
  | r :: t => existsb (fun q => leb N (edist r q) eps) seen :: dup_flags eps (seen ++ [r]) t
  end.

(* FunctionalDiversity._do / FuncionalDiversityMNN._do around an inner metric [f] *)
Definition functional_diversity (eps : N) (filter_dups mnn_rule : bool) (f : list (list N) -> option (list N))
                                (F : list (list N)) : option (list N) :=
  let n := length F in let m := length (hd [] F) in
  if (mnn_rule && (n <=? m)) || (n <=? 2) then Some (repeat (pinf X) n) else
  let flags := if filter_dups then dup_flags eps [] F else repeat false n in
  let uniq := filter (fun i => negb (nth i flags false)) (seq 0 n) in
  match pick F uniq with
  | None => None
  | Some Fu =>
      match f Fu with
      | None => None
      | Some d => if length d =? length uniq then Some (scatter n uniq d) else None
      end
  end.
End Crowding.
