(* Pareto / constraint domination; pymoo Dominator.get_relation; checker for non-dominated sorting answers *)
From Coq Require Import List Bool Arith ZArith.
From PV Require Import Base.Num Base.ListX.
Import ListNotations.

Section Dominance.
Context {N : num}.

(* independent statement of Pareto domination on equal-length objective vectors *)
Inductive weakly : list N -> list N -> Prop :=
| w_nil : weakly [] []
| w_cons x y a b : ltb N y x = false -> weakly a b -> weakly (x :: a) (y :: b).
Inductive strictly_somewhere : list N -> list N -> Prop :=
| s_here x y a b : ltb N x y = true -> length a = length b -> strictly_somewhere (x :: a) (y :: b)
| s_later x y a b : strictly_somewhere a b -> strictly_somewhere (x :: a) (y :: b).
Definition pdom (a b : list N) : Prop := weakly a b /\ strictly_somewhere a b.

(* pymoo Dominator.get_relation, objective loop: val in {0, 1, -1}, early exit with 0 *)
Fixpoint rel_loop (a b : list N) (val : Z) : Z :=
  match a, b with
  | x :: a', y :: b' =>
      if ltb N x y then (if Z.eqb val (-1) then 0 else rel_loop a' b' 1)
      else if ltb N y x then (if Z.eqb val 1 then 0 else rel_loop a' b' (-1))
      else rel_loop a' b' val
  | _, _ => val
  end%Z.

(* get_relation(ind_a, ind_b): total violation first, then the objectives *)
Definition get_relation (fa fb : list N) (cva cvb : N) : Z :=
  if ltb N cva cvb then 1%Z else if ltb N cvb cva then (-1)%Z else rel_loop fa fb 0%Z.

Definition pdomb (a b : list N) : bool := Z.eqb (rel_loop a b 0%Z) 1%Z.

(* ---- checking an answer of NonDominatedSorting.do(F, n_stop_if_ranked) ---- *)
Definition memb (i : nat) (l : list nat) : bool := existsb (Nat.eqb i) l.
Fixpoint nodupb (l : list nat) : bool :=
  match l with [] => true | x :: t => negb (memb x t) && nodupb t end.

Definition nondominated_in (F : list (list N)) (remaining : list nat) (i : nat) : bool :=
  negb (existsb (fun j => pdomb (nth j F []) (nth i F [])) remaining).

Fixpoint fronts_ok (F : list (list N)) (n : nat) (assigned : list nat) (fronts : list (list nat)) : bool :=
  match fronts with
  | [] => true
  | fr :: rest =>
      let remaining := filter (fun i => negb (memb i assigned)) (seq 0 n) in
      let nd := filter (nondominated_in F remaining) remaining in
      (length fr =? length nd) && forallb (fun i => memb i nd) fr && nodupb fr
      && negb (length fr =? 0) && fronts_ok F n (assigned ++ fr) rest
  end.

Definition is_ndsb (F : list (list N)) (n_stop : nat) (fronts : list (list nat)) : bool :=
  let n := length F in
  let tot := length (concat fronts) in
  fronts_ok F n [] fronts
  && ((tot =? n) || (n_stop <=? tot))
  && (length (concat (removelast fronts)) <? n_stop).
End Dominance.
