(* pymoode/misc/mnn.py (calc_mnn, also used for 2nn) and pymoode/misc/pruning_cd.py (calc_pcd): the pure-Python engines *)
From Coq Require Import List Bool Arith ZArith.
From PV Require Import Base.Num Base.Res Base.ListX Model.Crowding.
Import ListNotations.

Section Fallback.
Context {X : xnum}.
Notation N := (base X).
Notation "a + b" := (add N a b). Notation "a - b" := (sub N a b).
Notation "a * b" := (mul N a b). Notation "a / b" := (div N a b).

(* np.argmin / np.argmax along a column: first occurrence *)
Fixpoint arg_first (better : N -> N -> bool) (l : list N) (i bi : nat) (bv : N) : nat :=
  match l with
  | [] => bi
  | x :: t => if better x bv then arg_first better t (S i) i x else arg_first better t (S i) bi bv
  end.
Definition argmin (l : list N) : nat := match l with [] => 0 | x :: t => arg_first (ltb N) t 1 0 x end.
Definition argmax (l : list N) : nat := match l with [] => 0 | x :: t => arg_first (fun a b => ltb N b a) t 1 0 x end.

(* n_remove clamp common to all pruning metrics (Python ints: may be negative) *)
Definition clamp_remove (n_remove : Z) (n m : nat) : nat :=
  let nm := (Z.of_nat n - Z.of_nat m)%Z in
  if (n_remove <=? nm)%Z then (if (n_remove <? 0)%Z then 0 else Z.to_nat n_remove) else Z.to_nat nm.

(* (X - min) / den per column, den = max - min with optional zero guard *)
Definition normalize (guard : bool) (F : list (list N)) : list (list N) :=
  let m := length (hd [] F) in
  let cols := map (col F) (seq 0 m) in
  let mins := map (fun c => nth (argmin c) c (qnan X)) cols in
  let maxs := map (fun c => nth (argmax c) c (qnan X)) cols in
  let dens := map2 (fun a b => let d := a - b in if guard && eqb N d (zero N) then one N else d) maxs mins in
  map (fun r => map3 (fun x mn dn => (x - mn) / dn) r mins dens) F.

Definition extremes_of (F : list (list N)) : list nat :=
  let m := length (hd [] F) in
  let cols := map (col F) (seq 0 m) in
  map argmin cols ++ map argmax cols.

Definition set_inf (idx : list nat) (d : list N) : list N :=
  fold_left (fun acc i => set_nth i (pinf X) acc) idx d.

Fixpoint ins_val (x : N) (l : list N) : list N :=
  match l with [] => [x] | h :: t => if ltb N x h then x :: l else h :: ins_val x t end.
Definition sort_vals (l : list N) : list N := fold_left (fun acc x => ins_val x acc) l [].

(* scipy pdist(..., "sqeuclidean") *)
Definition sqdist (a b : list N) : N :=
  fold_left (fun acc p => acc + (fst p - snd p) * (fst p - snd p)) (combine a b) (zero N).

(* np.partition(row, range(1, M+1))[1:M+1] then np.prod *)
Definition mnn_row (M : nat) (row : list N) : N := prod_lr (firstn M (tl (sort_vals row))).

(* first index of the minimum of d over the remaining items H *)
Definition drop_first_min (d : list N) (H : list nat) : nat :=
  match H with
  | [] => 0
  | h :: t => fold_left (fun k i => if ltb N (nth i d (qnan X)) (nth k d (qnan X)) then i else k) t h
  end.

Fixpoint mnn_loop (fuel M : nat) (ext : list nat) (D : list (list N)) (d : list N) (H : list nat) : list N :=
  match fuel with
  | O => d
  | S fuel' =>
      let k := drop_first_min d H in
      let H' := filter (fun i => negb (i =? k)) H in
      let D' := map (fun row => set_nth k (pinf X) row) D in          (* D[:, k] = inf *)
      let d' := fold_left (fun acc i => set_nth i (mnn_row M (nth i D' [])) acc) H' d in
      mnn_loop fuel' M ext D' (set_inf ext d') H'
  end.

Definition fallback_mnn (twonn : bool) (F : list (list N)) (n_remove : Z) : list N :=
  let n := length F in let m := length (hd [] F) in
  let nr := clamp_remove n_remove n m in
  let M := if twonn then 2 else m in
  if n <=? M then repeat (pinf X) n else
  let ext := extremes_of F in
  let Xn := normalize true F in
  let D := map (fun a => map (fun b => sqdist a b) Xn) Xn in
  let d := set_inf ext (map (mnn_row M) D) in
  mnn_loop (nr - 1) M ext D d (seq 0 n).

(* one evaluation of the crowding distances of the remaining points H (misc/pruning_cd.py) *)
Definition pcd_col (v : list N) : list N :=
  let n := length v in
  let idx := argsort v in
  let s := map (fun i => nth i v (qnan X)) idx in
  let prev := ninf X :: s in
  let next := tl s ++ [pinf X] in
  let dl := map2 (fun a b => nan0 (a - b)) s prev in
  let dn := map2 (fun a b => nan0 (b - a)) s next in
  scatter n idx (map2 (add N) dl dn).

Definition pcd_eval (Xn : list (list N)) (H : list nat) : list N :=
  let XH := map (fun i => nth i Xn []) H in
  let m := length (hd [] Xn) in
  let cols := map (fun j => pcd_col (col XH j)) (seq 0 m) in
  map sum_lr (rows_of (length H) cols).

Fixpoint pcd_loop (fuel : nat) (ext : list nat) (Xn : list (list N)) (d : list N) (H : list nat) : list N :=
  match fuel with
  | O => d
  | S fuel' =>
      let k := drop_first_min d H in
      let H' := filter (fun i => negb (i =? k)) H in
      let dH := pcd_eval Xn H' in
      let d' := fold_left (fun acc p => set_nth (fst p) (snd p) acc) (combine H' dH) d in
      pcd_loop fuel' ext Xn (set_inf ext d') H'
  end.

Definition fallback_pcd (F : list (list N)) (n_remove : Z) : list N :=
  let n := length F in let m := length (hd [] F) in
  let nr := clamp_remove n_remove n m in
  let ext := extremes_of F in
  let Xn := normalize false F in
  let H := seq 0 n in
  let d0 := set_inf ext (pcd_eval Xn H) in
  map (fun x => x / of_nat N m) (pcd_loop (nr - 1) ext Xn d0 H).
End Fallback.
