(* pymoode/cython/{utils.pxd, pruning_cd.pyx, mnn.pyx, spacing_neighbors.pyx}: the compiled kernels, written statement by
   statement over *checked flat buffers* with the C memory layout of the memoryviews (offset = i * stride + j).
   The kernels are compiled with boundscheck=False, wraparound=False: an offset outside the buffer is a memory error
   and is reported as Err (OOB site); a model run stops at its first Err.  std::set<int> = ascending duplicate-free
   list; overlapping slice assignment = shift. *)
From Coq Require Import List Bool Arith ZArith.
From PV Require Import Base.Num Base.Res Base.ListX Model.Crowding Model.Fallback.
Import ListNotations.
Local Open Scope Z_scope.

Section Kernels.
Context {X : xnum}.
Notation N := (base X).

Definition rb {A B} (r : res A) (f : A -> res B) : res B := match r with Ok a => f a | Err e => Err e end.
Notation "x <-- e ;; k" := (rb e (fun x => k)) (at level 61, e at next level, right associativity).

Definition getZ {A} (site : nat) (l : list A) (o : Z) : res A :=
  if o <? 0 then Err (OOB site) else match nth_error l (Z.to_nat o) with Some a => Ok a | None => Err (OOB site) end.
Definition setZ {A} (site : nat) (l : list A) (o : Z) (a : A) : res (list A) :=
  if o <? 0 then Err (OOB site) else
  if Nat.ltb (Z.to_nat o) (length l) then Ok (set_nth (Z.to_nat o) a l) else Err (OOB site).

(* std::set<int> *)
Fixpoint sins (x : Z) (l : list Z) : list Z :=
  match l with [] => [x] | h :: t => if x <? h then x :: l else if x =? h then l else h :: sins x t end.
Definition serase (x : Z) (l : list Z) : list Z := filter (fun y => negb (y =? x)) l.
Definition zrange (n : Z) : list Z := map Z.of_nat (seq 0 (Z.to_nat n)).

Definition rfold {A S} (f : S -> A -> res S) (l : list A) (s : S) : res S :=
  fold_left (fun acc a => s' <-- acc ;; f s' a) l (Ok s).

Section K.
Variables (Nn Mm : Z).          (* N points, M objectives *)
Definition fM : N := of_nat (base X) (Z.to_nat Mm).

(* sites: 1 = pcd_iter I[n-1,m]; 2 = pcd_iter I[n+1,m]; 3 = X[u,m]; 4 = X[l,m]; 5 = D[i,m] write; 6 = get_calc_items I[n-1,m];
          7 = get_calc_items I[n+1,m]; 8 = d / D access in c_calc_d / c_get_drop; 9 = in-range scan *)
Definition pcd_iter_one (Xf : list N) (Ix : list Z) (D : list N) (i m n : Z) : res (list N) :=
  v <-- getZ 9 Ix (n * Mm + m) ;;
  if v =? i then
    l <-- getZ 1 Ix ((n - 1) * Mm + m) ;;
    u <-- getZ 2 Ix ((n + 1) * Mm + m) ;;
    xu <-- getZ 3 Xf (u * Mm + m) ;;
    xl <-- getZ 4 Xf (l * Mm + m) ;;
    setZ 5 D (i * Mm + m) (div N (sub N xu xl) fM)
  else Ok D.

Definition pcd_iter (Xf : list N) (Ix : list Z) (D : list N) (calc : list Z) : res (list N) :=
  rfold (fun D i => rfold (fun D m => rfold (fun D n => pcd_iter_one Xf Ix D i m n) (zrange Nn) D) (zrange Mm) D) calc D.

Definition pcd_calc_d (d D : list N) (calc : list Z) : res (list N) :=
  rfold (fun d i =>
    d0 <-- setZ 8 d i (zero N) ;;
    rfold (fun d m => cur <-- getZ 8 d i ;; x <-- getZ 8 D (i * Mm + m) ;; setZ 8 d i (add N cur x)) (zrange Mm) d0) calc d.

(* c_get_drop: last index among the minima (<=) *)
Definition get_drop (d : list N) (H : list Z) : res Z :=
  r <-- rfold (fun (st : N * Z) i => di <-- getZ 8 d i ;;
               Ok (if leb N di (fst st) then (di, i) else st)) H (pinf X, 0) ;;
  Ok (snd r).

(* I[n:-1, m] = I[n+1:, m] *)
Definition shift_col (Ix : list Z) (m n : Z) : res (list Z) :=
  rfold (fun Ix r => v <-- getZ 9 Ix ((r + 1) * Mm + m) ;; setZ 9 Ix (r * Mm + m) v)
        (map (fun r => n + r) (zrange (Nn - 1 - n))) Ix.

Definition pcd_get_calc_items (Ix : list Z) (k : Z) : res (list Z * list Z) :=
  rfold (fun st m => rfold (fun (st : list Z * list Z) n =>
     let '(Ix, calc) := st in
     v <-- getZ 9 Ix (n * Mm + m) ;;
     if v =? k then
       a <-- getZ 6 Ix ((n - 1) * Mm + m) ;;
       b <-- getZ 7 Ix ((n + 1) * Mm + m) ;;
       Ix' <-- shift_col Ix m n ;;
       Ok (Ix', sins b (sins a calc))
     else Ok st) (zrange Nn) st) (zrange Mm) (Ix, []).

Fixpoint pcd_prune (fuel : nat) (Xf : list N) (extremes : list Z) (Ix : list Z) (D d : list N) (H : list Z) : res (list N) :=
  match fuel with
  | O => Ok d
  | S fuel' =>
      k <-- get_drop d H ;;
      let H := serase k H in
      st <-- pcd_get_calc_items Ix k ;;
      let '(Ix, calc) := st in
      let calc := fold_left (fun c e => serase e c) extremes calc in
      D <-- pcd_iter Xf Ix D calc ;;
      d <-- pcd_calc_d d D calc ;;
      pcd_prune fuel' Xf extremes Ix D d H
  end.

Definition c_calc_pcd (Xf : list N) (Ix : list Z) (n_remove : nat) (extremes : list Z) : res (list N) :=
  let calc := fold_left (fun c e => serase e c) extremes (zrange Nn) in
  let D0 := repeat (pinf X) (Z.to_nat (Nn * Mm)) in
  let d0 := repeat (pinf X) (Z.to_nat Nn) in
  D <-- pcd_iter Xf Ix D0 calc ;;
  d <-- pcd_calc_d d0 D calc ;;
  pcd_prune (n_remove - 1) Xf extremes Ix D d (zrange Nn).
End K.

Fixpoint nodupz (l : list Z) : bool :=
  match l with [] => true | x :: t => negb (existsb (Z.eqb x) t) && nodupz t end.

(* ---- mnn.pyx ---- *)
(* sites: 11 = D[i, Mnn[i, M-1]] in c_calc_mnn_iter; 12 = other D reads there; 13 = Mnn reads/writes; 14 = c_calc_d; 15 = c_get_calc_items *)
Section KM.
Variables (Nn Mm : Z).          (* N points, M neighbours (n_obj for mnn, 2 for 2nn) *)

Definition mnn_calc_d (d : list N) (Mnn : list Z) (D : list N) (calc : list Z) : res (list N) :=
  rfold (fun d i =>
    d1 <-- setZ 14 d i (one N) ;;
    rfold (fun d m => cur <-- getZ 14 d i ;; nb <-- getZ 13 Mnn (i * Mm + m) ;; x <-- getZ 14 D (i * Nn + nb) ;;
                      setZ 14 d i (mul N cur x)) (zrange Mm) d1) calc d.

(* Mnn[i, m:-1] = Mnn[i, m+1:]; Mnn[i, M-1] = -1 *)
Definition mnn_shift_left (Mnn : list Z) (i m : Z) : res (list Z) :=
  M1 <-- rfold (fun Mn r => v <-- getZ 15 Mn (i * Mm + r + 1) ;; setZ 15 Mn (i * Mm + r) v)
               (map (fun r => m + r) (zrange (Mm - 1 - m))) Mnn ;;
  setZ 15 M1 (i * Mm + Mm - 1) (-1).

Definition mnn_get_calc_items (Mnn : list Z) (H : list Z) (k : Z) : res (list Z * list Z) :=
  rfold (fun st i => rfold (fun (st : list Z * list Z) m =>
     let '(Mn, calc) := st in
     v <-- getZ 15 Mn (i * Mm + m) ;;
     if v =? k then Mn' <-- mnn_shift_left Mn i m ;; Ok (Mn', sins i calc) else Ok st) (zrange Mm) st) H (Mnn, []).

(* Mnn[i, m+1:] = Mnn[i, m:-1]; Mnn[i, m] = j *)
Definition mnn_insert (Mnn : list Z) (i m j : Z) : res (list Z) :=
  M1 <-- rfold (fun Mn r => v <-- getZ 13 Mn (i * Mm + r - 1) ;; setZ 13 Mn (i * Mm + r) v)
               (map (fun r => Mm - 1 - r) (zrange (Mm - 1 - m))) Mnn ;;     (* from the right end down to m+1 *)
  setZ 13 M1 (i * Mm + m) j.

(* inner "for m in range(M)" with break; returns the updated table *)
Fixpoint mnn_place (fuel : nat) (Mnn : list Z) (D : list N) (i j m : Z) : res (list Z) :=
  match fuel with
  | O => Ok Mnn
  | S fuel' =>
      nb <-- getZ 13 Mnn (i * Mm + m) ;;
      if nb =? -1 then setZ 13 Mnn (i * Mm + m) j
      else if j =? nb then Ok Mnn
      else dij <-- getZ 12 D (i * Nn + j) ;; dnb <-- getZ 12 D (i * Nn + nb) ;;
           if leb N dij dnb then mnn_insert Mnn i m j
           else mnn_place fuel' Mnn D i j (m + 1)
  end.

(* D[i, Mnn[i, M-1]] is evaluated BEFORE the "== -1" test.  With Mnn[i, M-1] = -1 the value read is irrelevant (the
   disjunction is true anyway), so the model goes on; but for i = 0 the read is one element before the matrix:
   that memory error is recorded in the flag (known finding) instead of stopping the run. *)
Definition mnn_iter (Mnn : list Z) (D : list N) (calc H : list Z) (oob : bool) : res (list Z * bool) :=
  rfold (fun (st : list Z * bool) i => rfold (fun (st : list Z * bool) j =>
     let '(Mn, ob) := st in
     if j =? i then Ok st else
     lastnb <-- getZ 13 Mn (i * Mm + Mm - 1) ;;
     if lastnb =? -1 then
       Mn' <-- mnn_place (Z.to_nat Mm) Mn D i j 0 ;;
       Ok (Mn', ob || (i * Nn + lastnb <? 0))
     else
       dij <-- getZ 12 D (i * Nn + j) ;;
       dlast <-- getZ 11 D (i * Nn + lastnb) ;;
       if leb N dij dlast then Mn' <-- mnn_place (Z.to_nat Mm) Mn D i j 0 ;; Ok (Mn', ob) else Ok st) H st) calc (Mnn, oob).

(* some row of the neighbour table lists one point twice (the incremental update inserted an equidistant point again) *)
Definition mnn_row_dup (Mnn : list Z) (i : Z) : bool :=
  negb (nodupz (filter (fun v => negb (v =? -1)) (firstn (Z.to_nat Mm) (skipn (Z.to_nat (i * Mm)) Mnn)))).

Fixpoint mnn_prune (fuel : nat) (extremes : list Z) (Mnn : list Z) (D d : list N) (H : list Z) (fl : bool * bool)
  : res (list N * (bool * bool)) :=
  match fuel with
  | O => Ok (d, fl)
  | S fuel' =>
      k <-- get_drop d H ;;
      let H := serase k H in
      st <-- mnn_get_calc_items Mnn H k ;;
      let '(Mnn, calc) := st in
      let calc := fold_left (fun c e => serase e c) extremes calc in
      it <-- mnn_iter Mnn D calc H (snd fl) ;;
      let '(Mnn, ob) := it in
      d <-- mnn_calc_d d Mnn D calc ;;
      mnn_prune fuel' extremes Mnn D d H (fst fl || existsb (mnn_row_dup Mnn) calc, ob)
  end.

(* Mnn0 = np.argpartition(D, range(1, M+1), axis=1)[:, 1:M+1] : oracle (which of several equidistant points introselect
   returns is unspecified) *)
Definition c_calc_mnn (Xn : list (list N)) (Mnn0 : list Z) (n_remove : nat) (extremes : list Z) : res (list N * (bool * bool)) :=
  if Nn <=? Mm then Ok (repeat (pinf X) (Z.to_nat Nn), (false, false)) else
  let calc := fold_left (fun c e => serase e c) extremes (zrange Nn) in
  let D := concat (map (fun a => map (fun b => sqdist b a) Xn) Xn) in
  let d0 := repeat (pinf X) (Z.to_nat Nn) in
  d <-- mnn_calc_d d0 Mnn0 D calc ;;
  mnn_prune (n_remove - 1) extremes Mnn0 D d (zrange Nn) (false, false).
End KM.

Fixpoint sorted_by_z (dist : Z -> N) (l : list Z) : bool :=
  match l with
  | x :: t => match t with y :: _ => leb N (dist x) (dist y) && sorted_by_z dist t | [] => true end
  | [] => true
  end.

(* contract of the argpartition answer: row i lists M distinct indices <> i in non-decreasing distance, and no
   unlisted index (other than i) is strictly closer than the last listed one *)
Definition mnn0_ok (n M : nat) (D : list N) (Mnn0 : list Z) : bool :=
  (length Mnn0 =? n * M)%nat &&
  forallb (fun i =>
    let row := firstn M (skipn (i * M) Mnn0) in
    let dist := fun (j : Z) => nth (i * n + Z.to_nat j) D (qnan X) in
    forallb (fun j => (0 <=? j) && (j <? Z.of_nat n) && negb (j =? Z.of_nat i)) row
    && nodupz row
    && sorted_by_z dist row
    && forallb (fun j => existsb (Z.eqb (Z.of_nat j)) row || (j =? i)%nat ||
                         negb (ltb N (nth (i * n + j) D (qnan X)) (dist (last row 0)))) (seq 0 n))
    (seq 0 n).

(* the Python-level wrapper calc_pcd: clamp, extremes (first argmin / argmax), stable argsort, c_normalize_array *)
Definition kernel_pcd (F : list (list N)) (n_remove : Z) : res (list N) :=
  let n := length F in let m := length (hd [] F) in
  let nr := clamp_remove n_remove n m in
  let ext := fold_left (fun s e => sins (Z.of_nat e) s) (extremes_of F) [] in
  let cols := map (col F) (seq 0 m) in
  let Ix := concat (transpose 0 n (map (fun c => map Z.of_nat (argsort c)) cols)) in
  let Xf := concat (normalize true F) in
  c_calc_pcd (Z.of_nat n) (Z.of_nat m) Xf Ix nr ext
.

Definition kernel_mnn (twonn : bool) (F : list (list N)) (n_remove : Z) (Mnn0 : list Z) : res (list N * (bool * bool)) :=
  let n := length F in let m := length (hd [] F) in
  let nr := clamp_remove n_remove n m in
  let M := if twonn then 2%nat else m in
  let ext := fold_left (fun s e => sins (Z.of_nat e) s) (extremes_of F) [] in
  let Xn := normalize true F in
  let D := concat (map (fun a => map (fun b => sqdist b a) Xn) Xn) in
  if (Z.of_nat n <=? Z.of_nat M) then Ok (repeat (pinf X) n, (false, false)) else
  if mnn0_ok n M D Mnn0 then c_calc_mnn (Z.of_nat n) (Z.of_nat M) Xn Mnn0 nr ext else Err (Desync 801).

(* FunctionalDiversity._do around a kernel that may fail; the flag (duplicate neighbour seen) is passed through *)
Definition functional_diversity_res (eps : N) (filter_dups mnn_rule : bool) (f : list (list N) -> res (list N * (bool * bool)))
                                    (F : list (list N)) : res (list N * (bool * bool)) :=
  let n := length F in let m := length (hd [] F) in
  if (mnn_rule && (n <=? m)%nat) || (n <=? 2)%nat then Ok (repeat (pinf X) n, (false, false)) else
  let flags := if filter_dups then dup_flags eps [] F else repeat false n in
  let uniq := filter (fun i => negb (nth i flags false)) (seq 0 n) in
  match pick F uniq with
  | None => Err (BadShape 802)
  | Some Fu =>
      r <-- f Fu ;;
      if (length (fst r) =? length uniq)%nat then Ok (scatter n uniq (fst r), snd r) else Err (BadShape 803)
  end.

(* the sites at which the known findings first leave their buffer *)
Definition known_oob_site (s : nat) : bool :=
  (s =? 1)%nat || (s =? 2)%nat || (s =? 6)%nat || (s =? 7)%nat || (s =? 11)%nat.
End Kernels.
