(* pymoode/operators/dem.py : DEM.de_mutation / get_diffs / scale factors / jitter, DifferentialMutation.do *)
From Coq Require Import List Bool Arith.
From PV Require Import Base.Num Base.Res Base.ListX Model.Repair.
Import ListNotations.

Section Mutate.
Context {N : num}.
Notation "a + b" := (add N a b). Notation "a - b" := (sub N a b). Notation "a * b" := (mul N a b).

Definition matrix := list (list N).

Inductive fcfg := FScalar (f : N) | FDither (lo hi : N).

(* _scalar_scale_factor: np.full(n, F);  _randomize_scale_factor: F[0] + random(n) * (F[1] - F[0]) *)
Definition scale_of (lo hi u : N) : N := lo + u * (hi - lo).
Definition scale_factor (fc : fcfg) (n : nat) : M N (list N) :=
  match fc with
  | FScalar f => ret (repeat f n)
  | FDither lo hi => us <- draw_rand 301 [n] ;; ret (map (scale_of lo hi) us)
  end.

(* _diff_jitter draws random((n, v)); _diff_simple draws nothing *)
Definition draw_jitter (gamma : option N) (n v : nat) : M N (option matrix) :=
  match gamma with
  | None => ret None
  | Some _ => us <- draw_rand 302 [n; v] ;; ret (Some (reshape n v us))
  end.

(* F[:, None] * (1 + gamma * (u - 0.5)) *)
Definition eff (g f u : N) : N := f * (one N + g * (u - half N)).

(* one scaled difference row: jitter: Feff * (Xi - Xj); simple: F * (Xi - Xj) *)
Definition diff_row (gamma : option N) (f : N) (jr : option (list N)) (xi xj : list N) : list N :=
  match gamma, jr with
  | Some g, Some us => map3 (fun u a b => eff g f u * (a - b)) us xi xj
  | _, _ => map2 (fun a b => f * (a - b)) xi xj
  end.

Definition jrows (J : option matrix) (n : nat) : list (option (list N)) :=
  match J with Some m => map Some m | None => repeat None n end.

Definition diff_mat (gamma : option N) (F : list N) (J : option matrix) (Xi Xj : matrix) : matrix :=
  map2 (fun fj xx => diff_row gamma (fst fj) (snd fj) (fst xx) (snd xx))
       (combine F (jrows J (length F))) (combine Xi Xj).

Definition madd (A B : matrix) : matrix := map2 (map2 (add N)) A B.
Definition zeros (n v : nat) : matrix := repeat (repeat (zero N) v) n.

(* diffs = diffs + diff, pair after pair *)
Fixpoint sum_diffs (gamma : option N) (rest : list matrix) (FJ : list (list N * option matrix)) (acc : matrix) : matrix :=
  match rest, FJ with
  | Xi :: Xj :: rest', (F, J) :: FJ' => sum_diffs gamma rest' FJ' (madd acc (diff_mat gamma F J Xi Xj))
  | _, _ => acc
  end.

(* per pair: first the scale factors, then the jitter matrix *)
Fixpoint draw_factors (fc : fcfg) (gamma : option N) (n v k : nat) : M N (list (list N * option matrix)) :=
  match k with
  | O => ret []
  | S k' => F <- scale_factor fc n ;; J <- draw_jitter gamma n v ;;
            rest <- draw_factors fc gamma n v k' ;; ret ((F, J) :: rest)
  end.

(* X : (n_parents, n_matings, n_var); returns (V, diffs) *)
Definition de_mutation (fc : fcfg) (gamma : option N) (Xs : list matrix) : M N (matrix * matrix) :=
  match Xs with
  | [] => fail (BadShape 303)
  | X0 :: rest =>
      if Nat.odd (length rest) then fail (BadShape 304) else
      let n := length X0 in let v := length (hd [] X0) in
      FJ <- draw_factors fc gamma n v (Nat.div2 (length rest)) ;;
      let diffs := sum_diffs gamma rest FJ (zeros n v) in
      ret (madd X0 diffs, diffs)
  end.

(* DifferentialMutation.do: mutation, then repair against the base vectors X[0] when the problem has bounds *)
Definition dem_do (fc : fcfg) (gamma : option N) (s : strat) (bounds : option (list N * list N)) (Xs : list matrix) : M N matrix :=
  '(V, _) <- de_mutation fc gamma Xs ;;
  match bounds with
  | None => ret V
  | Some (xl, xu) =>
      let n := length V in let v := length xl in
      zs <- repair s (concat V) (concat (hd [] Xs)) (tile n xl) (tile n xu) ;;
      ret (reshape n v zs)
  end.
End Mutate.
