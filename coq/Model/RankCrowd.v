(* pymoo Survival.do (feasibility split, clamping), pymoode RankAndCrowding._do and ConstrRankAndCrowding._do.
   Everything obtained from dependencies is an oracle answer consumed from a stream and *validated in place*:
   an answer that violates its contract makes the run fail (Err), so every theorem about successful runs
   holds for all oracle streams. *)
From Coq Require Import List Bool Arith ZArith.
From PV Require Import Base.Num Base.Res Base.ListX Model.Dominance.
Import ListNotations.

Section RankCrowd.
Context {N : num}.

(* a multi-objective individual as the survivals see it; m_c = per-constraint violations [max(G,0) | |H|] *)
Record mind := { m_id : nat; m_f : list N; m_cv : N; m_feas : bool; m_c : list N }.

Inductive oevent :=
| OSplit (feas infeas : list nat)                    (* pymoo split_by_feasibility(pop, sort_infeas_by_cv=True) *)
| ONds (n_stop : nat) (fronts : list (list nat))     (* NonDominatedSorting.do(F, n_stop_if_ranked) *)
| OCrowd (n_remove : nat) (vals : list N)            (* crowding_func.do(F[front], n_remove) *)
| OSort (desc : bool) (perm : list nat).             (* randomized_argsort(A, order) *)

Notation OM := (SM oevent).

Definition is_perm (n : nat) (p : list nat) : bool :=
  (length p =? n) && nodupb p && forallb (fun i => i <? n) p.

(* a list of values is sorted in the requested direction *)
Fixpoint sorted_by (desc : bool) (vals : list N) : bool :=
  match vals with
  | x :: t => match t with
              | y :: _ => (if desc then leb N y x else leb N x y) && sorted_by desc t
              | [] => true
              end
  | [] => true
  end.

(* ---- oracle answers, validated against their contracts ---- *)
Definition feas_idx (pop : list mind) : list nat :=
  filter (fun i => match nth_error pop i with Some p => m_feas p | None => false end) (seq 0 (length pop)).
Definition infeas_idx (pop : list mind) : list nat :=
  filter (fun i => match nth_error pop i with Some p => negb (m_feas p) | None => false end) (seq 0 (length pop)).

Definition split_ok (pop : list mind) (feas infeas : list nat) : bool :=
  list_nat_eqb feas (feas_idx pop)
  && (length infeas =? length (infeas_idx pop)) && nodupb infeas
  && forallb (fun i => memb i (infeas_idx pop)) infeas
  && match pick (map m_cv pop) infeas with Some cvs => sorted_by false cvs | None => false end.

Definition draw_split (pop : list mind) : OM (list nat * list nat) := fun s =>
  match s with
  | OSplit feas infeas :: s' => if split_ok pop feas infeas then Ok ((feas, infeas), s') else Err (Desync 601)
  | _ :: _ => Err (Desync 602)
  | [] => Err OutOfDraws
  end.

Definition draw_nds (F : list (list N)) (n_stop : nat) : OM (list (list nat)) := fun s =>
  match s with
  | ONds n_stop' fronts :: s' =>
      if (n_stop' =? n_stop) && is_ndsb F n_stop fronts then Ok (fronts, s') else Err (Desync 603)
  | _ :: _ => Err (Desync 604)
  | [] => Err OutOfDraws
  end.

Definition draw_crowd (len n_remove : nat) : OM (list N) := fun s =>
  match s with
  | OCrowd n_remove' vals :: s' =>
      if (n_remove' =? n_remove) && (length vals =? len) then Ok (vals, s') else Err (Desync 605)
  | _ :: _ => Err (Desync 606)
  | [] => Err OutOfDraws
  end.

Definition draw_sort (desc : bool) (vals : list N) : OM (list nat) := fun s =>
  match s with
  | OSort desc' perm :: s' =>
      if Bool.eqb desc' desc && is_perm (length vals) perm
         && match pick vals perm with Some sv => sorted_by desc sv | None => false end
      then Ok (perm, s') else Err (Desync 607)
  | _ :: _ => Err (Desync 608)
  | [] => Err OutOfDraws
  end.

(* ---- RankAndCrowding._do on a population given by its objective matrix F ---- *)
(* returns survivors (indices into F, in order) and the (index, rank, crowding) attributes written *)
Fixpoint rnc_loop (n_survive : nat) (k : nat) (fronts : list (list nat))
                  (surv : list nat) (attrs : list (nat * nat * N)) : OM (list nat * list (nat * nat * N)) :=
  match fronts with
  | [] => ret (surv, attrs)
  | front :: rest =>
      if n_survive <? length surv + length front then
        let n_remove := length surv + length front - n_survive in
        crowd <- draw_crowd (length front) n_remove ;;
        perm <- draw_sort true crowd ;;
        let I := firstn (length perm - n_remove) perm in
        sel <- lift 609 (pick front I) ;;
        rnc_loop n_survive (S k) rest (surv ++ sel) (attrs ++ map2 (fun i c => (i, k, c)) front crowd)
      else
        crowd <- draw_crowd (length front) 0 ;;
        rnc_loop n_survive (S k) rest (surv ++ front) (attrs ++ map2 (fun i c => (i, k, c)) front crowd)
  end.

Definition rnc_do (F : list (list N)) (n_survive : nat) : OM (list nat * list (nat * nat * N)) :=
  fronts <- draw_nds F n_survive ;;
  rnc_loop n_survive 0 fronts [] [].

(* ---- pymoo Survival.do with filter_infeasible=True around RankAndCrowding._do ---- *)
Definition rnc_survival (constr : bool) (pop : list mind) (n_survive : nat) : OM (list nat * list (nat * nat * N)) :=
  match pop with
  | [] => ret ([], [])
  | _ =>
    let ns := Nat.min n_survive (length pop) in
    if constr then
      '(feas, infeas) <- draw_split pop ;;
      '(s, attrs) <- (match feas with
                      | [] => ret ([], [])
                      | _ => sub <- lift 610 (pick pop feas) ;;
                             rnc_do (map m_f sub) (Nat.min (length feas) ns)
                      end) ;;
      surv <- lift 611 (pick feas s) ;;
      attrs' <- lift 612 (all_some (map (fun a => match nth_error feas (fst (fst a)) with
                                                  | Some i => Some (i, snd (fst a), snd a) | None => None end) attrs)) ;;
      ret (surv ++ firstn (ns - length surv) infeas, attrs')
    else rnc_do (map m_f pop) ns
  end.

(* ---- ConstrRankAndCrowding._do (its Survival.do wrapper has filter_infeasible=False) ---- *)
Fixpoint crnc_loop (n_survive : nat) (k : nat) (cvs : list N) (fronts : list (list nat))
                   (surv : list nat) (cvranks : list (nat * nat)) : OM (list nat * list (nat * nat)) :=
  match fronts with
  | [] => ret (surv, cvranks)
  | front :: rest =>
      let cvranks' := cvranks ++ map (fun i => (i, k)) front in
      if n_survive <? length surv + length front then
        cv_front <- lift 613 (pick cvs front) ;;
        perm <- draw_sort false cv_front ;;
        sel <- lift 614 (pick front (firstn (n_survive - length surv) perm)) ;;
        crnc_loop n_survive (S k) cvs rest (surv ++ sel) cvranks'
      else crnc_loop n_survive (S k) cvs rest (surv ++ front) cvranks'
  end.

Definition crnc_survival (constr : bool) (pop : list mind) (n_survive : nat)
  : OM (list nat * list (nat * nat * N) * list (nat * nat)) :=
  match pop with
  | [] => ret ([], [], [])
  | _ =>
    let ns := Nat.min n_survive (length pop) in
    if constr then
      '(feas, infeas) <- draw_split pop ;;
      '(s, attrs) <- (match feas with
                      | [] => ret ([], [])
                      | _ => sub <- lift 615 (pick pop feas) ;;
                             rnc_survival true sub (Nat.min (length feas) ns)
                      end) ;;
      surv <- lift 616 (pick feas s) ;;
      attrs' <- lift 617 (all_some (map (fun a => match nth_error feas (fst (fst a)) with
                                                  | Some i => Some (i, snd (fst a), snd a) | None => None end) attrs)) ;;
      let n_rem := ns - length surv in
      if 0 <? n_rem then
        subi <- lift 618 (pick pop infeas) ;;
        fronts <- draw_nds (map m_c subi) n_rem ;;
        '(s2, cvr) <- crnc_loop (ns - length surv) 0 (map m_cv subi) fronts [] [] ;;
        surv2 <- lift 619 (pick infeas s2) ;;
        cvr' <- lift 620 (all_some (map (fun a => match nth_error infeas (fst a) with
                                                  | Some i => Some (i, snd a) | None => None end) cvr)) ;;
        ret (surv ++ surv2, attrs', cvr')
      else ret (surv, attrs', [])
    else
      '(s, attrs) <- rnc_survival false pop ns ;; ret (s, attrs, [])
  end.
End RankCrowd.
Arguments mind : clear implicits.
Arguments oevent : clear implicits.
