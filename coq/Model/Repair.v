(* pymoode/operators/dem.py : bounce_back / midway / to_bounds / rand_init.
   Matrices are flattened row-major (the order of np.where), bounds are tiled. *)
From Coq Require Import List Bool Arith.
From PV Require Import Base.Num Base.Res.
Import ListNotations.

Inductive strat := BounceBack | Midway | ToBounds | RandInit.

Definition uses_draws (s : strat) : bool :=
  match s with BounceBack | RandInit => true | _ => false end.

Section Repair.
Context {N : num}.
Notation "a + b" := (add N a b). Notation "a - b" := (sub N a b).
Notation "a * b" := (mul N a b). Notation "a / b" := (div N a b).

(* X[i,j] = XL + r*(Xb - XL) etc. : l h = bounds, b = base coordinate, u = draw *)
Definition lower_val (s : strat) (l h b u : N) : N :=
  match s with
  | BounceBack => l + u * (b - l)
  | Midway => l + (b - l) / two N
  | ToBounds => l
  | RandInit => l + u * (h - l)
  end.
Definition upper_val (s : strat) (l h b u : N) : N :=
  match s with
  | BounceBack => h - u * (h - b)
  | Midway => h - (h - b) / two N
  | ToBounds => h
  | RandInit => h - u * (h - l)
  end.

Definition viol (lower : bool) (x l h : N) : bool := if lower then ltb N x l else ltb N h x.

Fixpoint count_viol (lower : bool) (xs ls hs : list N) : nat :=
  match xs, ls, hs with
  | x :: xs', l :: ls', h :: hs' => (if viol lower x l h then 1 else 0) + count_viol lower xs' ls' hs'
  | _, _, _ => 0
  end.

(* X[i, j] = vals  with (i, j) = np.where(violated), row-major; one value per hit *)
Fixpoint pass (lower : bool) (s : strat) (xs bs ls hs us : list N) : option (list N) :=
  match xs, bs, ls, hs with
  | x :: xs', b :: bs', l :: ls', h :: hs' =>
      if viol lower x l h then
        match us with
        | u :: us' =>
            option_map (cons (if lower then lower_val s l h b u else upper_val s l h b u))
                       (pass lower s xs' bs' ls' hs' us')
        | [] => None
        end
      else option_map (cons x) (pass lower s xs' bs' ls' hs' us)
  | [], [], [], [] => match us with [] => Some [] | _ => None end
  | _, _, _, _ => None
  end.

(* "if len(i) > 0: ... np.random.random(len(i))" *)
Definition get_us (site : nat) (s : strat) (k : nat) : M N (list N) :=
  if uses_draws s then (if k =? 0 then ret [] else draw_rand site [k])
  else ret (repeat (zero N) k).

Definition repair (s : strat) (xs bs ls hs : list N) : M N (list N) :=
  us1 <- get_us 101 s (count_viol true xs ls hs) ;;
  xs1 <- lift 102 (pass true s xs bs ls hs us1) ;;
  us2 <- get_us 103 s (count_viol false xs1 ls hs) ;;
  lift 104 (pass false s xs1 bs ls hs us2).

(* tile the bound vectors over the rows *)
Fixpoint tile {A} (n : nat) (l : list A) : list A := match n with O => [] | S k => l ++ tile k l end.

Definition in_box1 (x l h : N) : bool := leb N l x && leb N x h.
Fixpoint in_box (xs ls hs : list N) : bool :=
  match xs, ls, hs with
  | x :: xs', l :: ls', h :: hs' => in_box1 x l h && in_box xs' ls' hs'
  | [], [], [] => true
  | _, _, _ => false
  end.
End Repair.
