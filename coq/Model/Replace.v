(* pymoode/survival/replacement.py : ImprovementReplacement ; pymoode/survival/fitness.py : FitnessSurvival ;
   pymoo DefaultDuplicateElimination(epsilon=0) ; DifferentialEvolution._advance for single-objective DE *)
From Coq Require Import List Bool Arith.
From PV Require Import Base.Num Base.ListX.
Import ListNotations.

Section Replace.
Context {N : num}.

(* a single-objective individual: identity, decision vector, objective, total violation, feasibility flag *)
Record sind := { s_id : nat; s_x : list N; s_f : N; s_cv : N; s_feas : bool }.

(* ImprovementReplacement._do, the three cases with strict '<' (constrained) or the objective alone *)
Definition better (constr : bool) (o p : sind) : bool :=
  if constr then
    (negb (s_feas p) && negb (s_feas o) && ltb N (s_cv o) (s_cv p))
    || (negb (s_feas p) && s_feas o)
    || (s_feas p && s_feas o && ltb N (s_f o) (s_f p))
  else ltb N (s_f o) (s_f p).

(* Euclidean distance <= 0, i.e. equal decision vectors *)
Fixpoint veq (a b : list N) : bool :=
  match a, b with
  | [], [] => true
  | x :: a', y :: b' => eqb N x y && veq a' b'
  | _, _ => false
  end.

(* DefaultDuplicateElimination(epsilon=0).do(off, pop): duplicate of an earlier offspring or of a member *)
Fixpoint dup_mask_aux (pop : list sind) (seen off : list sind) : list bool :=
  match off with
  | [] => []
  | o :: rest =>
      (existsb (fun q => veq (s_x q) (s_x o)) seen || existsb (fun q => veq (s_x q) (s_x o)) pop)
      :: dup_mask_aux pop (seen ++ [o]) rest
  end.
Definition dup_mask (pop off : list sind) : list bool := dup_mask_aux pop [] off.

Definition repl_mask (constr : bool) (pop off : list sind) : list bool :=
  map2 (fun b d => b && negb d) (map2 (better constr) off pop) (dup_mask pop off).

(* pop = pop.copy(); pop[I] = off[I] *)
Definition apply_repl (mask : list bool) (pop off : list sind) : list sind :=
  map3 (fun (m : bool) p o => if m then o else p) mask pop off.

(* np.lexsort([F, cv]): by cv, ties by F, stable *)
Definition lex_lt (a b : sind) : bool :=
  ltb N (s_cv a) (s_cv b) || (negb (ltb N (s_cv b) (s_cv a)) && ltb N (s_f a) (s_f b)).

Fixpoint insert_lex (x : sind) (l : list sind) : list sind :=
  match l with
  | [] => [x]
  | h :: t => if lex_lt x h then x :: l else h :: insert_lex x t
  end.
Definition fitness_sort (l : list sind) : list sind :=
  fold_left (fun acc x => insert_lex x acc) l [].

(* BaseReplacement.do followed by FitnessSurvival: new population, best first; rank i = position i *)
Definition de_step (constr : bool) (pop off : list sind) : list sind :=
  fitness_sort (apply_repl (repl_mask constr pop off) pop off).

Definition de_run (constr : bool) (pop : list sind) (offs : list (list sind)) : list sind :=
  fold_left (de_step constr) offs pop.
End Replace.
Arguments sind : clear implicits.
