(* pymoode/operators/des.py : DES._do and its variants, get_reselect, rank_sort, ranks_from_cv *)
From Coq Require Import List Bool Arith.
From PV Require Import Base.Res Base.ListX.
Import ListNotations.

Inductive selv := SRand | SBest | SCurToBest | SCurToRand | SRandToBest | SRanked.

Section Select.
Context {T : Type}.   (* type of float draws: unused, selection only consumes choice events *)

(* get_reselect for one row: equal to the target or to an earlier column *)
Definition is_bad (row : list nat) (t c : nat) : bool := (c =? t) || existsb (Nat.eqb c) row.

Fixpoint count_b (l : list bool) : nat := match l with [] => 0 | b :: t => (if b then 1 else 0) + count_b t end.

(* P[reselect, j] = news *)
Fixpoint replace_bad (bads : list bool) (col news : list nat) : option (list nat) :=
  match bads, col with
  | [], [] => match news with [] => Some [] | _ => None end
  | true :: bs, _ :: cs => match news with x :: ns => option_map (cons x) (replace_bad bs cs ns) | [] => None end
  | false :: bs, c :: cs => option_map (cons c) (replace_bad bs cs news)
  | _, _ => None
  end.

(* while np.any(reselect): redraw exactly the flagged rows *)
Fixpoint reselect_loop (fuel n_pop : nat) (rows : list (list nat)) (targets col : list nat) : M T (list nat) :=
  let bads := map3 is_bad rows targets col in
  if existsb (fun b => b) bads then
    match fuel with
    | O => fail Fuel
    | S f => news <- draw_choice 401 n_pop (count_b bads) ;;
             col' <- lift 402 (replace_bad bads col news) ;;
             reselect_loop f n_pop rows targets col'
    end
  else ret col.

Definition fill_col (n_pop : nat) (rows : list (list nat)) (targets : list nat) : M T (list nat) :=
  col <- draw_choice 403 n_pop (length targets) ;;
  fun s => reselect_loop (length s) n_pop rows targets col s.

Definition add_col (rows : list (list nat)) (col : list nat) : list (list nat) :=
  map2 (fun r c => r ++ [c]) rows col.

Fixpoint fill_cols (k n_pop : nat) (rows : list (list nat)) (targets : list nat) : M T (list (list nat)) :=
  match k with
  | O => ret rows
  | S k' => col <- fill_col n_pop rows targets ;; fill_cols k' n_pop (add_col rows col) targets
  end.

Definition swap01 (r : list nat) : list nat := match r with a :: b :: t => b :: a :: t | _ => r end.

(* stable insertion sort by key = np.argsort(kind="stable") followed by take_along_axis *)
Fixpoint insert_by (key : nat -> nat) (x : nat) (l : list nat) : list nat :=
  match l with
  | [] => [x]
  | h :: t => if key x <? key h then x :: l else h :: insert_by key x t
  end.
Definition sort_by (key : nat -> nat) (l : list nat) : list nat :=
  fold_left (fun acc x => insert_by key x acc) l [].

Fixpoint interleave (a b : list nat) : list nat :=
  match a, b with x :: a', y :: b' => x :: y :: interleave a' b' | _, _ => [] end.

(* rank_sort on one row of odd length 2k+1: S[0]; then pairs (S[j], S[-j]) *)
Definition rank_sort_row (key : nat -> nat) (row : list nat) : list nat :=
  match sort_by key row with
  | [] => []
  | s0 :: rest => let k := Nat.div2 (length rest) in
                  s0 :: interleave (firstn k rest) (rev (skipn k rest))
  end.

(* ranks_from_cv: missing ranks are replaced by the position *)
Definition ranks_from (ranks : list (option nat)) : list nat :=
  map2 (fun r i => match r with Some x => x | None => i end) ranks (seq 0 (length ranks)).

Definition select (v : selv) (n_pop n_select n_parents : nat) (ranks : list (option nat)) : M T (list (list nat)) :=
  let targets := seq 0 n_select in
  match v with
  | SRand => fill_cols n_parents n_pop (repeat [] n_select) targets
  | SBest => fill_cols (n_parents - 1) n_pop (repeat [0] n_select) targets
  | SRandToBest => P <- fill_cols (n_parents - 1) n_pop (repeat [0] n_select) targets ;; ret (map swap01 P)
  | SCurToBest =>
      if negb (n_select =? n_pop) || (n_parents <? 3) then fail (BadShape 404) else
      fill_cols (n_parents - 3) n_pop (map (fun i => [i; 0; i]) targets) targets
  | SCurToRand =>
      if negb (n_select =? n_pop) || (n_parents <? 3) then fail (BadShape 405) else
      P1 <- fill_cols 1 n_pop (map (fun i => [i]) targets) targets ;;
      fill_cols (n_parents - 3) n_pop (map2 (fun r i => r ++ [i]) P1 targets) targets
  | SRanked =>
      if Nat.even n_parents then fail (BadShape 406) else
      P <- fill_cols n_parents n_pop (repeat [] n_select) targets ;;
      let rk := ranks_from ranks in
      ret (map (rank_sort_row (fun i => nth i rk 0)) P)
  end.
End Select.
