(* pymoode/performance/_spacing.py : SpacingIndicator (pymoo Indicator.do + ZeroToOneNormalization.forward + _do);
   scipy pdist for the cityblock / euclidean / sqeuclidean / chebyshev metrics; NumPy's pairwise summation;
   pymoode/cython/spacing_neighbors.pyx : calc_spacing_distances *)
From Coq Require Import List Bool Arith.
From PV Require Import Base.Num Base.Res Base.ListX Model.Crowding Model.Fallback.
Import ListNotations.

Section Spacing.
Context {X : xnum}.
Notation N := (base X).
Notation "a + b" := (add N a b). Notation "a - b" := (sub N a b).
Notation "a * b" := (mul N a b). Notation "a / b" := (div N a b).

(* ---- np.add.reduce on a contiguous 1-d double array: pairwise summation ---- *)
Fixpoint chunks8 (fuel : nat) (l : list N) : list (list N) :=
  match fuel with
  | O => []
  | S f => match l with [] => [] | _ => firstn 8 l :: chunks8 f (skipn 8 l) end
  end.

Definition pw_block (a : list N) : N :=
  let n := length a in
  let nfull := Nat.sub n (Nat.modulo n 8) in
  let r := fold_left (map2 (add N)) (chunks8 n (skipn 8 (firstn nfull a))) (firstn 8 a) in
  let g := fun i => nth i r (zero N) in
  let res := ((g 0 + g 1) + (g 2 + g 3)) + ((g 4 + g 5) + (g 6 + g 7)) in
  fold_left (add N) (skipn nfull a) res.

Fixpoint pw_sum (fuel : nat) (a : list N) : N :=
  let n := length a in
  if n <? 8 then fold_left (add N) a (zero N)
  else if n <=? 128 then pw_block a
  else match fuel with
       | O => pw_block a
       | S f => let n2 := Nat.sub (Nat.div n 2) (Nat.modulo (Nat.div n 2) 8) in pw_sum f (firstn n2 a) + pw_sum f (skipn n2 a)
       end.
Definition np_sum (a : list N) : N := pw_sum (length a) a.

(* ---- scipy.spatial.distance.pdist ---- *)
Inductive metric := Cityblock | Euclidean | SqEuclidean | Chebyshev.
Definition dist (m : metric) (a b : list N) : N :=
  match m with
  | Cityblock => fold_left (fun acc p => acc + absx X (fst p - snd p)) (combine a b) (zero N)
  | SqEuclidean => sqdist a b
  | Euclidean => sqrtx X (sqdist a b)
  | Chebyshev => fold_left (fun acc p => let d := absx X (fst p - snd p) in if ltb N acc d then d else acc) (combine a b) (zero N)
  end.
(* squareform(pdist(F)): pdist computes the pairs i < j; the matrix is filled symmetrically, zero diagonal *)
Definition dist_matrix (m : metric) (F : list (list N)) : list (list N) :=
  map (fun ia => map (fun jb => if fst ia =? fst jb then zero N
                                else if fst ia <? fst jb then dist m (snd ia) (snd jb) else dist m (snd jb) (snd ia))
                     (combine (seq 0 (length F)) F)) (combine (seq 0 (length F)) F).

(* ---- SpacingIndicator._do on the (oracle or computed) distance matrix ---- *)
Definition nn_dists (D : list (list N)) : list N :=
  map (fun row => nth 1 (sort_vals row) (qnan X)) D.                (* np.partition(D, 1, axis=1)[:, 1] *)
Definition spacing_radicand (d : list N) : N :=
  let n := length d in
  let dm := np_sum d / of_nat N n in                                (* np.mean *)
  np_sum (map (fun x => (x - dm) * (x - dm)) d) / of_nat N n.
Definition spacing_of_matrix (D : list (list N)) : N := sqrtx X (spacing_radicand (nn_dists D)).

(* ---- pymoo ZeroToOneNormalization(ideal, nadir).forward ---- *)
Definition z2o_coord (xl xu x : N) : N :=
  let xu' := if eqb N xl xu then qnan X else xu in        (* xu[xl == xu] = nan *)
  match isnan X xl, isnan X xu' with
  | true, true => x
  | false, false => (x - xl) / (xu' - xl)
  | false, true => x - xl
  | true, false => one N - (xu' - x)
  end.
Definition normalize_z2o (ideal nadir : list N) (F : list (list N)) : list (list N) :=
  map (fun r => map3 (fun l u x => z2o_coord l u x) ideal nadir r) F.

(* np.min / np.max over the rows of pf *)
Definition col_min (F : list (list N)) (j : nat) : N := let c := col F j in nth (argmin c) c (qnan X).
Definition col_max (F : list (list N)) (j : nat) : N := let c := col F j in nth (argmax c) c (qnan X).

(* ---- spacing_neighbors.pyx : c_calc_spacing_distances (cityblock, pruned scan) ---- *)
Definition cb (a b : list N) : N :=        (* _dijm = X[j,m] - X[i,m]; dij += |_dijm| *)
  fold_left (fun acc p => let d := snd p - fst p in if leb N (zero N) d then acc + d else acc - d) (combine a b) (zero N).

Definition sp_inner (Xs : list (list N)) (i : nat) (st : list (list N) * N) (j : nat) : list (list N) * N :=
  let '(D, di) := st in
  let dij0 := nth j (nth i D []) (qnan X) in
  if negb (j =? i) && leb N dij0 di then
    let fresh := eqb N dij0 (negx X (one N)) in
    let dij := if fresh then cb (nth i Xs []) (nth j Xs []) else dij0 in
    let D' := if fresh then set_nth j (set_nth i dij (nth j D [])) (set_nth i (set_nth j dij (nth i D [])) D) else D in
    (D', if leb N dij di then dij else di)
  else st.

Definition spacing_helper (Xs : list (list N)) : list N :=
  let n := length Xs in
  let D0 := repeat (repeat (negx X (one N)) n) n in
  snd (fold_left (fun (st : list (list N) * list N) i =>
         let '(D, ds) := st in
         let '(D', di) := fold_left (sp_inner Xs i) (seq 0 n) (D, pinf X) in
         (D', ds ++ [di])) (seq 0 n) (D0, [])).
End Spacing.
