(* pymoode/operators/variant.py : DifferentialVariant._do = selection -> DE mutation (+repair) -> crossover -> genetic mutation
   pymoode/operators/deop.py    : default_prepare (pop[parents] -> (n_parents, n_matings, n_var) tensor) *)
From Coq Require Import List Bool Arith.
From PV Require Import Base.Num Base.Res Base.ListX Model.Repair Model.Mutate Model.Cross Model.Select.
Import ListNotations.

Section Variant.
Context {N : num}.

Record vcfg := {
  v_sel : selv; v_ndiffs : nat;          (* "DE/sel/y/cx": v_ndiffs = y (+1 for the "-to-" selections) *)
  v_fc : fcfg (N := N); v_gamma : option N; v_strat : strat;
  v_cx : cx; v_cr : N }.

Definition is_to (s : selv) : bool :=
  match s with SCurToBest | SCurToRand | SRandToBest => true | _ => false end.
(* variant.py: n_diffs = int(y) + 1 if "-to-" in variant;  dem.py: n_parents = 1 + 2 * n_diffs *)
Definition n_diffs_of (s : selv) (y : nat) : nat := if is_to s then S y else y.
Definition n_parents_of (nd : nat) : nat := 1 + 2 * nd.

(* pop[parents] then swapaxes: tensor[j][i] = X[P[i][j]]  (IndexError -> None) *)
Definition gather (popX : list (list N)) (P : list (list nat)) (j : nat) : option (list (list N)) :=
  all_some (map (fun row => match nth_error row j with Some p => nth_error popX p | None => None end) P).
Definition tensor (popX : list (list N)) (P : list (list nat)) (n_par : nat) : option (list (list (list N))) :=
  all_some (map (gather popX P) (seq 0 n_par)).

Definition variant_do (c : vcfg) (popX : list (list N)) (ranks : list (option nat))
                      (bounds : option (list N * list N)) : M N (list (list N)) :=
  let n := length popX in
  let n_par := n_parents_of (v_ndiffs c) in
  P <- select (T := N) (v_sel c) n n n_par ranks ;;
  Xs <- lift 501 (tensor popX P n_par) ;;
  V <- dem_do (v_fc c) (v_gamma c) (v_strat c) bounds Xs ;;
  dex (v_cx c) (v_cr c) true popX V.
End Variant.
