From Coq Require Import List Bool Arith ZArith Lia.
From PV Require Import Base.Num Base.Res Base.ListX Model.Dominance Model.RankCrowd Model.Algo
  Proofs.DominanceP Proofs.RankCrowdP.
Import ListNotations.

Section AlgoP.
Context {N : num} {ok : N -> Prop} (L : ord_laws N ok).
Notation ind := (mind N).

Lemma rel_loop_range a : forall b v, (v = 0 \/ v = 1 \/ v = -1)%Z ->
  (rel_loop (N := N) a b v = 0 \/ rel_loop a b v = 1 \/ rel_loop a b v = -1)%Z.
Proof.
  induction a as [|x a IH]; intros [|y b] v Hv; cbn; auto.
  destruct (ltb N x y); [destruct (Z.eqb v (-1)); [now left|apply IH; auto]|].
  destruct (ltb N y x); [destruct (Z.eqb v 1); [now left|apply IH; auto]|]. apply IH; assumption.
Qed.

Definition okind (p : ind) : Prop := Forall ok (m_f p) /\ ok (m_cv p).
Definition cdom_ind (a b : ind) : Prop := cdom (m_f a) (m_f b) (m_cv a) (m_cv b).

(* the one-to-one rule: which of parent k / offspring n+k become candidates *)
Lemma gde3_slot_spec n k (p o : ind) : okind p -> okind o -> length (m_f p) = length (m_f o) ->
  (cdom_ind p o -> gde3_slot n k p o = [k]) /\
  (cdom_ind o p -> gde3_slot n k p o = [n + k]) /\
  (~ cdom_ind p o -> ~ cdom_ind o p -> gde3_slot n k p o = [k; n + k]).
Proof.
  intros [Hfp Hcp] [Hfo Hco] Hl. unfold gde3_slot, cdom_ind.
  destruct (get_relation_spec L (m_f p) (m_f o) (m_cv p) (m_cv o) Hl Hfp Hfo Hcp Hco) as [H1 H2].
  assert (Hr : (get_relation (m_f p) (m_f o) (m_cv p) (m_cv o) = 0 \/ get_relation (m_f p) (m_f o) (m_cv p) (m_cv o) = 1
                \/ get_relation (m_f p) (m_f o) (m_cv p) (m_cv o) = -1)%Z).
  { unfold get_relation. destruct (ltb N (m_cv p) (m_cv o)); [auto|]. destruct (ltb N (m_cv o) (m_cv p)); [auto|].
    apply rel_loop_range. auto. }
  set (r := get_relation (m_f p) (m_f o) (m_cv p) (m_cv o)) in *.
  repeat split.
  - intro H. apply H1 in H. rewrite H. reflexivity.
  - intro H. apply H2 in H. rewrite H. reflexivity.
  - intros Hn1 Hn2. destruct Hr as [->|[Hr|Hr]]; [reflexivity| |]; [exfalso; apply Hn1; now apply H1|exfalso; apply Hn2; now apply H2].
Qed.

(* candidates: parents are < n, offspring are n + slot; nobody twice *)
Lemma gde3_cands_range n : forall pop off k, Forall (fun i => (k <= i < k + length pop) \/ (n + k <= i < n + k + length pop))
                                                  (gde3_cands_aux (N := N) n k pop off).
Proof.
  induction pop as [|p pop IH]; intros [|o off] k; cbn [gde3_cands_aux]; try constructor.
  apply Forall_app. split.
  - unfold gde3_slot. cbn [length]. destruct (Z.eqb _ 0); [|destruct (Z.eqb _ (-1))]; repeat constructor; lia.
  - eapply Forall_impl; [|apply (IH off (S k))]. cbn [length]. intros a Ha. lia.
Qed.

Lemma gde3_cands_nodup n : forall pop off k, k + length pop <= n -> NoDup (gde3_cands_aux (N := N) n k pop off).
Proof.
  induction pop as [|p pop IH]; intros [|o off] k Hk; cbn [gde3_cands_aux]; try constructor.
  cbn [length] in Hk. apply NoDup_app_intro.
  - unfold gde3_slot. destruct (Z.eqb _ 0); [|destruct (Z.eqb _ (-1))]; repeat constructor; cbn; try lia; intuition lia.
  - apply IH. lia.
  - intros x Hx Hx'. pose proof (gde3_cands_range n pop off (S k)) as Hr. rewrite Forall_forall in Hr. specialize (Hr x Hx').
    unfold gde3_slot in Hx. destruct (Z.eqb _ 0); [|destruct (Z.eqb _ (-1))]; cbn in Hx; lia.
Qed.

Lemma gde3_cands_count n : forall pop off k, length off = length pop ->
  length pop <= length (gde3_cands_aux (N := N) n k pop off).
Proof.
  induction pop as [|p pop IH]; intros [|o off] k Hl; cbn [gde3_cands_aux length] in *; try lia.
  rewrite app_length. specialize (IH off (S k) ltac:(lia)).
  unfold gde3_slot. destruct (Z.eqb _ 0); [|destruct (Z.eqb _ (-1))]; cbn [length]; lia.
Qed.

(* the whole GDE3 generation: survivors are candidates, pairwise distinct, and exactly pop_size of them *)
Lemma gde3_step_spec sk constr (pop off : list ind) s surv attrs s' :
  gde3_step sk constr pop off (length pop) s = Ok ((surv, attrs), s') ->
  pop <> [] -> length off = length pop ->
  incl surv (gde3_candidates pop off) /\ NoDup surv /\ length surv = length pop.
Proof.
  intros H Hne Hl. unfold gde3_step in H.
  apply bind_ok in H as (cands & s1 & Hc & H). apply lift_ok in Hc as [Hc <-].
  apply bind_ok in H as ([s0 a0] & s2 & Hs & H). apply bind_ok in H as (sv & s3 & Hsv & H). apply lift_ok in Hsv as [Hsv <-].
  apply bind_ok in H as (a1 & s4 & _ & H). apply ret_ok in H as [H _]. inversion H; subst. clear H.
  pose proof (gde3_cands_count (length pop) pop off 0 Hl) as Hcnt. fold (gde3_candidates pop off) in Hcnt.
  pose proof (gde3_cands_nodup (length pop) pop off 0 ltac:(lia)) as Hnd. fold (gde3_candidates pop off) in Hnd.
  assert (Hlc : length cands = length (gde3_candidates pop off)) by (eapply pick_length; eauto).
  assert (Hcne : cands <> []) by (intro E; subst; cbn in Hlc; destruct pop; [congruence|cbn in *; lia]).
  assert (Hn1 : 1 <= length pop) by (destruct pop; [congruence|cbn; lia]).
  assert (Hspec : length s0 = Nat.min (length pop) (length cands) /\ NoDup s0 /\ Forall (fun i => i < length cands) s0).
  { destruct sk; cbn [survive] in Hs.
    - exact (proj2 (rnc_survival_spec constr cands (length pop) _ s0 a0 _ Hs Hcne Hn1)).
    - apply bind_ok in Hs as ([[s9 a9] c9] & s5 & Hs & Hr). apply ret_ok in Hr as [Hr _]. inversion Hr; subst.
      exact (proj2 (crnc_survival_spec constr cands (length pop) _ s0 a0 c9 _ Hs Hcne Hn1)). }
  destruct Hspec as (Hls & Hnds & Hrg). split; [|split].
  - intros x Hx. exact (pick_In _ _ _ Hsv x Hx).
  - exact (pick_NoDup _ _ _ Hnd Hnds Hsv).
  - rewrite (pick_length _ _ _ Hsv), Hls. lia.
Qed.

(* ---------- _set_optimum ---------- *)
Lemma argmin_cv_spec (l : list ind) : forall i best bv,
  let r := argmin_cv l i best bv in
  (r = best \/ (i <= r < i + length l)).
Proof.
  induction l as [|p l IH]; intros i best bv; cbn; [now left|].
  destruct (ltb N (m_cv p) bv).
  - destruct (IH (S i) i (m_cv p)) as [->|H]; right; lia.
  - destruct (IH (S i) best bv) as [->|H]; [now left|right; lia].
Qed.

(* nothing feasible: exactly one solution is reported, a member of the population *)
Lemma set_optimum_infeasible (pop : list ind) ranks : pop <> [] -> existsb (@m_feas N) pop = false ->
  exists i, set_optimum pop ranks = [i] /\ i < length pop.
Proof.
  intros Hne Hf. unfold set_optimum. rewrite Hf. destruct pop as [|p t]; [congruence|].
  eexists. split; [reflexivity|]. destruct (argmin_cv_spec t 1 0 (m_cv p)) as [->|H]; cbn; lia.
Qed.

(* something feasible: the reported solutions are exactly the members whose rank attribute is 0 *)
Lemma set_optimum_feasible (pop : list ind) ranks i : existsb (@m_feas N) pop = true ->
  (In i (set_optimum pop ranks) <-> i < length pop /\ nth i ranks None = Some 0).
Proof.
  intro Hf. unfold set_optimum. rewrite Hf, filter_In, in_seq. split.
  - intros [H1 H2]. split; [lia|]. destruct (nth i ranks None) as [[|?]|]; try discriminate. reflexivity.
  - intros [H1 H2]. split; [lia|]. now rewrite H2.
Qed.
End AlgoP.

From Coq Require Import Lia.
Lemma budget_sum pop_size gens :
  fold_left (fun acc (_ : unit) => acc + pop_size) (repeat tt gens) pop_size = pop_size * (gens + 1).
Proof.
  assert (G : forall a, fold_left (fun acc (_ : unit) => acc + pop_size) (repeat tt gens) a = a + pop_size * gens).
  { induction gens as [|g IH]; intro a; cbn [repeat fold_left]; [lia|]. rewrite IH. lia. }
  rewrite G. lia.
Qed.

(* evaluation commutes with re-indexing: evaluating the offspring in another order and putting the results back in
   slot order gives the same evaluated population *)
Lemma pick_map {A B} (f : A -> B) (l : list A) idx : pick (map f l) idx = option_map (map f) (pick l idx).
Proof.
  unfold pick. induction idx as [|i idx IH]; cbn; [reflexivity|].
  rewrite nth_error_map. destruct (nth_error l i); cbn; [|reflexivity].
  rewrite IH. destruct (all_some (map (nth_error l) idx)); reflexivity.
Qed.

Lemma pick_identity {A} (l : list A) : pick l (seq 0 (length l)) = Some l.
Proof.
  unfold pick. assert (G : forall k pre, length pre = k -> all_some (map (nth_error (pre ++ l)) (seq k (length l))) = Some l).
  { induction l as [|x l IH]; intros k pre Hk; cbn; [reflexivity|].
    rewrite nth_error_app2 by lia. replace (k - length pre) with 0 by lia. cbn.
    specialize (IH (S k) (pre ++ [x])). rewrite <- app_assoc in IH. cbn in IH. rewrite IH; [reflexivity|rewrite app_length; cbn; lia]. }
  exact (G 0 [] eq_refl).
Qed.

(* sigma = order in which the offspring are evaluated, inv = where slot i ended up: inv undoes sigma *)
Lemma eval_any_order {A B} (f : A -> B) (l : list A) sigma inv shuffled :
  pick l sigma = Some shuffled -> pick shuffled inv = Some l -> pick (map f shuffled) inv = Some (map f l).
Proof. intros _ H2. rewrite pick_map, H2. reflexivity. Qed.
