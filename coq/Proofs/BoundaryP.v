(* C15, boundary clause for the mnn / 2nn metrics of the pure-Python engine, end to end: the crowding vector of misc/mnn.py
   is +inf exactly on (a subset of) the 2 x n_obj extreme rows and finite elsewhere, so when RankAndCrowding keeps at least
   2 x n_obj members of the front, for EVERY tie-break of the descending sort, a holder of the minimum and a holder of the
   maximum of every objective survive.  (For the pruning crowding distance this is false: Props/C15.v, known finding.) *)
From Coq Require Import List Bool Arith ZArith Lia QArith Lqa Permutation Sorted.
From PV Require Import Base.Num Base.NumEQ Base.Res Base.ListX Model.Crowding Model.Fallback Model.Dominance Model.RankCrowd
  Proofs.CrowdingP Proofs.CdP Proofs.FallbackP Proofs.RankCrowdP.
Import ListNotations.
Local Open Scope nat_scope.
Local Arguments qsign : simpl never.

(* ---------- the comparison of EQn is a strict weak order on all values but NaN ---------- *)
Definition nonnan (e : eq) : Prop := e <> ENaN.

Lemma EQn_ord_nn : ord_laws EQn nonnan.
Proof.
  constructor; unfold nonnan; cbn.
  - intros [q| | |] H; try reflexivity. cbn. destruct (Qle_bool q q) eqn:E; [reflexivity|]. exfalso.
    assert (Qle_bool q q = true) by (apply Qle_bool_iff; apply Qle_refl). congruence.
  - intros [a| | |] [b| | |] [c| | |] Hx Hy Hz; cbn; try congruence; try reflexivity; try discriminate.
    rewrite !negb_true_iff. intros H1 H2. destruct (Qle_bool c a) eqn:E; [|reflexivity]. apply Qle_bool_iff in E.
    assert (Hba : ~ (b <= a)%Q) by (intro Hq; apply Qle_bool_iff in Hq; congruence).
    assert (Hcb : ~ (c <= b)%Q) by (intro Hq; apply Qle_bool_iff in Hq; congruence). lra.
  - intros [a| | |] [b| | |] [c| | |] Hx Hy Hz; cbn; try congruence; try (intros; now left); try (intros; now right); try discriminate.
    rewrite !negb_true_iff. intro H1.
    assert (Hca : ~ (c <= a)%Q) by (intro Hq; apply Qle_bool_iff in Hq; congruence).
    destruct (Qle_bool b a) eqn:E1; [|now left]. right. destruct (Qle_bool c b) eqn:E2; [|reflexivity].
    apply Qle_bool_iff in E1, E2. lra.
  - intros [a| | |] [b| | |] Hx Hy; cbn; try congruence; try reflexivity. now rewrite negb_involutive.
  - intros [a| | |] [b| | |] Hx Hy; cbn; try congruence; try reflexivity. rewrite !negb_involutive.
    destruct (Qeq_bool a b) eqn:E.
    + apply Qeq_bool_iff in E. symmetry. apply andb_true_iff. split; apply Qle_bool_iff; lra.
    + symmetry. apply andb_false_iff. destruct (Qle_bool b a) eqn:E1; [|now left]. destruct (Qle_bool a b) eqn:E2; [|now right].
      apply Qle_bool_iff in E1, E2. assert (Hab : (a == b)%Q) by lra. apply Qeq_bool_iff in Hab. congruence.
Qed.

Lemma good_nonnan e : good e -> nonnan e.
Proof. intros [->|(q & -> & _)]; discriminate. Qed.

(* ---------- values outside the extreme rows are finite ---------- *)
Lemma nth_set_nth_other {A} (l : list A) : forall i j x d, i <> j -> nth i (set_nth j x l) d = nth i l d.
Proof.
  induction l as [|h t IH]; intros i j x d Hne; destruct j; cbn; try reflexivity.
  - destruct i; [congruence|reflexivity].
  - destruct i; [reflexivity|]. apply IH. congruence.
Qed.

Lemma set_inf_other ext : forall (d : list eq) i, ~ In i ext -> nth i (set_inf (X := E) ext d) ENaN = nth i d ENaN.
Proof.
  induction ext as [|e ext IH]; intros d i Hn; [reflexivity|]. unfold set_inf in *. cbn [fold_left].
  rewrite IH by (intro Hx; apply Hn; now right). apply nth_set_nth_other. intro Hx. apply Hn. now left.
Qed.

Lemma fold_write_nth (g : nat -> eq) l : forall acc i, i < length acc ->
  nth i (fold_left (fun acc i => set_nth i (g i) acc) l acc) ENaN = if existsb (Nat.eqb i) l then g i else nth i acc ENaN.
Proof.
  induction l as [|x l IH]; intros acc i Hi; cbn [fold_left existsb]; [reflexivity|].
  rewrite IH by (now rewrite set_nth_length). destruct (existsb (Nat.eqb i) l) eqn:El; [now rewrite orb_true_r|]. rewrite orb_false_r.
  destruct (i =? x) eqn:Ex.
  - apply Nat.eqb_eq in Ex. subst x. rewrite nth_set_nth by assumption. now rewrite Nat.eqb_refl.
  - apply nth_set_nth_other. now apply Nat.eqb_neq.
Qed.

Lemma fold_write_length (g : nat -> eq) l : forall acc, length (fold_left (fun acc i => set_nth i (g i) acc) l acc) = length acc.
Proof. induction l as [|x l IH]; intro acc; cbn; [reflexivity|]. rewrite IH. apply set_nth_length. Qed.

Lemma mnn_loop_finite n M ext fuel : forall D d H,
  NoDup H -> (forall i, In i H -> i < n) -> fuel + M + 1 <= length H ->
  length D = n -> Forall (rowinv n H) D -> length d = n ->
  (forall i, i < n -> ~ In i ext -> finnn (nth i d ENaN)) ->
  forall i, i < n -> ~ In i ext -> finnn (nth i (mnn_loop (X := E) fuel M ext D d H) ENaN).
Proof.
  induction fuel as [|fuel IH]; intros D d H Hnd Hlt Hlen HD Hrows Hd Hfin; cbn [mnn_loop]; [exact Hfin|]. cbv zeta.
  set (k := drop_first_min (X := E) d H).
  assert (Hk : In k H). { apply drop_first_min_In. destruct H; [cbn in Hlen; lia|discriminate]. }
  change (filter (fun i => negb (i =? k)) H) with (without k H).
  pose proof (without_length k H Hnd Hk) as Hwl.
  set (D' := map (fun row => set_nth k (pinf E) row) D).
  assert (HD' : length D' = n) by (unfold D'; now rewrite map_length).
  assert (Hrows' : Forall (rowinv n (without k H)) D').
  { unfold D'. apply Forall_forall. intros row Hr. apply in_map_iff in Hr as (r0 & <- & Hr0).
    rewrite Forall_forall in Hrows. apply rowinv_set. now apply Hrows. }
  assert (Hnd' : NoDup (without k H)) by (now apply NoDup_filter).
  assert (Hlt' : forall i, In i (without k H) -> i < n) by (intros i Hi; apply filter_In in Hi; apply Hlt; tauto).
  set (g := fun i => mnn_row (X := E) M (nth i D' [])).
  assert (Hg : forall i, In i (without k H) -> finnn (g i)).
  { intros i Hi. pose proof (Hlt' i Hi) as Hin.
    assert (Hrow : rowinv n (without k H) (nth i D' [])). { rewrite Forall_forall in Hrows'. apply Hrows'. apply nth_In. lia. }
    apply mnn_row_finnn; [exact (cells_good _ _ _ Hrow)|]. rewrite (cells_nfin _ _ _ Hrow), (memb_count n _ Hnd' Hlt'). lia. }
  set (d' := fold_left (fun acc i => set_nth i (g i) acc) (without k H) d).
  assert (Hl' : length d' = n).
  { unfold d'. rewrite fold_write_length. exact Hd. }
  apply (IH D' (set_inf (X := E) ext d') (without k H)); try assumption.
  - lia.
  - rewrite set_inf_length. exact Hl'.
  - intros i Hi Hne. rewrite set_inf_other by assumption. unfold d'. rewrite fold_write_nth by (rewrite Hd; exact Hi).
    destruct (existsb (Nat.eqb i) (without k H)) eqn:Ex.
    + apply Hg. apply existsb_exists in Ex as (y & Hy & Ey). apply Nat.eqb_eq in Ey. now subst.
    + now apply Hfin.
Qed.

(* the crowding vector of misc/mnn.py: finite outside the extreme rows (when there are more points than neighbours) *)
Theorem fallback_mnn_finite_inside (twonn : bool) F m nr : fin_matrix F m -> 2 <= m -> length (hd [] F) = m ->
  (if twonn then 2 else m) < length F ->
  forall i, i < length F -> ~ In i (extremes_of (X := E) F) -> finnn (nth i (fallback_mnn (X := E) twonn F nr) ENaN).
Proof.
  intros HF Hm Hhd HnM. assert (Hne : F <> []) by (intro Hx; rewrite Hx in Hhd; cbn in Hhd; lia).
  unfold fallback_mnn. change (T (base E)) with eq in *. rewrite Hhd.
  set (n := length F) in *. set (M := if twonn then 2 else m) in *.
  assert (HM : M <= m) by (unfold M; destruct twonn; lia).
  assert (EnM : (n <=? M) = false) by (apply Nat.leb_gt; exact HnM). rewrite EnM. cbv zeta.
  pose proof (clamp_remove_le nr n m) as Hnr.
  destruct (normalize_fin F m HF Hne Hhd) as [HXf HXl]. set (Xn := normalize (X := E) true F) in *. fold n in HXl.
  set (D := map (fun a => map (fun b => sqdist (X := E) a b) Xn) Xn).
  assert (HDl : length D = n) by (unfold D; now rewrite map_length).
  assert (HDr : Forall (rowinv n (seq 0 n)) D).
  { unfold D. apply Forall_forall. intros row Hr. apply in_map_iff in Hr as (a & <- & Ha). apply rowinv_full; [now rewrite map_length|].
    rewrite Forall_forall in HXf. apply Forall_forall. intros y Hy. apply in_map_iff in Hy as (b & <- & Hb). apply sqdist_finnn; auto. }
  assert (Hnd : NoDup (seq 0 n)) by apply seq_NoDup.
  assert (Hlt : forall i, In i (seq 0 n) -> i < n) by (intros i Hi; apply in_seq in Hi; lia).
  apply mnn_loop_finite; try assumption.
  - rewrite seq_length. lia.
  - rewrite set_inf_length, map_length. exact HDl.
  - intros i Hi Hne'. rewrite set_inf_other by assumption.
    rewrite (nth_indep _ ENaN (mnn_row (X := E) M [])) by (rewrite map_length; exact (eq_ind_r (fun z => i < z) Hi HDl)). rewrite map_nth.
    assert (Hrow : rowinv n (seq 0 n) (nth i D [])). { rewrite Forall_forall in HDr. apply HDr. apply nth_In. lia. }
    apply mnn_row_finnn; [exact (cells_good _ _ _ Hrow)|].
    pose proof (cells_nfin _ _ _ Hrow) as Hnf. rewrite (memb_count n _ Hnd Hlt), seq_length in Hnf.
    refine (eq_ind_r (fun z => M + 1 <= z) _ Hnf). lia.
Qed.

(* ---------- the boundary clause ---------- *)
Lemma extremes_length F m : length (hd [] F) = m -> length (extremes_of (X := E) F) = 2 * m.
Proof. intro Hm. unfold extremes_of. change (T (base E)) with eq in *. rewrite Hm, app_length, !map_length, seq_length. lia. Qed.

Lemma NoDup_incl_le (l l' : list nat) : NoDup l -> incl l l' -> length l <= length l'.
Proof. apply NoDup_incl_length. Qed.

Theorem mnn_boundary_kept (twonn : bool) F m nr (front : list nat) quota sel perm sv :
  fin_matrix F m -> 2 <= m -> length (hd [] F) = m -> (if twonn then 2 else m) < length F ->
  let crowd := fallback_mnn (X := E) twonn F nr in
  length front = length F -> length perm = length crowd -> NoDup perm -> Forall (fun i => i < length crowd) perm ->
  pick crowd perm = Some sv -> sorted_by (N := EQn) true sv = true -> pick front (firstn quota perm) = Some sel ->
  2 * m <= quota ->
  forall j, j < m -> exists a b, holds_min (col (X := E) F j) a /\ holds_max (col (X := E) F j) b /\
    (forall x, nth_error front a = Some x -> In x sel) /\ (forall x, nth_error front b = Some x -> In x sel).
Proof.
  intros HF Hm Hhd HnM crowd Hfl Hpl Hnd Hr Hsv Hs Hsel Hq j Hj.
  destruct (fallback_mnn_spec twonn F m nr HF Hm Hhd) as (Hcl & Hcg & Hext). fold crowd in Hcl, Hcg, Hext.
  destruct (fallback_mnn_extremes twonn F m nr j HF Hm Hhd Hj) as (a & b & Ha & Hb & Hpa & Hpb). fold crowd in Hpa, Hpb.
  exists a, b. split; [assumption|]. split; [assumption|].
  assert (Hcnt : length (filter (fun i => negb (ltb EQn (nth i crowd PInf) PInf)) (seq 0 (length crowd))) <= quota).
  { apply Nat.le_trans with (2 * m); [|assumption]. rewrite <- (extremes_length F m Hhd).
    apply NoDup_incl_le; [apply NoDup_filter, seq_NoDup|]. intros i Hi. apply filter_In in Hi as [Hi Hv]. apply in_seq in Hi.
    destruct (in_dec Nat.eq_dec i (extremes_of (X := E) F)) as [Hin|Hnin]; [assumption|exfalso].
    assert (Hic : i < length crowd) by lia. assert (HiF : i < length F) by (rewrite <- Hcl; exact Hic).
    destruct (fallback_mnn_finite_inside twonn F m nr HF Hm Hhd HnM i HiF Hnin) as (q & Hq' & _).
    fold crowd in Hq'. assert (Hn : nth i crowd PInf = Fin q) by (exact (eq_trans (nth_indep crowd PInf ENaN Hic) Hq')).
    assert (Hx : negb (eltb (nth i crowd PInf) PInf) = true) by exact Hv. rewrite Hn in Hx. cbn in Hx. discriminate. }
  assert (Hok : Forall nonnan crowd) by (apply Forall_forall; intros x Hx; apply good_nonnan; rewrite Forall_forall in Hcg; auto).
  assert (Htop : nonnan PInf) by discriminate.
  assert (Hlc : length crowd = length front) by congruence.
  split; intros x Hx.
  - apply (cut_keeps_top EQn_ord_nn front quota sel crowd perm sv PInf Hlc Hpl Hnd Hr Hsv Hs Hsel Hok Htop Hcnt a x Hx).
    destruct Ha as [Hal _]. destruct (col_fin F m j HF Hj) as [_ Hcl']. change (T (base E)) with eq in *.
    assert (Hac : a < length crowd) by (rewrite Hcl, <- Hcl'; exact Hal).
    assert (Hn : nth a crowd PInf = PInf) by (exact (eq_trans (nth_indep crowd PInf ENaN Hac) Hpa)).
    assert (Hy : eltb (nth a crowd PInf) PInf = false) by (rewrite Hn; reflexivity). exact Hy.
  - apply (cut_keeps_top EQn_ord_nn front quota sel crowd perm sv PInf Hlc Hpl Hnd Hr Hsv Hs Hsel Hok Htop Hcnt b x Hx).
    destruct Hb as [Hbl _]. destruct (col_fin F m j HF Hj) as [_ Hcl']. change (T (base E)) with eq in *.
    assert (Hbc : b < length crowd) by (rewrite Hcl, <- Hcl'; exact Hbl).
    assert (Hn : nth b crowd PInf = PInf) by (exact (eq_trans (nth_indep crowd PInf ENaN Hbc) Hpb)).
    assert (Hy : eltb (nth b crowd PInf) PInf = false) by (rewrite Hn; reflexivity). exact Hy.
Qed.
