(* C15, boundary clause for the crowding distance (the default metric), end to end: the value of calc_crowding_distance is
   finite outside the first and the last row of each objective's stable sorted order (at most 2 x n_obj rows), so for EVERY
   tie-break of the descending sort, keeping at least 2 x n_obj members keeps a holder of the minimum and a holder of the
   maximum of every non-constant objective. *)
From Coq Require Import List Bool Arith ZArith Lia QArith Lqa Permutation Sorted.
From PV Require Import Base.Num Base.NumEQ Base.Res Base.ListX Model.Crowding Model.Fallback Model.Dominance Model.RankCrowd
  Proofs.CrowdingP Proofs.CdP Proofs.FallbackP Proofs.RankCrowdP Proofs.BoundaryP.
Import ListNotations.
Local Open Scope nat_scope.
Local Arguments qsign : simpl never.

(* ---------- one step between finite neighbours is finite ---------- *)
Lemma step_fin qa qb nm : norm_ok nm -> (qb <= qa)%Q -> finnn (nan0e (ediv (esub (Fin qa) (Fin qb)) nm)).
Proof.
  intros [->|(d & -> & Hd)] Hle; unfold nan0e, nan0; cbn.
  - exists 0%Q. split; [reflexivity|lra].
  - rewrite (qsign_pos d Hd). cbn. exists ((qa + - qb) / d)%Q. split; [reflexivity|]. apply Qle_shift_div_l; [assumption|lra].
Qed.

Lemma lower_all_fin nm : norm_ok nm -> forall s p, Forall isfin s -> StronglySorted fle s -> isfin p -> Forall (fle p) s ->
  Forall finnn (map2 (fun a b => nan0e (ediv (esub a b) nm)) s (p :: s)).
Proof.
  intros Hn. induction s as [|a s IH]; intros p Hf Hs Hp Hpl; cbn [map2]; [constructor|].
  pose proof (Forall_inv Hf) as Ha. pose proof (Forall_inv_tail Hf) as Hf'. cbn beta in Ha.
  inversion Hs as [|? ? Hs' Hall]; subst. constructor.
  - destruct (fle_fin p a Hp Ha (Forall_inv Hpl)) as (qp & qa & -> & -> & Hle). now apply step_fin.
  - apply IH; assumption.
Qed.

Lemma upper_all_fin nm : norm_ok nm -> forall s, Forall isfin s -> StronglySorted fle s ->
  Forall finnn (map2 (fun a b => nan0e (ediv (esub b a) nm)) (removelast s) (tl s)).
Proof.
  intros Hn. induction s as [|a s IH]; intros Hf Hs; [constructor|].
  destruct s as [|b s']; [constructor|].
  pose proof (Forall_inv Hf) as Ha. pose proof (Forall_inv_tail Hf) as Hf'. cbn beta in Ha.
  inversion Hs as [|? ? Hs' Hall]; subst.
  change (removelast (a :: b :: s')) with (a :: removelast (b :: s')). cbn [tl map2]. constructor.
  - destruct (fle_fin a b Ha (Forall_inv Hf') (Forall_inv Hall)) as (qa & qb & -> & -> & Hle). now apply step_fin.
  - exact (IH Hf' Hs').
Qed.

Lemma removelast_len {A} (l : list A) : length (removelast l) = length l - 1.
Proof. induction l as [|a l IH]; [reflexivity|]. destruct l as [|b l']; [reflexivity|]. change (removelast (a :: b :: l')) with (a :: removelast (b :: l')). cbn [length] in *. lia. Qed.

(* map2 with the padded neighbour lists, split into the padded end and the rest *)
Lemma map2_lower_split {A} (f : eq -> eq -> A) a s : map2 f (a :: s) (NInf :: a :: s) = f a NInf :: map2 f s (a :: s).
Proof. reflexivity. Qed.

Lemma map2_upper_split {A} (f : eq -> eq -> A) (s : list eq) : s <> [] ->
  map2 f s (tl s ++ [PInf]) = map2 f (removelast s) (tl s) ++ [f (last s ENaN) PInf].
Proof.
  induction s as [|a s IH]; intro Hne; [congruence|]. destruct s as [|b s']; [reflexivity|].
  change (removelast (a :: b :: s')) with (a :: removelast (b :: s')). change (last (a :: b :: s') ENaN) with (last (b :: s') ENaN).
  cbn [tl app map2]. f_equal. apply IH. discriminate.
Qed.

(* ---------- one objective: finite away from the two ends of the sorted order ---------- *)
Lemma cd_core n (idx : list nat) (s : list eq) nm i k :
  NoDup idx -> length idx = n -> length s = n -> nth_error idx k = Some i -> i < n -> k <> 0 -> k <> n - 1 ->
  Forall isfin s -> StronglySorted fle s -> norm_ok nm ->
  finnn (nth i (scatter (X := E) n idx
                  (map2 (add (base E)) (map2 (fun a b => nan0e (ediv (esub a b) nm)) s (NInf :: s))
                                       (map2 (fun a b => nan0e (ediv (esub b a) nm)) s (tl s ++ [PInf])))) ENaN).
Proof.
  intros Hnd Hl Hls Hk Hi Hk0 Hk1 Hf Hs Hn.
  assert (Hkl : k < n) by (rewrite <- Hl; apply nth_error_Some; congruence).
  destruct s as [|a0 s']; [cbn in Hls; lia|].
  set (fl := fun a b : eq => nan0e (ediv (esub a b) nm)). set (fu := fun a b : eq => nan0e (ediv (esub b a) nm)).
  assert (Hdl : map2 fl (a0 :: s') (NInf :: a0 :: s') = fl a0 NInf :: map2 fl s' (a0 :: s')) by reflexivity.
  assert (Hdu : map2 fu (a0 :: s') (tl (a0 :: s') ++ [PInf]) = map2 fu (removelast (a0 :: s')) (tl (a0 :: s')) ++ [fu (last (a0 :: s') ENaN) PInf])
    by (apply map2_upper_split; discriminate).
  inversion Hs as [|? ? Hs' Hall]; subst.
  assert (HL : Forall finnn (map2 fl s' (a0 :: s'))).
  { apply (lower_all_fin nm Hn s' a0); [exact (Forall_inv_tail Hf)|assumption|exact (Forall_inv Hf)|assumption]. }
  assert (HU : Forall finnn (map2 fu (removelast (a0 :: s')) (tl (a0 :: s')))) by (apply (upper_all_fin nm Hn (a0 :: s') Hf Hs)).
  set (dl := map2 fl (a0 :: s') (NInf :: a0 :: s')) in *. set (dn := map2 fu (a0 :: s') (tl (a0 :: s') ++ [PInf])) in *.
  assert (Hxl : exists x, nth_error dl k = Some x /\ finnn x).
  { rewrite Hdl. destruct k as [|k']; [congruence|]. cbn [nth_error].
    destruct (nth_error (map2 fl s' (a0 :: s')) k') as [x|] eqn:Ex.
    - exists x. split; [reflexivity|]. rewrite Forall_forall in HL. apply HL. eapply nth_error_In; eassumption.
    - apply nth_error_None in Ex. rewrite map2_length in Ex. cbn [length] in *. lia. }
  assert (Hxu : exists y, nth_error dn k = Some y /\ finnn y).
  { rewrite Hdu. assert (Hlu : length (map2 fu (removelast (a0 :: s')) (tl (a0 :: s'))) = length (a0 :: s') - 1).
    { rewrite map2_length. cbn [tl]. rewrite removelast_len. cbn [length] in *. lia. }
    rewrite nth_error_app1 by lia.
    destruct (nth_error (map2 fu (removelast (a0 :: s')) (tl (a0 :: s'))) k) as [y|] eqn:Ey.
    - exists y. split; [reflexivity|]. rewrite Forall_forall in HU. apply HU. eapply nth_error_In; eassumption.
    - apply nth_error_None in Ey. lia. }
  destruct Hxl as (x & Hx & Hxf). destruct Hxu as (y & Hy & Hyf).
  assert (Hval : nth_error (map2 (add (base E)) dl dn) k = Some (eadd x y)) by (now apply nth_error_map2_gen).
  assert (Hlv : length idx = length (map2 (add (base E)) dl dn)).
  { rewrite map2_length. unfold dl, dn. rewrite !map2_length, app_length. cbn [length tl] in *. lia. }
  rewrite (scatter_nth (length idx) idx (map2 (add (base E)) dl dn) k i (eadd x y) ENaN Hnd Hlv Hk Hval Hi).
  now apply finnn_add.
Qed.

Lemma cd_col_inside v i : Forall isfin v -> i < length v ->
  i <> nth 0 (argsort (X := E) v) 0 -> i <> last (argsort (X := E) v) 0 -> finnn (nth i (cd_col (X := E) v) ENaN).
Proof.
  intros Hv Hi Hn0 Hn1.
  pose proof (sorted_map_key v _ (argsort_sorted v Hv)) as Hs. pose proof (keys_fin v _ Hv (argsort_range v)) as Hf.
  pose proof (cd_col_norm_ok v Hv) as Hn. cbv zeta in Hn.
  pose proof (argsort_perm v) as HP. pose proof (argsort_length v) as Hl. pose proof (argsort_nodup v) as Hnd.
  assert (Hin : In i (argsort (X := E) v)) by (apply (Permutation_in _ (Permutation_sym HP)); apply in_seq; lia).
  destruct (In_nth_error _ _ Hin) as [k Hk].
  assert (Hkl : k < length (argsort (X := E) v)) by (apply nth_error_Some; congruence).
  assert (Hk0 : k <> 0). { intro Hx. subst k. apply Hn0. destruct (argsort (X := E) v); cbn in *; [discriminate|now inversion Hk]. }
  assert (Hk1 : k <> length v - 1).
  { intro Hx. apply Hn1. assert (Hne : argsort (X := E) v <> []) by (intro Hy; rewrite Hy in Hkl; cbn in Hkl; lia).
    rewrite Hx, <- Hl in Hk. rewrite (nth_error_last _ 0 Hne) in Hk. now inversion Hk. }
  unfold cd_col.
  apply (cd_core (length v) (argsort (X := E) v) (map (key v) (argsort (X := E) v)) _ i k); try assumption.
  now rewrite map_length.
Qed.

(* ---------- the whole metric ---------- *)
Definition cd_ext (F : list (list eq)) : list nat :=
  let m := length (hd [] F) in
  let cols := map (col (X := E) F) (seq 0 m) in
  map (fun c => nth 0 (argsort (X := E) c) 0) cols ++ map (fun c => last (argsort (X := E) c) 0) cols.

Lemma cd_ext_length F m : length (hd [] F) = m -> length (cd_ext F) = 2 * m.
Proof. intro Hm. unfold cd_ext. rewrite Hm, app_length, !map_length, seq_length. lia. Qed.

Lemma sum_lr_finnn r : Forall finnn r -> finnn (sum_lr (X := E) r).
Proof.
  intro H. unfold sum_lr. destruct r as [|x t]; [exists 0%Q; split; [reflexivity|lra]|].
  pose proof (Forall_inv H) as Hx. pose proof (Forall_inv_tail H) as Ht. clear H. revert x Hx.
  induction t as [|y t IH]; intros x Hx; cbn; [assumption|]. apply IH; [exact (Forall_inv_tail Ht)|].
  apply finnn_add; [assumption|exact (Forall_inv Ht)].
Qed.

Theorem cd_finite_inside F m i : fin_matrix F m -> 0 < m -> length (hd [] F) = m -> i < length F ->
  ~ In i (cd_ext F) -> finnn (nth i (calc_crowding_distance (X := E) F) ENaN).
Proof.
  intros HF Hm Hhd Hi Hnin. unfold calc_crowding_distance. change (length (hd [] F)) with (@length eq (hd [] F)). change (T (base E)) with eq. rewrite Hhd.
  set (cols := map (fun j0 => cd_col (X := E) (col (X := E) F j0)) (seq 0 m)).
  set (g := fun r : list eq => div (base E) (sum_lr (X := E) r) (of_nat (base E) m)).
  rewrite (nth_indep _ ENaN (g (map (fun c => nth i c ENaN) cols))) by (rewrite map_length; unfold rows_of; rewrite map_length, seq_length; exact Hi).
  rewrite (map_nth g). unfold rows_of.
  rewrite (nth_indep _ _ ((fun i0 => map (fun c => nth i0 c (qnan E)) cols) 0)) by (rewrite map_length, seq_length; exact Hi).
  rewrite (map_nth (fun i0 => map (fun c => nth i0 c (qnan E)) cols)). rewrite seq_nth by exact Hi. cbn [Nat.add].
  subst g. cbn beta.
  assert (Hrow : Forall finnn (map (fun c => nth i c (qnan E)) cols)).
  { apply Forall_forall. intros z Hz. apply in_map_iff in Hz as (c & <- & Hc). subst cols.
    apply in_map_iff in Hc as (j0 & <- & Hj0). apply in_seq in Hj0.
    destruct (col_fin F m j0 HF ltac:(lia)) as [Hcf0 Hcl0]. change (T (base E)) with eq in *.
    apply cd_col_inside; [assumption|now rewrite Hcl0| |].
    - intro Hx. apply Hnin. unfold cd_ext. rewrite Hhd. apply in_or_app. left. rewrite Hx.
      apply (in_map (fun c => nth 0 (argsort (X := E) c) 0)). apply in_map. apply in_seq. lia.
    - intro Hx. apply Hnin. unfold cd_ext. rewrite Hhd. apply in_or_app. right. rewrite Hx.
      apply (in_map (fun c => last (argsort (X := E) c) 0)). apply in_map. apply in_seq. lia. }
  destruct (sum_lr_finnn _ Hrow) as (q & Hq & Hq0). rewrite Hq. cbn.
  assert (Hpos : (0 < inject_Z (Z.of_nat m))%Q) by (unfold Qlt; cbn; lia).
  rewrite (qsign_pos _ Hpos). cbn. eexists. split; [reflexivity|]. apply Qle_shift_div_l; [assumption|lra].
Qed.

(* ---------- the boundary clause for the default metric ---------- *)
Theorem cd_boundary_kept F m (front : list nat) quota sel perm sv :
  fin_matrix F m -> 0 < m -> length (hd [] F) = m ->
  let crowd := calc_crowding_distance (X := E) F in
  length front = length F -> length perm = length crowd -> NoDup perm -> Forall (fun i => i < length crowd) perm ->
  pick crowd perm = Some sv -> sorted_by (N := EQn) true sv = true -> pick front (firstn quota perm) = Some sel ->
  2 * m <= quota ->
  forall j, j < m -> (exists a b, In a (col (X := E) F j) /\ In b (col (X := E) F j) /\ eltb a b = true) ->
  exists i0 i1, i0 < length F /\ i1 < length F /\
    (forall i, i < length F -> fle (nth i0 (col (X := E) F j) ENaN) (nth i (col (X := E) F j) ENaN) /\
                               fle (nth i (col (X := E) F j) ENaN) (nth i1 (col (X := E) F j) ENaN)) /\
    (forall x, nth_error front i0 = Some x -> In x sel) /\ (forall x, nth_error front i1 = Some x -> In x sel).
Proof.
  intros HF Hm Hhd crowd Hfl Hpl Hnd Hr Hsv Hs Hsel Hq j Hj Hnc.
  destruct (cd_wellformed F m HF Hm Hhd) as [Hcl Hcg]. fold crowd in Hcl, Hcg.
  destruct (cd_extremes_infinite F m j HF Hm Hhd Hj Hnc) as (i0 & i1 & H0 & H1 & Hext & Hp0 & Hp1). fold crowd in Hp0, Hp1.
  exists i0, i1. split; [assumption|]. split; [assumption|]. split; [assumption|].
  assert (Hcnt : length (filter (fun i => negb (ltb EQn (nth i crowd PInf) PInf)) (seq 0 (length crowd))) <= quota).
  { apply Nat.le_trans with (2 * m); [|assumption]. rewrite <- (cd_ext_length F m Hhd).
    apply NoDup_incl_le; [apply NoDup_filter, seq_NoDup|]. intros i Hi. apply filter_In in Hi as [Hi Hv]. apply in_seq in Hi.
    destruct (in_dec Nat.eq_dec i (cd_ext F)) as [Hin|Hnin]; [assumption|exfalso].
    assert (Hic : i < length crowd) by lia. assert (HiF : i < length F) by (rewrite <- Hcl; exact Hic).
    destruct (cd_finite_inside F m i HF Hm Hhd HiF Hnin) as (q & Hq' & _). fold crowd in Hq'.
    assert (Hn : nth i crowd PInf = Fin q) by (exact (eq_trans (nth_indep crowd PInf ENaN Hic) Hq')).
    assert (Hx : negb (eltb (nth i crowd PInf) PInf) = true) by exact Hv. rewrite Hn in Hx. cbn in Hx. discriminate. }
  assert (Hok : Forall nonnan crowd) by (apply Forall_forall; intros x Hx; apply good_nonnan; rewrite Forall_forall in Hcg; auto).
  assert (Htop : nonnan PInf) by discriminate.
  assert (Hlc : length crowd = length front) by congruence.
  split; intros x Hx.
  - apply (cut_keeps_top EQn_ord_nn front quota sel crowd perm sv PInf Hlc Hpl Hnd Hr Hsv Hs Hsel Hok Htop Hcnt i0 x Hx).
    assert (Hac : i0 < length crowd) by (rewrite Hcl; exact H0).
    assert (Hn : nth i0 crowd PInf = PInf) by (exact (eq_trans (nth_indep crowd PInf ENaN Hac) Hp0)).
    assert (Hy : eltb (nth i0 crowd PInf) PInf = false) by (rewrite Hn; reflexivity). exact Hy.
  - apply (cut_keeps_top EQn_ord_nn front quota sel crowd perm sv PInf Hlc Hpl Hnd Hr Hsv Hs Hsel Hok Htop Hcnt i1 x Hx).
    assert (Hbc : i1 < length crowd) by (rewrite Hcl; exact H1).
    assert (Hn : nth i1 crowd PInf = PInf) by (exact (eq_trans (nth_indep crowd PInf ENaN Hbc) Hp1)).
    assert (Hy : eltb (nth i1 crowd PInf) PInf = false) by (rewrite Hn; reflexivity). exact Hy.
Qed.
