(* C13: well-formedness of the crowding distance (calc_crowding_distance) in exact arithmetic with IEEE special values *)
From Coq Require Import List Bool Arith Lia QArith Lqa Permutation Sorted.
From PV Require Import Base.Num Base.NumEQ Base.Res Base.ListX Model.Crowding Proofs.CrowdingP.
Import ListNotations.
Local Open Scope nat_scope.

Notation E := EQx.

(* ---------- the stable argsort of a column of finite values ---------- *)
Section Argsort.
Variable v : list eq.
Hypothesis Hfin : Forall isfin v.

Definition key (i : nat) : eq := nth i v ENaN.
Definition ile (a b : nat) : Prop := eltb (key b) (key a) = false.      (* v[a] <= v[b] *)

Lemma key_fin i : i < length v -> isfin (key i).
Proof. intro H. rewrite Forall_forall in Hfin. apply Hfin. now apply nth_In. Qed.

Lemma ins_idx_perm i l : Permutation (ins_idx (X := E) v i l) (i :: l).
Proof.
  induction l as [|h t IH]; cbn [ins_idx]; [reflexivity|].
  match goal with |- context [if ?c then _ else _] => destruct c end; [reflexivity|]. rewrite IH. apply perm_swap.
Qed.

Lemma fold_ins_perm l : forall acc, Permutation (fold_left (fun a i => ins_idx (X := E) v i a) l acc) (acc ++ l).
Proof.
  induction l as [|x l IH]; intro acc; cbn; [now rewrite app_nil_r|].
  rewrite IH, ins_idx_perm. rewrite (Permutation_middle acc l x). reflexivity.
Qed.

Lemma argsort_perm : Permutation (argsort (X := E) v) (seq 0 (length v)).
Proof. unfold argsort. exact (fold_ins_perm (seq 0 (length v)) []). Qed.

Lemma ins_idx_sorted i l : i < length v -> Forall (fun j => j < length v) l ->
  StronglySorted ile l -> StronglySorted ile (ins_idx (X := E) v i l).
Proof.
  intros Hi Hl Hs. induction Hs as [|h t Hs IH Hall]; cbn [ins_idx]; [repeat constructor|].
  pose proof (Forall_inv Hl) as Hh. pose proof (Forall_inv_tail Hl) as Ht. cbn beta in Hh.
  match goal with |- context [if ?c then _ else _] => change c with (eltb (key i) (key h)) end.
  destruct (eltb (key i) (key h)) eqn:Elt.
  - constructor; [constructor; assumption|]. constructor.
    + unfold ile. exact (lt_asym EQn_ord (key i) (key h) (key_fin i Hi) (key_fin h Hh) Elt).
    + rewrite Forall_forall in Hall, Ht. rewrite Forall_forall. intros y Hy. unfold ile in *.
      destruct (eltb (key y) (key i)) eqn:Ey; [|reflexivity]. exfalso.
      pose proof (lt_trans _ _ EQn_ord (key y) (key i) (key h) (key_fin y (Ht y Hy)) (key_fin i Hi) (key_fin h Hh) Ey Elt) as Hyh.
      pose proof (Hall y Hy) as Hq. change (eltb (key y) (key h) = true) in Hyh. congruence.
  - constructor; [apply IH; assumption|].
    rewrite Forall_forall. intros y Hy. apply (Permutation_in _ (ins_idx_perm i t)) in Hy.
    destruct Hy as [<-|Hy]; [exact Elt|]. rewrite Forall_forall in Hall. auto.
Qed.

Lemma argsort_sorted : StronglySorted ile (argsort (X := E) v).
Proof.
  unfold argsort.
  assert (G : forall l acc, Forall (fun j => j < length v) l -> Forall (fun j => j < length v) acc -> StronglySorted ile acc ->
              StronglySorted ile (fold_left (fun a i => ins_idx (X := E) v i a) l acc)).
  { induction l as [|x l IH]; intros acc Hl Ha Hs; cbn; [assumption|].
    pose proof (Forall_inv Hl) as Hx. cbn beta in Hx. apply IH; [exact (Forall_inv_tail Hl)| |now apply ins_idx_sorted].
    rewrite Forall_forall. intros y Hy. apply (Permutation_in _ (ins_idx_perm x acc)) in Hy.
    destruct Hy as [<-|Hy]; [assumption|]. rewrite Forall_forall in Ha. auto. }
  apply G; [|constructor|constructor]. apply Forall_forall. intros j Hj. apply in_seq in Hj. destruct Hj as [_ Hj]. exact Hj.
Qed.

Lemma argsort_range : Forall (fun j => j < length v) (argsort (X := E) v).
Proof. apply Forall_forall. intros j Hj. apply (Permutation_in _ argsort_perm) in Hj. apply in_seq in Hj. destruct Hj as [_ Hj]. exact Hj. Qed.

Lemma argsort_length : length (argsort (X := E) v) = length v.
Proof. rewrite (Permutation_length argsort_perm). apply seq_length. Qed.

Lemma argsort_nodup : NoDup (argsort (X := E) v).
Proof. apply (Permutation_NoDup (Permutation_sym argsort_perm)). apply seq_NoDup. Qed.
End Argsort.

(* ---------- values: non-negative finite or +inf ---------- *)
Local Open Scope Q_scope.
Local Arguments qsign : simpl never.
Definition good (e : eq) : Prop := e = PInf \/ exists q, e = Fin q /\ 0 <= q.
Definition norm_ok (nm : eq) : Prop := nm = ENaN \/ exists d, nm = Fin d /\ 0 < d.

Lemma good_zero : good (Fin 0). Proof. right. exists 0. split; [reflexivity|lra]. Qed.

Lemma good_add a b : good a -> good b -> good (eadd a b).
Proof.
  intros [->|(x & -> & Hx)] [->|(y & -> & Hy)]; cbn; try (now left).
  right. exists (x + y). split; [reflexivity|lra].
Qed.

Lemma add_pinf_l a : good a -> eadd PInf a = PInf. Proof. intros [->|(x & -> & _)]; reflexivity. Qed.
Lemma add_pinf_r a : good a -> eadd a PInf = PInf. Proof. intros [->|(x & -> & _)]; reflexivity. Qed.

Lemma qsign_pos d : 0 < d -> qsign d = Lt.
Proof. intro H. unfold qsign. now apply Qlt_alt. Qed.

Lemma good_div_pos a m : good a -> 0 < m -> good (ediv a (Fin m)).
Proof.
  intros [->|(x & -> & Hx)] Hm; cbn; rewrite (qsign_pos m Hm); [now left|].
  right. exists (x / m). split; [reflexivity|]. apply Qle_shift_div_l; [assumption|lra].
Qed.

Definition nan0e (x : eq) : eq := nan0 (X := E) x.

(* one term of the lower / upper distance: (a - b) / norm with NaN -> 0 *)
Lemma step_good qa b nm : norm_ok nm ->
  (b = NInf \/ exists qb, b = Fin qb /\ qb <= qa) -> good (nan0e (ediv (esub (Fin qa) b) nm)).
Proof.
  intros [->|(d & -> & Hd)] [->|(qb & -> & Hle)]; unfold nan0e, nan0; cbn; try apply good_zero.
  - rewrite (qsign_pos d Hd). now left.
  - rewrite (qsign_pos d Hd). cbn. right. exists ((qa + - qb) / d). split; [reflexivity|].
    apply Qle_shift_div_l; [assumption|lra].
Qed.

Lemma step_good_up qa b nm : norm_ok nm ->
  (b = PInf \/ exists qb, b = Fin qb /\ qa <= qb) -> good (nan0e (ediv (esub b (Fin qa)) nm)).
Proof.
  intros [->|(d & -> & Hd)] [->|(qb & -> & Hle)]; unfold nan0e, nan0; cbn; try apply good_zero.
  - rewrite (qsign_pos d Hd). now left.
  - rewrite (qsign_pos d Hd). cbn. right. exists ((qb + - qa) / d). split; [reflexivity|].
    apply Qle_shift_div_l; [assumption|lra].
Qed.

Lemma step_inf_low qa d : 0 < d -> nan0e (ediv (esub (Fin qa) NInf) (Fin d)) = PInf.
Proof. intro Hd. unfold nan0e, nan0. cbn. now rewrite (qsign_pos d Hd). Qed.
Lemma step_inf_up qa d : 0 < d -> nan0e (ediv (esub PInf (Fin qa)) (Fin d)) = PInf.
Proof. intro Hd. unfold nan0e, nan0. cbn. now rewrite (qsign_pos d Hd). Qed.

(* ascending lists of finite values *)
Definition fle (x y : eq) : Prop := eltb y x = false.

Lemma fle_fin x y : isfin x -> isfin y -> fle x y -> exists qx qy, x = Fin qx /\ y = Fin qy /\ qx <= qy.
Proof.
  intros [qx ->] [qy ->] H. exists qx, qy. repeat split. unfold fle in H. cbn in H.
  apply negb_false_iff in H. now apply Qle_bool_iff in H.
Qed.

Lemma lower_good nm : norm_ok nm -> forall s p, Forall isfin s -> StronglySorted fle s ->
  (p = NInf \/ (isfin p /\ Forall (fle p) s)) ->
  Forall good (map2 (fun a b => nan0e (ediv (esub a b) nm)) s (p :: s)).
Proof.
  intros Hn. induction s as [|a s IH]; intros p Hf Hs Hp; cbn [map2]; [constructor|].
  pose proof (Forall_inv Hf) as Ha. pose proof (Forall_inv_tail Hf) as Hf'. cbn beta in Ha.
  inversion Hs as [|? ? Hs' Hall]; subst. destruct Ha as [qa ->]. constructor.
  - apply step_good; [assumption|]. destruct Hp as [->|[Hpf Hpl]]; [now left|right].
    destruct (fle_fin p (Fin qa) Hpf (ex_intro _ qa eq_refl) (Forall_inv Hpl)) as (qp & qa' & -> & E & Hle).
    inversion E; subst. exists qp. auto.
  - apply IH; [assumption|assumption|]. right. split; [now exists qa|assumption].
Qed.

Lemma upper_good nm : norm_ok nm -> forall s, Forall isfin s -> StronglySorted fle s ->
  Forall good (map2 (fun a b => nan0e (ediv (esub b a) nm)) s (tl s ++ [PInf])).
Proof.
  intros Hn. induction s as [|a s IH]; intros Hf Hs; cbn [map2 tl app]; [constructor|].
  pose proof (Forall_inv Hf) as Ha. pose proof (Forall_inv_tail Hf) as Hf'. cbn beta in Ha.
  inversion Hs as [|? ? Hs' Hall]; subst. destruct Ha as [qa ->].
  destruct s as [|a' s'].
  - cbn [map2 tl app]. constructor; [|constructor]. apply step_good_up; [assumption|now left].
  - cbn [app map2 tl] in *. constructor.
    + apply step_good_up; [assumption|right].
      destruct (fle_fin (Fin qa) a' (ex_intro _ qa eq_refl) (Forall_inv Hf') (Forall_inv Hall)) as (q1 & q2 & E & -> & Hle).
      inversion E; subst. exists q2. auto.
    + exact (IH Hf' Hs').
Qed.

Lemma Forall_map2 {A B C} (P : C -> Prop) (f : A -> B -> C) (PA : A -> Prop) (PB : B -> Prop) a b :
  (forall x y, PA x -> PB y -> P (f x y)) -> Forall PA a -> Forall PB b -> Forall P (map2 f a b).
Proof.
  intros H Ha. revert b. induction Ha as [|x a Hx Ha IH]; intros b Hb; destruct b; cbn; try constructor.
  - apply H; [assumption|exact (Forall_inv Hb)].
  - apply IH. exact (Forall_inv_tail Hb).
Qed.

Lemma set_nth_Forall {A} (P : A -> Prop) n a l : P a -> Forall P l -> Forall P (set_nth n a l).
Proof.
  intros Ha. revert n. induction l as [|h t IH]; intros n Hl; destruct n; cbn; try constructor; try assumption.
  - exact (Forall_inv_tail Hl).
  - exact (Forall_inv Hl).
  - apply IH. exact (Forall_inv_tail Hl).
Qed.

Lemma scatter_good n idx vals : Forall good vals -> Forall good (scatter (X := E) n idx vals).
Proof.
  intro Hv. unfold scatter.
  assert (G : forall l acc, Forall (fun p : nat * eq => good (snd p)) l -> Forall good acc ->
              Forall good (fold_left (fun acc p => set_nth (fst p) (snd p) acc) l acc)).
  { induction l as [|p l IH]; intros acc Hl Ha; cbn; [assumption|].
    apply IH; [exact (Forall_inv_tail Hl)|]. apply set_nth_Forall; [exact (Forall_inv Hl)|assumption]. }
  apply G.
  - apply Forall_forall. intros [i x] Hin. cbn. apply in_combine_r in Hin. rewrite Forall_forall in Hv. auto.
  - apply Forall_forall. intros x Hx. apply repeat_spec in Hx. subst. apply good_zero.
Qed.

(* ---------- one objective ---------- *)
Lemma sorted_map_key v idx : StronglySorted (ile v) idx -> StronglySorted fle (map (key v) idx).
Proof.
  induction 1 as [|a l Hs IH Hall]; cbn; constructor; [assumption|].
  apply Forall_forall. intros y Hy. apply in_map_iff in Hy as (b & <- & Hb). rewrite Forall_forall in Hall. exact (Hall b Hb).
Qed.

Lemma keys_fin v idx : Forall isfin v -> Forall (fun j => (j < length v)%nat) idx -> Forall isfin (map (key v) idx).
Proof.
  intros Hv Hi. apply Forall_forall. intros y Hy. apply in_map_iff in Hy as (b & <- & Hb).
  rewrite Forall_forall in Hi. apply key_fin; auto.
Qed.

Lemma nth_pred_last (s : list eq) d : nth (length s - 1) s d = last s d.
Proof.
  induction s as [|a s IH]; [reflexivity|]. destruct s as [|b s']; [reflexivity|].
  cbn [length last] in *. replace (S (S (length s')) - 1)%nat with (S (length s' - 0))%nat by lia. cbn [nth].
  rewrite Nat.sub_0_r. rewrite <- IH. cbn. now rewrite Nat.sub_0_r.
Qed.

Lemma sorted_hd_le_last s : Forall isfin s -> StronglySorted fle s -> s <> [] ->
  exists f l, hd ENaN s = Fin f /\ last s ENaN = Fin l /\ f <= l.
Proof.
  intros Hf Hs Hne. destruct s as [|a s']; [congruence|]. pose proof (Forall_inv Hf) as [qa ->]. cbn [hd].
  inversion Hs as [|? ? _ Hall]; subst.
  destruct s' as [|b s''] eqn:Es; [exists qa, qa; repeat split; lra|]. rewrite <- Es in *.
  assert (Hin : In (last s' ENaN) s') by (apply last_In; subst s'; discriminate).
  assert (Hlast : last (Fin qa :: s') ENaN = last s' ENaN) by (subst s'; reflexivity).
  rewrite Hlast. rewrite Forall_forall in Hall. specialize (Hall _ Hin).
  assert (Hfl : isfin (last s' ENaN)) by (pose proof (Forall_inv_tail Hf) as Hf'; rewrite Forall_forall in Hf'; auto).
  destruct (fle_fin _ _ (ex_intro _ qa eq_refl) Hfl Hall) as (q1 & q2 & E1 & E2 & Hle). inversion E1; subst.
  exists q1, q2. auto.
Qed.

Lemma cd_col_norm_ok v : Forall isfin v ->
  let s := map (key v) (argsort (X := E) v) in
  let norm0 := esub (nth (length v - 1) s ENaN) (nth 0 s ENaN) in
  norm_ok (if eeqb norm0 (Fin 0) then ENaN else norm0).
Proof.
  intros Hv s norm0.
  pose proof (sorted_map_key v _ (argsort_sorted v Hv)) as Hs. fold s in Hs.
  pose proof (keys_fin v _ Hv (argsort_range v)) as Hf. fold s in Hf.
  assert (Hlen : length s = length v) by (subst s; rewrite map_length; apply argsort_length).
  destruct (Nat.eq_dec (length s) 0) as [Hz|Hnz].
  - apply length_zero_iff_nil in Hz. subst norm0. rewrite Hz. cbn. destruct (length v - 1)%nat; cbn; now left.
  - assert (Hne : s <> []) by (intro Hc; rewrite Hc in Hnz; cbn in Hnz; lia).
    destruct (sorted_hd_le_last s Hf Hs Hne) as (f & l & Hhd & Hlast & Hle).
    assert (E0 : nth 0 s ENaN = Fin f) by (rewrite <- Hhd; destruct s; reflexivity).
    assert (E1 : nth (length v - 1) s ENaN = Fin l) by (rewrite <- Hlen, nth_pred_last; exact Hlast).
    subst norm0. rewrite E0, E1. cbn. destruct (Qeq_bool (l + - f) 0) eqn:Eq; [now left|right].
    exists (l + - f). split; [reflexivity|].
    assert (~ l + - f == 0) by (intro Hc; apply Qeq_bool_iff in Hc; congruence). lra.
Qed.

(* every point's contribution of one objective is a non-negative number or +inf: never NaN, never negative *)
Lemma cd_col_good v : Forall isfin v -> Forall good (cd_col (X := E) v).
Proof.
  intro Hv. unfold cd_col. apply scatter_good.
  pose proof (sorted_map_key v _ (argsort_sorted v Hv)) as Hs.
  pose proof (keys_fin v _ Hv (argsort_range v)) as Hf.
  pose proof (cd_col_norm_ok v Hv) as Hn. cbv zeta in Hn.
  apply (Forall_map2 good (add (base E)) good good); [intros x y; apply good_add| |].
  - exact (lower_good _ Hn _ NInf Hf Hs (or_introl eq_refl)).
  - exact (upper_good _ Hn _ Hf Hs).
Qed.

Lemma cd_col_length v : length (cd_col (X := E) v) = length v.
Proof. unfold cd_col. apply scatter_length. Qed.

(* ---------- the whole metric ---------- *)
Definition fin_matrix (F : list (list eq)) (m : nat) : Prop := Forall (fun r => length r = m /\ Forall isfin r) F.

Lemma col_fin F m j : fin_matrix F m -> (j < m)%nat -> Forall isfin (col (X := E) F j) /\ length (col (X := E) F j) = length F.
Proof.
  intros HF Hj. unfold col. split; [|apply map_length]. apply Forall_forall. intros y Hy.
  apply in_map_iff in Hy as (r & <- & Hr). unfold fin_matrix in HF. rewrite Forall_forall in HF. destruct (HF r Hr) as [Hl Hfr].
  rewrite Forall_forall in Hfr. apply Hfr. apply nth_In. change (T (base E)) with eq in *. lia.
Qed.

Lemma sum_lr_good r : Forall good r -> good (sum_lr (X := E) r).
Proof.
  intro H. unfold sum_lr. destruct r as [|x t]; [apply good_zero|].
  pose proof (Forall_inv H) as Hx. pose proof (Forall_inv_tail H) as Ht. clear H. revert x Hx.
  induction t as [|y t IH]; intros x Hx; cbn; [assumption|]. apply IH; [exact (Forall_inv_tail Ht)|].
  apply good_add; [assumption|exact (Forall_inv Ht)].
Qed.

Theorem cd_wellformed F m : fin_matrix F m -> (0 < m)%nat -> length (hd [] F) = m ->
  length (calc_crowding_distance (X := E) F) = length F /\ Forall good (calc_crowding_distance (X := E) F).
Proof.
  intros HF Hm Hhd. split; [exact (calc_crowding_distance_length (X := E) F)|].
  unfold calc_crowding_distance. change (length (hd [] F)) with (@length eq (hd [] F)). change (T (base E)) with eq. rewrite Hhd. apply Forall_forall. intros y Hy.
  apply in_map_iff in Hy as (r & <- & Hr). unfold rows_of in Hr. apply in_map_iff in Hr as (i & <- & Hi). apply in_seq in Hi.
  apply good_div_pos.
  - apply sum_lr_good. apply Forall_forall. intros z Hz. apply in_map_iff in Hz as (c & <- & Hc).
    apply in_map_iff in Hc as (j & <- & Hj). apply in_seq in Hj.
    destruct (col_fin F m j HF ltac:(lia)) as [Hcf Hcl].
    pose proof (cd_col_good _ Hcf) as Hg. rewrite Forall_forall in Hg. apply Hg. apply nth_In.
    rewrite cd_col_length, Hcl. change (T (base E)) with eq in *. lia.
  - cbn. unfold Qlt. cbn. lia.
Qed.

(* ---------- the extremes of every non-constant objective are infinitely uncrowded ---------- *)
Lemma fold_set_untouched {A} (l : list (nat * A)) : forall acc i d, ~ In i (map fst l) ->
  nth i (fold_left (fun acc p => set_nth (fst p) (snd p) acc) l acc) d = nth i acc d.
Proof.
  induction l as [|[j y] l IH]; intros acc i d Hn; cbn; [reflexivity|].
  rewrite IH by (intro H; apply Hn; now right). cbn.
  assert (Hji : j <> i) by (intro E; apply Hn; now left).
  clear - Hji. revert i acc Hji. induction j; intros i [|a acc] Hji; destruct i; cbn; try reflexivity; try congruence. apply IHj. congruence.
Qed.

Lemma fold_set_written {A} (l : list (nat * A)) : forall acc i x d, NoDup (map fst l) -> In (i, x) l -> (i < length acc)%nat ->
  nth i (fold_left (fun acc p => set_nth (fst p) (snd p) acc) l acc) d = x.
Proof.
  induction l as [|[j y] l IH]; intros acc i x d Hnd Hin Hi; [destruct Hin|].
  cbn [map fst] in Hnd. inversion Hnd as [|? ? Hnj Hnd']; subst. cbn [fold_left fst snd].
  destruct Hin as [E|Hin].
  - inversion E; subst. rewrite fold_set_untouched by assumption.
    clear - Hi. revert acc Hi. induction i; intros [|a acc] Hi; cbn in *; try lia; [reflexivity|]. apply IHi. lia.
  - apply IH; [assumption|assumption|]. now rewrite set_nth_length.
Qed.

Lemma scatter_nth n idx (vals : list eq) k i x d :
  NoDup idx -> length idx = length vals -> nth_error idx k = Some i -> nth_error vals k = Some x -> (i < n)%nat ->
  nth i (scatter (X := E) n idx vals) d = x.
Proof.
  intros Hnd Hl Hi Hx Hin. unfold scatter. apply fold_set_written.
  - rewrite map_fst_combine_eq by exact Hl. exact Hnd.
  - clear - Hi Hx. revert vals k Hi Hx. induction idx as [|a idx IH]; intros [|b vals] [|k] Hi Hx; cbn in *; try discriminate.
    + inversion Hi; inversion Hx; subst. now left.
    + right. eapply IH; eauto.
  - now rewrite repeat_length.
Qed.

Lemma sum_lr_pinf r : Forall good r -> In PInf r -> sum_lr (X := E) r = PInf.
Proof.
  intros Hg Hin. unfold sum_lr. destruct r as [|x t]; [destruct Hin|].
  assert (G : forall t acc, Forall good t -> good acc -> (acc = PInf \/ In PInf t) -> fold_left (add (base E)) t acc = PInf).
  { induction t0 as [|y t0 IH]; intros acc Ht Ha Hor; cbn.
    - destruct Hor as [->|[]]. reflexivity.
    - apply IH; [exact (Forall_inv_tail Ht)|apply good_add; [assumption|exact (Forall_inv Ht)]|].
      destruct Hor as [->|[E|Hin']]; [left; apply add_pinf_l; exact (Forall_inv Ht)|left; subst y; apply add_pinf_r; assumption|now right]. }
  apply G; [exact (Forall_inv_tail Hg)|exact (Forall_inv Hg)|]. destruct Hin as [->|Hin]; [now left|now right].
Qed.

Lemma sorted_le_last {A} (R : A -> A -> Prop) (l : list A) d x :
  StronglySorted R l -> In x l -> x = last l d \/ R x (last l d).
Proof.
  induction 1 as [|a l Hs IH Hall]; intro Hin; [destruct Hin|].
  destruct l as [|b l'].
  - destruct Hin as [->|[]]. now left.
  - change (last (a :: b :: l') d) with (last (b :: l') d). destruct Hin as [->|Hin].
    + right. rewrite Forall_forall in Hall. apply Hall. apply last_In. discriminate.
    + apply IH. exact Hin.
Qed.

Lemma fle_refl x : isfin x -> fle x x.
Proof. intros [q ->]. unfold fle. cbn. apply negb_false_iff. apply Qle_bool_iff. lra. Qed.

(* first index of the argsort holds a minimum of the column, the last one a maximum *)
Lemma argsort_extremes v : Forall isfin v -> v <> [] ->
  exists i0 i1, nth_error (argsort (X := E) v) 0 = Some i0 /\ nth_error (argsort (X := E) v) (length v - 1) = Some i1 /\
    (i0 < length v)%nat /\ (i1 < length v)%nat /\
    forall i, (i < length v)%nat -> fle (key v i0) (key v i) /\ fle (key v i) (key v i1).
Proof.
  intros Hv Hne. pose proof (argsort_sorted v Hv) as Hs. pose proof (argsort_perm v) as HP.
  pose proof (argsort_range v) as Hr. pose proof (argsort_length v) as Hl.
  set (idx := argsort (X := E) v) in *.
  assert (Hn : (0 < length v)%nat) by (destruct v; [congruence|cbn; lia]).
  assert (Hine : idx <> []) by (intro Hc; rewrite Hc in Hl; cbn in Hl; lia).
  destruct idx as [|i0 rest] eqn:Ei; [congruence|]. rewrite <- Ei in *.
  set (i1 := last idx 0%nat).
  assert (Hi1 : nth_error idx (length v - 1) = Some i1) by (rewrite <- Hl; apply nth_error_last; exact Hine).
  assert (Hi0 : nth_error idx 0 = Some i0) by (rewrite Ei; reflexivity).
  rewrite Forall_forall in Hr.
  assert (Hr0 : (i0 < length v)%nat) by (apply Hr; rewrite Ei; now left).
  assert (Hr1 : (i1 < length v)%nat) by (apply Hr; apply last_In; exact Hine).
  exists i0, i1. repeat split; auto.
  - assert (Hin : In i idx) by (apply (Permutation_in _ (Permutation_sym HP)); apply in_seq; lia).
    rewrite Ei in Hin, Hs. inversion Hs as [|? ? _ Hall]; subst. destruct Hin as [<-|Hin].
    + apply fle_refl. apply key_fin; assumption.
    + rewrite Forall_forall in Hall. exact (Hall i Hin).
  - assert (Hin : In i idx) by (apply (Permutation_in _ (Permutation_sym HP)); apply in_seq; lia).
    destruct (sorted_le_last (ile v) idx 0%nat i Hs Hin) as [->|Hle]; [apply fle_refl; apply key_fin; assumption|exact Hle].
Qed.

Lemma nth_error_map2_gen {A B C} (f : A -> B -> C) a : forall b k x y,
  nth_error a k = Some x -> nth_error b k = Some y -> nth_error (map2 f a b) k = Some (f x y).
Proof.
  induction a as [|x0 a IH]; intros [|y0 b] [|k] x y Ha Hb; cbn in *; try discriminate.
  - inversion Ha; inversion Hb; subst; reflexivity.
  - eauto.
Qed.

Lemma Forall_nth_error {A} (P : A -> Prop) l k x : Forall P l -> nth_error l k = Some x -> P x.
Proof. intros H Hk. rewrite Forall_forall in H. apply H. eapply nth_error_In; eauto. Qed.

Lemma cd_col_extremes v : Forall isfin v -> (exists a b, In a v /\ In b v /\ eltb a b = true) ->
  exists i0 i1, (i0 < length v)%nat /\ (i1 < length v)%nat /\
    (forall i, (i < length v)%nat -> fle (key v i0) (key v i) /\ fle (key v i) (key v i1)) /\
    nth i0 (cd_col (X := E) v) ENaN = PInf /\ nth i1 (cd_col (X := E) v) ENaN = PInf.
Proof.
  intros Hv (a & b & Ha & Hb & Hab).
  assert (Hne : v <> []) by (intro Hc; subst; destruct Ha).
  destruct (argsort_extremes v Hv Hne) as (i0 & i1 & Hi0 & Hi1 & Hr0 & Hr1 & Hext).
  exists i0, i1. split; [assumption|]. split; [assumption|]. split; [assumption|].
  set (idx := argsort (X := E) v) in *. set (s := map (key v) idx).
  pose proof (sorted_map_key v _ (argsort_sorted v Hv)) as Hs. fold idx s in Hs.
  pose proof (keys_fin v _ Hv (argsort_range v)) as Hf. fold idx s in Hf.
  assert (Hlidx : length idx = length v) by apply argsort_length.
  assert (Hls : length s = length v) by (subst s; rewrite map_length; exact Hlidx).
  assert (Hs0 : nth_error s 0 = Some (key v i0)) by (subst s; now apply map_nth_error).
  assert (Hs1 : nth_error s (length v - 1) = Some (key v i1)) by (subst s; now apply map_nth_error).
  (* the range of the objective is positive *)
  destruct (key_fin v Hv i0 Hr0) as [f Ef]. destruct (key_fin v Hv i1 Hr1) as [l El].
  assert (Hd : 0 < l + - f).
  { destruct (In_nth v a ENaN Ha) as (ia & Hia & Eia). destruct (In_nth v b ENaN Hb) as (ib & Hib & Eib).
    destruct (Hext ia Hia) as [H1 _]. destruct (Hext ib Hib) as [_ H2].
    unfold key in *. rewrite Eia in H1. rewrite Eib in H2. rewrite Ef in H1. rewrite El in H2.
    rewrite Forall_forall in Hv. destruct (Hv a Ha) as [qa ->]. destruct (Hv b Hb) as [qb ->].
    unfold fle in H1, H2. cbn in H1, H2, Hab. apply negb_false_iff in H1, H2. apply Qle_bool_iff in H1, H2.
    apply negb_true_iff in Hab. assert (~ qb <= qa) by (intro Hc; apply Qle_bool_iff in Hc; congruence). lra. }
  assert (Hnorm : (if eeqb (esub (nth (length v - 1) s ENaN) (nth 0 s ENaN)) (Fin 0) then ENaN
                   else esub (nth (length v - 1) s ENaN) (nth 0 s ENaN)) = Fin (l + - f)).
  { rewrite (nth_error_nth _ _ _ Hs0), (nth_error_nth _ _ _ Hs1), Ef, El. cbn.
    destruct (Qeq_bool (l + - f) 0) eqn:Eq; [|reflexivity]. apply Qeq_bool_iff in Eq. lra. }
  assert (Hn : norm_ok (Fin (l + - f))) by (right; eexists; split; [reflexivity|assumption]).
  set (nm := Fin (l + - f)) in *.
  set (dl := map2 (fun x y => nan0e (ediv (esub x y) nm)) s (NInf :: s)).
  set (dn := map2 (fun x y => nan0e (ediv (esub y x) nm)) s (tl s ++ [PInf])).
  assert (Hgl : Forall good dl) by (exact (lower_good nm Hn s NInf Hf Hs (or_introl eq_refl))).
  assert (Hgn : Forall good dn) by (exact (upper_good nm Hn s Hf Hs)).
  assert (Hcd : cd_col (X := E) v = scatter (X := E) (length v) idx (map2 eadd dl dn)).
  { subst dl dn nm. rewrite <- Hnorm. reflexivity. }
  assert (Hn0 : (0 < length v)%nat) by (destruct v; [congruence|cbn; lia]).
  assert (Hdl0 : nth_error dl 0 = Some PInf).
  { subst dl. erewrite nth_error_map2_gen; [|exact Hs0|reflexivity]. rewrite Ef. subst nm. f_equal. now apply step_inf_low. }
  assert (Hdn1 : nth_error dn (length v - 1) = Some PInf).
  { subst dn. erewrite nth_error_map2_gen; [|exact Hs1|]. 
    - rewrite El. subst nm. f_equal. now apply step_inf_up.
    - rewrite nth_error_app2; [|destruct s; cbn in *; lia].
      replace (length v - 1 - length (tl s))%nat with 0%nat by (destruct s; cbn in *; lia). reflexivity. }
  assert (Hldl : length dl = length v) by (subst dl; rewrite map2_length; cbn [length]; change (T (base E)) with eq in *; lia).
  assert (Hldn : length dn = length v).
  { subst dn; rewrite map2_length, app_length; cbn [length]. change (T (base E)) with eq in *. clear - Hls Hn0. destruct s; cbn [tl length] in *; lia. }
  assert (Hdn0 : exists g0, nth_error dn 0 = Some g0 /\ good g0).
  { destruct (nth_error dn 0) as [g0|] eqn:E0; [|apply nth_error_None in E0; lia]. exists g0. split; [reflexivity|]. exact (Forall_nth_error good dn _ g0 Hgn E0). }
  assert (Hdl1 : exists g1, nth_error dl (length v - 1) = Some g1 /\ good g1).
  { destruct (nth_error dl (length v - 1)) as [g1|] eqn:E1; [|apply nth_error_None in E1; lia]. exists g1. split; [reflexivity|]. exact (Forall_nth_error good dl _ g1 Hgl E1). }
  destruct Hdn0 as (g0 & Hg0 & Hgood0). destruct Hdl1 as (g1 & Hg1 & Hgood1).
  assert (Hv0 : nth_error (map2 eadd dl dn) 0 = Some PInf).
  { erewrite nth_error_map2_gen; [|exact Hdl0|exact Hg0]. f_equal. now apply add_pinf_l. }
  assert (Hv1 : nth_error (map2 eadd dl dn) (length v - 1) = Some PInf).
  { erewrite nth_error_map2_gen; [|exact Hg1|exact Hdn1]. f_equal. now apply add_pinf_r. }
  assert (Hlv : length idx = length (map2 eadd dl dn)) by (rewrite map2_length; lia).
  rewrite Hcd. split.
  - exact (scatter_nth (length v) idx _ 0 i0 PInf ENaN (argsort_nodup v) Hlv Hi0 Hv0 Hr0).
  - exact (scatter_nth (length v) idx _ (length v - 1) i1 PInf ENaN (argsort_nodup v) Hlv Hi1 Hv1 Hr1).
Qed.

(* C13 for the crowding distance: for every non-constant objective, a holder of its minimum and a holder of its
   maximum receive +inf *)
Theorem cd_extremes_infinite F m j : fin_matrix F m -> (0 < m)%nat -> length (hd [] F) = m -> (j < m)%nat ->
  (exists a b, In a (col (X := E) F j) /\ In b (col (X := E) F j) /\ eltb a b = true) ->
  exists i0 i1, (i0 < length F)%nat /\ (i1 < length F)%nat /\
    (forall i, (i < length F)%nat -> fle (nth i0 (col (X := E) F j) ENaN) (nth i (col (X := E) F j) ENaN) /\
                                     fle (nth i (col (X := E) F j) ENaN) (nth i1 (col (X := E) F j) ENaN)) /\
    nth i0 (calc_crowding_distance (X := E) F) ENaN = PInf /\ nth i1 (calc_crowding_distance (X := E) F) ENaN = PInf.
Proof.
  intros HF Hm Hhd Hj Hnc. destruct (col_fin F m j HF Hj) as [Hcf Hcl].
  destruct (cd_col_extremes _ Hcf Hnc) as (i0 & i1 & H0 & H1 & Hext & Hp0 & Hp1).
  change (T (base E)) with eq in *. rewrite Hcl in H0, H1, Hext.
  exists i0, i1. split; [assumption|]. split; [assumption|]. split; [exact Hext|].
  assert (G : forall i, (i < length F)%nat -> nth i (cd_col (X := E) (col (X := E) F j)) ENaN = PInf ->
              nth i (calc_crowding_distance (X := E) F) ENaN = PInf).
  { intros i Hi Hpi. unfold calc_crowding_distance. change (length (hd [] F)) with (@length eq (hd [] F)). change (T (base E)) with eq. rewrite Hhd.
    set (cols := map (fun j0 => cd_col (X := E) (col (X := E) F j0)) (seq 0 m)).
    set (g := fun r : list eq => div (base E) (sum_lr (X := E) r) (of_nat (base E) m)).
    rewrite (nth_indep _ ENaN (g (map (fun c => nth i c ENaN) cols))) by (rewrite map_length; unfold rows_of; rewrite map_length, seq_length; exact Hi).
    rewrite (map_nth g). unfold rows_of.
    rewrite (nth_indep _ _ ((fun i0 => map (fun c => nth i0 c (qnan E)) cols) 0%nat)) by (rewrite map_length, seq_length; exact Hi).
    rewrite (map_nth (fun i0 => map (fun c => nth i0 c (qnan E)) cols)). rewrite seq_nth by exact Hi. cbn [Nat.add].
    subst g. cbn beta.
    assert (Hrow : Forall good (map (fun c => nth i c (qnan E)) cols)).
    { apply Forall_forall. intros z Hz. apply in_map_iff in Hz as (c & <- & Hc). subst cols.
      apply in_map_iff in Hc as (j0 & <- & Hj0). apply in_seq in Hj0.
      destruct (col_fin F m j0 HF ltac:(lia)) as [Hcf0 Hcl0]. pose proof (cd_col_good _ Hcf0) as Hg. rewrite Forall_forall in Hg.
      apply Hg. apply nth_In. rewrite cd_col_length. change (T (base E)) with eq in *. rewrite Hcl0. exact Hi. }
    assert (Hin : In PInf (map (fun c => nth i c (qnan E)) cols)).
    { apply in_map_iff. exists (cd_col (X := E) (col (X := E) F j)). split; [exact Hpi|].
      subst cols. apply in_map_iff. exists j. split; [reflexivity|apply in_seq; lia]. }
    rewrite (sum_lr_pinf _ Hrow Hin). cbn. unfold Qlt. rewrite qsign_pos; [reflexivity|]. unfold Qlt. cbn. lia. }
  split; apply G; assumption.
Qed.
