(* C15, boundary clause for the crowding entropy, end to end: the value of calc_crowding_entropy is finite outside the first and the
   last row of each objective's stable sorted order (at most 2 x n_obj rows), so for EVERY tie-break of the descending sort keeping at
   least 2 x n_obj members keeps a holder of the minimum and of the maximum of every non-constant objective.  As in CeP.v, log2 is an
   oracle table of which only the sign behaviour is assumed. *)
From Coq Require Import List Bool Arith ZArith Lia QArith Lqa Permutation Sorted.
From PV Require Import Base.Num Base.NumEQ Base.Res Base.ListX Model.Crowding Model.Fallback Model.Dominance Model.RankCrowd
  Proofs.CrowdingP Proofs.CdP Proofs.FallbackP Proofs.RankCrowdP Proofs.BoundaryP Proofs.CdBoundaryP Proofs.CeP.
Import ListNotations.
Local Open Scope nat_scope.
Local Arguments qsign : simpl never.

Lemma pstep_fin qa qb : (qb <= qa)%Q -> finnn (nan0e (esub (Fin qa) (Fin qb))).
Proof. intro Hle. unfold nan0e, nan0. cbn. exists (qa + - qb)%Q. split; [reflexivity|lra]. Qed.

Lemma plower_all_fin : forall s p, Forall isfin s -> StronglySorted fle s -> isfin p -> Forall (fle p) s ->
  Forall finnn (map2 (fun a b => nan0e (esub a b)) s (p :: s)).
Proof.
  induction s as [|a s IH]; intros p Hf Hs Hp Hpl; cbn [map2]; [constructor|].
  pose proof (Forall_inv Hf) as Ha. pose proof (Forall_inv_tail Hf) as Hf'. cbn beta in Ha.
  inversion Hs as [|? ? Hs' Hall]; subst. constructor.
  - destruct (fle_fin p a Hp Ha (Forall_inv Hpl)) as (qp & qa & -> & -> & Hle). now apply pstep_fin.
  - apply IH; assumption.
Qed.

Lemma pupper_all_fin : forall s, Forall isfin s -> StronglySorted fle s ->
  Forall finnn (map2 (fun a b => nan0e (esub b a)) (removelast s) (tl s)).
Proof.
  induction s as [|a s IH]; intros Hf Hs; [constructor|].
  destruct s as [|b s']; [constructor|].
  pose proof (Forall_inv Hf) as Ha. pose proof (Forall_inv_tail Hf) as Hf'. cbn beta in Ha.
  inversion Hs as [|? ? Hs' Hall]; subst.
  change (removelast (a :: b :: s')) with (a :: removelast (b :: s')). cbn [tl map2]. constructor.
  - destruct (fle_fin a b Ha (Forall_inv Hf') (Forall_inv Hall)) as (qa & qb & -> & -> & Hle). now apply pstep_fin.
  - exact (IH Hf' Hs').
Qed.

Lemma contrib_fin c en nm : finnn c -> nanor (fun x => (0 <= x)%Q) en -> norm_ok nm -> finnn (nan0e (ediv (emul c en) nm)).
Proof.
  intros (x & -> & Hx) [->|(y & -> & Hy)] Hn; unfold nan0e, nan0.
  - cbn. destruct nm; cbn; exists 0%Q; split; try reflexivity; lra.
  - destruct Hn as [->|(d & -> & Hd)]; cbn.
    + exists 0%Q. split; [reflexivity|lra].
    + rewrite (qsign_pos d Hd). cbn. exists (x * y / d)%Q. split; [reflexivity|]. apply Qle_shift_div_l; [assumption|]. nra.
Qed.

Section CeB.
Variable feq : eq -> eq -> bool.
Variable lg : list (eq * eq).
Hypothesis logok : forall arg y, lookup_log (X := E) feq lg arg = Some y ->
  (forall q, arg = Fin q -> (0 < q)%Q -> (q <= 1)%Q -> exists l, y = Fin l /\ (l <= 0)%Q) /\
  (forall q, arg = Fin q -> (q == 0)%Q -> y = NInf).

Lemma ent_term_inside n k a b en : good a -> good b -> k <> 0 -> k <> n - 1 ->
  ent_term feq lg n k (a, b) (eadd a b) = Some en -> nanor (fun x => (0 <= x)%Q) en.
Proof.
  intros Ha Hb Hk0 Hk1. unfold ent_term.
  assert (Ek : (k =? 0) || (k =? n - 1) = false) by (apply orb_false_iff; split; apply Nat.eqb_neq; assumption). rewrite Ek. cbn [fst snd].
  destruct (lookup_log (X := E) feq lg (ediv a (eadd a b))) as [ll|] eqn:E1; [|discriminate].
  destruct (lookup_log (X := E) feq lg (ediv b (eadd a b))) as [l2|] eqn:E2; [|discriminate].
  intro H. inversion H; subst. clear H.
  pose proof (plogp feq lg logok _ _ (share_cases a b Ha Hb) E1) as H1.
  pose proof (plogp feq lg logok _ _ (share_cases_r a b Ha Hb) E2) as H2.
  destruct (nanor_add _ _ H1 H2) as [->|(z & -> & Hz)]; [now left|]. right. exists (- z)%Q. split; [reflexivity|lra].
Qed.

(* one objective: finite away from the two ends of the sorted order *)
Lemma ce_core n (idx : list nat) (s : list eq) nm e i k :
  NoDup idx -> length idx = n -> length s = n -> nth_error idx k = Some i -> i < n -> k <> 0 -> k <> n - 1 ->
  Forall isfin s -> StronglySorted fle s -> norm_ok nm ->
  let dl := map2 (fun a b => nan0e (esub a b)) s (NInf :: s) in
  let du := map2 (fun a b => nan0e (esub b a)) s (tl s ++ [PInf]) in
  all_some (map3 (ent_term feq lg n) (seq 0 n) (combine dl du) (map2 eadd dl du)) = Some e ->
  finnn (nth i (scatter (X := E) n idx (map2 (fun c en => nan0e (ediv (emul c en) nm)) (map2 eadd dl du) e)) ENaN).
Proof.
  intros Hnd Hl Hls Hk Hi Hk0 Hk1 Hf Hs Hn dl du Hall.
  assert (Hkl : k < n) by (rewrite <- Hl; apply nth_error_Some; congruence).
  destruct s as [|a0 s']; [cbn in Hls; lia|].
  set (fl := fun a b : eq => nan0e (esub a b)) in *. set (fu := fun a b : eq => nan0e (esub b a)) in *.
  assert (Hdl : dl = fl a0 NInf :: map2 fl s' (a0 :: s')) by reflexivity.
  assert (Hdu : du = map2 fu (removelast (a0 :: s')) (tl (a0 :: s')) ++ [fu (last (a0 :: s') ENaN) PInf])
    by (apply map2_upper_split; discriminate).
  inversion Hs as [|? ? Hs' Hall']; subst.
  assert (HL : Forall finnn (map2 fl s' (a0 :: s'))).
  { apply (plower_all_fin s' a0); [exact (Forall_inv_tail Hf)|assumption|exact (Forall_inv Hf)|assumption]. }
  assert (HU : Forall finnn (map2 fu (removelast (a0 :: s')) (tl (a0 :: s')))) by (apply (pupper_all_fin (a0 :: s') Hf Hs)).
  assert (Hxl : exists x, nth_error dl k = Some x /\ finnn x).
  { rewrite Hdl. destruct k as [|k']; [congruence|]. cbn [nth_error].
    destruct (nth_error (map2 fl s' (a0 :: s')) k') as [x|] eqn:Ex.
    - exists x. split; [reflexivity|]. rewrite Forall_forall in HL. apply HL. eapply nth_error_In; eassumption.
    - apply nth_error_None in Ex. rewrite map2_length in Ex. cbn [length] in *. lia. }
  assert (Hxu : exists y, nth_error du k = Some y /\ finnn y).
  { rewrite Hdu. assert (Hlu : length (map2 fu (removelast (a0 :: s')) (tl (a0 :: s'))) = length (a0 :: s') - 1).
    { rewrite map2_length. cbn [tl]. rewrite removelast_len. cbn [length] in *. lia. }
    rewrite nth_error_app1 by lia.
    destruct (nth_error (map2 fu (removelast (a0 :: s')) (tl (a0 :: s'))) k) as [y|] eqn:Ey.
    - exists y. split; [reflexivity|]. rewrite Forall_forall in HU. apply HU. eapply nth_error_In; eassumption.
    - apply nth_error_None in Ey. lia. }
  destruct Hxl as (x & Hx & Hxf). destruct Hxu as (y & Hy & Hyf).
  assert (Hc : nth_error (map2 eadd dl du) k = Some (eadd x y)) by (now apply nth_error_map2_gen).
  assert (Hsk : nth_error (seq 0 (length idx)) k = Some k) by (rewrite nth_error_nth' with (d := 0) by (rewrite seq_length; exact Hkl); now rewrite seq_nth).
  pose proof (nth_error_map3 (ent_term feq lg (length idx)) _ _ _ k k (x, y) (eadd x y) Hsk (nth_error_combine dl du k x y Hx Hy) Hc) as Hent.
  destruct (ent_term feq lg (length idx) k (x, y) (eadd x y)) as [en|] eqn:Een.
  2:{ exfalso. clear - Hall Hent. revert Hall Hent. generalize (map3 (ent_term feq lg (length idx)) (seq 0 (length idx)) (combine dl du) (map2 eadd dl du)).
      intros l. revert e k. induction l as [|o l IH]; intros e k Hall Hent; [destruct k; discriminate|].
      destruct k; cbn in Hent; [inversion Hent; subst; cbn in Hall; discriminate|].
      cbn in Hall. destruct o; [|discriminate]. destruct (all_some l) eqn:El; [|discriminate]. eapply IH; [reflexivity|eassumption]. }
  pose proof (all_some_nth _ e k en Hall Hent) as He.
  pose proof (ent_term_inside _ k x y en (finnn_good _ Hxf) (finnn_good _ Hyf) Hk0 Hk1 Een) as Hen.
  assert (Hval : nth_error (map2 (fun c en0 => nan0e (ediv (emul c en0) nm)) (map2 eadd dl du) e) k = Some (nan0e (ediv (emul (eadd x y) en) nm)))
    by (exact (nth_error_map2_gen (fun c en0 => nan0e (ediv (emul c en0) nm)) (map2 eadd dl du) e k (eadd x y) en Hc He)).
  assert (Hldl : length dl = length idx) by (unfold dl; rewrite map2_length; cbn [length] in *; lia).
  assert (Hldu : length du = length idx) by (unfold du; rewrite map2_length, app_length; cbn [length tl] in *; lia).
  assert (Hle : length e = length idx).
  { rewrite (all_some_length _ e Hall). rewrite map3_length, seq_length, combine_length, map2_length, Hldl, Hldu. lia. }
  assert (Hlv : length idx = length (map2 (fun c en => nan0e (ediv (emul c en) nm)) (map2 eadd dl du) e)).
  { rewrite map2_length, Hle, map2_length, Hldl, Hldu. lia. }
  rewrite (scatter_nth (length idx) idx _ k i _ ENaN Hnd Hlv Hk Hval Hi).
  apply contrib_fin; [now apply finnn_add|assumption|assumption].
Qed.

Lemma ce_col_inside v d i : Forall isfin v -> ce_col (X := E) feq lg v = Some d -> i < length v ->
  i <> nth 0 (argsort (X := E) v) 0 -> i <> last (argsort (X := E) v) 0 -> finnn (nth i d ENaN).
Proof.
  intros Hv Hce Hi Hn0 Hn1.
  pose proof (sorted_map_key v _ (argsort_sorted v Hv)) as Hs. pose proof (keys_fin v _ Hv (argsort_range v)) as Hf.
  pose proof (cd_col_norm_ok v Hv) as Hn. cbv zeta in Hn.
  pose proof (argsort_perm v) as HP. pose proof (argsort_length v) as Hl. pose proof (argsort_nodup v) as Hnd.
  assert (Hin : In i (argsort (X := E) v)) by (apply (Permutation_in _ (Permutation_sym HP)); apply in_seq; lia).
  destruct (In_nth_error _ _ Hin) as [k Hk].
  assert (Hkl : k < length (argsort (X := E) v)) by (apply nth_error_Some; congruence).
  assert (Hk0 : k <> 0). { intro Hx. subst k. apply Hn0. destruct (argsort (X := E) v); cbn in *; [discriminate|now inversion Hk]. }
  assert (Hk1 : k <> length v - 1).
  { intro Hx. apply Hn1. assert (Hne : argsort (X := E) v <> []) by (intro Hy; rewrite Hy in Hkl; cbn in Hkl; lia).
    rewrite Hx, <- Hl in Hk. rewrite (nth_error_last _ 0 Hne) in Hk. now inversion Hk. }
  unfold ce_col in Hce.
  set (s := map (fun i => nth i v (qnan E)) (argsort (X := E) v)) in *.
  set (nm := if eqb (base E) (sub (base E) (nth (length v - 1) s (qnan E)) (nth 0 s (qnan E))) (zero (base E)) then qnan E
             else sub (base E) (nth (length v - 1) s (qnan E)) (nth 0 s (qnan E))) in *.
  destruct (all_some _) as [e|] eqn:Eall; [|discriminate]. injection Hce as <-.
  apply (ce_core (length v) (argsort (X := E) v) s nm e i k); try assumption.
  unfold s. now rewrite map_length.
Qed.

(* the whole metric *)
Theorem ce_finite_inside F m d i : fin_matrix F m -> 0 < m -> length (hd [] F) = m -> i < length F ->
  calc_crowding_entropy (X := E) feq lg F = Some d -> ~ In i (cd_ext F) -> finnn (nth i d ENaN).
Proof.
  intros HF Hm Hhd Hi Hce Hnin. unfold calc_crowding_entropy in Hce. change (T (base E)) with eq in *. rewrite Hhd in Hce.
  destruct (all_some _) as [cols|] eqn:Eall; [|discriminate]. injection Hce as <-.
  assert (Hlc : length cols = m) by (rewrite (all_some_length _ cols Eall); now rewrite map_length, seq_length).
  rewrite (nth_indep _ ENaN (sum_lr (X := E) (map (fun c => nth i c ENaN) cols))) by (rewrite map_length; unfold rows_of; rewrite map_length, seq_length; exact Hi).
  rewrite (map_nth (sum_lr (X := E))). unfold rows_of.
  rewrite (nth_indep _ _ ((fun i0 => map (fun c => nth i0 c (qnan E)) cols) 0)) by (rewrite map_length, seq_length; exact Hi).
  rewrite (map_nth (fun i0 => map (fun c => nth i0 c (qnan E)) cols)). rewrite seq_nth by exact Hi. cbn [Nat.add].
  apply sum_lr_finnn. apply Forall_forall. intros z Hz. apply in_map_iff in Hz as (c & <- & Hc).
  destruct (In_nth_error _ _ Hc) as [j Hj].
  destruct (all_some_map_nth (fun j0 => ce_col (X := E) feq lg (col (X := E) F j0)) (seq 0 m) cols j c Eall Hj) as (x & Hx & Hfx).
  assert (Hjm : j < m). { rewrite <- Hlc. apply nth_error_Some. intro Hx0. pose proof (eq_trans (eq_sym Hj) Hx0) as Hy. discriminate Hy. }
  assert (Hxj : x = j). { pose proof (nth_error_nth _ _ 0 Hx) as Hn. rewrite seq_nth in Hn by assumption. now rewrite <- Hn. }
  subst x.
  destruct (col_fin F m j HF Hjm) as [Hcf Hcl]. change (T (base E)) with eq in *.
  apply (ce_col_inside (col (X := E) F j) c i Hcf Hfx); [now rewrite Hcl| |].
  - intro Hx0. apply Hnin. unfold cd_ext. rewrite Hhd. apply in_or_app. left. rewrite Hx0.
    apply (in_map (fun c => nth 0 (argsort (X := E) c) 0)). apply in_map. apply in_seq. lia.
  - intro Hx0. apply Hnin. unfold cd_ext. rewrite Hhd. apply in_or_app. right. rewrite Hx0.
    apply (in_map (fun c => last (argsort (X := E) c) 0)). apply in_map. apply in_seq. lia.
Qed.

(* the boundary clause for the crowding entropy *)
Theorem ce_boundary_kept F m crowd (front : list nat) quota sel perm sv :
  fin_matrix F m -> 0 < m -> length (hd [] F) = m ->
  calc_crowding_entropy (X := E) feq lg F = Some crowd ->
  length front = length F -> length perm = length crowd -> NoDup perm -> Forall (fun i => i < length crowd) perm ->
  pick crowd perm = Some sv -> sorted_by (N := EQn) true sv = true -> pick front (firstn quota perm) = Some sel ->
  2 * m <= quota ->
  forall j, j < m -> (exists a b, In a (col (X := E) F j) /\ In b (col (X := E) F j) /\ eltb a b = true) ->
  exists i0 i1, i0 < length F /\ i1 < length F /\
    (forall i, i < length F -> fle (nth i0 (col (X := E) F j) ENaN) (nth i (col (X := E) F j) ENaN) /\
                               fle (nth i (col (X := E) F j) ENaN) (nth i1 (col (X := E) F j) ENaN)) /\
    (forall x, nth_error front i0 = Some x -> In x sel) /\ (forall x, nth_error front i1 = Some x -> In x sel).
Proof.
  intros HF Hm Hhd Hce Hfl Hpl Hnd Hr Hsv Hs Hsel Hq j Hj Hnc.
  destruct (ce_wellformed feq lg logok F m crowd HF Hm Hhd Hce) as [Hcl Hcg].
  destruct (ce_extremes_infinite feq lg logok F m j crowd HF Hm Hhd Hj Hnc Hce) as (i0 & i1 & H0 & H1 & Hext & Hp0 & Hp1).
  exists i0, i1. split; [assumption|]. split; [assumption|]. split; [assumption|].
  assert (Hcnt : length (filter (fun i => negb (ltb EQn (nth i crowd PInf) PInf)) (seq 0 (length crowd))) <= quota).
  { apply Nat.le_trans with (2 * m); [|assumption]. rewrite <- (cd_ext_length F m Hhd).
    apply NoDup_incl_le; [apply NoDup_filter, seq_NoDup|]. intros i Hi. apply filter_In in Hi as [Hi Hv]. apply in_seq in Hi.
    destruct (in_dec Nat.eq_dec i (cd_ext F)) as [Hin|Hnin]; [assumption|exfalso].
    assert (Hic : i < length crowd) by lia. assert (HiF : i < length F) by (rewrite <- Hcl; exact Hic).
    destruct (ce_finite_inside F m crowd i HF Hm Hhd HiF Hce Hnin) as (q & Hq' & _).
    assert (Hn : nth i crowd PInf = Fin q) by (exact (eq_trans (nth_indep crowd PInf ENaN Hic) Hq')).
    assert (Hx : negb (eltb (nth i crowd PInf) PInf) = true) by exact Hv. rewrite Hn in Hx. cbn in Hx. discriminate. }
  assert (Hok : Forall nonnan crowd) by (apply Forall_forall; intros x Hx; apply good_nonnan; rewrite Forall_forall in Hcg; auto).
  assert (Htop : nonnan PInf) by discriminate.
  assert (Hlc : length crowd = length front) by congruence.
  split; intros x Hx.
  - apply (cut_keeps_top EQn_ord_nn front quota sel crowd perm sv PInf Hlc Hpl Hnd Hr Hsv Hs Hsel Hok Htop Hcnt i0 x Hx).
    assert (Hac : i0 < length crowd) by (rewrite Hcl; exact H0).
    assert (Hn : nth i0 crowd PInf = PInf) by (exact (eq_trans (nth_indep crowd PInf ENaN Hac) Hp0)).
    assert (Hy : eltb (nth i0 crowd PInf) PInf = false) by (rewrite Hn; reflexivity). exact Hy.
  - apply (cut_keeps_top EQn_ord_nn front quota sel crowd perm sv PInf Hlc Hpl Hnd Hr Hsv Hs Hsel Hok Htop Hcnt i1 x Hx).
    assert (Hbc : i1 < length crowd) by (rewrite Hcl; exact H1).
    assert (Hn : nth i1 crowd PInf = PInf) by (exact (eq_trans (nth_indep crowd PInf ENaN Hbc) Hp1)).
    assert (Hy : eltb (nth i1 crowd PInf) PInf = false) by (rewrite Hn; reflexivity). exact Hy.
Qed.
End CeB.
