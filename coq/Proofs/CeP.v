(* C13 for the crowding entropy (calc_crowding_entropy) in exact arithmetic with IEEE special values.
   log2 is an oracle table in the model (np.log2 is libm); the theorem assumes of the table only what log2 satisfies on
   the arguments that occur: a non-positive finite value on (0, 1] and -inf at 0.  Then every value is a non-negative
   rational or +inf - never NaN (the 0 * -inf of a point that coincides with a neighbour, the 0/0 of duplicates and the
   0/0 of a constant objective are all turned into 0 by the final NaN fix-up), never negative. *)
From Coq Require Import List Bool Arith Lia QArith Lqa Permutation Sorted.
From PV Require Import Base.Num Base.NumEQ Base.Res Base.ListX Model.Crowding Proofs.CrowdingP Proofs.CdP Proofs.FallbackP.
Import ListNotations.
Local Open Scope nat_scope.
Local Arguments qsign : simpl never.

Definition nanor (P : Q -> Prop) (e : eq) : Prop := e = ENaN \/ exists q, e = Fin q /\ P q.

Lemma qsign_eq x : qsign x = Eq -> (x == 0)%Q.
Proof. unfold qsign. intro H. apply Qeq_alt in H. now symmetry. Qed.
Lemma qsign_lt x : qsign x = Lt -> (0 < x)%Q.
Proof. unfold qsign. intro H. now apply Qlt_alt in H. Qed.
Lemma qsign_gt x : qsign x = Gt -> (x < 0)%Q.
Proof. unfold qsign. intro H. now apply Qgt_alt in H. Qed.
Lemma qsign_zero x : (x == 0)%Q -> qsign x = Eq.
Proof. intro H. unfold qsign. apply Qeq_alt. now symmetry. Qed.

Section Ce.
Variable feq : eq -> eq -> bool.
Variable lg : list (eq * eq).
Hypothesis logok : forall arg y, lookup_log (X := E) feq lg arg = Some y ->
  (forall q, arg = Fin q -> (0 < q)%Q -> (q <= 1)%Q -> exists l, y = Fin l /\ (l <= 0)%Q) /\
  (forall q, arg = Fin q -> (q == 0)%Q -> y = NInf).

Local Open Scope Q_scope.

(* p = a / (a + b) for good a, b: NaN or a rational in [0, 1] *)
Lemma share_cases a b : good a -> good b -> nanor (fun q => 0 <= q /\ q <= 1) (ediv a (eadd a b)).
Proof.
  intros Ha Hb. destruct (good_inv _ Ha) as [->|(x & -> & Hx)]; destruct (good_inv _ Hb) as [->|(y & -> & Hy)]; cbn; try (now left).
  - right. exists 0. repeat split; lra.
  - destruct (qsign (x + y)) eqn:Es.
    + apply qsign_eq in Es. assert (Ex : qsign x = Eq) by (apply qsign_zero; lra). rewrite Ex. now left.
    + apply qsign_lt in Es. right. exists (x / (x + y)). split; [reflexivity|]. split; [apply Qle_shift_div_l; lra|apply Qle_shift_div_r; lra].
    + apply qsign_gt in Es. lra.
Qed.

Lemma share_cases_r a b : good a -> good b -> nanor (fun q => 0 <= q /\ q <= 1) (ediv b (eadd a b)).
Proof.
  intros Ha Hb. destruct (good_inv _ Ha) as [->|(x & -> & Hx)]; destruct (good_inv _ Hb) as [->|(y & -> & Hy)]; cbn; try (now left).
  - right. exists 0. repeat split; lra.
  - destruct (qsign (x + y)) eqn:Es.
    + apply qsign_eq in Es. assert (Ey : qsign y = Eq) by (apply qsign_zero; lra). rewrite Ey. now left.
    + apply qsign_lt in Es. right. exists (y / (x + y)). split; [reflexivity|]. split; [apply Qle_shift_div_l; lra|apply Qle_shift_div_r; lra].
    + apply qsign_gt in Es. lra.
Qed.

(* p * log2 p : NaN or a non-positive rational *)
Lemma plogp p y : nanor (fun q => 0 <= q /\ q <= 1) p -> lookup_log (X := E) feq lg p = Some y -> nanor (fun t => t <= 0) (emul p y).
Proof.
  intros [->|(q & -> & H0 & H1)] Hl; [now left|]. destruct (logok _ _ Hl) as [Hpos Hzero].
  destruct (Qlt_le_dec 0 q) as [Hq|Hq].
  - destruct (Hpos q eq_refl Hq H1) as (l & -> & Hl0). right. exists (q * l). split; [reflexivity|]. nra.
  - assert (Hz : q == 0) by lra. rewrite (Hzero q eq_refl Hz). cbn. rewrite (qsign_zero q Hz). now left.
Qed.

Lemma nanor_add s t : nanor (fun x => x <= 0) s -> nanor (fun x => x <= 0) t -> nanor (fun x => x <= 0) (eadd s t).
Proof.
  intros [->|(x & -> & Hx)] [->|(y & -> & Hy)]; try (now left). right. exists (x + y). split; [reflexivity|lra].
Qed.

(* the contribution of one point of one objective: c * entropy / norm with NaN -> 0 *)
Lemma contrib_good c en nm : good c -> (en = PInf \/ nanor (fun x => 0 <= x) en) -> norm_ok nm ->
  good (nan0e (ediv (emul c en) nm)).
Proof.
  intros Hc Hen Hn. unfold nan0e, nan0.
  assert (Hm : emul c en = PInf \/ nanor (fun x => 0 <= x) (emul c en)).
  { destruct (good_inv _ Hc) as [->|(x & -> & Hx)]; destruct Hen as [->|[->|(y & -> & Hy)]]; cbn.
    - now left.
    - right. now left.
    - destruct (qsign y) eqn:Es; [right; now left|now left|apply qsign_gt in Es; lra].
    - destruct (qsign x) eqn:Es; [right; now left|now left|apply qsign_gt in Es; lra].
    - right. now left.
    - right. right. exists (x * y). split; [reflexivity|nra]. }
  destruct Hn as [->|(d & -> & Hd)].
  - destruct Hm as [->|[->|(z & -> & Hz)]]; cbn; apply good_zero.
  - destruct Hm as [->|[->|(z & -> & Hz)]]; cbn.
    + rewrite (qsign_pos d Hd). now left.
    + apply good_zero.
    + rewrite (qsign_pos d Hd). cbn. right. exists (z / d). split; [reflexivity|]. apply Qle_shift_div_l; lra.
Qed.

Local Open Scope nat_scope.

(* the entropy term of one sorted position *)
Definition ent_term (n : nat) (k : nat) (lu : eq * eq) (c : eq) : option eq :=
  if (k =? 0) || (k =? n - 1) then Some PInf else
  let pl := ediv (fst lu) c in let pu := ediv (snd lu) c in
  match lookup_log (X := E) feq lg pl, lookup_log (X := E) feq lg pu with
  | Some ll, Some l2 => Some (eneg (eadd (emul pl ll) (emul pu l2)))
  | _, _ => None
  end.

Lemma ent_term_ok n k a b en : good a -> good b -> ent_term n k (a, b) (eadd a b) = Some en ->
  en = PInf \/ nanor (fun x => (0 <= x)%Q) en.
Proof.
  intros Ha Hb. unfold ent_term. destruct ((k =? 0) || (k =? n - 1)); [intro H; inversion H; now left|]. cbn [fst snd].
  destruct (lookup_log (X := E) feq lg (ediv a (eadd a b))) as [ll|] eqn:E1; [|discriminate].
  destruct (lookup_log (X := E) feq lg (ediv b (eadd a b))) as [l2|] eqn:E2; [|discriminate].
  intro H. inversion H; subst. clear H. right.
  pose proof (plogp _ _ (share_cases a b Ha Hb) E1) as H1.
  pose proof (plogp _ _ (share_cases_r a b Ha Hb) E2) as H2.
  destruct (nanor_add _ _ H1 H2) as [->|(z & -> & Hz)]; [now left|]. right. exists (- z)%Q. split; [reflexivity|lra].
Qed.

(* all sorted positions of one objective *)
Lemma ce_vals_good n nm : norm_ok nm -> forall dl du ks e, Forall good dl -> Forall good du ->
  all_some (map3 (ent_term n) ks (combine dl du) (map2 eadd dl du)) = Some e ->
  Forall good (map2 (fun c en => nan0e (ediv (emul c en) nm)) (map2 eadd dl du) e).
Proof.
  intros Hn. induction dl as [|a dl IH]; intros du ks e Hdl Hdu Hall; [constructor|].
  destruct du as [|b du]; [constructor|]. destruct ks as [|k ks]; [cbn in Hall; inversion Hall; constructor|].
  cbn [combine map2 map3 all_some] in Hall |- *.
  destruct (ent_term n k (a, b) (eadd a b)) as [en|] eqn:Een; [|discriminate].
  destruct (all_some (map3 (ent_term n) ks (combine dl du) (map2 eadd dl du))) as [e'|] eqn:Erest; [|discriminate].
  cbn in Hall. inversion Hall; subst. cbn [map2]. constructor.
  - apply contrib_good; [apply good_add; [exact (Forall_inv Hdl)|exact (Forall_inv Hdu)]| |assumption].
    exact (ent_term_ok n k a b en (Forall_inv Hdl) (Forall_inv Hdu) Een).
  - exact (IH du ks e' (Forall_inv_tail Hdl) (Forall_inv_tail Hdu) Erest).
Qed.

Lemma ce_col_good v d : Forall isfin v -> ce_col (X := E) feq lg v = Some d -> Forall good d /\ length d = length v.
Proof.
  intros Hv. unfold ce_col.
  pose proof (sorted_map_key v _ (argsort_sorted v Hv)) as Hs.
  pose proof (keys_fin v _ Hv (argsort_range v)) as Hf.
  pose proof (cd_col_norm_ok v Hv) as Hn. cbv zeta in Hn.
  set (s := map (fun i => nth i v (qnan E)) (argsort (X := E) v)) in *.
  set (nm := if eqb (base E) (sub (base E) (nth (length v - 1) s (qnan E)) (nth 0 s (qnan E))) (zero (base E)) then qnan E
             else sub (base E) (nth (length v - 1) s (qnan E)) (nth 0 s (qnan E))) in *.
  set (dl := map2 (fun a b => nan0 (X := E) (sub (base E) a b)) s (ninf E :: s)).
  set (du := map2 (fun a b => nan0 (X := E) (sub (base E) b a)) s (tl s ++ [pinf E])).
  assert (Hdl : Forall good dl) by (exact (plower_good s NInf Hf Hs (or_introl eq_refl))).
  assert (Hdu : Forall good du) by (exact (pupper_good s Hf Hs)).
  destruct (all_some _) as [e|] eqn:Eall; [|discriminate]. intro H. inversion H; subst. clear H. split; [|apply scatter_length].
  apply scatter_good. exact (ce_vals_good (length v) nm Hn dl du (seq 0 (length v)) e Hdl Hdu Eall).
Qed.

Lemma all_some_map_Forall {A B} (f : A -> option B) (P : A -> Prop) (R : B -> Prop) l :
  (forall x y, P x -> f x = Some y -> R y) -> forall r, Forall P l -> all_some (map f l) = Some r -> Forall R r /\ length r = length l.
Proof.
  intros H. induction l as [|x l IH]; intros r Hl Hall; cbn in Hall.
  - inversion Hall. split; [constructor|reflexivity].
  - destruct (f x) as [y|] eqn:Ey; [|discriminate]. destruct (all_some (map f l)) as [r'|] eqn:Er; [|discriminate].
    cbn in Hall. inversion Hall; subst. destruct (IH r' (Forall_inv_tail Hl) eq_refl) as [H1 H2].
    split; [constructor; [exact (H x y (Forall_inv Hl) Ey)|assumption]|cbn; now rewrite H2].
Qed.

Theorem ce_wellformed F m d : fin_matrix F m -> 0 < m -> length (hd [] F) = m ->
  calc_crowding_entropy (X := E) feq lg F = Some d -> length d = length F /\ Forall good d.
Proof.
  intros HF Hm Hhd. unfold calc_crowding_entropy. change (T (base E)) with eq in *. rewrite Hhd.
  destruct (all_some _) as [cols|] eqn:Eall; [|discriminate].
  intro H. injection H as <-. split; [rewrite map_length; unfold rows_of; now rewrite map_length, seq_length|].
  destruct (all_some_map_Forall (fun j => ce_col (X := E) feq lg (col (X := E) F j)) (fun j => j < m)
              (fun c => Forall good c /\ length c = length F) (seq 0 m)) with (r := cols) as [Hcols _].
  - intros j c Hj Hc. destruct (col_fin F m j HF Hj) as [Hcf Hcl]. destruct (ce_col_good _ _ Hcf Hc) as [Hg Hl].
    split; [assumption|]. change (T (base E)) with eq in *. now rewrite Hl.
  - apply Forall_forall. intros j Hj. apply in_seq in Hj. lia.
  - exact Eall.
  - apply Forall_forall. intros y Hy. apply in_map_iff in Hy as (row & <- & Hrow).
    unfold rows_of in Hrow. apply in_map_iff in Hrow as (i & <- & Hi). apply in_seq in Hi.
    apply sum_lr_good. apply Forall_forall. intros z Hz. apply in_map_iff in Hz as (c & <- & Hc).
    rewrite Forall_forall in Hcols. destruct (Hcols c Hc) as [Hg Hl]. rewrite Forall_forall in Hg. apply Hg. apply nth_In. lia.
Qed.
(* ---------- +inf at the two ends of the sorted order of every non-constant objective ---------- *)
Lemma all_some_nth {A} (l : list (option A)) : forall e k x, all_some l = Some e -> nth_error l k = Some (Some x) -> nth_error e k = Some x.
Proof.
  induction l as [|o l IH]; intros e k x Hall Hk; [destruct k; discriminate|].
  destruct o as [a|]; [|discriminate]. cbn in Hall. destruct (all_some l) as [e'|] eqn:E; [|discriminate]. inversion Hall; subst.
  destruct k; cbn in *; [now inversion Hk|]. now apply (IH e' k x).
Qed.

Lemma all_some_length {A} (l : list (option A)) : forall e, all_some l = Some e -> length e = length l.
Proof.
  induction l as [|o l IH]; intros e Hall; cbn in Hall; [inversion Hall; reflexivity|].
  destruct o as [a|]; [|discriminate]. destruct (all_some l) as [e'|] eqn:E; [|discriminate]. inversion Hall; subst. cbn. now rewrite (IH e').
Qed.

Lemma all_some_map_nth {A B} (f : A -> option B) l : forall r k y, all_some (map f l) = Some r -> nth_error r k = Some y ->
  exists x, nth_error l k = Some x /\ f x = Some y.
Proof.
  induction l as [|x0 l IH]; intros r k y Hall Hk; cbn in Hall.
  - inversion Hall; subst. destruct k; discriminate.
  - destruct (f x0) as [y0|] eqn:E0; [|discriminate]. destruct (all_some (map f l)) as [r'|] eqn:Er; [|discriminate].
    cbn in Hall. inversion Hall; subst. destruct k as [|k']; cbn in Hk.
    + inversion Hk; subst. exists x0. split; [reflexivity|assumption].
    + destruct (IH r' k' y eq_refl Hk) as (x & Hx & Hfx). exists x. split; assumption.
Qed.

Lemma nth_error_map3 {A B C D} (f : A -> B -> C -> D) a : forall b c k x y z,
  nth_error a k = Some x -> nth_error b k = Some y -> nth_error c k = Some z -> nth_error (map3 f a b c) k = Some (f x y z).
Proof.
  induction a as [|x0 a IH]; intros [|y0 b] [|z0 c] [|k] x y z Ha Hb Hc; cbn in *; try discriminate.
  - inversion Ha; inversion Hb; inversion Hc; subst; reflexivity.
  - eauto.
Qed.

Lemma nth_error_combine {A B} (a : list A) : forall (b : list B) k x y,
  nth_error a k = Some x -> nth_error b k = Some y -> nth_error (combine a b) k = Some (x, y).
Proof.
  induction a as [|x0 a IH]; intros [|y0 b] [|k] x y Ha Hb; cbn in *; try discriminate.
  - inversion Ha; inversion Hb; subst; reflexivity.
  - eauto.
Qed.

Lemma ce_col_extremes v d : Forall isfin v -> (exists a b, In a v /\ In b v /\ eltb a b = true) ->
  ce_col (X := E) feq lg v = Some d ->
  exists i0 i1, i0 < length v /\ i1 < length v /\
    (forall i, i < length v -> fle (key v i0) (key v i) /\ fle (key v i) (key v i1)) /\
    nth i0 d ENaN = PInf /\ nth i1 d ENaN = PInf.
Proof.
  intros Hv (a & b & Ha & Hb & Hab) Hce.
  assert (Hne : v <> []) by (intro Hc; subst; destruct Ha).
  destruct (argsort_extremes v Hv Hne) as (i0 & i1 & Hi0 & Hi1 & Hr0 & Hr1 & Hext).
  exists i0, i1. split; [assumption|]. split; [assumption|]. split; [assumption|].
  unfold ce_col in Hce.
  set (idx := argsort (X := E) v) in *. set (s := map (fun i => nth i v (qnan E)) idx) in *.
  pose proof (sorted_map_key v _ (argsort_sorted v Hv)) as Hs. pose proof (keys_fin v _ Hv (argsort_range v)) as Hf.
  fold idx in Hs, Hf. change (map (key v) idx) with s in Hs, Hf.
  assert (Hlidx : length idx = length v) by apply argsort_length.
  assert (Hls : length s = length v) by (subst s; rewrite map_length; exact Hlidx).
  assert (Hs0 : nth_error s 0 = Some (key v i0)) by (subst s; now apply map_nth_error).
  assert (Hs1 : nth_error s (length v - 1) = Some (key v i1)) by (subst s; now apply map_nth_error).
  destruct (key_fin v Hv i0 Hr0) as [f Ef]. destruct (key_fin v Hv i1 Hr1) as [l El].
  assert (Hd : (0 < l + - f)%Q).
  { destruct (In_nth v a ENaN Ha) as (ia & Hia & Eia). destruct (In_nth v b ENaN Hb) as (ib & Hib & Eib).
    destruct (Hext ia Hia) as [H1 _]. destruct (Hext ib Hib) as [_ H2].
    unfold key in *. rewrite Eia in H1. rewrite Eib in H2. rewrite Ef in H1. rewrite El in H2.
    rewrite Forall_forall in Hv. destruct (Hv a Ha) as [qa ->]. destruct (Hv b Hb) as [qb ->].
    unfold fle in H1, H2. cbn in H1, H2, Hab. apply negb_false_iff in H1, H2. apply Qle_bool_iff in H1, H2.
    apply negb_true_iff in Hab. assert (~ (qb <= qa)%Q) by (intro Hc; apply Qle_bool_iff in Hc; congruence). lra. }
  set (nm := if eqb (base E) (sub (base E) (nth (length v - 1) s (qnan E)) (nth 0 s (qnan E))) (zero (base E)) then qnan E
             else sub (base E) (nth (length v - 1) s (qnan E)) (nth 0 s (qnan E))) in *.
  assert (Hnorm : nm = Fin (l + - f)).
  { unfold nm. change (qnan E) with ENaN. rewrite (nth_error_nth _ _ _ Hs0), (nth_error_nth _ _ _ Hs1), Ef, El. cbn.
    destruct (Qeq_bool (l + - f) 0) eqn:Eq; [|reflexivity]. apply Qeq_bool_iff in Eq. lra. }
  set (dl := map2 (fun a b => nan0 (X := E) (sub (base E) a b)) s (ninf E :: s)) in *.
  set (du := map2 (fun a b => nan0 (X := E) (sub (base E) b a)) s (tl s ++ [pinf E])) in *.
  assert (Hgl : Forall good dl) by (exact (plower_good s NInf Hf Hs (or_introl eq_refl))).
  assert (Hgu : Forall good du) by (exact (pupper_good s Hf Hs)).
  assert (Hn0 : 0 < length v) by (destruct v; [congruence|cbn; lia]).
  assert (Hldl : length dl = length v) by (unfold dl; rewrite map2_length; cbn [length]; change (T (base E)) with eq in *; lia).
  assert (Hldu : length du = length v).
  { unfold du; rewrite map2_length, app_length; cbn [length]. change (T (base E)) with eq in *. clear - Hls Hn0. destruct s; cbn [tl length] in *; lia. }
  assert (Hdl0 : nth_error dl 0 = Some PInf).
  { unfold dl. erewrite nth_error_map2_gen; [|exact Hs0|reflexivity]. rewrite Ef. reflexivity. }
  assert (Hdu1 : nth_error du (length v - 1) = Some PInf).
  { unfold du. erewrite nth_error_map2_gen; [|exact Hs1|].
    2:{ rewrite nth_error_app2; [|destruct s; cbn in *; lia].
        replace (length v - 1 - length (tl s)) with 0 by (destruct s; cbn in *; lia). reflexivity. }
    rewrite El. reflexivity. }
  assert (Hdu0 : exists g0, nth_error du 0 = Some g0 /\ good g0).
  { destruct (nth_error du 0) as [g0|] eqn:E0; [|apply nth_error_None in E0; lia]. exists g0. split; [reflexivity|]. exact (Forall_nth_error good du _ g0 Hgu E0). }
  assert (Hdl1 : exists g1, nth_error dl (length v - 1) = Some g1 /\ good g1).
  { destruct (nth_error dl (length v - 1)) as [g1|] eqn:E1; [|apply nth_error_None in E1; lia]. exists g1. split; [reflexivity|]. exact (Forall_nth_error good dl _ g1 Hgl E1). }
  destruct Hdu0 as (g0 & Hg0 & Hgood0). destruct Hdl1 as (g1 & Hg1 & Hgood1).
  set (cd := map2 (add (base E)) dl du) in *.
  assert (Hcd0 : nth_error cd 0 = Some PInf).
  { unfold cd. erewrite nth_error_map2_gen; [|exact Hdl0|exact Hg0]. f_equal. now apply add_pinf_l. }
  assert (Hcd1 : nth_error cd (length v - 1) = Some PInf).
  { unfold cd. erewrite nth_error_map2_gen; [|exact Hg1|exact Hdu1]. f_equal. now apply add_pinf_r. }
  destruct (all_some _) as [e|] eqn:Eall; [|discriminate]. injection Hce as <-.
  (* the entropy terms of the two ends are +inf *)
  assert (He0 : nth_error e 0 = Some PInf).
  { apply (all_some_nth _ e 0 PInf Eall).
    erewrite nth_error_map3; [| |apply nth_error_combine; [exact Hdl0|exact Hg0]|exact Hcd0].
    2:{ apply (nth_error_nth' (seq 0 (length v)) 0). now rewrite seq_length. }
    rewrite seq_nth by assumption. cbn [Nat.add Nat.eqb orb]. reflexivity. }
  assert (He1 : nth_error e (length v - 1) = Some PInf).
  { apply (all_some_nth _ e (length v - 1) PInf Eall).
    erewrite nth_error_map3; [| |apply nth_error_combine; [exact Hg1|exact Hdu1]|exact Hcd1].
    2:{ apply (nth_error_nth' (seq 0 (length v)) 0). rewrite seq_length. lia. }
    rewrite seq_nth by lia. cbn [Nat.add]. rewrite Nat.eqb_refl, orb_true_r. reflexivity. }
  assert (Hv0 : nth_error (map2 (fun c en => nan0 (X := E) (div (base E) (mul (base E) c en) nm)) cd e) 0 = Some PInf).
  { erewrite nth_error_map2_gen; [|exact Hcd0|exact He0]. rewrite Hnorm. unfold nan0. cbn. now rewrite (qsign_pos _ Hd). }
  assert (Hv1 : nth_error (map2 (fun c en => nan0 (X := E) (div (base E) (mul (base E) c en) nm)) cd e) (length v - 1) = Some PInf).
  { erewrite nth_error_map2_gen; [|exact Hcd1|exact He1]. rewrite Hnorm. unfold nan0. cbn. now rewrite (qsign_pos _ Hd). }
  assert (Hlcd : length cd = length v).
  { unfold cd. etransitivity; [apply map2_length|]. etransitivity; [|apply (Nat.min_id (length v))]. f_equal; assumption. }
  assert (Hlcb : length (combine dl du) = length v).
  { etransitivity; [apply combine_length|]. etransitivity; [|apply (Nat.min_id (length v))]. f_equal; assumption. }
  assert (Hle : length e = length v).
  { etransitivity; [exact (all_some_length _ e Eall)|]. etransitivity; [apply map3_length|]. rewrite seq_length.
    etransitivity; [|apply (Nat.min_id (length v))]. f_equal. etransitivity; [|apply (Nat.min_id (length v))]. f_equal; assumption. }
  assert (Hlv : length idx = length (map2 (fun c en => nan0 (X := E) (div (base E) (mul (base E) c en) nm)) cd e)).
  { symmetry. etransitivity; [apply map2_length|]. rewrite Hlidx. etransitivity; [|apply (Nat.min_id (length v))]. f_equal; assumption. }
  split.
  - exact (scatter_nth (length v) idx _ 0 i0 PInf ENaN (argsort_nodup v) Hlv Hi0 Hv0 Hr0).
  - exact (scatter_nth (length v) idx _ (length v - 1) i1 PInf ENaN (argsort_nodup v) Hlv Hi1 Hv1 Hr1).
Qed.

Theorem ce_extremes_infinite F m j d : fin_matrix F m -> 0 < m -> length (hd [] F) = m -> j < m ->
  (exists a b, In a (col (X := E) F j) /\ In b (col (X := E) F j) /\ eltb a b = true) ->
  calc_crowding_entropy (X := E) feq lg F = Some d ->
  exists i0 i1, i0 < length F /\ i1 < length F /\
    (forall i, i < length F -> fle (nth i0 (col (X := E) F j) ENaN) (nth i (col (X := E) F j) ENaN) /\
                               fle (nth i (col (X := E) F j) ENaN) (nth i1 (col (X := E) F j) ENaN)) /\
    nth i0 d ENaN = PInf /\ nth i1 d ENaN = PInf.
Proof.
  intros HF Hm Hhd Hj Hnc. unfold calc_crowding_entropy. change (T (base E)) with eq in *. rewrite Hhd.
  destruct (all_some _) as [cols|] eqn:Eall; [|discriminate]. intro H. injection H as <-.
  destruct (col_fin F m j HF Hj) as [Hcf Hcl].
  destruct (all_some_map_Forall (fun j0 => ce_col (X := E) feq lg (col (X := E) F j0)) (fun j0 => j0 < m)
              (fun c => Forall good c /\ length c = length F) (seq 0 m)) with (r := cols) as [Hcols Hlc].
  { intros j0 c Hj0 Hc. destruct (col_fin F m j0 HF Hj0) as [Hcf0 Hcl0]. destruct (ce_col_good _ _ Hcf0 Hc) as [Hg Hl].
    split; [assumption|]. change (T (base E)) with eq in *. now rewrite Hl. }
  { apply Forall_forall. intros j0 Hj0. apply in_seq in Hj0. lia. }
  { exact Eall. }
  rewrite seq_length in Hlc.
  (* the column of objective j *)
  destruct (nth_error cols j) as [cj|] eqn:Ecj; [|apply nth_error_None in Ecj; assert (Hx : m <= j) by (rewrite <- Hlc; exact Ecj); lia].
  assert (Hcj : ce_col (X := E) feq lg (col (X := E) F j) = Some cj).
  { destruct (all_some_map_nth (fun j0 => ce_col (X := E) feq lg (col (X := E) F j0)) (seq 0 m) cols j cj Eall Ecj) as (x & Hx & Hfx).
    assert (Hxj : x = j). { pose proof (nth_error_nth _ _ 0 Hx) as Hn. rewrite seq_nth in Hn by assumption. now rewrite <- Hn. }
    now subst x. }
  destruct (ce_col_extremes _ _ Hcf Hnc Hcj) as (i0 & i1 & H0 & H1 & Hext & Hp0 & Hp1).
  change (T (base E)) with eq in *. rewrite Hcl in H0, H1, Hext.
  exists i0, i1. split; [assumption|]. split; [assumption|]. split; [exact Hext|].
  assert (G : forall i, i < length F -> nth i cj ENaN = PInf -> nth i (map (sum_lr (X := E)) (rows_of (X := E) (length F) cols)) ENaN = PInf).
  { intros i Hi Hpi.
    rewrite (nth_indep _ ENaN (sum_lr (X := E) (map (fun c => nth i c ENaN) cols))) by (rewrite map_length; unfold rows_of; rewrite map_length, seq_length; exact Hi).
    rewrite (map_nth (sum_lr (X := E))). unfold rows_of.
    rewrite (nth_indep _ _ ((fun i0 => map (fun c => nth i0 c (qnan E)) cols) 0)) by (rewrite map_length, seq_length; exact Hi).
    rewrite (map_nth (fun i0 => map (fun c => nth i0 c (qnan E)) cols)). rewrite seq_nth by exact Hi. cbn [Nat.add].
    apply sum_lr_pinf.
    - apply Forall_forall. intros z Hz. apply in_map_iff in Hz as (c & <- & Hc). rewrite Forall_forall in Hcols.
      destruct (Hcols c Hc) as [Hg Hl]. rewrite Forall_forall in Hg. apply Hg. apply nth_In. exact (eq_ind_r (fun z => i < z) Hi Hl).
    - apply in_map_iff. exists cj. split; [exact Hpi|]. eapply nth_error_In; eassumption. }
  split; apply G; assumption.
Qed.

End Ce.
