From Coq Require Import List Bool Arith Lia ZArith.
From PV Require Import Base.Num Base.Res Base.ListX Model.Cross.
Import ListNotations.

Ltac Zify.zify_post_hook ::= Z.to_euclidean_division_equations.

Fixpoint count_true (r : list bool) : nat :=
  match r with [] => 0 | b :: t => (if b then 1 else 0) + count_true t end.

Lemma has_true_count r : has_true r = true <-> 1 <= count_true r.
Proof.
  unfold has_true. induction r as [|b t IH]; cbn; [split; [discriminate|lia]|].
  destruct b; cbn; [split; [lia|reflexivity]|]. rewrite IH. lia.
Qed.

Lemma has_true_false_all r : has_true r = false -> forall p, nth p r false = false.
Proof.
  unfold has_true. induction r as [|b t IH]; cbn; intros H p; [destruct p; reflexivity|].
  apply orb_false_iff in H as [-> H]. destruct p; [reflexivity|]. apply IH. exact H.
Qed.

Lemma count_true_all_false r : (forall p, nth p r false = false) -> count_true r = 0.
Proof.
  induction r as [|b t IH]; cbn; intro H; [reflexivity|].
  rewrite (H 0) . cbn. apply IH. intro p. exact (H (S p)).
Qed.

Lemma count_set_nth j r : j < length r -> nth j r false = false ->
  count_true (set_nth j true r) = S (count_true r).
Proof.
  revert j. induction r as [|b t IH]; intros [|j] Hl Hn; cbn in *; try lia.
  - subst. reflexivity.
  - rewrite IH by (assumption || lia). lia.
Qed.

Lemma has_true_set_nth j r : j < length r -> has_true (set_nth j true r) = true.
Proof.
  unfold has_true. revert j. induction r as [|b t IH]; intros j Hl; [cbn in Hl; lia|].
  destruct j as [|j]; cbn; [reflexivity|]. cbn in Hl. rewrite IH by lia. apply orb_true_r.
Qed.

Lemma has_true_nth r : has_true r = true <-> exists p, nth_error r p = Some true.
Proof.
  unfold has_true. induction r as [|b t IH]; cbn.
  - split; [discriminate|]. intros [[|p] H]; discriminate.
  - destruct b; cbn.
    + split; [|reflexivity]. intros _. now exists 0.
    + rewrite IH. split; intros [p H]; [now exists (S p)|]. destruct p; [discriminate|]. now exists p.
Qed.

Section Generic.
Context {N : num}.

(* ---- forcing one coordinate ---- *)
Definition forced (v : nat) (r r' : list bool) : Prop :=
  (has_true r = true /\ r' = r) \/
  (has_true r = false /\ exists j, j < v /\ r' = set_nth j true r).

Lemma force_row_spec v r s r' s' :
  force_row (N := N) v r s = Ok (r', s') -> forced v r r'.
Proof.
  unfold force_row. destruct (has_true r) eqn:E.
  - intro H. apply ret_ok in H as [<- _]. now left.
  - intro H. apply bind_ok in H as (js & s1 & Hd & H).
    apply draw_randint_ok in Hd as (_ & Hl & Hf).
    destruct js as [|j [|? ?]]; try discriminate. apply ret_ok in H as [<- _].
    right. split; [exact E|]. exists j. split; [|reflexivity]. inversion Hf; subst. lia.
Qed.

Lemma at_least_once_spec v rows s rows' s' :
  at_least_once (N := N) v rows s = Ok (rows', s') -> Forall2 (forced v) rows rows'.
Proof.
  intro H. apply map_M_ok in H. eapply Forall2_impl; [|exact H].
  intros r r' (s1 & s2 & Hf). eapply force_row_spec; eauto.
Qed.

Lemma forced_ok v r r' : 0 < v -> length r = v -> forced v r r' ->
  length r' = v /\ has_true r' = true.
Proof.
  intros Hv Hl [[Ht ->]|[Hf [j [Hj ->]]]]; [auto|].
  rewrite set_nth_length. split; [assumption|]. apply has_true_set_nth. lia.
Qed.

Lemma forced_one v r r' : length r = v -> has_true r = false -> forced v r r' -> count_true r' = 1.
Proof.
  intros Hl Hf [[Ht _]|[_ [j [Hj ->]]]]; [congruence|].
  rewrite count_set_nth; [|lia|now apply has_true_false_all].
  rewrite count_true_all_false; [reflexivity|]. now apply has_true_false_all.
Qed.

(* ---- exponential row: exact characterisation of the consumed draws and the mask ---- *)
Definition sc (u : N) : event N := ERand [] [u].

Definition in_block (v start j L p : nat) : bool :=
  existsb (fun i => (start + i) mod v =? p) (seq j (L - j)).

Lemma exp_row_spec cr v start : forall fuel j mask s mask' s',
  exp_row (N := N) cr v start j fuel mask s = Ok (mask', s') ->
  0 < v -> length mask = v ->
  exists us,
    Forall (fun u => ltb N u cr = true) us /\ length us <= fuel /\
    ((length us = fuel /\ s = map sc us ++ s') \/
     (length us < fuel /\ exists u, ltb N u cr = false /\ s = map sc us ++ sc u :: s')) /\
    length mask' = v /\
    forall p, p < v -> nth p mask' false = nth p mask false || in_block v start j (j + length us) p.
Proof.
  induction fuel as [|fuel IH]; intros j mask s mask' s' H Hv Hl; cbn [exp_row] in H.
  - apply ret_ok in H as [<- <-]. exists []. cbn. repeat split; auto.
    intros p Hp. unfold in_block. replace (j + 0 - j) with 0 by lia. cbn. now rewrite orb_false_r.
  - apply bind_ok in H as (us0 & s1 & Hd & H). apply draw_rand_ok in Hd as [-> Hlen].
    destruct us0 as [|u [|? ?]]; try discriminate. clear Hlen.
    destruct (ltb N u cr) eqn:Eu.
    + apply IH in H; [|assumption|now rewrite set_nth_length].
      destruct H as (us & Hall & Hle & Hcase & Hl' & Hmask).
      exists (u :: us). cbn [length map app]. repeat split.
      * constructor; assumption.
      * lia.
      * destruct Hcase as [[He ->]|[Hlt [u' [Hu' ->]]]]; [left|right]; (split; [lia|]); eauto.
      * assumption.
      * intros p Hp. rewrite (Hmask p Hp). rewrite nth_set_nth by (rewrite Hl; apply Nat.mod_upper_bound; lia).
        unfold in_block. replace (j + S (length us) - j) with (S (length us)) by lia.
        replace (S j + length us - S j) with (length us) by lia. cbn [seq existsb].
        rewrite Nat.eqb_sym.
        destruct ((start + j) mod v =? p); cbn; [now rewrite orb_true_r|reflexivity].
    + apply ret_ok in H as [<- <-]. exists []. cbn. repeat split; auto; try lia.
      * right. split; [lia|]. exists u. auto.
      * intros p Hp. unfold in_block. replace (j + 0 - j) with 0 by lia. cbn. now rewrite orb_false_r.
Qed.

(* a full-length block covers every position *)
Lemma in_block_full v start p : 0 < v -> p < v -> in_block v start 0 v p = true.
Proof.
  intros Hv Hp. unfold in_block. rewrite Nat.sub_0_r. apply existsb_exists.
  exists ((p + v - start mod v) mod v). split.
  - apply in_seq. pose proof (Nat.mod_upper_bound (p + v - start mod v) v). lia.
  - apply Nat.eqb_eq.
    assert (Hs : start = v * (start / v) + start mod v) by (apply Nat.div_mod; lia).
    assert (Ha : start mod v < v) by (apply Nat.mod_upper_bound; lia).
    set (a := start mod v) in *. set (q := start / v) in *.
    destruct (le_lt_dec a p).
    + assert ((p + v - a) mod v = p - a) as ->.
      { replace (p + v - a) with ((p - a) + 1 * v) by lia. rewrite Nat.mod_add by lia. apply Nat.mod_small. lia. }
      replace (start + (p - a)) with (p + q * v) by lia. rewrite Nat.mod_add by lia. apply Nat.mod_small; lia.
    + assert ((p + v - a) mod v = p + v - a) as -> by (apply Nat.mod_small; lia).
      replace (start + (p + v - a)) with (p + (q + 1) * v) by lia. rewrite Nat.mod_add by lia. apply Nat.mod_small; lia.
Qed.

Lemma nth_repeat_false p n : nth p (repeat false n) false = false.
Proof. revert p. induction n; intros [|p]; cbn; auto. Qed.

(* ---- masks ---- *)
Definition mask_ok (v : nat) (r : list bool) : Prop := length r = v /\ has_true r = true.

Lemma forall2_forced_ok v rows rows' : 0 < v ->
  Forall (fun r => length r = v) rows -> Forall2 (forced v) rows rows' -> Forall (mask_ok v) rows'.
Proof.
  intros Hv HF H. induction H; [constructor|]. inversion HF; subst. constructor; [|auto].
  eapply forced_ok; eauto.
Qed.

Lemma exp_rows_len cr v ss : forall s rows s', 0 < v ->
  map_M (fun st => exp_row (N := N) cr v st 0 v (repeat false v)) ss s = Ok (rows, s') ->
  length rows = length ss /\ Forall (fun r => length r = v) rows.
Proof.
  intros s rows s' Hv H. apply map_M_ok in H. induction H; [split; constructor|].
  destruct IHForall2 as [IH1 IH2]. cbn. split; [lia|]. constructor; [|assumption].
  destruct H as (s1 & s2 & He). apply exp_row_spec in He; [|assumption|apply repeat_length].
  destruct He as (us & _ & _ & _ & Hl & _). exact Hl.
Qed.

Lemma cross_mask_ok c n v cr s rows s' : 0 < v ->
  cross_mask (N := N) c n v cr true s = Ok (rows, s') ->
  length rows = n /\ Forall (mask_ok v) rows.
Proof.
  intros Hv H. destruct c; cbn [cross_mask] in H.
  - unfold cross_binomial in H. apply bind_ok in H as (us & s1 & Hd & H).
    apply draw_rand_ok in Hd as [-> Hlen]. cbn in Hlen.
    pose proof (at_least_once_spec _ _ _ _ _ H) as HF.
    split.
    + apply Forall2_length in HF. rewrite <- HF. apply reshape_length.
    + eapply forall2_forced_ok; [assumption| |exact HF]. apply reshape_rows. rewrite map_length. lia.
  - unfold cross_exp in H. apply bind_ok in H as (ss & s1 & Hd & H).
    apply draw_randint_ok in Hd as (-> & Hlen & Hr). apply bind_ok in H as (rows0 & s2 & Hm & H).
    apply exp_rows_len in Hm as [Hl0 Hrows0]; [|assumption].
    pose proof (at_least_once_spec _ _ _ _ _ H) as HF. split.
    + apply Forall2_length in HF. lia.
    + eapply forall2_forced_ok; eauto.
Qed.

(* ---- trial vectors ---- *)
Definition row_from {A} (x v u : list A) : Prop :=
  Forall2 (fun xv ui => ui = fst xv \/ ui = snd xv) (combine x v) u /\
  exists j vj, nth_error v j = Some vj /\ nth_error u j = Some vj.

Lemma apply_row_coord {A} (r : list bool) (x v : list A) :
  length r = length x -> length v = length x ->
  Forall2 (fun xv ui => ui = fst xv \/ ui = snd xv) (combine x v)
          (map3 (fun (m : bool) xi vi => if m then vi else xi) r x v).
Proof.
  revert x v. induction r as [|m r IH]; intros [|xi x] [|vi v] H1 H2; cbn in *; try discriminate; constructor.
  - destruct m; cbn; auto.
  - apply IH; lia.
Qed.

Lemma apply_row_mutant {A} (r : list bool) (x v : list A) p :
  length r = length x -> length v = length x -> nth_error r p = Some true ->
  exists vj, nth_error v p = Some vj /\
             nth_error (map3 (fun (m : bool) xi vi => if m then vi else xi) r x v) p = Some vj.
Proof.
  revert x v p. induction r as [|m r IH]; intros [|xi x] [|vi v] [|p] H1 H2 Hp; cbn in *; try discriminate.
  - inversion Hp; subst. eauto.
  - apply IH; auto.
Qed.

Lemma apply_mask_spec {A} v rows (X V : list (list A)) :
  Forall (mask_ok v) rows -> length rows = length X -> length V = length X ->
  Forall (fun x => length x = v) X -> Forall (fun x => length x = v) V ->
  Forall2 (fun xv u => row_from (fst xv) (snd xv) u) (combine X V) (apply_mask rows X V).
Proof.
  unfold apply_mask. revert X V. induction rows as [|r rows IH]; intros [|x X] [|w V] Hm H1 H2 HX HV; cbn in *; try discriminate; constructor.
  - inversion Hm as [|? ? [Hl Ht] ?]; subst. inversion HX; inversion HV; subst. cbn. split.
    + apply apply_row_coord; congruence.
    + apply has_true_nth in Ht as [p Hp].
      destruct (apply_row_mutant r x w p) as [vj [E1 E2]]; try congruence. eauto.
  - inversion Hm; inversion HX; inversion HV; subst. apply IH; auto.
Qed.

Lemma dex_spec c cr X V s U s' :
  let v := length (hd [] X) in
  0 < v -> length V = length X ->
  Forall (fun x => length x = v) X -> Forall (fun x => length x = v) V ->
  dex (N := N) c cr true X V s = Ok (U, s') ->
  Forall2 (fun xv u => row_from (fst xv) (snd xv) u) (combine X V) U.
Proof.
  intros v Hv HL HX HV H. unfold dex in H. apply bind_ok in H as (rows & s1 & Hm & H).
  apply ret_ok in H as [<- _]. fold v in Hm. apply cross_mask_ok in Hm as [Hn Hok]; [|assumption].
  eapply apply_mask_spec; eauto.
Qed.

(* ---- CR = 1 (every draw succeeds) and CR = 0 (every draw fails) ---- *)
Definition all_draws (P : N -> Prop) (s : list (event N)) : Prop :=
  forall sh vals u, In (ERand sh vals) s -> In u vals -> P u.

Lemma apply_row_all_true {A} (r : list bool) : forall (x w : list A),
  (forall p, p < length r -> nth p r false = true) -> length x = length r -> length w = length r ->
  map3 (fun (m : bool) xi vi => if m then vi else xi) r x w = w.
Proof.
  induction r as [|m r IHr]; intros [|xi x] [|wi w] Ht Hx Hw; cbn in *; try discriminate; try reflexivity.
  pose proof (Ht 0 ltac:(lia)) as H0. cbn in H0. subst m. f_equal.
  apply IHr; try lia. intros p Hp. apply (Ht (S p)). lia.
Qed.

Lemma apply_mask_all_true {A} rows (X V : list (list A)) v :
  Forall (fun r => length r = v /\ forall p, p < v -> nth p r false = true) rows ->
  length rows = length X -> length V = length X ->
  Forall (fun x => length x = v) X -> Forall (fun x => length x = v) V ->
  apply_mask rows X V = V.
Proof.
  unfold apply_mask. revert X V. induction rows as [|r rows IH]; intros [|x X] [|w V] Hm H1 H2 HX HV; cbn in *; try discriminate; [reflexivity|].
  inversion Hm as [|? ? [Hl Ht] Hm']; inversion HX as [|? ? Hx HX']; inversion HV as [|? ? Hw HV']; subst.
  f_equal; [|apply IH; auto].
  apply apply_row_all_true; [exact Ht|congruence|congruence].
Qed.

Lemma forced_keeps v r r' : has_true r = true -> forced v r r' -> r' = r.
Proof. intros Ht [[_ ->]|[Hf _]]; [reflexivity|congruence]. Qed.

Lemma all_true_has_true v r : 0 < v -> length r = v -> (forall p, p < v -> nth p r false = true) -> has_true r = true.
Proof.
  intros Hv Hl H. destruct r as [|b r]; cbn in *; [lia|]. specialize (H 0 Hv). cbn in H. subst. reflexivity.
Qed.

Lemma exp_rows_all_true cr v ss : forall s1 rows0 s2, 0 < v ->
  map_M (fun st => exp_row (N := N) cr v st 0 v (repeat false v)) ss s1 = Ok (rows0, s2) ->
  all_draws (fun u => ltb N u cr = true) s1 ->
  length rows0 = length ss /\ Forall (fun r => length r = v /\ forall p, p < v -> nth p r false = true) rows0.
Proof.
  intros s1 rows0 s2 Hv. revert s1 rows0 s2. induction ss as [|st ss IH]; cbn; intros s1 rows0 s2 Hm HA1.
      - apply ret_ok in Hm as [<- _]. split; constructor.
      - apply bind_ok in Hm as (r & s3 & He & Hm). apply bind_ok in Hm as (rs & s4 & Hm & Hr). apply ret_ok in Hr as [<- _].
        pose proof He as He'. apply exp_row_spec in He as (us & Hall & Hle & Hcase & Hl & Hmask); [|assumption|apply repeat_length].
        assert (Hfull : length us = v /\ s1 = map sc us ++ s3).
        { destruct Hcase as [[? ?]|[Hlt [u [Hu ->]]]]; [auto|]. exfalso.
          assert (ltb N u cr = true); [|congruence]. eapply (HA1 [] [u] u); [|now left].
          apply in_or_app. right. now left. }
        destruct Hfull as [Hfull ->].
        destruct (IH s3 rs s4 Hm) as [IH1 IH2].
        { intros sh vals u Hi Hu. eapply HA1; [apply in_or_app; right; exact Hi|exact Hu]. }
        cbn. split; [lia|]. constructor; [|assumption]. split; [assumption|].
        intros p Hp. rewrite Hmask by assumption. replace (0 + length us) with v by lia. rewrite in_block_full by assumption. apply orb_true_r. 
Qed.

Lemma cr_one_mask c n v cr s rows s' : 0 < v ->
  all_draws (fun u => ltb N u cr = true) s ->
  cross_mask (N := N) c n v cr true s = Ok (rows, s') ->
  length rows = n /\ Forall (fun r => length r = v /\ forall p, p < v -> nth p r false = true) rows.
Proof.
  intros Hv HA H. destruct c; cbn [cross_mask] in H.
  - unfold cross_binomial in H. apply bind_ok in H as (us & s1 & Hd & H).
    apply draw_rand_ok in Hd as [-> Hlen]. cbn in Hlen.
    set (rows0 := reshape n v (map (fun u => ltb N u cr) us)) in *.
    assert (Hall : map (fun u => ltb N u cr) us = repeat true (length us)).
    { apply map_const_repeat. intros u Hu. eapply HA; [now left|exact Hu]. }
    assert (H0 : Forall (fun r => length r = v /\ forall p, p < v -> nth p r false = true) rows0).
    { subst rows0. rewrite Hall. replace (length us) with (n * v) by lia. rewrite reshape_repeat.
      apply Forall_forall. intros r Hr. apply repeat_spec in Hr. subst r. rewrite repeat_length. split; [reflexivity|].
      intros p Hp. now apply nth_repeat_lt. }
    pose proof (at_least_once_spec _ _ _ _ _ H) as HF.
    assert (rows = rows0) as ->.
    { clear - HF H0 Hv. induction HF; [reflexivity|]. inversion H0 as [|? ? [Hl Ht] ?]; subst. f_equal; [|auto].
      eapply forced_keeps; [|exact H]. eapply all_true_has_true; eauto. }
    split; [apply reshape_length|exact H0].
  - unfold cross_exp in H. apply bind_ok in H as (ss & s1 & Hd & H).
    apply draw_randint_ok in Hd as (-> & Hlen & Hr). apply bind_ok in H as (rows0 & s2 & Hm & H).
    assert (HA1 : all_draws (fun u => ltb N u cr = true) s1) by (intros sh vals u Hi Hu; eapply HA; [right; exact Hi|exact Hu]).
    pose proof (exp_rows_all_true cr v ss s1 rows0 s2 Hv Hm HA1) as H0.
    destruct H0 as [Hl0 H0].
    pose proof (at_least_once_spec _ _ _ _ _ H) as HF.
    assert (rows = rows0) as ->.
    { clear - HF H0 Hv. induction HF; [reflexivity|]. inversion H0 as [|? ? [Hl Ht] ?]; subst. f_equal; [|auto].
      eapply forced_keeps; [|exact H]. eapply all_true_has_true; eauto. }
    split; [lia|exact H0].
Qed.

Lemma dex_cr_one c cr X V s U s' :
  let v := length (hd [] X) in
  0 < v -> length V = length X ->
  Forall (fun x => length x = v) X -> Forall (fun x => length x = v) V ->
  all_draws (fun u => ltb N u cr = true) s ->
  dex (N := N) c cr true X V s = Ok (U, s') -> U = V.
Proof.
  intros v Hv HL HX HV HA H. unfold dex in H. apply bind_ok in H as (rows & s1 & Hm & H).
  apply ret_ok in H as [<- _]. fold v in Hm. apply cr_one_mask in Hm as [Hn Hok]; [|assumption|assumption].
  eapply apply_mask_all_true; eauto.
Qed.

Lemma exp_rows_all_false cr v ss : forall s1 rows0 s2, 0 < v ->
  map_M (fun st => exp_row (N := N) cr v st 0 v (repeat false v)) ss s1 = Ok (rows0, s2) ->
  all_draws (fun u => ltb N u cr = false) s1 ->
  length rows0 = length ss /\ Forall (fun r => length r = v /\ has_true r = false) rows0.
Proof.
  intros s1 rows0 s2 Hv. revert s1 rows0 s2. induction ss as [|st ss IH]; cbn; intros s1 rows0 s2 Hm HA1.
      - apply ret_ok in Hm as [<- _]. split; constructor.
      - apply bind_ok in Hm as (r & s3 & He & Hm). apply bind_ok in Hm as (rs & s4 & Hm & Hr). apply ret_ok in Hr as [<- _].
        apply exp_row_spec in He as (us & Hall & Hle & Hcase & Hl & Hmask); [|assumption|apply repeat_length].
        assert (Hnone : us = []).
        { destruct us as [|u us]; [reflexivity|]. exfalso. inversion Hall; subst.
          assert (ltb N u cr = false); [|congruence].
          destruct Hcase as [[_ ->]|[_ [u' [_ ->]]]]; eapply (HA1 [] [u] u); cbn; auto. }
        subst us. cbn in Hcase, Hmask.
        assert (exists tl, s1 = tl ++ s3) as [tl ->].
        { destruct Hcase as [[_ ->]|[_ [u' [_ ->]]]]; [now exists []|now exists [sc u']]. }
        destruct (IH s3 rs s4 Hm) as [IH1 IH2].
        { intros sh vals u Hi Hu. eapply HA1; [apply in_or_app; right; exact Hi|exact Hu]. }
        cbn. split; [lia|]. constructor; [|assumption]. split; [assumption|].
        destruct (has_true r) eqn:Et; [|reflexivity]. exfalso.
        apply has_true_nth in Et as [p Hp]. assert (p < v) by (rewrite <- Hl; apply nth_error_Some; congruence).
        pose proof (Hmask p H) as Hq. rewrite (nth_error_nth _ _ _ Hp), nth_repeat_false in Hq.
        unfold in_block in Hq. replace (0 + 0 - 0) with 0 in Hq by lia. cbn in Hq. discriminate. 
Qed.

Lemma cr_zero_mask c n v cr s rows s' : 0 < v ->
  all_draws (fun u => ltb N u cr = false) s ->
  cross_mask (N := N) c n v cr true s = Ok (rows, s') ->
  length rows = n /\ Forall (fun r => length r = v /\ count_true r = 1) rows.
Proof.
  intros Hv HA H.
  assert (Key : forall rows0 s2, Forall (fun r => length r = v /\ has_true r = false) rows0 ->
            at_least_once (N := N) v rows0 s2 = Ok (rows, s') ->
            length rows = length rows0 /\ Forall (fun r => length r = v /\ count_true r = 1) rows).
  { intros rows0 s2 H0 Ha. apply at_least_once_spec in Ha. clear - Ha H0 Hv. induction Ha; [split; constructor|].
    inversion H0 as [|? ? [Hl Hf] H0']; subst. destruct (IHHa H0') as [I1 I2]. cbn. split; [lia|]. constructor; [|assumption].
    split; [|eapply forced_one; eauto].
    destruct H as [[Ht _]|[_ [j [Hj ->]]]]; [congruence|]. now rewrite set_nth_length. }
  destruct c; cbn [cross_mask] in H.
  - unfold cross_binomial in H. apply bind_ok in H as (us & s1 & Hd & H).
    apply draw_rand_ok in Hd as [-> Hlen]. cbn in Hlen.
    assert (Hall : map (fun u => ltb N u cr) us = repeat false (length us)).
    { apply map_const_repeat. intros u Hu. eapply HA; [now left|exact Hu]. }
    apply Key in H; [rewrite reshape_length in H; exact H|].
    rewrite Hall. replace (length us) with (n * v) by lia. rewrite reshape_repeat.
    apply Forall_forall. intros r Hr. apply repeat_spec in Hr. subst r. rewrite repeat_length. split; [reflexivity|].
    clear. unfold has_true. induction v; cbn; auto.
  - unfold cross_exp in H. apply bind_ok in H as (ss & s1 & Hd & H).
    apply draw_randint_ok in Hd as (-> & Hlen & Hr). apply bind_ok in H as (rows0 & s2 & Hm & H).
    assert (HA1 : all_draws (fun u => ltb N u cr = false) s1) by (intros sh vals u Hi Hu; eapply HA; [right; exact Hi|exact Hu]).
    pose proof (exp_rows_all_false cr v ss s1 rows0 s2 Hv Hm HA1) as H0.
    destruct H0 as [Hl0 H0]. apply Key in H; [|exact H0]. destruct H as [H1 H2]. split; [lia|exact H2].
Qed.
End Generic.

(* ---------- exact rationals: CR = 1 and CR = 0 with draws in [0,1) ---------- *)
From Coq Require Import QArith Lqa.
From PV Require Import Base.NumQ.
Local Open Scope nat_scope.

Definition unit_draws (s : list (event Qn)) : Prop := all_draws (N := Qn) (fun u => (0 <= u /\ u < 1)%Q) s.

Lemma unit_cr_one s : unit_draws s -> all_draws (N := Qn) (fun u => ltb Qn u 1%Q = true) s.
Proof. intros H sh vals u Hi Hu. apply Qltb_lt. destruct (H sh vals u Hi Hu). assumption. Qed.

Lemma unit_cr_zero s : unit_draws s -> all_draws (N := Qn) (fun u => ltb Qn u 0%Q = false) s.
Proof. intros H sh vals u Hi Hu. apply Qltb_ge. destruct (H sh vals u Hi Hu). assumption. Qed.

Lemma dex_cr_one_q c X V s U s' :
  let v := length (hd [] X) in
  0 < v -> length V = length X ->
  Forall (fun x => length x = v) X -> Forall (fun x => length x = v) V ->
  unit_draws s -> dex (N := Qn) c 1%Q true X V s = Ok (U, s') -> U = V.
Proof. intros v Hv HL HX HV HU. apply dex_cr_one; auto. now apply unit_cr_one. Qed.

Lemma cr_zero_mask_q c n v s rows s' : 0 < v -> unit_draws s ->
  cross_mask (N := Qn) c n v 0%Q true s = Ok (rows, s') ->
  length rows = n /\ Forall (fun r => length r = v /\ count_true r = 1) rows.
Proof. intros Hv HU. apply cr_zero_mask; auto. now apply unit_cr_zero. Qed.

Lemma bin_mask_bits {N : Num.num} n v cr s rows s' :
  cross_binomial (N := N) n v cr false s = Ok (rows, s') ->
  exists us, s = ERand [n; v] us :: s' /\ length us = n * v /\
             rows = reshape n v (map (fun u => ltb N u cr) us).
Proof.
  unfold cross_binomial. intro H. apply bind_ok in H as (us & s1 & Hd & H).
  apply draw_rand_ok in Hd as [-> Hl]. apply ret_ok in H as [<- <-]. exists us. cbn in Hl. repeat split; auto. lia.
Qed.
