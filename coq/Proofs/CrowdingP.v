From Coq Require Import List Bool Arith Lia.
From PV Require Import Base.Num Base.Res Base.ListX Model.Crowding.
Import ListNotations.

Section CrowdingP.
Context {X : xnum}.
Notation N := (base X).

Lemma scatter_length n idx (vals : list N) : length (scatter (X := X) n idx vals) = n.
Proof.
  unfold scatter. generalize (combine idx vals). intro l.
  assert (G : forall acc, length (fold_left (fun acc p => set_nth (fst p) (snd p) acc) l acc) = length acc).
  { induction l as [|p l IH]; intro acc; cbn; [reflexivity|]. now rewrite IH, set_nth_length. }
  now rewrite G, repeat_length.
Qed.

(* one value per point, whatever the inner metric returns on the unique points *)
Lemma functional_diversity_length eps fdups mnn f (F : list (list N)) d :
  functional_diversity (X := X) eps fdups mnn f F = Some d -> length d = length F.
Proof.
  unfold functional_diversity.
  destruct ((mnn && (length F <=? length (hd [] F))) || (length F <=? 2)).
  - intro H. inversion H. apply repeat_length.
  - destruct (pick F _) as [Fu|]; [|discriminate]. destruct (f Fu) as [d0|]; [|discriminate].
    destruct (length d0 =? _); [|discriminate]. intro H. inversion H. apply scatter_length.
Qed.

Lemma calc_crowding_distance_length (F : list (list N)) : length (calc_crowding_distance (X := X) F) = length F.
Proof. unfold calc_crowding_distance, rows_of. now rewrite !map_length, seq_length. Qed.

(* short fronts: everything is +inf *)
Lemma functional_diversity_short eps fdups mnn f (F : list (list N)) :
  length F <= 2 -> functional_diversity (X := X) eps fdups mnn f F = Some (repeat (pinf X) (length F)).
Proof.
  intro H. unfold functional_diversity. apply Nat.leb_le in H. rewrite H, orb_true_r. reflexivity.
Qed.

(* duplicates (all but the first occurrence) get crowding 0 *)
Lemma scatter_untouched n idx (vals : list N) i : ~ In i idx -> i < n -> nth i (scatter (X := X) n idx vals) (zero N) = zero N.
Proof.
  intros Hi Hn. unfold scatter.
  assert (G : forall l acc, (forall p, In p l -> fst p <> i) -> 
            nth i (fold_left (fun acc p => set_nth (fst p) (snd p) acc) l acc) (zero N) = nth i acc (zero N)).
  { induction l as [|p l IH]; intros acc H; cbn; [reflexivity|]. rewrite IH by (intros; apply H; now right).
    assert (Hp : fst p <> i) by (apply H; now left).
    clear - Hp. revert i acc Hp. generalize (fst p) as k. induction k; intros i [|a acc] Hp; destruct i; cbn; try reflexivity; try congruence.
    apply IHk. congruence. }
  rewrite G.
  - clear - Hn. revert i Hn. induction n; intros [|i] Hn; cbn; try lia; auto. apply IHn. lia.
  - intros [a b] Hp Hf. apply Hi. cbn in Hf. rewrite <- Hf. eapply in_combine_l; exact Hp.
Qed.
End CrowdingP.
