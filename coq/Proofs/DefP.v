(* C13, "on fronts without coordinate ties the values equal the published definitions", for the crowding distance:
   for a point that is not an extreme of objective m, the contribution of m is (hi - lo) / (max - min), where lo is the
   largest value of the objective below the point's own and hi the smallest one above it (Deb et al. 2002); the model
   computes it through a stable argsort, sorted-neighbour differences and a scatter. *)
From Coq Require Import List Bool Arith ZArith Lia QArith Lqa Permutation Sorted.
From PV Require Import Base.Num Base.NumEQ Base.Res Base.ListX Model.Crowding Proofs.CrowdingP Proofs.CdP Proofs.FallbackP Proofs.CdBoundaryP.
Import ListNotations.
Local Open Scope nat_scope.
Local Arguments qsign : simpl never.

Definition qof (e : eq) : Q := match e with Fin q => q | _ => 0%Q end.

Lemma sorted_nth {A} (R : A -> A -> Prop) (l : list A) d : StronglySorted R l -> forall i j, i < j -> j < length l -> R (nth i l d) (nth j l d).
Proof.
  induction 1 as [|a l Hs IH Hall]; intros i j Hij Hj; [cbn in Hj; lia|]. destruct j; [lia|]. destruct i; cbn.
  - rewrite Forall_forall in Hall. apply Hall. apply nth_In. cbn in Hj. lia.
  - apply IH; cbn in Hj; lia.
Qed.

Section Column.
Variable v : list eq.
Hypothesis Hfin : Forall isfin v.
(* no ties in this objective *)
Hypothesis Htf : forall a b, a < length v -> b < length v -> a <> b -> eltb (key v a) (key v b) = true \/ eltb (key v b) (key v a) = true.

Let n := length v.
Let idx := argsort (X := E) v.
Let s := map (key v) idx.

Lemma idx_facts : Permutation idx (seq 0 n) /\ NoDup idx /\ length idx = n /\ Forall (fun j => j < n) idx /\ StronglySorted (ile v) idx.
Proof.
  unfold idx, n. repeat split; [apply argsort_perm|apply argsort_nodup|apply argsort_length|apply argsort_range|now apply argsort_sorted].
Qed.

Lemma pos_of i : i < n -> exists k, k < n /\ nth_error idx k = Some i.
Proof.
  intro Hi. destruct idx_facts as (HP & _ & Hl & _ & _).
  assert (Hin : In i idx) by (apply (Permutation_in _ (Permutation_sym HP)); apply in_seq; lia).
  destruct (In_nth_error _ _ Hin) as [k Hk]. exists k. split; [|assumption]. rewrite <- Hl. apply nth_error_Some. congruence.
Qed.

Lemma key_le_of_pos k k' : k <= k' -> k' < n -> fle (key v (nth k idx 0)) (key v (nth k' idx 0)).
Proof.
  intros Hkk Hk'. destruct idx_facts as (_ & _ & Hl & Hr & Hs). destruct (Nat.eq_dec k k') as [->|Hne].
  - apply fle_refl. apply key_fin; [assumption|]. rewrite Forall_forall in Hr. apply Hr. apply nth_In. lia.
  - exact (sorted_nth (ile v) idx 0 Hs k k' ltac:(lia) ltac:(lia)).
Qed.

(* everything strictly below the point sits at an earlier sorted position *)
Lemma below_is_earlier k j : k < n -> j < n -> eltb (key v j) (key v (nth k idx 0)) = true ->
  exists k', k' < k /\ nth_error idx k' = Some j.
Proof.
  intros Hk Hj Hlt. destruct (pos_of j Hj) as (k' & Hk' & Ek'). exists k'. split; [|assumption].
  destruct (le_lt_dec k k') as [Hle|Hgt]; [exfalso|assumption].
  pose proof (key_le_of_pos k k' Hle Hk') as Hfle. rewrite (nth_error_nth _ _ 0 Ek') in Hfle. unfold fle in Hfle. congruence.
Qed.

Lemma above_is_later k j : k < n -> j < n -> eltb (key v (nth k idx 0)) (key v j) = true ->
  exists k', k < k' /\ k' < n /\ nth_error idx k' = Some j.
Proof.
  intros Hk Hj Hlt. destruct (pos_of j Hj) as (k' & Hk' & Ek'). exists k'. split; [|split; assumption].
  destruct (le_lt_dec k' k) as [Hle|Hgt]; [exfalso|assumption].
  pose proof (key_le_of_pos k' k Hle Hk) as Hfle. rewrite (nth_error_nth _ _ 0 Ek') in Hfle. unfold fle in Hfle. congruence.
Qed.
End Column.

Lemma q_def_arith a b c d b' c' d' : (b == b')%Q -> (c == c')%Q -> (d == d')%Q -> (0 < d)%Q ->
  ((a + - b) / d + (c + - a) / d == (c' - b') / d')%Q.
Proof. intros Hb Hc Hd Hpos. rewrite <- Hb, <- Hc, <- Hd. field. lra. Qed.

Lemma fle_antisym_q x y : isfin x -> isfin y -> fle x y -> fle y x -> (qof x == qof y)%Q.
Proof.
  intros Hx Hy H1 H2. destruct (fle_fin x y Hx Hy H1) as (a & b & -> & -> & Hab). destruct (fle_fin (Fin b) (Fin a) Hy Hx H2) as (b2 & a2 & E1 & E2 & Hba).
  inversion E1; inversion E2; subst. cbn. lra.
Qed.

Section ColumnValue.
Variable v : list eq.
Hypothesis Hfin : Forall isfin v.
Hypothesis Htf : forall a b, a < length v -> b < length v -> a <> b -> eltb (key v a) (key v b) = true \/ eltb (key v b) (key v a) = true.
Let n := length v.
Let idx := argsort (X := E) v.

Definition col_norm : eq :=
  let s := map (fun i => nth i v (qnan E)) idx in
  if eqb (base E) (sub (base E) (nth (n - 1) s (qnan E)) (nth 0 s (qnan E))) (zero (base E)) then qnan E
  else sub (base E) (nth (n - 1) s (qnan E)) (nth 0 s (qnan E)).

(* the contribution of this objective to a point at an interior sorted position k *)
Lemma cd_col_value i k : nth_error idx k = Some i -> 0 < k -> k < n - 1 ->
  nth i (cd_col (X := E) v) ENaN =
  eadd (nan0e (ediv (esub (key v i) (key v (nth (k - 1) idx 0))) col_norm))
       (nan0e (ediv (esub (key v (nth (k + 1) idx 0)) (key v i)) col_norm)).
Proof.
  intros Hk Hk0 Hk1. destruct (idx_facts v Hfin) as (HP & Hnd & Hl & Hr & Hs). fold idx n in HP, Hnd, Hl, Hr, Hs.
  assert (Hi : i < n). { rewrite Forall_forall in Hr. apply Hr. eapply nth_error_In; eassumption. }
  unfold cd_col. fold idx n. set (s := map (fun j => nth j v (qnan E)) idx).
  assert (Hls : length s = n) by (unfold s; now rewrite map_length).
  assert (Hsk : forall k', k' < n -> nth_error s k' = Some (key v (nth k' idx 0))).
  { intros k' Hk'. unfold s. apply map_nth_error. apply nth_error_nth'. lia. }
  set (nm := if eqb (base E) (sub (base E) (nth (n - 1) s (qnan E)) (nth 0 s (qnan E))) (zero (base E)) then qnan E
             else sub (base E) (nth (n - 1) s (qnan E)) (nth 0 s (qnan E))).
  change col_norm with nm.
  set (fl := fun a b : eq => nan0 (X := E) (div (base E) (sub (base E) a b) nm)).
  set (fu := fun a b : eq => nan0 (X := E) (div (base E) (sub (base E) b a) nm)).
  assert (Eki : key v (nth k idx 0) = key v i) by (now rewrite (nth_error_nth _ _ 0 Hk)).
  assert (Hdl : nth_error (map2 fl s (ninf E :: s)) k = Some (fl (key v i) (key v (nth (k - 1) idx 0)))).
  { rewrite <- Eki. apply nth_error_map2_gen; [apply Hsk; lia|]. destruct k as [|k0]; [lia|]. cbn [nth_error]. replace (S k0 - 1) with k0 by lia. apply Hsk. lia. }
  assert (Hdn : nth_error (map2 fu s (tl s ++ [pinf E])) k = Some (fu (key v i) (key v (nth (k + 1) idx 0)))).
  { rewrite <- Eki. apply nth_error_map2_gen; [apply Hsk; lia|].
    assert (Htl : nth_error (tl s) k = nth_error s (k + 1)) by (destruct s; [destruct k; reflexivity|replace (k + 1) with (S k) by lia; reflexivity]).
    rewrite nth_error_app1 by (destruct s; cbn [tl length] in *; lia). rewrite Htl. apply Hsk. lia. }
  assert (Hval : nth_error (map2 (add (base E)) (map2 fl s (ninf E :: s)) (map2 fu s (tl s ++ [pinf E]))) k
                 = Some (eadd (fl (key v i) (key v (nth (k - 1) idx 0))) (fu (key v i) (key v (nth (k + 1) idx 0))))) by (now apply nth_error_map2_gen).
  assert (Hlv : length idx = length (map2 (add (base E)) (map2 fl s (ninf E :: s)) (map2 fu s (tl s ++ [pinf E])))).
  { rewrite !map2_length, app_length. cbn [length]. destruct s; cbn [tl length] in *; lia. }
  exact (scatter_nth n idx _ k i _ ENaN Hnd Hlv Hk Hval Hi).
Qed.

(* ... and that is the published definition: (nearest value above - nearest value below) / (max - min) *)
Theorem cd_col_definition i jl jh jmin jmax : i < n -> jl < n -> jh < n -> jmin < n -> jmax < n ->
  eltb (key v jl) (key v i) = true -> (forall j, j < n -> eltb (key v j) (key v i) = true -> fle (key v j) (key v jl)) ->
  eltb (key v i) (key v jh) = true -> (forall j, j < n -> eltb (key v i) (key v j) = true -> fle (key v jh) (key v j)) ->
  (forall j, j < n -> fle (key v jmin) (key v j)) -> (forall j, j < n -> fle (key v j) (key v jmax)) ->
  exists q, nth i (cd_col (X := E) v) ENaN = Fin q /\
            (q == (qof (key v jh) - qof (key v jl)) / (qof (key v jmax) - qof (key v jmin)))%Q.
Proof.
  intros Hi Hjl Hjh Hjmin Hjmax Hlo Hlub Hhi Hglb Hmin Hmax.
  destruct (idx_facts v Hfin) as (HP & Hnd & Hl & Hr & Hs). fold idx n in HP, Hnd, Hl, Hr, Hs.
  destruct (pos_of v Hfin i Hi) as (k & Hkn & Hk). fold idx in Hk.
  assert (Eki : nth k idx 0 = i) by (now apply nth_error_nth).
  assert (Hrange : forall k', k' < n -> nth k' idx 0 < n) by (intros k' Hk'; rewrite Forall_forall in Hr; apply Hr, nth_In; lia).
  (* i is at an interior sorted position *)
  destruct (below_is_earlier v Hfin k jl Hkn Hjl) as (kl & Hkl & Ekl); [fold idx; now rewrite Eki|]. fold idx in Ekl.
  destruct (above_is_later v Hfin k jh Hkn Hjh) as (kh & Hkh & Hkhn & Ekh); [fold idx; now rewrite Eki|]. fold idx in Ekh.
  assert (Hk0 : 0 < k) by lia. assert (Hk1 : k < n - 1) by lia.
  rewrite (cd_col_value i k Hk Hk0 Hk1).
  set (p := nth (k - 1) idx 0). set (r := nth (k + 1) idx 0).
  assert (Hp : p < n) by (apply Hrange; lia). assert (Hr' : r < n) by (apply Hrange; lia).
  assert (Hkf : forall j, j < n -> isfin (key v j)) by (intros j Hj; now apply key_fin).
  (* p is the nearest below *)
  assert (Hpi : fle (key v p) (key v i)). { rewrite <- Eki. apply (key_le_of_pos v Hfin); lia. }
  assert (Hpne : p <> i).
  { intro E0. assert (Hx : nth_error idx (k - 1) = Some i) by (rewrite <- E0; apply nth_error_nth'; lia).
    pose proof (proj1 (NoDup_nth_error idx) Hnd (k - 1) k ltac:(lia) (eq_trans Hx (eq_sym Hk))). lia. }
  assert (Hplt : eltb (key v p) (key v i) = true). { destruct (Htf p i Hp Hi Hpne) as [H|H]; [assumption|]. unfold fle in Hpi. congruence. }
  assert (Elo : (qof (key v p) == qof (key v jl))%Q).
  { apply fle_antisym_q; try (now apply Hkf); [now apply Hlub|].
    replace jl with (nth kl idx 0) by (now apply nth_error_nth). apply (key_le_of_pos v Hfin); lia. }
  (* r is the nearest above *)
  assert (Hir : fle (key v i) (key v r)). { rewrite <- Eki. apply (key_le_of_pos v Hfin); lia. }
  assert (Hrne : r <> i).
  { intro E0. assert (Hx : nth_error idx (k + 1) = Some i) by (rewrite <- E0; apply nth_error_nth'; lia).
    pose proof (proj1 (NoDup_nth_error idx) Hnd (k + 1) k ltac:(lia) (eq_trans Hx (eq_sym Hk))). lia. }
  assert (Hrgt : eltb (key v i) (key v r) = true). { destruct (Htf i r Hi Hr' (not_eq_sym Hrne)) as [H|H]; [assumption|]. unfold fle in Hir. congruence. }
  assert (Ehi : (qof (key v r) == qof (key v jh))%Q).
  { apply fle_antisym_q; try (now apply Hkf); [|now apply Hglb].
    replace jh with (nth kh idx 0) by (now apply nth_error_nth). apply (key_le_of_pos v Hfin); lia. }
  (* the range *)
  set (i0 := nth 0 idx 0). set (i1 := nth (n - 1) idx 0).
  assert (Hi0 : i0 < n) by (apply Hrange; lia). assert (Hi1 : i1 < n) by (apply Hrange; lia).
  assert (Emin : (qof (key v i0) == qof (key v jmin))%Q).
  { apply fle_antisym_q; try (now apply Hkf); [|now apply Hmin].
    destruct (pos_of v Hfin jmin Hjmin) as (km & Hkm & Ekm). fold idx in Ekm. replace jmin with (nth km idx 0) by (now apply nth_error_nth).
    apply (key_le_of_pos v Hfin); lia. }
  assert (Emax : (qof (key v i1) == qof (key v jmax))%Q).
  { apply fle_antisym_q; try (now apply Hkf); [now apply Hmax|].
    destruct (pos_of v Hfin jmax Hjmax) as (km & Hkm & Ekm). fold idx in Ekm. replace jmax with (nth km idx 0) by (now apply nth_error_nth).
    apply (key_le_of_pos v Hfin); lia. }
  (* everything is finite: compute *)
  destruct (Hkf i Hi) as [qi Ei]. destruct (Hkf p Hp) as [qp Ep]. destruct (Hkf r Hr') as [qr Er].
  destruct (Hkf i0 Hi0) as [q0 E0]. destruct (Hkf i1 Hi1) as [q1 E1].
  assert (Hpos : (0 < q1 + - q0)%Q).
  { rewrite Ep, Ei in Hplt. cbn in Hplt. apply negb_true_iff in Hplt. assert (~ (qi <= qp)%Q) by (intro Hx; apply Qle_bool_iff in Hx; congruence).
    assert (H0p : fle (key v i0) (key v p)) by (apply (key_le_of_pos v Hfin); lia).
    assert (Hi1' : fle (key v i) (key v i1)) by (rewrite <- Eki; apply (key_le_of_pos v Hfin); lia).
    rewrite E0, Ep in H0p. rewrite Ei, E1 in Hi1'. unfold fle in H0p, Hi1'. cbn in H0p, Hi1'.
    apply negb_false_iff in H0p, Hi1'. apply Qle_bool_iff in H0p, Hi1'. lra. }
  assert (Hnm : col_norm = Fin (q1 + - q0)).
  { unfold col_norm. fold idx n. set (s := map (fun j => nth j v (qnan E)) idx).
    assert (Hs0 : nth 0 s (qnan E) = Fin q0). { unfold s. rewrite (nth_indep _ (qnan E) (key v 0)) by (rewrite map_length; lia). rewrite (map_nth (key v)). exact E0. }
    assert (Hs1 : nth (n - 1) s (qnan E) = Fin q1). { unfold s. rewrite (nth_indep _ (qnan E) (key v 0)) by (rewrite map_length; lia). rewrite (map_nth (key v)). exact E1. }
    rewrite Hs0, Hs1. cbn. destruct (Qeq_bool (q1 + - q0) 0) eqn:Eq; [|reflexivity]. apply Qeq_bool_iff in Eq. lra. }
  rewrite Hnm, Ei, Ep, Er. unfold nan0e, nan0. cbn. rewrite (qsign_pos _ Hpos). cbn.
  eexists. split; [reflexivity|].
  rewrite Ep in Elo. rewrite Er in Ehi. rewrite E0 in Emin. rewrite E1 in Emax. cbn in Elo, Ehi, Emin, Emax.
  apply q_def_arith; [assumption|assumption| |assumption]. rewrite Emin, Emax. unfold Qminus. reflexivity.
Qed.
End ColumnValue.
