From Coq Require Import List Bool Arith ZArith Lia.
From PV Require Import Base.Num Base.ListX Model.Dominance.
Import ListNotations.

Section D.
Context {N : num} {ok : N -> Prop} (L : ord_laws N ok).

Lemma rel_loop_one_keeps a : forall b, length a = length b -> Forall ok a -> Forall ok b ->
  (rel_loop a b 1 = 1%Z <-> weakly a b).
Proof.
  induction a as [|x a IH]; intros [|y b] Hlen Ha Hb; try discriminate.
  - cbn. split; [constructor | reflexivity].
  - inversion Ha as [|? ? Hx Ha']; inversion Hb as [|? ? Hy Hb']; subst. injection Hlen as Hlen. cbn [rel_loop].
    destruct (ltb N x y) eqn:Exy.
    + cbn. rewrite IH by assumption. split.
      * intro W. constructor; [|exact W]. exact (lt_asym L x y Hx Hy Exy).
      * intro W. inversion W; assumption.
    + destruct (ltb N y x) eqn:Eyx.
      * cbn. split; [discriminate|]. intro W. inversion W; congruence.
      * rewrite IH by assumption. split.
        -- intro W. constructor; assumption.
        -- intro W. inversion W; assumption.
Qed.

Lemma rel_loop_neg_stays a : forall b, rel_loop (N := N) a b (-1) <> 1%Z.
Proof.
  induction a as [|x a IH]; intros [|y b]; cbn; try discriminate.
  destruct (ltb N x y); cbn; [discriminate|]. destruct (ltb N y x); cbn; apply IH.
Qed.

Lemma rel_loop_zero_dom a : forall b, length a = length b -> Forall ok a -> Forall ok b ->
  (rel_loop a b 0 = 1%Z <-> pdom a b).
Proof.
  induction a as [|x a IH]; intros [|y b] Hlen Ha Hb; try discriminate.
  - cbn. split; [discriminate|]. intros [_ S]. inversion S.
  - inversion Ha as [|? ? Hx Ha']; inversion Hb as [|? ? Hy Hb']; subst. injection Hlen as Hlen. cbn [rel_loop].
    destruct (ltb N x y) eqn:Exy.
    + cbn. rewrite (rel_loop_one_keeps a b) by assumption. split.
      * intro W. split; [constructor; [|exact W] | constructor; assumption]. exact (lt_asym L x y Hx Hy Exy).
      * intros [W _]. inversion W; assumption.
    + destruct (ltb N y x) eqn:Eyx.
      * cbn. split.
        -- intro Hr. exfalso. exact (rel_loop_neg_stays a b Hr).
        -- intros [W _]. inversion W; congruence.
      * rewrite IH by assumption. split.
        -- intros [W S]. split; [constructor; assumption | apply s_later; exact S].
        -- intros [W S]. inversion W; subst. inversion S; subst; [congruence|]. split; assumption.
Qed.

(* the boolean used by the NDS checker is Pareto domination *)
Lemma pdomb_spec a b : length a = length b -> Forall ok a -> Forall ok b -> (pdomb a b = true <-> pdom a b).
Proof. intros Hl Ha Hb. unfold pdomb. rewrite Z.eqb_eq. now apply rel_loop_zero_dom. Qed.

(* ---- pymoo get_relation = constraint domination ---- *)
Definition cdom (fa fb : list N) (cva cvb : N) : Prop :=
  ltb N cva cvb = true \/ (ltb N cva cvb = false /\ ltb N cvb cva = false /\ pdom fa fb).

Lemma rel_loop_sym a : forall b v, Forall ok a -> Forall ok b ->
  rel_loop (N := N) b a (- v) = (- rel_loop a b v)%Z.
Proof.
  induction a as [|x a IH]; intros [|y b] v Ha Hb; cbn; try reflexivity.
  inversion Ha as [|? ? Hx Ha']; inversion Hb as [|? ? Hy Hb']; subst.
  destruct (ltb N x y) eqn:E1.
  - rewrite (lt_asym L x y Hx Hy E1).
    destruct (Z.eqb v (-1)) eqn:Ev.
    + apply Z.eqb_eq in Ev. subst. reflexivity.
    + assert (Hn : Z.eqb (- v) 1 = false) by (apply Z.eqb_neq; apply Z.eqb_neq in Ev; lia). rewrite Hn.
      apply (IH b 1%Z); assumption.
  - destruct (ltb N y x) eqn:E2.
    + destruct (Z.eqb v 1) eqn:Ev.
      * apply Z.eqb_eq in Ev. subst. reflexivity.
      * assert (Hn : Z.eqb (- v) (-1) = false) by (apply Z.eqb_neq; apply Z.eqb_neq in Ev; lia). rewrite Hn.
        apply (IH b (-1)%Z); assumption.
    + apply IH; assumption.
Qed.

Lemma get_relation_spec fa fb cva cvb :
  length fa = length fb -> Forall ok fa -> Forall ok fb -> ok cva -> ok cvb ->
  (get_relation fa fb cva cvb = 1%Z <-> cdom fa fb cva cvb) /\
  (get_relation fa fb cva cvb = (-1)%Z <-> cdom fb fa cvb cva).
Proof.
  intros Hl Ha Hb Hca Hcb. unfold get_relation, cdom.
  destruct (ltb N cva cvb) eqn:E1.
  - rewrite (lt_asym L _ _ Hca Hcb E1). split; split; try discriminate; intuition congruence.
  - destruct (ltb N cvb cva) eqn:E2.
    + split; split; try discriminate; intuition congruence.
    + split.
      * rewrite (rel_loop_zero_dom fa fb) by assumption. intuition congruence.
      * pose proof (rel_loop_sym fa fb 0%Z Ha Hb) as Hs. cbn in Hs.
        rewrite <- (rel_loop_zero_dom fb fa) by (auto; congruence). rewrite Hs. split.
        -- intro H. right. repeat split; auto. lia.
        -- intros [H|(_ & _ & H)]; [discriminate|lia].
Qed.
End D.
