From Coq Require Import List Bool Arith ZArith Lia.
From PV Require Import Base.Num Base.ListX Model.Dominance.
Import ListNotations.

Section D.
Context {N : num} {ok : N -> Prop} (L : ord_laws N ok).

Lemma rel_loop_one_keeps a : forall b, length a = length b -> Forall ok a -> Forall ok b ->
  (rel_loop a b 1 = 1%Z <-> weakly a b).
Proof.
  induction a as [|x a IH]; intros [|y b] Hlen Ha Hb; try discriminate.
  - cbn. split; [constructor | reflexivity].
  - inversion Ha as [|? ? Hx Ha']; inversion Hb as [|? ? Hy Hb']; subst. injection Hlen as Hlen. cbn [rel_loop].
    destruct (ltb N x y) eqn:Exy.
    + cbn. rewrite IH by assumption. split.
      * intro W. constructor; [|exact W]. exact (lt_asym L x y Hx Hy Exy).
      * intro W. inversion W; assumption.
    + destruct (ltb N y x) eqn:Eyx.
      * cbn. split; [discriminate|]. intro W. inversion W; congruence.
      * rewrite IH by assumption. split.
        -- intro W. constructor; assumption.
        -- intro W. inversion W; assumption.
Qed.

Lemma rel_loop_neg_stays a : forall b, rel_loop (N := N) a b (-1) <> 1%Z.
Proof.
  induction a as [|x a IH]; intros [|y b]; cbn; try discriminate.
  destruct (ltb N x y); cbn; [discriminate|]. destruct (ltb N y x); cbn; apply IH.
Qed.

Lemma rel_loop_zero_dom a : forall b, length a = length b -> Forall ok a -> Forall ok b ->
  (rel_loop a b 0 = 1%Z <-> pdom a b).
Proof.
  induction a as [|x a IH]; intros [|y b] Hlen Ha Hb; try discriminate.
  - cbn. split; [discriminate|]. intros [_ S]. inversion S.
  - inversion Ha as [|? ? Hx Ha']; inversion Hb as [|? ? Hy Hb']; subst. injection Hlen as Hlen. cbn [rel_loop].
    destruct (ltb N x y) eqn:Exy.
    + cbn. rewrite (rel_loop_one_keeps a b) by assumption. split.
      * intro W. split; [constructor; [|exact W] | constructor; assumption]. exact (lt_asym L x y Hx Hy Exy).
      * intros [W _]. inversion W; assumption.
    + destruct (ltb N y x) eqn:Eyx.
      * cbn. split.
        -- intro Hr. exfalso. exact (rel_loop_neg_stays a b Hr).
        -- intros [W _]. inversion W; congruence.
      * rewrite IH by assumption. split.
        -- intros [W S]. split; [constructor; assumption | apply s_later; exact S].
        -- intros [W S]. inversion W; subst. inversion S; subst; [congruence|]. split; assumption.
Qed.

(* the boolean used by the NDS checker is Pareto domination *)
Lemma pdomb_spec a b : length a = length b -> Forall ok a -> Forall ok b -> (pdomb a b = true <-> pdom a b).
Proof. intros Hl Ha Hb. unfold pdomb. rewrite Z.eqb_eq. now apply rel_loop_zero_dom. Qed.

(* ---- pymoo get_relation = constraint domination ---- *)
Definition cdom (fa fb : list N) (cva cvb : N) : Prop :=
  ltb N cva cvb = true \/ (ltb N cva cvb = false /\ ltb N cvb cva = false /\ pdom fa fb).

Lemma rel_loop_sym a : forall b v, Forall ok a -> Forall ok b ->
  rel_loop (N := N) b a (- v) = (- rel_loop a b v)%Z.
Proof.
  induction a as [|x a IH]; intros [|y b] v Ha Hb; cbn; try reflexivity.
  inversion Ha as [|? ? Hx Ha']; inversion Hb as [|? ? Hy Hb']; subst.
  destruct (ltb N x y) eqn:E1.
  - rewrite (lt_asym L x y Hx Hy E1).
    destruct (Z.eqb v (-1)) eqn:Ev.
    + apply Z.eqb_eq in Ev. subst. reflexivity.
    + assert (Hn : Z.eqb (- v) 1 = false) by (apply Z.eqb_neq; apply Z.eqb_neq in Ev; lia). rewrite Hn.
      apply (IH b 1%Z); assumption.
  - destruct (ltb N y x) eqn:E2.
    + destruct (Z.eqb v 1) eqn:Ev.
      * apply Z.eqb_eq in Ev. subst. reflexivity.
      * assert (Hn : Z.eqb (- v) (-1) = false) by (apply Z.eqb_neq; apply Z.eqb_neq in Ev; lia). rewrite Hn.
        apply (IH b (-1)%Z); assumption.
    + apply IH; assumption.
Qed.

Lemma get_relation_spec fa fb cva cvb :
  length fa = length fb -> Forall ok fa -> Forall ok fb -> ok cva -> ok cvb ->
  (get_relation fa fb cva cvb = 1%Z <-> cdom fa fb cva cvb) /\
  (get_relation fa fb cva cvb = (-1)%Z <-> cdom fb fa cvb cva).
Proof.
  intros Hl Ha Hb Hca Hcb. unfold get_relation, cdom.
  destruct (ltb N cva cvb) eqn:E1.
  - rewrite (lt_asym L _ _ Hca Hcb E1). split; split; try discriminate; intuition congruence.
  - destruct (ltb N cvb cva) eqn:E2.
    + split; split; try discriminate; intuition congruence.
    + split.
      * rewrite (rel_loop_zero_dom fa fb) by assumption. intuition congruence.
      * pose proof (rel_loop_sym fa fb 0%Z Ha Hb) as Hs. cbn in Hs.
        rewrite <- (rel_loop_zero_dom fb fa) by (auto; congruence). rewrite Hs. split.
        -- intro H. right. repeat split; auto. lia.
        -- intros [H|(_ & _ & H)]; [discriminate|lia].
Qed.
End D.

(* ---------- Pareto domination is a strict partial order (on vectors of values satisfying the order laws) ---------- *)
Section Order.
Context {N : num} {ok : N -> Prop} (L : ord_laws N ok).

Lemma weakly_trans a b : weakly (N := N) a b -> forall c, Forall ok a -> Forall ok b -> Forall ok c ->
  weakly b c -> weakly a c.
Proof.
  induction 1 as [|x y a b Hxy Hw IH]; intros c Ha Hb Hc H2; inversion H2 as [|? z ? c' Hyz Hw2]; subst; constructor.
  - pose proof (Forall_inv Ha) as Ox. pose proof (Forall_inv Hb) as Oy. pose proof (Forall_inv Hc) as Oz. cbn beta in *.
    destruct (ltb N z x) eqn:E; [|reflexivity].
    destruct (lt_cotrans _ _ L z y x Oz Oy Ox E) as [Hq|Hq]; congruence.
  - apply IH; [exact (Forall_inv_tail Ha)|exact (Forall_inv_tail Hb)|exact (Forall_inv_tail Hc)|exact Hw2].
Qed.

Lemma weakly_length a b : weakly (N := N) a b -> length a = length b.
Proof. induction 1; cbn; auto. Qed.

(* a < b somewhere, b <= c everywhere  =>  a < c somewhere *)
Lemma strictly_weakly_trans a b : strictly_somewhere (N := N) a b -> forall c, Forall ok a -> Forall ok b -> Forall ok c ->
  weakly b c -> strictly_somewhere a c.
Proof.
  induction 1 as [x y a b Hlt Hlen|x y a b Hs IH]; intros c Ha Hb Hc H2; inversion H2 as [|? z ? c' Hyz Hw2]; subst.
  - pose proof (Forall_inv Ha) as Ox. pose proof (Forall_inv Hb) as Oy. pose proof (Forall_inv Hc) as Oz. cbn beta in *.
    constructor.
    + destruct (lt_cotrans _ _ L x z y Ox Oz Oy Hlt) as [Hq|Hq]; [exact Hq|congruence].
    + rewrite Hlen. exact (weakly_length _ _ Hw2).
  - apply s_later. apply IH; [exact (Forall_inv_tail Ha)|exact (Forall_inv_tail Hb)|exact (Forall_inv_tail Hc)|exact Hw2].
Qed.

Lemma pdom_trans a b c : Forall ok a -> Forall ok b -> Forall ok c -> pdom a b -> pdom b c -> pdom (N := N) a c.
Proof.
  intros Ha Hb Hc [W1 S1] [W2 S2]. split; [exact (weakly_trans a b W1 c Ha Hb Hc W2)|exact (strictly_weakly_trans a b S1 c Ha Hb Hc W2)].
Qed.

Lemma pdom_irrefl a : Forall ok a -> ~ pdom (N := N) a a.
Proof.
  intros Ha [_ S]. induction a as [|x a IH]; inversion S; subst.
  - inversion Ha; subst. rewrite (lt_irrefl _ _ L x) in * by assumption. discriminate.
  - inversion Ha; subst. auto.
Qed.
End Order.
