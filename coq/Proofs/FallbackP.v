(* C13 for the pure-Python engines (misc/mnn.py, misc/pruning_cd.py) in exact arithmetic with IEEE special values:
   one value per point, each non-negative or +inf (never NaN, never -inf), +inf at a holder of the minimum and of the
   maximum of every objective - for every finite front, every n_remove. *)
From Coq Require Import List Bool Arith ZArith Lia QArith Lqa Permutation Sorted.
From PV Require Import Base.Num Base.NumEQ Base.Res Base.ListX Model.Crowding Model.Fallback Proofs.CrowdingP Proofs.CdP.
Import ListNotations.
Local Open Scope nat_scope.
Local Arguments qsign : simpl never.

(* ---------- finite non-negative values ---------- *)
Definition finnn (e : eq) : Prop := exists q, e = Fin q /\ (0 <= q)%Q.
Definition isfinb (e : eq) : bool := match e with Fin _ => true | _ => false end.
Definition nfin (l : list eq) : nat := length (filter isfinb l).

Lemma finnn_good e : finnn e -> good e. Proof. intro H. now right. Qed.
Lemma finnn_isfin e : finnn e -> isfin e. Proof. intros (q & -> & _). now exists q. Qed.
Lemma good_inv e : good e -> e = PInf \/ finnn e. Proof. intros [H|H]; [now left|now right]. Qed.

Lemma finnn_mul a b : finnn a -> finnn b -> finnn (emul a b).
Proof.
  intros (x & -> & Hx) (y & -> & Hy). exists (x * y)%Q. split; [reflexivity|]. now apply Qmult_le_0_compat.
Qed.

Lemma finnn_add a b : finnn a -> finnn b -> finnn (eadd a b).
Proof. intros (x & -> & Hx) (y & -> & Hy). exists (x + y)%Q. split; [reflexivity|lra]. Qed.

Lemma prod_lr_finnn l : Forall finnn l -> finnn (prod_lr (X := E) l).
Proof.
  intros H. destruct l as [|x t]; cbn.
  - exists 1%Q. split; [reflexivity|lra].
  - inversion H as [|? ? Hx Ht]; subst. clear H. revert x Hx. induction Ht as [|y t Hy Ht IH]; intros x Hx; cbn; [exact Hx|].
    apply IH. now apply finnn_mul.
Qed.

(* ---------- the partition emulation: insertion sort by '<' ---------- *)
Definition shape (l : list eq) : Prop := exists a b, l = a ++ b /\ Forall finnn a /\ Forall (fun e => e = PInf) b.

Lemma ins_pinf l : ins_val (X := E) PInf l = l ++ [PInf].
Proof. induction l as [|h t IH]; cbn; [reflexivity|]. destruct h; cbn; now rewrite IH. Qed.

Lemma ins_fin_shape q a : forall b, (0 <= q)%Q -> Forall finnn a -> Forall (fun e => e = PInf) b ->
  shape (ins_val (X := E) (Fin q) (a ++ b)).
Proof.
  induction a as [|h a IH]; intros b Hq Ha Hb.
  - cbn [app]. destruct b as [|e b]; cbn.
    + exists [Fin q], []. repeat split; [constructor; [now exists q|constructor]|constructor].
    + inversion Hb as [|? ? He Hb']; subst. cbn. exists [Fin q], (PInf :: b). repeat split; [|assumption].
      constructor; [now exists q|constructor].
  - inversion Ha as [|? ? Hh Ha']; subst. cbn [app ins_val]. destruct (ltb (base E) (Fin q) h) eqn:Elt.
    + exists (Fin q :: h :: a), b. repeat split; [|assumption]. constructor; [now exists q|assumption].
    + destruct (IH b Hq Ha' Hb) as (a2 & b2 & Heq & Ha2 & Hb2). rewrite Heq.
      exists (h :: a2), b2. repeat split; [|assumption]. now constructor.
Qed.

Lemma ins_shape x l : good x -> shape l -> shape (ins_val (X := E) x l).
Proof.
  intros Hx (a & b & -> & Ha & Hb). destruct (good_inv _ Hx) as [->|(q & -> & Hq)].
  - rewrite ins_pinf. exists a, (b ++ [PInf]). rewrite app_assoc. repeat split; [assumption|].
    apply Forall_app. split; [assumption|]. now constructor.
  - now apply ins_fin_shape.
Qed.

Lemma ins_val_perm x l : Permutation (ins_val (X := E) x l) (x :: l).
Proof.
  induction l as [|h t IH]; cbn; [reflexivity|]. destruct (eltb x h); [reflexivity|].
  rewrite IH. apply perm_swap.
Qed.

Lemma sort_fold_shape l : forall acc, Forall good l -> shape acc ->
  shape (fold_left (fun a x => ins_val (X := E) x a) l acc).
Proof.
  induction l as [|x t IH]; intros acc Hl Hacc; cbn; [exact Hacc|].
  inversion Hl; subst. apply IH; [assumption|]. now apply ins_shape.
Qed.

Lemma sort_fold_perm l : forall acc, Permutation (fold_left (fun a x => ins_val (X := E) x a) l acc) (acc ++ l).
Proof.
  induction l as [|x t IH]; intros acc; cbn; [now rewrite app_nil_r|].
  rewrite IH. rewrite ins_val_perm. cbn [app]. apply Permutation_middle.
Qed.

Lemma nfin_perm l l' : Permutation l l' -> nfin l = nfin l'.
Proof.
  intro H. unfold nfin.
  induction H as [|x l l' H IH|x y l|l l' l'' H1 IH1 H2 IH2]; cbn;
    [reflexivity | destruct (isfinb x); cbn; congruence | destruct (isfinb x), (isfinb y); reflexivity | congruence].
Qed.

Lemma nfin_shape a b : Forall finnn a -> Forall (fun e => e = PInf) b -> nfin (a ++ b) = length a.
Proof.
  intros Ha Hb. unfold nfin. rewrite filter_app, app_length.
  assert (Hfa : filter isfinb a = a).
  { clear Hb. induction Ha as [|x a (q & -> & _) Ha IH]; cbn; [reflexivity|]. now rewrite IH. }
  assert (Hfb : filter isfinb b = []).
  { clear Ha Hfa. induction Hb as [|x b -> Hb IH]; cbn; [reflexivity|]. exact IH. }
  rewrite Hfa, Hfb. cbn. lia.
Qed.

Lemma mnn_row_finnn M row : Forall good row -> M + 1 <= nfin row -> finnn (mnn_row (X := E) M row).
Proof.
  intros Hg Hn. unfold mnn_row, sort_vals.
  assert (Hs : shape (fold_left (fun a x => ins_val (X := E) x a) row [])).
  { apply sort_fold_shape; [assumption|]. exists [], []. repeat split; constructor. }
  pose proof (sort_fold_perm row []) as Hp. cbn [app] in Hp. apply nfin_perm in Hp.
  destruct Hs as (a & b & Heq & Ha & Hb). rewrite Heq in *. rewrite (nfin_shape a b Ha Hb) in Hp.
  destruct a as [|x a']; [cbn in Hp; lia|]. cbn [app tl]. cbn [length] in Hp.
  rewrite firstn_app. replace (M - length a') with 0 by lia. cbn [firstn]. rewrite app_nil_r.
  apply prod_lr_finnn. apply Forall_firstn. now inversion Ha.
Qed.

(* ---------- rows of the distance matrix: finite in the columns still present, +inf in the removed ones ---------- *)
Definition memb (j : nat) (H : list nat) : bool := existsb (Nat.eqb j) H.
Definition cell (H : list nat) (j : nat) (e : eq) : Prop := if memb j H then finnn e else e = PInf.
Definition rowinv (n : nat) (H : list nat) (row : list eq) : Prop := Forall2 (cell H) (seq 0 n) row.
Definition without (k : nat) (H : list nat) : list nat := filter (fun i => negb (i =? k)) H.

Lemma memb_In j H : memb j H = true <-> In j H.
Proof.
  unfold memb. rewrite existsb_exists. split.
  - intros (x & Hx & He). apply Nat.eqb_eq in He. now subst.
  - intro Hj. exists j. split; [assumption|apply Nat.eqb_refl].
Qed.

Lemma memb_without j k H : memb j (without k H) = memb j H && negb (j =? k).
Proof.
  destruct (memb j (without k H)) eqn:E1.
  - apply memb_In in E1. apply filter_In in E1. destruct E1 as [Hin Hne]. symmetry. apply andb_true_iff. split; [now apply memb_In|assumption].
  - symmetry. destruct (memb j H) eqn:E2; [|reflexivity]. destruct (j =? k) eqn:E3; [reflexivity|]. exfalso.
    apply memb_In in E2. assert (In j (without k H)) by (apply filter_In; split; [assumption|now rewrite E3]).
    apply memb_In in H0. congruence.
Qed.

Lemma cells_good H js row : Forall2 (cell H) js row -> Forall good row.
Proof.
  induction 1 as [|j e js row Hc _ IH]; constructor; [|exact IH].
  unfold cell in Hc. destruct (memb j H); [now apply finnn_good|now left].
Qed.

Lemma cells_nfin H js row : Forall2 (cell H) js row -> nfin row = length (filter (fun j => memb j H) js).
Proof.
  unfold nfin. induction 1 as [|j e js row Hc _ IH]; cbn; [reflexivity|].
  unfold cell in Hc. destruct (memb j H).
  - destruct Hc as (q & -> & _). cbn. now rewrite IH.
  - subst e. cbn. exact IH.
Qed.

Lemma memb_count n H : NoDup H -> (forall i, In i H -> i < n) -> length (filter (fun j => memb j H) (seq 0 n)) = length H.
Proof.
  intros Hnd Hlt. apply Permutation_length. apply NoDup_Permutation; [apply NoDup_filter, seq_NoDup|assumption|].
  intro x. rewrite filter_In, in_seq, memb_In. split; [tauto|]. intro Hx. specialize (Hlt x Hx). repeat split; [lia|lia|assumption].
Qed.

Lemma cells_weaken H k js row : ~ In k js -> Forall2 (cell H) js row -> Forall2 (cell (without k H)) js row.
Proof.
  intros Hk HF. induction HF as [|j e js row Hc _ IH]; constructor.
  - unfold cell in *. rewrite memb_without. assert (j <> k) by (intro; subst; apply Hk; now left).
    apply Nat.eqb_neq in H0. rewrite H0. cbn. now rewrite andb_true_r.
  - apply IH. intro Hin. apply Hk. now right.
Qed.

Lemma cells_set H n : forall s row k, Forall2 (cell H) (seq s n) row ->
  Forall2 (cell (without (s + k) H)) (seq s n) (set_nth k PInf row).
Proof.
  induction n as [|n IH]; intros s row k HF; cbn [seq] in *.
  - inversion HF; subst. destruct k; constructor.
  - inversion HF as [|j e js row' Hc HF']; subst. destruct k as [|k]; cbn [set_nth].
    + rewrite Nat.add_0_r. constructor.
      * unfold cell. rewrite memb_without, Nat.eqb_refl. cbn. now rewrite andb_false_r.
      * apply cells_weaken; [|assumption]. rewrite in_seq. lia.
    + constructor.
      * unfold cell in *. rewrite memb_without. assert (Hne : s =? s + S k = false) by (apply Nat.eqb_neq; lia).
        rewrite Hne. cbn. now rewrite andb_true_r.
      * replace (s + S k) with (S s + k) by lia. now apply IH.
Qed.

Lemma rowinv_set n H k row : rowinv n H row -> rowinv n (without k H) (set_nth k PInf row).
Proof. intro HF. apply (cells_set H n 0 row k HF). Qed.

Lemma Forall2_impl_In {A B} (R R' : A -> B -> Prop) js row :
  (forall j e, In j js -> R j e -> R' j e) -> Forall2 R js row -> Forall2 R' js row.
Proof.
  intros Himp HF. induction HF as [|j e js row Hr _ IH]; constructor.
  - apply Himp; [now left|assumption].
  - apply IH. intros j' e' Hin. apply Himp. now right.
Qed.

Lemma Forall2_of_Forall_r {A B} (P : B -> Prop) (row : list B) : Forall P row ->
  forall js : list A, length js = length row -> Forall2 (fun _ e => P e) js row.
Proof.
  induction 1 as [|e row He _ IH]; intros js Hl; destruct js; cbn in Hl; try discriminate; constructor; [assumption|].
  apply IH. congruence.
Qed.

Lemma rowinv_full n row : length row = n -> Forall finnn row -> rowinv n (seq 0 n) row.
Proof.
  intros Hl Hf. unfold rowinv.
  apply (Forall2_impl_In (fun _ e => finnn e)).
  - intros j e Hin He. unfold cell. apply memb_In in Hin. now rewrite Hin.
  - apply Forall2_of_Forall_r; [assumption|]. rewrite seq_length. congruence.
Qed.

(* ---------- np.argmin / np.argmax of a column ---------- *)
Section ArgFirst.
Variable better : eq -> eq -> bool.
Hypothesis b_irrefl : forall x, isfin x -> better x x = false.
Hypothesis b_trans : forall x y z, isfin x -> isfin y -> isfin z -> better x y = true -> better y z = true -> better x z = true.

Lemma arg_first_range l : forall i bi bv, bi < i -> arg_first (X := E) better l i bi bv < i + length l.
Proof.
  induction l as [|x t IH]; intros i bi bv Hb; cbn [arg_first length]; [lia|].
  destruct (better x bv).
  - specialize (IH (S i) i x). lia.
  - specialize (IH (S i) bi bv). lia.
Qed.

Lemma arg_first_best l : forall pre i bi bv, length pre = i -> bi < i -> nth bi (pre ++ l) ENaN = bv ->
  Forall isfin (pre ++ l) -> (forall y, In y pre -> better y bv = false) ->
  forall y, In y (pre ++ l) -> better y (nth (arg_first (X := E) better l i bi bv) (pre ++ l) ENaN) = false.
Proof.
  induction l as [|x t IH]; intros pre i bi bv Hlen Hbi Hnth Hfin Hpre y Hy; cbn [arg_first].
  - rewrite app_nil_r in *. rewrite Hnth. now apply Hpre.
  - assert (Hx : isfin x) by (rewrite Forall_forall in Hfin; apply Hfin; apply in_or_app; right; now left).
    assert (Hbv : isfin bv).
    { subst bv. rewrite Forall_forall in Hfin. apply Hfin. apply nth_In. rewrite app_length. cbn. lia. }
    assert (Heq : pre ++ x :: t = (pre ++ [x]) ++ t) by (now rewrite <- app_assoc).
    destruct (better x bv) eqn:Eb.
    + rewrite Heq in *. apply (IH (pre ++ [x]) (S i) i x); try assumption.
      * rewrite app_length. cbn. lia.
      * lia.
      * rewrite <- app_assoc. cbn. rewrite app_nth2 by lia. replace (i - length pre) with 0 by lia. reflexivity.
      * intros z Hz. apply in_app_or in Hz. destruct Hz as [Hz|[<-|[]]]; [|now apply b_irrefl].
        destruct (better z x) eqn:Ez; [|reflexivity].
        assert (Hzf : isfin z). { rewrite Forall_forall in Hfin. apply Hfin. rewrite <- app_assoc. apply in_or_app. now left. }
        rewrite <- (Hpre z Hz). symmetry. now apply (b_trans z x bv).
    + rewrite Heq in *. apply (IH (pre ++ [x]) (S i) bi bv); try assumption.
      * rewrite app_length. cbn. lia.
      * lia.
      * intros z Hz. apply in_app_or in Hz. destruct Hz as [Hz|[<-|[]]]; [now apply Hpre|exact Eb].
Qed.
End ArgFirst.

Lemma argmin_lt (c : list eq) : c <> [] -> argmin (X := E) c < length c.
Proof. destruct c as [|x t]; [congruence|]. intros _. cbn [argmin length]. apply (arg_first_range _ t 1 0 x). lia. Qed.
Lemma argmax_lt (c : list eq) : c <> [] -> argmax (X := E) c < length c.
Proof. destruct c as [|x t]; [congruence|]. intros _. cbn [argmax length]. apply (arg_first_range _ t 1 0 x). lia. Qed.

Lemma argmin_is_min (c : list eq) : Forall isfin c -> forall y, In y c -> eltb y (nth (argmin (X := E) c) c ENaN) = false.
Proof.
  intros Hf y Hy. destruct c as [|x t]; [destruct Hy|]. cbn [argmin].
  apply (arg_first_best eltb (lt_irrefl _ _ EQn_ord) (lt_trans _ _ EQn_ord) t [x] 1 0 x); cbn; auto.
  intros z [<-|[]]. apply (lt_irrefl _ _ EQn_ord). now inversion Hf.
Qed.
Lemma argmax_is_max (c : list eq) : Forall isfin c -> forall y, In y c -> eltb (nth (argmax (X := E) c) c ENaN) y = false.
Proof.
  intros Hf y Hy. destruct c as [|x t]; [destruct Hy|]. cbn [argmax].
  apply (arg_first_best (fun a b => eltb b a)) with (pre := [x]) (i := 1) (bi := 0) (bv := x); cbn; auto.
  - intros z Hz. now apply (lt_irrefl _ _ EQn_ord).
  - intros a b d Ha Hb Hd H1 H2. now apply (lt_trans _ _ EQn_ord d b a).
  - intros z [<-|[]]. apply (lt_irrefl _ _ EQn_ord). now inversion Hf.
Qed.

(* ---------- normalisation with the zero guard, squared distances ---------- *)
Definition nzfin (d : eq) : Prop := exists q, d = Fin q /\ ~ (q == 0)%Q.

Lemma esub_fin a b : isfin a -> isfin b -> isfin (esub a b).
Proof. intros [x ->] [y ->]. cbn. now eexists. Qed.

Lemma ediv_fin_nz a d : isfin a -> nzfin d -> isfin (ediv a d).
Proof.
  intros [x ->] (y & -> & Hy). cbn. destruct (qsign y) eqn:Es; try (now eexists).
  exfalso. apply Hy. unfold qsign in Es. apply Qeq_alt in Es. now symmetry.
Qed.

Lemma guard_nz a b : isfin a -> isfin b ->
  nzfin (let d := esub a b in if true && eeqb d (Fin 0) then Fin 1 else d).
Proof.
  intros [x ->] [y ->]. cbn. destruct (Qeq_bool (x + - y) 0) eqn:Eq.
  - exists 1%Q. split; [reflexivity|]. intro H. discriminate H.
  - exists (x + - y)%Q. split; [reflexivity|]. now apply Qeq_bool_neq.
Qed.

Lemma map3_Forall {A B C D} (P : D -> Prop) (f : A -> B -> C -> D) (PA : A -> Prop) (PB : B -> Prop) (PC : C -> Prop) a :
  (forall x y z, PA x -> PB y -> PC z -> P (f x y z)) -> forall b c, Forall PA a -> Forall PB b -> Forall PC c -> Forall P (map3 f a b c).
Proof.
  intros H. induction a as [|x a IH]; intros b c Ha Hb Hc; destruct b, c; cbn; try constructor.
  - apply H; [exact (Forall_inv Ha)|exact (Forall_inv Hb)|exact (Forall_inv Hc)].
  - apply IH; [exact (Forall_inv_tail Ha)|exact (Forall_inv_tail Hb)|exact (Forall_inv_tail Hc)].
Qed.

Lemma finnn_sq a b : isfin a -> isfin b -> finnn (emul (esub a b) (esub a b)).
Proof.
  intros [x ->] [y ->]. cbn. exists ((x + - y) * (x + - y))%Q. split; [reflexivity|].
  generalize (x + - y)%Q. intro z. nra.
Qed.

Lemma sqdist_finnn a : forall b, Forall isfin a -> Forall isfin b -> finnn (sqdist (X := E) a b).
Proof.
  unfold sqdist. intros b Ha Hb.
  assert (G : forall l acc, Forall (fun p : eq * eq => isfin (fst p) /\ isfin (snd p)) l -> finnn acc ->
              finnn (fold_left (fun acc p => eadd acc (emul (esub (fst p) (snd p)) (esub (fst p) (snd p)))) l acc)).
  { induction l as [|p l IH]; intros acc Hl Hacc; cbn; [assumption|].
    apply IH; [exact (Forall_inv_tail Hl)|]. destruct (Forall_inv Hl). apply finnn_add; [assumption|now apply finnn_sq]. }
  apply G.
  - apply Forall_forall. intros [x y] Hin. cbn. rewrite Forall_forall in Ha, Hb. split; [apply Ha|apply Hb].
    + eapply in_combine_l; eassumption.
    + eapply in_combine_r; eassumption.
  - exists 0%Q. split; [reflexivity|lra].
Qed.

Lemma normalize_fin F m : fin_matrix F m -> F <> [] -> length (hd [] F) = m ->
  Forall (Forall isfin) (normalize (X := E) true F) /\ length (normalize (X := E) true F) = length F.
Proof.
  intros HF Hne Hhd. unfold normalize. change (T (base E)) with eq in *. rewrite Hhd. split; [|apply map_length].
  set (cols := map (col (X := E) F) (seq 0 m)).
  assert (Hcols : Forall (fun c => Forall isfin c /\ c <> []) cols).
  { apply Forall_forall. intros c Hc. apply in_map_iff in Hc as (j & <- & Hj). apply in_seq in Hj.
    destruct (col_fin F m j HF ltac:(lia)) as [Hcf Hcl]. split; [assumption|].
    intro Hnil. rewrite Hnil in Hcl. cbn in Hcl. destruct F; [congruence|discriminate]. }
  assert (Hmins : Forall isfin (map (fun c => nth (argmin (X := E) c) c ENaN) cols)).
  { apply Forall_forall. intros y Hy. apply in_map_iff in Hy as (c & <- & Hc). rewrite Forall_forall in Hcols.
    destruct (Hcols c Hc) as [Hcf Hcn]. rewrite Forall_forall in Hcf. apply Hcf. apply nth_In. now apply argmin_lt. }
  assert (Hmaxs : Forall isfin (map (fun c => nth (argmax (X := E) c) c ENaN) cols)).
  { apply Forall_forall. intros y Hy. apply in_map_iff in Hy as (c & <- & Hc). rewrite Forall_forall in Hcols.
    destruct (Hcols c Hc) as [Hcf Hcn]. rewrite Forall_forall in Hcf. apply Hcf. apply nth_In. now apply argmax_lt. }
  apply Forall_forall. intros r Hr. apply in_map_iff in Hr as (r0 & <- & Hr0).
  unfold fin_matrix in HF. rewrite Forall_forall in HF. destruct (HF r0 Hr0) as [_ Hr0f].
  apply (map3_Forall isfin _ isfin isfin nzfin); try assumption.
  - intros x mn dn Hx Hmn Hdn. apply ediv_fin_nz; [now apply esub_fin|assumption].
  - apply (Forall_map2 nzfin _ isfin isfin); try assumption. intros a b Ha Hb. now apply guard_nz.
Qed.

(* ---------- the pruning loop of misc/mnn.py ---------- *)
Lemma nth_set_nth_pinf (d : list eq) : forall i j, nth i d ENaN = PInf -> nth i (set_nth j PInf d) ENaN = PInf.
Proof.
  induction d as [|h t IH]; intros i j Hi; destruct j; cbn; try assumption.
  - destruct i; [reflexivity|exact Hi].
  - destruct i; [exact Hi|]. apply IH. exact Hi.
Qed.

Lemma set_inf_length ext : forall d : list eq, length (set_inf (X := E) ext d) = length d.
Proof. induction ext as [|e ext IH]; intro d; cbn; [reflexivity|]. unfold set_inf in *. cbn. rewrite IH. apply set_nth_length. Qed.

Lemma set_inf_good ext : forall d, Forall good d -> Forall good (set_inf (X := E) ext d).
Proof.
  induction ext as [|e ext IH]; intros d Hd; cbn; [assumption|]. unfold set_inf in *. cbn. apply IH.
  apply set_nth_Forall; [now left|assumption].
Qed.

Lemma set_inf_keep ext : forall d i, nth i d ENaN = PInf -> nth i (set_inf (X := E) ext d) ENaN = PInf.
Proof.
  induction ext as [|e ext IH]; intros d i Hi; cbn; [assumption|]. unfold set_inf in *. cbn. apply IH. now apply nth_set_nth_pinf.
Qed.

Lemma set_inf_pinf ext : forall d i, In i ext -> i < length d -> nth i (set_inf (X := E) ext d) ENaN = PInf.
Proof.
  induction ext as [|e ext IH]; intros d i Hin Hlt; [destruct Hin|]. unfold set_inf in *. cbn [fold_left]. destruct Hin as [->|Hin].
  - apply (set_inf_keep ext). rewrite nth_set_nth by assumption. now rewrite Nat.eqb_refl.
  - apply IH; [assumption|]. now rewrite set_nth_length.
Qed.

Lemma drop_first_min_In (d : list eq) H : H <> [] -> In (drop_first_min (X := E) d H) H.
Proof.
  destruct H as [|h t]; [congruence|]. intros _. unfold drop_first_min.
  assert (G : forall l k, In (fold_left (fun k i => if ltb (base E) (nth i d ENaN) (nth k d ENaN) then i else k) l k) (k :: l)).
  { induction l as [|x l IH]; intro k; cbn [fold_left]; [now left|].
    destruct (ltb (base E) (nth x d ENaN) (nth k d ENaN)).
    - right. apply IH.
    - destruct (IH k) as [Hk|Hk]; [now left|right; now right]. }
  apply G.
Qed.

Lemma without_length k H : NoDup H -> In k H -> S (length (without k H)) = length H.
Proof.
  induction 1 as [|x H Hx Hnd IH]; intro Hin; [destruct Hin|]. unfold without in *. cbn [filter].
  destruct (x =? k) eqn:Exk; cbn [negb].
  - apply Nat.eqb_eq in Exk. subst x. cbn [length]. f_equal.
    assert (Hall : forall y, In y H -> negb (y =? k) = true).
    { intros y Hy. apply negb_true_iff. apply Nat.eqb_neq. intro. subst. contradiction. }
    clear -Hall. induction H as [|y H IH]; cbn; [reflexivity|]. rewrite (Hall y (or_introl eq_refl)). cbn. f_equal.
    apply IH. intros z Hz. apply Hall. now right.
  - cbn [length]. f_equal. apply IH. destruct Hin as [->|Hin]; [|assumption]. rewrite Nat.eqb_refl in Exk. discriminate.
Qed.

Lemma fold_write_good (g : nat -> eq) l : forall acc, (forall i, In i l -> good (g i)) -> Forall good acc ->
  Forall good (fold_left (fun acc i => set_nth i (g i) acc) l acc) /\
  length (fold_left (fun acc i => set_nth i (g i) acc) l acc) = length acc.
Proof.
  induction l as [|x l IH]; intros acc Hg Ha; cbn [fold_left]; [split; [assumption|reflexivity]|].
  destruct (IH (set_nth x (g x) acc)) as [H1 H2].
  - intros i Hi. apply Hg. now right.
  - apply set_nth_Forall; [apply Hg; now left|assumption].
  - split; [assumption|]. rewrite H2. apply set_nth_length.
Qed.

Lemma mnn_loop_inv n M ext fuel : forall D d H,
  NoDup H -> (forall i, In i H -> i < n) -> fuel + M + 1 <= length H ->
  length D = n -> Forall (rowinv n H) D -> length d = n -> Forall good d ->
  (forall i, In i ext -> i < n -> nth i d ENaN = PInf) ->
  let r := mnn_loop (X := E) fuel M ext D d H in
  length r = n /\ Forall good r /\ (forall i, In i ext -> i < n -> nth i r ENaN = PInf).
Proof.
  induction fuel as [|fuel IH]; intros D d H Hnd Hlt Hlen HD Hrows Hd Hg Hext; cbn [mnn_loop]; [auto|]. cbv zeta.
  set (k := drop_first_min (X := E) d H).
  assert (Hk : In k H). { apply drop_first_min_In. destruct H; [cbn in Hlen; lia|discriminate]. }
  change (filter (fun i => negb (i =? k)) H) with (without k H).
  pose proof (without_length k H Hnd Hk) as Hwl.
  set (D' := map (fun row => set_nth k (pinf E) row) D).
  assert (HD' : length D' = n) by (unfold D'; now rewrite map_length).
  assert (Hrows' : Forall (rowinv n (without k H)) D').
  { unfold D'. apply Forall_forall. intros row Hr. apply in_map_iff in Hr as (r0 & <- & Hr0).
    rewrite Forall_forall in Hrows. apply rowinv_set. now apply Hrows. }
  assert (Hnd' : NoDup (without k H)) by (now apply NoDup_filter).
  assert (Hlt' : forall i, In i (without k H) -> i < n) by (intros i Hi; apply filter_In in Hi; apply Hlt; tauto).
  destruct (fold_write_good (fun i => mnn_row (X := E) M (nth i D' [])) (without k H) d) as [Hg' Hl'].
  - intros i Hi. apply finnn_good. pose proof (Hlt' i Hi) as Hin.
    assert (Hrow : rowinv n (without k H) (nth i D' [])).
    { rewrite Forall_forall in Hrows'. apply Hrows'. apply nth_In. lia. }
    apply mnn_row_finnn; [exact (cells_good _ _ _ Hrow)|].
    rewrite (cells_nfin _ _ _ Hrow), (memb_count n _ Hnd' Hlt'). lia.
  - assumption.
  - apply IH; try assumption.
    + lia.
    + rewrite set_inf_length. etransitivity; [exact Hl'|exact Hd].
    + now apply set_inf_good.
    + intros i Hi Hin. apply set_inf_pinf; [assumption|]. rewrite <- Hd in Hin. rewrite <- Hl' in Hin. exact Hin.
Qed.

Lemma clamp_remove_le nr n m : clamp_remove nr n m <= n - m.
Proof. unfold clamp_remove. destruct (Z.leb_spec nr (Z.of_nat n - Z.of_nat m)); [destruct (Z.ltb_spec nr 0)|]; lia. Qed.

Lemma extremes_in F m j : length (hd [] F) = m -> j < m ->
  In (argmin (X := E) (col (X := E) F j)) (extremes_of (X := E) F) /\ In (argmax (X := E) (col (X := E) F j)) (extremes_of (X := E) F).
Proof.
  intros Hm Hj. unfold extremes_of. change (T (base E)) with eq in *. rewrite Hm. split; apply in_or_app; [left|right];
    apply in_map; apply in_map; apply in_seq; lia.
Qed.

Lemma extremes_range F m : fin_matrix F m -> F <> [] -> length (hd [] F) = m -> forall i, In i (extremes_of (X := E) F) -> i < length F.
Proof.
  intros HF Hne Hm i Hi. unfold extremes_of in Hi. change (T (base E)) with eq in *. rewrite Hm in Hi.
  assert (Hc : forall j, j < m -> col (X := E) F j <> [] /\ length (col (X := E) F j) = length F).
  { intros j Hj. destruct (col_fin F m j HF Hj) as [_ Hl]. split; [|assumption]. intro Hn. rewrite Hn in Hl. destruct F; [congruence|discriminate]. }
  apply in_app_or in Hi. destruct Hi as [Hi|Hi]; apply in_map_iff in Hi as (c & <- & Hc'); apply in_map_iff in Hc' as (j & <- & Hj);
    apply in_seq in Hj; destruct (Hc j ltac:(lia)) as [Hn Hl]; rewrite <- Hl; [now apply argmin_lt|now apply argmax_lt].
Qed.

Theorem fallback_mnn_spec twonn F m nr : fin_matrix F m -> 2 <= m -> length (hd [] F) = m ->
  let d := fallback_mnn (X := E) twonn F nr in
  length d = length F /\ Forall good d /\
  forall i, In i (extremes_of (X := E) F) -> nth i d ENaN = PInf.
Proof.
  intros HF Hm Hhd. assert (Hne : F <> []) by (intro Hx; rewrite Hx in Hhd; cbn in Hhd; lia).
  unfold fallback_mnn. change (T (base E)) with eq in *. rewrite Hhd.
  set (n := length F). set (M := if twonn then 2 else m).
  assert (HM : M <= m) by (unfold M; destruct twonn; lia).
  pose proof (extremes_range F m HF Hne Hhd) as Hrange. fold n in Hrange.
  destruct (n <=? M) eqn:EnM; cbv zeta.
  - rewrite repeat_length. repeat split; [|].
    + apply Forall_forall. intros x Hx. apply repeat_spec in Hx. subst. now left.
    + intros i Hi. apply nth_repeat_lt. now apply Hrange.
  - apply Nat.leb_gt in EnM. pose proof (clamp_remove_le nr n m) as Hnr.
    destruct (normalize_fin F m HF Hne Hhd) as [HXf HXl]. set (Xn := normalize (X := E) true F) in *. fold n in HXl.
    set (D := map (fun a => map (fun b => sqdist (X := E) a b) Xn) Xn).
    assert (HDl : length D = n) by (unfold D; now rewrite map_length).
    assert (HDr : Forall (rowinv n (seq 0 n)) D).
    { unfold D. apply Forall_forall. intros row Hr. apply in_map_iff in Hr as (a & <- & Ha). apply rowinv_full; [now rewrite map_length|].
      rewrite Forall_forall in HXf. apply Forall_forall. intros y Hy. apply in_map_iff in Hy as (b & <- & Hb).
      apply sqdist_finnn; auto. }
    assert (Hnd : NoDup (seq 0 n)) by apply seq_NoDup.
    assert (Hlt : forall i, In i (seq 0 n) -> i < n) by (intros i Hi; apply in_seq in Hi; lia).
    assert (Hd0g : Forall good (map (mnn_row (X := E) M) D)).
    { apply Forall_forall. intros y Hy. apply in_map_iff in Hy as (row & <- & Hr). rewrite Forall_forall in HDr. pose proof (HDr row Hr) as Hrow.
      apply finnn_good. apply mnn_row_finnn; [exact (cells_good _ _ _ Hrow)|].
      rewrite (cells_nfin _ _ _ Hrow), (memb_count n _ Hnd Hlt), seq_length. lia. }
    destruct (mnn_loop_inv n M (extremes_of (X := E) F) (clamp_remove nr n m - 1) D
                (set_inf (X := E) (extremes_of (X := E) F) (map (mnn_row (X := E) M) D)) (seq 0 n)) as (H1 & H2 & H3); try assumption.
    + rewrite seq_length. lia.
    + rewrite set_inf_length, map_length. exact HDl.
    + now apply set_inf_good.
    + intros i Hi Hin. apply set_inf_pinf; [assumption|]. rewrite map_length, HDl. exact Hin.
    + repeat split; [exact H1|exact H2|]. intros i Hi. apply H3; [assumption|now apply Hrange].
Qed.

(* ================= misc/pruning_cd.py ================= *)
Local Open Scope Q_scope.
Lemma pstep_low qa b : (b = NInf \/ exists qb, b = Fin qb /\ qb <= qa) -> good (nan0e (esub (Fin qa) b)).
Proof.
  intros [->|(qb & -> & Hle)]; unfold nan0e, nan0; cbn; [now left|]. right. exists (qa + - qb). split; [reflexivity|lra].
Qed.
Lemma pstep_up qa b : (b = PInf \/ exists qb, b = Fin qb /\ qa <= qb) -> good (nan0e (esub b (Fin qa))).
Proof.
  intros [->|(qb & -> & Hle)]; unfold nan0e, nan0; cbn; [now left|]. right. exists (qb + - qa). split; [reflexivity|lra].
Qed.
Local Open Scope nat_scope.

Lemma plower_good : forall s p, Forall isfin s -> StronglySorted fle s ->
  (p = NInf \/ (isfin p /\ Forall (fle p) s)) ->
  Forall good (map2 (fun a b => nan0e (esub a b)) s (p :: s)).
Proof.
  induction s as [|a s IH]; intros p Hf Hs Hp; cbn [map2]; [constructor|].
  pose proof (Forall_inv Hf) as Ha. pose proof (Forall_inv_tail Hf) as Hf'. cbn beta in Ha.
  inversion Hs as [|? ? Hs' Hall]; subst. destruct Ha as [qa ->]. constructor.
  - apply pstep_low. destruct Hp as [->|[Hpf Hpl]]; [now left|right].
    destruct (fle_fin p (Fin qa) Hpf (ex_intro _ qa eq_refl) (Forall_inv Hpl)) as (qp & qa' & -> & E & Hle).
    inversion E; subst. exists qp. auto.
  - apply IH; [assumption|assumption|]. right. split; [now exists qa|assumption].
Qed.

Lemma pupper_good : forall s, Forall isfin s -> StronglySorted fle s ->
  Forall good (map2 (fun a b => nan0e (esub b a)) s (tl s ++ [PInf])).
Proof.
  induction s as [|a s IH]; intros Hf Hs; cbn [map2 tl app]; [constructor|].
  pose proof (Forall_inv Hf) as Ha. pose proof (Forall_inv_tail Hf) as Hf'. cbn beta in Ha.
  inversion Hs as [|? ? Hs' Hall]; subst. destruct Ha as [qa ->].
  destruct s as [|a' s'].
  - cbn [map2 tl app]. constructor; [|constructor]. apply pstep_up. now left.
  - cbn [app map2 tl] in *. constructor.
    + apply pstep_up. right.
      destruct (fle_fin (Fin qa) a' (ex_intro _ qa eq_refl) (Forall_inv Hf') (Forall_inv Hall)) as (q1 & q2 & E & -> & Hle).
      inversion E; subst. exists q2. auto.
    + exact (IH Hf' Hs').
Qed.

Lemma nan_col_low s : Forall (fun e => e = ENaN) s -> forall prev, Forall good (map2 (fun a b => nan0e (esub a b)) s prev).
Proof.
  induction 1 as [|a s -> _ IH]; intros prev; destruct prev; cbn [map2]; constructor; [|apply IH].
  unfold nan0e, nan0. cbn. apply good_zero.
Qed.
Lemma nan_col_up s : Forall (fun e => e = ENaN) s -> forall next, Forall good (map2 (fun a b => nan0e (esub b a)) s next).
Proof.
  induction 1 as [|a s -> _ IH]; intros next; destruct next as [|b next]; cbn [map2]; constructor; [|apply IH].
  unfold nan0e, nan0. destruct b; cbn; apply good_zero.
Qed.

Lemma pcd_col_good v : Forall isfin v \/ Forall (fun e => e = ENaN) v -> Forall good (pcd_col (X := E) v).
Proof.
  intros Hv. unfold pcd_col. apply scatter_good.
  apply (Forall_map2 good (add (base E)) good good); [intros x y; apply good_add| |].
  - destruct Hv as [Hv|Hv].
    + pose proof (sorted_map_key v _ (argsort_sorted v Hv)) as Hs.
      pose proof (keys_fin v _ Hv (argsort_range v)) as Hf.
      exact (plower_good _ NInf Hf Hs (or_introl eq_refl)).
    + apply nan_col_low. apply Forall_forall. intros y Hy. apply in_map_iff in Hy as (i & <- & Hi).
      pose proof (argsort_range v) as Hr. rewrite Forall_forall in Hr, Hv. apply Hv. apply nth_In. now apply Hr.
  - destruct Hv as [Hv|Hv].
    + pose proof (sorted_map_key v _ (argsort_sorted v Hv)) as Hs.
      pose proof (keys_fin v _ Hv (argsort_range v)) as Hf.
      exact (pupper_good _ Hf Hs).
    + apply nan_col_up. apply Forall_forall. intros y Hy. apply in_map_iff in Hy as (i & <- & Hi).
      pose proof (argsort_range v) as Hr. rewrite Forall_forall in Hr, Hv. apply Hv. apply nth_In. now apply Hr.
Qed.

Lemma pcd_col_length v : length (pcd_col (X := E) v) = length v.
Proof. unfold pcd_col. apply scatter_length. Qed.

Lemma nth_map_seq {A} (g : nat -> A) m j d : j < m -> nth j (map g (seq 0 m)) d = g j.
Proof. intro Hj. rewrite (nth_indep _ d (g 0)) by (now rewrite map_length, seq_length). rewrite map_nth. now rewrite seq_nth. Qed.

Lemma nth_map3 {A B C D} (f : A -> B -> C -> D) a : forall b c j da db dc dd, j < length a -> j < length b -> j < length c ->
  nth j (map3 f a b c) dd = f (nth j a da) (nth j b db) (nth j c dc).
Proof.
  induction a as [|x a IH]; intros b c j da db dc dd Ha Hb Hc; [cbn in Ha; lia|].
  destruct b as [|y b]; [cbn in Hb; lia|]. destruct c as [|z c]; [cbn in Hc; lia|].
  destruct j; cbn; [reflexivity|]. apply IH; cbn in *; lia.
Qed.

Lemma nth_map2 {A B C} (f : A -> B -> C) a : forall b j da db dc, j < length a -> j < length b ->
  nth j (map2 f a b) dc = f (nth j a da) (nth j b db).
Proof.
  induction a as [|x a IH]; intros b j da db dc Ha Hb; [cbn in Ha; lia|].
  destruct b as [|y b]; [cbn in Hb; lia|]. destruct j; cbn; [reflexivity|]. apply IH; cbn in *; lia.
Qed.

(* a column of the unguarded normalisation is finite, or entirely NaN when the objective is constant *)
Lemma normalize_false_cols F m : fin_matrix F m -> F <> [] -> length (hd [] F) = m ->
  length (normalize (X := E) false F) = length F /\
  forall j, j < m -> (forall r, In r (normalize (X := E) false F) -> isfin (nth j r ENaN)) \/
                     (forall r, In r (normalize (X := E) false F) -> nth j r ENaN = ENaN).
Proof.
  intros HF Hne Hhd. unfold normalize. change (T (base E)) with eq in *. rewrite Hhd. split; [apply map_length|].
  intros j Hj. rewrite !map_map.
  set (mins := map (fun x => nth (argmin (X := E) (col (X := E) F x)) (col (X := E) F x) ENaN) (seq 0 m)).
  set (maxs := map (fun x => nth (argmax (X := E) (col (X := E) F x)) (col (X := E) F x) ENaN) (seq 0 m)).
  destruct (col_fin F m j HF Hj) as [Hcf Hcl]. set (c := col (X := E) F j) in *.
  assert (Hcn : c <> []). { intro Hn. rewrite Hn in Hcl. destruct F; [congruence|discriminate]. }
  assert (Emin : nth j mins ENaN = nth (argmin (X := E) c) c ENaN) by (unfold mins; now rewrite nth_map_seq).
  assert (Emax : nth j maxs ENaN = nth (argmax (X := E) c) c ENaN) by (unfold maxs; now rewrite nth_map_seq).
  assert (Hmn : isfin (nth (argmin (X := E) c) c ENaN)). { rewrite Forall_forall in Hcf. apply Hcf, nth_In. now apply argmin_lt. }
  assert (Hmx : isfin (nth (argmax (X := E) c) c ENaN)). { rewrite Forall_forall in Hcf. apply Hcf, nth_In. now apply argmax_lt. }
  destruct Hmn as [qmn Eqmn]. destruct Hmx as [qmx Eqmx].
  assert (Hlm : length mins = m) by (unfold mins; now rewrite map_length, seq_length).
  assert (HlM : length maxs = m) by (unfold maxs; now rewrite map_length, seq_length).
  set (dens := map2 (fun a b => let d := sub (base E) a b in if false && eqb (base E) d (zero (base E)) then one (base E) else d) maxs mins).
  assert (Hld : length dens = m) by (unfold dens; rewrite map2_length; lia).
  assert (Eden : nth j dens ENaN = Fin (qmx + - qmn)).
  { unfold dens. rewrite (nth_map2 _ maxs mins j ENaN ENaN ENaN) by lia. rewrite Emin, Emax, Eqmn, Eqmx. reflexivity. }
  assert (Hval : forall r0, In r0 F -> nth j (map3 (fun x mn dn => div (base E) (sub (base E) x mn) dn) r0 mins dens) ENaN =
                                     ediv (esub (nth j r0 ENaN) (Fin qmn)) (Fin (qmx + - qmn)) /\ isfin (nth j r0 ENaN) /\ In (nth j r0 ENaN) c).
  { intros r0 Hr0. unfold fin_matrix in HF. rewrite Forall_forall in HF. destruct (HF r0 Hr0) as [Hl0 Hf0]. repeat split.
    - rewrite (nth_map3 _ r0 mins dens j ENaN ENaN ENaN ENaN) by lia. rewrite Emin, Eden, Eqmn. reflexivity.
    - rewrite Forall_forall in Hf0. apply Hf0, nth_In. lia.
    - unfold c, col. apply in_map_iff. now exists r0. }
  destruct (Qeq_bool (qmx + - qmn) 0) eqn:Ez.
  - right. intros r Hr. apply in_map_iff in Hr as (r0 & <- & Hr0). destruct (Hval r0 Hr0) as (Hv & [qx Ex] & Hin). rewrite Ex in *.
    refine (eq_trans Hv _).
    apply Qeq_bool_iff in Ez.
    pose proof (argmin_is_min c Hcf _ Hin) as H1. pose proof (argmax_is_max c Hcf _ Hin) as H2. change (T (base E)) with eq in *. rewrite Eqmn in H1. rewrite Eqmx in H2.
    cbn in H1, H2. apply negb_false_iff in H1, H2. apply Qle_bool_iff in H1, H2.
    cbn. assert (E1 : qsign (qmx + - qmn) = Eq) by (unfold qsign; apply Qeq_alt; lra). rewrite E1.
    assert (E2 : qsign (qx + - qmn) = Eq) by (unfold qsign; apply Qeq_alt; lra). now rewrite E2.
  - left. intros r Hr. apply in_map_iff in Hr as (r0 & <- & Hr0). destruct (Hval r0 Hr0) as (Hv & [qx Ex] & Hin). rewrite Ex in Hv.
    assert (Hg : isfin (ediv (esub (Fin qx) (Fin qmn)) (Fin (qmx + - qmn)))).
    { apply ediv_fin_nz; [now eexists|]. exists (qmx + - qmn)%Q. split; [reflexivity|]. now apply Qeq_bool_neq. }
    destruct Hg as [q Hq]. exists q. exact (eq_trans Hv Hq).
Qed.

Definition colprop (Xn : list (list eq)) (m : nat) : Prop :=
  forall j, j < m -> (forall r, In r Xn -> isfin (nth j r ENaN)) \/ (forall r, In r Xn -> nth j r ENaN = ENaN).

Lemma pcd_eval_good Xn m H : length (hd [] Xn) = m -> colprop Xn m -> (forall i, In i H -> i < length Xn) ->
  Forall good (pcd_eval (X := E) Xn H) /\ length (pcd_eval (X := E) Xn H) = length H.
Proof.
  intros Hm Hcp HH. unfold pcd_eval. change (T (base E)) with eq in *. rewrite Hm. split.
  2:{ rewrite map_length. unfold rows_of. now rewrite map_length, seq_length. }
  apply Forall_forall. intros y Hy. apply in_map_iff in Hy as (row & <- & Hrow).
  unfold rows_of in Hrow. apply in_map_iff in Hrow as (i & <- & Hi). apply in_seq in Hi.
  apply sum_lr_good. apply Forall_forall. intros z Hz. apply in_map_iff in Hz as (c & <- & Hc).
  apply in_map_iff in Hc as (j & <- & Hj). apply in_seq in Hj.
  set (XH := map (fun i0 => nth i0 Xn []) H).
  assert (HXH : forall r, In r XH -> In r Xn).
  { intros r Hr. apply in_map_iff in Hr as (i0 & <- & Hi0). apply nth_In. now apply HH. }
  assert (Hcol : Forall isfin (col (X := E) XH j) \/ Forall (fun e => e = ENaN) (col (X := E) XH j)).
  { destruct (Hcp j ltac:(lia)) as [Hf|Hn]; [left|right]; apply Forall_forall; intros e He; unfold col in He;
      apply in_map_iff in He as (r & <- & Hr); [apply Hf|apply Hn]; now apply HXH. }
  pose proof (pcd_col_good _ Hcol) as Hg. rewrite Forall_forall in Hg. apply Hg. apply nth_In.
  rewrite pcd_col_length. unfold col. rewrite map_length. unfold XH. rewrite map_length. lia.
Qed.

Lemma fold_pairs_good (l : list (nat * eq)) : forall acc, Forall (fun p => good (snd p)) l -> Forall good acc ->
  Forall good (fold_left (fun acc p => set_nth (fst p) (snd p) acc) l acc) /\
  length (fold_left (fun acc p => set_nth (fst p) (snd p) acc) l acc) = length acc.
Proof.
  induction l as [|p l IH]; intros acc Hl Ha; cbn [fold_left]; [split; [assumption|reflexivity]|].
  destruct (IH (set_nth (fst p) (snd p) acc)) as [H1 H2]; [exact (Forall_inv_tail Hl)|apply set_nth_Forall; [exact (Forall_inv Hl)|assumption]|].
  split; [assumption|]. rewrite H2. apply set_nth_length.
Qed.

Lemma pcd_loop_inv Xn m ext fuel : length (hd [] Xn) = m -> colprop Xn m -> forall d H,
  (forall i, In i H -> i < length Xn) -> length d = length Xn -> Forall good d ->
  (forall i, In i ext -> i < length Xn -> nth i d ENaN = PInf) ->
  let r := pcd_loop (X := E) fuel ext Xn d H in
  length r = length Xn /\ Forall good r /\ (forall i, In i ext -> i < length Xn -> nth i r ENaN = PInf).
Proof.
  intros Hm Hcp. induction fuel as [|fuel IH]; intros d H HH Hd Hg Hext; cbn [pcd_loop]; [auto|]. cbv zeta.
  set (k := drop_first_min (X := E) d H). change (filter (fun i => negb (i =? k)) H) with (without k H).
  assert (HH' : forall i, In i (without k H) -> i < length Xn) by (intros i Hi; apply filter_In in Hi; apply HH; tauto).
  destruct (pcd_eval_good Xn m (without k H) Hm Hcp HH') as [Hpg Hpl].
  destruct (fold_pairs_good (combine (without k H) (pcd_eval (X := E) Xn (without k H))) d) as [Hg' Hl'].
  - apply Forall_forall. intros [i x] Hin. cbn. apply in_combine_r in Hin. rewrite Forall_forall in Hpg. now apply Hpg.
  - assumption.
  - apply IH; try assumption.
    + rewrite set_inf_length. etransitivity; [exact Hl'|exact Hd].
    + now apply set_inf_good.
    + intros i Hi Hin. apply set_inf_pinf; [assumption|]. rewrite <- Hd in Hin. rewrite <- Hl' in Hin. exact Hin.
Qed.

Lemma normalize_hd_length g F m : fin_matrix F m -> F <> [] -> length (hd [] F) = m -> length (hd [] (normalize (X := E) g F)) = m.
Proof.
  intros HF Hne Hhd. destruct F as [|r0 F']; [congruence|]. unfold normalize. cbn [hd map] in *. change (T (base E)) with eq in *.
  rewrite Hhd. rewrite map3_length, map2_length, !map_length, seq_length. lia.
Qed.

Theorem fallback_pcd_spec F m nr : fin_matrix F m -> 1 <= m -> length (hd [] F) = m ->
  let d := fallback_pcd (X := E) F nr in
  length d = length F /\ Forall good d /\
  forall i, In i (extremes_of (X := E) F) -> nth i d ENaN = PInf.
Proof.
  intros HF Hm Hhd. assert (Hne : F <> []) by (intro Hx; rewrite Hx in Hhd; cbn in Hhd; lia).
  unfold fallback_pcd. change (T (base E)) with eq in *. rewrite Hhd. cbv zeta.
  destruct (normalize_false_cols F m HF Hne Hhd) as [HXl Hcp]. pose proof (normalize_hd_length false F m HF Hne Hhd) as HXm.
  set (Xn := normalize (X := E) false F) in *. set (n := length F) in *.
  pose proof (extremes_range F m HF Hne Hhd) as Hrange. fold n in Hrange. set (ext := extremes_of (X := E) F) in *.
  assert (Hseq : forall i, In i (seq 0 n) -> i < length Xn) by (intros i Hi; apply in_seq in Hi; lia).
  destruct (pcd_eval_good Xn m (seq 0 n) HXm Hcp Hseq) as [Hg0 Hl0]. rewrite seq_length in Hl0.
  destruct (pcd_loop_inv Xn m ext (clamp_remove nr n m - 1) HXm Hcp (set_inf (X := E) ext (pcd_eval (X := E) Xn (seq 0 n))) (seq 0 n))
    as (H1 & H2 & H3); try assumption.
  - rewrite set_inf_length. etransitivity; [exact Hl0|symmetry; exact HXl].
  - now apply set_inf_good.
  - intros i Hi Hin. apply set_inf_pinf; [assumption|].
    assert (Hl0' : length (pcd_eval (X := E) Xn (seq 0 n)) = length Xn) by (etransitivity; [exact Hl0|symmetry; exact HXl]).
    exact (eq_ind_r (fun z => i < z) Hin Hl0').
  - assert (Hpos : (0 < inject_Z (Z.of_nat m))%Q) by (unfold Qlt; cbn; lia).
    rewrite map_length. repeat split.
    + etransitivity; [exact H1|exact HXl].
    + apply Forall_forall. intros y Hy. apply in_map_iff in Hy as (x & <- & Hx). rewrite Forall_forall in H2.
      apply (good_div_pos x _ (H2 x Hx) Hpos).
    + intros i Hi. pose proof (Hrange i Hi) as Hin.
      rewrite (nth_indep _ ENaN (ediv ENaN (Fin (inject_Z (Z.of_nat m))))) by (rewrite map_length; exact (eq_ind_r (fun z => i < z) Hin (eq_trans H1 HXl))).
      rewrite (map_nth (fun x => ediv x (Fin (inject_Z (Z.of_nat m))))). rewrite H3; [|assumption|exact (eq_ind_r (fun z => i < z) Hin HXl)].
      cbn. now rewrite (qsign_pos _ Hpos).
Qed.

(* ---------- the statements of C13 for the pure-Python engines ---------- *)
Definition holds_min (c : list eq) (a : nat) : Prop := a < length c /\ forall y, In y c -> eltb y (nth a c ENaN) = false.
Definition holds_max (c : list eq) (b : nat) : Prop := b < length c /\ forall y, In y c -> eltb (nth b c ENaN) y = false.

Lemma extremes_hold F m j : fin_matrix F m -> F <> [] -> j < m ->
  holds_min (col (X := E) F j) (argmin (X := E) (col (X := E) F j)) /\ holds_max (col (X := E) F j) (argmax (X := E) (col (X := E) F j)).
Proof.
  intros HF Hne Hj. destruct (col_fin F m j HF Hj) as [Hcf Hcl].
  assert (Hcn : col (X := E) F j <> []). { intro Hn. rewrite Hn in Hcl. destruct F; [congruence|discriminate]. }
  split; split; [now apply argmin_lt|now apply argmin_is_min|now apply argmax_lt|now apply argmax_is_max].
Qed.

Theorem fallback_mnn_extremes twonn F m nr j : fin_matrix F m -> 2 <= m -> length (hd [] F) = m -> j < m ->
  exists a b, holds_min (col (X := E) F j) a /\ holds_max (col (X := E) F j) b /\
              nth a (fallback_mnn (X := E) twonn F nr) ENaN = PInf /\ nth b (fallback_mnn (X := E) twonn F nr) ENaN = PInf.
Proof.
  intros HF Hm Hhd Hj. assert (Hne : F <> []) by (intro Hx; rewrite Hx in Hhd; cbn in Hhd; lia).
  destruct (fallback_mnn_spec twonn F m nr HF Hm Hhd) as (_ & _ & H3).
  destruct (extremes_hold F m j HF Hne Hj) as [Ha Hb]. destruct (extremes_in F m j Hhd Hj) as [Ia Ib].
  exists (argmin (X := E) (col (X := E) F j)), (argmax (X := E) (col (X := E) F j)). auto.
Qed.

Theorem fallback_pcd_extremes F m nr j : fin_matrix F m -> 1 <= m -> length (hd [] F) = m -> j < m ->
  exists a b, holds_min (col (X := E) F j) a /\ holds_max (col (X := E) F j) b /\
              nth a (fallback_pcd (X := E) F nr) ENaN = PInf /\ nth b (fallback_pcd (X := E) F nr) ENaN = PInf.
Proof.
  intros HF Hm Hhd Hj. assert (Hne : F <> []) by (intro Hx; rewrite Hx in Hhd; cbn in Hhd; lia).
  destruct (fallback_pcd_spec F m nr HF Hm Hhd) as (_ & _ & H3).
  destruct (extremes_hold F m j HF Hne Hj) as [Ha Hb]. destruct (extremes_in F m j Hhd Hj) as [Ia Ib].
  exists (argmin (X := E) (col (X := E) F j)), (argmax (X := E) (col (X := E) F j)). auto.
Qed.

Theorem fallback_mnn_wellformed twonn F m nr : fin_matrix F m -> 2 <= m -> length (hd [] F) = m ->
  length (fallback_mnn (X := E) twonn F nr) = length F /\ Forall good (fallback_mnn (X := E) twonn F nr).
Proof. intros HF Hm Hhd. destruct (fallback_mnn_spec twonn F m nr HF Hm Hhd) as (H1 & H2 & _). auto. Qed.

Theorem fallback_pcd_wellformed F m nr : fin_matrix F m -> 1 <= m -> length (hd [] F) = m ->
  length (fallback_pcd (X := E) F nr) = length F /\ Forall good (fallback_pcd (X := E) F nr).
Proof. intros HF Hm Hhd. destruct (fallback_pcd_spec F m nr HF Hm Hhd) as (H1 & H2 & _). auto. Qed.
