(* C19, the probability step in counting form: among ALL sequences of L draws from {0..n-1} (equally likely under i.i.d. uniform
   draws), the number of sequences whose FIRST admissible element is a is the same for every admissible a - for every L, every n and
   every admissibility predicate.  Hence, conditionally on a hit within L draws, the parent delivered by the rejection loop
   (SelectHitP: the first admissible draw of the row's own history) is uniform over the admissible individuals. *)
From Coq Require Import List Arith Bool Lia.
Import ListNotations.

Section FirstHit.
Variable n : nat.
Variable adm : nat -> bool.

Fixpoint seqs (L : nat) : list (list nat) :=
  match L with
  | 0 => [[]]
  | S L' => flat_map (fun x => map (cons x) (seqs L')) (seq 0 n)
  end.

Definition first_hit (s : list nat) : option nat := find adm s.

Definition hit_is (a : nat) (s : list nat) : bool :=
  match first_hit s with Some x => x =? a | None => false end.

Definition no_hit (s : list nat) : bool :=
  match first_hit s with Some _ => false | None => true end.

Definition count {A} (p : A -> bool) (l : list A) : nat := length (filter p l).

Definition nonadm : nat := count (fun x => negb (adm x)) (seq 0 n).

Lemma seqs_length L : length (seqs L) = n ^ L.
Proof.
  induction L as [|L IH]; [reflexivity|].
  cbn [seqs]. 
  assert (H : forall xs, length (flat_map (fun x => map (cons x) (seqs L)) xs) = length xs * n ^ L).
  { induction xs as [|x xs IHx]; [reflexivity|].
    cbn [flat_map]. rewrite app_length, map_length, IH, IHx. cbn [length]. lia. }
  rewrite H, seq_length. cbn [Nat.pow]. lia.
Qed.

Lemma seqs_spec L s : In s (seqs L) <-> length s = L /\ Forall (fun x => x < n) s.
Proof.
  revert s; induction L as [|L IH]; intros s.
  - cbn [seqs]. split.
    + intros [<-|[]]. split; [reflexivity|constructor].
    + intros [Hl _]. destruct s; [left; reflexivity|discriminate].
  - cbn [seqs]. rewrite in_flat_map. split.
    + intros [x [Hx Hs]]. apply in_map_iff in Hs. destruct Hs as [t [<- Ht]].
      apply IH in Ht. destruct Ht as [Hl Hf]. apply in_seq in Hx.
      split; [cbn; lia|constructor; [lia|exact Hf]].
    + intros [Hl Hf]. destruct s as [|x t]; [discriminate|].
      inversion Hf as [|? ? Hx Ht]; subst.
      exists x. split; [apply in_seq; lia|]. apply in_map. apply IH. split; [cbn in Hl; lia|exact Ht].
Qed.

Lemma count_app {A} (p : A -> bool) l1 l2 : count p (l1 ++ l2) = count p l1 + count p l2.
Proof. unfold count. rewrite filter_app, app_length. reflexivity. Qed.

Lemma count_flat_map {A B} (p : B -> bool) (f : A -> list B) xs :
  count p (flat_map f xs) = fold_right (fun x acc => count p (f x) + acc) 0 xs.
Proof.
  induction xs as [|x xs IH]; [reflexivity|].
  cbn [flat_map fold_right]. rewrite count_app, IH. reflexivity.
Qed.

Lemma count_map_cons (p : list nat -> bool) x S :
  count p (map (cons x) S) = count (fun s => p (x :: s)) S.
Proof.
  unfold count. induction S as [|s S IH]; [reflexivity|].
  cbn [map filter]. destruct (p (x :: s)); cbn [length]; rewrite IH; reflexivity.
Qed.

Lemma count_ext {A} (p q : A -> bool) l : (forall x, p x = q x) -> count p l = count q l.
Proof. intros H. unfold count. rewrite (filter_ext _ _ H). reflexivity. Qed.

Lemma count_false {A} (l : list A) : count (fun _ => false) l = 0.
Proof. unfold count. induction l; [reflexivity|exact IHl]. Qed.

Lemma count_true {A} (l : list A) : count (fun _ => true) l = length l.
Proof. unfold count. induction l; [reflexivity|cbn; f_equal; exact IHl]. Qed.

(* one more draw in front *)
Lemma hit_is_cons a x s : hit_is a (x :: s) = if adm x then x =? a else hit_is a s.
Proof. unfold hit_is, first_hit. cbn [find]. destruct (adm x); reflexivity. Qed.

Lemma no_hit_cons x s : no_hit (x :: s) = if adm x then false else no_hit s.
Proof. unfold no_hit, first_hit. cbn [find]. destruct (adm x); reflexivity. Qed.

Lemma sum_indicator a K xs : NoDup xs ->
  fold_right (fun x acc => (if adm x then (if x =? a then K else 0) else 0) + acc) 0 xs
  = if existsb (fun x => (x =? a) && adm x) xs then K else 0.
Proof.
  induction xs as [|x xs IH]; intros Hnd; [reflexivity|].
  apply NoDup_cons_iff in Hnd. destruct Hnd as [Hnin Hnd].
  cbn [fold_right existsb]. rewrite (IH Hnd).
  destruct (x =? a) eqn:E.
  - apply Nat.eqb_eq in E. subst x.
    assert (Hex : existsb (fun x => (x =? a) && adm x) xs = false).
    { apply not_true_is_false. intros H. apply existsb_exists in H. destruct H as [y [Hy Hya]].
      apply andb_prop in Hya. destruct Hya as [Hya _]. apply Nat.eqb_eq in Hya. subst y. exact (Hnin Hy). }
    rewrite Hex. destruct (adm a); cbn; lia.
  - cbn [andb orb]. destruct (adm x); cbn; lia.
Qed.

Lemma sum_nonadm C xs :
  fold_right (fun x acc => (if adm x then 0 else C) + acc) 0 xs = count (fun x => negb (adm x)) xs * C.
Proof.
  unfold count. induction xs as [|x xs IH]; [reflexivity|].
  cbn [fold_right filter]. rewrite IH. destruct (adm x); cbn [negb length]; lia.
Qed.

Lemma fold_add_split (f g : nat -> nat) xs :
  fold_right (fun x acc => (f x + g x) + acc) 0 xs
  = fold_right (fun x acc => f x + acc) 0 xs + fold_right (fun x acc => g x + acc) 0 xs.
Proof. induction xs as [|x xs IH]; [reflexivity|]. cbn [fold_right]. rewrite IH. lia. Qed.

Lemma fold_ext (f g : nat -> nat) xs : (forall x, f x = g x) ->
  fold_right (fun x acc => f x + acc) 0 xs = fold_right (fun x acc => g x + acc) 0 xs.
Proof. intros H. induction xs as [|x xs IH]; [reflexivity|]. cbn [fold_right]. rewrite IH, H. reflexivity. Qed.

Definition admissible (a : nat) : bool := (a <? n) && adm a.

Lemma exists_adm a : existsb (fun x => (x =? a) && adm x) (seq 0 n) = admissible a.
Proof.
  unfold admissible. destruct (a <? n) eqn:E.
  - apply Nat.ltb_lt in E. cbn [andb]. destruct (adm a) eqn:Ea.
    + apply existsb_exists. exists a. split; [apply in_seq; lia|]. rewrite Nat.eqb_refl, Ea. reflexivity.
    + apply not_true_is_false. intros H. apply existsb_exists in H. destruct H as [y [_ Hy]].
      apply andb_prop in Hy. destruct Hy as [Hy1 Hy2]. apply Nat.eqb_eq in Hy1. subst y. congruence.
  - apply Nat.ltb_ge in E. cbn [andb]. apply not_true_is_false. intros H. apply existsb_exists in H.
    destruct H as [y [Hy Hya]]. apply in_seq in Hy. apply andb_prop in Hya. destruct Hya as [Hya _].
    apply Nat.eqb_eq in Hya. lia.
Qed.

(* the recurrence: a sequence of L+1 draws hits a first iff its head is a, or its head is inadmissible and the tail hits a first *)
Lemma count_hit_step a L :
  count (hit_is a) (seqs (S L)) = (if admissible a then n ^ L else 0) + nonadm * count (hit_is a) (seqs L).
Proof.
  cbn [seqs]. rewrite count_flat_map.
  rewrite (fold_ext _ (fun x => (if adm x then (if x =? a then n ^ L else 0) else 0)
                                 + (if adm x then 0 else count (hit_is a) (seqs L)))).
  - rewrite fold_add_split, sum_indicator by apply seq_NoDup. rewrite sum_nonadm, exists_adm. reflexivity.
  - intros x. rewrite count_map_cons.
    rewrite (count_ext _ (fun s => if adm x then x =? a else hit_is a s)) by (intros s; apply hit_is_cons).
    destruct (adm x).
    + destruct (x =? a); [rewrite count_true, seqs_length|rewrite count_false]; rewrite Nat.add_0_r; reflexivity.
    + reflexivity.
Qed.

Lemma count_no_hit_step L : count no_hit (seqs (S L)) = nonadm * count no_hit (seqs L).
Proof.
  cbn [seqs]. rewrite count_flat_map.
  rewrite (fold_ext _ (fun x => if adm x then 0 else count no_hit (seqs L))).
  - unfold nonadm. rewrite <- (sum_nonadm (count no_hit (seqs L))). reflexivity.
  - intros x. rewrite count_map_cons.
    rewrite (count_ext _ (fun s => if adm x then false else no_hit s)) by (intros s; apply no_hit_cons).
    destruct (adm x); [apply count_false|reflexivity].
Qed.

(* THE STATEMENT: equally many draw sequences deliver a as deliver b *)
Theorem first_admissible_draw_is_uniform a b L :
  admissible a = true -> admissible b = true ->
  count (hit_is a) (seqs L) = count (hit_is b) (seqs L).
Proof.
  intros Ha Hb. induction L as [|L IH]; [reflexivity|].
  rewrite !count_hit_step, Ha, Hb, IH. reflexivity.
Qed.

(* an inadmissible individual (the target, an earlier column, the fixed best, an index outside the population) is never delivered *)
Theorem inadmissible_never_delivered a L : admissible a = false -> count (hit_is a) (seqs L) = 0.
Proof.
  intros Ha. induction L as [|L IH]; [reflexivity|].
  rewrite count_hit_step, Ha, IH. lia.
Qed.

(* the loop fails to deliver within L draws on exactly nonadm^L of the n^L sequences: probability (nonadm/n)^L *)
Theorem no_hit_count L : count no_hit (seqs L) = nonadm ^ L.
Proof.
  induction L as [|L IH]; [reflexivity|].
  rewrite count_no_hit_step, IH. reflexivity.
Qed.

(* closed form: each admissible a is delivered by (n^L - nonadm^L) / (n - nonadm) sequences; stated without division *)
Theorem hit_count_closed a L : admissible a = true ->
  count (hit_is a) (seqs L) * (n - nonadm) + nonadm ^ L = n ^ L.
Proof.
  intros Ha.
  assert (Hle : nonadm <= n).
  { unfold nonadm, count. rewrite <- (seq_length n 0) at 2. generalize (seq 0 n). intros l.
    induction l as [|x l IHl]; [apply le_n|]. cbn [filter]. destruct (negb (adm x)); cbn [length]; lia. }
  induction L as [|L IH]; [cbn; lia|].
  rewrite count_hit_step, Ha. cbn [Nat.pow].
  nia.
Qed.

End FirstHit.

(* non-vacuity: population of 6, target 2 and an earlier column 4 excluded, 3 draws: each of the four admissible individuals is the
   first admissible draw of 6^3 - 2^3 = 208 sequences out of 4, i.e. 52 *)
Example first_hit_example :
  let adm := fun x => negb ((x =? 2) || (x =? 4)) in
  map (fun a => count (hit_is adm a) (seqs 6 3)) [0; 1; 2; 3; 4; 5] = [52; 52; 0; 52; 0; 52]
  /\ count (no_hit adm) (seqs 6 3) = 8.
Proof. vm_compute. split; reflexivity. Qed.

(* bridge to SelectHitP.row_hit: a history whose last element is the only admissible one has that element as its first hit *)
Lemma first_hit_of_history (bad : nat -> bool) : forall (l : list nat) (d c' : nat),
  l <> [] -> c' = last l d -> Forall (fun x => bad x = true) (removelast l) -> bad c' = false ->
  first_hit (fun x => negb (bad x)) l = Some c'.
Proof.
  induction l as [|x l IH]; intros d c' Hne Hl Hf Hc; [congruence|].
  destruct l as [|y l'].
  - cbn in Hl. subst c'. unfold first_hit. cbn [find]. rewrite Hc. reflexivity.
  - change (removelast (x :: y :: l')) with (x :: removelast (y :: l')) in Hf.
    inversion Hf as [|? ? Hx Hf']; subst.
    unfold first_hit. cbn [find]. rewrite Hx. cbn [negb].
    apply (IH d); [discriminate|reflexivity|exact Hf'|exact Hc].
Qed.
