(* C14, second sentence: the nearest-neighbour helper of spacing_neighbors.pyx (cached symmetric city-block distances,
   pruned scan) returns, for every point, the minimum city-block distance to the other points - the quantity the NumPy
   path of the spacing indicator (second smallest entry of the row of the distance matrix) computes.
   Exact arithmetic with +inf (EQx); the points are arbitrary finite rationals, duplicates included. *)
From Coq Require Import List Bool Arith ZArith Lia QArith Qabs Lqa Permutation Sorted.
From PV Require Import Base.Num Base.NumQ Base.NumEQ Base.Res Base.ListX Model.Crowding Model.Fallback Model.Spacing Proofs.SpacingP.
Import ListNotations.
Local Open Scope nat_scope.
Local Arguments qsign : simpl never.

Notation E := EQx.

(* ---------- the distance as the helper accumulates it ---------- *)
Definition cbstep (acc : Q) (p : Q * Q) : Q :=
  let d := (snd p + - fst p)%Q in if Qle_bool 0 d then (acc + d)%Q else (acc + - d)%Q.
Definition cbq (a b : list Q) : Q := fold_left cbstep (combine a b) 0%Q.

Lemma cb_fin_acc (a : list Q) : forall b acc,
  fold_left (fun acc p => let d := sub (base E) (snd p) (fst p) in
                          if leb (base E) (zero (base E)) d then add (base E) acc d else sub (base E) acc d)
            (combine (map Fin a) (map Fin b)) (Fin acc) = Fin (fold_left cbstep (combine a b) acc).
Proof.
  induction a as [|x a IH]; intros b acc; [reflexivity|]. destruct b as [|y b]; [reflexivity|].
  cbn [map combine fold_left]. unfold cbstep at 2. cbn [fst snd]. cbn. destruct (Qle_bool 0 (y + - x)); apply IH.
Qed.

Lemma cb_fin a b : cb (X := E) (map Fin a) (map Fin b) = Fin (cbq a b).
Proof. unfold cb, cbq. apply cb_fin_acc. Qed.

Lemma cbstep_abs acc p : (cbstep acc p == acc + Qabs (fst p - snd p))%Q.
Proof.
  unfold cbstep. cbn zeta. destruct (Qle_bool 0 (snd p + - fst p)) eqn:El.
  - apply Qle_bool_iff in El. rewrite <- (Qabs_opp (fst p - snd p)). rewrite Qabs_pos by lra. lra.
  - assert (H : ~ (0 <= snd p + - fst p)%Q) by (intro Hx; apply Qle_bool_iff in Hx; congruence).
    rewrite Qabs_pos by lra. lra.
Qed.

Lemma cbq_dist a b : (cbq a b == dist (X := Qx) Cityblock a b)%Q.
Proof.
  rewrite cityblock_qsum. unfold cbq.
  assert (G : forall l acc, (fold_left cbstep l acc == acc + qsum (map (fun p => Qabs (fst p - snd p)) l))%Q).
  { induction l as [|p l IH]; intro acc; cbn [fold_left map qsum]; [lra|]. rewrite IH, cbstep_abs. lra. }
  rewrite G. lra.
Qed.

Lemma cbq_nonneg a b : (0 <= cbq a b)%Q.
Proof. rewrite cbq_dist. apply cityblock_nonneg. Qed.
Lemma cbq_sym a b : (cbq a b == cbq b a)%Q.
Proof. rewrite !cbq_dist. apply cityblock_sym. Qed.

(* ---------- the cache matrix ---------- *)
Definition get (D : list (list eq)) (a b : nat) : eq := nth b (nth a D []) ENaN.
Definition wf (n : nat) (D : list (list eq)) : Prop := length D = n /\ Forall (fun r => length r = n) D.
Definition set2 (D : list (list eq)) (a b : nat) (v : eq) : list (list eq) := set_nth a (set_nth b v (nth a D [])) D.

Lemma set_nth_Forall' {A} (P : A -> Prop) n a l : P a -> Forall P l -> Forall P (set_nth n a l).
Proof.
  intros Ha. revert n. induction l as [|h t IH]; intros n Hl; destruct n; cbn; try constructor; try assumption.
  - exact (Forall_inv_tail Hl).
  - exact (Forall_inv Hl).
  - apply IH. exact (Forall_inv_tail Hl).
Qed.

Lemma wf_row n D a : wf n D -> a < n -> length (nth a D []) = n.
Proof. intros [Hl HF] Ha. rewrite Forall_forall in HF. apply HF. apply nth_In. lia. Qed.

Lemma wf_set2 n D a b v : wf n D -> a < n -> wf n (set2 D a b v).
Proof.
  intros HW Ha. pose proof (wf_row n D a HW Ha) as Hr. destruct HW as [Hl HF]. unfold set2. split; [now rewrite set_nth_length|].
  apply set_nth_Forall'; [|assumption]. now rewrite set_nth_length.
Qed.

Lemma get_set2 n D a b v a' b' : wf n D -> a < n -> b < n ->
  get (set2 D a b v) a' b' = if (a' =? a) && (b' =? b) then v else get D a' b'.
Proof.
  intros HW Ha Hb. pose proof (wf_row n D a HW Ha) as Hr. destruct HW as [Hl HF]. unfold get, set2.
  rewrite (nth_set_nth a a') by lia. destruct (a' =? a) eqn:Ea; cbn [andb]; [|reflexivity].
  apply Nat.eqb_eq in Ea. subst a'. rewrite (nth_set_nth b b') by lia. destruct (b' =? b); reflexivity.
Qed.

Section Helper.
Variable Xs : list (list Q).
Let n := length Xs.
Let Xs' : list (list eq) := map (map Fin) Xs.
Definition rowq (a : nat) : list Q := nth a Xs [].
Definition cbd (a b : nat) : Q := cbq (rowq a) (rowq b).
Definition neg1 : eq := negx E (one (base E)).

Lemma row_fin a : nth a Xs' [] = map Fin (rowq a).
Proof. unfold Xs', rowq. change (@nil eq) with (map Fin []). apply map_nth. Qed.

Definition cellok (a b : nat) (e : eq) : Prop := e = neg1 \/ exists q, e = Fin q /\ (q == cbd a b)%Q.
Definition inv (D : list (list eq)) : Prop := forall a b, a < n -> b < n -> cellok a b (get D a b).

Definition dle (di : eq) (c : Q) : Prop := match di with PInf => True | Fin q => (q <= c)%Q | _ => False end.
Definition attained (i k : nat) (di : eq) : Prop :=
  (di = PInf /\ forall j, j < k -> j = i) \/ exists j q, j < k /\ j <> i /\ di = Fin q /\ (q == cbd i j)%Q.
Definition bounded (i k : nat) (di : eq) : Prop := forall j, j < k -> j <> i -> dle di (cbd i j).

Definition IS (i k : nat) (st : list (list eq) * eq) : Prop :=
  wf n (fst st) /\ inv (fst st) /\ bounded i k (snd st) /\ attained i k (snd st).

Lemma cbd_nonneg a b : (0 <= cbd a b)%Q. Proof. apply cbq_nonneg. Qed.
Lemma cbd_sym a b : (cbd a b == cbd b a)%Q. Proof. apply cbq_sym. Qed.

(* value of the running minimum: +inf or a non-negative rational *)
Lemma attained_val i k di : attained i k di -> di = PInf \/ exists q, di = Fin q /\ (0 <= q)%Q.
Proof.
  intros [[-> _]|(j & q & _ & _ & -> & Hq)]; [now left|right]. exists q. split; [reflexivity|]. rewrite Hq. apply cbd_nonneg.
Qed.

(* taking the candidate c = d(i,j) into the running minimum *)
Lemma take_min i j di c c' : j <> i -> bounded i j di -> attained i j di -> (c == cbd i j)%Q -> c' = c ->
  let di' := if leb (base E) (Fin c) di then Fin c' else di in
  bounded i (S j) di' /\ attained i (S j) di'.
Proof.
  intros Hji Hb Ha Hc -> di'. destruct (attained_val _ _ _ Ha) as [->|(q & -> & Hq)].
  - subst di'. cbn. split.
    + intros j' Hj' Hne. cbn. destruct (Nat.eq_dec j' j) as [->|Hd]; [lra|].
      destruct Ha as [[_ Hall]|(j0 & q0 & _ & _ & Hx & _)]; [|discriminate]. exfalso. apply Hne. apply Hall. lia.
    + right. exists j, c. repeat split; auto.
  - subst di'. cbn. destruct (Qle_bool c q) eqn:El.
    + apply Qle_bool_iff in El. split.
      * intros j' Hj' Hne. cbn. destruct (Nat.eq_dec j' j) as [->|Hd]; [lra|].
        specialize (Hb j' ltac:(lia) Hne). cbn in Hb. lra.
      * right. exists j, c. repeat split; auto.
    + assert (Hlt : ~ (c <= q)%Q) by (intro Hx; apply Qle_bool_iff in Hx; congruence). split.
      * intros j' Hj' Hne. cbn. destruct (Nat.eq_dec j' j) as [->|Hd]; [lra|]. exact (Hb j' ltac:(lia) Hne).
      * destruct Ha as [[Hx _]|(j0 & q0 & Hj0 & Hne0 & Hx & Hq0)]; [discriminate|]. right. exists j0, q0. repeat split; auto.
Qed.

Lemma sp_inner_step i j st : i < n -> j < n -> IS i j st -> IS i (S j) (sp_inner (X := E) Xs' i st j).
Proof.
  intros Hi Hj (HW & HI & HB & HA). destruct st as [D di]. cbn [fst snd] in *. unfold sp_inner.
  change (nth j (nth i D []) (qnan E)) with (get D i j).
  destruct (Nat.eq_dec j i) as [->|Hji].
  - rewrite Nat.eqb_refl. cbn [negb andb]. (unfold IS; cbn [fst snd]; split; [|split; [|split]]); try assumption.
    + intros j' Hj' Hne. apply HB; [lia|assumption].
    + destruct HA as [[Hx Hall]|(j0 & q0 & Hj0 & Hne0 & Hx & Hq0)].
      * left. split; [assumption|]. intros j' Hj'. destruct (Nat.eq_dec j' i); [assumption|]. apply Hall. lia.
      * right. exists j0, q0. repeat split; auto.
  - assert (Eji : (j =? i) = false) by (now apply Nat.eqb_neq). rewrite Eji. cbn [negb andb].
    destruct (HI i j Hi Hj) as [Hc|(q0 & Hc & Hq0)]; rewrite Hc.
    + (* not yet computed *)
      assert (Hle : leb (base E) neg1 di = true).
      { destruct (attained_val _ _ _ HA) as [->|(q & -> & Hq)]; [reflexivity|]. cbn. apply Qle_bool_iff. lra. }
      rewrite Hle. assert (Hfresh : eqb (base E) neg1 (negx E (one (base E))) = true) by reflexivity. rewrite Hfresh.
      rewrite !row_fin, cb_fin. fold (cbd i j).
      destruct (take_min i j di (cbd i j) (cbd i j) Hji HB HA ltac:(reflexivity) eq_refl) as [HB' HA'].
      (unfold IS; cbn [fst snd]; split; [|split; [|split]]); try assumption.
      * assert (Heq : set_nth j (set_nth i (Fin (cbd i j)) (nth j D [])) (set_nth i (set_nth j (Fin (cbd i j)) (nth i D [])) D)
                      = set2 (set2 D i j (Fin (cbd i j))) j i (Fin (cbd i j))).
        { unfold set2 at 1. f_equal. f_equal. unfold set2. destruct HW as [Hl _]. rewrite nth_set_nth by lia. now rewrite Eji. }
        refine (eq_ind_r (wf n) _ Heq). apply wf_set2; [|assumption]. now apply wf_set2.
      * assert (Heq : set_nth j (set_nth i (Fin (cbd i j)) (nth j D [])) (set_nth i (set_nth j (Fin (cbd i j)) (nth i D [])) D)
                      = set2 (set2 D i j (Fin (cbd i j))) j i (Fin (cbd i j))).
        { unfold set2 at 1. f_equal. f_equal. unfold set2. destruct HW as [Hl _]. rewrite nth_set_nth by lia. now rewrite Eji. }
        refine (eq_ind_r inv _ Heq). intros a b Ha Hb.
        rewrite (get_set2 n _ j i _ a b (wf_set2 n D i j _ HW Hi) Hj Hi), (get_set2 n D i j _ a b HW Hi Hj).
        destruct ((a =? j) && (b =? i)) eqn:E1.
        { apply andb_true_iff in E1 as [E1a E1b]. apply Nat.eqb_eq in E1a, E1b. subst. right. exists (cbd i j). split; [reflexivity|apply cbd_sym]. }
        destruct ((a =? i) && (b =? j)) eqn:E2.
        { apply andb_true_iff in E2 as [E2a E2b]. apply Nat.eqb_eq in E2a, E2b. subst. right. exists (cbd i j). split; reflexivity. }
        now apply HI.
    + (* cached *)
      assert (Hq0' : (0 <= q0)%Q) by (rewrite Hq0; apply cbd_nonneg).
      assert (Hnf : eqb (base E) (Fin q0) (negx E (one (base E))) = false).
      { cbn. destruct (Qeq_bool q0 (- (1))) eqn:Eq; [|reflexivity]. apply Qeq_bool_iff in Eq. lra. }
      destruct (leb (base E) (Fin q0) di) eqn:Hle.
      * rewrite Hnf. destruct (take_min i j di q0 q0 Hji HB HA Hq0 eq_refl) as [HB' HA']. rewrite Hle in HB', HA'.
        (unfold IS; cbn [fst snd]; split; [|split; [|split]]); try rewrite Hle; assumption.
      * (unfold IS; cbn [fst snd]; split; [|split; [|split]]); try assumption.
        -- intros j' Hj' Hne. destruct (Nat.eq_dec j' j) as [->|Hd]; [|apply HB; [lia|assumption]].
           destruct (attained_val _ _ _ HA) as [->|(q & -> & Hq)]; [discriminate Hle|]. cbn in Hle |- *.
           assert (~ (q0 <= q)%Q) by (intro Hx; apply Qle_bool_iff in Hx; congruence). lra.
        -- destruct HA as [[Hx _]|(j0 & q1 & Hj0 & Hne0 & Hx & Hq1)]; [subst di; discriminate Hle|].
           right. exists j0, q1. repeat split; auto.
Qed.

Lemma inner_fold i D : i < n -> wf n D -> inv D -> forall k, k <= n ->
  IS i k (fold_left (sp_inner (X := E) Xs' i) (seq 0 k) (D, pinf E)).
Proof.
  intros Hi HW HI. induction k as [|k IH]; intro Hk.
  - cbn. (unfold IS; cbn [fst snd]; split; [|split; [|split]]); try assumption.
    + intros j Hj. lia.
    + left. split; [reflexivity|]. intros j Hj. lia.
  - rewrite seq_S, fold_left_app. cbn [fold_left plus]. apply sp_inner_step; [assumption|lia|]. apply IH. lia.
Qed.

Definition spec (i : nat) (di : eq) : Prop := bounded i n di /\ attained i n di.
Definition OS (k : nat) (st : list (list eq) * list eq) : Prop :=
  wf n (fst st) /\ inv (fst st) /\ length (snd st) = k /\ forall i, i < k -> spec i (nth i (snd st) ENaN).

Definition outer_step (st : list (list eq) * list eq) (i : nat) : list (list eq) * list eq :=
  let '(D, ds) := st in
  let '(D', di) := fold_left (sp_inner (X := E) Xs' i) (seq 0 n) (D, pinf E) in
  (D', ds ++ [di]).

Lemma outer_step_ok k st : k < n -> OS k st -> OS (S k) (outer_step st k).
Proof.
  intros Hk (HW & HI & Hl & Hs). destruct st as [D ds]. cbn [fst snd] in *. unfold outer_step.
  pose proof (inner_fold k D Hk HW HI n (le_n n)) as HIS.
  destruct (fold_left (sp_inner (X := E) Xs' k) (seq 0 n) (D, pinf E)) as [D' di].
  destruct HIS as (HW' & HI' & HB & HA). cbn [fst snd] in *.
  (unfold OS; cbn [fst snd]; split; [|split; [|split]]); try assumption.
  - rewrite app_length. cbn. lia.
  - intros i Hi. destruct (Nat.eq_dec i k) as [->|Hne].
    + rewrite app_nth2 by lia. replace (k - length ds) with 0 by lia. cbn. split; assumption.
    + rewrite app_nth1 by lia. apply Hs. lia.
Qed.

Lemma outer_fold D0 : wf n D0 -> inv D0 -> forall k, k <= n -> OS k (fold_left outer_step (seq 0 k) (D0, [])).
Proof.
  intros HW HI. induction k as [|k IH]; intro Hk.
  - cbn. (unfold OS; cbn [fst snd]; split; [|split; [|split]]); try assumption; [reflexivity|]. intros i Hi. lia.
  - rewrite seq_S, fold_left_app. cbn [fold_left plus]. apply outer_step_ok; [lia|]. apply IH. lia.
Qed.

Lemma D0_ok : wf n (repeat (repeat neg1 n) n) /\ inv (repeat (repeat neg1 n) n).
Proof.
  split; [split|].
  - apply repeat_length.
  - apply Forall_forall. intros r Hr. apply repeat_spec in Hr. subst. apply repeat_length.
  - intros a b Ha Hb. left. unfold get. rewrite nth_repeat_lt by assumption. now rewrite nth_repeat_lt.
Qed.

(* for every point: a lower bound of the distances to all other points, attained by one of them (+inf if there is no other point) *)
Theorem spacing_helper_spec :
  let ds := spacing_helper (X := E) Xs' in
  length ds = n /\ forall i, i < n -> spec i (nth i ds ENaN).
Proof.
  destruct D0_ok as [HW HI]. pose proof (outer_fold _ HW HI n (le_n n)) as (_ & _ & Hl & Hs).
  assert (Heq : spacing_helper (X := E) Xs' = snd (fold_left outer_step (seq 0 n) (repeat (repeat neg1 n) n, []))).
  { assert (Hn : @length (list (T (base E))) Xs' = n) by (unfold Xs'; apply map_length).
    unfold spacing_helper. cbv zeta. rewrite Hn. reflexivity. }
  cbv zeta. rewrite Heq. split; assumption.
Qed.
End Helper.

(* ---------- the NumPy path: second smallest entry of the row of squareform(pdist(X, "cityblock")) ---------- *)
Lemma in_combine_seq {A} (d : A) (l : list A) : forall s j x, In (j, x) (combine (seq s (length l)) l) ->
  s <= j < s + length l /\ nth (j - s) l d = x.
Proof.
  induction l as [|a l IH]; intros s j x Hin; cbn in Hin; [destruct Hin|].
  destruct Hin as [Heq|Hin].
  - inversion Heq; subst. split; [cbn; lia|]. now rewrite Nat.sub_diag.
  - destruct (IH (S s) j x Hin) as [Hr Hn]. split; [cbn; lia|]. replace (j - s) with (S (j - S s)) by lia. exact Hn.
Qed.

Lemma combine_seq_nth {A} (d : A) (l : list A) : forall s j, j < length l -> In (s + j, nth j l d) (combine (seq s (length l)) l).
Proof.
  induction l as [|a l IH]; intros s j Hj; cbn in Hj; [lia|]. destruct j; cbn.
  - left. f_equal. lia.
  - right. replace (s + S j) with (S s + j) by lia. apply IH. lia.
Qed.

Lemma split_at {A} (l : list A) i d : i < length l -> l = firstn i l ++ nth i l d :: skipn (S i) l.
Proof.
  revert i. induction l as [|a l IH]; intros i Hi; cbn in Hi; [lia|]. destruct i; cbn; [reflexivity|]. f_equal. apply IH. lia.
Qed.

Lemma in_firstn_combine_seq {A} (i : nat) : forall (l : list A) s n j x, In (j, x) (firstn i (combine (seq s n) l)) -> j < s + i.
Proof.
  induction i as [|i IH]; intros l s n j x Hin; [destruct Hin|].
  destruct n as [|n]; [destruct Hin|]. destruct l as [|a l]; [destruct Hin|]. cbn in Hin. destruct Hin as [Heq|Hin].
  - inversion Heq. lia.
  - specialize (IH l (S s) n j x Hin). lia.
Qed.

Lemma in_skipn_combine_seq {A} (k : nat) : forall (l : list A) s n j x, In (j, x) (skipn k (combine (seq s n) l)) -> s + k <= j.
Proof.
  induction k as [|k IH]; intros l s n j x Hin.
  - cbn in Hin. apply in_combine_l in Hin. apply in_seq in Hin. lia.
  - destruct n as [|n]; [destruct Hin|]. destruct l as [|a l]; [destruct Hin|]. cbn in Hin. specialize (IH l (S s) n j x Hin). lia.
Qed.

Section Link.
Variable Xs : list (list Q).
Let n := length Xs.
Definition dq (i j : nat) : Q :=
  if i <? j then dist (X := Qx) Cityblock (rowq Xs i) (rowq Xs j) else dist (X := Qx) Cityblock (rowq Xs j) (rowq Xs i).

Lemma dq_cbd i j : (dq i j == cbd Xs i j)%Q.
Proof. unfold dq, cbd. destruct (i <? j); rewrite cbq_dist; [reflexivity|apply cityblock_sym]. Qed.

Definition entry (i : nat) (jb : nat * list Q) : Q :=
  if i =? fst jb then 0%Q else if i <? fst jb then dist (X := Qx) Cityblock (rowq Xs i) (snd jb) else dist (X := Qx) Cityblock (snd jb) (rowq Xs i).

Lemma cmb_length : length (combine (seq 0 n) Xs) = n.
Proof. rewrite combine_length, seq_length. unfold n. apply Nat.min_id. Qed.

Lemma cmb_nth i : i < n -> nth i (combine (seq 0 n) Xs) (0, []) = (i, rowq Xs i).
Proof. intro Hi. rewrite combine_nth by (rewrite seq_length; reflexivity). rewrite seq_nth by assumption. reflexivity. Qed.

Lemma dist_row i : i < n ->
  nth i (dist_matrix (X := Qx) Cityblock Xs) [] = map (entry i) (combine (seq 0 n) Xs).
Proof.
  intro Hi. unfold dist_matrix. fold n.
  set (cmb := combine (seq 0 n) Xs).
  set (g := fun ia : nat * list Q => map (fun jb : nat * list Q => if fst ia =? fst jb then zero (base Qx) else
             if fst ia <? fst jb then dist (X := Qx) Cityblock (snd ia) (snd jb) else dist (X := Qx) Cityblock (snd jb) (snd ia)) cmb).
  change (nth i (map g cmb) [] = map (entry i) cmb).
  rewrite (nth_indep _ [] (g (0, []))) by (rewrite map_length; unfold cmb; rewrite cmb_length; exact Hi).
  rewrite map_nth. unfold cmb at 1. rewrite (cmb_nth i Hi). unfold g, entry. cbn [fst snd]. reflexivity.
Qed.

Lemma dist_matrix_length : length (dist_matrix (X := Qx) Cityblock Xs) = n.
Proof. unfold dist_matrix. rewrite map_length. apply cmb_length. Qed.

(* the helper's value for point i, as a rational, equals the NumPy value *)
Theorem helper_matches_numpy i : 2 <= n -> i < n ->
  exists q, nth i (spacing_helper (X := E) (map (map Fin) Xs)) ENaN = Fin q /\
            (q == nth i (nn_dists (X := Qx) (dist_matrix (X := Qx) Cityblock Xs)) 0)%Q.
Proof.
  intros Hn Hi. destruct (spacing_helper_spec Xs) as [Hl Hs]. fold n in Hl, Hs. destruct (Hs i Hi) as [HB HA]. fold n in HB, HA.
  destruct HA as [[_ Hall]|(j0 & q & Hj0 & Hne0 & Hq & Hq0)].
  { exfalso. destruct i; [specialize (Hall 1 ltac:(lia))|specialize (Hall 0 ltac:(lia))]; lia. }
  exists q. split; [exact Hq|].
  unfold nn_dists. rewrite (nth_indep _ 0%Q (nth 1 (sort_vals (X := Qx) []) (qnan Qx))) by (rewrite map_length, dist_matrix_length; exact Hi).
  rewrite (map_nth (fun row => nth 1 (sort_vals (X := Qx) row) (qnan Qx))). rewrite (dist_row i Hi).
  set (cmb := combine (seq 0 n) Xs).
  assert (Hcl : length cmb = n) by (unfold cmb; apply cmb_length).
  rewrite (split_at cmb i (0, []) ltac:(lia)). rewrite map_app. cbn [map].
  assert (Hnth : nth i cmb (0, []) = (i, rowq Xs i)) by (unfold cmb; now apply cmb_nth).
  rewrite Hnth. unfold entry at 2. cbn [fst]. rewrite Nat.eqb_refl.
  set (l1 := map (entry i) (firstn i cmb)). set (l2 := map (entry i) (skipn (S i) cmb)).
  (* the other entries are exactly the distances to the other points *)
  assert (Hothers : forall y, In y (l1 ++ l2) -> exists j, j < n /\ j <> i /\ y = dq i j).
  { intros y Hy. apply in_app_or in Hy. 
    assert (Hsub : exists jb, In jb cmb /\ fst jb <> i /\ y = entry i jb).
    { destruct Hy as [Hy|Hy]; apply in_map_iff in Hy as (jb & <- & Hjb); exists jb.
      - assert (Hin : In jb cmb) by (rewrite <- (firstn_skipn i cmb); apply in_or_app; now left). split; [assumption|]. split; [|reflexivity].
        unfold cmb in Hjb. destruct jb as [j x]. apply in_firstn_combine_seq in Hjb. cbn. lia.
      - assert (Hin : In jb cmb) by (rewrite <- (firstn_skipn (S i) cmb); apply in_or_app; now right). split; [assumption|]. split; [|reflexivity].
        unfold cmb in Hjb. destruct jb as [j x]. apply in_skipn_combine_seq in Hjb. cbn. lia. }
    destruct Hsub as ([j x] & Hin & Hne & ->). cbn [fst] in Hne.
    unfold cmb in Hin. fold n in Hin. destruct (in_combine_seq [] Xs 0 j x Hin) as [Hr Hx]. fold n in Hr. rewrite Nat.sub_0_r in Hx.
    exists j. repeat split; [lia|assumption|]. unfold entry, dq. cbn [fst snd]. assert (E : i =? j = false) by (apply Nat.eqb_neq; lia). rewrite E.
    subst x. reflexivity. }
  assert (Hmem : forall j, j < n -> j <> i -> In (dq i j) (l1 ++ l2)).
  { intros j Hj Hne. pose proof (combine_seq_nth [] Xs 0 j Hj) as Hin. cbn [plus] in Hin. fold n in Hin. fold cmb in Hin.
    rewrite (split_at cmb i (0, []) ltac:(lia)) in Hin. apply in_app_or in Hin. 
    assert (Heq : dq i j = entry i (j, nth j Xs [])).
    { unfold entry, dq. cbn [fst snd]. assert (E : i =? j = false) by (apply Nat.eqb_neq; lia). now rewrite E. }
    rewrite Heq. destruct Hin as [Hin|[Hin|Hin]].
    - apply in_or_app. left. unfold l1. now apply in_map.
    - rewrite Hnth in Hin. inversion Hin. lia.
    - apply in_or_app. right. unfold l2. now apply in_map. }
  destruct (second_smallest_is_nn l1 l2 0%Q) as [Hlow (y & Hy & Hsy)].
  - intros y Hy. destruct (Hothers y Hy) as (j & _ & _ & ->). rewrite dq_cbd. apply cbd_nonneg.
  - intro Hnil. specialize (Hmem j0 Hj0 Hne0). rewrite Hnil in Hmem. destruct Hmem.
  - change (zero (base Qx)) with 0%Q. cbv zeta in Hlow, Hsy. change (qnan Qx) with 0%Q.
    set (s := nth 1 (sort_vals (X := Qx) (l1 ++ 0%Q :: l2)) 0%Q) in *.
    destruct (Hothers y Hy) as (j & Hj & Hne & ->).
    assert (H1 : (q <= s)%Q). { rewrite Hsy, dq_cbd. specialize (HB j Hj Hne). rewrite Hq in HB. exact HB. }
    assert (H2 : (s <= q)%Q). { rewrite Hq0, <- dq_cbd. apply Hlow. now apply Hmem. }
    lra.
Qed.
End Link.
