(* C13 / C15, "as defined" for the mnn / 2nn metrics of the pure-Python engine (misc/mnn.py): at every stage of the pruning
   loop the value of a remaining, non-extreme point is the product of the squared (normalised) distances to its M nearest
   neighbours AMONG THE REMAINING POINTS; the loop removes the first point of smallest value and recomputes - i.e. it is
   the published greedy procedure.  The neighbours are exhibited as an index list J (M distinct remaining points other
   than p, in ascending distance, every other remaining point at least as far), so no second sorting function has to be
   trusted as a specification.  Tie-freeness is used in one place only: a point is strictly closer to itself than to any
   other point (no duplicates), which is what lets NumPy's partition[1:M+1] skip exactly the point itself. *)
From Coq Require Import List Bool Arith ZArith Lia QArith Lqa Permutation Sorted.
From PV Require Import Base.Num Base.NumEQ Base.Res Base.ListX Model.Crowding Model.Fallback
  Proofs.CrowdingP Proofs.CdP Proofs.FallbackP Proofs.BoundaryP Proofs.MonoP.
Import ListNotations.
Local Open Scope nat_scope.
Local Arguments qsign : simpl never.

(* ---------- the insertion sort of Model.Fallback, carrying the column index of every value ---------- *)
Fixpoint ins_pair (x : eq * nat) (l : list (eq * nat)) : list (eq * nat) :=
  match l with
  | [] => [x]
  | h :: t => if eltb (fst x) (fst h) then x :: l else h :: ins_pair x t
  end.
Definition sort_pairs (l : list (eq * nat)) : list (eq * nat) := fold_left (fun acc x => ins_pair x acc) l [].

Lemma map_fst_ins x l : map fst (ins_pair x l) = ins_val (X := E) (fst x) (map fst l).
Proof.
  induction l as [|h t IH]; cbn; [reflexivity|]. destruct (eltb (fst x) (fst h)); cbn; [reflexivity|]. now rewrite IH.
Qed.

Lemma map_fst_fold l : forall acc,
  map fst (fold_left (fun a x => ins_pair x a) l acc) = fold_left (fun a x => ins_val (X := E) x a) (map fst l) (map fst acc).
Proof.
  induction l as [|x l IH]; intro acc; cbn [fold_left map]; [reflexivity|]. rewrite IH. now rewrite map_fst_ins.
Qed.

Lemma map_fst_sort l : map fst (sort_pairs l) = sort_vals (X := E) (map fst l).
Proof. unfold sort_pairs, sort_vals. now rewrite map_fst_fold. Qed.

Lemma ins_pair_perm x l : Permutation (ins_pair x l) (x :: l).
Proof.
  induction l as [|h t IH]; cbn; [reflexivity|]. destruct (eltb (fst x) (fst h)); [reflexivity|].
  rewrite IH. apply perm_swap.
Qed.

Lemma sort_pairs_perm l : Permutation (sort_pairs l) l.
Proof.
  unfold sort_pairs. assert (G : forall acc, Permutation (fold_left (fun a x => ins_pair x a) l acc) (acc ++ l)).
  { induction l as [|x l IH]; intro acc; cbn; [now rewrite app_nil_r|]. rewrite IH, ins_pair_perm. cbn [app]. apply Permutation_middle. }
  exact (G []).
Qed.

Lemma sort_vals_gsorted l : Forall good l -> gsorted (sort_vals (X := E) l).
Proof.
  unfold sort_vals.
  assert (G : forall acc, Forall good l -> Forall good acc -> gsorted acc -> gsorted (fold_left (fun a x => ins_val (X := E) x a) l acc)).
  { induction l as [|x l IH]; intros acc Hl Ha Hs; cbn; [assumption|]. inversion Hl; subst.
    apply IH; [assumption|now apply ins_good|now apply ins_gsorted]. }
  intro Hl. apply G; [assumption|constructor|constructor].
Qed.

(* ---------- small list facts ---------- *)
Definition tagged (row : list eq) : list (eq * nat) := combine row (seq 0 (length row)).

Lemma map_fst_combine {A B} (a : list A) : forall b : list B, length a = length b -> map fst (combine a b) = a.
Proof. induction a as [|x a IH]; intros [|y b] Hl; cbn in *; try reflexivity; try discriminate. f_equal. apply IH. lia. Qed.

Lemma map_snd_combine {A B} (a : list A) : forall b : list B, length a = length b -> map snd (combine a b) = b.
Proof. induction a as [|x a IH]; intros [|y b] Hl; cbn in *; try reflexivity; try discriminate. f_equal. apply IH. lia. Qed.

Lemma in_tagged_gen (row : list eq) : forall s v j, In (v, j) (combine row (seq s (length row))) ->
  s <= j < s + length row /\ nth (j - s) row ENaN = v.
Proof.
  induction row as [|a row IH]; intros s v j Hin; cbn in Hin; [destruct Hin|].
  destruct Hin as [Heq|Hin].
  - injection Heq as <- <-. cbn [length]. split; [lia|]. now rewrite Nat.sub_diag.
  - apply IH in Hin as [Hr Hv]. cbn [length]. split; [lia|]. replace (j - s) with (S (j - S s)) by lia. exact Hv.
Qed.

Lemma in_tagged row v j : In (v, j) (tagged row) -> j < length row /\ nth j row ENaN = v.
Proof. intro H. apply in_tagged_gen in H as [Hr Hv]. rewrite Nat.sub_0_r in Hv. split; [lia|assumption]. Qed.

Lemma tagged_in_gen (row : list eq) : forall s j, j < length row -> In (nth j row ENaN, s + j) (combine row (seq s (length row))).
Proof.
  induction row as [|a row IH]; intros s j Hj; cbn in Hj; [lia|]. cbn [length seq combine].
  destruct j as [|j]; [left; now rewrite Nat.add_0_r|]. right. cbn [nth]. replace (s + S j) with (S s + j) by lia. apply IH. lia.
Qed.

Lemma tagged_in row j : j < length row -> In (nth j row ENaN, j) (tagged row).
Proof. intro Hj. exact (tagged_in_gen row 0 j Hj). Qed.

Lemma SSorted_map {A B} (R : B -> B -> Prop) (f : A -> B) l :
  StronglySorted R (map f l) -> StronglySorted (fun a b => R (f a) (f b)) l.
Proof.
  induction l as [|x l IH]; intro H; [constructor|]. cbn in H. inversion H as [|? ? Hs Hf]; subst.
  constructor; [now apply IH|]. rewrite Forall_map in Hf. exact Hf.
Qed.

Lemma SSorted_app {A} (R : A -> A -> Prop) a : forall b, StronglySorted R (a ++ b) ->
  StronglySorted R a /\ StronglySorted R b /\ forall x y, In x a -> In y b -> R x y.
Proof.
  induction a as [|h a IH]; intros b H; cbn in H.
  - split; [constructor|]. split; [assumption|]. intros x y [].
  - inversion H as [|? ? Hs Hf]; subst. destruct (IH b Hs) as (Ha & Hb & Hab). rewrite Forall_app in Hf. destruct Hf as [Hfa Hfb].
    split; [now constructor|]. split; [assumption|].
    intros x y [<-|Hx] Hy; [rewrite Forall_forall in Hfb; now apply Hfb|now apply Hab].
Qed.

Lemma NoDup_app_l {A} (a b : list A) : NoDup (a ++ b) -> NoDup a.
Proof. induction a as [|x a IH]; cbn; intro H; [constructor|]. inversion H; subst. constructor; [intro Hx; apply H2; apply in_or_app; now left|now apply IH]. Qed.

Lemma filter_len_le {A} (f : A -> bool) l : length (filter f l) <= length l.
Proof. induction l as [|x l IH]; cbn; [lia|]. destruct (f x); cbn; lia. Qed.

Lemma firstn_incl {A} k : forall (l : list A) x, In x (firstn k l) -> In x l.
Proof. induction k as [|k IH]; intros [|y l] x Hin; cbn in *; try contradiction. destruct Hin as [->|Hin]; [now left|right; now apply IH]. Qed.

Lemma rowinv_nth n H row j : rowinv n H row -> j < n -> cell H j (nth j row ENaN).
Proof.
  unfold rowinv. intros HF Hj.
  assert (G : forall s len (r : list eq), Forall2 (cell H) (seq s len) r -> forall i, i < len -> cell H (s + i) (nth i r ENaN)).
  { intros s len. revert s. induction len as [|len IH]; intros s r HF2 i Hi; [lia|]. cbn [seq] in HF2.
    inversion HF2 as [|? ? ? ? Hc Ht]; subst. destruct i as [|i]; [now rewrite Nat.add_0_r|].
    cbn [nth]. replace (s + S i) with (S s + i) by lia. apply IH; [assumption|lia]. }
  exact (G 0 n row HF j Hj).
Qed.

Lemma rowinv_length n H row : rowinv n H row -> length row = n.
Proof. unfold rowinv. intro HF. apply Forall2_length in HF. now rewrite seq_length in HF. Qed.

(* ---------- the M nearest neighbours of one row ---------- *)
(* v is the product of the distances from p to its M nearest neighbours among the points of H, as read from [dist] *)
Definition nn_product (M : nat) (dist : nat -> eq) (H : list nat) (p : nat) (v : eq) : Prop :=
  exists J, NoDup J /\ length J = M /\ (forall j, In j J -> In j H /\ j <> p) /\
    v = prod_lr (X := E) (map dist J) /\ gsorted (map dist J) /\
    (forall j j', In j J -> In j' H -> j' <> p -> ~ In j' J -> gle (dist j) (dist j')).

Lemma mnn_row_neighbours M n H p row :
  NoDup H -> (forall i, In i H -> i < n) -> In p H -> rowinv n H row -> M + 1 <= length H ->
  (exists q0, nth p row ENaN = Fin q0 /\ (q0 == 0)%Q) ->
  (forall j, In j H -> j <> p -> exists q, nth j row ENaN = Fin q /\ (0 < q)%Q) ->
  nn_product M (fun j => nth j row ENaN) H p (mnn_row (X := E) M row).
Proof.
  intros Hnd Hlt Hp Hrow HM (q0 & Hself & Hq0) Hpos.
  pose proof (rowinv_length _ _ _ Hrow) as Hlen.
  pose proof (cells_good _ _ _ Hrow) as Hgood.
  assert (Hnf : nfin row = length H) by (rewrite (cells_nfin _ _ _ Hrow); now apply memb_count).
  set (SP := sort_pairs (tagged row)).
  assert (Hfst : map fst SP = sort_vals (X := E) row).
  { unfold SP. rewrite map_fst_sort. unfold tagged. rewrite map_fst_combine; [reflexivity|now rewrite seq_length]. }
  assert (Hperm : Permutation SP (tagged row)) by apply sort_pairs_perm.
  assert (Hsnd : Permutation (map snd SP) (seq 0 n)).
  { rewrite Hperm. unfold tagged. rewrite map_snd_combine; [now rewrite Hlen|now rewrite seq_length]. }
  assert (HndS : NoDup (map snd SP)) by (apply (Permutation_NoDup (Permutation_sym Hsnd)); apply seq_NoDup).
  assert (Hel : forall v j, In (v, j) SP -> j < n /\ nth j row ENaN = v).
  { intros v j Hin. apply (Permutation_in _ Hperm) in Hin. apply in_tagged in Hin. now rewrite Hlen in Hin. }
  assert (Hsorted : StronglySorted (fun a b => gle (fst a) (fst b)) SP).
  { apply SSorted_map. rewrite Hfst. now apply sort_vals_gsorted. }
  assert (HlenS : length SP = n).
  { rewrite (Permutation_length Hperm). unfold tagged. rewrite combine_length, seq_length. lia. }
  assert (Hpn : p < n) by now apply Hlt.
  assert (HpS : In (nth p row ENaN, p) SP).
  { apply (Permutation_in _ (Permutation_sym Hperm)). apply tagged_in. now rewrite Hlen. }
  assert (Hn1 : M + 1 <= n).
  { assert (length H <= n); [|lia]. rewrite <- (memb_count n H Hnd Hlt). rewrite <- (seq_length n 0) at 2. apply filter_len_le. }
  destruct SP as [|[v0 j0] rest] eqn:ESP; [cbn in HlenS; lia|].
  (* the head of the sorted row is the point itself *)
  assert (Hj0 : j0 = p).
  { destruct HpS as [Heq|Hin]; [now injection Heq|].
    pose proof (proj2 (StronglySorted_inv Hsorted)) as Hhd. rewrite Forall_forall in Hhd. specialize (Hhd _ Hin). cbn [fst] in Hhd.
    destruct (Hel v0 j0 (or_introl eq_refl)) as [Hj0n Hv0].
    destruct (Nat.eq_dec j0 p) as [|Hne]; [assumption|exfalso].
    pose proof (rowinv_nth _ _ _ _ Hrow Hj0n) as Hc. unfold cell in Hc. rewrite Hself in Hhd. rewrite <- Hv0 in Hhd.
    destruct (memb j0 H) eqn:Em.
    - apply memb_In in Em. destruct (Hpos j0 Em Hne) as (q & Hq & Hqpos). rewrite Hq in Hhd. cbn in Hhd. lra.
    - rewrite Hc in Hhd. cbn in Hhd. exact Hhd. }
  subst j0.
  cbn [map snd] in HndS. apply NoDup_cons_iff in HndS as [Hpnot HndR].
  assert (HlenR : length rest = n - 1) by (cbn in HlenS; lia).
  set (L := firstn M rest).
  assert (HL : forall v j, In (v, j) L -> In (v, j) rest) by (intros v j Hin; unfold L in Hin; now apply firstn_incl in Hin).
  assert (Hvals : map fst L = map (fun j => nth j row ENaN) (map snd L)).
  { rewrite map_map. apply map_ext_in. intros [v j] Hin. cbn [fst snd]. symmetry. apply (Hel v j). right. now apply HL. }
  assert (Hpre : firstn M (tl (sort_vals (X := E) row)) = map fst L).
  { rewrite <- Hfst. cbn [map tl]. unfold L. now rewrite firstn_map. }
  assert (Hfin : Forall finnn (map fst L)) by (rewrite <- Hpre; apply sorted_prefix_finnn; [assumption|lia]).
  exists (map snd L). split; [|split; [|split; [|split; [|split]]]].
  - unfold L. rewrite <- firstn_map. rewrite <- (firstn_skipn M (map snd rest)) in HndR. now apply NoDup_app_l in HndR.
  - rewrite map_length. unfold L. rewrite firstn_length. lia.
  - intros j Hj. apply in_map_iff in Hj as ([v j'] & Hj' & Hin). cbn [snd] in Hj'. subst j'.
    pose proof (HL v j Hin) as HinR. split.
    + destruct (Hel v j (or_intror HinR)) as [Hjn Hv].
      pose proof (rowinv_nth _ _ _ _ Hrow Hjn) as Hc. unfold cell in Hc. destruct (memb j H) eqn:Em; [now apply memb_In|exfalso].
      rewrite Forall_forall in Hfin. assert (Hf : finnn v) by (apply Hfin; apply in_map_iff; exists (v, j); split; [reflexivity|assumption]).
      destruct Hf as (q & Hq & _). rewrite Hv in Hc. congruence.
    + intro Hx. subst j. apply Hpnot. apply in_map_iff. exists (v, p). split; [reflexivity|assumption].
  - unfold mnn_row. change (T (base E)) with eq in *. rewrite Hpre. now rewrite Hvals.
  - rewrite <- Hvals. rewrite <- Hpre.
    assert (Hs : gsorted (sort_vals (X := E) row)) by now apply sort_vals_gsorted.
    rewrite <- Hfst in Hs |- *. cbn [map tl] in *. pose proof (proj1 (StronglySorted_inv Hs)) as Hs'.
    rewrite <- (firstn_skipn M (map fst rest)) in Hs'. now apply SSorted_app in Hs' as [Hs' _].
  - intros j j' Hj Hj'H Hj'p Hj'J.
    apply in_map_iff in Hj as ([v j2] & Hj2 & Hin). cbn [snd] in Hj2. subst j2.
    assert (Hj'n : j' < n) by now apply Hlt.
    assert (Hin' : In (nth j' row ENaN, j') ((v0, p) :: rest)).
    { apply (Permutation_in _ (Permutation_sym Hperm)). apply tagged_in. now rewrite Hlen. }
    destruct Hin' as [Heq|Hin']; [injection Heq as _ Heq; congruence|].
    rewrite <- (firstn_skipn M rest) in Hin'. apply in_app_or in Hin' as [Hin'|Hin'].
    + exfalso. apply Hj'J. apply in_map_iff. exists (nth j' row ENaN, j'). split; [reflexivity|exact Hin'].
    + pose proof (proj1 (StronglySorted_inv Hsorted)) as HsR. rewrite <- (firstn_skipn M rest) in HsR.
      apply SSorted_app in HsR as (_ & _ & Hab). specialize (Hab _ _ Hin Hin'). cbn [fst] in Hab.
      destruct (Hel v j (or_intror (HL v j Hin))) as [_ Hv]. now rewrite Hv.
Qed.

Lemma nn_product_ext M (dist dist' : nat -> eq) H p v :
  (forall j, In j H -> dist j = dist' j) -> nn_product M dist H p v -> nn_product M dist' H p v.
Proof.
  intros Hext (J & Hnd & Hlen & Hsub & Hv & Hs & Hnear).
  assert (Hmap : map dist J = map dist' J) by (apply map_ext_in; intros j Hj; apply Hext; now apply Hsub).
  exists J. split; [assumption|]. split; [assumption|]. split; [assumption|].
  split; [now rewrite <- Hmap|]. split; [now rewrite <- Hmap|].
  intros j j' Hj Hj' Hne Hnot. rewrite <- (Hext j) by (now apply Hsub). rewrite <- (Hext j') by assumption. now apply Hnear.
Qed.

(* ---------- the loop is the published greedy procedure ---------- *)
Definition dist0 (D0 : list (list eq)) (p j : nat) : eq := nth j (nth p D0 []) ENaN.

(* the working matrix is the original one with the columns of the removed points set to +inf *)
Definition masked (n : nat) (D0 : list (list eq)) (H : list nat) (D : list (list eq)) : Prop :=
  forall p j, p < n -> j < n -> nth j (nth p D []) ENaN = if memb j H then dist0 D0 p j else PInf.

(* no duplicates: a point is at distance 0 from itself and at a positive distance from every other point *)
Definition tiefree (n : nat) (D0 : list (list eq)) : Prop :=
  (forall p, p < n -> exists q, dist0 D0 p p = Fin q /\ (q == 0)%Q) /\
  (forall p j, p < n -> j < n -> j <> p -> exists q, dist0 D0 p j = Fin q /\ (0 < q)%Q).

(* every remaining point carries the value the definition gives it with respect to the remaining set *)
Definition is_def (M : nat) (ext : list nat) (D0 : list (list eq)) (H : list nat) (d : list eq) : Prop :=
  forall p, In p H -> (In p ext -> nth p d ENaN = PInf) /\ (~ In p ext -> nn_product M (dist0 D0 p) H p (nth p d ENaN)).

Inductive greedy (n M : nat) (ext : list nat) (D0 : list (list eq)) : nat -> list nat -> list eq -> list nat -> list eq -> Prop :=
| greedy_done H d : greedy n M ext D0 0 H d H d
| greedy_step s H d k d' Hf df :
    In k H -> (forall p, In p H -> gle (nth k d ENaN) (nth p d ENaN)) ->          (* a most crowded remaining point is removed *)
    (forall r, r < n -> ~ In r (without k H) -> nth r d' ENaN = nth r d ENaN) ->   (* removed points keep their value *)
    is_def M ext D0 (without k H) d' ->                                            (* the others are recomputed *)
    greedy n M ext D0 s (without k H) d' Hf df ->
    greedy n M ext D0 (S s) H d Hf df.

Lemma masked_set n D0 H D k : length D = n -> Forall (fun row => length row = n) D -> k < n ->
  masked n D0 H D -> masked n D0 (without k H) (map (fun row => set_nth k (pinf E) row) D).
Proof.
  intros HD Hrows Hk Hm p j Hp Hj. rewrite nth_map_set.
  assert (Hl : length (nth p D []) = n) by (rewrite Forall_forall in Hrows; apply Hrows, nth_In; lia).
  rewrite nth_set_nth by (rewrite Hl; exact Hk). rewrite memb_without. rewrite (Hm p j Hp Hj).
  destruct (j =? k); cbn; [now rewrite andb_false_r|now rewrite andb_true_r].
Qed.

Lemma mnn_loop_greedy n M ext D0 fuel : tiefree n D0 -> forall D d H,
  NoDup H -> (forall i, In i H -> i < n) -> fuel + M + 1 <= length H ->
  length D = n -> Forall (rowinv n H) D -> masked n D0 H D -> length d = n -> Forall good d ->
  (forall i, In i ext -> i < n -> nth i d ENaN = PInf) ->
  (forall p, In p H -> ~ In p ext -> nth p d ENaN = mnn_row (X := E) M (nth p D [])) ->
  is_def M ext D0 H d ->
  let res := mnn_loop_H fuel M ext D d H in
  greedy n M ext D0 fuel H d (snd res) (fst res) /\ is_def M ext D0 (snd res) (fst res).
Proof.
  intros [Hdiag Hoff]. induction fuel as [|fuel IH]; intros D d H Hnd Hlt Hlen HD Hrows Hmask Hd Hg Hext Hval Hdef; cbn [mnn_loop_H].
  - cbn [fst snd]. split; [constructor|assumption].
  - cbv zeta. set (k := drop_first_min (X := E) d H).
    assert (Hne : H <> []) by (destruct H; [cbn in Hlen; lia|discriminate]).
    assert (Hk : In k H) by (now apply drop_first_min_In).
    assert (Hkn : k < n) by now apply Hlt.
    assert (Hkmin : forall p, In p H -> gle (nth k d ENaN) (nth p d ENaN)).
    { apply drop_first_min_is_min; [assumption|assumption|]. intros i Hi. rewrite Hd. now apply Hlt. }
    change (filter (fun i => negb (i =? k)) H) with (without k H).
    pose proof (without_length k H Hnd Hk) as Hwl.
    set (D' := map (fun row => set_nth k (pinf E) row) D).
    assert (HD' : length D' = n) by (unfold D'; now rewrite map_length).
    assert (Hrows' : Forall (rowinv n (without k H)) D').
    { unfold D'. apply Forall_forall. intros row Hr. apply in_map_iff in Hr as (r0 & <- & Hr0).
      rewrite Forall_forall in Hrows. apply rowinv_set. now apply Hrows. }
    assert (Hmask' : masked n D0 (without k H) D').
    { unfold D'. apply masked_set; try assumption. apply Forall_forall. intros row Hr. rewrite Forall_forall in Hrows.
      exact (rowinv_length _ _ _ (Hrows row Hr)). }
    assert (Hnd' : NoDup (without k H)) by (now apply NoDup_filter).
    assert (Hlt' : forall i, In i (without k H) -> i < n) by (intros i Hi; apply filter_In in Hi; apply Hlt; tauto).
    set (g := fun i => mnn_row (X := E) M (nth i D' [])).
    assert (Hrow' : forall i, i < n -> rowinv n (without k H) (nth i D' [])) by (intros i Hi; rewrite Forall_forall in Hrows'; apply Hrows', nth_In; lia).
    assert (Hnf' : forall i, i < n -> nfin (nth i D' []) = length (without k H)) by (intros i Hi; rewrite (cells_nfin _ _ _ (Hrow' i Hi)); now apply memb_count).
    assert (Hgfin : forall i, In i (without k H) -> finnn (g i)).
    { intros i Hi. pose proof (Hlt' i Hi) as Hin. apply mnn_row_finnn; [exact (cells_good _ _ _ (Hrow' i Hin))|]. rewrite (Hnf' i Hin). lia. }
    destruct (fold_write_good g (without k H) d) as [Hg' Hl']; [intros i Hi; apply finnn_good; now apply Hgfin|assumption|].
    set (d' := fold_left (fun acc i => set_nth i (g i) acc) (without k H) d) in *.
    assert (Hld' : length d' = n) by (etransitivity; [exact Hl'|exact Hd]).
    set (d'' := set_inf (X := E) ext d').
    assert (Hld'' : length d'' = n) by (unfold d''; rewrite set_inf_length; exact Hld').
    assert (Hg'' : Forall good d'') by (unfold d''; now apply set_inf_good).
    assert (Hext'' : forall i, In i ext -> i < n -> nth i d'' ENaN = PInf).
    { intros i Hi Hin. unfold d''. apply set_inf_pinf; [assumption|]. rewrite Hld'. exact Hin. }
    assert (Hnew : forall i, i < n -> nth i d'' ENaN = if in_dec Nat.eq_dec i ext then PInf else if existsb (Nat.eqb i) (without k H) then g i else nth i d ENaN).
    { intros i Hi. destruct (in_dec Nat.eq_dec i ext) as [Hie|Hie]; [now apply Hext''|].
      unfold d''. rewrite set_inf_other by assumption. unfold d'. apply fold_write_nth. rewrite Hd. exact Hi. }
    assert (Hkeep : forall r, r < n -> ~ In r (without k H) -> nth r d'' ENaN = nth r d ENaN).
    { intros r Hr Hnr. rewrite (Hnew r Hr). destruct (in_dec Nat.eq_dec r ext) as [Hre|Hre]; [symmetry; now apply Hext|].
      destruct (existsb (Nat.eqb r) (without k H)) eqn:Ex; [apply existsb_eqb_In in Ex; contradiction|reflexivity]. }
    assert (Hval' : forall p, In p (without k H) -> ~ In p ext -> nth p d'' ENaN = mnn_row (X := E) M (nth p D' [])).
    { intros p Hp Hpe. pose proof (Hlt' p Hp) as Hpn. etransitivity; [exact (Hnew p Hpn)|]. destruct (in_dec Nat.eq_dec p ext) as [Hx|_]; [contradiction|].
      assert (Ex : existsb (Nat.eqb p) (without k H) = true) by (now apply existsb_eqb_In). now rewrite Ex. }
    (* the recomputed values are the definition's values with respect to the remaining set *)
    assert (Hdef' : is_def M ext D0 (without k H) d'').
    { intros p Hp. pose proof (Hlt' p Hp) as Hpn. split; [intro Hpe; now apply Hext''|]. intro Hpe.
      refine (eq_ind_r (fun z => nn_product M (dist0 D0 p) (without k H) p z) _ (Hval' p Hp Hpe)).
      apply (nn_product_ext M (fun j => nth j (nth p D' []) ENaN)).
      - intros j Hj. cbv beta. etransitivity; [exact (Hmask' p j Hpn (Hlt' j Hj))|]. apply memb_In in Hj. now rewrite Hj.
      - apply (mnn_row_neighbours M n); try assumption; [now apply Hrow'|lia| |].
        + destruct (Hdiag p Hpn) as (q0 & Hq & Hq0). exists q0. split; [|assumption]. etransitivity; [exact (Hmask' p p Hpn Hpn)|].
          apply memb_In in Hp. now rewrite Hp.
        + intros j Hj Hjp. pose proof (Hlt' j Hj) as Hjn. destruct (Hoff p j Hpn Hjn Hjp) as (q & Hq & Hqpos). exists q. split; [|assumption].
          etransitivity; [exact (Hmask' p j Hpn Hjn)|]. apply memb_In in Hj. now rewrite Hj. }
    destruct (IH D' d'' (without k H)) as (Hgr & Hfin); try assumption; [lia|].
    split; [|assumption].
    apply (greedy_step n M ext D0 fuel H d k d''); assumption.
Qed.

(* ---------- no duplicate points => the distance matrix is tie-free in the sense used above ---------- *)
Lemma sq_fin x y : emul (esub (Fin x) (Fin y)) (esub (Fin x) (Fin y)) = Fin ((x + - y) * (x + - y)).
Proof. reflexivity. Qed.

Lemma sqdist_fold_fin (l : list (eq * eq)) : forall qa,
  Forall (fun p => isfin (fst p) /\ isfin (snd p)) l ->
  exists q, fold_left (fun acc p => eadd acc (emul (esub (fst p) (snd p)) (esub (fst p) (snd p)))) l (Fin qa) = Fin q /\
            (qa <= q)%Q /\
            ((forall x y, In (Fin x, Fin y) l -> (x == y)%Q) -> (q == qa)%Q) /\
            ((exists x y, In (Fin x, Fin y) l /\ ~ (x == y)%Q) -> (qa < q)%Q).
Proof.
  induction l as [|[a b] l IH]; intros qa Hl; cbn [fold_left].
  - exists qa. split; [reflexivity|]. split; [lra|]. split; [intros _; lra|]. intros (x & y & [] & _).
  - pose proof (Forall_inv Hl) as [[x Hx] [y Hy]]. cbn [fst snd] in Hx, Hy. subst a b. cbn [fst snd]. rewrite sq_fin. cbn [eadd].
    assert (Hsq : (0 <= (x + - y) * (x + - y))%Q) by (generalize (x + - y)%Q; intro z; nra).
    assert (Hsq0 : (x == y)%Q -> ((x + - y) * (x + - y) == 0)%Q) by (intro Hxy; rewrite Hxy; ring).
    assert (Hsqp : ~ (x == y)%Q -> (0 < (x + - y) * (x + - y))%Q).
    { intro Hne. assert (Hz : ~ (x + - y == 0)%Q) by (intro Hz; apply Hne; lra). revert Hz. generalize (x + - y)%Q. intros z Hz.
      destruct (Qlt_le_dec 0 z) as [Hp|Hn]; [nra|]. assert (z < 0)%Q by (destruct (Qle_lt_or_eq _ _ Hn) as [|Hx]; [assumption|contradiction]). nra. }
    revert Hsq Hsq0 Hsqp. generalize ((x + - y) * (x + - y))%Q. intros sq Hsq Hsq0 Hsqp.
    destruct (IH (qa + sq)%Q (Forall_inv_tail Hl)) as (q & Hq & Hle & Heq & Hlt).
    exists q. split; [exact Hq|].
    split; [lra|]. split.
    + intros Hall. assert (Hq1 : (q == qa + sq)%Q) by (apply Heq; intros u v Hin; apply Hall; now right).
      assert (Hxy : (x == y)%Q) by (apply Hall; now left). specialize (Hsq0 Hxy). lra.
    + intros (u & v & [Hin|Hin] & Hne).
      * injection Hin as -> ->. specialize (Hsqp Hne). lra.
      * assert (qa + sq < q)%Q by (apply Hlt; now exists u, v). lra.
Qed.

Lemma pairs_fin (a : list eq) : forall b, Forall isfin a -> Forall isfin b ->
  Forall (fun p : eq * eq => isfin (fst p) /\ isfin (snd p)) (combine a b).
Proof.
  intros b Ha Hb. apply Forall_forall. intros [x y] Hin. cbn. rewrite Forall_forall in Ha, Hb. split; [apply Ha|apply Hb].
  - eapply in_combine_l; eassumption.
  - eapply in_combine_r; eassumption.
Qed.

Lemma sqdist_self a : Forall isfin a -> exists q, sqdist (X := E) a a = Fin q /\ (q == 0)%Q.
Proof.
  intro Ha. unfold sqdist. destruct (sqdist_fold_fin (combine a a) 0 (pairs_fin a a Ha Ha)) as (q & Hq & _ & Heq & _).
  exists q. split; [exact Hq|]. apply Heq. intros x y Hin.
  assert (G : forall l : list eq, In (Fin x, Fin y) (combine l l) -> Fin x = Fin y).
  { induction l as [|h l IH]; cbn; [intros []|]. intros [Hh|Hh]; [congruence|now apply IH]. }
  specialize (G a Hin). injection G as ->. reflexivity.
Qed.

Lemma sqdist_pos a b j x y : length a = length b -> Forall isfin a -> Forall isfin b -> j < length a ->
  nth j a ENaN = Fin x -> nth j b ENaN = Fin y -> ~ (x == y)%Q -> exists q, sqdist (X := E) a b = Fin q /\ (0 < q)%Q.
Proof.
  intros Hl Ha Hb Hj Hx Hy Hne. unfold sqdist.
  destruct (sqdist_fold_fin (combine a b) 0 (pairs_fin a b Ha Hb)) as (q & Hq & _ & _ & Hlt).
  exists q. split; [exact Hq|]. apply Hlt. exists x, y. split; [|assumption].
  rewrite <- Hx, <- Hy. rewrite <- (combine_nth a b j ENaN ENaN Hl). apply nth_In. rewrite combine_length. lia.
Qed.

Lemma nth_map_d {A B} (f : A -> B) l : forall i da db, i < length l -> nth i (map f l) db = f (nth i l da).
Proof. induction l as [|x l IH]; intros [|i] da db Hi; cbn in *; try lia; [reflexivity|]. apply IH. lia. Qed.

Definition normf (x mn dn : eq) : eq := ediv (esub x mn) dn.

Lemma normalize_rows F m : fin_matrix F m -> F <> [] -> length (hd [] F) = m ->
  exists mins dens, length mins = m /\ length dens = m /\ Forall isfin mins /\ Forall nzfin dens /\
    normalize (X := E) true F = map (fun r => map3 normf r mins dens) F.
Proof.
  intros HF Hne Hhd. unfold normalize. change (T (base E)) with eq in *. rewrite Hhd.
  set (cols := map (col (X := E) F) (seq 0 m)).
  assert (Hcols : Forall (fun c => Forall isfin c /\ c <> []) cols).
  { apply Forall_forall. intros c Hc. apply in_map_iff in Hc as (j & <- & Hj). apply in_seq in Hj.
    destruct (col_fin F m j HF ltac:(lia)) as [Hcf Hcl]. split; [assumption|].
    intro Hnil. rewrite Hnil in Hcl. cbn in Hcl. destruct F; [congruence|discriminate]. }
  assert (Hmins : Forall isfin (map (fun c => nth (argmin (X := E) c) c ENaN) cols)).
  { apply Forall_forall. intros y Hy. apply in_map_iff in Hy as (c & <- & Hc). rewrite Forall_forall in Hcols.
    destruct (Hcols c Hc) as [Hcf Hcn]. rewrite Forall_forall in Hcf. apply Hcf. apply nth_In. now apply argmin_lt. }
  assert (Hmaxs : Forall isfin (map (fun c => nth (argmax (X := E) c) c ENaN) cols)).
  { apply Forall_forall. intros y Hy. apply in_map_iff in Hy as (c & <- & Hc). rewrite Forall_forall in Hcols.
    destruct (Hcols c Hc) as [Hcf Hcn]. rewrite Forall_forall in Hcf. apply Hcf. apply nth_In. now apply argmax_lt. }
  assert (Hlc : length cols = m) by (unfold cols; now rewrite map_length, seq_length).
  eexists. eexists. split; [|split; [|split; [exact Hmins|split; [|reflexivity]]]].
  - now rewrite map_length.
  - rewrite map2_length, !map_length, seq_length. apply Nat.min_id.
  - apply (Forall_map2 nzfin _ isfin isfin); try assumption. intros a b Ha Hb. now apply guard_nz.
Qed.

Lemma normf_inj a b c e : ~ (e == 0)%Q -> ~ (a == b)%Q ->
  exists u v, normf (Fin a) (Fin c) (Fin e) = Fin u /\ normf (Fin b) (Fin c) (Fin e) = Fin v /\ ~ (u == v)%Q.
Proof.
  intros He Hab. unfold normf. cbn. destruct (qsign e) eqn:Es.
  - exfalso. apply He. unfold qsign in Es. apply Qeq_alt in Es. now symmetry.
  - exists ((a + - c) / e)%Q, ((b + - c) / e)%Q. split; [reflexivity|]. split; [reflexivity|]. intro H. apply Hab.
    assert (a + - c == b + - c)%Q by (rewrite <- (Qmult_div_r (a + - c) e He), <- (Qmult_div_r (b + - c) e He); now rewrite H). lra.
  - exists ((a + - c) / e)%Q, ((b + - c) / e)%Q. split; [reflexivity|]. split; [reflexivity|]. intro H. apply Hab.
    assert (a + - c == b + - c)%Q by (rewrite <- (Qmult_div_r (a + - c) e He), <- (Qmult_div_r (b + - c) e He); now rewrite H). lra.
Qed.

(* no two points of the front coincide *)
Definition no_duplicates (F : list (list eq)) (m : nat) : Prop :=
  forall p q, p < length F -> q < length F -> p <> q ->
    exists j a b, j < m /\ nth j (nth p F []) ENaN = Fin a /\ nth j (nth q F []) ENaN = Fin b /\ ~ (a == b)%Q.

Lemma tiefree_of_no_duplicates F m : fin_matrix F m -> F <> [] -> length (hd [] F) = m -> no_duplicates F m ->
  let Xn := normalize (X := E) true F in
  tiefree (length F) (map (fun a => map (fun b => sqdist (X := E) a b) Xn) Xn).
Proof.
  intros HF Hne Hhd Hnodup Xn.
  destruct (normalize_fin F m HF Hne Hhd) as [HXf HXl]. fold Xn in HXf, HXl.
  destruct (normalize_rows F m HF Hne Hhd) as (mins & dens & Hlm & Hld & Hmf & Hdz & HXn). fold Xn in HXn.
  assert (Hrowfin : forall p, p < length F -> Forall isfin (nth p Xn [])).
  { intros p Hp. rewrite Forall_forall in HXf. apply HXf. apply nth_In. now rewrite HXl. }
  assert (Hcell : forall p j, p < length F -> j < length F ->
            dist0 (map (fun a => map (fun b => sqdist (X := E) a b) Xn) Xn) p j = sqdist (X := E) (nth p Xn []) (nth j Xn [])).
  { intros p j Hp Hj. unfold dist0.
    transitivity (nth j (map (fun b => sqdist (X := E) (nth p Xn []) b) Xn) ENaN).
    - apply (f_equal (fun l : list eq => nth j l ENaN)). apply (nth_map_d (fun a => map (fun b => sqdist (X := E) a b) Xn) Xn p [] []). rewrite HXl. exact Hp.
    - apply (nth_map_d (fun b => sqdist (X := E) (nth p Xn []) b) Xn j [] ENaN). rewrite HXl. exact Hj. }
  split.
  - intros p Hp. rewrite (Hcell p p Hp Hp). apply sqdist_self. now apply Hrowfin.
  - intros p j Hp Hj Hjp. rewrite (Hcell p j Hp Hj).
    destruct (Hnodup p j Hp Hj (not_eq_sym Hjp)) as (c & a & b & Hc & Ha & Hb & Hab).
    assert (Hrow : forall r, r < length F -> nth r Xn [] = map3 normf (nth r F []) mins dens /\ length (nth r F []) = m).
    { intros r Hr. split; [rewrite HXn; apply (nth_map_d (fun r => map3 normf r mins dens) F r [] []); exact Hr|].
      unfold fin_matrix in HF. rewrite Forall_forall in HF. apply (HF (nth r F [])). now apply nth_In. }
    destruct (Hrow p Hp) as [Erp Hlp]. destruct (Hrow j Hj) as [Erj Hlj].
    assert (Hmc : isfin (nth c mins ENaN)) by (rewrite Forall_forall in Hmf; apply Hmf, nth_In; lia).
    assert (Hdc : nzfin (nth c dens ENaN)) by (rewrite Forall_forall in Hdz; apply Hdz, nth_In; lia).
    destruct Hmc as [cm Hcm]. destruct Hdc as (ce & Hce & Hcez).
    destruct (normf_inj a b cm ce Hcez Hab) as (u & v & Hu & Hv & Huv).
    assert (Hlen : forall r, r < length F -> length (nth r Xn []) = m).
    { intros r Hr. destruct (Hrow r Hr) as [-> Hl]. rewrite map3_length, Hl, Hlm, Hld. now rewrite !Nat.min_id. }
    apply (sqdist_pos _ _ c u v).
    + etransitivity; [exact (Hlen p Hp)|symmetry; exact (Hlen j Hj)].
    + now apply Hrowfin.
    + now apply Hrowfin.
    + exact (eq_ind_r (fun z => c < z) Hc (Hlen p Hp)).
    + etransitivity; [exact (f_equal (fun l : list eq => nth c l ENaN) Erp)|].
      etransitivity; [apply (nth_map3 normf _ _ _ c ENaN ENaN ENaN ENaN); lia|]. now rewrite Ha, Hcm, Hce.
    + etransitivity; [exact (f_equal (fun l : list eq => nth c l ENaN) Erj)|].
      etransitivity; [apply (nth_map3 normf _ _ _ c ENaN ENaN ENaN ENaN); lia|]. now rewrite Hb, Hcm, Hce.
    + exact Huv.
Qed.

(* ---------- misc/mnn.py as a whole ---------- *)
Theorem fallback_mnn_is_greedy_nearest_neighbour (twonn : bool) F m nr :
  fin_matrix F m -> 2 <= m -> length (hd [] F) = m -> (if twonn then 2 else m) < length F -> no_duplicates F m ->
  let n := length F in
  let M := if twonn then 2 else m in
  let ext := extremes_of (X := E) F in
  let Xn := normalize (X := E) true F in
  let D0 := map (fun a => map (fun b => sqdist (X := E) a b) Xn) Xn in
  let d0 := set_inf (X := E) ext (map (mnn_row (X := E) M) D0) in
  is_def M ext D0 (seq 0 n) d0 /\
  greedy n M ext D0 (clamp_remove nr n m - 1) (seq 0 n) d0 (mnn_remaining twonn F nr) (fallback_mnn (X := E) twonn F nr) /\
  is_def M ext D0 (mnn_remaining twonn F nr) (fallback_mnn (X := E) twonn F nr).
Proof.
  intros HF Hm Hhd HnM Hnodup. assert (Hne : F <> []) by (intro Hx; rewrite Hx in Hhd; cbn in Hhd; lia).
  pose proof (tiefree_of_no_duplicates F m HF Hne Hhd Hnodup) as Htf. cbv zeta in Htf.
  unfold fallback_mnn, mnn_remaining. change (T (base E)) with eq in *. rewrite Hhd.
  set (n := length F) in *. set (M := if twonn then 2 else m) in *.
  assert (HM : M <= m) by (unfold M; destruct twonn; lia).
  assert (EnM : (n <=? M) = false) by (apply Nat.leb_gt; exact HnM). rewrite EnM. cbv zeta.
  pose proof (clamp_remove_le nr n m) as Hnr.
  destruct (normalize_fin F m HF Hne Hhd) as [HXf HXl]. set (Xn := normalize (X := E) true F) in *. fold n in HXl.
  set (D := map (fun a => map (fun b => sqdist (X := E) a b) Xn) Xn) in *.
  assert (HDl : length D = n) by (unfold D; now rewrite map_length).
  assert (HDr : Forall (rowinv n (seq 0 n)) D).
  { unfold D. apply Forall_forall. intros row Hr. apply in_map_iff in Hr as (a & <- & Ha). apply rowinv_full; [now rewrite map_length|].
    rewrite Forall_forall in HXf. apply Forall_forall. intros y Hy. apply in_map_iff in Hy as (b & <- & Hb). apply sqdist_finnn; auto. }
  assert (Hnd : NoDup (seq 0 n)) by apply seq_NoDup.
  assert (Hlt : forall i, In i (seq 0 n) -> i < n) by (intros i Hi; apply in_seq in Hi; lia).
  assert (Hmask : masked n D (seq 0 n) D).
  { intros p j Hp Hj. assert (Hmj : memb j (seq 0 n) = true) by (apply memb_In, in_seq; lia). now rewrite Hmj. }
  set (ext := extremes_of (X := E) F).
  pose proof (extremes_range F m HF Hne Hhd) as Hrange. fold n ext in Hrange.
  set (d0 := set_inf (X := E) ext (map (mnn_row (X := E) M) D)).
  assert (Hd0g : Forall good (map (mnn_row (X := E) M) D)).
  { apply Forall_forall. intros y Hy. apply in_map_iff in Hy as (row & <- & Hr). rewrite Forall_forall in HDr. pose proof (HDr row Hr) as Hrow.
    apply finnn_good. apply mnn_row_finnn; [exact (cells_good _ _ _ Hrow)|].
    rewrite (cells_nfin _ _ _ Hrow), (memb_count n _ Hnd Hlt), seq_length. lia. }
  assert (Hld0 : length d0 = n) by (unfold d0; rewrite set_inf_length, map_length; exact HDl).
  assert (Hext0 : forall i, In i ext -> i < n -> nth i d0 ENaN = PInf).
  { intros i Hi Hin. unfold d0. apply set_inf_pinf; [assumption|]. rewrite map_length. exact (eq_ind_r (fun z => i < z) Hin HDl). }
  assert (Hval0 : forall p, In p (seq 0 n) -> ~ In p ext -> nth p d0 ENaN = mnn_row (X := E) M (nth p D [])).
  { intros p Hp Hpe. unfold d0. rewrite set_inf_other by assumption.
    assert (Hpn : p < n) by (now apply Hlt).
    apply (nth_map_d (mnn_row (X := E) M) D p [] ENaN). rewrite HDl. exact Hpn. }
  destruct Htf as [Hdiag Hoff]. fold n in Hdiag, Hoff.
  assert (Hdef0 : is_def M ext D (seq 0 n) d0).
  { intros p Hp. pose proof (Hlt p Hp) as Hpn. split; [intro Hpe; now apply Hext0|]. intro Hpe.
    refine (eq_ind_r (fun z => nn_product M (dist0 D p) (seq 0 n) p z) _ (Hval0 p Hp Hpe)).
    apply (nn_product_ext M (fun j => nth j (nth p D []) ENaN)); [intros j Hj; reflexivity|].
    apply (mnn_row_neighbours M n); try assumption.
    - rewrite Forall_forall in HDr. apply HDr, nth_In. rewrite HDl. exact Hpn.
    - rewrite seq_length. lia.
    - exact (Hdiag p Hpn).
    - intros j Hj Hjp. exact (Hoff p j Hpn (Hlt j Hj) Hjp). }
  split; [exact Hdef0|].
  match goal with |- context [mnn_loop ?a ?b ?c ?e ?f ?g] => rewrite <- (mnn_loop_H_fst a b c e f g) end.
  apply (mnn_loop_greedy n M ext D (clamp_remove nr n m - 1)); try assumption.
  - split; assumption.
  - rewrite seq_length. lia.
  - unfold d0. now apply set_inf_good.
Qed.

(* C15, pruning clause for the pure-Python mnn / 2nn: the points missing from [mnn_remaining] were removed one at a time, each
   a least crowded point of its time with all values as defined with respect to the points then remaining (greedy), and in
   the vector handed to RankAndCrowding each of them is <= every remaining point, so the descending cut drops exactly them
   (and then the least crowded remaining point), whatever the order among equal values. *)
Theorem fallback_mnn_prunes_one_at_a_time (twonn : bool) F m nr :
  fin_matrix F m -> 2 <= m -> length (hd [] F) = m -> (if twonn then 2 else m) < length F -> no_duplicates F m ->
  let n := length F in
  let M := if twonn then 2 else m in
  let ext := extremes_of (X := E) F in
  let Xn := normalize (X := E) true F in
  let D0 := map (fun a => map (fun b => sqdist (X := E) a b) Xn) Xn in
  let d0 := set_inf (X := E) ext (map (mnn_row (X := E) M) D0) in
  let d := fallback_mnn (X := E) twonn F nr in
  let Hf := mnn_remaining twonn F nr in
  greedy n M ext D0 (clamp_remove nr n m - 1) (seq 0 n) d0 Hf d /\
  NoDup Hf /\ length Hf + (clamp_remove nr n m - 1) = n /\
  forall r p, r < n -> ~ In r Hf -> In p Hf -> gle (nth r d ENaN) (nth p d ENaN).
Proof.
  intros HF Hm Hhd HnM Hnodup. cbv zeta.
  destruct (fallback_mnn_is_greedy_nearest_neighbour twonn F m nr HF Hm Hhd HnM Hnodup) as (_ & Hgr & _).
  destruct (fallback_mnn_pruning_order twonn F m nr HF Hm Hhd HnM) as (Hnd & _ & Hlen & Hord).
  split; [exact Hgr|]. split; [exact Hnd|]. split; [exact Hlen|exact Hord].
Qed.
