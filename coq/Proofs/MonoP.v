(* C15, "pruning one at a time" for the mnn / 2nn metrics of the pure-Python engine: removing a point never decreases the
   crowding value of a remaining point (the M nearest-neighbour distances can only be replaced by larger ones).  Hence the
   value a point had when it was removed - the minimum at that time - stays below the final values of all remaining
   points: cutting the final vector at its smallest values drops exactly the points the loop removed (plus the least
   crowded remaining one), whatever the tie-break among equal values. *)
From Coq Require Import List Bool Arith ZArith Lia QArith Lqa Permutation Sorted.
From PV Require Import Base.Num Base.NumEQ Base.Res Base.ListX Model.Crowding Model.Fallback
  Proofs.CrowdingP Proofs.CdP Proofs.FallbackP Proofs.BoundaryP.
Import ListNotations.
Local Open Scope nat_scope.
Local Arguments qsign : simpl never.

(* ---------- the order on good values (finite non-negative or +inf) ---------- *)
Definition gle (a b : eq) : Prop :=
  match a, b with
  | Fin x, Fin y => (x <= y)%Q
  | Fin _, PInf => True
  | PInf, PInf => True
  | _, _ => False
  end.

Lemma gle_refl a : good a -> gle a a.
Proof. intros [->|(q & -> & _)]; cbn; [exact I|lra]. Qed.

Lemma gle_trans a b c : gle a b -> gle b c -> gle a c.
Proof. destruct a, b, c; cbn; try tauto; try lra. Qed.

Lemma ltb_false_gle x h : good x -> good h -> eltb x h = false -> gle h x.
Proof.
  intros [->|(a & -> & _)] [->|(b & -> & _)]; cbn; try tauto; try discriminate.
  intro H. apply negb_false_iff in H. now apply Qle_bool_iff in H.
Qed.

Lemma ltb_true_gle x h : good x -> good h -> eltb x h = true -> gle x h.
Proof.
  intros [->|(a & -> & _)] [->|(b & -> & _)]; cbn; try tauto; try discriminate.
  intro H. apply negb_true_iff in H. assert (~ (b <= a)%Q) by (intro Hx; apply Qle_bool_iff in Hx; congruence). lra.
Qed.

Definition dom (l l' : list eq) : Prop := Forall2 gle l l'.
Definition gsorted (l : list eq) : Prop := StronglySorted gle l.

Lemma ins_good x l : good x -> Forall good l -> Forall good (ins_val (X := E) x l).
Proof.
  intros Hx. induction l as [|h t IH]; intro Hl; cbn; [now constructor|].
  destruct (eltb x h); [now constructor|]. constructor; [exact (Forall_inv Hl)|apply IH; exact (Forall_inv_tail Hl)].
Qed.

Lemma ins_In x l y : In y (ins_val (X := E) x l) -> y = x \/ In y l.
Proof.
  induction l as [|h t IH]; cbn; [intros [<-|[]]; now left|].
  destruct (eltb x h); cbn; [intros [<-|[<-|H]]; [now left|right; now left|right; now right]|].
  intros [<-|H]; [right; now left|]. destruct (IH H) as [->|H']; [now left|right; now right].
Qed.

Lemma ins_gsorted x l : good x -> Forall good l -> gsorted l -> gsorted (ins_val (X := E) x l).
Proof.
  intros Hx. induction l as [|h t IH]; intros Hl Hs; cbn; [repeat constructor|].
  pose proof (Forall_inv Hl) as Hh. pose proof (Forall_inv_tail Hl) as Ht. inversion Hs as [|? ? Hs' Hall]; subst.
  destruct (eltb x h) eqn:El.
  - constructor; [assumption|]. pose proof (ltb_true_gle x h Hx Hh El) as Hxh. constructor; [assumption|].
    apply Forall_forall. intros y Hy. rewrite Forall_forall in Hall. exact (gle_trans _ _ _ Hxh (Hall y Hy)).
  - constructor; [now apply IH|]. apply Forall_forall. intros y Hy. destruct (ins_In _ _ _ Hy) as [->|Hy'].
    + now apply ltb_false_gle.
    + rewrite Forall_forall in Hall. now apply Hall.
Qed.

(* insertion preserves pointwise domination *)
Lemma gsorted_inv h t : gsorted (h :: t) -> gsorted t /\ Forall (gle h) t.
Proof. intro H. inversion H; subst. split; assumption. Qed.

Lemma dom_ins_B : forall t' t h x', Forall good t -> Forall good t' -> good h -> good x' ->
  dom t t' -> gsorted (h :: t) -> gsorted t' -> gle h x' -> (forall y, In y t' -> gle h y) ->
  dom (h :: t) (ins_val (X := E) x' t').
Proof.
  induction t' as [|g' u' IH]; intros t h x' Ht Ht' Hh Hx' Hd Hs Hs' Hhx Hall.
  - inversion Hd; subst. cbn. repeat constructor. assumption.
  - inversion Hd as [|g ? u ? Hgg Hdu]; subst. cbn. destruct (gsorted_inv _ _ Hs') as [Hsu' Hall'].
    pose proof (Forall_inv Ht') as Hg'. pose proof (Forall_inv Ht) as Hg. destruct (gsorted_inv _ _ Hs) as [Hsgu Hhall].
    destruct (eltb x' g') eqn:El.
    + constructor; [assumption|]. constructor; assumption.
    + constructor; [apply Hall; now left|].
      apply IH; try assumption; [exact (Forall_inv_tail Ht)|exact (Forall_inv_tail Ht')| |].
      * exact (gle_trans _ _ _ Hgg (ltb_false_gle x' g' Hx' Hg' El)).
      * intros y Hy. rewrite Forall_forall in Hall'. exact (gle_trans _ _ _ Hgg (Hall' y Hy)).
Qed.

Lemma dom_ins_C : forall t t' x h', Forall good t -> Forall good t' -> good x -> good h' ->
  dom t t' -> gsorted t -> gsorted (h' :: t') -> gle x h' -> dom (ins_val (X := E) x t) (h' :: t').
Proof.
  induction t as [|g u IH]; intros t' x h' Ht Ht' Hx Hh' Hd Hs Hs' Hxh.
  - inversion Hd; subst. cbn. repeat constructor. assumption.
  - inversion Hd as [|? g' ? u' Hgg Hdu]; subst. cbn. destruct (gsorted_inv _ _ Hs') as [Hsgu' Hall'].
    pose proof (Forall_inv Ht) as Hg. pose proof (Forall_inv Ht') as Hg'. destruct (gsorted_inv _ _ Hs) as [Hsu _].
    destruct (eltb x g) eqn:El.
    + constructor; [assumption|]. constructor; assumption.
    + constructor; [exact (gle_trans _ _ _ (ltb_false_gle x g Hx Hg El) Hxh)|].
      apply IH; try assumption; [exact (Forall_inv_tail Ht)|exact (Forall_inv_tail Ht')|].
      exact (gle_trans _ _ _ Hxh (Forall_inv Hall')).
Qed.

Lemma dom_ins : forall a a' x x', Forall good a -> Forall good a' -> good x -> good x' ->
  dom a a' -> gsorted a -> gsorted a' -> gle x x' -> dom (ins_val (X := E) x a) (ins_val (X := E) x' a').
Proof.
  induction a as [|h t IH]; intros a' x x' Ha Ha' Hx Hx' Hd Hs Hs' Hxx.
  - inversion Hd; subst. cbn. repeat constructor. assumption.
  - inversion Hd as [|? h' ? t' Hhh Hdt]; subst. cbn.
    pose proof (Forall_inv Ha) as Hh. pose proof (Forall_inv Ha') as Hh'.
    destruct (gsorted_inv _ _ Hs) as [Hst Hhall]. destruct (gsorted_inv _ _ Hs') as [Hst' Hhall'].
    destruct (eltb x h) eqn:E1; destruct (eltb x' h') eqn:E2.
    + constructor; [assumption|]. constructor; assumption.
    + constructor; [exact (gle_trans _ _ _ (ltb_true_gle x h Hx Hh E1) Hhh)|].
      apply dom_ins_B; try assumption; [exact (Forall_inv_tail Ha)|exact (Forall_inv_tail Ha')| |].
      * exact (gle_trans _ _ _ Hhh (ltb_false_gle x' h' Hx' Hh' E2)).
      * intros y Hy. rewrite Forall_forall in Hhall'. exact (gle_trans _ _ _ Hhh (Hhall' y Hy)).
    + constructor; [exact (gle_trans _ _ _ (ltb_false_gle x h Hx Hh E1) Hxx)|].
      apply dom_ins_C; try assumption; [exact (Forall_inv_tail Ha)|exact (Forall_inv_tail Ha')|].
      exact (gle_trans _ _ _ Hxx (ltb_true_gle x' h' Hx' Hh' E2)).
    + constructor; [assumption|]. apply IH; try assumption; [exact (Forall_inv_tail Ha)|exact (Forall_inv_tail Ha')].
Qed.

(* sorting two pointwise-dominated rows gives pointwise-dominated sorted rows *)
Lemma dom_fold : forall l l' acc acc', Forall good l -> Forall good l' -> Forall good acc -> Forall good acc' ->
  dom l l' -> dom acc acc' -> gsorted acc -> gsorted acc' ->
  dom (fold_left (fun a x => ins_val (X := E) x a) l acc) (fold_left (fun a x => ins_val (X := E) x a) l' acc').
Proof.
  induction l as [|x l IH]; intros l' acc acc' Hl Hl' Ha Ha' Hd Hda Hs Hs'.
  - inversion Hd; subst. cbn. assumption.
  - inversion Hd as [|? x' ? l0' Hxx Hdl]; subst. cbn [fold_left].
    pose proof (Forall_inv Hl) as Hx. pose proof (Forall_inv Hl') as Hx'.
    apply IH; [exact (Forall_inv_tail Hl)|exact (Forall_inv_tail Hl')|now apply ins_good|now apply ins_good|assumption| | |].
    + now apply dom_ins.
    + now apply ins_gsorted.
    + now apply ins_gsorted.
Qed.

Lemma dom_sort l l' : Forall good l -> Forall good l' -> dom l l' -> dom (sort_vals (X := E) l) (sort_vals (X := E) l').
Proof. intros Hl Hl' Hd. unfold sort_vals. apply dom_fold; try assumption; constructor. Qed.

(* ---------- the value of one point never decreases when another point is removed ---------- *)
Lemma sorted_prefix_finnn M row : Forall good row -> M + 1 <= nfin row -> Forall finnn (firstn M (tl (sort_vals (X := E) row))).
Proof.
  intros Hg Hn. unfold sort_vals.
  assert (Hs : shape (fold_left (fun a x => ins_val (X := E) x a) row [])).
  { apply sort_fold_shape; [assumption|]. exists [], []. repeat split; constructor. }
  pose proof (sort_fold_perm row []) as Hp. cbn [app] in Hp. apply nfin_perm in Hp.
  destruct Hs as (a & b & Heq & Ha & Hb). rewrite Heq in *. rewrite (nfin_shape a b Ha Hb) in Hp.
  destruct a as [|x a']; [cbn in Hp; lia|]. cbn [app tl]. cbn [length] in Hp.
  rewrite firstn_app. replace (M - length a') with 0 by lia. cbn [firstn]. rewrite app_nil_r.
  apply Forall_firstn. now inversion Ha.
Qed.

Lemma dom_tl l l' : dom l l' -> dom (tl l) (tl l').
Proof. intro H. inversion H; subst; cbn; [constructor|assumption]. Qed.

Lemma dom_firstn n : forall l l', dom l l' -> dom (firstn n l) (firstn n l').
Proof. induction n as [|n IH]; intros l l' H; cbn; [constructor|]. inversion H; subst; [constructor|]. constructor; [assumption|now apply IH]. Qed.

Lemma prod_mono l : forall l', Forall finnn l -> Forall finnn l' -> dom l l' -> gle (prod_lr (X := E) l) (prod_lr (X := E) l').
Proof.
  intros l' Hl Hl' Hd. destruct Hd as [|x x' t t' Hxx Hd]; [cbn; lra|]. cbn [prod_lr].
  pose proof (Forall_inv Hl) as Hx. pose proof (Forall_inv Hl') as Hx'. pose proof (Forall_inv_tail Hl) as Ht. pose proof (Forall_inv_tail Hl') as Ht'.
  clear Hl Hl'. revert x x' Hxx Hx Hx'. induction Hd as [|y y' u u' Hyy Hd IH]; intros x x' Hxx Hx Hx'; cbn [fold_left]; [assumption|].
  pose proof (Forall_inv Ht) as Hy. pose proof (Forall_inv Ht') as Hy'.
  apply IH; [exact (Forall_inv_tail Ht)|exact (Forall_inv_tail Ht')| |now apply finnn_mul|now apply finnn_mul].
  destruct Hx as (a & -> & Ha). destruct Hx' as (a' & -> & Ha'). destruct Hy as (b & -> & Hb). destruct Hy' as (b' & -> & Hb'). cbn in *. nra.
Qed.

Lemma mnn_row_mono M row row' : Forall good row -> Forall good row' -> dom row row' -> M + 1 <= nfin row -> M + 1 <= nfin row' ->
  gle (mnn_row (X := E) M row) (mnn_row (X := E) M row').
Proof.
  intros Hg Hg' Hd Hn Hn'. unfold mnn_row. apply prod_mono; [now apply sorted_prefix_finnn|now apply sorted_prefix_finnn|].
  apply dom_firstn, dom_tl. now apply dom_sort.
Qed.

(* setting one entry of a row to +inf dominates the row *)
Lemma dom_set_inf_entry (row : list eq) : forall k, Forall good row -> dom row (set_nth k PInf row).
Proof.
  induction row as [|h t IH]; intros k Hg; [destruct k; constructor|].
  pose proof (Forall_inv Hg) as Hh. destruct k; cbn.
  - constructor; [destruct Hh as [->|(q & -> & _)]; exact I|]. clear - Hg. induction t as [|y t IH]; constructor.
    + apply gle_refl. exact (Forall_inv (Forall_inv_tail Hg)).
    + apply IH. constructor; [exact (Forall_inv Hg)|exact (Forall_inv_tail (Forall_inv_tail Hg))].
  - constructor; [now apply gle_refl|]. apply IH. exact (Forall_inv_tail Hg).
Qed.

(* ---------- the pruning loop, with the set of remaining points exposed ---------- *)
Fixpoint mnn_loop_H (fuel M : nat) (ext : list nat) (D : list (list eq)) (d : list eq) (H : list nat) : list eq * list nat :=
  match fuel with
  | O => (d, H)
  | S fuel' =>
      let k := drop_first_min (X := E) d H in
      let H' := filter (fun i => negb (i =? k)) H in
      let D' := map (fun row => set_nth k (pinf E) row) D in
      let d' := fold_left (fun acc i => set_nth i (mnn_row (X := E) M (nth i D' [])) acc) H' d in
      mnn_loop_H fuel' M ext D' (set_inf (X := E) ext d') H'
  end.

Lemma mnn_loop_H_fst fuel M ext : forall D d H, fst (mnn_loop_H fuel M ext D d H) = mnn_loop (X := E) fuel M ext D d H.
Proof. induction fuel as [|fuel IH]; intros D d H; cbn [mnn_loop_H mnn_loop]; [reflexivity|]. apply IH. Qed.

Lemma drop_first_min_is_min (d : list eq) H : H <> [] -> Forall good d -> (forall i, In i H -> i < length d) ->
  forall p, In p H -> gle (nth (drop_first_min (X := E) d H) d ENaN) (nth p d ENaN).
Proof.
  intros Hne Hg Hlt. destruct H as [|h t]; [congruence|]. unfold drop_first_min.
  assert (Hgd : forall i, i < length d -> good (nth i d ENaN)) by (intros i Hi; rewrite Forall_forall in Hg; apply Hg, nth_In, Hi).
  assert (G : forall l k seen, (forall i, In i l -> i < length d) -> k < length d -> (forall p, In p seen -> gle (nth k d ENaN) (nth p d ENaN)) ->
              In k seen -> (forall i, In i seen -> i < length d) ->
              forall p, In p (seen ++ l) ->
              gle (nth (fold_left (fun k i => if ltb (base E) (nth i d ENaN) (nth k d ENaN) then i else k) l k) d ENaN) (nth p d ENaN)).
  { induction l as [|x l IH]; intros k seen Hl Hk Hmin Hks Hseen p Hp; cbn [fold_left].
    - rewrite app_nil_r in Hp. now apply Hmin.
    - assert (Hx : x < length d) by (apply Hl; now left).
      assert (Hp' : In p ((seen ++ [x]) ++ l)) by (rewrite <- app_assoc; exact Hp).
      destruct (ltb (base E) (nth x d ENaN) (nth k d ENaN)) eqn:El.
      + apply (IH x (seen ++ [x])); try assumption.
        * intros i Hi. apply Hl. now right.
        * intros q Hq. apply in_app_or in Hq. destruct Hq as [Hq|[<-|[]]].
          -- exact (gle_trans _ _ _ (ltb_true_gle _ _ (Hgd x Hx) (Hgd k Hk) El) (Hmin q Hq)).
          -- apply gle_refl. now apply Hgd.
        * apply in_or_app. right. now left.
        * intros i Hi. apply in_app_or in Hi. destruct Hi as [Hi|[<-|[]]]; [now apply Hseen|assumption].
      + apply (IH k (seen ++ [x])); try assumption.
        * intros i Hi. apply Hl. now right.
        * intros q Hq. apply in_app_or in Hq. destruct Hq as [Hq|[<-|[]]]; [now apply Hmin|].
          exact (ltb_false_gle _ _ (Hgd x Hx) (Hgd k Hk) El).
        * apply in_or_app. now left.
        * intros i Hi. apply in_app_or in Hi. destruct Hi as [Hi|[<-|[]]]; [now apply Hseen|assumption]. }
  intros p Hp. apply (G t h [h]).
  - intros i Hi. apply Hlt. now right.
  - apply Hlt. now left.
  - intros q [<-|[]]. apply gle_refl. apply Hgd. apply Hlt. now left.
  - now left.
  - intros i [<-|[]]. apply Hlt. now left.
  - exact Hp.
Qed.

Lemma good_gle_pinf a : good a -> gle a PInf.
Proof. intros [->|(q & -> & _)]; exact I. Qed.

Lemma set_nth_nil {A} k (a : A) : set_nth k a [] = [].
Proof. destruct k; reflexivity. Qed.

Lemma nth_map_set k (D : list (list eq)) p : nth p (map (fun row => set_nth k (pinf E) row) D) [] = set_nth k PInf (nth p D []).
Proof.
  destruct (lt_dec p (length D)) as [Hp|Hp].
  - rewrite (nth_indep _ [] (set_nth k (pinf E) [])) by (now rewrite map_length). now rewrite (map_nth (fun row => set_nth k (pinf E) row)).
  - rewrite (nth_overflow (map _ D)) by (rewrite map_length; lia). rewrite (nth_overflow D) by lia. now rewrite set_nth_nil.
Qed.

Lemma existsb_eqb_In i l : existsb (Nat.eqb i) l = true <-> In i l.
Proof.
  rewrite existsb_exists. split.
  - intros (x & Hx & He). apply Nat.eqb_eq in He. now subst.
  - intro Hi. exists i. split; [assumption|apply Nat.eqb_refl].
Qed.

Lemma mnn_loop_order n M ext fuel : forall D d H,
  NoDup H -> (forall i, In i H -> i < n) -> fuel + M + 1 <= length H ->
  length D = n -> Forall (rowinv n H) D -> length d = n -> Forall good d ->
  (forall i, In i ext -> i < n -> nth i d ENaN = PInf) ->
  (forall p, In p H -> ~ In p ext -> nth p d ENaN = mnn_row (X := E) M (nth p D [])) ->
  (forall r p, r < n -> ~ In r H -> In p H -> gle (nth r d ENaN) (nth p d ENaN)) ->
  let res := mnn_loop_H fuel M ext D d H in
  incl (snd res) H /\
  forall r p, r < n -> ~ In r (snd res) -> In p (snd res) -> gle (nth r (fst res) ENaN) (nth p (fst res) ENaN).
Proof.
  induction fuel as [|fuel IH]; intros D d H Hnd Hlt Hlen HD Hrows Hd Hg Hext Hval Hord; cbn [mnn_loop_H].
  - cbn [fst snd]. split; [apply incl_refl|exact Hord].
  - cbv zeta. set (k := drop_first_min (X := E) d H).
    assert (Hne : H <> []) by (destruct H; [cbn in Hlen; lia|discriminate]).
    assert (Hk : In k H) by (now apply drop_first_min_In).
    assert (Hkmin : forall p, In p H -> gle (nth k d ENaN) (nth p d ENaN)).
    { apply drop_first_min_is_min; [assumption|assumption|]. intros i Hi. rewrite Hd. now apply Hlt. }
    change (filter (fun i => negb (i =? k)) H) with (without k H).
    pose proof (without_length k H Hnd Hk) as Hwl.
    set (D' := map (fun row => set_nth k (pinf E) row) D).
    assert (HD' : length D' = n) by (unfold D'; now rewrite map_length).
    assert (Hrows' : Forall (rowinv n (without k H)) D').
    { unfold D'. apply Forall_forall. intros row Hr. apply in_map_iff in Hr as (r0 & <- & Hr0).
      rewrite Forall_forall in Hrows. apply rowinv_set. now apply Hrows. }
    assert (Hnd' : NoDup (without k H)) by (now apply NoDup_filter).
    assert (Hlt' : forall i, In i (without k H) -> i < n) by (intros i Hi; apply filter_In in Hi; apply Hlt; tauto).
    assert (Hsub : forall i, In i (without k H) -> In i H /\ i <> k).
    { intros i Hi. apply filter_In in Hi as [Hi Hne']. split; [assumption|]. apply negb_true_iff in Hne'. now apply Nat.eqb_neq in Hne'. }
    set (g := fun i => mnn_row (X := E) M (nth i D' [])).
    assert (Hrow : forall i, i < n -> rowinv n H (nth i D [])) by (intros i Hi; rewrite Forall_forall in Hrows; apply Hrows, nth_In; lia).
    assert (Hrow' : forall i, i < n -> rowinv n (without k H) (nth i D' [])) by (intros i Hi; rewrite Forall_forall in Hrows'; apply Hrows', nth_In; lia).
    assert (Hnf : forall i, i < n -> nfin (nth i D []) = length H) by (intros i Hi; rewrite (cells_nfin _ _ _ (Hrow i Hi)); now apply memb_count).
    assert (Hnf' : forall i, i < n -> nfin (nth i D' []) = length (without k H)) by (intros i Hi; rewrite (cells_nfin _ _ _ (Hrow' i Hi)); now apply memb_count).
    assert (Hgfin : forall i, In i (without k H) -> finnn (g i)).
    { intros i Hi. pose proof (Hlt' i Hi) as Hin. apply mnn_row_finnn; [exact (cells_good _ _ _ (Hrow' i Hin))|]. rewrite (Hnf' i Hin). lia. }
    destruct (fold_write_good g (without k H) d) as [Hg' Hl']; [intros i Hi; apply finnn_good; now apply Hgfin|assumption|].
    set (d' := fold_left (fun acc i => set_nth i (g i) acc) (without k H) d) in *.
    assert (Hld' : length d' = n) by (etransitivity; [exact Hl'|exact Hd]).
    set (d'' := set_inf (X := E) ext d').
    assert (Hld'' : length d'' = n) by (unfold d''; rewrite set_inf_length; exact Hld').
    assert (Hg'' : Forall good d'') by (unfold d''; now apply set_inf_good).
    assert (Hext'' : forall i, In i ext -> i < n -> nth i d'' ENaN = PInf).
    { intros i Hi Hin. unfold d''. apply set_inf_pinf; [assumption|]. rewrite Hld'. exact Hin. }
    (* the value of every index after the step *)
    assert (Hnew : forall i, i < n -> nth i d'' ENaN = if in_dec Nat.eq_dec i ext then PInf else if existsb (Nat.eqb i) (without k H) then g i else nth i d ENaN).
    { intros i Hi. destruct (in_dec Nat.eq_dec i ext) as [Hie|Hie]; [now apply Hext''|].
      unfold d''. rewrite set_inf_other by assumption. unfold d'. apply fold_write_nth. rewrite Hd. exact Hi. }
    assert (Hgood_d : forall i, i < n -> good (nth i d ENaN)) by (intros i Hi; rewrite Forall_forall in Hg; apply Hg, nth_In; rewrite Hd; exact Hi).
    (* monotone: a remaining point never loses crowding *)
    assert (Hmono : forall p, In p (without k H) -> gle (nth p d ENaN) (nth p d'' ENaN)).
    { intros p Hp. destruct (Hsub p Hp) as [HpH Hpk]. pose proof (Hlt p HpH) as Hpn. rewrite (Hnew p Hpn).
      destruct (in_dec Nat.eq_dec p ext) as [Hpe|Hpe]; [apply good_gle_pinf; now apply Hgood_d|].
      assert (Ex : existsb (Nat.eqb p) (without k H) = true) by (now apply existsb_eqb_In). rewrite Ex.
      rewrite (Hval p HpH Hpe). unfold g, D'. rewrite nth_map_set.
      apply mnn_row_mono.
      - exact (cells_good _ _ _ (Hrow p Hpn)).
      - pose proof (cells_good _ _ _ (Hrow' p Hpn)) as Hx. unfold D' in Hx. rewrite nth_map_set in Hx. exact Hx.
      - apply dom_set_inf_entry. exact (cells_good _ _ _ (Hrow p Hpn)).
      - rewrite (Hnf p Hpn). lia.
      - pose proof (Hnf' p Hpn) as Hx. unfold D' in Hx. rewrite nth_map_set in Hx. rewrite Hx. lia. }
    (* a removed point keeps its value *)
    assert (Hkeep : forall r, r < n -> ~ In r (without k H) -> nth r d'' ENaN = nth r d ENaN).
    { intros r Hr Hnr. rewrite (Hnew r Hr). destruct (in_dec Nat.eq_dec r ext) as [Hre|Hre]; [symmetry; now apply Hext|].
      destruct (existsb (Nat.eqb r) (without k H)) eqn:Ex; [apply existsb_eqb_In in Ex; contradiction|reflexivity]. }
    destruct (IH D' d'' (without k H)) as [Hincl Hfinal]; try assumption.
    + lia.
    + intros p Hp Hpe. pose proof (Hlt' p Hp) as Hpn. etransitivity; [exact (Hnew p Hpn)|]. destruct (in_dec Nat.eq_dec p ext) as [Hx|_]; [contradiction|].
      assert (Ex : existsb (Nat.eqb p) (without k H) = true) by (now apply existsb_eqb_In). now rewrite Ex.
    + intros r p Hr Hnr Hp. destruct (Hsub p Hp) as [HpH Hpk].
      refine (eq_ind_r (fun z => gle z (nth p d'' ENaN)) _ (Hkeep r Hr Hnr)).
      apply (gle_trans _ (nth p d ENaN)); [|now apply Hmono].
      destruct (in_dec Nat.eq_dec r H) as [HrH|HrH].
      * assert (r = k). { destruct (Nat.eq_dec r k) as [E|E]; [assumption|]. exfalso. apply Hnr. apply filter_In. split; [assumption|]. apply negb_true_iff. now apply Nat.eqb_neq. }
        subst r. now apply Hkmin.
      * now apply Hord.
    + split; [|exact Hfinal]. intros i Hi. apply Hincl in Hi. now apply (Hsub i Hi).
Qed.

Lemma mnn_loop_H_length M ext fuel : forall D d H, NoDup H -> fuel + 1 <= length H ->
  length (snd (mnn_loop_H fuel M ext D d H)) + fuel = length H /\ NoDup (snd (mnn_loop_H fuel M ext D d H)).
Proof.
  induction fuel as [|fuel IH]; intros D d H Hnd Hlen; cbn [mnn_loop_H]; [cbn; split; [lia|assumption]|]. cbv zeta.
  set (k := drop_first_min (X := E) d H).
  assert (Hk : In k H) by (apply drop_first_min_In; destruct H; [cbn in Hlen; lia|discriminate]).
  change (filter (fun i => negb (i =? k)) H) with (without k H).
  pose proof (without_length k H Hnd Hk) as Hwl.
  destruct (IH (map (fun row => set_nth k (pinf E) row) D)
               (set_inf (X := E) ext (fold_left (fun acc i => set_nth i (mnn_row (X := E) M (nth i (map (fun row => set_nth k (pinf E) row) D) [])) acc) (without k H) d))
               (without k H)) as [H1 H2]; [now apply NoDup_filter|lia|].
  split; [lia|assumption].
Qed.

(* the remaining points after the loop of misc/mnn.py *)
Definition mnn_remaining (twonn : bool) (F : list (list eq)) (n_remove : Z) : list nat :=
  let n := length F in let m := length (hd [] F) in
  let nr := clamp_remove n_remove n m in
  let M := if twonn then 2 else m in
  let ext := extremes_of (X := E) F in
  let Xn := normalize (X := E) true F in
  let D := map (fun a => map (fun b => sqdist (X := E) a b) Xn) Xn in
  let d := set_inf (X := E) ext (map (mnn_row (X := E) M) D) in
  snd (mnn_loop_H (nr - 1) M ext D d (seq 0 n)).

(* every point the loop removed ends with a value that is <= the final value of every remaining point *)
Theorem fallback_mnn_pruning_order (twonn : bool) F m nr : fin_matrix F m -> 2 <= m -> length (hd [] F) = m ->
  (if twonn then 2 else m) < length F ->
  let d := fallback_mnn (X := E) twonn F nr in
  let Hf := mnn_remaining twonn F nr in
  NoDup Hf /\ (forall i, In i Hf -> i < length F) /\
  length Hf + (clamp_remove nr (length F) m - 1) = length F /\
  forall r p, r < length F -> ~ In r Hf -> In p Hf -> gle (nth r d ENaN) (nth p d ENaN).
Proof.
  intros HF Hm Hhd HnM. assert (Hne : F <> []) by (intro Hx; rewrite Hx in Hhd; cbn in Hhd; lia).
  unfold fallback_mnn, mnn_remaining. change (T (base E)) with eq in *. rewrite Hhd.
  set (n := length F) in *. set (M := if twonn then 2 else m) in *.
  assert (HM : M <= m) by (unfold M; destruct twonn; lia).
  assert (EnM : (n <=? M) = false) by (apply Nat.leb_gt; exact HnM). rewrite EnM. cbv zeta.
  pose proof (clamp_remove_le nr n m) as Hnr.
  destruct (normalize_fin F m HF Hne Hhd) as [HXf HXl]. set (Xn := normalize (X := E) true F) in *. fold n in HXl.
  set (D := map (fun a => map (fun b => sqdist (X := E) a b) Xn) Xn).
  assert (HDl : length D = n) by (unfold D; now rewrite map_length).
  assert (HDr : Forall (rowinv n (seq 0 n)) D).
  { unfold D. apply Forall_forall. intros row Hr. apply in_map_iff in Hr as (a & <- & Ha). apply rowinv_full; [now rewrite map_length|].
    rewrite Forall_forall in HXf. apply Forall_forall. intros y Hy. apply in_map_iff in Hy as (b & <- & Hb). apply sqdist_finnn; auto. }
  assert (Hnd : NoDup (seq 0 n)) by apply seq_NoDup.
  assert (Hlt : forall i, In i (seq 0 n) -> i < n) by (intros i Hi; apply in_seq in Hi; lia).
  set (ext := extremes_of (X := E) F).
  pose proof (extremes_range F m HF Hne Hhd) as Hrange. fold n ext in Hrange.
  set (d0 := set_inf (X := E) ext (map (mnn_row (X := E) M) D)).
  assert (Hd0g : Forall good (map (mnn_row (X := E) M) D)).
  { apply Forall_forall. intros y Hy. apply in_map_iff in Hy as (row & <- & Hr). rewrite Forall_forall in HDr. pose proof (HDr row Hr) as Hrow.
    apply finnn_good. apply mnn_row_finnn; [exact (cells_good _ _ _ Hrow)|].
    rewrite (cells_nfin _ _ _ Hrow), (memb_count n _ Hnd Hlt), seq_length. lia. }
  assert (Hld0 : length d0 = n) by (unfold d0; rewrite set_inf_length, map_length; exact HDl).
  match goal with |- context [mnn_loop ?a ?b ?c ?e ?f ?g] => rewrite <- (mnn_loop_H_fst a b c e f g) end.
  destruct (mnn_loop_H_length M ext (clamp_remove nr n m - 1) D d0 (seq 0 n) Hnd) as [Hlen HndF]; [rewrite seq_length; lia|].
  rewrite seq_length in Hlen.
  destruct (mnn_loop_order n M ext (clamp_remove nr n m - 1) D d0 (seq 0 n)) as [Hincl Hord]; try assumption.
  - rewrite seq_length. lia.
  - unfold d0. now apply set_inf_good.
  - intros i Hi Hin. unfold d0. apply set_inf_pinf; [assumption|]. rewrite map_length. exact (eq_ind_r (fun z => i < z) Hin HDl).
  - intros p Hp Hpe. unfold d0. rewrite set_inf_other by assumption.
    assert (Hpn : p < n) by (now apply Hlt).
    rewrite (nth_indep _ ENaN (mnn_row (X := E) M [])) by (rewrite map_length; exact (eq_ind_r (fun z => p < z) Hpn HDl)). now rewrite map_nth.
  - intros r p Hr Hnr' Hp. exfalso. apply Hnr'. apply in_seq. lia.
  - split; [exact HndF|]. split; [intros i Hi; apply Hlt; now apply Hincl|]. split; [exact Hlen|exact Hord].
Qed.
