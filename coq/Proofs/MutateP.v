From Coq Require Import List Bool Arith Lia.
From PV Require Import Base.Num Base.Res Base.ListX Model.Repair Model.Mutate.
Import ListNotations.

Section Generic.
Context {N : num}.

(* where a scale-factor vector comes from *)
Definition F_from (fc : fcfg (N := N)) (n : nat) (F : list N) (s s' : list (event N)) : Prop :=
  match fc with
  | FScalar f => F = repeat f n /\ s' = s
  | FDither lo hi => exists us, length us = n /\ s = ERand [n] us :: s' /\ F = map (scale_of lo hi) us
  end.

Lemma scale_factor_spec fc n s F s' :
  scale_factor (N := N) fc n s = Ok (F, s') -> length F = n /\ F_from fc n F s s'.
Proof.
  destruct fc as [f|lo hi]; cbn.
  - intro H. apply ret_ok in H as [<- <-]. split; [apply repeat_length|split; reflexivity].
  - intro H. apply bind_ok in H as (us & s1 & Hd & H). apply draw_rand_ok in Hd as [-> Hl].
    apply ret_ok in H as [<- <-]. cbn in Hl. rewrite Nat.mul_1_r in Hl. split; [now rewrite map_length|].
    exists us. auto.
Qed.

Definition J_from (gamma : option N) (n v : nat) (J : option (matrix (N := N))) (s s' : list (event N)) : Prop :=
  match gamma with
  | None => J = None /\ s' = s
  | Some _ => exists us, length us = n * v /\ s = ERand [n; v] us :: s' /\ J = Some (reshape n v us)
  end.

Lemma draw_jitter_spec gamma n v s J s' :
  draw_jitter (N := N) gamma n v s = Ok (J, s') -> J_from gamma n v J s s'.
Proof.
  destruct gamma as [g|]; cbn.
  - intro H. apply bind_ok in H as (us & s1 & Hd & H). apply draw_rand_ok in Hd as [-> Hl].
    apply ret_ok in H as [<- <-]. exists us. cbn in Hl. repeat split; auto. lia.
  - intro H. apply ret_ok in H as [<- <-]. split; reflexivity.
Qed.

(* the factors of the k pairs, with the events they consumed, in order *)
Inductive factors_from (fc : fcfg (N := N)) (gamma : option N) (n v : nat) :
  list (list N * option matrix) -> list (event N) -> list (event N) -> Prop :=
| ff_nil s : factors_from fc gamma n v [] s s
| ff_cons F J FJ s s1 s2 s' :
    length F = n -> F_from fc n F s s1 -> J_from gamma n v J s1 s2 ->
    factors_from fc gamma n v FJ s2 s' ->
    factors_from fc gamma n v ((F, J) :: FJ) s s'.

Lemma draw_factors_spec fc gamma n v k : forall s FJ s',
  draw_factors (N := N) fc gamma n v k s = Ok (FJ, s') ->
  length FJ = k /\ factors_from fc gamma n v FJ s s'.
Proof.
  induction k as [|k IH]; cbn; intros s FJ s' H.
  - apply ret_ok in H as [<- <-]. split; [reflexivity|constructor].
  - apply bind_ok in H as (F & s1 & HF & H). apply bind_ok in H as (J & s2 & HJ & H).
    apply bind_ok in H as (rest & s3 & HR & H). apply ret_ok in H as [<- <-].
    apply scale_factor_spec in HF as [HlF HF]. apply draw_jitter_spec in HJ.
    apply IH in HR as [Hl HR]. cbn. split; [lia|]. econstructor; eauto.
Qed.

Lemma de_mutation_spec fc gamma X0 rest s V d s' :
  de_mutation (N := N) fc gamma (X0 :: rest) s = Ok ((V, d), s') ->
  let n := length X0 in let v := length (hd [] X0) in
  Nat.odd (length rest) = false /\
  exists FJ, length FJ = Nat.div2 (length rest) /\ factors_from fc gamma n v FJ s s' /\
             d = sum_diffs gamma rest FJ (zeros n v) /\ V = madd X0 d.
Proof.
  cbn [de_mutation]. destruct (Nat.odd (length rest)) eqn:Eo; [discriminate|].
  intro H. apply bind_ok in H as (FJ & s1 & HF & H). apply ret_ok in H as [H <-].
  inversion H; subst. apply draw_factors_spec in HF as [Hl HF]. split; [reflexivity|]. exists FJ. auto.
Qed.

(* scalar F and no jitter: nothing is drawn and the factor is the given value *)
Lemma factors_scalar_nojitter f n v FJ s s' :
  factors_from (FScalar f) None n v FJ s s' -> s' = s /\ FJ = repeat (repeat f n, None) (length FJ).
Proof.
  induction 1 as [|F J FJ s s1 s2 s' Hl HF HJ Hrest IH]; [split; reflexivity|].
  cbn in HF, HJ. destruct HF as [-> ->]. destruct HJ as [-> ->]. destruct IH as [-> IH].
  split; [reflexivity|]. cbn. now rewrite <- IH.
Qed.
End Generic.

(* ---------- exact arithmetic ---------- *)
From Coq Require Import QArith Lqa.
From PV Require Import Base.NumQ.
Local Open Scope Q_scope.

Definition unitq (u : Q) : Prop := 0 <= u /\ u < 1.

Lemma scale_in_range lo hi u : lo <= hi -> unitq u ->
  lo <= scale_of (N := Qn) lo hi u <= hi.
Proof. intros H [H0 H1]. unfold scale_of. cbn. split; nra. Qed.

Lemma scale_affine lo hi u : scale_of (N := Qn) lo hi u == lo + u * (hi - lo).
Proof. unfold scale_of. cbn. reflexivity. Qed.

(* jitter: the effective factor is F times a number within gamma/2 of 1 *)
Lemma eff_range g f u : 0 <= g -> unitq u ->
  exists c, eff (N := Qn) g f u == f * c /\ 1 - g * (1 # 2) <= c /\ c < 1 + g * (1 # 2) \/ (g == 0 /\ eff (N := Qn) g f u == f).
Proof.
  intros Hg [H0 H1]. exists (1 + g * (u - (1 # 2))). unfold eff. cbn.
  destruct (Qlt_le_dec 0 g) as [Hp|Hz].
  - left. split; [reflexivity|]. split; nra.
  - right. assert (g == 0) by lra. split; [assumption|]. rewrite H. ring.
Qed.

Lemma eff_centred g f e : eff (N := Qn) g f ((1 # 2) + e) == f * (1 + g * e).
Proof. unfold eff. cbn. ring. Qed.

Definition all_unit (s : list (event Qn)) : Prop :=
  forall sh vals u, In (ERand sh vals) s -> In u vals -> unitq u.

(* every dithered factor lies in [lo, hi]; every jitter draw lies in [0,1) *)
Definition factors_in_range (fc : fcfg (N := Qn)) (FJ : list (list Q * option (list (list Q)))) : Prop :=
  Forall (fun fj =>
    (match fc with
     | FScalar f => Forall (fun x => x = f) (fst fj)
     | FDither lo hi => lo <= hi -> Forall (fun x => lo <= x <= hi) (fst fj)
     end) /\
    (match snd fj with
     | None => True
     | Some m => Forall (Forall unitq) m
     end)) FJ.


Lemma factors_range fc gamma n v FJ s s' :
  all_unit s -> factors_from (N := Qn) fc gamma n v FJ s s' -> factors_in_range fc FJ.
Proof.
  intros HU H. induction H as [|F J FJ s s1 s2 s' Hl HF HJ Hrest IH]; [constructor|].
  assert (HU1 : all_unit s1).
  { destruct fc; cbn in HF; [destruct HF as [_ ->]; exact HU|].
    destruct HF as (us & _ & -> & _). intros sh vals u Hi Hu. eapply HU; [right; exact Hi|exact Hu]. }
  assert (HU2 : all_unit s2).
  { destruct gamma; cbn in HJ; [|destruct HJ as [_ ->]; exact HU1].
    destruct HJ as (us & _ & -> & _). intros sh vals u Hi Hu. eapply HU1; [right; exact Hi|exact Hu]. }
  constructor; [|apply IH; exact HU2]. cbn. split.
  - destruct fc as [f|lo hi]; cbn in HF.
    + destruct HF as [-> _]. apply Forall_forall. intros x Hx. now apply repeat_spec in Hx.
    + destruct HF as (us & _ & -> & ->). intro Hle. apply Forall_forall. intros x Hx.
      apply in_map_iff in Hx as (u & <- & Hu). apply scale_in_range; [assumption|]. eapply HU; [now left|exact Hu].
  - destruct gamma; cbn in HJ.
    + destruct HJ as (us & _ & -> & ->). apply reshape_Forall. apply Forall_forall. intros u Hu. eapply HU1; [now left|exact Hu].
    + destruct HJ as [-> _]. exact I.
Qed.

Lemma mutant_formula fc gamma X0 rest s V d s' :
  all_unit s ->
  de_mutation (N := Qn) fc gamma (X0 :: rest) s = Ok ((V, d), s') ->
  let n := length X0 in let v := length (hd [] X0) in
  exists FJ, length FJ = Nat.div2 (length rest) /\ length rest = (2 * length FJ)%nat /\
             Forall (fun fj => length (fst fj) = n) FJ /\ factors_in_range fc FJ /\
             d = sum_diffs gamma rest FJ (zeros n v) /\ V = madd X0 d.
Proof.
  intros HU H. apply de_mutation_spec in H as (Hodd & FJ & Hl & HF & Hd & HV).
  exists FJ. split; [exact Hl|]. split.
  { pose proof (Nat.div2_odd (length rest)) as Hd2. rewrite Hodd in Hd2. change (Nat.b2n false) with 0%nat in Hd2. unfold matrix in *. change (T Qn) with Q in *. lia. }
  split. { clear - HF. induction HF; constructor; auto. }
  split. { eapply factors_range; eauto. }
  split; assumption.
Qed.

Lemma exact_when_scalar f X0 rest s V d s' :
  de_mutation (N := Qn) (FScalar f) None (X0 :: rest) s = Ok ((V, d), s') ->
  let n := length X0 in let v := length (hd [] X0) in
  s' = s /\ V = madd X0 (sum_diffs None rest (repeat (repeat f n, None) (Nat.div2 (length rest))) (zeros n v)).
Proof.
  intro H. apply de_mutation_spec in H as (Hodd & FJ & Hl & HF & Hd & HV).
  apply factors_scalar_nojitter in HF as [-> HFJ]. split; [reflexivity|]. subst V d. rewrite HFJ at 1. now rewrite Hl.
Qed.
