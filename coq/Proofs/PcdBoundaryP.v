(* C15, boundary clause for the pruning crowding distance of the pure-Python engine on fronts WITHOUT coordinate ties: as long as
   at least 2 x n_obj members are kept, the loop never removes a holder of an objective's minimum or maximum and every other
   point ends with a finite value; hence every tie-break of the descending cut keeps a holder of every extreme.  (With tied
   maxima the clause fails: known finding pcd/tied-max-extra-infinite, Props/C15.v.) *)
From Coq Require Import List Bool Arith ZArith Lia QArith Lqa Permutation Sorted.
From PV Require Import Base.Num Base.NumEQ Base.Res Base.ListX Model.Crowding Model.Fallback Model.RankCrowd
  Proofs.CrowdingP Proofs.CdP Proofs.RankCrowdP Proofs.FallbackP Proofs.BoundaryP Proofs.CdBoundaryP Proofs.DefP Proofs.MonoP Proofs.MnnDefP Proofs.PcdDefP.
Import ListNotations.
Local Open Scope nat_scope.
Local Arguments qsign : simpl never.

Lemma isfin_add a b : isfin a -> isfin b -> isfin (eadd a b).
Proof. intros [x ->] [y ->]. cbn. now eexists. Qed.

Lemma sum_lr_fin l : Forall isfin l -> isfin (sum_lr (X := E) l).
Proof.
  intro H. unfold sum_lr. destruct l as [|x t]; [now exists 0%Q|].
  pose proof (Forall_inv H) as Hx. pose proof (Forall_inv_tail H) as Ht. clear H. revert x Hx.
  induction t as [|y t IH]; intros x Hx; cbn; [assumption|]. apply IH; [exact (Forall_inv_tail Ht)|].
  apply isfin_add; [assumption|exact (Forall_inv Ht)].
Qed.

Section Front.
Variable Xn : list (list eq).
Variable m : nat.
Hypothesis Hm : length (hd [] Xn) = m.
Hypothesis Hfin : forall p j, p < length Xn -> j < m -> isfin (cellx Xn p j).
Hypothesis Htie : forall j p q, j < m -> p < length Xn -> q < length Xn -> p <> q ->
  eltb (cellx Xn p j) (cellx Xn q j) = true \/ eltb (cellx Xn q j) (cellx Xn p j) = true.
Let n := length Xn.

(* a remaining point that has, in every objective, a remaining point strictly below and one strictly above, is finite *)
Lemma pcd_eval_interior_fin H b : NoDup H -> (forall i, In i H -> i < n) -> b < length H ->
  (forall j, j < m -> exists a c, In a H /\ In c H /\
      eltb (cellx Xn a j) (cellx Xn (nth b H 0) j) = true /\ eltb (cellx Xn (nth b H 0) j) (cellx Xn c j) = true) ->
  isfin (nth b (pcd_eval (X := E) Xn H) ENaN).
Proof.
  intros Hnd HH Hb Hbetween. rewrite (pcd_eval_nth Xn m H b Hm Hb). apply sum_lr_fin.
  apply Forall_forall. intros y Hy. apply in_map_iff in Hy as (j & <- & Hj). apply in_seq in Hj. destruct Hj as [_ Hj]. cbn in Hj.
  set (v := subcol Xn H j).
  assert (Hvf : Forall isfin v) by (apply (subcol_fin Xn m Hfin); assumption).
  assert (Hvt : tiefree_col v) by (apply (subcol_tiefree Xn m Htie); assumption).
  assert (Hvl : length v = length H) by apply subcol_length.
  destruct (Hbetween j Hj) as (a & c & Ha & Hc & Hlo & Hhi).
  destruct (pos_in_spec a H Ha) as [Hal Hae]. destruct (pos_in_spec c H Hc) as [Hcl Hce].
  destruct (pos_of v Hvf b ltac:(lia)) as (k & Hkn & Hk).
  assert (Eki : nth k (argsort (X := E) v) 0 = b) by (now apply nth_error_nth).
  destruct (below_is_earlier v Hvf k (pos_in a H) Hkn ltac:(lia)) as (kl & Hkl & _).
  { rewrite Eki. unfold v. rewrite !subcol_key by assumption. now rewrite Hae. }
  destruct (above_is_later v Hvf k (pos_in c H) Hkn ltac:(lia)) as (kh & Hkh & Hkhn & _).
  { rewrite Eki. unfold v. rewrite !subcol_key by assumption. now rewrite Hce. }
  destruct (pcd_col_interior v Hvf Hvt b k Hk ltac:(lia) ltac:(lia)) as (qi & qp & qr & _ & _ & _ & _ & _ & Hv).
  rewrite Hv. now eexists.
Qed.

Variable ext : list nat.
(* every objective's strict minimum and strict maximum are held by points of ext *)
Hypothesis Hextr : forall j, j < m -> exists a c, In a ext /\ In c ext /\ a < n /\ c < n /\
  (forall p, p < n -> p <> a -> eltb (cellx Xn a j) (cellx Xn p j) = true) /\
  (forall p, p < n -> p <> c -> eltb (cellx Xn p j) (cellx Xn c j) = true).

Lemma pcd_loop_finite fuel : forall d H,
  NoDup H -> (forall i, In i H -> i < n) -> (fuel <> 0 -> fuel + length ext <= length H) ->
  (forall e, In e ext -> e < n -> In e H) ->
  length d = n -> Forall good d -> (forall i, In i ext -> i < n -> nth i d ENaN = PInf) ->
  (forall i, i < n -> ~ In i ext -> isfin (nth i d ENaN)) ->
  forall i, i < n -> ~ In i ext -> isfin (nth i (pcd_loop (X := E) fuel ext Xn d H) ENaN).
Proof.
  induction fuel as [|fuel IH]; intros d H Hnd Hlt Hlen HextH Hd Hg Hext Hfi; cbn [pcd_loop]; [exact Hfi|]. cbv zeta.
  set (k := drop_first_min (X := E) d H).
  specialize (Hlen ltac:(discriminate)).
  assert (Hne : H <> []) by (destruct H; [cbn in Hlen; lia|discriminate]).
  assert (Hk : In k H) by (now apply drop_first_min_In).
  assert (Hkmin : forall p, In p H -> gle (nth k d ENaN) (nth p d ENaN)).
  { apply drop_first_min_is_min; [assumption|assumption|]. intros i Hi. rewrite Hd. now apply Hlt. }
  (* some remaining point is not an extreme, so the removed one is not an extreme either *)
  assert (Hknot : ~ In k ext).
  { destruct (Forall_Exists_dec (fun p => In p ext) (fun p => in_dec Nat.eq_dec p ext) H) as [Hall|Hex].
    - exfalso. assert (length H <= length ext) by (apply NoDup_incl_le; [assumption|]; intros p Hp; rewrite Forall_forall in Hall; now apply Hall). lia.
    - apply Exists_exists in Hex as (p & Hp & Hpe). intro Hke.
      pose proof (Hkmin p Hp) as Hle. rewrite (Hext k Hke (Hlt k Hk)) in Hle. destruct (Hfi p (Hlt p Hp) Hpe) as [q Hq]. rewrite Hq in Hle. exact Hle. }
  change (filter (fun i => negb (i =? k)) H) with (without k H).
  pose proof (without_length k H Hnd Hk) as Hwl.
  set (H' := without k H) in *.
  assert (Hnd' : NoDup H') by (now apply NoDup_filter).
  assert (Hsub : forall i, In i H' -> In i H /\ i <> k).
  { intros i Hi. apply filter_In in Hi as [Hi Hne']. split; [assumption|]. apply negb_true_iff in Hne'. now apply Nat.eqb_neq in Hne'. }
  assert (Hlt' : forall i, In i H' -> i < n) by (intros i Hi; apply Hlt; now apply Hsub).
  assert (HextH' : forall e, In e ext -> e < n -> In e H').
  { intros e He Hen. apply filter_In. split; [now apply HextH|]. apply negb_true_iff, Nat.eqb_neq. intro Hx. subst e. contradiction. }
  destruct (pcd_eval_good Xn m H' Hm (colprop_fin Xn m Hfin) Hlt') as [Hpg Hpl].
  set (dH := pcd_eval (X := E) Xn H') in *.
  destruct (fold_pairs_good (combine H' dH) d) as [Hg' Hl'].
  { apply Forall_forall. intros [i x] Hin. cbn. apply in_combine_r in Hin. rewrite Forall_forall in Hpg. now apply Hpg. }
  { assumption. }
  set (d' := fold_left (fun acc p => set_nth (fst p) (snd p) acc) (combine H' dH) d) in *.
  assert (Hld' : length d' = n) by (etransitivity; [exact Hl'|exact Hd]).
  apply (IH (set_inf (X := E) ext d') H'); try assumption.
  - lia.
  - rewrite set_inf_length. exact Hld'.
  - now apply set_inf_good.
  - intros i Hi Hin. apply set_inf_pinf; [assumption|]. rewrite Hld'. exact Hin.
  - intros i Hi Hie. rewrite set_inf_other by assumption. unfold d'.
    destruct (in_dec Nat.eq_dec i H') as [HiH|HiH].
    + destruct (pos_in_spec i H' HiH) as [Hbl Hbe].
      pose proof (fold_pairs_nth H' dH d Hnd' Hpl) as Hw. rewrite <- Hbe at 1. rewrite Hw; [| |assumption].
      2:{ intros k0 Hk0. rewrite Hd. now apply Hlt'. }
      apply pcd_eval_interior_fin; try assumption. intros j Hj. rewrite Hbe.
      destruct (Hextr j Hj) as (a & c & Ha & Hc & Han & Hcn & Hmin & Hmax).
      exists a, c. split; [now apply HextH'|]. split; [now apply HextH'|].
      split; [apply Hmin; [assumption|intro Hx; subst i; contradiction]|apply Hmax; [assumption|intro Hx; subst i; contradiction]].
    + rewrite fold_pairs_other; [now apply Hfi|]. rewrite map_fst_combine by (symmetry; exact Hpl). exact HiH.
Qed.
End Front.

(* ---------- from the front itself ---------- *)
Lemma normalized_cells F m j : fin_matrix F m -> length (hd [] F) = m -> 2 <= length F -> no_coordinate_ties F m -> j < m ->
  exists qmn qd, (0 < qd)%Q /\ forall p, p < length F -> exists qx, cellx F p j = Fin qx /\
     cellx (normalize (X := E) false F) p j = Fin ((qx + - qmn) / qd).
Proof.
  intros HF Hhd Hn2 Htf Hj. assert (Hne : F <> []) by (intro Hx; rewrite Hx in Hn2; cbn in Hn2; lia).
  destruct (normalize_false_cells F m j HF Hne Hhd Hj) as (qmn & qmx & Hc).
  assert (Hpos : (0 < qmx + - qmn)%Q).
  { destruct (Hc 0 ltac:(lia)) as (q0 & E0 & L0 & U0 & _). destruct (Hc 1 ltac:(lia)) as (q1 & E1 & L1 & U1 & _).
    destruct (Htf j 0 1 Hj ltac:(lia) ltac:(lia) ltac:(lia)) as [Hlt|Hlt]; rewrite E0, E1 in Hlt; cbn in Hlt; apply negb_true_iff in Hlt.
    - assert (~ (q1 <= q0)%Q) by (intro Hx; apply Qle_bool_iff in Hx; congruence). lra.
    - assert (~ (q0 <= q1)%Q) by (intro Hx; apply Qle_bool_iff in Hx; congruence). lra. }
  exists qmn, (qmx + - qmn)%Q. split; [assumption|]. intros p Hp. destruct (Hc p Hp) as (qx & Ex & _ & _ & Hv). exists qx. split; [assumption|].
  rewrite Hv. cbn. now rewrite (qsign_pos _ Hpos).
Qed.

Lemma normalized_order F m j p q : fin_matrix F m -> length (hd [] F) = m -> 2 <= length F -> no_coordinate_ties F m -> j < m ->
  p < length F -> q < length F -> eltb (cellx F p j) (cellx F q j) = true ->
  eltb (cellx (normalize (X := E) false F) p j) (cellx (normalize (X := E) false F) q j) = true.
Proof.
  intros HF Hhd Hn2 Htf Hj Hp Hq Hlt. destruct (normalized_cells F m j HF Hhd Hn2 Htf Hj) as (qmn & qd & Hqd & Hc).
  destruct (Hc p Hp) as (xp & Ep & Vp). destruct (Hc q Hq) as (xq & Eq & Vq). rewrite Vp, Vq. rewrite Ep, Eq in Hlt.
  cbn in Hlt |- *. apply negb_true_iff in Hlt. apply negb_true_iff.
  assert (Hab : (xp < xq)%Q). { assert (~ (xq <= xp)%Q) by (intro Hx; apply Qle_bool_iff in Hx; congruence). lra. }
  destruct (Qle_bool ((xq + - qmn) / qd) ((xp + - qmn) / qd)) eqn:El; [|reflexivity]. apply Qle_bool_iff in El. exfalso.
  assert (H1 : ((xq + - qmn) / qd * qd <= (xp + - qmn) / qd * qd)%Q) by (apply Qmult_le_compat_r; lra).
  assert (Hz : ~ (qd == 0)%Q) by lra.
  rewrite !Qmult_comm with (y := qd) in H1. rewrite !Qmult_div_r in H1 by assumption. lra.
Qed.

Lemma cellx_col F j p : p < length F -> nth p (col (X := E) F j) ENaN = cellx F p j.
Proof. intro Hp. unfold col, cellx. apply (nth_map_d (fun r => nth j r (qnan E)) F p [] ENaN Hp). Qed.

Lemma strict_extremes F m : fin_matrix F m -> length (hd [] F) = m -> 2 <= length F -> no_coordinate_ties F m ->
  let Xn := normalize (X := E) false F in
  forall j, j < m -> exists a c, In a (extremes_of (X := E) F) /\ In c (extremes_of (X := E) F) /\ a < length F /\ c < length F /\
    (forall p, p < length F -> p <> a -> eltb (cellx Xn a j) (cellx Xn p j) = true) /\
    (forall p, p < length F -> p <> c -> eltb (cellx Xn p j) (cellx Xn c j) = true).
Proof.
  intros HF Hhd Hn2 Htf Xn j Hj. assert (Hne : F <> []) by (intro Hx; rewrite Hx in Hn2; cbn in Hn2; lia).
  destruct (extremes_hold F m j HF Hne Hj) as [[Hal Hamin] [Hcl Hcmax]]. destruct (extremes_in F m j Hhd Hj) as [Ia Ic].
  destruct (col_fin F m j HF Hj) as [_ Hlc]. change (T (base E)) with eq in *.
  set (a := argmin (X := E) (col (X := E) F j)) in *. set (c := argmax (X := E) (col (X := E) F j)) in *.
  assert (Han : a < length F) by (exact (@Logic.eq_ind nat _ (fun z : nat => a < z) Hal _ Hlc)). assert (Hcn : c < length F) by (exact (@Logic.eq_ind nat _ (fun z : nat => c < z) Hcl _ Hlc)).
  exists a, c. split; [assumption|]. split; [assumption|]. split; [assumption|]. split; [assumption|]. split.
  - intros p Hp Hpa. apply (normalized_order F m j a p HF Hhd Hn2 Htf Hj Han Hp).
    destruct (Htf j a p Hj Han Hp (not_eq_sym Hpa)) as [H|H]; [assumption|exfalso].
    assert (Hin : In (nth p (col (X := E) F j) ENaN) (col (X := E) F j)) by (apply nth_In; exact (eq_ind_r (fun z : nat => p < z) Hp Hlc)).
    pose proof (Hamin _ Hin) as Hx. rewrite !cellx_col in Hx by assumption. congruence.
  - intros p Hp Hpc. apply (normalized_order F m j p c HF Hhd Hn2 Htf Hj Hp Hcn).
    destruct (Htf j p c Hj Hp Hcn Hpc) as [H|H]; [assumption|exfalso].
    assert (Hin : In (nth p (col (X := E) F j) ENaN) (col (X := E) F j)) by (apply nth_In; exact (eq_ind_r (fun z : nat => p < z) Hp Hlc)).
    pose proof (Hcmax _ Hin) as Hx. rewrite !cellx_col in Hx by assumption. congruence.
Qed.

Lemma isfin_div_pos a q : isfin a -> (0 < q)%Q -> isfin (ediv a (Fin q)).
Proof. intros [x ->] Hq. cbn. rewrite (qsign_pos _ Hq). now eexists. Qed.

(* the crowding vector of misc/pruning_cd.py: finite outside the extreme rows, provided 2 x n_obj points are kept *)
Theorem fallback_pcd_finite_inside F m nr : fin_matrix F m -> 1 <= m -> length (hd [] F) = m -> 2 <= length F -> no_coordinate_ties F m ->
  clamp_remove nr (length F) m + 2 * m <= length F + 1 ->
  forall i, i < length F -> ~ In i (extremes_of (X := E) F) -> isfin (nth i (fallback_pcd (X := E) F nr) ENaN).
Proof.
  intros HF Hm Hhd Hn2 Htf Hkeep i Hi Hie. assert (Hne : F <> []) by (intro Hx; rewrite Hx in Hhd; cbn in Hhd; lia).
  destruct (normalized_tiefree F m HF Hhd Hn2 Htf) as (HXl & HXm & HXf & HXt).
  pose proof (strict_extremes F m HF Hhd Hn2 Htf) as Hextr. cbv zeta in Hextr.
  pose proof (extremes_length F m Hhd) as Hel.
  unfold fallback_pcd. change (T (base E)) with eq in *. rewrite Hhd. cbv zeta.
  set (Xn := normalize (X := E) false F) in *. set (n := length F) in *.
  pose proof (extremes_range F m HF Hne Hhd) as Hrange. fold n in Hrange. set (ext := extremes_of (X := E) F) in *.
  assert (HXl' : length Xn = n) by exact HXl.
  assert (Hnd : NoDup (seq 0 n)) by apply seq_NoDup.
  assert (Hlt : forall i, In i (seq 0 n) -> i < length Xn) by (intros i0 Hi0; apply in_seq in Hi0; rewrite HXl'; lia).
  destruct (pcd_eval_good Xn m (seq 0 n) HXm (colprop_fin Xn m HXf) Hlt) as [Hg0 Hl0]. rewrite seq_length in Hl0.
  set (d0 := set_inf (X := E) ext (pcd_eval (X := E) Xn (seq 0 n))).
  assert (Hld0 : length d0 = length Xn) by (unfold d0; rewrite set_inf_length, HXl'; exact Hl0).
  assert (Hextr' : forall j, j < m -> exists a c, In a ext /\ In c ext /\ a < length Xn /\ c < length Xn /\
             (forall p, p < length Xn -> p <> a -> eltb (cellx Xn a j) (cellx Xn p j) = true) /\
             (forall p, p < length Xn -> p <> c -> eltb (cellx Xn p j) (cellx Xn c j) = true)).
  { intros j Hj. destruct (Hextr j Hj) as (a & c & Ha & Hc & Han & Hcn & Hmin & Hmax). exists a, c.
    split; [assumption|]. split; [assumption|]. split; [rewrite HXl'; exact Han|]. split; [rewrite HXl'; exact Hcn|].
    split; intros p Hp Hne'; [apply Hmin|apply Hmax]; try assumption; rewrite <- HXl'; exact Hp. }
  assert (Hi' : i < length Xn) by (rewrite HXl'; exact Hi).
  assert (Hpos : (0 < inject_Z (Z.of_nat m))%Q) by (unfold Qlt; cbn; lia).
  assert (Hloop : isfin (nth i (pcd_loop (X := E) (clamp_remove nr n m - 1) ext Xn d0 (seq 0 n)) ENaN)).
  { apply (pcd_loop_finite Xn m HXm HXf HXt ext Hextr'); try assumption.
    - intro Hf0. rewrite seq_length. rewrite Hel. lia.
    - intros e He Hen. apply in_seq. assert (Hen' : e < n) by (rewrite <- HXl'; exact Hen). lia.
    - unfold d0. now apply set_inf_good.
    - intros e He Hen. unfold d0. apply set_inf_pinf; [assumption|]. rewrite Hl0. rewrite <- HXl'. exact Hen.
    - intros p Hp Hpe. unfold d0. rewrite set_inf_other by assumption.
      assert (Hpn : p < n) by (rewrite <- HXl'; exact Hp).
      assert (Hps : p < length (seq 0 n)) by (rewrite seq_length; exact Hpn).
      pose proof (pcd_eval_interior_fin Xn m HXm HXf HXt (seq 0 n) p Hnd Hlt Hps) as Hx. apply Hx.
      intros j Hj. rewrite seq_nth by assumption. cbn [Nat.add].
      destruct (Hextr' j Hj) as (a & c & Ha & Hc & Han & Hcn & Hmin & Hmax). exists a, c.
      assert (Han' : a < n) by (rewrite <- HXl'; exact Han). assert (Hcn' : c < n) by (rewrite <- HXl'; exact Hcn).
      split; [apply in_seq; lia|]. split; [apply in_seq; lia|].
      split; [apply Hmin; [assumption|intro Hx0; subst p; contradiction]|apply Hmax; [assumption|intro Hx0; subst p; contradiction]]. }
  destruct (pcd_loop_inv Xn m ext (clamp_remove nr n m - 1) HXm (colprop_fin Xn m HXf) d0 (seq 0 n) Hlt Hld0) as (HL1 & _ & _).
  { unfold d0. now apply set_inf_good. }
  { intros e He Hen. unfold d0. apply set_inf_pinf; [assumption|]. rewrite Hl0. rewrite <- HXl'. exact Hen. }
  set (L := pcd_loop (X := E) (clamp_remove nr n m - 1) ext Xn d0 (seq 0 n)) in *.
  assert (HiL : i < length L) by (exact (eq_ind_r (fun z : nat => i < z) Hi' HL1)).
  refine (eq_ind_r (fun z => isfin z) _ (nth_map_d (fun x => ediv x (Fin (inject_Z (Z.of_nat m)))) L i ENaN ENaN HiL)).
  now apply isfin_div_pos.
Qed.

(* the boundary clause, every tie-break *)
Theorem pcd_boundary_kept_tiefree F m nr (front : list nat) quota sel perm sv :
  fin_matrix F m -> 1 <= m -> length (hd [] F) = m -> 2 <= length F -> no_coordinate_ties F m ->
  clamp_remove nr (length F) m + 2 * m <= length F + 1 ->
  let crowd := fallback_pcd (X := E) F nr in
  length front = length F -> length perm = length crowd -> NoDup perm -> Forall (fun i => i < length crowd) perm ->
  pick crowd perm = Some sv -> sorted_by (N := EQn) true sv = true -> pick front (firstn quota perm) = Some sel ->
  2 * m <= quota ->
  forall j, j < m -> exists a b, holds_min (col (X := E) F j) a /\ holds_max (col (X := E) F j) b /\
    (forall x, nth_error front a = Some x -> In x sel) /\ (forall x, nth_error front b = Some x -> In x sel).
Proof.
  intros HF Hm Hhd Hn2 Htf Hkeep crowd Hfl Hpl Hnd Hr Hsv Hs Hsel Hq j Hj.
  destruct (fallback_pcd_spec F m nr HF Hm Hhd) as (Hcl & Hcg & Hext). fold crowd in Hcl, Hcg, Hext.
  destruct (fallback_pcd_extremes F m nr j HF Hm Hhd Hj) as (a & b & Ha & Hb & Hpa & Hpb). fold crowd in Hpa, Hpb.
  exists a, b. split; [assumption|]. split; [assumption|].
  assert (Hcnt : length (filter (fun i => negb (ltb EQn (nth i crowd PInf) PInf)) (seq 0 (length crowd))) <= quota).
  { apply Nat.le_trans with (2 * m); [|assumption]. rewrite <- (extremes_length F m Hhd).
    apply NoDup_incl_le; [apply NoDup_filter, seq_NoDup|]. intros i Hi. apply filter_In in Hi as [Hi Hv]. apply in_seq in Hi.
    destruct (in_dec Nat.eq_dec i (extremes_of (X := E) F)) as [Hin|Hnin]; [assumption|exfalso].
    assert (Hic : i < length crowd) by lia. assert (HiF : i < length F) by (rewrite <- Hcl; exact Hic).
    destruct (fallback_pcd_finite_inside F m nr HF Hm Hhd Hn2 Htf Hkeep i HiF Hnin) as (q & Hq').
    fold crowd in Hq'. assert (Hn : nth i crowd PInf = Fin q) by (exact (eq_trans (nth_indep crowd PInf ENaN Hic) Hq')).
    assert (Hx : negb (eltb (nth i crowd PInf) PInf) = true) by exact Hv. rewrite Hn in Hx. cbn in Hx. discriminate. }
  assert (Hok : Forall nonnan crowd) by (apply Forall_forall; intros x Hx; apply good_nonnan; rewrite Forall_forall in Hcg; auto).
  assert (Htop : nonnan PInf) by discriminate.
  assert (Hlc : length crowd = length front) by congruence.
  split; intros x Hx.
  - apply (cut_keeps_top EQn_ord_nn front quota sel crowd perm sv PInf Hlc Hpl Hnd Hr Hsv Hs Hsel Hok Htop Hcnt a x Hx).
    destruct Ha as [Hal _]. destruct (col_fin F m j HF Hj) as [_ Hcl']. change (T (base E)) with eq in *.
    assert (Hac : a < length crowd) by (rewrite Hcl, <- Hcl'; exact Hal).
    assert (Hn : nth a crowd PInf = PInf) by (exact (eq_trans (nth_indep crowd PInf ENaN Hac) Hpa)).
    assert (Hy : eltb (nth a crowd PInf) PInf = false) by (rewrite Hn; reflexivity). exact Hy.
  - apply (cut_keeps_top EQn_ord_nn front quota sel crowd perm sv PInf Hlc Hpl Hnd Hr Hsv Hs Hsel Hok Htop Hcnt b x Hx).
    destruct Hb as [Hbl _]. destruct (col_fin F m j HF Hj) as [_ Hcl']. change (T (base E)) with eq in *.
    assert (Hbc : b < length crowd) by (rewrite Hcl, <- Hcl'; exact Hbl).
    assert (Hn : nth b crowd PInf = PInf) by (exact (eq_trans (nth_indep crowd PInf ENaN Hbc) Hpb)).
    assert (Hy : eltb (nth b crowd PInf) PInf = false) by (rewrite Hn; reflexivity). exact Hy.
Qed.
