(* C13 / C15 for the pruning crowding distance of the pure-Python engine (misc/pruning_cd.py) on fronts without coordinate
   ties: (1) per objective, a point that is neither the smallest nor the largest of the remaining points contributes
   (nearest value above - nearest value below), an extreme contributes +inf; (2) removing a point never decreases the
   value of a remaining one; (3) the loop is the published greedy procedure (remove a least crowded point, recompute the
   remaining ones from scratch) and, by (2), the removed points are the smallest entries of the final vector. *)
From Coq Require Import List Bool Arith ZArith Lia QArith Lqa Permutation Sorted.
From PV Require Import Base.Num Base.NumEQ Base.Res Base.ListX Model.Crowding Model.Fallback
  Proofs.CrowdingP Proofs.CdP Proofs.FallbackP Proofs.BoundaryP Proofs.CdBoundaryP Proofs.DefP Proofs.MonoP Proofs.MnnDefP.
Import ListNotations.
Local Open Scope nat_scope.
Local Arguments qsign : simpl never.

(* ---------- one objective ---------- *)
Section Column.
Variable v : list eq.
Hypothesis Hfin : Forall isfin v.
Hypothesis Htf : forall a b, a < length v -> b < length v -> a <> b -> eltb (key v a) (key v b) = true \/ eltb (key v b) (key v a) = true.

Let n := length v.
Let idx := argsort (X := E) v.

Definition prev_key (k : nat) : eq := match k with O => NInf | S k0 => key v (nth k0 idx 0) end.
Definition next_key (k : nat) : eq := if k + 1 <? n then key v (nth (k + 1) idx 0) else PInf.

(* the value written for the point at sorted position k *)
Lemma pcd_col_at i k : nth_error idx k = Some i ->
  nth i (pcd_col (X := E) v) ENaN = eadd (nan0e (esub (key v i) (prev_key k))) (nan0e (esub (next_key k) (key v i))).
Proof.
  intros Hk. destruct (idx_facts v Hfin) as (HP & Hnd & Hl & Hr & Hs). fold idx n in HP, Hnd, Hl, Hr, Hs.
  assert (Hkn : k < n) by (rewrite <- Hl; apply nth_error_Some; congruence).
  assert (Hi : i < n). { rewrite Forall_forall in Hr. apply Hr. eapply nth_error_In; eassumption. }
  unfold pcd_col. fold idx n. set (s := map (fun j => nth j v (qnan E)) idx).
  assert (Hls : length s = n) by (unfold s; now rewrite map_length).
  assert (Hsk : forall k', k' < n -> nth_error s k' = Some (key v (nth k' idx 0))).
  { intros k' Hk'. unfold s. apply map_nth_error. apply nth_error_nth'. lia. }
  set (fl := fun a b : eq => nan0 (X := E) (sub (base E) a b)).
  set (fu := fun a b : eq => nan0 (X := E) (sub (base E) b a)).
  assert (Eki : key v (nth k idx 0) = key v i) by (now rewrite (nth_error_nth _ _ 0 Hk)).
  assert (Hdl : nth_error (map2 fl s (ninf E :: s)) k = Some (fl (key v i) (prev_key k))).
  { rewrite <- Eki. apply nth_error_map2_gen; [apply Hsk; lia|]. destruct k as [|k0]; [reflexivity|]. cbn [nth_error prev_key]. apply Hsk. lia. }
  assert (Hdn : nth_error (map2 fu s (tl s ++ [pinf E])) k = Some (fu (key v i) (next_key k))).
  { rewrite <- Eki. apply nth_error_map2_gen; [apply Hsk; lia|]. unfold next_key.
    assert (Htl : nth_error (tl s) k = nth_error s (k + 1)) by (destruct s; [destruct k; reflexivity|replace (k + 1) with (S k) by lia; reflexivity]).
    assert (Hltl : length (tl s) = n - 1) by (destruct s; cbn [tl length] in *; lia).
    destruct (k + 1 <? n) eqn:El.
    - apply Nat.ltb_lt in El. rewrite nth_error_app1 by lia. rewrite Htl. apply Hsk. lia.
    - apply Nat.ltb_ge in El. rewrite nth_error_app2 by lia. replace (k - length (tl s)) with 0 by lia. reflexivity. }
  assert (Hval : nth_error (map2 (add (base E)) (map2 fl s (ninf E :: s)) (map2 fu s (tl s ++ [pinf E]))) k
                 = Some (eadd (fl (key v i) (prev_key k)) (fu (key v i) (next_key k)))) by (now apply nth_error_map2_gen).
  assert (Hlv : length idx = length (map2 (add (base E)) (map2 fl s (ninf E :: s)) (map2 fu s (tl s ++ [pinf E])))).
  { rewrite !map2_length, app_length. cbn [length]. destruct s; cbn [tl length] in *; lia. }
  exact (scatter_nth n idx _ k i _ ENaN Hnd Hlv Hk Hval Hi).
Qed.

Lemma idx_range k : k < n -> nth k idx 0 < n.
Proof. intro Hk. destruct (idx_facts v Hfin) as (_ & _ & Hl & Hr & _). fold idx n in Hl, Hr. rewrite Forall_forall in Hr. apply Hr, nth_In. lia. Qed.

(* strict order between different sorted positions (no ties) *)
Lemma key_lt_of_pos k k' : k < k' -> k' < n -> eltb (key v (nth k idx 0)) (key v (nth k' idx 0)) = true.
Proof.
  intros Hkk Hk'. destruct (idx_facts v Hfin) as (_ & Hnd & Hl & _ & _). fold idx n in Hnd, Hl.
  pose proof (key_le_of_pos v Hfin k k' ltac:(lia) Hk') as Hle. fold idx in Hle.
  assert (Hne : nth k idx 0 <> nth k' idx 0).
  { intro E0. assert (Hx : nth_error idx k = Some (nth k idx 0)) by (apply nth_error_nth'; lia).
    assert (Hy : nth_error idx k' = Some (nth k idx 0)) by (rewrite E0; apply nth_error_nth'; lia).
    pose proof (proj1 (NoDup_nth_error idx) Hnd k k' ltac:(lia) (eq_trans Hx (eq_sym Hy))). lia. }
  destruct (Htf _ _ (idx_range k ltac:(lia)) (idx_range k' Hk') Hne) as [H|H]; [assumption|]. unfold fle in Hle. congruence.
Qed.

(* an extreme of the objective gets +inf, any other point the distance between its two neighbours *)
Lemma pcd_col_first i : nth_error idx 0 = Some i -> nth i (pcd_col (X := E) v) ENaN = PInf.
Proof.
  intro Hk. rewrite (pcd_col_at i 0 Hk). cbn [prev_key].
  assert (Hn : 0 < n). { destruct (idx_facts v Hfin) as (_ & _ & Hl & _ & _). fold idx n in Hl. rewrite <- Hl. apply nth_error_Some. congruence. }
  assert (Hi : i < n). { rewrite <- (nth_error_nth _ _ 0 Hk). now apply idx_range. }
  destruct (key_fin v Hfin i Hi) as [qi Ei]. rewrite Ei. unfold next_key. cbn [esub nan0e nan0 isnan EQx eisnan].
  destruct (0 + 1 <? n) eqn:El.
  - apply Nat.ltb_lt in El. destruct (key_fin v Hfin _ (idx_range 1 ltac:(lia))) as [qr Er]. cbn [Nat.add] in *. rewrite Er. reflexivity.
  - reflexivity.
Qed.

Lemma pcd_col_last i : nth_error idx (n - 1) = Some i -> nth i (pcd_col (X := E) v) ENaN = PInf.
Proof.
  intro Hk. rewrite (pcd_col_at i (n - 1) Hk).
  assert (Hn : 0 < n). { destruct (idx_facts v Hfin) as (_ & _ & Hl & _ & _). fold idx n in Hl. assert (n - 1 < length idx) by (apply nth_error_Some; congruence). lia. }
  assert (Hi : i < n). { rewrite <- (nth_error_nth _ _ 0 Hk). apply idx_range. lia. }
  destruct (key_fin v Hfin i Hi) as [qi Ei]. rewrite Ei. unfold next_key.
  assert (El : (n - 1 + 1 <? n) = false) by (apply Nat.ltb_ge; lia). rewrite El.
  destruct (n - 1) as [|k0] eqn:En; cbn [prev_key]; [reflexivity|].
  assert (Hk0 : k0 < n) by lia. destruct (key_fin v Hfin _ (idx_range k0 Hk0)) as [qp Ep]. rewrite Ep. reflexivity.
Qed.

Lemma pcd_col_interior i k : nth_error idx k = Some i -> 0 < k -> k + 1 < n ->
  exists qi qp qr, key v i = Fin qi /\ key v (nth (k - 1) idx 0) = Fin qp /\ key v (nth (k + 1) idx 0) = Fin qr /\
    (qp < qi)%Q /\ (qi < qr)%Q /\ nth i (pcd_col (X := E) v) ENaN = Fin ((qi + - qp) + (qr + - qi)).
Proof.
  intros Hk Hk0 Hk1. rewrite (pcd_col_at i k Hk).
  assert (Eki : nth k idx 0 = i) by (now apply nth_error_nth).
  assert (Hi : i < n) by (rewrite <- Eki; apply idx_range; lia).
  destruct (key_fin v Hfin i Hi) as [qi Ei]. destruct (key_fin v Hfin _ (idx_range (k - 1) ltac:(lia))) as [qp Ep].
  destruct (key_fin v Hfin _ (idx_range (k + 1) Hk1)) as [qr Er].
  exists qi, qp, qr. split; [assumption|]. split; [assumption|]. split; [assumption|].
  pose proof (key_lt_of_pos (k - 1) k ltac:(lia) ltac:(lia)) as H1. pose proof (key_lt_of_pos k (k + 1) ltac:(lia) Hk1) as H2.
  rewrite Eki in H1, H2. rewrite Ep, Ei in H1. rewrite Ei, Er in H2. cbn in H1, H2. apply negb_true_iff in H1, H2.
  assert (Hpi : (qp < qi)%Q). { assert (~ (qi <= qp)%Q) by (intro Hx; apply Qle_bool_iff in Hx; congruence). lra. }
  assert (Hir : (qi < qr)%Q). { assert (~ (qr <= qi)%Q) by (intro Hx; apply Qle_bool_iff in Hx; congruence). lra. }
  split; [assumption|]. split; [assumption|].
  unfold next_key. assert (El : (k + 1 <? n) = true) by (now apply Nat.ltb_lt). rewrite El.
  destruct k as [|k0]; [lia|]. cbn [prev_key]. replace (S k0 - 1) with k0 in Ep by lia. rewrite Ei, Ep, Er. reflexivity.
Qed.
End Column.

Definition tiefree_col (v : list eq) : Prop :=
  forall a b, a < length v -> b < length v -> a <> b -> eltb (key v a) (key v b) = true \/ eltb (key v b) (key v a) = true.

(* (1) the contribution of one objective, characterised by order only *)
Theorem pcd_col_definition (v : list eq) i : Forall isfin v -> tiefree_col v -> i < length v ->
  ((forall j, j < length v -> eltb (key v j) (key v i) = false) \/ (forall j, j < length v -> eltb (key v i) (key v j) = false) ->
     nth i (pcd_col (X := E) v) ENaN = PInf) /\
  (forall jl jh, jl < length v -> jh < length v ->
     eltb (key v jl) (key v i) = true -> (forall j, j < length v -> eltb (key v j) (key v i) = true -> fle (key v j) (key v jl)) ->
     eltb (key v i) (key v jh) = true -> (forall j, j < length v -> eltb (key v i) (key v j) = true -> fle (key v jh) (key v j)) ->
     exists q, nth i (pcd_col (X := E) v) ENaN = Fin q /\ (q == qof (key v jh) - qof (key v jl))%Q).
Proof.
  intros Hf Ht Hi. destruct (pos_of v Hf i Hi) as (k & Hkn & Hk).
  assert (Eki : nth k (argsort (X := E) v) 0 = i) by (now apply nth_error_nth).
  split.
  - intros [Hno|Hno].
    + destruct k as [|k0]; [now apply pcd_col_first|exfalso].
      pose proof (key_lt_of_pos v Hf Ht k0 (S k0) ltac:(lia) Hkn) as Hlt. rewrite Eki in Hlt.
      rewrite (Hno _ (idx_range v Hf k0 ltac:(lia))) in Hlt. discriminate.
    + destruct (Nat.eq_dec (k + 1) (length v)) as [Hl|Hl].
      * replace k with (length v - 1) in Hk by lia. now apply pcd_col_last.
      * exfalso. pose proof (key_lt_of_pos v Hf Ht k (k + 1) ltac:(lia) ltac:(lia)) as Hlt. rewrite Eki in Hlt.
        rewrite (Hno _ (idx_range v Hf (k + 1) ltac:(lia))) in Hlt. discriminate.
  - intros jl jh Hjl Hjh Hlo Hlub Hhi Hglb.
    destruct (below_is_earlier v Hf k jl Hkn Hjl) as (kl & Hkl & Ekl); [now rewrite Eki|].
    destruct (above_is_later v Hf k jh Hkn Hjh) as (kh & Hkh & Hkhn & Ekh); [now rewrite Eki|].
    destruct (pcd_col_interior v Hf Ht i k Hk ltac:(lia) ltac:(lia)) as (qi & qp & qr & Ei & Ep & Er & Hpi & Hir & Hv).
    rewrite Hv. eexists. split; [reflexivity|].
    set (p := nth (k - 1) (argsort (X := E) v) 0) in *. set (r := nth (k + 1) (argsort (X := E) v) 0) in *.
    assert (Hp : p < length v) by (apply (idx_range v Hf); lia). assert (Hr : r < length v) by (apply (idx_range v Hf); lia).
    assert (Hkf : forall j, j < length v -> isfin (key v j)) by (intros j Hj; now apply key_fin).
    assert (Elo : (qof (key v p) == qof (key v jl))%Q).
    { apply fle_antisym_q; try (now apply Hkf).
      - apply Hlub; [assumption|]. rewrite Ep, Ei. cbn. apply negb_true_iff. destruct (Qle_bool qi qp) eqn:Eq; [|reflexivity]. apply Qle_bool_iff in Eq. lra.
      - replace jl with (nth kl (argsort (X := E) v) 0) by (now apply nth_error_nth). apply (key_le_of_pos v Hf); lia. }
    assert (Ehi : (qof (key v r) == qof (key v jh))%Q).
    { apply fle_antisym_q; try (now apply Hkf).
      - replace jh with (nth kh (argsort (X := E) v) 0) by (now apply nth_error_nth). apply (key_le_of_pos v Hf); lia.
      - apply Hglb; [assumption|]. rewrite Er, Ei. cbn. apply negb_true_iff. destruct (Qle_bool qr qi) eqn:Eq; [|reflexivity]. apply Qle_bool_iff in Eq. lra. }
    rewrite Ep in Elo. rewrite Er in Ehi. cbn [qof] in Elo, Ehi. rewrite <- Elo, <- Ehi. ring.
Qed.

(* ---------- removing points from the column never decreases the contribution of a remaining point ---------- *)
Lemma pcd_col_sub_mono (v v' : list eq) (phi : nat -> nat) :
  Forall isfin v -> Forall isfin v' -> tiefree_col v -> tiefree_col v' ->
  (forall b, b < length v' -> phi b < length v /\ key v (phi b) = key v' b) ->
  forall b, b < length v' -> gle (nth (phi b) (pcd_col (X := E) v) ENaN) (nth b (pcd_col (X := E) v') ENaN).
Proof.
  intros Hf Hf' Ht Ht' Hphi b Hb.
  assert (Hgood : good (nth (phi b) (pcd_col (X := E) v) ENaN)).
  { pose proof (pcd_col_good v (or_introl Hf)) as Hg. rewrite Forall_forall in Hg. apply Hg, nth_In. rewrite pcd_col_length. now apply Hphi. }
  destruct (pos_of v' Hf' b Hb) as (k' & Hk'n & Hk').
  destruct (Nat.eq_dec k' 0) as [->|Hk0]; [rewrite (pcd_col_first v' Hf' b Hk'); now apply good_gle_pinf|].
  destruct (Nat.eq_dec (k' + 1) (length v')) as [Hlast|Hnl].
  { replace k' with (length v' - 1) in Hk' by lia. rewrite (pcd_col_last v' Hf' b Hk'). now apply good_gle_pinf. }
  destruct (pcd_col_interior v' Hf' Ht' b k' Hk' ltac:(lia) ltac:(lia)) as (qi & qp' & qr' & Ei & Ep' & Er' & Hpi' & Hir' & Hv').
  rewrite Hv'.
  set (pb := nth (k' - 1) (argsort (X := E) v') 0) in *. set (nb := nth (k' + 1) (argsort (X := E) v') 0) in *.
  assert (Hpb : pb < length v') by (apply (idx_range v' Hf'); lia).
  assert (Hnb : nb < length v') by (apply (idx_range v' Hf'); lia).
  destruct (Hphi b Hb) as [Hpbn Ekb]. destruct (Hphi pb Hpb) as [Hppn Ekp]. destruct (Hphi nb Hnb) as [Hpnn Ekn].
  destruct (pos_of v Hf (phi b) Hpbn) as (k & Hkn & Hk).
  assert (Eki : nth k (argsort (X := E) v) 0 = phi b) by (now apply nth_error_nth).
  destruct (below_is_earlier v Hf k (phi pb) Hkn Hppn) as (kl & Hkl & Ekl).
  { rewrite Eki, Ekb, Ekp, Ei, Ep'. cbn. apply negb_true_iff. destruct (Qle_bool qi qp') eqn:Eq; [|reflexivity]. apply Qle_bool_iff in Eq. lra. }
  destruct (above_is_later v Hf k (phi nb) Hkn Hpnn) as (kh & Hkh & Hkhn & Ekh).
  { rewrite Eki, Ekb, Ekn, Ei, Er'. cbn. apply negb_true_iff. destruct (Qle_bool qr' qi) eqn:Eq; [|reflexivity]. apply Qle_bool_iff in Eq. lra. }
  destruct (pcd_col_interior v Hf Ht (phi b) k Hk ltac:(lia) ltac:(lia)) as (qi2 & qp & qr & Ei2 & Ep & Er & Hpi & Hir & Hv).
  rewrite Hv. rewrite Ekb, Ei in Ei2. injection Ei2 as <-.
  pose proof (key_le_of_pos v Hf kl (k - 1) ltac:(lia) ltac:(lia)) as Hle1. rewrite (nth_error_nth _ _ 0 Ekl), Ekp, Ep', Ep in Hle1.
  pose proof (key_le_of_pos v Hf (k + 1) kh ltac:(lia) Hkhn) as Hle2. rewrite (nth_error_nth _ _ 0 Ekh), Ekn, Er', Er in Hle2.
  unfold fle in Hle1, Hle2. cbn in Hle1, Hle2. apply negb_false_iff in Hle1, Hle2. apply Qle_bool_iff in Hle1, Hle2.
  cbn. lra.
Qed.

(* ---------- all objectives: the values of the remaining points H, computed from scratch ---------- *)
Lemma gle_add a b a' b' : good a -> good b -> good a' -> good b' -> gle a a' -> gle b b' -> gle (eadd a b) (eadd a' b').
Proof.
  intros [->|(x & -> & Hx)] [->|(y & -> & Hy)] [->|(x' & -> & Hx')] [->|(y' & -> & Hy')]; cbn; try tauto. lra.
Qed.

Lemma sum_lr_mono l : forall l', Forall good l -> Forall good l' -> Forall2 gle l l' -> gle (sum_lr (X := E) l) (sum_lr (X := E) l').
Proof.
  intros l' Hg Hg' H2. destruct H2 as [|x x' t t' Hx Ht]; [cbn; lra|]. cbn [sum_lr].
  pose proof (Forall_inv Hg) as Gx. pose proof (Forall_inv Hg') as Gx'.
  pose proof (Forall_inv_tail Hg) as Gt. pose proof (Forall_inv_tail Hg') as Gt'. clear Hg Hg'.
  revert x x' Hx Gx Gx'. induction Ht as [|y y' t t' Hy Ht IH]; intros x x' Hx Gx Gx'; cbn [fold_left]; [exact Hx|].
  apply IH; [exact (Forall_inv_tail Gt)|exact (Forall_inv_tail Gt')| | |].
  - apply gle_add; try assumption; [exact (Forall_inv Gt)|exact (Forall_inv Gt')].
  - apply good_add; [assumption|exact (Forall_inv Gt)].
  - apply good_add; [assumption|exact (Forall_inv Gt')].
Qed.

Lemma Forall2_map_same {A B C} (R : B -> C -> Prop) (f : A -> B) (g : A -> C) l : (forall x, In x l -> R (f x) (g x)) -> Forall2 R (map f l) (map g l).
Proof. induction l as [|x l IH]; intro H; cbn; constructor; [apply H; now left|apply IH; intros y Hy; apply H; now right]. Qed.

Definition subcol (Xn : list (list eq)) (H : list nat) (j : nat) : list eq := col (X := E) (map (fun i => nth i Xn []) H) j.
Definition cellx (Xn : list (list eq)) (p j : nat) : eq := nth j (nth p Xn []) ENaN.

Lemma subcol_length Xn H j : length (subcol Xn H j) = length H.
Proof. unfold subcol, col. now rewrite !map_length. Qed.

Lemma subcol_key Xn H j a : a < length H -> key (subcol Xn H j) a = cellx Xn (nth a H 0) j.
Proof.
  intro Ha. unfold key, subcol, col, cellx. rewrite map_map.
  apply (nth_map_d (fun i => nth j (nth i Xn []) (qnan E)) H a 0 ENaN Ha).
Qed.

Lemma pcd_eval_nth Xn m H a : length (hd [] Xn) = m -> a < length H ->
  nth a (pcd_eval (X := E) Xn H) ENaN = sum_lr (X := E) (map (fun j => nth a (pcd_col (X := E) (subcol Xn H j)) ENaN) (seq 0 m)).
Proof.
  intros Hm Ha. unfold pcd_eval. change (T (base E)) with eq in *. rewrite Hm. unfold rows_of.
  etransitivity; [apply (nth_map_d (sum_lr (X := E)) _ a [] ENaN); now rewrite map_length, seq_length|].
  f_equal. etransitivity; [apply nth_map_seq; exact Ha|]. now rewrite map_map.
Qed.

(* position of a point in the list of remaining points *)
Fixpoint pos_in (p : nat) (H : list nat) : nat := match H with [] => 0 | h :: t => if h =? p then 0 else S (pos_in p t) end.
Lemma pos_in_spec p H : In p H -> pos_in p H < length H /\ nth (pos_in p H) H 0 = p.
Proof.
  induction H as [|h t IH]; intro Hin; [destruct Hin|]. cbn [pos_in]. destruct (h =? p) eqn:Eh.
  - apply Nat.eqb_eq in Eh. cbn. split; [lia|assumption].
  - destruct Hin as [->|Hin]; [rewrite Nat.eqb_refl in Eh; discriminate|]. destruct (IH Hin) as [H1 H2]. cbn. split; [lia|assumption].
Qed.

Section Front.
Variable Xn : list (list eq).
Variable m : nat.
Hypothesis Hm : length (hd [] Xn) = m.
Hypothesis Hfin : forall p j, p < length Xn -> j < m -> isfin (cellx Xn p j).
Hypothesis Htie : forall j p q, j < m -> p < length Xn -> q < length Xn -> p <> q ->
  eltb (cellx Xn p j) (cellx Xn q j) = true \/ eltb (cellx Xn q j) (cellx Xn p j) = true.

Lemma subcol_fin H j : (forall i, In i H -> i < length Xn) -> j < m -> Forall isfin (subcol Xn H j).
Proof.
  intros HH Hj. apply Forall_forall. intros y Hy. unfold subcol, col in Hy. rewrite map_map in Hy. apply in_map_iff in Hy as (i & <- & Hi).
  apply (Hfin i j); [now apply HH|assumption].
Qed.

Lemma subcol_tiefree H j : NoDup H -> (forall i, In i H -> i < length Xn) -> j < m -> tiefree_col (subcol Xn H j).
Proof.
  intros Hnd HH Hj a b Ha Hb Hab. rewrite subcol_length in Ha, Hb. rewrite !subcol_key by assumption.
  apply Htie; [assumption|apply HH, nth_In; assumption|apply HH, nth_In; assumption|].
  intro Heq. apply Hab. apply (proj1 (NoDup_nth H 0) Hnd a b Ha Hb Heq).
Qed.

Lemma colprop_fin : colprop Xn m.
Proof. intros j Hj. left. intros r Hr. destruct (In_nth _ _ [] Hr) as (p & Hp & <-). now apply Hfin. Qed.

(* (2): H' is obtained from H by removing points; a point of H' is worth at least what it was worth in H *)
Lemma pcd_eval_mono H H' : NoDup H -> NoDup H' -> (forall i, In i H -> i < length Xn) -> incl H' H ->
  forall b, b < length H' -> gle (nth (pos_in (nth b H' 0) H) (pcd_eval (X := E) Xn H) ENaN) (nth b (pcd_eval (X := E) Xn H') ENaN).
Proof.
  intros Hnd Hnd' HH Hincl b Hb.
  assert (HH' : forall i, In i H' -> i < length Xn) by (intros i Hi; apply HH, Hincl, Hi).
  assert (Hpb : In (nth b H' 0) H) by (apply Hincl, nth_In, Hb).
  destruct (pos_in_spec _ _ Hpb) as [Hpl Hpe].
  rewrite (pcd_eval_nth Xn m H _ Hm Hpl), (pcd_eval_nth Xn m H' b Hm Hb).
  assert (Hgood : forall G c, (forall i, In i G -> i < length Xn) -> c < length G ->
            Forall good (map (fun j => nth c (pcd_col (X := E) (subcol Xn G j)) ENaN) (seq 0 m))).
  { intros G c HG Hc. apply Forall_forall. intros y Hy. apply in_map_iff in Hy as (j & <- & Hj). apply in_seq in Hj.
    pose proof (pcd_col_good _ (or_introl (subcol_fin G j HG ltac:(lia)))) as Hg. rewrite Forall_forall in Hg. apply Hg, nth_In.
    now rewrite pcd_col_length, subcol_length. }
  apply sum_lr_mono; [now apply Hgood|now apply Hgood|].
  apply Forall2_map_same. intros j Hj. apply in_seq in Hj.
  apply (pcd_col_sub_mono (subcol Xn H j) (subcol Xn H' j) (fun c => pos_in (nth c H' 0) H)).
  - apply subcol_fin; [assumption|lia].
  - apply subcol_fin; [assumption|lia].
  - apply subcol_tiefree; [assumption|assumption|lia].
  - apply subcol_tiefree; [assumption|assumption|lia].
  - intros c Hc. rewrite subcol_length in Hc. assert (Hpc : In (nth c H' 0) H) by (apply Hincl, nth_In, Hc).
    destruct (pos_in_spec _ _ Hpc) as [Hcl Hce]. rewrite subcol_length. split; [assumption|].
    rewrite !subcol_key by assumption. now rewrite Hce.
  - now rewrite subcol_length.
Qed.
End Front.

(* ---------- the loop of misc/pruning_cd.py ---------- *)
Lemma fold_pairs_other (l : list (nat * eq)) : forall acc r, ~ In r (map fst l) ->
  nth r (fold_left (fun acc p => set_nth (fst p) (snd p) acc) l acc) ENaN = nth r acc ENaN.
Proof.
  induction l as [|[k x] l IH]; intros acc r Hr; cbn [fold_left]; [reflexivity|]. cbn [map fst] in Hr.
  rewrite IH by (intro Hx; apply Hr; now right). cbn [fst snd]. apply nth_set_nth_other. intro Hx. apply Hr. now left.
Qed.

Lemma fold_pairs_nth (keys : list nat) : forall (vals : list eq) acc, NoDup keys -> length vals = length keys ->
  (forall k, In k keys -> k < length acc) ->
  forall b, b < length keys -> nth (nth b keys 0) (fold_left (fun acc p => set_nth (fst p) (snd p) acc) (combine keys vals) acc) ENaN = nth b vals ENaN.
Proof.
  induction keys as [|k keys IH]; intros vals acc Hnd Hl Hlt b Hb; [cbn in Hb; lia|].
  destruct vals as [|x vals]; [discriminate|]. cbn [combine fold_left fst snd].
  apply NoDup_cons_iff in Hnd as [Hk Hnd]. destruct b as [|b]; cbn [nth].
  - rewrite fold_pairs_other.
    + rewrite nth_set_nth by (apply Hlt; now left). now rewrite Nat.eqb_refl.
    + rewrite map_fst_combine by (cbn in Hl; lia). exact Hk.
  - apply IH; [assumption|cbn in Hl; lia| |cbn in Hb; lia].
    intros k' Hk'. rewrite set_nth_length. apply Hlt. now right.
Qed.

Fixpoint pcd_loop_H (fuel : nat) (ext : list nat) (Xn : list (list eq)) (d : list eq) (H : list nat) : list eq * list nat :=
  match fuel with
  | O => (d, H)
  | S fuel' =>
      let k := drop_first_min (X := E) d H in
      let H' := filter (fun i => negb (i =? k)) H in
      let dH := pcd_eval (X := E) Xn H' in
      let d' := fold_left (fun acc p => set_nth (fst p) (snd p) acc) (combine H' dH) d in
      pcd_loop_H fuel' ext Xn (set_inf (X := E) ext d') H'
  end.

Lemma pcd_loop_H_fst fuel ext Xn : forall d H, fst (pcd_loop_H fuel ext Xn d H) = pcd_loop (X := E) fuel ext Xn d H.
Proof. induction fuel as [|fuel IH]; intros d H; cbn [pcd_loop_H pcd_loop]; [reflexivity|]. apply IH. Qed.

(* the published procedure, for any notion of "value as defined with respect to the remaining points" *)
Inductive greedy_gen (n : nat) (isdef : list nat -> list eq -> Prop) : nat -> list nat -> list eq -> list nat -> list eq -> Prop :=
| greedy_gen_done H d : greedy_gen n isdef 0 H d H d
| greedy_gen_step s H d k d' Hf df :
    In k H -> (forall p, In p H -> gle (nth k d ENaN) (nth p d ENaN)) ->
    (forall r, r < n -> ~ In r (without k H) -> nth r d' ENaN = nth r d ENaN) ->
    isdef (without k H) d' ->
    greedy_gen n isdef s (without k H) d' Hf df ->
    greedy_gen n isdef (S s) H d Hf df.

(* every remaining point that is not an extreme of the whole front carries the crowding distance computed from scratch
   for the remaining points; the extremes of the whole front stay at +inf *)
Definition isdef_pcd (ext : list nat) (Xn : list (list eq)) (H : list nat) (d : list eq) : Prop :=
  forall a, a < length H -> (In (nth a H 0) ext -> nth (nth a H 0) d ENaN = PInf) /\
                            (~ In (nth a H 0) ext -> nth (nth a H 0) d ENaN = nth a (pcd_eval (X := E) Xn H) ENaN).

Section Loop.
Variable Xn : list (list eq).
Variable m : nat.
Hypothesis Hm : length (hd [] Xn) = m.
Hypothesis Hfin : forall p j, p < length Xn -> j < m -> isfin (cellx Xn p j).
Hypothesis Htie : forall j p q, j < m -> p < length Xn -> q < length Xn -> p <> q ->
  eltb (cellx Xn p j) (cellx Xn q j) = true \/ eltb (cellx Xn q j) (cellx Xn p j) = true.
Variable ext : list nat.
Let n := length Xn.

Lemma pcd_loop_greedy_order fuel : forall d H,
  NoDup H -> (forall i, In i H -> i < n) -> fuel + 1 <= length H -> length d = n -> Forall good d ->
  (forall i, In i ext -> i < n -> nth i d ENaN = PInf) ->
  isdef_pcd ext Xn H d ->
  (forall r p, r < n -> ~ In r H -> In p H -> gle (nth r d ENaN) (nth p d ENaN)) ->
  let res := pcd_loop_H fuel ext Xn d H in
  greedy_gen n (isdef_pcd ext Xn) fuel H d (snd res) (fst res) /\ isdef_pcd ext Xn (snd res) (fst res) /\
  NoDup (snd res) /\ incl (snd res) H /\ length (snd res) + fuel = length H /\
  forall r p, r < n -> ~ In r (snd res) -> In p (snd res) -> gle (nth r (fst res) ENaN) (nth p (fst res) ENaN).
Proof.
  induction fuel as [|fuel IH]; intros d H Hnd Hlt Hlen Hd Hg Hext Hdef Hord; cbn [pcd_loop_H].
  - cbn [fst snd]. split; [constructor|]. split; [assumption|]. split; [assumption|]. split; [apply incl_refl|]. split; [lia|assumption].
  - cbv zeta. set (k := drop_first_min (X := E) d H).
    assert (Hne : H <> []) by (destruct H; [cbn in Hlen; lia|discriminate]).
    assert (Hk : In k H) by (now apply drop_first_min_In).
    assert (Hkmin : forall p, In p H -> gle (nth k d ENaN) (nth p d ENaN)).
    { apply drop_first_min_is_min; [assumption|assumption|]. intros i Hi. rewrite Hd. now apply Hlt. }
    change (filter (fun i => negb (i =? k)) H) with (without k H).
    pose proof (without_length k H Hnd Hk) as Hwl.
    set (H' := without k H) in *.
    assert (Hnd' : NoDup H') by (now apply NoDup_filter).
    assert (Hsub : forall i, In i H' -> In i H /\ i <> k).
    { intros i Hi. apply filter_In in Hi as [Hi Hne']. split; [assumption|]. apply negb_true_iff in Hne'. now apply Nat.eqb_neq in Hne'. }
    assert (Hincl : incl H' H) by (intros i Hi; now apply Hsub).
    assert (Hlt' : forall i, In i H' -> i < n) by (intros i Hi; apply Hlt; now apply Hsub).
    destruct (pcd_eval_good Xn m H' Hm (colprop_fin Xn m Hfin) Hlt') as [Hpg Hpl].
    set (dH := pcd_eval (X := E) Xn H') in *.
    destruct (fold_pairs_good (combine H' dH) d) as [Hg' Hl'].
    { apply Forall_forall. intros [i x] Hin. cbn. apply in_combine_r in Hin. rewrite Forall_forall in Hpg. now apply Hpg. }
    { assumption. }
    set (d' := fold_left (fun acc p => set_nth (fst p) (snd p) acc) (combine H' dH) d) in *.
    assert (Hld' : length d' = n) by (etransitivity; [exact Hl'|exact Hd]).
    set (d'' := set_inf (X := E) ext d').
    assert (Hld'' : length d'' = n) by (unfold d''; rewrite set_inf_length; exact Hld').
    assert (Hg'' : Forall good d'') by (unfold d''; now apply set_inf_good).
    assert (Hext'' : forall i, In i ext -> i < n -> nth i d'' ENaN = PInf).
    { intros i Hi Hin. unfold d''. apply set_inf_pinf; [assumption|]. rewrite Hld'. exact Hin. }
    assert (Hnew : forall b, b < length H' -> ~ In (nth b H' 0) ext -> nth (nth b H' 0) d'' ENaN = nth b dH ENaN).
    { intros b Hb Hbe. unfold d''. rewrite set_inf_other by assumption. unfold d'.
      apply fold_pairs_nth; [assumption|assumption| |assumption]. intros i Hi. rewrite Hd. now apply Hlt'. }
    assert (Hkeep : forall r, r < n -> ~ In r H' -> nth r d'' ENaN = nth r d ENaN).
    { intros r Hr Hnr. destruct (in_dec Nat.eq_dec r ext) as [Hre|Hre]; [rewrite (Hext'' r Hre Hr); symmetry; now apply Hext|].
      unfold d''. rewrite set_inf_other by assumption. unfold d'. apply fold_pairs_other.
      rewrite map_fst_combine by (symmetry; exact Hpl). exact Hnr. }
    assert (Hdef' : isdef_pcd ext Xn H' d'').
    { intros b Hb. split; [intro Hbe; apply Hext''; [assumption|apply Hlt', nth_In, Hb]|]. intro Hbe. now apply Hnew. }
    assert (Hgood_d : forall i, i < n -> good (nth i d ENaN)) by (intros i Hi; rewrite Forall_forall in Hg; apply Hg, nth_In; rewrite Hd; exact Hi).
    assert (Hmono : forall p, In p H' -> gle (nth p d ENaN) (nth p d'' ENaN)).
    { intros p Hp. destruct (Hsub p Hp) as [HpH Hpk]. pose proof (Hlt p HpH) as Hpn.
      destruct (in_dec Nat.eq_dec p ext) as [Hpe|Hpe]; [rewrite (Hext'' p Hpe Hpn); apply good_gle_pinf; now apply Hgood_d|].
      destruct (pos_in_spec p H' Hp) as [Hbl Hbe]. destruct (pos_in_spec p H HpH) as [Hal Hae].
      pose proof (Hnew (pos_in p H') Hbl) as Hn1. rewrite Hbe in Hn1. rewrite (Hn1 Hpe).
      destruct (Hdef (pos_in p H) Hal) as [_ Hd2]. rewrite Hae in Hd2. rewrite (Hd2 Hpe).
      pose proof (pcd_eval_mono Xn m Hm Hfin Htie H H' Hnd Hnd' Hlt Hincl (pos_in p H') Hbl) as Hmm. rewrite Hbe in Hmm. exact Hmm. }
    destruct (IH d'' H') as (Hgr & HdefF & HndF & HinclF & HlenF & HordF); try assumption.
    + lia.
    + intros r p Hr Hnr Hp. destruct (Hsub p Hp) as [HpH Hpk].
      refine (eq_ind_r (fun z => gle z (nth p d'' ENaN)) _ (Hkeep r Hr Hnr)). apply (gle_trans _ (nth p d ENaN)); [|now apply Hmono].
      destruct (in_dec Nat.eq_dec r H) as [HrH|HrH].
      * assert (r = k). { destruct (Nat.eq_dec r k) as [E0|E0]; [assumption|]. exfalso. apply Hnr. apply filter_In. split; [assumption|]. apply negb_true_iff. now apply Nat.eqb_neq. }
        subst r. now apply Hkmin.
      * now apply Hord.
    + split; [apply (greedy_gen_step n (isdef_pcd ext Xn) fuel H d k d''); assumption|].
      split; [assumption|]. split; [assumption|]. split; [intros i Hi; apply Hincl, HinclF, Hi|]. split; [lia|assumption].
Qed.
End Loop.

(* ---------- from the front itself: no coordinate ties, at least two points ---------- *)
Definition no_coordinate_ties (F : list (list eq)) (m : nat) : Prop :=
  forall j p q, j < m -> p < length F -> q < length F -> p <> q ->
    eltb (cellx F p j) (cellx F q j) = true \/ eltb (cellx F q j) (cellx F p j) = true.

Lemma normalize_false_cells F m j : fin_matrix F m -> F <> [] -> length (hd [] F) = m -> j < m ->
  exists qmn qmx, forall p, p < length F -> exists qx, cellx F p j = Fin qx /\ (qmn <= qx)%Q /\ (qx <= qmx)%Q /\
    cellx (normalize (X := E) false F) p j = ediv (esub (Fin qx) (Fin qmn)) (Fin (qmx + - qmn)).
Proof.
  intros HF Hne Hhd Hj. unfold normalize. change (T (base E)) with eq in *. rewrite Hhd.
  set (mins := map (fun c => nth (argmin (X := E) c) c (qnan E)) (map (col (X := E) F) (seq 0 m))).
  set (maxs := map (fun c => nth (argmax (X := E) c) c (qnan E)) (map (col (X := E) F) (seq 0 m))).
  destruct (col_fin F m j HF Hj) as [Hcf Hcl]. set (c := col (X := E) F j) in *.
  assert (Hcn : c <> []). { intro Hn. rewrite Hn in Hcl. destruct F; [congruence|discriminate]. }
  assert (Emin : nth j mins ENaN = nth (argmin (X := E) c) c ENaN) by (unfold mins; rewrite map_map; now rewrite nth_map_seq).
  assert (Emax : nth j maxs ENaN = nth (argmax (X := E) c) c ENaN) by (unfold maxs; rewrite map_map; now rewrite nth_map_seq).
  assert (Hmn : isfin (nth (argmin (X := E) c) c ENaN)). { rewrite Forall_forall in Hcf. apply Hcf, nth_In. now apply argmin_lt. }
  assert (Hmx : isfin (nth (argmax (X := E) c) c ENaN)). { rewrite Forall_forall in Hcf. apply Hcf, nth_In. now apply argmax_lt. }
  destruct Hmn as [qmn Eqmn]. destruct Hmx as [qmx Eqmx].
  assert (Hlm : length mins = m) by (unfold mins; now rewrite !map_length, seq_length).
  assert (HlM : length maxs = m) by (unfold maxs; now rewrite !map_length, seq_length).
  set (dens := map2 (fun a b => let d := sub (base E) a b in if false && eqb (base E) d (zero (base E)) then one (base E) else d) maxs mins).
  assert (Hld : length dens = m) by (unfold dens; rewrite map2_length; lia).
  assert (Eden : nth j dens ENaN = Fin (qmx + - qmn)).
  { unfold dens. rewrite (nth_map2 _ maxs mins j ENaN ENaN ENaN) by lia. rewrite Emin, Emax, Eqmn, Eqmx. reflexivity. }
  exists qmn, qmx. intros p Hp.
  set (r0 := nth p F []). assert (Hr0 : In r0 F) by (apply nth_In; exact Hp).
  unfold fin_matrix in HF. rewrite Forall_forall in HF. destruct (HF r0 Hr0) as [Hl0 Hf0].
  assert (Hx : isfin (nth j r0 ENaN)) by (rewrite Forall_forall in Hf0; apply Hf0, nth_In; lia).
  destruct Hx as [qx Ex]. exists qx.
  assert (Hin : In (Fin qx) c) by (rewrite <- Ex; unfold c, col; apply in_map_iff; now exists r0).
  pose proof (argmin_is_min c Hcf _ Hin) as H1. pose proof (argmax_is_max c Hcf _ Hin) as H2. change (T (base E)) with eq in *.
  rewrite Eqmn in H1. rewrite Eqmx in H2. cbn in H1, H2. apply negb_false_iff in H1, H2. apply Qle_bool_iff in H1, H2.
  split; [exact Ex|]. split; [exact H1|]. split; [exact H2|].
  unfold cellx.
  transitivity (nth j (map3 (fun x mn dn => div (base E) (sub (base E) x mn) dn) r0 mins dens) ENaN).
  - apply (f_equal (fun l : list eq => nth j l ENaN)).
    apply (nth_map_d (fun r => map3 (fun x mn dn => div (base E) (sub (base E) x mn) dn) r mins dens) F p [] []). exact Hp.
  - rewrite (nth_map3 _ r0 mins dens j ENaN ENaN ENaN ENaN) by lia. rewrite Emin, Eden, Eqmn, Ex. reflexivity.
Qed.

Lemma normalized_tiefree F m : fin_matrix F m -> length (hd [] F) = m -> 2 <= length F -> no_coordinate_ties F m ->
  let Xn := normalize (X := E) false F in
  length Xn = length F /\ length (hd [] Xn) = m /\
  (forall p j, p < length Xn -> j < m -> isfin (cellx Xn p j)) /\
  (forall j p q, j < m -> p < length Xn -> q < length Xn -> p <> q ->
     eltb (cellx Xn p j) (cellx Xn q j) = true \/ eltb (cellx Xn q j) (cellx Xn p j) = true).
Proof.
  intros HF Hhd Hn2 Htf Xn. assert (Hne : F <> []) by (intro Hx; rewrite Hx in Hn2; cbn in Hn2; lia).
  assert (HXl : length Xn = length F) by (unfold Xn, normalize; apply map_length).
  pose proof (normalize_hd_length false F m HF Hne Hhd) as HXm. fold Xn in HXm.
  assert (Hcell : forall j, j < m -> exists qmn qd, (0 < qd)%Q /\ forall p, p < length F -> exists qx, cellx F p j = Fin qx /\ cellx Xn p j = Fin ((qx + - qmn) / qd)).
  { intros j Hj. destruct (normalize_false_cells F m j HF Hne Hhd Hj) as (qmn & qmx & Hc). fold Xn in Hc.
    assert (Hpos : (0 < qmx + - qmn)%Q).
    { destruct (Hc 0 ltac:(lia)) as (q0 & E0 & L0 & U0 & _). destruct (Hc 1 ltac:(lia)) as (q1 & E1 & L1 & U1 & _).
      destruct (Htf j 0 1 Hj ltac:(lia) ltac:(lia) ltac:(lia)) as [Hlt|Hlt]; rewrite E0, E1 in Hlt; cbn in Hlt; apply negb_true_iff in Hlt.
      - assert (~ (q1 <= q0)%Q) by (intro Hx; apply Qle_bool_iff in Hx; congruence). lra.
      - assert (~ (q0 <= q1)%Q) by (intro Hx; apply Qle_bool_iff in Hx; congruence). lra. }
    exists qmn, (qmx + - qmn)%Q. split; [assumption|]. intros p Hp. destruct (Hc p Hp) as (qx & Ex & _ & _ & Hv). exists qx. split; [assumption|].
    rewrite Hv. cbn. now rewrite (qsign_pos _ Hpos). }
  split; [assumption|]. split; [assumption|]. split.
  - intros p j Hp Hj. destruct (Hcell j Hj) as (qmn & qd & _ & Hc). rewrite HXl in Hp. destruct (Hc p Hp) as (qx & _ & Hv). rewrite Hv. now eexists.
  - intros j p q Hj Hp Hq Hpq. rewrite HXl in Hp, Hq. destruct (Hcell j Hj) as (qmn & qd & Hqd & Hc).
    destruct (Hc p Hp) as (xp & Ep & Vp). destruct (Hc q Hq) as (xq & Eq & Vq). rewrite Vp, Vq.
    assert (Hdiv : forall a b, (a < b)%Q -> eltb (Fin ((a + - qmn) / qd)) (Fin ((b + - qmn) / qd)) = true).
    { intros a b Hab. cbn. apply negb_true_iff. destruct (Qle_bool ((b + - qmn) / qd) ((a + - qmn) / qd)) eqn:El; [|reflexivity].
      apply Qle_bool_iff in El. exfalso.
      assert (H1 : ((b + - qmn) / qd * qd <= (a + - qmn) / qd * qd)%Q) by (apply Qmult_le_compat_r; lra).
      assert (Hz : ~ (qd == 0)%Q) by lra.
      rewrite !Qmult_comm with (y := qd) in H1. rewrite !Qmult_div_r in H1 by assumption. lra. }
    destruct (Htf j p q Hj Hp Hq Hpq) as [Hlt|Hlt]; rewrite Ep, Eq in Hlt; cbn in Hlt; apply negb_true_iff in Hlt.
    + left. apply Hdiv. assert (~ (xq <= xp)%Q) by (intro Hx; apply Qle_bool_iff in Hx; congruence). lra.
    + right. apply Hdiv. assert (~ (xp <= xq)%Q) by (intro Hx; apply Qle_bool_iff in Hx; congruence). lra.
Qed.

Lemma gle_div_pos a b q : good a -> good b -> gle a b -> (0 < q)%Q -> gle (ediv a (Fin q)) (ediv b (Fin q)).
Proof.
  intros Ha Hb Hab Hq. pose proof (qsign_pos q Hq) as Es.
  destruct Ha as [->|(x & -> & Hx)]; destruct Hb as [->|(y & -> & Hy)]; cbn in Hab |- *; rewrite Es; cbn; try tauto.
  unfold Qdiv. apply Qmult_le_compat_r; [assumption|]. apply Qlt_le_weak. now apply Qinv_lt_0_compat.
Qed.

(* the points left after the loop of misc/pruning_cd.py *)
Definition pcd_remaining (F : list (list eq)) (n_remove : Z) : list nat :=
  let n := length F in let m := length (hd [] F) in
  let nr := clamp_remove n_remove n m in
  let ext := extremes_of (X := E) F in
  let Xn := normalize (X := E) false F in
  snd (pcd_loop_H (nr - 1) ext Xn (set_inf (X := E) ext (pcd_eval (X := E) Xn (seq 0 n))) (seq 0 n)).

Theorem fallback_pcd_prunes_one_at_a_time F m nr :
  fin_matrix F m -> 1 <= m -> length (hd [] F) = m -> m < length F -> 2 <= length F -> no_coordinate_ties F m ->
  let n := length F in
  let ext := extremes_of (X := E) F in
  let Xn := normalize (X := E) false F in
  let d0 := set_inf (X := E) ext (pcd_eval (X := E) Xn (seq 0 n)) in
  let L := pcd_loop (X := E) (clamp_remove nr n m - 1) ext Xn d0 (seq 0 n) in
  let d := fallback_pcd (X := E) F nr in
  let Hf := pcd_remaining F nr in
  d = map (fun x => ediv x (Fin (inject_Z (Z.of_nat m)))) L /\
  isdef_pcd ext Xn (seq 0 n) d0 /\
  greedy_gen n (isdef_pcd ext Xn) (clamp_remove nr n m - 1) (seq 0 n) d0 Hf L /\
  isdef_pcd ext Xn Hf L /\
  NoDup Hf /\ length Hf + (clamp_remove nr n m - 1) = n /\
  forall r p, r < n -> ~ In r Hf -> In p Hf -> gle (nth r d ENaN) (nth p d ENaN).
Proof.
  intros HF Hm Hhd HmN Hn2 Htf. assert (Hne : F <> []) by (intro Hx; rewrite Hx in Hhd; cbn in Hhd; lia).
  destruct (normalized_tiefree F m HF Hhd Hn2 Htf) as (HXl & HXm & HXf & HXt).
  unfold fallback_pcd, pcd_remaining. change (T (base E)) with eq in *. rewrite Hhd. cbv zeta.
  set (Xn := normalize (X := E) false F) in *. set (n := length F) in *.
  pose proof (extremes_range F m HF Hne Hhd) as Hrange. fold n in Hrange. set (ext := extremes_of (X := E) F) in *.
  pose proof (clamp_remove_le nr n m) as Hnr.
  assert (HXl' : length Xn = n) by exact HXl.
  assert (Hnd : NoDup (seq 0 n)) by apply seq_NoDup.
  assert (Hlt : forall i, In i (seq 0 n) -> i < length Xn) by (intros i Hi; apply in_seq in Hi; rewrite HXl'; lia).
  destruct (pcd_eval_good Xn m (seq 0 n) HXm (colprop_fin Xn m HXf) Hlt) as [Hg0 Hl0]. rewrite seq_length in Hl0.
  set (d0 := set_inf (X := E) ext (pcd_eval (X := E) Xn (seq 0 n))).
  assert (Hld0 : length d0 = length Xn) by (unfold d0; rewrite set_inf_length, HXl'; exact Hl0).
  assert (Hext0 : forall i, In i ext -> i < length Xn -> nth i d0 ENaN = PInf).
  { intros i Hi Hin. unfold d0. apply set_inf_pinf; [assumption|]. rewrite Hl0. rewrite HXl' in Hin. exact Hin. }
  assert (Hdef0 : isdef_pcd ext Xn (seq 0 n) d0).
  { intros a Ha. rewrite seq_length in Ha. rewrite seq_nth by assumption. cbn [Nat.add]. split; [intro He; apply Hext0; [assumption|rewrite HXl'; exact Ha]|].
    intro He. unfold d0. now rewrite set_inf_other. }
  destruct (pcd_loop_greedy_order Xn m HXm HXf HXt ext (clamp_remove nr n m - 1) d0 (seq 0 n)) as (Hgr & HdefF & HndF & HinclF & HlenF & HordF); try assumption.
  - rewrite seq_length. lia.
  - unfold d0. now apply set_inf_good.
  - intros r p Hr Hnr0 Hp. exfalso. apply Hnr0. apply in_seq. assert (Hr' : r < n) by (rewrite <- HXl'; exact Hr). lia.
  - rewrite seq_length in HlenF. rewrite pcd_loop_H_fst in *.
    set (L := pcd_loop (X := E) (clamp_remove nr n m - 1) ext Xn d0 (seq 0 n)) in *.
    split; [reflexivity|]. split; [assumption|]. split; [match goal with |- greedy_gen _ ?a ?b ?c ?d ?e ?f => exact (@Logic.eq_ind nat _ (fun z : nat => greedy_gen z a b c d e f) Hgr _ HXl') end|]. split; [assumption|]. split; [assumption|]. split; [assumption|].
    intros r p Hr Hnr0 Hp.
    assert (Hgd0 : Forall good d0) by (unfold d0; now apply set_inf_good).
    destruct (pcd_loop_inv Xn m ext (clamp_remove nr n m - 1) HXm (colprop_fin Xn m HXf) d0 (seq 0 n) Hlt Hld0 Hgd0 Hext0) as (HL1 & HL2 & _).
    fold L in HL1, HL2.
    assert (Hpn : p < n) by (apply HinclF in Hp; apply in_seq in Hp; lia).
    assert (Hr' : r < length Xn) by (rewrite HXl'; exact Hr).
    assert (HL1' : length L = n) by (rewrite <- HXl'; exact HL1).
    assert (Hpos : (0 < inject_Z (Z.of_nat m))%Q) by (unfold Qlt; cbn; lia).
    assert (Hdiv : forall i, i < n -> nth i (map (fun x => ediv x (Fin (inject_Z (Z.of_nat m)))) L) ENaN = ediv (nth i L ENaN) (Fin (inject_Z (Z.of_nat m)))).
    { intros i Hi. apply (nth_map_d (fun x => ediv x (Fin (inject_Z (Z.of_nat m)))) L i ENaN ENaN). exact (eq_ind_r (fun z : nat => i < z) Hi HL1'). }
    refine (eq_ind_r (fun z => gle z _) _ (Hdiv r Hr)). refine (eq_ind_r (fun z => gle _ z) _ (Hdiv p Hpn)).
    assert (HgL : forall i, i < n -> good (nth i L ENaN)) by (intros i Hi; rewrite Forall_forall in HL2; apply HL2, nth_In; exact (eq_ind_r (fun z : nat => i < z) Hi HL1')).
    apply gle_div_pos; [now apply HgL|now apply HgL| |assumption]. now apply HordF.
Qed.
