From Coq Require Import List Bool Arith Lia Permutation.
From PV Require Import Base.Num Base.Res Base.ListX Model.Dominance Model.RankCrowd Proofs.DominanceP.
Import ListNotations.

(* ---------- boolean list predicates ---------- *)
Lemma memb_In i l : memb i l = true <-> In i l.
Proof.
  unfold memb. rewrite existsb_exists. split.
  - intros (x & Hx & E). apply Nat.eqb_eq in E. now subst.
  - intro H. exists i. split; [assumption|apply Nat.eqb_refl].
Qed.

Lemma memb_false i l : memb i l = false <-> ~ In i l.
Proof. rewrite <- memb_In. destruct (memb i l); split; congruence. Qed.

Lemma nodupb_NoDup l : nodupb l = true <-> NoDup l.
Proof.
  induction l as [|x l IH]; cbn; [split; [constructor|reflexivity]|].
  rewrite andb_true_iff, negb_true_iff, memb_false, IH. split.
  - intros [H1 H2]. now constructor.
  - intro H. inversion H; auto.
Qed.

Lemma is_perm_spec n p : is_perm n p = true -> length p = n /\ NoDup p /\ Forall (fun i => i < n) p.
Proof.
  unfold is_perm. rewrite !andb_true_iff. intros [[H1 H2] H3].
  apply Nat.eqb_eq in H1. apply nodupb_NoDup in H2. repeat split; auto.
  apply Forall_forall. intros x Hx. rewrite forallb_forall in H3. apply Nat.ltb_lt. auto.
Qed.

(* ---------- pick ---------- *)
Lemma all_some_F2 {A} (l : list (option A)) r : all_some l = Some r -> Forall2 (fun o a => o = Some a) l r.
Proof.
  revert r. induction l as [|[a|] l IH]; cbn; intros r H; try discriminate.
  - inversion H. constructor.
  - destruct (all_some l) as [r'|]; [|discriminate]. inversion H; subst. constructor; auto.
Qed.

Lemma pick_F2 {A} (l : list A) idx : forall r, pick l idx = Some r -> Forall2 (fun i a => nth_error l i = Some a) idx r.
Proof.
  unfold pick. induction idx as [|i idx IH]; cbn; intros r H.
  - inversion H. constructor.
  - destruct (nth_error l i) as [a|] eqn:E; [|discriminate].
    destruct (all_some (map (nth_error l) idx)) as [r'|]; [|discriminate]. inversion H; subst. constructor; auto.
Qed.

Lemma pick_length {A} (l : list A) idx r : pick l idx = Some r -> length r = length idx.
Proof. intro H. apply pick_F2 in H. symmetry. eapply Forall2_length; eauto. Qed.

Lemma pick_In {A} (l : list A) idx r : pick l idx = Some r -> forall a, In a r -> In a l.
Proof.
  intro H. apply pick_F2 in H. induction H as [|i a idx r Hi H IH]; intros x Hx; [destruct Hx|].
  destruct Hx as [<-|Hx]; [eapply nth_error_In; eauto|auto].
Qed.

Lemma pick_NoDup {A} (l : list A) idx r : NoDup l -> NoDup idx -> pick l idx = Some r -> NoDup r.
Proof.
  intros Hl Hi H. apply pick_F2 in H. induction H as [|i a idx r Hia H IH]; [constructor|].
  inversion Hi as [|? ? Hni Hi']; subst. constructor; [|auto].
  intro Hin. apply Hni. clear IH Hi Hi' Hni.
  induction H as [|j b idx r Hjb H IH]; [destruct Hin|].
  destruct Hin as [<-|Hin]; [left|right; auto].
  (* nth_error l i = Some b and nth_error l j = Some b with NoDup l => i = j *)
  symmetry. eapply (proj1 (NoDup_nth_error l) Hl); [apply nth_error_Some; congruence|congruence].
Qed.

Lemma pick_exists {A} (l : list A) idx : Forall (fun i => i < length l) idx -> exists r, pick l idx = Some r.
Proof.
  unfold pick. induction 1 as [|i idx Hi H IH]; cbn; [eauto|].
  destruct (nth_error l i) as [a|] eqn:E; [|apply nth_error_None in E; lia].
  destruct IH as [r ->]. cbn. eauto.
Qed.

Section P.
Context {N : num}.
Notation oev := (oevent N).

(* ---------- what a validated NDS answer guarantees ---------- *)
Lemma fronts_ok_spec (F : list (list N)) n : forall fronts assigned,
  fronts_ok F n assigned fronts = true ->
  NoDup (concat fronts) /\ Forall (fun i => i < n /\ ~ In i assigned) (concat fronts) /\
  Forall (fun fr => fr <> []) fronts.
Proof.
  induction fronts as [|fr rest IH]; intros assigned H; cbn in *; [repeat split; constructor|].
  rewrite !andb_true_iff in H. destruct H as [[[[H1 H2] H3] H4] H5].
  destruct (IH _ H5) as (IH1 & IH2 & IH3). apply nodupb_NoDup in H3.
  assert (Hfr : Forall (fun i => i < n /\ ~ In i assigned) fr).
  { apply Forall_forall. intros i Hi. rewrite forallb_forall in H2. specialize (H2 i Hi).
    apply memb_In in H2. apply filter_In in H2 as [H2 _]. apply filter_In in H2 as [H2 H2'].
    apply in_seq in H2. split; [lia|]. apply negb_true_iff in H2'. now apply memb_false. }
  repeat split.
  - apply NoDup_app_intro; [assumption|assumption|]. intros x Hx Hin.
    rewrite Forall_forall in IH2. destruct (IH2 x Hin) as [_ Hn]. apply Hn. apply in_or_app. now right.
  - apply Forall_app. split; [exact Hfr|]. eapply Forall_impl; [|exact IH2].
    intros a [Ha Hb]. split; [assumption|]. intro Hc. apply Hb. apply in_or_app. now left.
  - constructor; [|assumption]. intro E. subst. cbn in H4. discriminate.
Qed.

(* ---------- the front loop ---------- *)
(* what n_stop_if_ranked guarantees about sizes: only the last returned front can overshoot the quota *)
Inductive stop_ok (n : nat) : nat -> list (list nat) -> Prop :=
| stop_last fr acc : n <= acc + length fr -> stop_ok n acc [fr]
| stop_cons fr rest acc : acc + length fr < n -> stop_ok n (acc + length fr) rest -> stop_ok n acc (fr :: rest).

Lemma stop_ok_intro n : forall fronts acc, fronts <> [] ->
  acc + length (concat (removelast fronts)) < n -> n <= acc + length (concat fronts) -> stop_ok n acc fronts.
Proof.
  induction fronts as [|fr rest IH]; intros acc Hne H1 H2; [congruence|].
  destruct rest as [|fr2 rest].
  - cbn in *. rewrite app_nil_r in H2. now constructor.
  - change (removelast (fr :: fr2 :: rest)) with (fr :: removelast (fr2 :: rest)) in H1.
    change (concat (fr :: removelast (fr2 :: rest))) with (fr ++ concat (removelast (fr2 :: rest))) in H1.
    change (concat (fr :: fr2 :: rest)) with (fr ++ concat (fr2 :: rest)) in H2.
    rewrite app_length in H1, H2. apply stop_cons; [lia|]. apply IH; [discriminate|lia|lia].
Qed.

Lemma draw_crowd_ok len k (s : list oev) vals s' :
  draw_crowd len k s = Ok (vals, s') -> length vals = len.
Proof.
  unfold draw_crowd. destruct s as [|[? ?|? ?|k' v|? ?] s0]; try discriminate.
  destruct ((k' =? k) && (length v =? len)) eqn:E; [|discriminate]. intro H. inversion H; subst.
  apply andb_true_iff in E as [_ E]. now apply Nat.eqb_eq in E.
Qed.

Lemma draw_sort_ok desc vals (s : list oev) perm s' :
  draw_sort desc vals s = Ok (perm, s') ->
  length perm = length vals /\ NoDup perm /\ Forall (fun i => i < length vals) perm /\
  exists sv, pick vals perm = Some sv /\ sorted_by desc sv = true.
Proof.
  unfold draw_sort. destruct s as [|[? ?|? ?|? ?|d p] s0]; try discriminate.
  destruct (Bool.eqb d desc && is_perm (length vals) p) eqn:E; cbn [andb]; [|discriminate].
  destruct (pick vals p) as [sv|] eqn:Ep; [|discriminate]. destruct (sorted_by desc sv) eqn:Es; [|discriminate].
  intro H. inversion H; subst. apply andb_true_iff in E as [_ E]. apply is_perm_spec in E as (E1 & E2 & E3).
  repeat split; auto. exists sv. auto.
Qed.

Lemma draw_nds_ok F n (s : list oev) fronts s' :
  draw_nds F n s = Ok (fronts, s') -> is_ndsb F n fronts = true.
Proof.
  unfold draw_nds. destruct s as [|[? ?|n' f|? ?|? ?] s0]; try discriminate.
  destruct ((n' =? n) && is_ndsb F n f) eqn:E; [|discriminate]. intro H. inversion H; subst.
  now apply andb_true_iff in E as [_ E].
Qed.

Lemma rnc_loop_spec n : forall fronts k surv attrs s surv' attrs' s',
  rnc_loop (N := N) n k fronts surv attrs s = Ok ((surv', attrs'), s') ->
  stop_ok n (length surv) fronts -> length surv <= n -> Forall (@NoDup nat) fronts ->
  exists sel, surv' = surv ++ concat (removelast fronts) ++ sel /\ incl sel (last fronts []) /\ NoDup sel /\
              length surv' = n.
Proof.
  induction fronts as [|fr rest IH]; intros k surv attrs s surv' attrs' s' H Hs Hle Hnd; [inversion Hs|].
  cbn [rnc_loop] in H. inversion Hnd as [|? ? Hfr Hrest]; subst.
  inversion Hs as [fr' acc Hge|fr' rest' acc Hlt Hs']; subst.
  - (* last front *)
    destruct (n <? length surv + length fr) eqn:E.
    + apply Nat.ltb_lt in E.
      apply bind_ok in H as (crowd & s1 & Hc & H). apply bind_ok in H as (perm & s2 & Hp & H).
      apply bind_ok in H as (sel & s3 & Hsel & H). apply lift_ok in Hsel as [Hsel <-].
      cbn [rnc_loop] in H. apply ret_ok in H as [H _]. inversion H; subst.
      apply draw_crowd_ok in Hc. apply draw_sort_ok in Hp as (Hl & Hpn & Hpr & _).
      exists sel. cbn. repeat split.
      * intros x Hx. eapply pick_In; eauto.
      * eapply pick_NoDup; [exact Hfr|apply NoDup_firstn; exact Hpn|exact Hsel].
      * rewrite app_length, (pick_length _ _ _ Hsel), firstn_length. lia.
    + apply Nat.ltb_ge in E. apply bind_ok in H as (crowd & s1 & Hc & H).
      cbn [rnc_loop] in H. apply ret_ok in H as [H _]. inversion H; subst.
      exists fr. cbn. repeat split; [apply incl_refl|assumption|rewrite app_length; lia].
  - (* an earlier front: taken whole *)
    destruct (n <? length surv + length fr) eqn:E; [apply Nat.ltb_lt in E; lia|].
    apply bind_ok in H as (crowd & s1 & Hc & H).
    apply IH in H; [|rewrite app_length; assumption|rewrite app_length; lia|assumption].
    destruct H as (sel & -> & Hi & Hn & Hl). exists sel.
    destruct rest as [|fr2 rest]; [inversion Hs'|].
    change (removelast (fr :: fr2 :: rest)) with (fr :: removelast (fr2 :: rest)).
    change (last (fr :: fr2 :: rest) []) with (last (fr2 :: rest) []).
    cbn [concat]. rewrite <- !app_assoc. repeat split; auto. now rewrite <- !app_assoc in Hl.
Qed.

(* the outcome of RankAndCrowding._do in terms of a validated front list *)
Definition rnc_result (F : list (list N)) (n : nat) (fronts : list (list nat)) (surv : list nat) : Prop :=
  is_ndsb F n fronts = true /\
  exists sel, surv = concat (removelast fronts) ++ sel /\ incl sel (last fronts []) /\ NoDup sel.

Lemma is_ndsb_parts (F : list (list N)) n fronts : is_ndsb F n fronts = true ->
  fronts_ok F (length F) [] fronts = true /\
  (length (concat fronts) = length F \/ n <= length (concat fronts)) /\
  length (concat (removelast fronts)) < n.
Proof.
  unfold is_ndsb. rewrite !andb_true_iff, orb_true_iff. intros [[H1 H2] H3]. repeat split; auto.
  - destruct H2 as [H2|H2]; [left; now apply Nat.eqb_eq|right; now apply Nat.leb_le].
  - now apply Nat.ltb_lt.
Qed.

Lemma concat_removelast_last {A} (l : list (list A)) : l <> [] -> concat l = concat (removelast l) ++ last l [].
Proof.
  intro H. rewrite (app_removelast_last [] H) at 1. rewrite concat_app. cbn. now rewrite app_nil_r.
Qed.

Lemma rnc_do_spec F n s surv attrs s' :
  rnc_do (N := N) F n s = Ok ((surv, attrs), s') -> n <= length F ->
  exists fronts, rnc_result F n fronts surv /\ length surv = n /\ NoDup surv /\ Forall (fun i => i < length F) surv.
Proof.
  unfold rnc_do. intros H Hn. apply bind_ok in H as (fronts & s1 & Hd & H). apply draw_nds_ok in Hd.
  pose proof (is_ndsb_parts _ _ _ Hd) as (Hok & Htot & Hlast).
  destruct (fronts_ok_spec _ _ _ _ Hok) as (Hnd & Hrange & Hne).
  assert (Hfne : fronts <> []).
  { intro E. subst. cbn in *. lia. }
  assert (Hstop : stop_ok n 0 fronts) by (apply stop_ok_intro; cbn; [assumption|lia|lia]).
  assert (HndF : Forall (@NoDup nat) fronts).
  { clear - Hnd. induction fronts as [|fr rest IH]; constructor; cbn in Hnd; apply NoDup_app_inv in Hnd as (H1 & H2 & _); auto. }
  apply rnc_loop_spec in H; [|exact Hstop|cbn; lia|exact HndF].
  destruct H as (sel & -> & Hi & Hsel & Hl). cbn [app] in *.
  exists fronts. split; [split; [assumption|exists sel; auto]|]. split; [assumption|].
  assert (Hincl : incl (concat (removelast fronts) ++ sel) (concat fronts)).
  { rewrite (concat_removelast_last fronts Hfne). apply incl_app; [apply incl_appl, incl_refl|apply incl_appr; exact Hi]. }
  split.
  - rewrite (concat_removelast_last fronts Hfne) in Hnd. apply NoDup_app_inv in Hnd as (H1 & H2 & H3).
    apply NoDup_app_intro; [assumption|assumption|]. intros x Hx Hx'. apply (H3 x Hx). now apply Hi.
  - eapply Forall_incl; [exact Hincl|]. eapply Forall_impl; [|exact Hrange]. intros a [Ha _]. exact Ha.
Qed.

(* ---------- the feasibility split ---------- *)
Definition pop_feas (pop : list (mind N)) (i : nat) : bool :=
  match nth_error pop i with Some p => m_feas p | None => false end.
Definition pop_infeas (pop : list (mind N)) (i : nat) : bool :=
  match nth_error pop i with Some p => negb (m_feas p) | None => false end.

Record split_spec (pop : list (mind N)) (feas infeas : list nat) : Prop := {
  sp_feas : feas = feas_idx pop;
  sp_nd : NoDup infeas;
  sp_in : forall i, In i infeas <-> (i < length pop /\ pop_infeas pop i = true);
  sp_sorted : exists cvs, pick (map (@m_cv N) pop) infeas = Some cvs /\ sorted_by false cvs = true }.

Lemma feas_idx_spec (pop : list (mind N)) i : In i (feas_idx pop) <-> (i < length pop /\ pop_feas pop i = true).
Proof. unfold feas_idx. rewrite filter_In, in_seq. unfold pop_feas. intuition lia. Qed.

Lemma infeas_idx_spec (pop : list (mind N)) i : In i (infeas_idx pop) <-> (i < length pop /\ pop_infeas pop i = true).
Proof. unfold infeas_idx. rewrite filter_In, in_seq. unfold pop_infeas. intuition lia. Qed.

Lemma feas_idx_NoDup (pop : list (mind N)) : NoDup (feas_idx pop).
Proof. unfold feas_idx. apply NoDup_filter, seq_NoDup. Qed.

Lemma draw_split_ok (pop : list (mind N)) (s : list oev) feas infeas s' :
  draw_split pop s = Ok ((feas, infeas), s') -> split_spec pop feas infeas.
Proof.
  unfold draw_split. destruct s as [|[f i|? ?|? ?|? ?] s0]; try discriminate.
  destruct (split_ok pop f i) eqn:E; [|discriminate]. intro H. inversion H; subst. clear H.
  unfold split_ok in E. rewrite !andb_true_iff in E. destruct E as [[[[E1 E2] E3] E4] E5].
  apply list_nat_eqb_eq in E1. apply Nat.eqb_eq in E2. apply nodupb_NoDup in E3.
  assert (Hincl : incl infeas (infeas_idx pop)).
  { intros x Hx. rewrite forallb_forall in E4. apply memb_In. auto. }
  assert (Hincl2 : incl (infeas_idx pop) infeas).
  { apply NoDup_length_incl; [assumption|lia|assumption]. }
  constructor; auto.
  - intro x. rewrite <- infeas_idx_spec. split; auto.
  - destruct (pick (map (@m_cv N) pop) infeas) as [cvs|]; [|discriminate]. eauto.
Qed.

Lemma split_partition (pop : list (mind N)) feas infeas : split_spec pop feas infeas ->
  NoDup (feas ++ infeas) /\ length feas + length infeas = length pop /\ Forall (fun i => i < length pop) (feas ++ infeas).
Proof.
  intros [-> Hnd Hin _]. split; [|split].
  - apply NoDup_app_intro; [apply feas_idx_NoDup|assumption|].
    intros x Hx Hx'. apply feas_idx_spec in Hx as [_ Hf]. apply Hin in Hx' as [_ Hi].
    unfold pop_feas, pop_infeas in *. destruct (nth_error pop x); [|discriminate]. destruct (m_feas m); discriminate.
  - (* sizes: infeas is a permutation of infeas_idx; feas_idx and infeas_idx partition seq *)
    assert (Hl : length infeas = length (infeas_idx pop)).
    { apply Nat.le_antisymm; apply NoDup_incl_length; auto.
      - intros x Hx. apply infeas_idx_spec. now apply Hin.
      - unfold infeas_idx. apply NoDup_filter, seq_NoDup.
      - intros x Hx. apply Hin. now apply infeas_idx_spec. }
    rewrite Hl. unfold feas_idx, infeas_idx. rewrite filter_compl_length; [apply seq_length|].
    intros x Hx. apply in_seq in Hx. destruct (nth_error pop x) as [p|] eqn:E; [reflexivity|].
    apply nth_error_None in E. lia.
  - apply Forall_app. split; apply Forall_forall; intros x Hx.
    + now apply feas_idx_spec in Hx.
    + now apply Hin in Hx.
Qed.

(* ---------- pymoo's Survival.do around RankAndCrowding._do ---------- *)
Definition rnc_wrapped (constr : bool) (pop : list (mind N)) (ns : nat) (surv : list nat) : Prop :=
  if constr then
    exists feas infeas, split_spec pop feas infeas /\
      ((feas = [] /\ surv = firstn ns infeas) \/
       (feas <> [] /\ exists sub fronts s, pick pop feas = Some sub /\
          rnc_result (map (@m_f N) sub) (Nat.min (length feas) ns) fronts s /\ length s = Nat.min (length feas) ns /\
          NoDup s /\ Forall (fun i => i < length feas) s /\
          exists fs, pick feas s = Some fs /\ surv = fs ++ firstn (ns - length fs) infeas))
  else exists fronts, rnc_result (map (@m_f N) pop) ns fronts surv.

Lemma rnc_survival_spec constr (pop : list (mind N)) n s surv attrs s' :
  rnc_survival (N := N) constr pop n s = Ok ((surv, attrs), s') -> pop <> [] -> 1 <= n ->
  let ns := Nat.min n (length pop) in
  rnc_wrapped constr pop ns surv /\ length surv = ns /\ NoDup surv /\ Forall (fun i => i < length pop) surv.
Proof.
  intros H Hne Hn ns. unfold rnc_survival in H. destruct pop as [|p0 pop']; [congruence|].
  set (pop := p0 :: pop') in *. fold ns in H. unfold rnc_wrapped.
  assert (Hns : ns <= length pop) by (subst ns; lia). assert (Hns1 : 1 <= ns) by (subst ns pop; cbn; lia).
  destruct constr.
  - apply bind_ok in H as ([feas infeas] & s1 & Hsp & H). apply draw_split_ok in Hsp.
    destruct (split_partition _ _ _ Hsp) as (Hnd & Hsz & Hrg).
    apply bind_ok in H as ([s_sub attrs0] & s2 & Hinner & H).
    apply bind_ok in H as (fs & s3 & Hfs & H). apply lift_ok in Hfs as [Hfs <-].
    apply bind_ok in H as (attrs1 & s4 & _ & H). apply ret_ok in H as [H _]. inversion H; subst surv attrs. clear H.
    apply NoDup_app_inv in Hnd as (Hndf & Hndi & Hdisj). apply Forall_app in Hrg as [Hrgf Hrgi].
    destruct feas as [|f0 feas'].
    + apply ret_ok in Hinner as [Hinner _]. inversion Hinner; subst. cbn in Hfs. inversion Hfs; subst. cbn [app length] in *.
      rewrite Nat.sub_0_r. split; [exists [], infeas; split; [assumption|left; auto]|].
      split; [rewrite firstn_length; lia|]. split; [now apply NoDup_firstn|]. eapply Forall_incl; [apply incl_firstn|assumption].
    + set (feas := f0 :: feas') in *.
      apply bind_ok in Hinner as (sub & s5 & Hsub & Hinner). apply lift_ok in Hsub as [Hsub <-].
      assert (Hlsub : length sub = length feas) by (eapply pick_length; eauto).
      apply rnc_do_spec in Hinner; [|rewrite map_length, Hlsub; lia].
      destruct Hinner as (fronts & Hres & Hl & Hnds & Hrgs). rewrite map_length, Hlsub in Hrgs.
      assert (Hlfs : length fs = length s_sub) by (eapply pick_length; eauto).
      split; [exists feas, infeas; split; [assumption|right; split; [discriminate|]]; exists sub, fronts, s_sub; split; [exact Hsub|]; split; [exact Hres|]; split; [exact Hl|]; split; [exact Hnds|]; split; [exact Hrgs|]; exists fs; split; [exact Hfs|reflexivity]|].
      assert (Hfsin : incl fs feas) by (intros x Hx; eapply pick_In; eauto).
      split; [|split].
      * rewrite app_length, firstn_length, Hlfs, Hl. lia.
      * apply NoDup_app_intro; [exact (pick_NoDup feas s_sub fs Hndf Hnds Hfs)|now apply NoDup_firstn|].
        intros x Hx Hx'. apply (Hdisj x); [now apply Hfsin|eapply incl_firstn; eauto].
      * apply Forall_app. split; [eapply Forall_incl; eauto|eapply Forall_incl; [apply incl_firstn|assumption]].
  - apply rnc_do_spec in H; [|rewrite map_length; lia]. destruct H as (fronts & Hres & Hl & Hnd & Hrg).
    rewrite map_length in Hrg. split; [exists fronts; assumption|auto].
Qed.

(* ---------- ConstrRankAndCrowding ---------- *)
(* how the last violation front is cut: by an ascending sort of the total violations *)
Definition cut_by_cv (cvs : list N) (front : list nat) (m : nat) (sel : list nat) : Prop :=
  sel = front \/
  exists cvf perm sv, pick cvs front = Some cvf /\ length perm = length cvf /\ NoDup perm /\
    Forall (fun i => i < length cvf) perm /\ pick cvf perm = Some sv /\ sorted_by false sv = true /\
    pick front (firstn m perm) = Some sel.

Lemma crnc_loop_spec n cvs : forall fronts k surv cvr s surv' cvr' s',
  crnc_loop (N := N) n k cvs fronts surv cvr s = Ok ((surv', cvr'), s') ->
  stop_ok n (length surv) fronts -> length surv <= n -> Forall (@NoDup nat) fronts ->
  exists sel, surv' = surv ++ concat (removelast fronts) ++ sel /\ incl sel (last fronts []) /\ NoDup sel /\
              length surv' = n /\ cut_by_cv cvs (last fronts []) (n - length (surv ++ concat (removelast fronts))) sel.
Proof.
  induction fronts as [|fr rest IH]; intros k surv cvr s surv' cvr' s' H Hs Hle Hnd; [inversion Hs|].
  cbn [crnc_loop] in H. inversion Hnd as [|? ? Hfr Hrest]; subst.
  inversion Hs as [fr' acc Hge|fr' rest' acc Hlt Hs']; subst.
  - destruct (n <? length surv + length fr) eqn:E.
    + apply Nat.ltb_lt in E.
      apply bind_ok in H as (cvf & s1 & Hc & H). apply lift_ok in Hc as [Hc <-].
      apply bind_ok in H as (perm & s2 & Hp & H).
      apply bind_ok in H as (sel & s3 & Hsel & H). apply lift_ok in Hsel as [Hsel <-].
      cbn [crnc_loop] in H. apply ret_ok in H as [H _]. inversion H; subst.
      apply draw_sort_ok in Hp as (Hl & Hpn & Hpr & sv & Hsv & Hsorted).
      pose proof (pick_length _ _ _ Hc) as Hlc.
      exists sel. cbn [removelast concat last app]. rewrite app_nil_r. repeat split.
      * intros x Hx. eapply pick_In; eauto.
      * eapply pick_NoDup; [exact Hfr|apply NoDup_firstn; exact Hpn|exact Hsel].
      * rewrite app_length, (pick_length _ _ _ Hsel), firstn_length. lia.
      * right. exists cvf, perm, sv. repeat split; auto.
    + apply Nat.ltb_ge in E. cbn [crnc_loop] in H. apply ret_ok in H as [H _]. inversion H; subst.
      exists fr. cbn [removelast concat last app]. rewrite app_nil_r.
      repeat split; [apply incl_refl|assumption|rewrite app_length; lia|now left].
  - destruct (n <? length surv + length fr) eqn:E; [apply Nat.ltb_lt in E; lia|].
    apply IH in H; [|rewrite app_length; assumption|rewrite app_length; lia|assumption].
    destruct H as (sel & -> & Hi & Hn & Hl & Hcut). exists sel.
    destruct rest as [|fr2 rest]; [inversion Hs'|].
    change (removelast (fr :: fr2 :: rest)) with (fr :: removelast (fr2 :: rest)).
    change (last (fr :: fr2 :: rest) []) with (last (fr2 :: rest) []).
    cbn [concat]. rewrite <- !app_assoc in *. repeat split; auto.
Qed.

Definition crnc_wrapped (constr : bool) (pop : list (mind N)) (ns : nat) (surv : list nat) : Prop :=
  if constr then
    exists feas infeas fs, split_spec pop feas infeas /\
      ((feas = [] /\ fs = []) \/
       (feas <> [] /\ exists sub s, pick pop feas = Some sub /\
          rnc_wrapped true sub (Nat.min (Nat.min (length feas) ns) (length sub)) s /\ pick feas s = Some fs)) /\
      length fs = Nat.min (length feas) ns /\ incl fs feas /\
      ((ns - length fs = 0 /\ surv = fs) \/
       (0 < ns - length fs /\ exists subi fronts sel is2,
          pick pop infeas = Some subi /\ is_ndsb (map (@m_c N) subi) (ns - length fs) fronts = true /\
          incl sel (last fronts []) /\ NoDup sel /\
          cut_by_cv (map (@m_cv N) subi) (last fronts []) (ns - length fs - length (concat (removelast fronts))) sel /\
          pick infeas (concat (removelast fronts) ++ sel) = Some is2 /\ surv = fs ++ is2))
  else rnc_wrapped false pop ns surv.

Lemma crnc_survival_spec constr (pop : list (mind N)) n s surv attrs cvr s' :
  crnc_survival (N := N) constr pop n s = Ok ((surv, attrs, cvr), s') -> pop <> [] -> 1 <= n ->
  let ns := Nat.min n (length pop) in
  crnc_wrapped constr pop ns surv /\ length surv = ns /\ NoDup surv /\ Forall (fun i => i < length pop) surv.
Proof.
  intros H Hne Hn ns. unfold crnc_survival in H. destruct pop as [|p0 pop']; [congruence|].
  set (pop := p0 :: pop') in *. fold ns in H. unfold crnc_wrapped.
  assert (Hns : ns <= length pop) by (subst ns; lia). assert (Hns1 : 1 <= ns) by (subst ns pop; cbn; lia).
  destruct constr.
  - apply bind_ok in H as ([feas infeas] & s1 & Hsp & H). apply draw_split_ok in Hsp.
    destruct (split_partition _ _ _ Hsp) as (Hnd & Hsz & Hrg).
    apply NoDup_app_inv in Hnd as (Hndf & Hndi & Hdisj). apply Forall_app in Hrg as [Hrgf Hrgi].
    apply bind_ok in H as ([s_sub attrs0] & s2 & Hinner & H).
    apply bind_ok in H as (fs & s3 & Hfs & H). apply lift_ok in Hfs as [Hfs <-].
    apply bind_ok in H as (attrs1 & s4 & _ & H).
    (* facts about the feasible part *)
    assert (Hfeas : ((feas = [] /\ fs = []) \/
       (feas <> [] /\ exists sub s, pick pop feas = Some sub /\
          rnc_wrapped true sub (Nat.min (Nat.min (length feas) ns) (length sub)) s /\ pick feas s = Some fs)) /\
       length fs = Nat.min (length feas) ns /\ incl fs feas /\ NoDup fs).
    { destruct feas as [|f0 feas'].
      - apply ret_ok in Hinner as [Hinner _]. inversion Hinner; subst. cbn in Hfs. inversion Hfs; subst.
        split; [left; auto|]. cbn. repeat split; [intros ? []|constructor].
      - set (feas := f0 :: feas') in *.
        apply bind_ok in Hinner as (sub & s5 & Hsub & Hinner). apply lift_ok in Hsub as [Hsub <-].
        assert (Hlsub : length sub = length feas) by (eapply pick_length; eauto).
        apply rnc_survival_spec in Hinner; [|intro E; subst sub; cbn in Hlsub; discriminate|subst feas; cbn [length]; lia].
        destruct Hinner as (Hw & Hl & Hnds & Hrgs).
        split; [right; split; [discriminate|]; exists sub, s_sub; auto|].
        rewrite (pick_length _ _ _ Hfs), Hl, Hlsub. split; [lia|].
        split; [intros x Hx; eapply pick_In; eauto|]. exact (pick_NoDup feas s_sub fs Hndf Hnds Hfs). }
    destruct Hfeas as (Hfeas & Hlfs & Hfsin & Hfsnd).
    destruct (0 <? ns - length fs) eqn:Erem.
    + apply Nat.ltb_lt in Erem.
      apply bind_ok in H as (subi & s5 & Hsubi & H). apply lift_ok in Hsubi as [Hsubi <-].
      assert (Hlsubi : length subi = length infeas) by (eapply pick_length; eauto).
      apply bind_ok in H as (fronts & s6 & Hd & H). apply draw_nds_ok in Hd.
      apply bind_ok in H as ([s2i cvr0] & s7 & Hloop & H).
      apply bind_ok in H as (is2 & s8 & His2 & H). apply lift_ok in His2 as [His2 <-].
      apply bind_ok in H as (cvr1 & s9 & _ & H). apply ret_ok in H as [H _]. inversion H; subst surv attrs cvr. clear H.
      pose proof (is_ndsb_parts _ _ _ Hd) as (Hok & Htot & Hlast). rewrite map_length in Htot.
      destruct (fronts_ok_spec _ _ _ _ Hok) as (Hndc & Hrange & Hfne0). rewrite map_length in Hrange.
      assert (Hfne : fronts <> []) by (intro E; subst; cbn in *; lia).
      assert (Hstop : stop_ok (ns - length fs) 0 fronts) by (apply stop_ok_intro; cbn; [assumption|lia|lia]).
      assert (HndF : Forall (@NoDup nat) fronts).
      { clear - Hndc. induction fronts as [|fr rest IH]; constructor; cbn in Hndc; apply NoDup_app_inv in Hndc as (H1 & H2 & _); auto. }
      apply crnc_loop_spec in Hloop; [|exact Hstop|cbn; lia|exact HndF].
      destruct Hloop as (sel & -> & Hi & Hsel & Hl & Hcut). cbn [app length] in *.
      assert (Hincl : incl (concat (removelast fronts) ++ sel) (concat fronts)).
      { rewrite (concat_removelast_last fronts Hfne). apply incl_app; [apply incl_appl, incl_refl|apply incl_appr; exact Hi]. }
      assert (Hnd2 : NoDup (concat (removelast fronts) ++ sel)).
      { rewrite (concat_removelast_last fronts Hfne) in Hndc. apply NoDup_app_inv in Hndc as (H1 & H2 & H3).
        apply NoDup_app_intro; [assumption|assumption|]. intros x Hx Hx'. apply (H3 x Hx). now apply Hi. }
      assert (His2in : incl is2 infeas) by (intros x Hx; eapply pick_In; eauto).
      split; [exists feas, infeas, fs; split; [assumption|]; split; [assumption|]; split; [assumption|]; split; [assumption|];
              right; split; [assumption|]; exists subi, fronts, sel, is2; repeat split; auto|].
      split; [|split].
      * rewrite app_length, (pick_length _ _ _ His2), Hl. lia.
      * apply NoDup_app_intro; [assumption|exact (pick_NoDup infeas _ is2 Hndi Hnd2 His2)|].
        intros x Hx Hx'. apply (Hdisj x); [now apply Hfsin|now apply His2in].
      * apply Forall_app. split; eapply Forall_incl; eauto.
    + apply Nat.ltb_ge in Erem. apply ret_ok in H as [H _]. inversion H; subst surv attrs cvr. clear H.
      split; [exists feas, infeas, fs; split; [assumption|]; split; [assumption|]; split; [assumption|]; split; [assumption|]; left; split; [lia|reflexivity]|].
      split; [lia|]. split; [assumption|]. eapply Forall_incl; eauto.
  - apply bind_ok in H as ([s0 a0] & s1 & Hr & H). apply ret_ok in H as [H _]. inversion H; subst. clear H.
    apply rnc_survival_spec in Hr; [|discriminate|lia].
    assert (E : Nat.min ns (length pop) = ns) by lia. rewrite E in Hr. exact Hr.
Qed.

(* ---------- what the validated fronts mean ---------- *)
Lemma fronts_ok_app (F : list (list N)) n pre : forall assigned post,
  fronts_ok F n assigned (pre ++ post) = true -> fronts_ok F n (assigned ++ concat pre) post = true.
Proof.
  induction pre as [|fr pre IH]; intros assigned post H; cbn in *; [now rewrite app_nil_r|].
  rewrite !andb_true_iff in H. destruct H as [_ H]. apply IH in H. now rewrite <- app_assoc in H.
Qed.

(* whoever dominates a member of a front was ranked in an earlier front *)
Lemma dominator_earlier (F : list (list N)) pre fr post i d :
  fronts_ok F (length F) [] (pre ++ fr :: post) = true -> In i fr -> d < length F ->
  pdomb (nth d F []) (nth i F []) = true -> In d (concat pre).
Proof.
  intros H Hi Hd Hdom. apply fronts_ok_app in H. cbn [app fronts_ok] in H.
  rewrite !andb_true_iff in H. destruct H as [[[[_ H2] _] _] _].
  rewrite forallb_forall in H2. specialize (H2 i Hi). apply memb_In in H2. apply filter_In in H2 as [_ Hnd].
  unfold nondominated_in in Hnd. apply negb_true_iff in Hnd.
  destruct (memb d (concat pre)) eqn:Em; [now apply memb_In|exfalso].
  assert (existsb (fun j => pdomb (nth j F []) (nth i F [])) (filter (fun i0 => negb (memb i0 (concat pre))) (seq 0 (length F))) = true); [|congruence].
  apply existsb_exists. exists d. split; [|assumption]. apply filter_In. split; [apply in_seq; lia|now rewrite Em].
Qed.

Lemma in_concat_split {A} (x : A) l : In x (concat l) -> exists pre fr post, l = pre ++ fr :: post /\ In x fr.
Proof.
  intro H. apply in_concat in H as (fr & Hfr & Hx). apply in_split in Hfr as (pre & post & ->). eauto.
Qed.

(* C04: nobody who is discarded dominates a survivor *)
Lemma no_discarded_dominates (F : list (list N)) n fronts surv s d :
  rnc_result F n fronts surv -> In s surv -> d < length F ->
  pdomb (nth d F []) (nth s F []) = true -> In d surv.
Proof.
  intros [Hnds (sel & -> & Hi & _)] Hs Hd Hdom.
  pose proof (is_ndsb_parts _ _ _ Hnds) as (Hok & _ & Hlast).
  assert (Hfne : fronts <> []).
  { intro E; subst; cbn in *. destruct sel as [|x sel]; [destruct Hs|]. destruct (Hi x); now left. }
  apply in_or_app. left. apply in_app_or in Hs as [Hs|Hs].
  - apply in_concat_split in Hs as (pre & fr & post & E & Hin).
    rewrite (app_removelast_last [] Hfne), E, <- app_assoc in Hok. cbn [app] in Hok.
    pose proof (dominator_earlier F pre fr _ s d Hok Hin Hd Hdom) as Hp.
    rewrite E, concat_app. apply in_or_app. now left.
  - rewrite (app_removelast_last [] Hfne) in Hok.
    exact (dominator_earlier F (removelast fronts) (last fronts []) [] s d Hok (Hi s Hs) Hd Hdom).
Qed.

(* C04: a member of the first front is dropped only if the first front alone exceeds the quota *)
Lemma front0_dropped_only_if_too_big (F : list (list N)) n fronts surv f0 rest d :
  rnc_result F n fronts surv -> length surv = n -> fronts = f0 :: rest -> In d f0 -> ~ In d surv ->
  rest = [] /\ n < length f0.
Proof.
  intros [Hnds (sel & -> & Hi & Hnd)] Hl -> Hd Hns.
  destruct rest as [|f1 rest].
  - split; [reflexivity|]. cbn in *. 
    assert (Hle : length sel <= length f0) by (apply NoDup_incl_length; assumption).
    destruct (Nat.eq_dec (length sel) (length f0)) as [E|E]; [|lia].
    exfalso. apply Hns. assert (Hle2 : length f0 <= length sel) by lia. exact (NoDup_length_incl Hnd Hle2 Hi d Hd).
  - exfalso. apply Hns. apply in_or_app. left.
    change (removelast (f0 :: f1 :: rest)) with (f0 :: removelast (f1 :: rest)). cbn. apply in_or_app. now left.
Qed.

(* C04: every survivor's front index is at most the front index of any ranked, discarded individual *)
Lemma rank_respected (F : list (list N)) n fronts surv s d pre fr post :
  rnc_result F n fronts surv -> In s surv -> ~ In d surv -> fronts = pre ++ fr :: post -> In d fr ->
  post = [] /\ (In s (concat pre) \/ In s fr).
Proof.
  intros [Hnds (sel & -> & Hi & Hnd)] Hs Hd -> Hdfr.
  destruct post as [|p post].
  - split; [reflexivity|]. rewrite removelast_last, last_last in *. apply in_app_or in Hs as [Hs|Hs]; [now left|right; auto].
  - exfalso. apply Hd. apply in_or_app. left.
    assert (E : removelast (pre ++ fr :: p :: post) = pre ++ fr :: removelast (p :: post)).
    { rewrite removelast_app by discriminate. reflexivity. }
    rewrite E, concat_app. apply in_or_app. right. cbn. apply in_or_app. now left.
Qed.

(* ---------- feasible first, infeasible by total violation ---------- *)
Lemma feasible_first (pop : list (mind N)) ns surv i j :
  rnc_wrapped true pop ns surv -> In i surv -> pop_infeas pop i = true ->
  j < length pop -> pop_feas pop j = true -> In j surv.
Proof.
  intros (feas & infeas & Hsp & Hcase) Hi Hinf Hj Hjf.
  assert (Hjfeas : In j feas) by (rewrite (sp_feas _ _ _ Hsp); apply feas_idx_spec; auto).
  destruct Hcase as [[-> _]|(Hne & sub & fronts & s & Hsub & Hres & Hl & Hnds & Hrg & fs & Hfs & ->)]; [destruct Hjfeas|].
  apply in_or_app. left.
  assert (Hfsin : incl fs feas) by (intros x Hx; eapply pick_In; eauto).
  assert (Hlfs : length fs = length s) by (eapply pick_length; eauto).
  assert (Hfsnd : NoDup fs).
  { eapply pick_NoDup; [|exact Hnds|exact Hfs]. rewrite (sp_feas _ _ _ Hsp). apply feas_idx_NoDup. }
  apply in_app_or in Hi as [Hi|Hi].
  - exfalso. apply Hfsin in Hi. rewrite (sp_feas _ _ _ Hsp) in Hi. apply feas_idx_spec in Hi as [_ Hf].
    unfold pop_feas, pop_infeas in *. destruct (nth_error pop i); [|discriminate]. destruct (m_feas m); discriminate.
  - assert (0 < ns - length fs).
    { destruct (ns - length fs); [destruct Hi|lia]. }
    assert (Hle : length feas <= length fs) by lia.
    exact (NoDup_length_incl Hfsnd Hle Hfsin j Hjfeas).
Qed.

Context {ok : N -> Prop} (L : ord_laws N ok).

Lemma sorted_asc_head t : forall x, Forall ok (x :: t) -> sorted_by (N := N) false (x :: t) = true ->
  forall y, In y t -> leb N x y = true.
Proof.
  induction t as [|y t IH]; intros x Hok H z Hz; [destruct Hz|].
  cbn [sorted_by] in H. apply andb_true_iff in H as [Hxy H]. inversion Hok as [|? ? Hx Hok']; subst.
  inversion Hok' as [|? ? Hy Hok'']; subst. destruct Hz as [<-|Hz]; [assumption|].
  specialize (IH y Hok' H z Hz). rewrite Forall_forall in Hok''.
  exact (le_trans L x y z Hx Hy (Hok'' z Hz) Hxy IH).
Qed.

Lemma sorted_asc_tail x t : sorted_by (N := N) false (x :: t) = true -> sorted_by (N := N) false t = true.
Proof. cbn [sorted_by]. destruct t; [reflexivity|]. intro H. now apply andb_true_iff in H. Qed.

(* in an ascending list everything in a prefix is <= everything after it *)
Lemma sorted_asc_split sv : forall m, Forall ok sv -> sorted_by (N := N) false sv = true ->
  forall x y, In x (firstn m sv) -> In y (skipn m sv) -> leb N x y = true.
Proof.
  induction sv as [|z sv IH]; intros m Hok H x y Hx Hy; [destruct m; destruct Hx|].
  destruct m as [|m]; [destruct Hx|]. cbn in Hx, Hy. inversion Hok as [|? ? Hz Hok']; subst.
  destruct Hx as [<-|Hx].
  - apply (sorted_asc_head sv z Hok H). eapply (incl_skipn_aux m); exact Hy.
  - apply (IH m Hok' (sorted_asc_tail _ _ H) x y Hx Hy).
Qed.

Lemma Forall2_firstn_skipn {A B} (R : A -> B -> Prop) l1 : forall l2 m,
  Forall2 R l1 l2 -> Forall2 R (firstn m l1) (firstn m l2) /\ Forall2 R (skipn m l1) (skipn m l2).
Proof.
  induction l1 as [|a l1 IH]; intros l2 m H; inversion H as [|? b ? l2' Hab H']; subst.
  - destruct m; cbn; split; constructor.
  - destruct m as [|m]; cbn.
    + split; [constructor|assumption].
    + destruct (IH l2' m H') as [H1 H2]. split; [constructor; assumption|assumption].
Qed.

(* C04 / C16: among the infeasible, kept ones violate no more than dropped ones *)
Lemma infeasible_by_cv (pop : list (mind N)) feas infeas m i j :
  split_spec pop feas infeas -> Forall (fun p => ok (m_cv p)) pop ->
  In i (firstn m infeas) -> In j (skipn m infeas) ->
  exists pi pj, nth_error pop i = Some pi /\ nth_error pop j = Some pj /\ leb N (m_cv pi) (m_cv pj) = true.
Proof.
  intros Hsp Hok Hi Hj. destruct (sp_sorted _ _ _ Hsp) as (cvs & Hp & Hs).
  apply pick_F2 in Hp. destruct (Forall2_firstn_skipn _ _ _ m Hp) as [H1 H2].
  assert (Hokc : Forall ok cvs).
  { clear - Hp Hok. induction Hp as [|a c l1 l2 Hac Hp IH]; constructor; [|assumption].
    rewrite nth_error_map in Hac. destruct (nth_error pop a) as [p|] eqn:E; [|discriminate]. inversion Hac; subst.
    rewrite Forall_forall in Hok. apply Hok. eapply nth_error_In; eauto. }
  assert (G : forall l1 l2 a, Forall2 (fun i c => nth_error (map (@m_cv N) pop) i = Some c) l1 l2 -> In a l1 ->
              exists p, nth_error pop a = Some p /\ In (m_cv p) l2).
  { intros l1 l2 a HF Ha. induction HF as [|a0 c l1 l2 Hac HF IH]; [destruct Ha|].
    destruct Ha as [<-|Ha]; [|destruct (IH Ha) as (p & Hp' & Hin); exists p; split; [assumption|now right]].
    rewrite nth_error_map in Hac. destruct (nth_error pop a0) as [p|]; [|discriminate]. inversion Hac; subst.
    exists p. split; [reflexivity|now left]. }
  destruct (G _ _ i H1 Hi) as (pi & Hpi & Hci). destruct (G _ _ j H2 Hj) as (pj & Hpj & Hcj).
  exists pi, pj. repeat split; auto. exact (sorted_asc_split cvs m Hokc Hs _ _ Hci Hcj).
Qed.

(* ---------- C15: the cut of the split front by descending crowding ---------- *)
Lemma sorted_desc_head t : forall x, Forall ok (x :: t) -> sorted_by (N := N) true (x :: t) = true ->
  forall y, In y t -> leb N y x = true.
Proof.
  induction t as [|y t IH]; intros x Hok H z Hz; [destruct Hz|].
  cbn [sorted_by] in H. apply andb_true_iff in H as [Hxy H]. inversion Hok as [|? ? Hx Hok']; subst.
  inversion Hok' as [|? ? Hy Hok'']; subst. destruct Hz as [<-|Hz]; [assumption|].
  specialize (IH y Hok' H z Hz). rewrite Forall_forall in Hok''.
  exact (le_trans L z y x (Hok'' z Hz) Hy Hx IH Hxy).
Qed.

Lemma sorted_desc_tail x t : sorted_by (N := N) true (x :: t) = true -> sorted_by (N := N) true t = true.
Proof. cbn [sorted_by]. destruct t; [reflexivity|]. intro H. now apply andb_true_iff in H. Qed.

Lemma sorted_desc_split sv : forall m, Forall ok sv -> sorted_by (N := N) true sv = true ->
  forall x y, In x (firstn m sv) -> In y (skipn m sv) -> leb N y x = true.
Proof.
  induction sv as [|z sv IH]; intros m Hok H x y Hx Hy; [destruct m; destruct Hx|].
  destruct m as [|m]; [destruct Hx|]. cbn in Hx, Hy. inversion Hok as [|? ? Hz Hok']; subst.
  destruct Hx as [<-|Hx].
  - apply (sorted_desc_head sv z Hok H). eapply (incl_skipn_aux m); exact Hy.
  - apply (IH m Hok' (sorted_desc_tail _ _ H) x y Hx Hy).
Qed.

(* positions and their values stay aligned when a permutation is split *)
Lemma pick_split (vals : list N) perm sv m : pick vals perm = Some sv ->
  (forall i, In i (firstn m perm) -> exists v, nth_error vals i = Some v /\ In v (firstn m sv)) /\
  (forall i, In i (skipn m perm) -> exists v, nth_error vals i = Some v /\ In v (skipn m sv)).
Proof.
  intro H. apply pick_F2 in H. destruct (Forall2_firstn_skipn _ _ _ m H) as [H1 H2].
  assert (G : forall l1 l2 i, Forall2 (fun i a => nth_error vals i = Some a) l1 l2 -> In i l1 -> exists v, nth_error vals i = Some v /\ In v l2).
  { intros l1 l2 i HF Hi. induction HF as [|a v l1 l2 Hav HF IH]; [destruct Hi|].
    destruct Hi as [<-|Hi]; [exists v; split; [assumption|now left]|]. destruct (IH Hi) as (w & Hw & Hin). exists w. split; [assumption|now right]. }
  split; intros i Hi; eapply G; eauto.
Qed.

Lemma perm_surjective n perm : length perm = n -> NoDup perm -> Forall (fun i => i < n) perm -> forall i, i < n -> In i perm.
Proof.
  intros Hl Hnd Hr i Hi.
  assert (Hincl : incl perm (seq 0 n)) by (intros x Hx; rewrite Forall_forall in Hr; apply in_seq; specialize (Hr x Hx); lia).
  assert (Hle : length (seq 0 n) <= length perm) by (rewrite seq_length; lia).
  apply (NoDup_length_incl Hnd Hle Hincl). apply in_seq. lia.
Qed.

(* the positions holding a maximal ("infinite") value are all kept, provided there are at most m of them *)
Lemma top_kept (vals : list N) perm sv m top :
  Forall ok vals -> ok top ->
  length perm = length vals -> NoDup perm -> Forall (fun i => i < length vals) perm ->
  pick vals perm = Some sv -> sorted_by (N := N) true sv = true ->
  length (filter (fun j => negb (ltb N (nth j vals top) top)) (seq 0 (length vals))) <= m ->
  forall i, i < length vals -> ltb N (nth i vals top) top = false -> In i (firstn m perm).
Proof.
  intros Hok Htop Hl Hnd Hr Hp Hs Hcnt i Hi Hv.
  pose proof (perm_surjective _ _ Hl Hnd Hr i Hi) as Hin.
  rewrite <- (firstn_skipn m perm) in Hin. apply in_app_or in Hin as [Hin|Hin]; [assumption|exfalso].
  destruct (pick_split vals perm sv m Hp) as [P1 P2].
  assert (Hoksv : Forall ok sv).
  { apply pick_F2 in Hp. clear - Hp Hok. induction Hp as [|a v l1 l2 Hav Hp IH]; constructor; [|assumption].
    rewrite Forall_forall in Hok. apply Hok. eapply nth_error_In; eauto. }
  destruct (P2 i Hin) as (vi & Hvi & Hvin).
  set (tops := filter (fun j => negb (ltb N (nth j vals top) top)) (seq 0 (length vals))) in *.
  assert (Hsub : incl (i :: firstn m perm) tops).
  { intros x [<-|Hx]; apply filter_In.
    - split; [apply in_seq; lia|]. now rewrite Hv.
    - assert (Hxr : x < length vals) by (rewrite Forall_forall in Hr; apply Hr; eapply incl_firstn; eauto).
      split; [apply in_seq; lia|]. destruct (P1 x Hx) as (vx & Hvx & Hvxin).
      pose proof (sorted_desc_split sv m Hoksv Hs vx vi Hvxin Hvin) as Hle.
      rewrite (nth_error_nth _ _ _ Hvx). rewrite (nth_error_nth _ _ _ Hvi) in Hv.
      rewrite Forall_forall in Hoksv.
      assert (Okx : ok vx) by (apply Hoksv; eapply incl_firstn; eauto).
      assert (Oki : ok vi) by (apply Hoksv; eapply incl_skipn_aux; eauto).
      apply negb_true_iff. destruct (ltb N vx top) eqn:E; [|reflexivity].
      (* vi <= vx < top  contradicts  not (vi < top) *)
      rewrite (le_is_not_gt _ _ L) in Hle by assumption.
      destruct (lt_cotrans _ _ L vx vi top Okx Oki Htop E) as [H1|H1]; [rewrite H1 in Hle; discriminate|congruence]. }
  assert (Hnd2 : NoDup (i :: firstn m perm)).
  { constructor; [|now apply NoDup_firstn]. intro Hc.
    rewrite <- (firstn_skipn m perm) in Hnd. apply NoDup_app_inv in Hnd as (_ & _ & Hd). exact (Hd i Hc Hin). }
  pose proof (NoDup_incl_length Hnd2 Hsub) as Hlen. cbn [length] in Hlen.
  assert (Hfl : length (firstn m perm) = m).
  { rewrite firstn_length. destruct (Nat.le_gt_cases m (length perm)) as [Hle|Hgt]; [lia|].
    exfalso. rewrite skipn_all2 in Hin by lia. destruct Hin. }
  lia.
Qed.

(* how the split front is cut: the first m positions of a descending sort of its crowding values *)
Definition cut_desc (front : list nat) (m : nat) (sel : list nat) : Prop :=
  sel = front \/
  exists crowd perm sv, length crowd = length front /\ length perm = length crowd /\ NoDup perm /\
    Forall (fun i => i < length crowd) perm /\ pick crowd perm = Some sv /\ sorted_by (N := N) true sv = true /\
    pick front (firstn m perm) = Some sel.

Lemma rnc_loop_cut n : forall fronts k surv attrs s surv' attrs' s',
  rnc_loop (N := N) n k fronts surv attrs s = Ok ((surv', attrs'), s') ->
  stop_ok n (length surv) fronts -> length surv <= n ->
  exists sel, surv' = surv ++ concat (removelast fronts) ++ sel /\
              cut_desc (last fronts []) (n - length (surv ++ concat (removelast fronts))) sel.
Proof.
  induction fronts as [|fr rest IH]; intros k surv attrs s surv' attrs' s' H Hs Hle; [inversion Hs|].
  cbn [rnc_loop] in H. inversion Hs as [fr' acc Hge|fr' rest' acc Hlt Hs']; subst.
  - destruct (n <? length surv + length fr) eqn:E.
    + apply Nat.ltb_lt in E.
      apply bind_ok in H as (crowd & s1 & Hc & H). apply bind_ok in H as (perm & s2 & Hp & H).
      apply bind_ok in H as (sel & s3 & Hsel & H). apply lift_ok in Hsel as [Hsel <-].
      cbn [rnc_loop] in H. apply ret_ok in H as [H _]. inversion H; subst.
      apply draw_crowd_ok in Hc. apply draw_sort_ok in Hp as (Hl & Hpn & Hpr & sv & Hsv & Hsorted).
      exists sel. cbn [removelast concat last app]. rewrite app_nil_r. split; [reflexivity|].
      right. exists crowd, perm, sv. repeat split; auto.
      replace (n - length surv) with (length perm - (length surv + length fr - n)) by lia. exact Hsel.
    + apply bind_ok in H as (crowd & s1 & Hc & H). cbn [rnc_loop] in H. apply ret_ok in H as [H _]. inversion H; subst.
      exists fr. cbn [removelast concat last app]. split; [reflexivity|now left].
  - destruct (n <? length surv + length fr) eqn:E; [apply Nat.ltb_lt in E; lia|].
    apply bind_ok in H as (crowd & s1 & Hc & H).
    apply IH in H; [|rewrite app_length; assumption|rewrite app_length; lia].
    destruct H as (sel & -> & Hcut). exists sel.
    destruct rest as [|fr2 rest]; [inversion Hs'|].
    change (removelast (fr :: fr2 :: rest)) with (fr :: removelast (fr2 :: rest)).
    change (last (fr :: fr2 :: rest) []) with (last (fr2 :: rest) []).
    cbn [concat]. rewrite <- !app_assoc in *. split; [reflexivity|exact Hcut].
Qed.

Lemma rnc_do_cut F n s surv attrs s' :
  rnc_do (N := N) F n s = Ok ((surv, attrs), s') -> n <= length F ->
  exists fronts sel, is_ndsb F n fronts = true /\ surv = concat (removelast fronts) ++ sel /\
                     cut_desc (last fronts []) (n - length (concat (removelast fronts))) sel.
Proof.
  unfold rnc_do. intros H Hn. apply bind_ok in H as (fronts & s1 & Hd & H). apply draw_nds_ok in Hd.
  pose proof (is_ndsb_parts _ _ _ Hd) as (Hok & Htot & Hlast).
  assert (Hfne : fronts <> []) by (intro E; subst; cbn in *; lia).
  assert (Hstop : stop_ok n 0 fronts) by (apply stop_ok_intro; cbn; [assumption|lia|lia]).
  apply rnc_loop_cut in H; [|exact Hstop|cbn; lia]. destruct H as (sel & -> & Hcut). cbn [app] in *.
  exists fronts, sel. auto.
Qed.

(* C15 boundary clause, for every crowding metric: a member of the split front whose crowding value is maximal
   (+inf) survives, provided the number of such members does not exceed the number of members kept *)
Lemma cut_keeps_top (front : list nat) m sel crowd perm sv top :
  length crowd = length front -> length perm = length crowd -> NoDup perm -> Forall (fun i => i < length crowd) perm ->
  pick crowd perm = Some sv -> sorted_by (N := N) true sv = true -> pick front (firstn m perm) = Some sel ->
  Forall ok crowd -> ok top ->
  length (filter (fun j => negb (ltb N (nth j crowd top) top)) (seq 0 (length crowd))) <= m ->
  forall j x, nth_error front j = Some x -> ltb N (nth j crowd top) top = false -> In x sel.
Proof.
  intros Hlc Hlp Hnd Hr Hsv Hs Hsel Hok Htop Hcnt j x Hj Hv.
  assert (Hjl : j < length crowd) by (rewrite Hlc; apply nth_error_Some; congruence).
  pose proof (top_kept crowd perm sv m top Hok Htop Hlp Hnd Hr Hsv Hs Hcnt j Hjl Hv) as Hin.
  apply pick_F2 in Hsel. clear - Hsel Hin Hj. induction Hsel as [|a b l1 l2 Hab H IH]; [destruct Hin|].
  destruct Hin as [->|Hin]; [left; congruence|right; auto].
Qed.

(* one-shot metrics (cd, ce): every dropped position has a crowding value <= every kept position *)
Lemma cut_drops_smallest (crowd : list N) perm sv m a b :
  length perm = length crowd -> pick crowd perm = Some sv -> sorted_by (N := N) true sv = true -> Forall ok crowd ->
  In a (firstn m perm) -> In b (skipn m perm) ->
  exists va vb, nth_error crowd a = Some va /\ nth_error crowd b = Some vb /\ leb N vb va = true.
Proof.
  intros Hl Hp Hs Hok Ha Hb. destruct (pick_split crowd perm sv m Hp) as [P1 P2].
  destruct (P1 a Ha) as (va & Hva & Hia). destruct (P2 b Hb) as (vb & Hvb & Hib).
  assert (Hoksv : Forall ok sv).
  { apply pick_F2 in Hp. clear - Hp Hok. induction Hp as [|x v l1 l2 Hav Hp IH]; constructor; [|assumption].
    rewrite Forall_forall in Hok. apply Hok. eapply nth_error_In; eauto. }
  exists va, vb. repeat split; auto. exact (sorted_desc_split sv m Hoksv Hs va vb Hia Hib).
Qed.

(* ---------- C08: every dominated individual is dominated by a member of the first front (finite descent) ---------- *)
Definition well_formed_objs (F : list (list N)) (m : nat) : Prop :=
  Forall (fun r => length r = m /\ Forall ok r) F.

Lemma filter_length_sub {A} (f g : A -> bool) (l : list A) :
  (forall y, In y l -> f y = true -> g y = true) -> length (filter f l) <= length (filter g l).
Proof.
  induction l as [|z l IH]; intro Hsub; cbn; [lia|].
  assert (IH' : length (filter f l) <= length (filter g l)) by (apply IH; intros w Hw; apply Hsub; now right).
  destruct (f z) eqn:Ef.
  - rewrite (Hsub z (or_introl eq_refl) Ef). cbn. lia.
  - destruct (g z); cbn; lia.
Qed.

Lemma filter_length_lt {A} (f g : A -> bool) (l : list A) x :
  (forall y, In y l -> f y = true -> g y = true) -> In x l -> g x = true -> f x = false ->
  length (filter f l) < length (filter g l).
Proof.
  induction l as [|y l IH]; intros Hsub Hin Hg Hf; [destruct Hin|].
  assert (Hsub' : forall w, In w l -> f w = true -> g w = true) by (intros w Hw; apply Hsub; now right).
  cbn. destruct Hin as [->|Hin].
  - rewrite Hg, Hf. cbn. pose proof (filter_length_sub f g l Hsub'). lia.
  - pose proof (IH Hsub' Hin Hg Hf) as IH'. destruct (f y) eqn:Ef.
    + rewrite (Hsub y (or_introl eq_refl) Ef). cbn. lia.
    + destruct (g y); cbn; lia.
Qed.

Lemma row_ok (F : list (list N)) m i : well_formed_objs F m -> i < length F ->
  length (nth i F []) = m /\ Forall ok (nth i F []).
Proof. intros H Hi. unfold well_formed_objs in H. rewrite Forall_forall in H. apply H. now apply nth_In. Qed.

Lemma descent (F : list (list N)) m : well_formed_objs F m ->
  forall c i, i < length F ->
    length (filter (fun j => pdomb (nth j F []) (nth i F [])) (seq 0 (length F))) <= c ->
    (forall j, j < length F -> pdomb (nth j F []) (nth i F []) = false) \/
    (exists j, j < length F /\ pdomb (nth j F []) (nth i F []) = true /\
               forall k, k < length F -> pdomb (nth k F []) (nth j F []) = false).
Proof.
  intro WF. set (n := length F). set (dom := fun j i => pdomb (nth j F []) (nth i F [])).
  assert (Hspec : forall a b, a < n -> b < n -> (dom a b = true <-> pdom (nth a F []) (nth b F []))).
  { intros a b Ha Hb. destruct (row_ok F m a WF Ha) as [La Oa]. destruct (row_ok F m b WF Hb) as [Lb Ob].
    unfold dom. apply (pdomb_spec L); congruence. }
  induction c as [|c IH]; intros i Hi Hc.
  - left. intros j Hj. destruct (pdomb (nth j F []) (nth i F [])) eqn:E; [|reflexivity]. exfalso.
    assert (In j (filter (fun j0 => pdomb (nth j0 F []) (nth i F [])) (seq 0 n))) by (apply filter_In; split; [apply in_seq; lia|exact E]).
    destruct (filter _ _); [contradiction|cbn in Hc; lia].
  - destruct (existsb (fun j => dom j i) (seq 0 n)) eqn:Ex.
    + apply existsb_exists in Ex as (j & Hjin & Hji). apply in_seq in Hjin. assert (Hj : j < n) by lia.
      assert (Hlt : length (filter (fun k => dom k j) (seq 0 n)) < length (filter (fun k => dom k i) (seq 0 n))).
      { apply (filter_length_lt _ _ _ j).
        - intros k Hk Hkj. apply in_seq in Hk. apply (Hspec k i ltac:(lia) Hi).
          destruct (row_ok F m k WF ltac:(lia)) as [_ Ok']. destruct (row_ok F m j WF Hj) as [_ Oj]. destruct (row_ok F m i WF Hi) as [_ Oi].
          eapply (pdom_trans L); [exact Ok'|exact Oj|exact Oi| |]; [apply (Hspec k j ltac:(lia) Hj); exact Hkj|apply (Hspec j i Hj Hi); exact Hji].
        - apply in_seq. lia.
        - exact Hji.
        - destruct (dom j j) eqn:E; [|reflexivity]. exfalso. apply (Hspec j j Hj Hj) in E.
          destruct (row_ok F m j WF Hj) as [_ Oj]. exact (pdom_irrefl L _ Oj E). }
      assert (Hcj : length (filter (fun j0 => pdomb (nth j0 F []) (nth j F [])) (seq 0 (length F))) <= c).
      { change (length (filter (fun k => dom k j) (seq 0 n)) <= c).
        change (length (filter (fun k => dom k i) (seq 0 n)) <= S c) in Hc. lia. }
      destruct (IH j Hj Hcj) as [Hnd|(k & Hk & Hkj & Hknd)].
      * right. exists j. auto.
      * right. exists k. split; [assumption|]. split; [|assumption].
        apply (Hspec k i Hk Hi).
        destruct (row_ok F m k WF Hk) as [_ Ok']. destruct (row_ok F m j WF Hj) as [_ Oj]. destruct (row_ok F m i WF Hi) as [_ Oi].
        eapply (pdom_trans L); [exact Ok'|exact Oj|exact Oi| |]; [apply (Hspec k j Hk Hj); exact Hkj|apply (Hspec j i Hj Hi); exact Hji].
    + left. intros j Hj. change (dom j i = false). destruct (dom j i) eqn:E; [|reflexivity]. exfalso.
      assert (existsb (fun j0 => dom j0 i) (seq 0 n) = true); [|congruence].
      apply existsb_exists. exists j. split; [apply in_seq; lia|exact E].
Qed.

(* the first validated front is exactly the set of individuals nobody dominates *)
Lemma first_front_complete (F : list (list N)) f0 rest i :
  fronts_ok F (length F) [] (f0 :: rest) = true -> i < length F ->
  (forall j, j < length F -> pdomb (nth j F []) (nth i F []) = false) -> In i f0.
Proof.
  intros H Hi Hnd. cbn [fronts_ok] in H. rewrite !andb_true_iff in H. destruct H as [[[[H1 H2] H3] _] _].
  apply Nat.eqb_eq in H1. apply nodupb_NoDup in H3.
  set (remaining := filter (fun i0 => negb (memb i0 [])) (seq 0 (length F))) in *.
  set (nd := filter (nondominated_in F remaining) remaining) in *.
  assert (Hincl : incl f0 nd) by (intros x Hx; rewrite forallb_forall in H2; apply memb_In; auto).
  assert (Hle : length nd <= length f0) by lia.
  apply (NoDup_length_incl H3 Hle Hincl).
  assert (Hrem : In i remaining) by (apply filter_In; split; [apply in_seq; lia|reflexivity]).
  apply filter_In. split; [assumption|]. unfold nondominated_in. apply negb_true_iff.
  destruct (existsb _ remaining) eqn:E; [|reflexivity]. apply existsb_exists in E as (j & Hj & Hd).
  apply filter_In in Hj as [Hj _]. apply in_seq in Hj. rewrite Hnd in Hd by lia. discriminate.
Qed.

(* C08: among the survivors, the members of the first front are exactly those that no survivor dominates *)
Lemma rank0_iff_nondominated (F : list (list N)) m n fronts surv f0 rest s :
  well_formed_objs F m -> rnc_result F n fronts surv -> fronts = f0 :: rest -> In s surv -> s < length F ->
  (In s f0 <-> forall d, In d surv -> pdomb (nth d F []) (nth s F []) = false).
Proof.
  intros WF Hres Hf Hs Hsl. pose proof Hres as [Hnds (sel & Hsurv & Hi & Hnd)].
  pose proof (is_ndsb_parts _ _ _ Hnds) as (Hok & _ & _). rewrite Hf in Hok.
  assert (Hrange : forall x, In x surv -> x < length F).
  { intros x Hx. destruct (fronts_ok_spec _ _ _ _ Hok) as (_ & Hr & _). rewrite Forall_forall in Hr.
    assert (In x (concat (f0 :: rest))).
    { subst surv fronts. apply in_app_or in Hx as [Hx|Hx].
      - rewrite (concat_removelast_last (f0 :: rest)) by discriminate. apply in_or_app. now left.
      - rewrite (concat_removelast_last (f0 :: rest)) by discriminate. apply in_or_app. right. now apply Hi. }
    now apply Hr. }
  split.
  - intros Hin d Hd. destruct (pdomb (nth d F []) (nth s F [])) eqn:E; [|reflexivity]. exfalso.
    exact (dominator_earlier F [] f0 rest s d Hok Hin (Hrange d Hd) E).
  - intro Hnone. destruct (descent F m WF (length F) s Hsl) as [Hall|(j & Hj & Hjs & Hjnd)].
    { rewrite <- (seq_length (length F) 0) at 2. generalize (seq 0 (length F)). intro l0. induction l0 as [|z l0 IHl]; cbn; [lia|]. destruct (pdomb _ _); cbn; lia. }
    + exact (first_front_complete F f0 rest s Hok Hsl Hall).
    + (* a non-dominated j dominates s: j is in the first front, which survives entirely unless it is the only front *)
      pose proof (first_front_complete F f0 rest j Hok Hj Hjnd) as Hjf0.
      destruct rest as [|f1 rest'].
      * subst fronts surv. cbn in *. apply Hi. exact Hs.
      * exfalso. assert (Hjs' : In j surv).
        { subst surv fronts. apply in_or_app. left.
          change (removelast (f0 :: f1 :: rest')) with (f0 :: removelast (f1 :: rest')). cbn. apply in_or_app. now left. }
        rewrite (Hnone j Hjs') in Hjs. discriminate.
Qed.

(* the rank attribute written on the members of the k-th processed front is k *)
Fixpoint rank_pairs (k : nat) (fronts : list (list nat)) : list (nat * nat) :=
  match fronts with [] => [] | fr :: rest => map (fun i => (i, k)) fr ++ rank_pairs (S k) rest end.

Lemma map2_rank_proj (front : list nat) (crowd : list N) k : length crowd = length front ->
  map (fun a : nat * nat * N => fst a) (map2 (fun i c => (i, k, c)) front crowd) = map (fun i => (i, k)) front.
Proof.
  revert crowd. induction front as [|i front IH]; intros [|c crowd] H; cbn in *; try discriminate; [reflexivity|].
  f_equal. apply IH. lia.
Qed.

Lemma rnc_loop_attrs n : forall fronts k surv attrs s surv' attrs' s',
  rnc_loop (N := N) n k fronts surv attrs s = Ok ((surv', attrs'), s') ->
  map (fun a : nat * nat * N => fst a) attrs' = map (fun a : nat * nat * N => fst a) attrs ++ rank_pairs k fronts.
Proof.
  induction fronts as [|fr rest IH]; intros k surv attrs s surv' attrs' s' H; cbn [rnc_loop rank_pairs] in *.
  - apply ret_ok in H as [H _]. inversion H; subst. now rewrite app_nil_r.
  - destruct (n <? length surv + length fr).
    + apply bind_ok in H as (crowd & s1 & Hc & H). apply bind_ok in H as (perm & s2 & Hp & H).
      apply bind_ok in H as (sel & s3 & Hsel & H). apply lift_ok in Hsel as [_ <-].
      apply draw_crowd_ok in Hc. apply IH in H. rewrite H, map_app, (map2_rank_proj fr crowd k Hc), <- app_assoc. reflexivity.
    + apply bind_ok in H as (crowd & s1 & Hc & H). apply draw_crowd_ok in Hc.
      apply IH in H. rewrite H, map_app, (map2_rank_proj fr crowd k Hc), <- app_assoc. reflexivity.
Qed.

Lemma rnc_do_attrs F n s surv attrs s' :
  rnc_do (N := N) F n s = Ok ((surv, attrs), s') ->
  exists fronts, is_ndsb F n fronts = true /\ map (fun a : nat * nat * N => fst a) attrs = rank_pairs 0 fronts.
Proof.
  unfold rnc_do. intro H. apply bind_ok in H as (fronts & s1 & Hd & H). apply draw_nds_ok in Hd.
  apply rnc_loop_attrs in H. exists fronts. split; [assumption|exact H].
Qed.
End P.
