From Coq Require Import List Bool Arith QArith Lqa Lia.
From PV Require Import Base.Num Base.NumQ Base.Res Model.Repair.
Import ListNotations.

Inductive all5 {A} (P : A -> A -> A -> A -> A -> Prop) :
  list A -> list A -> list A -> list A -> list A -> Prop :=
| all5_nil : all5 P [] [] [] [] []
| all5_cons x b l h y xs bs ls hs ys :
    P x b l h y -> all5 P xs bs ls hs ys -> all5 P (x :: xs) (b :: bs) (l :: ls) (h :: hs) (y :: ys).

Lemma all5_length {A} (P : A -> A -> A -> A -> A -> Prop) xs bs ls hs ys :
  all5 P xs bs ls hs ys -> length ys = length xs /\ length bs = length xs /\ length ls = length xs /\ length hs = length xs.
Proof. induction 1; cbn; intuition congruence. Qed.

Lemma all5_impl {A} (P Q : A -> A -> A -> A -> A -> Prop) xs bs ls hs ys :
  (forall x b l h y, P x b l h y -> Q x b l h y) -> all5 P xs bs ls hs ys -> all5 Q xs bs ls hs ys.
Proof. intros HI H. induction H; constructor; auto. Qed.

Lemma all5_comp {A} (P Q : A -> A -> A -> A -> A -> Prop) xs bs ls hs ys zs :
  all5 P xs bs ls hs ys -> all5 Q ys bs ls hs zs ->
  all5 (fun x b l h z => exists y, P x b l h y /\ Q y b l h z) xs bs ls hs zs.
Proof.
  intro H. revert zs. induction H; intros zs H2; inversion H2; subst; constructor; eauto.
Qed.

Section Generic.
Context {N : num}.

Definition pass_step (lower : bool) (s : strat) (us : list N) (x b l h y : N) : Prop :=
  (viol lower x l h = false /\ y = x) \/
  (viol lower x l h = true /\ exists u, In u us /\
     y = if lower then lower_val s l h b u else upper_val s l h b u).

Lemma pass_spec lower s xs : forall bs ls hs us ys,
  pass lower s xs bs ls hs us = Some ys -> all5 (pass_step lower s us) xs bs ls hs ys.
Proof.
  induction xs as [|x xs IH]; intros [|b bs] [|l ls] [|h hs] us ys; cbn [pass]; try discriminate.
  - destruct us; [|discriminate]. intro H. inversion H. constructor.
  - destruct (viol lower x l h) eqn:Ev.
    + destruct us as [|u us']; [discriminate|].
      destruct (pass lower s xs bs ls hs us') as [ys'|] eqn:Ep; [|discriminate].
      cbn. intro H. inversion H; subst. constructor.
      * right. split; [assumption|]. exists u. split; [now left|reflexivity].
      * eapply all5_impl; [|apply IH; exact Ep].
        intros x0 b0 l0 h0 y0 [Hs|[Hv [u0 [Hin Hy]]]]; [now left|right].
        split; [assumption|]. exists u0. split; [now right|assumption].
    + destruct (pass lower s xs bs ls hs us) as [ys'|] eqn:Ep; [|discriminate].
      cbn. intro H. inversion H; subst. constructor; [now left|]. apply IH. exact Ep.
Qed.

(* the draws handed to a pass come from the event stream or are dummies *)
Definition ev_vals (e : event N) : list N := match e with ERand _ v => v | _ => [] end.

Lemma get_us_spec site s k evs us evs' :
  get_us site s k evs = Ok (us, evs') ->
  (forall u, In u us -> u = zero N \/ exists e, In e evs /\ In u (ev_vals e)) /\
  (forall e, In e evs' -> In e evs).
Proof.
  unfold get_us. destruct (uses_draws s).
  - destruct (k =? 0).
    + intro H. apply ret_ok in H as [<- <-]. split; [intros u []|auto].
    + intro H. apply draw_rand_ok in H as [-> _]. split.
      * intros u Hu. right. exists (ERand [k] us). split; [now left|exact Hu].
      * intros e He. now right.
  - intro H. apply ret_ok in H as [<- <-]. split; [|auto].
    intros u Hu. left. now apply repeat_spec in Hu.
Qed.
End Generic.

(* ---------- exact arithmetic ---------- *)
Open Scope Q_scope.

Definition unit_q (u : Q) : Prop := 0 <= u /\ u < 1.
Definition unit_events (evs : list (event Qn)) : Prop :=
  forall e, In e evs -> forall u, In u (ev_vals e) -> unit_q u.

(* what each strategy promises for one coordinate; b = base vector coordinate *)
Definition repaired (s : strat) (x b l h z : Q) : Prop :=
  l <= b <= h ->
  (l <= x <= h -> z = x) /\
  (x < l -> match s with
            | BounceBack => l <= z <= b
            | Midway => z == (l + b) / 2
            | ToBounds => z = l
            | RandInit => l <= z <= h
            end) /\
  (h < x -> match s with
            | BounceBack => b <= z <= h
            | Midway => z == (h + b) / 2
            | ToBounds => z = h
            | RandInit => l <= z <= h
            end) /\
  l <= z <= h.

Ltac qdiv2 := repeat match goal with
  | |- context [?a / 2] => setoid_replace (a / 2) with (a * (1 # 2)) by field
  end.

Lemma two_pass_repaired s us1 us2 x b l h y z :
  (forall u, In u us1 -> unit_q u) -> (forall u, In u us2 -> unit_q u) ->
  pass_step (N := Qn) true s us1 x b l h y -> pass_step (N := Qn) false s us2 y b l h z ->
  repaired s x b l h z.
Proof.
  intros U1 U2 H1 H2 Hb. unfold pass_step, viol in H1, H2. cbn in H1, H2.
  destruct H1 as [[V1 ->]|[V1 [u1 [Hu1 ->]]]].
  - apply Qltb_ge in V1.
    destruct H2 as [[V2 ->]|[V2 [u2 [Hu2 ->]]]].
    + apply Qltb_ge in V2. destruct s; cbn; repeat split; intros; try lra; try reflexivity; qdiv2; lra.
    + apply Qltb_lt in V2. destruct (U2 _ Hu2) as [Ha Hb'].
      assert (Hm : 0 <= u2 * (h - b) <= h - b) by nra.
      assert (Hm2 : 0 <= u2 * (h - l) <= h - l) by nra.
      destruct s; cbn; repeat split; intros; try lra; try reflexivity; qdiv2; lra.
  - apply Qltb_lt in V1. destruct (U1 _ Hu1) as [Ha Hb'].
    assert (Hm : 0 <= u1 * (b - l) <= b - l) by nra.
    assert (Hm2 : 0 <= u1 * (h - l) <= h - l) by nra.
    destruct H2 as [[V2 ->]|[V2 [u2 [Hu2 Hz]]]].
    + destruct s; cbn; repeat split; intros; try lra; try reflexivity; qdiv2; lra.
    + exfalso. apply Qltb_lt in V2. destruct s; cbn in V2; try lra.
      revert V2. qdiv2. lra.
Qed.

Lemma repair_spec s xs bs ls hs evs zs evs' :
  unit_events evs ->
  repair (N := Qn) s xs bs ls hs evs = Ok (zs, evs') ->
  all5 (repaired s) xs bs ls hs zs.
Proof.
  intros HU H. unfold repair in H.
  apply bind_ok in H as (us1 & e1 & G1 & H). apply bind_ok in H as (xs1 & e2 & P1 & H).
  apply bind_ok in H as (us2 & e3 & G2 & P2).
  apply lift_ok in P1 as [P1 <-]. apply lift_ok in P2 as [P2 <-].
  apply get_us_spec in G1 as [G1 S1]. apply get_us_spec in G2 as [G2 S2].
  assert (U1 : forall u, In u us1 -> unit_q u).
  { intros u Hu. destruct (G1 u Hu) as [->|[e [He Hin]]]; [split; cbn; lra|]. eapply HU; eauto. }
  assert (U2 : forall u, In u us2 -> unit_q u).
  { intros u Hu. destruct (G2 u Hu) as [->|[e [He Hin]]]; [split; cbn; lra|]. eapply HU; [apply S1; exact He|exact Hin]. }
  apply pass_spec in P1. apply pass_spec in P2.
  eapply all5_impl; [|exact (all5_comp _ _ _ _ _ _ _ _ P1 P2)].
  intros x b l h z [y [Hy Hz]]. exact (two_pass_repaired s us1 us2 x b l h y z U1 U2 Hy Hz).
Qed.

Lemma repair_length s xs bs ls hs evs zs evs' :
  unit_events evs -> repair (N := Qn) s xs bs ls hs evs = Ok (zs, evs') -> length zs = length xs.
Proof. intros HU H. exact (proj1 (all5_length _ _ _ _ _ _ (repair_spec _ _ _ _ _ _ _ _ HU H))). Qed.

(* the hypothesis "base inside the box" is used: without it bounce-back leaves the box *)
Lemma repair_needs_base_in_box_refuted :
  exists x b l h u z, unit_q u /\ pass_step (N := Qn) true BounceBack [u] x b l h z /\ ~ (l <= z <= h).
Proof.
  exists (-1), 5, 0, 1, (1 # 2), (0 + (1 # 2) * (5 - 0)). split; [split; lra|]. split.
  - right. split; [reflexivity|]. exists (1 # 2). split; [now left|reflexivity].
  - lra.
Qed.
