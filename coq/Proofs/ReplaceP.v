From Coq Require Import List Bool Arith Lia ZifyBool Permutation Sorted.
From PV Require Import Base.Num Base.ListX Model.Replace.
Import ListNotations.

Section ReplaceP.
Context {N : num} {ok : N -> Prop} (L : ord_laws N ok).
Notation ind := (sind N).

(* ---- the replacement rule, as the property states it ---- *)
Lemma better_spec (o p : ind) :
  better true o p = true <->
  (s_feas p = false /\ s_feas o = false /\ ltb N (s_cv o) (s_cv p) = true) \/
  (s_feas p = false /\ s_feas o = true) \/
  (s_feas p = true /\ s_feas o = true /\ ltb N (s_f o) (s_f p) = true).
Proof. unfold better. destruct (s_feas p), (s_feas o), (ltb N (s_cv o) (s_cv p)), (ltb N (s_f o) (s_f p)); cbn; intuition congruence. Qed.

Lemma better_unconstrained (o p : ind) : better false o p = ltb N (s_f o) (s_f p).
Proof. reflexivity. Qed.

(* ---- duplicates ---- *)
Definition is_dup (pop : list ind) (earlier : list ind) (o : ind) : bool :=
  existsb (fun q => veq (s_x q) (s_x o)) earlier || existsb (fun q => veq (s_x q) (s_x o)) pop.

Lemma dup_mask_aux_nth pop : forall off seen k o,
  nth_error off k = Some o ->
  nth_error (dup_mask_aux pop seen off) k = Some (is_dup pop (seen ++ firstn k off) o).
Proof.
  induction off as [|o0 off IH]; intros seen k o H; [destruct k; discriminate|].
  destruct k as [|k]; cbn in *.
  - inversion H; subst. now rewrite app_nil_r.
  - rewrite (IH _ _ _ H). now rewrite <- app_assoc.
Qed.

Lemma dup_mask_nth pop off k o : nth_error off k = Some o ->
  nth_error (dup_mask pop off) k = Some (is_dup pop (firstn k off) o).
Proof. intro H. exact (dup_mask_aux_nth pop off [] k o H). Qed.

Lemma dup_mask_length (pop off : list ind) : length (dup_mask pop off) = length off.
Proof. change (length (dup_mask_aux pop [] off) = length off). generalize (@nil ind). induction off; intro l; cbn; auto. Qed.

Lemma nth_error_map2 {A B C} (f : A -> B -> C) a : forall b k x y,
  nth_error a k = Some x -> nth_error b k = Some y -> nth_error (map2 f a b) k = Some (f x y).
Proof.
  induction a as [|x0 a IH]; intros [|y0 b] [|k] x y Ha Hb; cbn in *; try discriminate.
  - inversion Ha; inversion Hb; subst; reflexivity.
  - eauto.
Qed.

Lemma nth_error_map3 {A B C D} (f : A -> B -> C -> D) a : forall b c k x y z,
  nth_error a k = Some x -> nth_error b k = Some y -> nth_error c k = Some z ->
  nth_error (map3 f a b c) k = Some (f x y z).
Proof.
  induction a as [|x0 a IH]; intros [|y0 b] [|z0 c] [|k] x y z Ha Hb Hc; cbn in *; try discriminate.
  - inversion Ha; inversion Hb; inversion Hc; subst; reflexivity.
  - eauto.
Qed.

(* every slot holds its previous occupant or its own offspring; the offspring exactly when it is
   better and is not a duplicate of a member or of an earlier offspring *)
Lemma slotwise constr pop off k p o :
  nth_error pop k = Some p -> nth_error off k = Some o ->
  nth_error (apply_repl (repl_mask constr pop off) pop off) k =
  Some (if better constr o p && negb (is_dup pop (firstn k off) o) then o else p).
Proof.
  intros Hp Ho. unfold apply_repl, repl_mask.
  erewrite nth_error_map3; [reflexivity| |eassumption|eassumption].
  erewrite nth_error_map2; [reflexivity| |apply dup_mask_nth; eassumption].
  erewrite nth_error_map2; [reflexivity|eassumption|eassumption].
Qed.

Lemma apply_repl_length constr (pop off : list ind) : length off = length pop ->
  length (apply_repl (repl_mask constr pop off) pop off) = length pop.
Proof.
  intro H. unfold apply_repl, repl_mask. rewrite map3_length, !map2_length, dup_mask_length. lia.
Qed.

(* ---- the lexicographic (cv, f) order is a strict weak order ---- *)
Definition okind (i : ind) : Prop := ok (s_f i) /\ ok (s_cv i).

Lemma lex_irrefl a : okind a -> lex_lt a a = false.
Proof.
  intros [Hf Hc]. unfold lex_lt. rewrite (lt_irrefl _ _ L _ Hc), (lt_irrefl _ _ L _ Hf). reflexivity.
Qed.

Lemma lex_trans a b c : okind a -> okind b -> okind c ->
  lex_lt a b = true -> lex_lt b c = true -> lex_lt a c = true.
Proof.
  intros [Hfa Hca] [Hfb Hcb] [Hfc Hcc]. unfold lex_lt.
  pose proof (lt_trans _ _ L (s_cv a) (s_cv b) (s_cv c) Hca Hcb Hcc) as T1.
  pose proof (lt_cotrans _ _ L (s_cv a) (s_cv c) (s_cv b) Hca Hcc Hcb) as C1.
  pose proof (lt_cotrans _ _ L (s_cv b) (s_cv a) (s_cv c) Hcb Hca Hcc) as C2.
  pose proof (lt_cotrans _ _ L (s_cv c) (s_cv b) (s_cv a) Hcc Hcb Hca) as C3.
  pose proof (lt_trans _ _ L (s_f a) (s_f b) (s_f c) Hfa Hfb Hfc) as F1.
  destruct (ltb N (s_cv a) (s_cv b)), (ltb N (s_cv b) (s_cv c)), (ltb N (s_cv a) (s_cv c)),
    (ltb N (s_cv b) (s_cv a)), (ltb N (s_cv c) (s_cv b)), (ltb N (s_cv c) (s_cv a)); cbn in *; intuition congruence.
Qed.

Lemma lex_cotrans a b c : okind a -> okind b -> okind c ->
  lex_lt a c = true -> lex_lt a b = true \/ lex_lt b c = true.
Proof.
  intros [Hfa Hca] [Hfb Hcb] [Hfc Hcc]. unfold lex_lt.
  pose proof (lt_cotrans _ _ L (s_cv a) (s_cv b) (s_cv c) Hca Hcb Hcc) as K1.
  pose proof (lt_cotrans _ _ L (s_cv b) (s_cv c) (s_cv a) Hcb Hcc Hca) as K2.
  pose proof (lt_cotrans _ _ L (s_cv c) (s_cv a) (s_cv b) Hcc Hca Hcb) as K3.
  pose proof (lt_cotrans _ _ L (s_f a) (s_f b) (s_f c) Hfa Hfb Hfc) as K4.
  destruct (ltb N (s_cv a) (s_cv b)), (ltb N (s_cv b) (s_cv c)), (ltb N (s_cv a) (s_cv c)),
    (ltb N (s_cv b) (s_cv a)), (ltb N (s_cv c) (s_cv b)), (ltb N (s_cv c) (s_cv a)); cbn in *; intuition congruence.
Qed.

Definition lex_le (a b : ind) : Prop := lex_lt b a = false.

Lemma lex_le_trans a b c : okind a -> okind b -> okind c -> lex_le a b -> lex_le b c -> lex_le a c.
Proof.
  unfold lex_le. intros Ha Hb Hc H1 H2. destruct (lex_lt c a) eqn:E; [|reflexivity].
  destruct (lex_cotrans c b a Hc Hb Ha E); congruence.
Qed.

Lemma lex_lt_le a b : okind a -> okind b -> lex_lt a b = true -> lex_le a b.
Proof.
  unfold lex_le. intros Ha Hb H. destruct (lex_lt b a) eqn:E; [|reflexivity].
  pose proof (lex_trans a b a Ha Hb Ha H E). rewrite lex_irrefl in H0 by assumption. discriminate.
Qed.

(* ---- FitnessSurvival: stable sort, best first ---- *)
Lemma insert_lex_perm (x : ind) l : Permutation (insert_lex x l) (x :: l).
Proof.
  induction l as [|h t IH]; cbn [insert_lex]; [reflexivity|]. destruct (lex_lt x h); [reflexivity|].
  rewrite IH. apply perm_swap.
Qed.

Lemma fitness_sort_perm (l : list ind) : Permutation (fitness_sort l) l.
Proof.
  unfold fitness_sort. assert (G : forall acc, Permutation (fold_left (fun a x => insert_lex x a) l acc) (acc ++ l)).
  { induction l as [|x l IH]; intro acc; cbn; [now rewrite app_nil_r|].
    rewrite IH. rewrite insert_lex_perm. rewrite (Permutation_middle acc l x). reflexivity. }
  apply (G []).
Qed.

Lemma insert_lex_sorted (x : ind) l : okind x -> Forall okind l ->
  StronglySorted lex_le l -> StronglySorted lex_le (insert_lex x l).
Proof.
  intros Hx Hl Hs. induction Hs as [|h t Hs IH Hall]; cbn [insert_lex]; [repeat constructor|].
  inversion Hl as [|? ? Hh Ht]; subst.
  destruct (lex_lt x h) eqn:E.
  - constructor; [constructor; assumption|]. constructor; [now apply lex_lt_le|].
    rewrite Forall_forall in *. intros y Hy. eapply lex_le_trans; [| | |apply lex_lt_le; eauto|apply Hall; exact Hy]; auto.
  - constructor; [apply IH; assumption|].
    rewrite Forall_forall. intros y Hy. apply (Permutation_in _ (insert_lex_perm x t)) in Hy.
    destruct Hy as [<-|Hy]; [exact E|]. rewrite Forall_forall in Hall. auto.
Qed.

Lemma fitness_sort_sorted (l : list ind) : Forall okind l -> StronglySorted lex_le (fitness_sort l).
Proof.
  unfold fitness_sort.
  assert (G : forall acc, Forall okind acc -> Forall okind l -> StronglySorted lex_le acc ->
              StronglySorted lex_le (fold_left (fun a x => insert_lex x a) l acc)).
  { induction l as [|x l IH]; intros acc Ha Hl Hs; cbn; [assumption|]. inversion Hl; subst.
    apply IH; [|assumption|now apply insert_lex_sorted].
    rewrite Forall_forall. intros y Hy. apply (Permutation_in _ (insert_lex_perm x acc)) in Hy.
    destruct Hy as [<-|Hy]; [assumption|]. rewrite Forall_forall in Ha. auto. }
  intro H. apply G; [constructor|assumption|constructor].
Qed.

Lemma sorted_hd_least (l : list ind) b : StronglySorted lex_le l -> hd_error l = Some b -> forall x, In x l -> x = b \/ lex_le b x.
Proof.
  intros Hs Hb x Hx. destruct l as [|h t]; [discriminate|]. cbn in Hb. inversion Hb; subst.
  inversion Hs as [|? ? _ Hall]; subst. destruct Hx as [->|Hx]; [now left|right]. rewrite Forall_forall in Hall. auto.
Qed.

(* ---- consequences for one generation ---- *)
Lemma de_step_length constr (pop off : list ind) : length off = length pop -> length (de_step constr pop off) = length pop.
Proof.
  intro H. unfold de_step. rewrite (Permutation_length (fitness_sort_perm _)). now apply apply_repl_length.
Qed.

(* well-formed individuals: violation >= 0, feasible iff violation <= 0 *)
Definition wf (i : ind) : Prop :=
  okind i /\ leb N (zero N) (s_cv i) = true /\ s_feas i = leb N (s_cv i) (zero N).

Hypothesis ok0 : ok (zero N).

Lemma better_lex_constr o p : wf o -> wf p -> better true o p = true -> lex_lt o p = true.
Proof.
  intros ([Hfo Hco] & Ho0 & Hof) ([Hfp Hcp] & Hp0 & Hpf) H. apply better_spec in H. unfold lex_lt.
  rewrite (le_is_not_gt _ _ L) in Ho0, Hp0 by assumption. rewrite (le_is_not_gt _ _ L) in Hof, Hpf by assumption.
  pose proof (lt_cotrans _ _ L (zero N) (s_cv o) (s_cv p) ok0 Hco Hcp) as A.
  pose proof (lt_cotrans _ _ L (s_cv p) (zero N) (s_cv o) Hcp ok0 Hco) as B.
  rewrite Hof, Hpf in H.
  destruct (ltb N (s_cv o) (s_cv p)), (ltb N (s_cv p) (s_cv o)), (ltb N (zero N) (s_cv o)), (ltb N (zero N) (s_cv p)),
    (ltb N (s_cv o) (zero N)), (ltb N (s_cv p) (zero N)); cbn in *; intuition congruence.
Qed.

(* unconstrained problems: every violation is 0 *)
Definition cv0 (i : ind) : Prop := okind i /\ ltb N (s_cv i) (zero N) = false /\ ltb N (zero N) (s_cv i) = false.

Lemma better_lex_unconstr o p : cv0 o -> cv0 p -> better false o p = true -> lex_lt o p = true.
Proof.
  intros ([Hfo Hco] & Ho1 & Ho2) ([Hfp Hcp] & Hp1 & Hp2) H. cbn in H. unfold lex_lt.
  pose proof (lt_cotrans _ _ L (s_cv p) (zero N) (s_cv o) Hcp ok0 Hco) as B.
  rewrite H. destruct (ltb N (s_cv o) (s_cv p)), (ltb N (s_cv p) (s_cv o)); cbn in *; intuition congruence.
Qed.

Definition good_pop (constr : bool) (l : list ind) : Prop := Forall (if constr then wf else cv0) l.

Lemma good_okind constr l : good_pop constr l -> Forall okind l.
Proof. unfold good_pop. intro H. eapply Forall_impl; [|exact H]. destruct constr; intros a Ha; apply Ha. Qed.

(* every new slot occupant is its old occupant or its own, lexicographically smaller, offspring *)
Lemma apply_repl_slots constr (pop off : list ind) :
  length off = length pop -> good_pop constr pop -> good_pop constr off ->
  Forall3 (fun p o r => r = p \/ (r = o /\ lex_lt o p = true))
          pop off (apply_repl (repl_mask constr pop off) pop off).
Proof.
  intros Hl Hp Ho. apply Forall3_nth; [assumption|now apply apply_repl_length|].
  intros k p o r Hk Hok Hr. rewrite (slotwise constr pop off k p o Hk Hok) in Hr. inversion Hr; subst r. clear Hr.
  destruct (better constr o p) eqn:Eb; cbn; [|now left]. destruct (negb _); [right|now left]. split; [reflexivity|].
  assert (Hpin : In p pop) by (eapply nth_error_In; eauto). assert (Hoin : In o off) by (eapply nth_error_In; eauto).
  unfold good_pop in *. rewrite Forall_forall in Hp, Ho. specialize (Hp _ Hpin). specialize (Ho _ Hoin).
  destruct constr; [now apply better_lex_constr|now apply better_lex_unconstr].
Qed.

Lemma slots_members {A} (R : A -> A -> A -> Prop) (pop off new : list A) :
  Forall3 (fun p o r => r = p \/ (r = o /\ R p o r)) pop off new -> forall r, In r new -> In r pop \/ In r off.
Proof.
  induction 1 as [|p o r pop off new Hr H IH]; intros x Hx; [destruct Hx|].
  destruct Hx as [<-|Hx].
  - destruct Hr as [->|[-> _]]; [left|right]; now left.
  - destruct (IH x Hx); [left|right]; now right.
Qed.

(* the generation step keeps well-formedness, size, and never loses ground *)
Lemma de_step_good constr (pop off : list ind) :
  length off = length pop -> good_pop constr pop -> good_pop constr off -> good_pop constr (de_step constr pop off).
Proof.
  intros Hl Hp Ho. pose proof (apply_repl_slots constr pop off Hl Hp Ho) as HS.
  unfold good_pop in *. rewrite Forall_forall in *. intros x Hx. unfold de_step in Hx.
  apply (Permutation_in _ (fitness_sort_perm _)) in Hx.
  destruct (slots_members (fun p o _ => lex_lt o p = true) _ _ _ HS x Hx) as [Hm|Hm]; [apply Hp|apply Ho]; exact Hm.
Qed.

Lemma de_step_dominates constr (pop off : list ind) :
  length off = length pop -> good_pop constr pop -> good_pop constr off ->
  forall p, In p pop -> exists q, In q (de_step constr pop off) /\ lex_le q p.
Proof.
  intros Hl Hp Ho p Hin. pose proof (apply_repl_slots constr pop off Hl Hp Ho) as HS.
  pose proof (good_okind _ _ Hp) as Okp. pose proof (good_okind _ _ Ho) as Oko.
  assert (G : exists q, In q (apply_repl (repl_mask constr pop off) pop off) /\ lex_le q p).
  { clear Hl Hp Ho. rewrite Forall_forall in Okp, Oko.
    induction HS as [|p0 o r pop off new Hr H IH]; [destruct Hin|].
    destruct Hin as [<-|Hin].
    - exists r. split; [now left|]. destruct Hr as [->|[-> Hlt]].
      + unfold lex_le. apply lex_irrefl. apply Okp. now left.
      + apply lex_lt_le; [apply Oko; now left|apply Okp; now left|assumption].
    - destruct IH as (q & Hq & Hle); [assumption|intros; apply Okp; now right|intros; apply Oko; now right|].
      exists q. split; [now right|assumption]. }
  destruct G as (q & Hq & Hle). exists q. split; [|assumption].
  unfold de_step. apply (Permutation_in _ (Permutation_sym (fitness_sort_perm _))). exact Hq.
Qed.

(* lifted to every reachable state of a DE run *)
Lemma de_run_invariant constr : forall offs (pop : list ind),
  good_pop constr pop -> Forall (fun off => length off = length pop /\ good_pop constr off) offs ->
  let final := de_run constr pop offs in
  length final = length pop /\ good_pop constr final /\
  StronglySorted lex_le final \/ offs = [] /\ final = pop.
Proof.
  induction offs as [|off offs IH]; intros pop Hp Hall; cbn; [right; split; reflexivity|].
  inversion Hall as [|? ? [Hl Ho] Hrest]; subst. left.
  pose proof (de_step_length constr pop off Hl) as Hlen.
  pose proof (de_step_good constr pop off Hl Hp Ho) as Hg.
  assert (Hrest' : Forall (fun off0 => length off0 = length (de_step constr pop off) /\ good_pop constr off0) offs).
  { eapply Forall_impl; [|exact Hrest]. intros a [Ha Hb]. split; [congruence|assumption]. }
  destruct (IH _ Hg Hrest') as [(H1 & H2 & H3)|[-> E]].
  - unfold de_run in *. cbn. repeat split; [congruence|assumption|assumption].
  - cbn. repeat split; [assumption|assumption|]. apply fitness_sort_sorted.
    eapply Forall_impl; [|apply (good_okind constr)]. { intros a Ha; exact Ha. }
    unfold good_pop. rewrite Forall_forall. intros x Hx.
    pose proof (apply_repl_slots constr pop off Hl Hp Ho) as HS.
    unfold good_pop in Hp, Ho. rewrite Forall_forall in Hp, Ho.
    destruct (slots_members (fun p o _ => lex_lt o p = true) _ _ _ HS x Hx) as [Hm|Hm]; [apply Hp|apply Ho]; exact Hm.
Qed.

Lemma de_run_never_worse constr : forall offs (pop : list ind),
  good_pop constr pop -> Forall (fun off => length off = length pop /\ good_pop constr off) offs ->
  forall p, In p pop -> exists q, In q (de_run constr pop offs) /\ lex_le q p.
Proof.
  induction offs as [|off offs IH]; intros pop Hp Hall p Hin; cbn.
  - exists p. split; [assumption|]. unfold lex_le. apply lex_irrefl.
    pose proof (good_okind _ _ Hp) as Ok. rewrite Forall_forall in Ok. auto.
  - inversion Hall as [|? ? [Hl Ho] Hrest]; subst.
    destruct (de_step_dominates constr pop off Hl Hp Ho p Hin) as (q & Hq & Hle).
    pose proof (de_step_good constr pop off Hl Hp Ho) as Hg.
    assert (Hrest' : Forall (fun off0 => length off0 = length (de_step constr pop off) /\ good_pop constr off0) offs).
    { eapply Forall_impl; [|exact Hrest]. intros a [Ha Hb]. split; [rewrite de_step_length; assumption|assumption]. }
    destruct (IH _ Hg Hrest' q Hq) as (q' & Hq' & Hle'). exists q'. split; [exact Hq'|].
    pose proof (good_okind _ _ Hp) as Okp. rewrite Forall_forall in Okp.
    pose proof (good_okind _ _ Hg) as Okg. rewrite Forall_forall in Okg.
    assert (Hfin : good_pop constr (de_run constr (de_step constr pop off) offs)).
    { destruct (de_run_invariant constr offs _ Hg Hrest') as [(_ & H2 & _)|[_ ->]]; assumption. }
    pose proof (good_okind _ _ Hfin) as Okf. rewrite Forall_forall in Okf.
    eapply lex_le_trans; [apply Okf; exact Hq'|apply Okg; exact Hq|apply Okp; exact Hin|exact Hle'|exact Hle].
Qed.

(* identities: no individual appears twice *)
Lemma de_step_nodup constr (pop off : list ind) :
  length off = length pop -> good_pop constr pop -> good_pop constr off ->
  NoDup (map (@s_id N) (pop ++ off)) -> NoDup (map (@s_id N) (de_step constr pop off)).
Proof.
  intros Hl Hp Ho Hnd. pose proof (apply_repl_slots constr pop off Hl Hp Ho) as HS.
  eapply Permutation_NoDup; [apply Permutation_map; symmetry; apply fitness_sort_perm|].
  clear Hl Hp Ho. induction HS as [|p o r pop off new Hr H IH]; [constructor|].
  assert (Hnd2 : NoDup ((s_id p :: map (@s_id N) pop) ++ s_id o :: map (@s_id N) off)).
  { cbn in Hnd. rewrite map_app in Hnd. exact Hnd. }
  assert (Hnp : ~ In (s_id p) (map (@s_id N) pop ++ s_id o :: map (@s_id N) off)).
  { cbn in Hnd2. now inversion Hnd2. }
  pose proof (NoDup_remove_2 _ _ _ Hnd2) as Hno.
  assert (Hnd3 : NoDup (map (@s_id N) (pop ++ off))).
  { apply NoDup_remove_1 in Hnd2. cbn in Hnd2. inversion Hnd2; subst. now rewrite map_app. }
  cbn. constructor; [|apply IH; exact Hnd3].
  intro Hin. apply in_map_iff in Hin as (x & Hid & Hx).
  assert (Hxid : In (s_id x) (map (@s_id N) pop) \/ In (s_id x) (map (@s_id N) off)).
  { destruct (slots_members (fun p o _ => lex_lt o p = true) _ _ _ H x Hx) as [Hm|Hm]; [left|right]; apply in_map; exact Hm. }
  destruct Hr as [->|[-> _]]; rewrite Hid in Hxid.
  - apply Hnp. apply in_or_app. destruct Hxid; [now left|right; now right].
  - apply Hno. destruct Hxid; [apply in_or_app; left; now right|apply in_or_app; now right].
Qed.
End ReplaceP.
