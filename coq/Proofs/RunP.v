(* C01 at the level of whole runs: the box is an invariant of every run of every algorithm whose next population consists of
   members of the current population and of its offspring (DE: C02, NSDE / GDE3 / NSDE-R: C03, C06).  Induction over the
   generations: the mating keeps the box when the population is inside (variant_boxed), the survival only selects. *)
From Coq Require Import List Bool Arith QArith Lia.
From PV Require Import Base.Num Base.NumQ Base.Res Base.ListX
  Model.Repair Model.Mutate Model.Cross Model.Select Model.Variant Proofs.RepairP Proofs.VariantP.
Import ListNotations.
Local Open Scope nat_scope.

Section Run.
Variable c : vcfg (N := Qn).
Variables xl xu : list Q.

(* g generations: in each one the mating of the model (any rank attributes, its own part of the draw stream) proposes U from the
   current population; the next population is ANY list made of members of the current population and of U.
   run pop streams pops offs: pops = populations after each generation, offs = offspring of each generation *)
Inductive run : list (list Q) -> list (list (event Qn)) -> list (list (list Q)) -> list (list (list Q)) -> Prop :=
| run_nil pop : run pop [] [] []
| run_cons pop ranks s s' U pop' streams pops offs :
    variant_do c pop ranks (Some (xl, xu)) s = Ok (U, s') ->
    (forall x, In x pop' -> In x pop \/ In x U) ->
    run pop' streams pops offs ->
    run pop (s :: streams) (pop' :: pops) (U :: offs).

Theorem run_stays_in_box pop streams pops offs :
  0 < length xl -> length xu = length xl -> Forall unit_events streams -> Forall (boxed xl xu) pop ->
  run pop streams pops offs ->
  Forall (Forall (boxed xl xu)) offs /\ Forall (Forall (boxed xl xu)) pops.
Proof.
  intros Hv Hlen HU HB Hrun. induction Hrun as [pop|pop ranks s s' U pop' streams pops offs Hm Hsel Hrun IH]; [split; constructor|].
  pose proof (Forall_inv HU) as HUs. pose proof (Forall_inv_tail HU) as HUt.
  assert (HBU : Forall (boxed xl xu) U) by (exact (variant_boxed c pop ranks xl xu s U s' HUs Hv Hlen HB Hm)).
  assert (HB' : Forall (boxed xl xu) pop').
  { apply Forall_forall. intros x Hx. rewrite Forall_forall in HB, HBU. destruct (Hsel x Hx) as [H|H]; [now apply HB|now apply HBU]. }
  destruct (IH HUt HB') as [H1 H2]. split; constructor; assumption.
Qed.
End Run.
