(* C19, "randomly drawn parents are uniform over the admissible individuals": the structure of the rejection sampling of
   pymoode/operators/des.py.  For one column of the parent matrix every value the generator delivers belongs to exactly one
   row's own history of draws, the rows' histories are disjoint parts of the stream (read round by round, in row order), and
   the value a row ends with is the FIRST admissible value of its own history (admissible = not the target, not already in
   the row) - all earlier ones were rejected because they were inadmissible, nothing after it was drawn for that row.
   With i.i.d. uniform draws (numpy, trusted) the first admissible element of an i.i.d. uniform sequence is uniform on the
   admissible set, independently for the rows: that last step is probability and stays on paper. *)
From Coq Require Import List Bool Arith Lia.
From PV Require Import Base.Res Base.ListX Model.Select Proofs.SelectP.
Import ListNotations.

Section Hit.
Context {T : Type}.

(* the heads of the non-empty histories, in row order: what one redraw event delivers *)
Definition heads (hs : list (list nat)) : list nat := flat_map (fun h => match h with [] => [] | x :: _ => [x] end) hs.

(* the events of the redraw rounds *)
Fixpoint rounds (fuel n_pop : nat) (hs : list (list nat)) : list (event T) :=
  match fuel with
  | O => []
  | S f => match heads hs with
           | [] => []
           | hd => EChoice n_pop (length hd) hd :: rounds f n_pop (map (@tl nat) hs)
           end
  end.

(* one row: starting from the value c, the further draws h; c' is the last of them, everything before it was inadmissible *)
Definition row_hit (row : list nat) (t c c' : nat) (h : list nat) : Prop :=
  c' = last h c /\ Forall (fun x => is_bad row t x = true) (removelast (c :: h)) /\ is_bad row t c' = false /\
  (is_bad row t c = false -> h = []).

Fixpoint rows_hit (rows : list (list nat)) (targets col col' : list nat) (hs : list (list nat)) : Prop :=
  match rows, targets, col, col', hs with
  | row :: rows', t :: ts, c :: cs, c' :: cs', h :: hs' => row_hit row t c c' h /\ rows_hit rows' ts cs cs' hs'
  | [], [], [], [], [] => True
  | _, _, _, _, _ => False
  end.

(* prepend this round's draws to the histories of the flagged rows *)
Fixpoint attach (bads : list bool) (news : list nat) (hs : list (list nat)) : list (list nat) :=
  match bads, hs with
  | true :: bs, h :: hs' => match news with x :: ns => (x :: h) :: attach bs ns hs' | [] => [] end
  | false :: bs, h :: hs' => h :: attach bs news hs'
  | _, _ => []
  end.

Lemma last_indep (h : list nat) : forall y c d, last (y :: h) c = last (y :: h) d.
Proof. induction h as [|z h IH]; intros y c d; [reflexivity|]. change (last (z :: h) c = last (z :: h) d). apply IH. Qed.

Lemma last_cons (x : nat) h c : last (x :: h) c = last h x.
Proof. destruct h as [|y h]; [reflexivity|]. change (last (y :: h) c = last (y :: h) x). apply last_indep. Qed.

Lemma rows_hit_same rows : forall targets col, length targets = length rows -> length col = length rows ->
  Forall (fun b => b = false) (map3 is_bad rows targets col) -> rows_hit rows targets col col (repeat [] (length rows)).
Proof.
  induction rows as [|row rows IH]; intros [|t ts] [|c cs] Hlt Hlc Hb; cbn in *; try discriminate; [exact I|].
  inversion Hb as [|? ? Hb1 Hb2]; subst. split; [|apply IH; [lia|lia|assumption]].
  unfold row_hit. cbn. repeat split; auto.
Qed.

Lemma attach_step rows : forall targets col news col2 col' hs2,
  length targets = length rows -> length col = length rows ->
  replace_bad (map3 is_bad rows targets col) col news = Some col2 ->
  rows_hit rows targets col2 col' hs2 ->
  let hs := attach (map3 is_bad rows targets col) news hs2 in
  rows_hit rows targets col col' hs /\ heads hs = news /\ map (@tl nat) hs = hs2.
Proof.
  induction rows as [|row rows IH]; intros [|t ts] [|c cs] news col2 col' hs2 Hlt Hlc Hr Hh; cbn in Hlt, Hlc; try discriminate.
  - cbn in Hr. destruct news; [|discriminate]. injection Hr as <-. destruct col', hs2; cbn in Hh; try contradiction. cbn. auto.
  - cbn [map3] in Hr |- *. destruct (is_bad row t c) eqn:Eb; cbn [replace_bad] in Hr.
    + destruct news as [|x ns]; [discriminate|]. destruct (replace_bad (map3 is_bad rows ts cs) cs ns) as [r|] eqn:Er; [|discriminate].
      injection Hr as <-. destruct col' as [|c' cs'], hs2 as [|h2 hs2']; cbn [rows_hit] in Hh; try contradiction.
      destruct Hh as [(Hl & Hall & Hgood & Hemp) Hrest].
      destruct (IH ts cs ns r cs' hs2' ltac:(lia) ltac:(lia) Er Hrest) as (H1 & H2 & H3).
      cbn [attach]. cbn zeta. split; [|split].
      * cbn [rows_hit]. split; [|exact H1]. unfold row_hit. split; [rewrite last_cons; exact Hl|]. split; [|split; [exact Hgood|intro Hx; congruence]].
        change (removelast (c :: x :: h2)) with (c :: removelast (x :: h2)). constructor; assumption.
      * cbn [heads flat_map app]. f_equal. exact H2.
      * cbn [map tl]. f_equal. exact H3.
    + destruct (replace_bad (map3 is_bad rows ts cs) cs news) as [r|] eqn:Er; [|discriminate].
      injection Hr as <-. destruct col' as [|c' cs'], hs2 as [|h2 hs2']; cbn [rows_hit] in Hh; try contradiction.
      destruct Hh as [(Hl & Hall & Hgood & Hemp) Hrest].
      destruct (IH ts cs news r cs' hs2' ltac:(lia) ltac:(lia) Er Hrest) as (H1 & H2 & H3).
      specialize (Hemp Eb). subst h2.
      cbn [attach]. cbn zeta. split; [|split].
      * cbn [rows_hit]. split; [|exact H1]. unfold row_hit. repeat split; auto.
      * cbn [heads flat_map app]. exact H2.
      * cbn [map tl]. f_equal. exact H3.
Qed.

Lemma replace_bad_length bads : forall col news col', replace_bad bads col news = Some col' -> length col' = length col.
Proof. intros col news col' H. exact (proj1 (replace_bad_spec (fun _ => True) bads col news col' H)). Qed.

Lemma rounds_nil fuel n_pop k : rounds fuel n_pop (repeat [] k) = [].
Proof.
  destruct fuel; [reflexivity|]. cbn [rounds]. replace (heads (repeat [] k)) with (@nil nat); [reflexivity|].
  induction k; cbn; auto.
Qed.

(* the redraw loop *)
Lemma reselect_loop_hit n_pop rows targets : forall fuel col s col' s',
  reselect_loop (T := T) fuel n_pop rows targets col s = Ok (col', s') ->
  length targets = length rows -> length col = length rows ->
  exists hs, length hs = length rows /\ rows_hit rows targets col col' hs /\ s = rounds fuel n_pop hs ++ s'.
Proof.
  induction fuel as [|fuel IH]; intros col s col' s' H Hlt Hlc; cbn [reselect_loop] in H;
    destruct (existsb (fun b => b) (map3 is_bad rows targets col)) eqn:E.
  - discriminate.
  - apply ret_ok in H as [<- <-]. exists (repeat [] (length rows)). split; [apply repeat_length|]. split; [|reflexivity].
    apply rows_hit_same; try assumption. now apply existsb_id_false.
  - apply bind_ok in H as (news & s1 & Hd & H). apply bind_ok in H as (c2 & s2 & Hr & H).
    apply draw_choice_ok in Hd as (Hs & Hn & _). apply lift_ok in Hr as [Hr <-].
    pose proof (replace_bad_length _ _ _ _ Hr) as Hl2.
    destruct (IH c2 s1 col' s' H Hlt ltac:(lia)) as (hs2 & Hlh & Hhit & Hs1).
    destruct (attach_step rows targets col news c2 col' hs2 Hlt Hlc Hr Hhit) as (H1 & H2 & H3). cbv zeta in H1, H2, H3.
    set (hs := attach (map3 is_bad rows targets col) news hs2) in *.
    exists hs. split; [|split; [exact H1|]].
    + rewrite <- Hlh. rewrite <- H3. now rewrite map_length.
    + cbn [rounds]. rewrite H2, H3. destruct news as [|x ns].
      * exfalso. cbn in Hn. clear - E Hn. revert E Hn. generalize (map3 is_bad rows targets col) as bads. intros bads E Hn.
        induction bads as [|b bads IHb]; cbn in *; [discriminate|]. destruct b; cbn in *; [lia|]. now apply IHb.
      * rewrite Hs, Hs1. rewrite Hn. reflexivity.
  - apply ret_ok in H as [<- <-]. exists (repeat [] (length rows)). split; [apply repeat_length|]. split; [|now rewrite rounds_nil].
    apply rows_hit_same; try assumption. now apply existsb_id_false.
Qed.

(* one column: the initial draw for all rows, then the redraw rounds *)
Definition col_events (n_pop L : nat) (seg : list nat * list (list nat) * nat) : list (event T) :=
  let '(col0, hs, fuel) := seg in EChoice n_pop L col0 :: rounds fuel n_pop hs.

Theorem fill_col_first_hit n_pop rows targets s col s' :
  fill_col (T := T) n_pop rows targets s = Ok (col, s') -> length targets = length rows ->
  exists col0 hs fuel, s = col_events n_pop (length targets) (col0, hs, fuel) ++ s' /\
    length col0 = length rows /\ length hs = length rows /\ rows_hit rows targets col0 col hs.
Proof.
  unfold fill_col. intros H Hlt. apply bind_ok in H as (c0 & s1 & Hd & H).
  apply draw_choice_ok in Hd as (Hs & Hl & _).
  destruct (reselect_loop_hit n_pop rows targets (length s1) c0 s1 col s' H Hlt ltac:(lia)) as (hs & Hlh & Hhit & Hs1).
  exists c0, hs, (length s1). split; [|split; [lia|split; assumption]].
  cbn [col_events app]. rewrite Hs. f_equal. exact Hs1.
Qed.

(* all columns: consecutive, disjoint segments of the stream, each row's history inside its column's segment *)
Inductive cols_hit (targets : list nat) : list (list nat) -> list (list nat * list (list nat) * nat) -> list (list nat) -> Prop :=
| cols_hit_nil rows : cols_hit targets rows [] rows
| cols_hit_cons rows col0 hs fuel col segs P :
    length col0 = length rows -> length hs = length rows -> rows_hit rows targets col0 col hs ->
    cols_hit targets (add_col rows col) segs P -> cols_hit targets rows ((col0, hs, fuel) :: segs) P.

Theorem fill_cols_first_hit n_pop targets : forall k rows s P s',
  fill_cols (T := T) k n_pop rows targets s = Ok (P, s') -> length targets = length rows ->
  exists segs, length segs = k /\ cols_hit targets rows segs P /\ s = concat (map (col_events n_pop (length targets)) segs) ++ s'.
Proof.
  induction k as [|k IH]; intros rows s P s' H Hlt; cbn [fill_cols] in H.
  - apply ret_ok in H as [<- <-]. exists []. split; [reflexivity|]. split; [constructor|reflexivity].
  - apply bind_ok in H as (col & s1 & Hc & H).
    destruct (fill_col_spec n_pop rows targets s col s1 Hc) as (Hcl & _ & _).
    destruct (fill_col_first_hit n_pop rows targets s col s1 Hc Hlt) as (col0 & hs & fuel & Hs & Hl0 & Hlh & Hhit).
    assert (Hal : length targets = length (add_col rows col)) by (rewrite add_col_length; lia).
    destruct (IH (add_col rows col) s1 P s' H Hal) as (segs & Hls & Hch & Hs1).
    exists ((col0, hs, fuel) :: segs). split; [cbn; lia|]. split; [now apply (cols_hit_cons targets rows col0 hs fuel col)|].
    cbn [map concat]. rewrite <- app_assoc. rewrite <- Hs1. exact Hs.
Qed.

(* DE/rand: all parents of all rows *)
Corollary select_rand_first_hit n_pop n_select n_parents ranks s P s' :
  select (T := T) SRand n_pop n_select n_parents ranks s = Ok (P, s') ->
  exists segs, length segs = n_parents /\ cols_hit (seq 0 n_select) (repeat [] n_select) segs P /\
    s = concat (map (col_events n_pop n_select) segs) ++ s'.
Proof.
  cbn [select]. intro H.
  destruct (fill_cols_first_hit n_pop (seq 0 n_select) n_parents (repeat [] n_select) s P s' H) as (segs & H1 & H2 & H3).
  - now rewrite seq_length, repeat_length.
  - exists segs. rewrite seq_length in H3. auto.
Qed.

(* DE/best: the base is the best individual (index 0), the difference parents are drawn *)
Corollary select_best_first_hit n_pop n_select n_parents ranks s P s' :
  select (T := T) SBest n_pop n_select n_parents ranks s = Ok (P, s') ->
  exists segs, length segs = n_parents - 1 /\ cols_hit (seq 0 n_select) (repeat [0] n_select) segs P /\
    s = concat (map (col_events n_pop n_select) segs) ++ s'.
Proof.
  cbn [select]. intro H.
  destruct (fill_cols_first_hit n_pop (seq 0 n_select) (n_parents - 1) (repeat [0] n_select) s P s' H) as (segs & H1 & H2 & H3).
  - now rewrite seq_length, repeat_length.
  - exists segs. rewrite seq_length in H3. auto.
Qed.

(* the other variants: the same structure for the columns that are drawn *)
Corollary select_rand_to_best_first_hit n_pop n_select n_parents ranks s P s' :
  select (T := T) SRandToBest n_pop n_select n_parents ranks s = Ok (P, s') ->
  exists P0 segs, P = map swap01 P0 /\ length segs = n_parents - 1 /\ cols_hit (seq 0 n_select) (repeat [0] n_select) segs P0 /\
    s = concat (map (col_events n_pop n_select) segs) ++ s'.
Proof.
  cbn [select]. intro H. apply bind_ok in H as (P0 & s1 & H & Hr). apply ret_ok in Hr as [<- <-].
  destruct (fill_cols_first_hit n_pop (seq 0 n_select) (n_parents - 1) (repeat [0] n_select) s P0 s1 H) as (segs & H1 & H2 & H3).
  - now rewrite seq_length, repeat_length.
  - exists P0, segs. rewrite seq_length in H3. auto.
Qed.

Corollary select_current_to_best_first_hit n_pop n_select n_parents ranks s P s' :
  select (T := T) SCurToBest n_pop n_select n_parents ranks s = Ok (P, s') ->
  exists segs, length segs = n_parents - 3 /\ cols_hit (seq 0 n_select) (map (fun i => [i; 0; i]) (seq 0 n_select)) segs P /\
    s = concat (map (col_events n_pop n_select) segs) ++ s'.
Proof.
  cbn [select]. destruct (negb (n_select =? n_pop) || (n_parents <? 3)); [discriminate|]. intro H.
  destruct (fill_cols_first_hit n_pop (seq 0 n_select) (n_parents - 3) (map (fun i => [i; 0; i]) (seq 0 n_select)) s P s' H) as (segs & H1 & H2 & H3).
  - now rewrite map_length.
  - exists segs. rewrite seq_length in H3. auto.
Qed.

Corollary select_ranked_first_hit n_pop n_select n_parents ranks s P s' :
  select (T := T) SRanked n_pop n_select n_parents ranks s = Ok (P, s') ->
  exists P0 segs, P = map (rank_sort_row (fun i => nth i (ranks_from ranks) 0)) P0 /\ length segs = n_parents /\
    cols_hit (seq 0 n_select) (repeat [] n_select) segs P0 /\ s = concat (map (col_events n_pop n_select) segs) ++ s'.
Proof.
  cbn [select]. destruct (Nat.even n_parents); [discriminate|]. intro H. apply bind_ok in H as (P0 & s1 & H & Hr). apply ret_ok in Hr as [<- <-].
  destruct (fill_cols_first_hit n_pop (seq 0 n_select) n_parents (repeat [] n_select) s P0 s1 H) as (segs & H1 & H2 & H3).
  - now rewrite seq_length, repeat_length.
  - exists P0, segs. rewrite seq_length in H3. auto.
Qed.
End Hit.
