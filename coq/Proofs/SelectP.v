From Coq Require Import List Bool Arith Lia Permutation Sorted.
From PV Require Import Base.Res Base.ListX Model.Select.
Import ListNotations.

Section SelectP.
Context {T : Type}.

Lemma replace_bad_spec (P : nat -> Prop) bads : forall col news col',
  replace_bad bads col news = Some col' ->
  length col' = length col /\ (Forall P col -> Forall P news -> Forall P col').
Proof.
  induction bads as [|b bads IH]; intros col news col' H; destruct col as [|c col]; cbn in H.
  - destruct news; [|discriminate]. inversion H. split; auto.
  - discriminate.
  - destruct b; discriminate.
  - destruct b.
    + destruct news as [|x ns]; [discriminate|].
      destruct (replace_bad bads col ns) as [r|] eqn:E; [|discriminate]. inversion H; subst.
      destruct (IH _ _ _ E) as [Hl HP]. cbn. split; [lia|].
      intros Hc Hn. inversion Hc; inversion Hn; subst. constructor; auto.
    + destruct (replace_bad bads col news) as [r|] eqn:E; [|discriminate]. inversion H; subst.
      destruct (IH _ _ _ E) as [Hl HP]. cbn. split; [lia|].
      intros Hc Hn. inversion Hc; subst. constructor; auto.
Qed.

Lemma reselect_loop_spec n_pop rows targets : forall fuel col s col' s',
  reselect_loop (T := T) fuel n_pop rows targets col s = Ok (col', s') ->
  length col = length targets -> Forall (fun c => c < n_pop) col ->
  length col' = length targets /\ Forall (fun c => c < n_pop) col' /\
  Forall (fun b => b = false) (map3 is_bad rows targets col').
Proof.
  induction fuel as [|fuel IH]; intros col s col' s' H Hl Hv; cbn [reselect_loop] in H;
    destruct (existsb (fun b => b) (map3 is_bad rows targets col)) eqn:E.
  - discriminate.
  - apply ret_ok in H as [<- _]. repeat split; auto. now apply existsb_id_false.
  - apply bind_ok in H as (news & s1 & Hd & H). apply bind_ok in H as (c2 & s2 & Hr & H).
    apply draw_choice_ok in Hd as (_ & _ & Hn). apply lift_ok in Hr as [Hr <-].
    destruct (replace_bad_spec (fun c => c < n_pop) _ _ _ _ Hr) as [Hl2 HP].
    eapply IH; eauto. congruence.
  - apply ret_ok in H as [<- _]. repeat split; auto. now apply existsb_id_false.
Qed.

Lemma fill_col_spec n_pop rows targets s col s' :
  fill_col (T := T) n_pop rows targets s = Ok (col, s') ->
  length col = length targets /\ Forall (fun c => c < n_pop) col /\
  Forall (fun b => b = false) (map3 is_bad rows targets col).
Proof.
  unfold fill_col. intro H. apply bind_ok in H as (c0 & s1 & Hd & H).
  apply draw_choice_ok in Hd as (_ & Hl & Hv). eapply reselect_loop_spec; eauto.
Qed.

(* a row = its fixed prefix followed by j randomly drawn, mutually distinct parents that avoid the
   target and the fixed entries *)
Definition good (n_pop j : nat) (fixed : list nat) (t : nat) (row : list nat) : Prop :=
  exists rnd, row = fixed ++ rnd /\ length rnd = j /\ NoDup rnd /\
              Forall (fun c => c < n_pop /\ c <> t /\ ~ In c fixed) rnd.

Lemma is_bad_false row t c : is_bad row t c = false -> c <> t /\ ~ In c row.
Proof.
  unfold is_bad. intro H. apply orb_false_iff in H as [H1 H2]. split.
  - intro E. subst. now rewrite Nat.eqb_refl in H1.
  - intro Hin. assert (existsb (Nat.eqb c) row = true); [|congruence].
    apply existsb_exists. exists c. split; [assumption|apply Nat.eqb_refl].
Qed.

Lemma add_col_good n_pop j : forall rows0 targets rows col,
  Forall3 (fun row t c => is_bad row t c = false) rows targets col ->
  Forall (fun c => c < n_pop) col ->
  Forall2 (fun ft row => good n_pop j (fst ft) (snd ft) row) (combine rows0 targets) rows ->
  length rows0 = length targets ->
  Forall2 (fun ft row => good n_pop (S j) (fst ft) (snd ft) row) (combine rows0 targets) (add_col rows col).
Proof.
  intros rows0 targets rows col H3. revert rows0.
  induction H3 as [|row t c rows targets col Hb H3 IH]; intros rows0 Hv HG Hl.
  - destruct rows0; cbn in *; [inversion HG; constructor|discriminate].
  - destruct rows0 as [|f rows0]; cbn in *; [discriminate|].
    inversion HG as [|? ? ? ? Hg HG']; subst. inversion Hv; subst. constructor; [|apply IH; auto].
    cbn in *. destruct Hg as (rnd & -> & Hlen & Hnd & Hall). apply is_bad_false in Hb as [Hne Hnin].
    exists (rnd ++ [c]). split; [now rewrite app_assoc|]. split; [rewrite app_length; cbn; lia|]. split.
    + apply NoDup_app_one; [assumption|]. intro Hi. apply Hnin. apply in_or_app. now right.
    + apply Forall_app. split; [assumption|]. constructor; [|constructor]. repeat split; auto.
      intro Hi. apply Hnin. apply in_or_app. now left.
Qed.

Lemma add_col_length rows col : length col = length rows -> length (add_col rows col) = length rows.
Proof. unfold add_col. rewrite map2_length. lia. Qed.

Lemma fill_cols_spec n_pop targets rows0 : forall k j rows s P s',
  fill_cols (T := T) k n_pop rows targets s = Ok (P, s') ->
  length rows0 = length targets -> length rows = length targets ->
  Forall2 (fun ft row => good n_pop j (fst ft) (snd ft) row) (combine rows0 targets) rows ->
  Forall2 (fun ft row => good n_pop (j + k) (fst ft) (snd ft) row) (combine rows0 targets) P.
Proof.
  induction k as [|k IH]; intros j rows s P s' H Hl0 Hl HG; cbn [fill_cols] in H.
  - apply ret_ok in H as [<- _]. now rewrite Nat.add_0_r.
  - apply bind_ok in H as (col & s1 & Hc & H). apply fill_col_spec in Hc as (Hlc & Hv & Hb).
    replace (j + S k) with (S j + k) by lia. eapply IH; eauto.
    + rewrite add_col_length; congruence.
    + apply add_col_good; auto. apply map3_Forall3; auto.
Qed.

Lemma good_init n_pop rows0 targets : length rows0 = length targets ->
  Forall2 (fun ft row => good n_pop 0 (fst ft) (snd ft) row) (combine rows0 targets) rows0.
Proof.
  revert targets. induction rows0 as [|f rows0 IH]; intros [|t targets] H; cbn in *; try discriminate; constructor.
  - exists []. cbn. rewrite app_nil_r. repeat split; constructor.
  - apply IH. lia.
Qed.

Lemma fill_from n_pop targets rows0 k s P s' :
  fill_cols (T := T) k n_pop rows0 targets s = Ok (P, s') -> length rows0 = length targets ->
  Forall2 (fun ft row => good n_pop k (fst ft) (snd ft) row) (combine rows0 targets) P.
Proof.
  intros H Hl. change k with (0 + k). eapply fill_cols_spec; eauto. now apply good_init.
Qed.

Lemma F2_combine_split {A B C} (Q : A -> B -> Prop) (G : B -> A -> C -> Prop) ts : forall fs P,
  Forall2 Q ts fs ->
  Forall2 (fun ft row => G (fst ft) (snd ft) row) (combine fs ts) P ->
  Forall2 (fun t row => exists f, Q t f /\ G f t row) ts P.
Proof.
  induction ts as [|t ts IH]; intros fs P HQ HG; inversion HQ; subst; cbn in HG; inversion HG; subst; constructor; eauto.
Qed.

Lemma F2_repeat {A B} (x : B) (ts : list A) : Forall2 (fun _ f => f = x) ts (repeat x (length ts)).
Proof. induction ts; cbn; constructor; auto. Qed.

Lemma F2_map {A B} (f : A -> B) (ts : list A) : Forall2 (fun t y => y = f t) ts (map f ts).
Proof. induction ts; cbn; constructor; auto. Qed.

(* ---- the variants ---- *)
Lemma select_rand_spec n_pop n_sel n_par ranks s P s' :
  select (T := T) SRand n_pop n_sel n_par ranks s = Ok (P, s') ->
  Forall2 (fun t row => good n_pop n_par [] t row) (seq 0 n_sel) P.
Proof.
  cbn [select]. intro H. apply fill_from in H; [|now rewrite repeat_length, seq_length].
  eapply Forall2_impl; [|eapply F2_combine_split; [|exact H]].
  2:{ rewrite <- (seq_length n_sel 0) at 2. apply F2_repeat. }
  intros t row (f & -> & Hg). exact Hg.
Qed.

Lemma select_best_spec n_pop n_sel n_par ranks s P s' :
  select (T := T) SBest n_pop n_sel n_par ranks s = Ok (P, s') ->
  Forall2 (fun t row => good n_pop (n_par - 1) [0] t row) (seq 0 n_sel) P.
Proof.
  cbn [select]. intro H. apply fill_from in H; [|now rewrite repeat_length, seq_length].
  eapply Forall2_impl; [|eapply F2_combine_split; [|exact H]].
  2:{ rewrite <- (seq_length n_sel 0) at 2. apply F2_repeat. }
  intros t row (f & -> & Hg). exact Hg.
Qed.

Lemma select_ctb_spec n_pop n_sel n_par ranks s P s' :
  select (T := T) SCurToBest n_pop n_sel n_par ranks s = Ok (P, s') ->
  n_sel = n_pop /\ 3 <= n_par /\
  Forall2 (fun t row => good n_pop (n_par - 3) [t; 0; t] t row) (seq 0 n_sel) P.
Proof.
  cbn [select]. destruct (negb (n_sel =? n_pop) || (n_par <? 3)) eqn:E; [discriminate|].
  apply orb_false_iff in E as [E1 E2]. apply negb_false_iff, Nat.eqb_eq in E1. apply Nat.ltb_ge in E2.
  intro H. apply fill_from in H; [|now rewrite map_length]. repeat split; auto.
  eapply Forall2_impl; [|eapply F2_combine_split; [|exact H]].
  2:{ apply (F2_map (fun i => [i; 0; i])). }
  intros t row (f & -> & Hg). exact Hg.
Qed.

Definition ctr_row (n_pop n_par t : nat) (row : list nat) : Prop :=
  exists r1 rnd, row = [t; r1; t] ++ rnd /\ length rnd = n_par - 3 /\ NoDup (r1 :: rnd) /\
                 Forall (fun c => c < n_pop /\ c <> t) (r1 :: rnd).

Lemma select_ctr_spec n_pop n_sel n_par ranks s P s' :
  select (T := T) SCurToRand n_pop n_sel n_par ranks s = Ok (P, s') ->
  n_sel = n_pop /\ 3 <= n_par /\ Forall2 (ctr_row n_pop n_par) (seq 0 n_sel) P.
Proof.
  cbn [select]. destruct (negb (n_sel =? n_pop) || (n_par <? 3)) eqn:E; [discriminate|].
  apply orb_false_iff in E as [E1 E2]. apply negb_false_iff, Nat.eqb_eq in E1. apply Nat.ltb_ge in E2.
  intro H. apply bind_ok in H as (P1 & s1 & H1 & H2). repeat split; auto.
  apply fill_from in H1; [|now rewrite map_length].
  pose proof (F2_combine_split _ _ _ _ _ (F2_map (fun i => [i]) (seq 0 n_sel)) H1) as G1.
  set (rows0 := map2 (fun r i => r ++ [i]) P1 (seq 0 n_sel)) in *.
  assert (Hl1 : length P1 = n_sel) by (apply Forall2_length in G1; rewrite seq_length in G1; lia).
  assert (Q : Forall2 (fun t f => exists r1, f = [t; r1; t] /\ r1 < n_pop /\ r1 <> t) (seq 0 n_sel) rows0).
  { subst rows0. clear - G1. induction G1 as [|t row ts rows Hg G1 IH]; cbn; constructor; [|exact IH].
    destruct Hg as (f & -> & rnd & -> & Hlen & _ & Hall). destruct rnd as [|r1 [|? ?]]; try discriminate.
    inversion Hall as [|? ? (Ha & Hb & _) _]; subst. exists r1. cbn. auto. }
  apply fill_from in H2; [|subst rows0; rewrite map2_length, seq_length; lia].
  pose proof (F2_combine_split _ _ _ _ _ Q H2) as G2.
  eapply Forall2_impl; [|exact G2].
  intros t row (f & (r1 & -> & Hr1 & Hne) & rnd & -> & Hlen & Hnd & Hall).
  exists r1, rnd. repeat split; auto.
  - constructor; [|assumption]. intro Hi. rewrite Forall_forall in Hall. destruct (Hall _ Hi) as (_ & _ & Hn).
    apply Hn. cbn. auto.
  - constructor; [split; assumption|]. eapply Forall_impl; [|exact Hall]. intros c (Ha & Hb & _). auto.
Qed.

Definition rtb_row (n_pop n_par t : nat) (row : list nat) : Prop :=
  exists r1 rnd, row = r1 :: 0 :: rnd /\ length (r1 :: rnd) = n_par - 1 /\ NoDup (r1 :: rnd) /\
                 Forall (fun c => c < n_pop /\ c <> t /\ c <> 0) (r1 :: rnd).

Lemma select_rtb_spec n_pop n_sel n_par ranks s P s' : 2 <= n_par ->
  select (T := T) SRandToBest n_pop n_sel n_par ranks s = Ok (P, s') ->
  Forall2 (rtb_row n_pop n_par) (seq 0 n_sel) P.
Proof.
  intro Hp. cbn [select]. intro H. apply bind_ok in H as (PB & s1 & H1 & H2). apply ret_ok in H2 as [<- _].
  apply fill_from in H1; [|now rewrite repeat_length, seq_length].
  assert (G : Forall2 (fun t row => good n_pop (n_par - 1) [0] t row) (seq 0 n_sel) PB).
  { eapply Forall2_impl; [|eapply F2_combine_split; [|exact H1]].
    2:{ rewrite <- (seq_length n_sel 0) at 2. apply F2_repeat. }
    intros t row (f & -> & Hg). exact Hg. }
  clear H1. induction G as [|t row ts rows Hg G IH]; cbn; constructor; [|exact IH].
  destruct Hg as (rnd & -> & Hlen & Hnd & Hall). destruct rnd as [|r1 rnd]; [cbn in Hlen; lia|].
  exists r1, rnd. cbn. repeat split; auto.
  eapply Forall_impl; [|exact Hall]. intros c (Ha & Hb & Hc). repeat split; auto. intro E. apply Hc. now left.
Qed.

(* ---- ranked: stable sort by rank, then base = best, pairs (better, worse) ---- *)
Variable key : nat -> nat.

Lemma insert_by_perm x l : Permutation (insert_by key x l) (x :: l).
Proof.
  induction l as [|h t IH]; cbn [insert_by]; [reflexivity|]. destruct (key x <? key h); [reflexivity|].
  rewrite IH. apply perm_swap.
Qed.

Lemma sort_by_perm l : Permutation (sort_by key l) l.
Proof.
  unfold sort_by. assert (G : forall acc, Permutation (fold_left (fun a x => insert_by key x a) l acc) (acc ++ l)).
  { induction l as [|x l IH]; intro acc; cbn; [now rewrite app_nil_r|].
    rewrite IH. rewrite insert_by_perm. rewrite (Permutation_middle acc l x). reflexivity. }
  apply (G []).
Qed.

Definition kle (a b : nat) : Prop := key a <= key b.

Lemma insert_by_sorted x l : StronglySorted kle l -> StronglySorted kle (insert_by key x l).
Proof.
  induction 1 as [|h t Hs IH Hall]; cbn [insert_by]; [repeat constructor|].
  destruct (key x <? key h) eqn:E.
  - apply Nat.ltb_lt in E. constructor; [constructor; assumption|].
    constructor; [unfold kle; lia|]. eapply Forall_impl; [|exact Hall]. unfold kle. intros; lia.
  - apply Nat.ltb_ge in E. constructor; [assumption|].
    rewrite (Forall_forall). intros y Hy. apply (Permutation_in _ (insert_by_perm x t)) in Hy.
    destruct Hy as [<-|Hy]; [exact E|]. rewrite Forall_forall in Hall. auto.
Qed.

Lemma sort_by_sorted l : StronglySorted kle (sort_by key l).
Proof.
  unfold sort_by. assert (G : forall acc, StronglySorted kle acc -> StronglySorted kle (fold_left (fun a x => insert_by key x a) l acc)).
  { induction l as [|x l IH]; intros acc Ha; cbn; [assumption|]. apply IH. now apply insert_by_sorted. }
  apply G. constructor.
Qed.

Lemma sorted_app_le l1 : forall l2, StronglySorted kle (l1 ++ l2) -> forall a b, In a l1 -> In b l2 -> kle a b.
Proof.
  induction l1 as [|x l1 IH]; intros l2 H a b Ha Hb; [destruct Ha|].
  cbn in H. inversion H as [|? ? Hs Hall]; subst. destruct Ha as [<-|Ha].
  - rewrite Forall_forall in Hall. apply Hall. apply in_or_app. now right.
  - eapply IH; eauto.
Qed.

Lemma interleave_perm a : forall b, length a = length b -> Permutation (interleave a b) (a ++ b).
Proof.
  induction a as [|x a IH]; intros [|y b] H; cbn in *; try discriminate; [reflexivity|].
  constructor. rewrite IH by lia. apply Permutation_middle.
Qed.

(* what the reordered row looks like *)
Definition ranked_row (out : list nat) : Prop :=
  exists s0 A B, out = s0 :: interleave A B /\ length A = length B /\
                 (forall x, In x (A ++ B) -> kle s0 x) /\ Forall2 kle A B.

Lemma rank_sort_row_spec row : Nat.odd (length row) = true ->
  Permutation (rank_sort_row key row) row /\ ranked_row (rank_sort_row key row).
Proof.
  intro Hodd. unfold rank_sort_row. pose proof (sort_by_perm row) as HP. pose proof (sort_by_sorted row) as HS.
  destruct (sort_by key row) as [|s0 rest] eqn:E.
  - apply Permutation_length in HP. cbn in HP. rewrite <- HP in Hodd. discriminate.
  - set (k := Nat.div2 (length rest)).
    assert (Hlen : length rest = 2 * k).
    { apply Permutation_length in HP. cbn in HP. rewrite <- HP in Hodd. rewrite Nat.odd_succ in Hodd.
      pose proof (Nat.div2_odd (length rest)) as Hd. rewrite <- Nat.negb_even, Hodd in Hd. cbn in Hd. subst k. lia. }
    assert (HA : length (firstn k rest) = k) by (rewrite firstn_length; lia).
    assert (HB : length (rev (skipn k rest)) = k) by (rewrite rev_length, skipn_length; lia).
    inversion HS as [|? ? HSr Hall]; subst.
    split.
    + rewrite <- HP. constructor. rewrite interleave_perm by congruence.
      rewrite <- (firstn_skipn k rest) at 3. apply Permutation_app_head. symmetry. apply Permutation_rev.
    + exists s0, (firstn k rest), (rev (skipn k rest)). repeat split; [congruence| |].
      * intros x Hx. rewrite Forall_forall in Hall. apply Hall.
        apply in_app_or in Hx as [Hx|Hx].
        -- rewrite <- (firstn_skipn k rest). apply in_or_app. now left.
        -- rewrite <- in_rev in Hx. rewrite <- (firstn_skipn k rest). apply in_or_app. now right.
      * apply Forall2_of_all; [congruence|]. intros a b Ha Hb. rewrite <- in_rev in Hb.
        eapply sorted_app_le; [rewrite firstn_skipn; exact HSr|exact Ha|exact Hb].
Qed.
End SelectP.

Lemma select_ranked_spec {T} n_pop n_sel n_par ranks s P s' :
  select (T := T) SRanked n_pop n_sel n_par ranks s = Ok (P, s') ->
  Forall2 (fun t row => exists row0, good n_pop n_par [] t row0 /\ Permutation row row0 /\
                                    ranked_row (fun i => nth i (ranks_from ranks) 0) row)
          (seq 0 n_sel) P.
Proof.
  cbn [select]. destruct (Nat.even n_par) eqn:Ee; [intro H; cbv in H; discriminate|]. intros H. set (key := fun i => nth i (ranks_from ranks) 0).
  apply bind_ok in H as (P0 & s1 & H1 & H2). apply ret_ok in H2 as [<- _].
  assert (G : Forall2 (fun t row => good n_pop n_par [] t row) (seq 0 n_sel) P0).
  { apply (select_rand_spec n_pop n_sel n_par ranks s P0 s1). exact H1. }
  clear H1. induction G as [|t row ts rows Hg G IH]; cbn; constructor; [|exact IH].
  exists row. split; [exact Hg|].
  assert (Ho : Nat.odd (length row) = true).
  { destruct Hg as (rnd & -> & Hlen & _). cbn. rewrite Hlen. now rewrite <- Nat.negb_even, Ee. }
  destruct (rank_sort_row_spec key row Ho) as [Hp Hr]. split; assumption.
Qed.
