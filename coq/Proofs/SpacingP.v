From Coq Require Import List Bool Arith QArith Qabs Lqa Lia Permutation Sorted Setoid Morphisms.
From PV Require Import Base.Num Base.NumQ Base.ListX.
Import ListNotations.
Local Open Scope Q_scope.

(* ---------- the mathematical object: root-mean-square deviation (its radicand) ---------- *)
Fixpoint qsum (l : list Q) : Q := match l with [] => 0 | x :: t => x + qsum t end.
Definition qn (l : list Q) : Q := inject_Z (Z.of_nat (length l)).
Definition qmean (l : list Q) : Q := qsum l / qn l.
Definition radicand (d : list Q) : Q := qsum (map (fun x => (x - qmean d) * (x - qmean d)) d) / qn d.

Lemma qn_pos l : l <> [] -> 0 < qn l.
Proof.
  intro H. destruct l as [|x l]; [congruence|]. unfold qn, Qlt, inject_Z. cbn [Qnum Qden length].
  rewrite Nat2Z.inj_succ. lia.
Qed.

Lemma qsum_nonneg l : Forall (fun x => 0 <= x) l -> 0 <= qsum l.
Proof. induction 1; cbn; lra. Qed.

Lemma qsum_app a b : qsum (a ++ b) == qsum a + qsum b.
Proof. induction a; cbn; lra. Qed.

Lemma qsum_perm a b : Permutation a b -> qsum a == qsum b.
Proof. induction 1; cbn; lra. Qed.

Lemma qsum_scale c l : qsum (map (Qmult c) l) == c * qsum l.
Proof. induction l; cbn; lra. Qed.

Lemma qsum_ext (f g : Q -> Q) l : (forall x, In x l -> f x == g x) -> qsum (map f l) == qsum (map g l).
Proof. induction l as [|x l IH]; cbn; intro H; [reflexivity|]. rewrite (H x) by now left. rewrite IH; [reflexivity|]. intros; apply H; now right. Qed.

(* non-negative *)
Lemma radicand_nonneg d : d <> [] -> 0 <= radicand d.
Proof.
  intro H. unfold radicand. apply Qle_shift_div_l; [now apply qn_pos|]. rewrite Qmult_0_l.
  apply qsum_nonneg. apply Forall_forall. intros y Hy. apply in_map_iff in Hy as (x & <- & _). set (a := x - qmean d). nra.
Qed.

(* zero for equally spaced points: all nearest-neighbour distances equal *)
Lemma qsum_const c l : (forall x, In x l -> x == c) -> qsum l == qn l * c.
Proof.
  unfold qn. induction l as [|x l IH]; intro H; [cbn [qsum length Z.of_nat]; change (inject_Z 0) with 0; ring|].
  cbn [qsum length]. rewrite IH by (intros; apply H; now right). rewrite (H x) by now left.
  rewrite Nat2Z.inj_succ. unfold Z.succ. rewrite inject_Z_plus. change (inject_Z 1) with 1. ring.
Qed.

Lemma radicand_zero_if_equal d c : d <> [] -> (forall x, In x d -> x == c) -> radicand d == 0.
Proof.
  intros Hne H. pose proof (qn_pos d Hne) as Hp.
  assert (Hm : qmean d == c).
  { unfold qmean. rewrite (qsum_const c d H). field. lra. }
  unfold radicand.
  assert (Hs : qsum (map (fun x => (x - qmean d) * (x - qmean d)) d) == 0).
  { rewrite (qsum_ext _ (fun _ => 0)).
    - clear. induction d; cbn; lra.
    - intros x Hx. rewrite (H x Hx), Hm. ring. }
  rewrite Hs. field. lra.
Qed.

(* unchanged by reordering *)
Lemma radicand_perm d d' : Permutation d d' -> radicand d == radicand d'.
Proof.
  intro H. assert (Hl : qn d = qn d') by (unfold qn; now rewrite (Permutation_length H)).
  assert (Hm : qmean d == qmean d') by (unfold qmean; rewrite Hl, (qsum_perm _ _ H); reflexivity).
  unfold radicand. rewrite Hl.
  rewrite (qsum_perm _ _ (Permutation_map _ H)).
  rewrite (qsum_ext _ (fun x => (x - qmean d') * (x - qmean d'))); [reflexivity|].
  intros x _. rewrite Hm. reflexivity.
Qed.

(* proportional under uniform scaling: distances scale by |c|, the radicand by c^2 *)
Lemma radicand_scale c d : d <> [] -> radicand (map (Qmult c) d) == c * c * radicand d.
Proof.
  intro Hne. pose proof (qn_pos d Hne) as Hp.
  assert (Hl : qn (map (Qmult c) d) = qn d) by (unfold qn; now rewrite map_length).
  assert (Hm : qmean (map (Qmult c) d) == c * qmean d).
  { unfold qmean. rewrite Hl, qsum_scale. field. lra. }
  unfold radicand. rewrite Hl, map_map.
  rewrite (qsum_ext _ (fun x => (c * c) * ((x - qmean d) * (x - qmean d)))).
  - rewrite <- (map_map (fun x => (x - qmean d) * (x - qmean d)) (Qmult (c * c))), qsum_scale. field. lra.
  - intros x _. rewrite Hm. ring.
Qed.

(* ---------- NumPy's pairwise summation is the mathematical sum in exact arithmetic ---------- *)
From PV Require Import Base.Res Model.Crowding Model.Fallback Model.Spacing.

Ltac normq := cbn [base Qx T Qn] in *; change (T Qn) with Q in *.

Lemma fold_add_qsum l : forall acc, fold_left (add Qn) l acc == acc + qsum l.
Proof. induction l as [|x l IH]; intro acc; cbn [fold_left qsum]; [lra|]. rewrite IH. cbn. lra. Qed.

Lemma map2_add_qsum (r b : list Q) : length r = length b ->
  length (map2 (add Qn) r b) = length r /\ qsum (map2 (add Qn) r b) == qsum r + qsum b.
Proof.
  revert b. induction r as [|x r IH]; intros [|y b] H; cbn in *; try discriminate; [split; [reflexivity|lra]|].
  destruct (IH b) as [H1 H2]; [lia|]. split; [lia|]. rewrite H2. lra.
Qed.

Lemma fold_blocks_qsum blocks : forall r, length r = 8%nat -> Forall (fun b => length b = 8%nat) blocks ->
  length (fold_left (map2 (add Qn)) blocks r) = 8%nat /\
  qsum (fold_left (map2 (add Qn)) blocks r) == qsum r + qsum (concat blocks).
Proof.
  induction blocks as [|b blocks IH]; intros r Hr Hb; cbn [fold_left concat qsum]; [split; [assumption|lra]|].
  inversion Hb as [|? ? Hb8 Hbs]; subst. normq. assert (Hrb : length r = length b) by congruence.
  destruct (map2_add_qsum r b Hrb) as [H1 H2].
  assert (Hl8 : length (map2 (add Qn) r b) = 8%nat) by congruence.
  destruct (IH (map2 (add Qn) r b) Hl8 Hbs) as [H3 H4].
  split; [assumption|]. rewrite H4, H2, qsum_app. lra.
Qed.

Lemma chunks8_cons fuel (l : list Q) : l <> [] ->
  chunks8 (X := Qx) (S fuel) l = firstn 8 l :: chunks8 (X := Qx) fuel (skipn 8 l).
Proof. destruct l; [congruence|reflexivity]. Qed.

Lemma chunks8_spec : forall fuel (l : list Q) k, length l = (8 * k)%nat -> (k <= fuel)%nat ->
  concat (chunks8 (X := Qx) fuel l) = l /\ Forall (fun b => length b = 8%nat) (chunks8 (X := Qx) fuel l).
Proof.
  induction fuel as [|fuel IH]; intros l k Hl Hk.
  - assert (k = 0%nat) by lia. subst. destruct l; [|discriminate]. cbn. split; constructor.
  - destruct k as [|k].
    + destruct l; [|discriminate]. cbn. split; constructor.
    + assert (Hne : l <> []) by (intro E; subst; discriminate).
      rewrite (chunks8_cons fuel l Hne).
      destruct (IH (skipn 8 l) k) as [H1 H2]; [rewrite skipn_length; lia|lia|].
      cbn [concat]. rewrite H1, firstn_skipn. split; [reflexivity|]. constructor; [rewrite firstn_length; lia|assumption].
Qed.

Lemma tree8 (r : list Q) : length r = 8%nat ->
  let g := fun i => nth i r 0 in
  ((g 0%nat + g 1%nat) + (g 2%nat + g 3%nat)) + ((g 4%nat + g 5%nat) + (g 6%nat + g 7%nat)) == qsum r.
Proof.
  intro H. do 8 (destruct r as [|? r]; [discriminate|]). destruct r; [|discriminate]. cbn. lra.
Qed.

Lemma pw_block_exact (a : list Q) : (8 <= length a)%nat -> pw_block (X := Qx) a == qsum a.
Proof.
  intro H. unfold pw_block. set (n := length a). set (nfull := (n - n mod 8)%nat).
  assert (Hnf : (8 <= nfull <= n)%nat /\ exists k, nfull = (8 * k)%nat).
  { subst nfull. pose proof (Nat.div_mod n 8 ltac:(lia)) as Hd. pose proof (Nat.mod_upper_bound n 8 ltac:(lia)).
    split; [subst n; lia|]. exists (n / 8)%nat. lia. }
  destruct Hnf as [Hb [k Hk]].
  set (mid := skipn 8 (firstn nfull a)).
  assert (Hmid : length mid = (8 * (k - 1))%nat) by (subst mid; rewrite skipn_length, firstn_length; fold n; lia).
  destruct (chunks8_spec n mid (k - 1) Hmid ltac:(lia)) as [Hc1 Hc2].
  destruct (fold_blocks_qsum (chunks8 (X := Qx) n mid) (firstn 8 a)) as [Hl Hs]; [rewrite firstn_length; fold n; lia|assumption|].
  rewrite fold_add_qsum.
  match goal with |- ?t + _ == _ =>
    assert (Ht : t == qsum (fold_left (map2 (add Qn)) (chunks8 (X := Qx) n mid) (firstn 8 a))) by (exact (tree8 _ Hl)) end.
  assert (Hc1' : @concat Qn (chunks8 (X := Qx) n mid) = mid) by exact Hc1.
  rewrite Hc1' in Hs. rewrite Ht, Hs.
  assert (Ha : qsum a == qsum (firstn 8 a) + qsum mid + qsum (skipn nfull a)).
  { rewrite <- (firstn_skipn nfull a) at 1. rewrite qsum_app.
    rewrite <- (firstn_skipn 8 (firstn nfull a)) at 1. rewrite qsum_app. fold mid.
    rewrite firstn_firstn. replace (Nat.min 8 nfull) with 8%nat by lia. reflexivity. }
  rewrite Ha. reflexivity.
Qed.

Lemma pw_sum_exact : forall fuel (a : list Q), pw_sum (X := Qx) fuel a == qsum a.
Proof.
  induction fuel as [|fuel IH]; intro a; cbn [pw_sum]; change (T (base Qx)) with Q; destruct (length a <? 8)%nat eqn:E1.
  - transitivity (0 + qsum a); [exact (fold_add_qsum a 0)|lra].
  - apply Nat.ltb_ge in E1. destruct (length a <=? 128)%nat; apply pw_block_exact; assumption.
  - transitivity (0 + qsum a); [exact (fold_add_qsum a 0)|lra].
  - apply Nat.ltb_ge in E1. destruct (length a <=? 128)%nat; [apply pw_block_exact; assumption|].
    rewrite !IH. rewrite <- qsum_app, firstn_skipn. reflexivity.
Qed.

Lemma np_sum_exact (a : list Q) : np_sum (X := Qx) a == qsum a.
Proof. apply pw_sum_exact. Qed.

(* ---------- the model's radicand is the mathematical one ---------- *)
Lemma spacing_radicand_exact (d : list Q) : d <> [] -> spacing_radicand (X := Qx) d == radicand d.
Proof.
  intro Hne. pose proof (qn_pos d Hne) as Hp. unfold spacing_radicand, radicand.
  change (of_nat (base Qx) (length d)) with (qn d).
  set (dm := div (base Qx) (np_sum (X := Qx) d) (qn d)).
  assert (Hm : dm == qmean d) by (subst dm; unfold qmean; change (div (base Qx)) with Qdiv; rewrite np_sum_exact; reflexivity).
  clearbody dm.
  set (f := fun x : base Qx => mul (base Qx) (sub (base Qx) x dm) (sub (base Qx) x dm)).
  assert (E1 : np_sum (X := Qx) (map f d) == qsum (map f d)) by apply np_sum_exact.
  assert (E2 : qsum (map f d) == qsum (map (fun x => (x - qmean d) * (x - qmean d)) d)).
  { apply qsum_ext. intros x _. subst f. cbn. rewrite Hm. reflexivity. }
  change (div (base Qx)) with Qdiv. rewrite E1, E2. reflexivity.
Qed.

(* ---------- second smallest entry of a row = distance to the nearest OTHER point ---------- *)
Lemma ins_val_perm x l : Permutation (ins_val (X := Qx) x l) (x :: l).
Proof.
  induction l as [|h t IH]; cbn [ins_val]; [reflexivity|]. destruct (ltb (base Qx) x h); [reflexivity|].
  rewrite IH. apply perm_swap.
Qed.
Lemma sort_vals_perm l : Permutation (sort_vals (X := Qx) l) l.
Proof.
  unfold sort_vals. assert (G : forall acc, Permutation (fold_left (fun a x => ins_val (X := Qx) x a) l acc) (acc ++ l)).
  { induction l as [|x l IH]; intro acc; cbn; [now rewrite app_nil_r|].
    rewrite IH. rewrite ins_val_perm. rewrite (Permutation_middle acc l x). reflexivity. }
  apply (G []).
Qed.

Lemma ins_val_sorted x l : StronglySorted Qle l -> StronglySorted Qle (ins_val (X := Qx) x l).
Proof.
  induction 1 as [|h t Hs IH Hall]; cbn [ins_val]; [repeat constructor|].
  destruct (ltb (base Qx) x h) eqn:E.
  - apply Qltb_lt in E. constructor; [constructor; assumption|]. constructor; [lra|].
    eapply Forall_impl; [|exact Hall]. intros a Ha. cbn in Ha. lra.
  - apply Qltb_ge in E. constructor; [assumption|].
    rewrite Forall_forall. intros y Hy. apply (Permutation_in _ (ins_val_perm x t)) in Hy.
    destruct Hy as [<-|Hy]; [exact E|]. rewrite Forall_forall in Hall. auto.
Qed.
Lemma sort_vals_sorted l : StronglySorted Qle (sort_vals (X := Qx) l).
Proof.
  unfold sort_vals. assert (G : forall acc, StronglySorted Qle acc -> StronglySorted Qle (fold_left (fun a x => ins_val (X := Qx) x a) l acc)).
  { induction l as [|x l IH]; intros acc Ha; cbn; [assumption|]. apply IH. now apply ins_val_sorted. }
  apply G. constructor.
Qed.

(* a row of a distance matrix is l1 ++ m :: l2 where m (the distance of the point to itself) is minimal.
   Then the second smallest entry s of the row is the nearest-neighbour distance: a lower bound of all OTHER
   entries, attained by one of them (also when duplicates put further zeros into the row). *)
Lemma second_smallest_is_nn (l1 l2 : list Q) (m : Q) :
  (forall y, In y (l1 ++ l2) -> m <= y) -> l1 ++ l2 <> [] ->
  let s := nth 1 (sort_vals (X := Qx) (l1 ++ m :: l2)) 0 in
  (forall y, In y (l1 ++ l2) -> s <= y) /\ (exists y, In y (l1 ++ l2) /\ s == y).
Proof.
  intros Hmin Hne s.
  pose proof (sort_vals_perm (l1 ++ m :: l2)) as HP. pose proof (sort_vals_sorted (l1 ++ m :: l2)) as HS.
  assert (HP2 : Permutation (m :: l1 ++ l2) (sort_vals (X := Qx) (l1 ++ m :: l2))).
  { rewrite HP. apply Permutation_middle. }
  destruct (Permutation_vs_cons_inv (Permutation_sym HP2)) as (p1 & p2 & Hsplit).
  rewrite Hsplit in HP2, HS. apply Permutation_cons_app_inv in HP2.
  subst s. rewrite Hsplit.
  assert (Hlen : (1 <= length (p1 ++ p2))%nat).
  { rewrite <- (Permutation_length HP2). destruct (l1 ++ l2); [congruence|cbn; lia]. }
  assert (Hin_others : forall y, In y (l1 ++ l2) <-> In y (p1 ++ p2)).
  { intro y. split; intro H; [apply (Permutation_in _ HP2 H)|apply (Permutation_in _ (Permutation_sym HP2) H)]. }
  destruct p1 as [|a0 [|a1 p1']].
  - (* m is the first element: the second one is the minimum of the others *)
    cbn [app nth] in *. destruct p2 as [|a1 p2]; [cbn in Hlen; lia|]. cbn [nth].
    inversion HS as [|? ? HS1 Hall0]; subst. inversion HS1 as [|? ? _ Hall1]; subst. rewrite Forall_forall in Hall1.
    split.
    + intros y Hy. apply Hin_others in Hy. destruct Hy as [<-|Hy]; [lra|auto].
    + exists a1. split; [apply Hin_others; now left|reflexivity].
  - (* m is the second element *)
    cbn [app nth] in *.
    inversion HS as [|? ? HS1 Hall0]; subst. inversion HS1 as [|? ? _ Hall1]; subst. rewrite Forall_forall in Hall0, Hall1.
    assert (Ha0 : a0 <= m) by (apply Hall0; now left).
    assert (Hm0 : m <= a0) by (apply Hmin; apply Hin_others; now left).
    split.
    + intros y Hy. apply Hin_others in Hy. destruct Hy as [<-|Hy]; [lra|auto].
    + exists a0. split; [apply Hin_others; now left|lra].
  - (* m sits further right: the first two elements are both others, and everything up to m has the value of m *)
    cbn [app nth] in *.
    inversion HS as [|? ? HS1 Hall0]; subst. inversion HS1 as [|? ? HS2 Hall1]; subst. rewrite Forall_forall in Hall0, Hall1.
    assert (Ha1m : a1 <= m) by (apply Hall1; apply in_or_app; right; now left).
    assert (Hm0 : m <= a0) by (apply Hmin; apply Hin_others; now left).
    assert (Ha01 : a0 <= a1) by (apply Hall0; now left).
    split.
    + intros y Hy. apply Hin_others in Hy. destruct Hy as [<-|[<-|Hy]]; [lra|lra|].
      apply Hall1. apply in_app_or in Hy as [Hy|Hy]; apply in_or_app; [now left|right; now right].
    + exists a1. split; [apply Hin_others; right; now left|reflexivity].
Qed.

(* ---------- city-block distances (the default metric): translation invariant, absolutely homogeneous ---------- *)
Lemma cityblock_qsum (a b : list Q) :
  dist (X := Qx) Cityblock a b == qsum (map (fun p => Qabs (fst p - snd p)) (combine a b)).
Proof.
  unfold dist.
  assert (G : forall l acc, fold_left (fun acc p => add (base Qx) acc (absx Qx (sub (base Qx) (fst p) (snd p)))) l acc
                            == acc + qsum (map (fun p => Qabs (fst p - snd p)) l)).
  { induction l as [|p l IH]; intro acc; cbn [fold_left map qsum]; [lra|]. rewrite IH. cbn. lra. }
  rewrite G. cbn. lra.
Qed.

Lemma cityblock_translation (a b t : list Q) :
  dist (X := Qx) Cityblock (map2 Qplus a t) (map2 Qplus b t) == dist (X := Qx) Cityblock a b \/ length a <> length t \/ length b <> length t.
Proof.
  destruct (Nat.eq_dec (length a) (length t)) as [Ha|Ha]; [|right; now left].
  destruct (Nat.eq_dec (length b) (length t)) as [Hb|Hb]; [|right; now right]. left.
  rewrite !cityblock_qsum. revert b t Ha Hb. induction a as [|x a IH]; intros [|y b] [|z t] Ha Hb; cbn [map2 combine map qsum fst snd length] in *; try discriminate; try reflexivity.
  rewrite (IH b t) by lia. setoid_replace (Qabs (x + z - (y + z))) with (Qabs (x - y)) by (apply Qabs_wd; ring). reflexivity.
Qed.

Lemma cityblock_scaling (c : Q) (a b : list Q) :
  dist (X := Qx) Cityblock (map (Qmult c) a) (map (Qmult c) b) == Qabs c * dist (X := Qx) Cityblock a b.
Proof.
  rewrite !cityblock_qsum. revert b. induction a as [|x a IH]; intros [|y b]; cbn [map combine qsum fst snd]; try ring.
  rewrite IH. setoid_replace (Qabs (c * x - c * y)) with (Qabs c * Qabs (x - y)) by (rewrite <- Qabs_Qmult; apply Qabs_wd; ring). ring.
Qed.

Lemma cityblock_nonneg (a b : list Q) : 0 <= dist (X := Qx) Cityblock a b.
Proof.
  rewrite cityblock_qsum. apply qsum_nonneg. apply Forall_forall. intros y Hy.
  apply in_map_iff in Hy as (p & <- & _). apply Qabs_nonneg.
Qed.

Lemma cityblock_sym (a b : list Q) : dist (X := Qx) Cityblock a b == dist (X := Qx) Cityblock b a.
Proof.
  rewrite !cityblock_qsum. revert b. induction a as [|x a IH]; intros [|y b]; cbn [map combine qsum fst snd]; try reflexivity.
  rewrite IH. setoid_replace (Qabs (x - y)) with (Qabs (y - x)) by (rewrite <- (Qabs_opp (y - x)); apply Qabs_wd; ring). reflexivity.
Qed.
