From Coq Require Import List Bool Arith Lia.
From PV Require Import Base.Num Base.NumQ Base.Res Base.ListX
  Model.Repair Model.Mutate Model.Cross Model.Select Model.Variant
  Proofs.RepairP Proofs.MutateP Proofs.CrossP Proofs.SelectP.
Import ListNotations.

(* ---------- the stream left by an operator only contains events of the stream it was given ---------- *)
Section Incl.
Context {N : Num.num}.
Definition sub (s' s : list (event N)) : Prop := forall e, In e s' -> In e s.

Lemma sub_refl s : sub s s. Proof. intros e H; exact H. Qed.
Lemma sub_trans a b c : sub a b -> sub b c -> sub a c. Proof. unfold sub; auto. Qed.
Lemma sub_cons e s : sub s (e :: s). Proof. intros x H; now right. Qed.

Lemma reselect_loop_sub n_pop rows targets : forall fuel col s col' s',
  reselect_loop (T := N) fuel n_pop rows targets col s = Ok (col', s') -> sub s' s.
Proof.
  induction fuel as [|fuel IH]; intros col s col' s' H; cbn [reselect_loop] in H;
    destruct (existsb (fun b => b) (map3 is_bad rows targets col)).
  - discriminate.
  - apply ret_ok in H as [_ <-]. apply sub_refl.
  - apply bind_ok in H as (news & s1 & Hd & H). apply bind_ok in H as (c2 & s2 & Hr & H).
    apply draw_choice_ok in Hd as (-> & _). apply lift_ok in Hr as [_ <-].
    eapply sub_trans; [eapply IH; exact H|apply sub_cons].
  - apply ret_ok in H as [_ <-]. apply sub_refl.
Qed.

Lemma fill_cols_sub n_pop targets : forall k rows s P s',
  fill_cols (T := N) k n_pop rows targets s = Ok (P, s') -> sub s' s.
Proof.
  induction k as [|k IH]; intros rows s P s' H; cbn [fill_cols] in H.
  - apply ret_ok in H as [_ <-]. apply sub_refl.
  - apply bind_ok in H as (col & s1 & Hc & H). unfold fill_col in Hc.
    apply bind_ok in Hc as (c0 & s0 & Hd & Hc). apply draw_choice_ok in Hd as (-> & _).
    apply reselect_loop_sub in Hc. apply IH in H.
    eapply sub_trans; [exact H|]. eapply sub_trans; [exact Hc|apply sub_cons].
Qed.

Lemma select_sub v n_pop n_sel n_par ranks s P s' :
  select (T := N) v n_pop n_sel n_par ranks s = Ok (P, s') -> sub s' s.
Proof.
  destruct v; cbn [select].
  - apply fill_cols_sub.
  - apply fill_cols_sub.
  - destruct (negb (n_sel =? n_pop) || (n_par <? 3)); [intro H; cbv in H; discriminate|]. apply fill_cols_sub.
  - destruct (negb (n_sel =? n_pop) || (n_par <? 3)); [intro H; cbv in H; discriminate|].
    intro H. apply bind_ok in H as (P1 & s1 & H1 & H2). apply fill_cols_sub in H1, H2. eapply sub_trans; eauto.
  - intro H. apply bind_ok in H as (P1 & s1 & H1 & H2). apply ret_ok in H2 as [_ <-]. now apply fill_cols_sub in H1.
  - destruct (Nat.even n_par); [intro H; cbv in H; discriminate|].
    intro H. apply bind_ok in H as (P1 & s1 & H1 & H2). apply ret_ok in H2 as [_ <-]. now apply fill_cols_sub in H1.
Qed.

Lemma factors_from_sub fc gamma n v FJ s s' :
  factors_from (N := N) fc gamma n v FJ s s' -> sub s' s.
Proof.
  induction 1 as [|F J FJ s s1 s2 s' Hl HF HJ Hrest IH]; [apply sub_refl|].
  eapply sub_trans; [exact IH|].
  assert (sub s2 s1).
  { destruct gamma; cbn in HJ; [destruct HJ as (us & _ & -> & _); apply sub_cons|destruct HJ as [_ ->]; apply sub_refl]. }
  assert (sub s1 s).
  { destruct fc; cbn in HF; [destruct HF as [_ ->]; apply sub_refl|destruct HF as (us & _ & -> & _); apply sub_cons]. }
  eapply sub_trans; eauto.
Qed.
End Incl.

(* ---------- exact arithmetic: the box ---------- *)
From Coq Require Import QArith Lqa.
Local Open Scope Q_scope.

Definition boxed (xl xu row : list Q) : Prop := Forall3 (fun x l h => l <= x <= h) row xl xu.

Lemma Forall3_app {A B C} (R : A -> B -> C -> Prop) a1 b1 c1 a2 b2 c2 :
  Forall3 R a1 b1 c1 -> Forall3 R a2 b2 c2 -> Forall3 R (a1 ++ a2) (b1 ++ b2) (c1 ++ c2).
Proof. induction 1; cbn; auto. constructor; auto. Qed.

Lemma Forall3_length {A B C} (R : A -> B -> C -> Prop) a b c :
  Forall3 R a b c -> length a = length b /\ length c = length b.
Proof. induction 1; cbn; intuition lia. Qed.

Lemma Forall3_split {A B C} (R : A -> B -> C -> Prop) b1 : forall c1 a b2 c2,
  length c1 = length b1 -> Forall3 R a (b1 ++ b2) (c1 ++ c2) ->
  Forall3 R (firstn (length b1) a) b1 c1 /\ Forall3 R (skipn (length b1) a) b2 c2.
Proof.
  induction b1 as [|y b1 IH]; intros [|z c1] a b2 c2 Hl H; cbn in *; try discriminate.
  - split; [constructor|exact H].
  - inversion H; subst. destruct (IH c1 a0 b2 c2) as [H1 H2]; [lia|assumption|]. cbn. split; [constructor|]; assumption.
Qed.

Lemma tile_length {A} n (l : list A) : length (tile n l) = (n * length l)%nat.
Proof. induction n; cbn; [reflexivity|]. rewrite app_length. lia. Qed.

Lemma tile_nil {A} n : tile n (@nil A) = [].
Proof. induction n; cbn; auto. Qed.

Lemma tile_same_len {A} n m (l : list A) : length (tile n l) = length (tile m l) -> tile n l = tile m l.
Proof.
  destruct l as [|x l]; [now rewrite !tile_nil|].
  rewrite !tile_length. cbn [length]. intro H. assert (n = m) by nia. now subst.
Qed.

Lemma concat_tile_boxed xl xu X : Forall (boxed xl xu) X ->
  Forall3 (fun x l h => l <= x <= h) (concat X) (tile (length X) xl) (tile (length X) xu).
Proof. induction 1; cbn; [constructor|]. apply Forall3_app; assumption. Qed.

Lemma reshape_boxed xl xu : forall n zs, length xu = length xl ->
  Forall3 (fun x l h => l <= x <= h) zs (tile n xl) (tile n xu) ->
  Forall (boxed xl xu) (reshape n (length xl) zs).
Proof.
  induction n as [|n IH]; intros zs Hl H; cbn in *; [constructor|].
  apply Forall3_split in H as [H1 H2]; [|assumption]. constructor; [exact H1|]. apply IH; assumption.
Qed.

Lemma repair_boxed s xs bs ls hs zs :
  all5 (repaired s) xs bs ls hs zs -> Forall3 (fun b l h => l <= b <= h) bs ls hs ->
  Forall3 (fun z l h => l <= z <= h) zs ls hs.
Proof.
  induction 1 as [|x b l h y xs bs ls hs ys Hr H IH]; intro HB; [constructor|].
  inversion HB; subst. constructor; [|apply IH; assumption]. apply Hr. assumption.
Qed.

Lemma all_some_spec {A} (l : list (option A)) r : all_some l = Some r -> Forall2 (fun o a => o = Some a) l r.
Proof.
  revert r. induction l as [|[a|] l IH]; cbn; intros r H; try discriminate.
  - inversion H. constructor.
  - destruct (all_some l) as [r'|]; [|discriminate]. inversion H; subst. constructor; auto.
Qed.

Lemma all_some_map_in {A B} (f : A -> option B) (l : list A) : forall rows,
  all_some (map f l) = Some rows -> forall r, In r rows -> exists a, In a l /\ f a = Some r.
Proof.
  induction l as [|a l IH]; cbn; intros rows H r Hr.
  - inversion H; subst. destruct Hr.
  - destruct (f a) as [b|] eqn:Ef; [|discriminate].
    destruct (all_some (map f l)) as [rs|] eqn:E; [|discriminate]. inversion H; subst.
    destruct Hr as [<-|Hr]; [exists a; split; [now left|assumption]|].
    destruct (IH rs eq_refl r Hr) as (a' & Ha & Hf). exists a'. split; [now right|assumption].
Qed.

Lemma gather_members popX P j rows : gather (N := Qn) popX P j = Some rows -> forall r, In r rows -> In r popX.
Proof.
  unfold gather. intros H r Hr. destruct (all_some_map_in _ _ _ H r Hr) as (row & _ & Hf).
  destruct (nth_error row j) as [p|]; [|discriminate]. eapply nth_error_In; eauto.
Qed.

Lemma tensor_base popX P n_par Xs : tensor (N := Qn) popX P n_par = Some Xs -> (0 < n_par)%nat ->
  forall r, In r (hd [] Xs) -> In r popX.
Proof.
  unfold tensor. intros H Hp r Hr. destruct n_par as [|k]; [lia|]. cbn [seq map all_some] in H.
  destruct (gather popX P 0) as [X0|] eqn:E0; [|discriminate].
  destruct (all_some (map (gather popX P) (seq 1 k))) as [rest|]; [|discriminate]. inversion H; subst. cbn in Hr.
  eapply gather_members; eauto.
Qed.

(* ---------- DEM.do with bounds: mutants are repaired into the box ---------- *)
Lemma unit_events_sub (s s' : list (event Qn)) : sub s' s -> unit_events s -> unit_events s'.
Proof. intros Hs HU e He. apply HU. apply Hs. exact He. Qed.

Lemma all_unit_of_unit_events s : unit_events s -> all_unit s.
Proof. intros H sh vals u Hi Hu. exact (H (ERand sh vals) Hi u Hu). Qed.

Lemma dem_do_boxed fc gamma st xl xu Xs s V s' :
  unit_events s -> length xu = length xl ->
  Forall (boxed xl xu) (hd [] Xs) ->
  dem_do (N := Qn) fc gamma st (Some (xl, xu)) Xs s = Ok (V, s') ->
  Forall (boxed xl xu) V /\ sub s' s.
Proof.
  intros HU Hlen HB H. unfold dem_do in H. apply bind_ok in H as ([V0 d] & s1 & Hm & H).
  apply bind_ok in H as (zs & s2 & Hr & H). apply ret_ok in H as [<- <-].
  destruct Xs as [|X0 rest]; [cbv in Hm; discriminate|]. cbn [hd] in *.
  apply de_mutation_spec in Hm as (_ & FJ & _ & HF & _ & _). apply factors_from_sub in HF.
  assert (HU1 : unit_events s1) by (eapply unit_events_sub; eauto).
  pose proof (repair_spec _ _ _ _ _ _ _ _ HU1 Hr) as Hall.
  assert (Hsub2 : sub s2 s1).
  { unfold repair in Hr. apply bind_ok in Hr as (us1 & e1 & G1 & Hr). apply bind_ok in Hr as (xs1 & e2 & P1 & Hr).
    apply bind_ok in Hr as (us2 & e3 & G2 & P2). apply lift_ok in P1 as [_ <-]. apply lift_ok in P2 as [_ <-].
    apply get_us_spec in G1 as [_ S1]. apply get_us_spec in G2 as [_ S2]. intros e He. auto. }
  split; [|eapply sub_trans; eauto].
  pose proof (concat_tile_boxed _ _ _ HB) as HBt.
  destruct (all5_length _ _ _ _ _ _ Hall) as (_ & Hlb & Hll & Hlh).
  destruct (Forall3_length _ _ _ _ HBt) as [Hc1 Hc2].
  unfold matrix in *. change (T Qn) with Q in *.
  assert (E1 : tile (length V0) xl = tile (length X0) xl) by (apply tile_same_len; congruence).
  assert (E2 : tile (length V0) xu = tile (length X0) xu).
  { apply tile_same_len. rewrite !tile_length, Hlen, <- !tile_length. congruence. }
  apply reshape_boxed; [assumption|]. rewrite E1, E2 in *. eapply repair_boxed; eauto.
Qed.

(* ---------- DEX: trial coordinates come from boxed vectors ---------- *)
Lemma row_from_boxed xl xu x v u : boxed xl xu x -> boxed xl xu v -> row_from x v u -> boxed xl xu u.
Proof.
  intros Hx Hv [Hf _]. unfold boxed in *. revert v u Hv Hf.
  induction Hx as [|xi l h x xl xu Hxi Hx IH]; intros v u Hv Hf; inversion Hv; subst; cbn in Hf; inversion Hf; subst; constructor.
  - cbn in *. match goal with H : _ = _ \/ _ = _ |- _ => destruct H as [->| ->]; assumption end.
  - eapply IH; eauto.
Qed.

Lemma mask_row_boxed xl xu (r : list bool) x v :
  boxed xl xu x -> boxed xl xu v -> length r = length xl ->
  boxed xl xu (map3 (fun (m : bool) xi vi => if m then vi else xi) r x v).
Proof.
  unfold boxed. intros Hx. revert r v. induction Hx as [|xi l h x xl xu Hxi Hx IH]; intros r v Hv Hr;
    inversion Hv; subst; destruct r as [|m r]; cbn in *; try discriminate; constructor.
  - destruct m; assumption.
  - apply IH; [assumption|lia].
Qed.

Lemma apply_mask_boxed xl xu rows : forall X V,
  Forall (fun r => length r = length xl) rows -> Forall (boxed xl xu) X -> Forall (boxed xl xu) V ->
  Forall (boxed xl xu) (apply_mask rows X V).
Proof.
  unfold apply_mask. induction rows as [|r rows IH]; intros [|x X] [|v V] Hr HX HV; cbn; try constructor.
  - inversion Hr; inversion HX; inversion HV; subst. now apply mask_row_boxed.
  - inversion Hr; inversion HX; inversion HV; subst. apply IH; assumption.
Qed.

Lemma dex_boxed c cr xl xu X V s U s' :
  (0 < length xl)%nat -> Forall (boxed xl xu) X -> Forall (boxed xl xu) V ->
  dex (N := Qn) c cr true X V s = Ok (U, s') -> Forall (boxed xl xu) U.
Proof.
  intros Hv HX HV H. unfold dex in H. apply bind_ok in H as (rows & s1 & Hm & H). apply ret_ok in H as [<- _].
  destruct X as [|x X]; [destruct rows; cbn; constructor|].
  assert (Hv0 : length x = length xl).
  { inversion HX as [|? ? Hx ?]; subst. apply Forall3_length in Hx. tauto. }
  cbn [hd] in Hm. change (T Qn) with Q in *. rewrite Hv0 in Hm.
  destruct (cross_mask_ok (N := Qn) c _ _ cr s rows s1 Hv Hm) as [_ Hok].
  apply apply_mask_boxed; auto. eapply Forall_impl; [|exact Hok]. intros r [Hl _]. exact Hl.
Qed.

(* ---------- the whole pipeline ---------- *)
Lemma variant_boxed (c : vcfg (N := Qn)) popX ranks xl xu s U s' :
  unit_events s -> (0 < length xl)%nat -> length xu = length xl ->
  Forall (boxed xl xu) popX ->
  variant_do c popX ranks (Some (xl, xu)) s = Ok (U, s') ->
  Forall (boxed xl xu) U.
Proof.
  intros HU Hv Hlen HB H. unfold variant_do in H.
  apply bind_ok in H as (P & s1 & Hs & H). apply bind_ok in H as (Xs & s2 & Ht & H).
  apply bind_ok in H as (V & s3 & Hd & H). apply lift_ok in Ht as [Ht <-].
  apply select_sub in Hs.
  assert (HU1 : unit_events s1) by (eapply unit_events_sub; eauto).
  assert (HB0 : Forall (boxed xl xu) (hd [] Xs)).
  { apply Forall_forall. intros r Hr. rewrite Forall_forall in HB. apply HB.
    eapply tensor_base; eauto. unfold n_parents_of. lia. }
  destruct (dem_do_boxed _ _ _ _ _ _ _ _ _ HU1 Hlen HB0 Hd) as [HV _].
  exact (dex_boxed _ _ _ _ _ _ _ _ _ Hv HB HV H).
Qed.

(* ---------- C07: the mating proposes exactly one offspring per population member ---------- *)
Local Open Scope nat_scope.
Section Len.
Context {N : Num.num}.

Lemma fill_cols_length n_pop targets : forall k rows s P s',
  fill_cols (T := N) k n_pop rows targets s = Ok (P, s') -> length rows = length targets -> length P = length targets.
Proof.
  induction k as [|k IH]; intros rows s P s' H Hl; cbn [fill_cols] in H.
  - apply ret_ok in H as [<- _]. exact Hl.
  - apply bind_ok in H as (col & s1 & Hc & H). apply fill_col_spec in Hc as (Hlc & _ & _).
    eapply IH; [exact H|]. rewrite add_col_length; congruence.
Qed.

Lemma select_length v n n_par ranks s P s' :
  select (T := N) v n n n_par ranks s = Ok (P, s') -> length P = n.
Proof.
  destruct v; cbn [select].
  - intro H. apply fill_cols_length in H; [now rewrite seq_length in H|now rewrite repeat_length, seq_length].
  - intro H. apply fill_cols_length in H; [now rewrite seq_length in H|now rewrite repeat_length, seq_length].
  - destruct (negb (n =? n) || (n_par <? 3)); [intro H; cbv in H; discriminate|].
    intro H. apply fill_cols_length in H; [now rewrite seq_length in H|now rewrite map_length].
  - destruct (negb (n =? n) || (n_par <? 3)); [intro H; cbv in H; discriminate|].
    intro H. apply bind_ok in H as (P1 & s1 & H1 & H2).
    apply fill_cols_length in H1; [|now rewrite map_length]. rewrite seq_length in H1.
    apply fill_cols_length in H2; [now rewrite seq_length in H2|rewrite map2_length, seq_length; lia].
  - intro H. apply bind_ok in H as (P1 & s1 & H1 & H2). apply ret_ok in H2 as [<- _].
    apply fill_cols_length in H1; [|now rewrite repeat_length, seq_length]. now rewrite map_length, H1, seq_length.
  - destruct (Nat.even n_par); [intro H; cbv in H; discriminate|].
    intro H. apply bind_ok in H as (P1 & s1 & H1 & H2). apply ret_ok in H2 as [<- _].
    apply fill_cols_length in H1; [|now rewrite repeat_length, seq_length]. now rewrite map_length, H1, seq_length.
Qed.

Lemma all_some_length {A} (l : list (option A)) r : all_some l = Some r -> length r = length l.
Proof.
  revert r. induction l as [|[a|] l IH]; cbn; intros r H; try discriminate; [inversion H; reflexivity|].
  destruct (all_some l) as [r'|]; [|discriminate]. inversion H; subst. cbn. f_equal. now apply IH.
Qed.

Lemma all_some_members {A} (l : list (option A)) r : all_some l = Some r -> forall a, In a r -> In (Some a) l.
Proof.
  revert r. induction l as [|[a|] l IH]; cbn; intros r H x Hx; try discriminate; [inversion H; subst; destruct Hx|].
  destruct (all_some l) as [r'|]; [|discriminate]. inversion H; subst. destruct Hx as [<-|Hx]; [now left|right; eauto].
Qed.

(* every matrix of the parent tensor has one row per row of the index matrix *)
Lemma tensor_rows (popX : list (list N)) P n_par Xs :
  tensor popX P n_par = Some Xs -> Forall (fun Xm => length Xm = length P) Xs /\ length Xs = n_par.
Proof.
  unfold tensor. intro H. split.
  - apply Forall_forall. intros Xm Hm. apply (all_some_members _ _ H) in Hm.
    apply in_map_iff in Hm as (j & Hj & _). unfold gather in Hj. apply all_some_length in Hj. now rewrite map_length in Hj.
  - apply all_some_length in H. now rewrite map_length, seq_length in H.
Qed.

Lemma madd_length (A B : list (list N)) : length (madd A B) = Nat.min (length A) (length B).
Proof. unfold madd. apply map2_length. Qed.

Lemma diff_mat_length gamma (F : list N) J (Xi Xj : list (list N)) n v :
  length F = n -> length Xi = n -> length Xj = n -> (J = None \/ exists us, J = Some (reshape n v us)) ->
  length (diff_mat gamma F J Xi Xj) = n.
Proof.
  intros HF Hi Hj HJ. unfold diff_mat. rewrite map2_length, !combine_length.
  assert (length (jrows J (length F)) = n).
  { destruct HJ as [->|[us ->]]; cbn; [rewrite repeat_length; exact HF|rewrite map_length; apply reshape_length]. }
  lia.
Qed.

Lemma sum_diffs_length gamma n v : forall rest FJ acc s s' fc,
  factors_from (N := N) fc gamma n v FJ s s' -> Forall (fun Xm => length Xm = n) rest -> length acc = n ->
  length (sum_diffs gamma rest FJ acc) = n.
Proof.
  intros rest FJ acc s s' fc HF. revert rest acc.
  induction HF as [|F J FJ s s1 s2 s' Hl HFf HJ Hrest IH]; intros rest acc Hr Ha.
  - destruct rest as [|Xi [|Xj rest]]; exact Ha.
  - destruct rest as [|Xi [|Xj rest]]; try exact Ha. cbn [sum_diffs].
    pose proof (Forall_inv Hr) as Hi. pose proof (Forall_inv (Forall_inv_tail Hr)) as Hj.
    pose proof (Forall_inv_tail (Forall_inv_tail Hr)) as Hr''. cbn beta in Hi, Hj.
    apply IH; [assumption|].
    assert (HJ' : J = None \/ exists us, J = Some (reshape n v us)).
    { destruct gamma; cbn in HJ; [right; destruct HJ as (us & _ & _ & ->); eauto|left; tauto]. }
    rewrite madd_length, (diff_mat_length gamma F J Xi Xj n v Hl Hi Hj HJ'). lia.
Qed.
End Len.

Section Len2.
Context {N : Num.num}.

Lemma de_mutation_rows fc gamma (Xs : list (list (list N))) n s V d s' :
  de_mutation (N := N) fc gamma Xs s = Ok ((V, d), s') -> Forall (fun Xm => length Xm = n) Xs -> Xs <> [] ->
  length V = n.
Proof.
  intros H HX Hne. destruct Xs as [|X0 rest]; [congruence|].
  apply de_mutation_spec in H as (_ & FJ & _ & HF & -> & ->).
  pose proof (Forall_inv HX) as H0. pose proof (Forall_inv_tail HX) as Hr. cbn beta in H0.
  rewrite madd_length, H0. rewrite H0 in HF.
  rewrite (sum_diffs_length gamma n (length (hd [] X0)) rest FJ _ s s' fc HF Hr); [lia|].
  unfold zeros. apply repeat_length.
Qed.

Lemma dem_do_rows fc gamma st xl xu (Xs : list (list (list N))) n s V s' :
  dem_do (N := N) fc gamma st (Some (xl, xu)) Xs s = Ok (V, s') -> Forall (fun Xm => length Xm = n) Xs -> Xs <> [] ->
  length V = n.
Proof.
  intros H HX Hne. unfold dem_do in H. apply bind_ok in H as ([V0 d] & s1 & Hm & H).
  apply bind_ok in H as (zs & s2 & _ & H). apply ret_ok in H as [<- _]. rewrite reshape_length.
  eapply de_mutation_rows; eauto.
Qed.

Lemma apply_mask_length {A} rows (Xm Vm : list (list A)) :
  length (apply_mask rows Xm Vm) = Nat.min (length rows) (Nat.min (length Xm) (length Vm)).
Proof. unfold apply_mask. apply map3_length. Qed.

(* exactly one trial vector per population member *)
Lemma variant_do_length (c : vcfg (N := N)) popX ranks xl xu s U s' :
  variant_do c popX ranks (Some (xl, xu)) s = Ok (U, s') -> 0 < length (hd [] popX) -> length U = length popX.
Proof.
  intros H Hv. unfold variant_do in H.
  apply bind_ok in H as (P & s1 & Hs & H). apply bind_ok in H as (Xs & s2 & Ht & H).
  apply bind_ok in H as (V & s3 & Hd & H). apply lift_ok in Ht as [Ht <-].
  apply select_length in Hs. apply tensor_rows in Ht as [Hrows Hlen]. rewrite Hs in Hrows.
  assert (Hne : Xs <> []) by (intro E; subst; cbn in Hlen; unfold n_parents_of in Hlen; lia).
  apply (dem_do_rows _ _ _ _ _ _ _ _ _ _ Hd Hrows) in Hne.
  unfold dex in H. apply bind_ok in H as (rows & s4 & Hm & H). apply ret_ok in H as [<- _].
  apply cross_mask_ok in Hm as [Hn _]; [|assumption].
  rewrite apply_mask_length, Hn, Hne. lia.
Qed.
End Len2.
