(* C20, "with zero_to_one it equals the value computed on objectives rescaled by the ideal and nadir points": the coordinate map of
   pymoo's ZeroToOneNormalization as modelled (with its NaN trick for ideal = nadir), in exact arithmetic with IEEE special values. *)
From Coq Require Import List Bool Arith QArith Lqa.
From PV Require Import Base.Num Base.NumEQ Base.ListX Model.Spacing Proofs.CdP.
Import ListNotations.
Local Arguments qsign : simpl never.

Theorem z2o_coord_spec (l u x : Q) :
  ((l < u)%Q -> z2o_coord (X := EQx) (Fin l) (Fin u) (Fin x) = Fin ((x + - l) / (u + - l)) /\
                ((l <= x)%Q -> (x <= u)%Q -> (0 <= (x + - l) / (u + - l))%Q /\ ((x + - l) / (u + - l) <= 1)%Q)) /\
  ((l == u)%Q -> z2o_coord (X := EQx) (Fin l) (Fin u) (Fin x) = Fin (x + - l)).
Proof.
  split.
  - intro Hlu. assert (E : Qeq_bool l u = false).
    { destruct (Qeq_bool l u) eqn:Eq; [|reflexivity]. apply Qeq_bool_iff in Eq. lra. }
    assert (Hpos : (0 < u + - l)%Q) by lra.
    split.
    + unfold z2o_coord. cbn. rewrite E. cbn. now rewrite (qsign_pos _ Hpos).
    + intros H1 H2. split; [apply Qle_shift_div_l; lra|apply Qle_shift_div_r; lra].
  - intro Hlu. assert (E : Qeq_bool l u = true) by (now apply Qeq_bool_iff).
    unfold z2o_coord. cbn. rewrite E. reflexivity.
Qed.

(* the whole matrix: every row is mapped coordinate by coordinate *)
Theorem normalize_z2o_rows (ideal nadir : list eq) (F : list (list eq)) :
  normalize_z2o (X := EQx) ideal nadir F = map (fun r => map3 (fun l u x => z2o_coord (X := EQx) l u x) ideal nadir r) F.
Proof. reflexivity. Qed.
