(* C01  Offspring never leave the problem's box bounds.  Statements only.
   boxed xl xu row : row has as many coordinates as the bound vectors and xl_j <= row_j <= xu_j for all j. *)
From Coq Require Import List Bool Arith QArith.
From PV Require Import Base.Num Base.NumQ Base.Res Base.ListX
  Model.Repair Model.Mutate Model.Cross Model.Select Model.Variant
  Proofs.RepairP Proofs.VariantP.
Import ListNotations.
Local Open Scope nat_scope.

(* the whole mating pipeline (selection -> DE mutation -> repair -> crossover): for every configuration
   (selection variant, number of differences, F scalar or dithered with any values, jitter, repair strategy,
   crossover kind and rate), every population inside the box, every rank assignment and every draw stream
   with float draws in [0,1): every trial vector lies inside the box. *)
Theorem C01_variant_in_box :
  forall (c : vcfg (N := Qn)) popX ranks xl xu s U s',
    unit_events s -> 0 < length xl -> length xu = length xl ->
    Forall (boxed xl xu) popX ->
    variant_do c popX ranks (Some (xl, xu)) s = Ok (U, s') ->
    Forall (boxed xl xu) U.
Proof. exact variant_boxed. Qed.
Print Assumptions C01_variant_in_box.

(* the DE mutation operator used on its own (DEM.do): if the base vectors (first parent of every mating)
   are inside the box, so are the repaired mutants *)
Theorem C01_dem_in_box :
  forall (fc : fcfg (N := Qn)) gamma st xl xu Xs s V s',
    unit_events s -> length xu = length xl ->
    Forall (boxed xl xu) (hd [] Xs) ->
    dem_do (N := Qn) fc gamma st (Some (xl, xu)) Xs s = Ok (V, s') ->
    Forall (boxed xl xu) V /\ sub s' s.
Proof. exact dem_do_boxed. Qed.
Print Assumptions C01_dem_in_box.

(* the crossover operator used on its own (DEX.do): targets and mutants inside the box give trials inside *)
Theorem C01_dex_in_box :
  forall c (cr : Q) xl xu X V s U s',
    0 < length xl -> Forall (boxed xl xu) X -> Forall (boxed xl xu) V ->
    dex (N := Qn) c cr true X V s = Ok (U, s') -> Forall (boxed xl xu) U.
Proof. exact dex_boxed. Qed.
Print Assumptions C01_dex_in_box.

(* the hypothesis on the base vector is needed (see also C11_needs_base_in_box_refuted) *)
Theorem C01_needs_base_in_box_refuted :
  exists x b l h u z, unit_q u /\ pass_step (N := Qn) true BounceBack [u] x b l h z /\ ~ (l <= z <= h)%Q.
Proof. exact repair_needs_base_in_box_refuted. Qed.
Print Assumptions C01_needs_base_in_box_refuted.

(* variant string: n_parents = 1 + 2 * (y + 1 for the "-to-" selections) *)
Theorem C01_n_parents :
  forall s y, n_parents_of (n_diffs_of s y) = 1 + 2 * (y + if is_to s then 1 else 0).
Proof. intros s y. unfold n_parents_of, n_diffs_of. destruct (is_to s); cbn; rewrite ?Nat.add_0_r, ?Nat.add_1_r; reflexivity. Qed.
Print Assumptions C01_n_parents.

(* non-vacuity: a DE/rand/1/bin generation on 4 parents in [0,1]x[0,1] with F = 2 pushing mutants outside *)
Example C01_nonvacuous :
  exists U, variant_do (N := Qn)
    {| v_sel := SRand; v_ndiffs := 1; v_fc := FScalar (N := Qn) 2%Q; v_gamma := None; v_strat := BounceBack; v_cx := Bin; v_cr := 1%Q |}
    [[0; 0]; [1; 1]; [1 # 2; 0]; [0; 1]]%Q [None; None; None; None] (Some ([0; 0]%Q, [1; 1]%Q))
    [EChoice 4 4 [1; 2; 3; 0]; EChoice 4 4 [2; 3; 0; 1]; EChoice 4 4 [3; 0; 1; 2];
     ERand [3]%nat [1 # 2; 1 # 2; 1 # 2]%Q; ERand [3]%nat [1 # 4; 1 # 4; 1 # 4]%Q;
     ERand [4; 2]%nat [0; 0; 0; 0; 0; 0; 0; 0]%Q] = Ok (U, []).
Proof. eexists. vm_compute. reflexivity. Qed.

(* ---- whole runs: the box is an invariant of every run.  [run c xl xu pop streams pops offs]: in every generation the model's mating
   (any rank attributes, its own part of the draw stream) proposes the offspring from the current population and the next population is
   ANY list made of members of the current population and of these offspring - which is what ImprovementReplacement (C02), the
   rank-and-crowding survivals (C03, C06: survivors are indices into population + offspring) and every other survival do.  Then the
   offspring of EVERY generation and every population lie inside the box, provided the initial population does. ---- *)
From Coq Require Import Lqa.
From PV Require Import Proofs.RunP.
Theorem C01_every_generation_in_box :
  forall (c : vcfg (N := Qn)) xl xu pop streams pops offs,
    0 < length xl -> length xu = length xl -> Forall unit_events streams -> Forall (boxed xl xu) pop ->
    run c xl xu pop streams pops offs ->
    Forall (Forall (boxed xl xu)) offs /\ Forall (Forall (boxed xl xu)) pops.
Proof. exact run_stays_in_box. Qed.
Print Assumptions C01_every_generation_in_box.

(* non-vacuity: one generation of the configuration above, the offspring becoming the next population *)
Definition C01_cfg : vcfg (N := Qn) :=
  {| v_sel := SRand; v_ndiffs := 1; v_fc := FScalar (N := Qn) 2%Q; v_gamma := None; v_strat := BounceBack; v_cx := Bin; v_cr := 1%Q |}.
Definition C01_stream : list (event Qn) :=
  [EChoice 4 4 [1; 2; 3; 0]; EChoice 4 4 [2; 3; 0; 1]; EChoice 4 4 [3; 0; 1; 2];
   ERand [3]%nat [1 # 2; 1 # 2; 1 # 2]%Q; ERand [3]%nat [1 # 4; 1 # 4; 1 # 4]%Q; ERand [4; 2]%nat [0; 0; 0; 0; 0; 0; 0; 0]%Q].
Example C01_run_nonvacuous :
  exists U1, run C01_cfg [0; 0]%Q [1; 1]%Q [[0; 0]; [1; 1]; [1 # 2; 0]; [0; 1]]%Q [C01_stream] [U1] [U1] /\ unit_events C01_stream.
Proof.
  eexists. split.
  - eapply (run_cons C01_cfg [0; 0]%Q [1; 1]%Q _ [None; None; None; None] C01_stream []); [vm_compute; reflexivity|intros x Hx; right; exact Hx|constructor].
  - intros e He u Hu. cbn in He. repeat (destruct He as [<-|He]; [cbn in Hu; repeat (destruct Hu as [<-|Hu]; [split; cbn; lra|]); try contradiction|]). contradiction.
Qed.
