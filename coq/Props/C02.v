(* C02  Single-objective DE replaces one-to-one and never loses ground.  Statements only.
   All statements hold for every number type whose '<' is a strict weak order on the values that occur
   (ord_laws); Qn_ord instantiates them for exact rationals without axioms. *)
From Coq Require Import List Bool Arith Permutation Sorted.
From PV Require Import Base.Num Base.NumQ Base.ListX Model.Replace Proofs.ReplaceP.
Import ListNotations.

Section C02.
Context {N : num} {ok : N -> Prop} (L : ord_laws N ok) (ok0 : ok (zero N)).

(* the replacement rule is the one in the property statement *)
Theorem C02_better_rule : forall o p : sind N,
  better true o p = true <->
  (s_feas p = false /\ s_feas o = false /\ ltb N (s_cv o) (s_cv p) = true) \/
  (s_feas p = false /\ s_feas o = true) \/
  (s_feas p = true /\ s_feas o = true /\ ltb N (s_f o) (s_f p) = true).
Proof. exact better_spec. Qed.

(* slot k afterwards holds its previous occupant or the offspring created for it; the offspring exactly when
   it is better and not a duplicate of a current member or of an earlier offspring *)
Theorem C02_slotwise : forall constr (pop off : list (sind N)) k p o,
  nth_error pop k = Some p -> nth_error off k = Some o ->
  nth_error (apply_repl (repl_mask constr pop off) pop off) k =
  Some (if better constr o p && negb (is_dup pop (firstn k off) o) then o else p).
Proof. exact slotwise. Qed.

Theorem C02_size_preserved : forall constr (pop off : list (sind N)),
  length off = length pop -> length (de_step constr pop off) = length pop.
Proof. exact de_step_length. Qed.

(* the new population is the slots, reordered best-first (cv, then objective); position = rank *)
Theorem C02_sorted_best_first : forall constr (pop off : list (sind N)),
  Forall (@okind N ok) (apply_repl (repl_mask constr pop off) pop off) ->
  Permutation (de_step constr pop off) (apply_repl (repl_mask constr pop off) pop off) /\
  StronglySorted lex_le (de_step constr pop off).
Proof. intros constr pop off H. split; [apply fitness_sort_perm|now apply (fitness_sort_sorted L)]. Qed.

(* nobody appears twice *)
Theorem C02_nodup : forall constr (pop off : list (sind N)),
  length off = length pop -> good_pop (ok := ok) constr pop -> good_pop (ok := ok) constr off ->
  NoDup (map (@s_id N) (pop ++ off)) -> NoDup (map (@s_id N) (de_step constr pop off)).
Proof. exact (de_step_nodup L ok0). Qed.

(* never loses ground, in every reachable state of a run: for every member p of the initial population the
   final population contains a member that is at least as good in the (violation, objective) order;
   in particular its first (best) member is at least as good as the best so far *)
Theorem C02_never_loses_ground : forall constr offs (pop : list (sind N)),
  good_pop (ok := ok) constr pop ->
  Forall (fun off => length off = length pop /\ good_pop (ok := ok) constr off) offs ->
  forall p, In p pop -> exists q, In q (de_run constr pop offs) /\ lex_le q p.
Proof. exact (de_run_never_worse L ok0). Qed.

Theorem C02_run_invariant : forall constr offs (pop : list (sind N)),
  good_pop (ok := ok) constr pop ->
  Forall (fun off => length off = length pop /\ good_pop (ok := ok) constr off) offs ->
  let final := de_run constr pop offs in
  length final = length pop /\ good_pop (ok := ok) constr final /\ StronglySorted lex_le final \/ offs = [] /\ final = pop.
Proof. exact (de_run_invariant L ok0). Qed.
End C02.

(* instantiated for exact rationals: no hypotheses left, no axioms *)
Definition C02_never_loses_ground_Q := @C02_never_loses_ground Qn (fun _ => True) Qn_ord I.
Definition C02_nodup_Q := @C02_nodup Qn (fun _ => True) Qn_ord I.
Print Assumptions C02_better_rule.
Print Assumptions C02_slotwise.
Print Assumptions C02_size_preserved.
Print Assumptions C02_sorted_best_first.
Print Assumptions C02_nodup_Q.
Print Assumptions C02_never_loses_ground_Q.
Print Assumptions C02_run_invariant.

(* non-vacuity: a constrained generation with a tie, an infeasible->feasible replacement and a vetoed duplicate *)
From Coq Require Import QArith.
Example C02_nonvacuous :
  map (@s_id Qn)
    (de_step (N := Qn) true
       [(@Build_sind Qn 0 [0; 0]%Q 1%Q 0%Q true);  (@Build_sind Qn 1 [1; 0]%Q 5%Q 2%Q false); (@Build_sind Qn 2 [2; 0]%Q 3%Q 0%Q true)]
       [(@Build_sind Qn 3 [9; 9]%Q 1%Q 0%Q true);  (@Build_sind Qn 4 [7; 7]%Q 9%Q 0%Q true);  (@Build_sind Qn 5 [0; 0]%Q 2%Q 0%Q true)])
  = [0; 2; 4]%nat.
Proof. vm_compute. reflexivity. Qed.

(* ---- binary64: the same statements for the number system the code computes in (finite values; Flocq) ---- *)
From PV Require Import Base.NumF Base.NumFOrd.
Definition C02_never_loses_ground_float := @C02_never_loses_ground Fn fin Fn_ord fin_zero.
Definition C02_nodup_float := @C02_nodup Fn fin Fn_ord fin_zero.
Print Assumptions C02_never_loses_ground_float.

(* ... and on all binary64 values but NaN (objective values may be +-inf: the order is that of the extended real line) *)
Lemma nonnanf_zero : nonnanf (zero Fn). Proof. reflexivity. Qed.
Definition C02_never_loses_ground_float_nn := @C02_never_loses_ground Fn nonnanf Fn_ord_nn nonnanf_zero.
Definition C02_nodup_float_nn := @C02_nodup Fn nonnanf Fn_ord_nn nonnanf_zero.
Print Assumptions C02_never_loses_ground_float_nn.
