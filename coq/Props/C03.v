From PV Require Import Model.RankCrowd.
Theorem placeholder : True. Proof. exact I. Qed.
Print Assumptions placeholder.
