(* C03  Survival returns exactly n_survive distinct, untouched members.  Statements only.
   The survival models return *indices into the input population*; individuals are immutable values of the
   model, so "the same object, never a copy" is identity of indices and X/F/G/H cannot change (the attributes
   rank / crowding / cv_rank are returned separately).  Every oracle answer (feasibility split, fronts,
   crowding values, random argsort) is validated in place, so the theorems quantify over ALL oracle streams
   and over every crowding metric (any crowding values). *)
From Coq Require Import List Bool Arith.
From PV Require Import Base.Num Base.Res Base.ListX Model.Dominance Model.RankCrowd Proofs.RankCrowdP.
Import ListNotations.

Theorem C03_rank_and_crowding :
  forall (N : num) constr (pop : list (mind N)) n s surv attrs s',
    rnc_survival constr pop n s = Ok ((surv, attrs), s') -> pop <> [] -> 1 <= n ->
    length surv = Nat.min n (length pop) /\ NoDup surv /\ Forall (fun i => i < length pop) surv.
Proof. intros N constr pop n s surv attrs s' H Hne Hn. exact (proj2 (rnc_survival_spec constr pop n s surv attrs s' H Hne Hn)). Qed.
Print Assumptions C03_rank_and_crowding.

Theorem C03_constr_rank_and_crowding :
  forall (N : num) constr (pop : list (mind N)) n s surv attrs cvr s',
    crnc_survival constr pop n s = Ok ((surv, attrs, cvr), s') -> pop <> [] -> 1 <= n ->
    length surv = Nat.min n (length pop) /\ NoDup surv /\ Forall (fun i => i < length pop) surv.
Proof. intros N constr pop n s surv attrs cvr s' H Hne Hn. exact (proj2 (crnc_survival_spec constr pop n s surv attrs cvr s' H Hne Hn)). Qed.
Print Assumptions C03_constr_rank_and_crowding.

(* the core loop: exactly the quota survives whatever the crowding values and the random tie-breaking are *)
Theorem C03_front_loop :
  forall (N : num) (F : list (list N)) n s surv attrs s',
    rnc_do F n s = Ok ((surv, attrs), s') -> n <= length F ->
    exists fronts, rnc_result F n fronts surv /\ length surv = n /\ NoDup surv /\ Forall (fun i => i < length F) surv.
Proof. exact @rnc_do_spec. Qed.
Print Assumptions C03_front_loop.

(* non-vacuity: 4 individuals, first front {0,1,2} split to keep 2; any crowding values would do *)
From Coq Require Import QArith.
From PV Require Import Base.NumQ.
Example C03_nonvacuous :
  rnc_survival (N := Qn) false
    [@Build_mind Qn 0 [0; 3]%Q 0%Q true []; @Build_mind Qn 1 [1; 1]%Q 0%Q true [];
     @Build_mind Qn 2 [3; 0]%Q 0%Q true []; @Build_mind Qn 3 [2; 2]%Q 0%Q true []] 2
    [@ONds Qn 2 [[0; 1; 2]]%nat; @OCrowd Qn 1 [5; 1; 5]%Q; @OSort Qn true [0; 2; 1]%nat]
  = Ok (([0; 2]%nat, [(0, 0, 5%Q); (1, 0, 1%Q); (2, 0, 5%Q)]%nat), []).
Proof. vm_compute. reflexivity. Qed.
