(* C04  Truncation respects dominance ranks and prefers feasible solutions.  Statements only.
   A validated answer of the non-dominated sorting (is_ndsb) is by definition the sequence of dominance layers:
   front k = the members, among those not in fronts < k, that no remaining member Pareto-dominates
   (pdomb = Pareto domination, Proofs/DominanceP.pdomb_spec), returned until the quota is reached. *)
From Coq Require Import List Bool Arith.
From PV Require Import Base.Num Base.Res Base.ListX Model.Dominance Model.RankCrowd Proofs.DominanceP Proofs.RankCrowdP.
Import ListNotations.

(* the boolean domination test of the front checker is Pareto domination as stated independently *)
Theorem C04_pdomb_is_pareto :
  forall (N : num) (ok : N -> Prop), ord_laws N ok ->
  forall a b, length a = length b -> Forall ok a -> Forall ok b -> (pdomb a b = true <-> pdom a b).
Proof. intros N ok L. exact (pdomb_spec L). Qed.
Print Assumptions C04_pdomb_is_pareto.

(* survivors are: all fronts before the last returned one, plus a duplicate-free part of the last one *)
Theorem C04_structure :
  forall (N : num) constr (pop : list (mind N)) n s surv attrs s',
    rnc_survival constr pop n s = Ok ((surv, attrs), s') -> pop <> [] -> 1 <= n ->
    rnc_wrapped constr pop (Nat.min n (length pop)) surv.
Proof. intros N constr pop n s surv attrs s' H Hne Hn. exact (proj1 (rnc_survival_spec constr pop n s surv attrs s' H Hne Hn)). Qed.
Print Assumptions C04_structure.

(* no discarded individual dominates a survivor (F = objectives of the feasible sub-population, or of everybody
   on unconstrained problems) *)
Theorem C04_no_discarded_dominates_survivor :
  forall (N : num) (F : list (list N)) n fronts surv s d,
    rnc_result F n fronts surv -> In s surv -> d < length F ->
    pdomb (nth d F []) (nth s F []) = true -> In d surv.
Proof. exact @no_discarded_dominates. Qed.
Print Assumptions C04_no_discarded_dominates_survivor.

(* a discarded, ranked individual lies in the last returned front; every survivor is in that front or an earlier one *)
Theorem C04_rank_respected :
  forall (N : num) (F : list (list N)) n fronts surv s d pre fr post,
    rnc_result F n fronts surv -> In s surv -> ~ In d surv -> fronts = pre ++ fr :: post -> In d fr ->
    post = [] /\ (In s (concat pre) \/ In s fr).
Proof. exact @rank_respected. Qed.
Print Assumptions C04_rank_respected.

(* a non-dominated individual is dropped only when the non-dominated ones alone exceed the quota *)
Theorem C04_front0_dropped_only_if_too_big :
  forall (N : num) (F : list (list N)) n fronts surv f0 rest d,
    rnc_result F n fronts surv -> length surv = n -> fronts = f0 :: rest -> In d f0 -> ~ In d surv ->
    rest = [] /\ n < length f0.
Proof. exact @front0_dropped_only_if_too_big. Qed.
Print Assumptions C04_front0_dropped_only_if_too_big.

(* feasible individuals are preferred: an infeasible survivor implies that every feasible individual survives *)
Theorem C04_feasible_first :
  forall (N : num) (pop : list (mind N)) ns surv i j,
    rnc_wrapped true pop ns surv -> In i surv -> pop_infeas pop i = true ->
    j < length pop -> pop_feas pop j = true -> In j surv.
Proof. exact @feasible_first. Qed.
Print Assumptions C04_feasible_first.

(* infeasible individuals are kept in order of increasing total violation *)
Theorem C04_infeasible_by_cv :
  forall (N : num) (ok : N -> Prop), ord_laws N ok ->
  forall (pop : list (mind N)) feas infeas m i j,
    split_spec pop feas infeas -> Forall (fun p => ok (m_cv p)) pop ->
    In i (firstn m infeas) -> In j (skipn m infeas) ->
    exists pi pj, nth_error pop i = Some pi /\ nth_error pop j = Some pj /\ leb N (m_cv pi) (m_cv pj) = true.
Proof. intros N ok L. exact (infeasible_by_cv L). Qed.
Print Assumptions C04_infeasible_by_cv.

(* ---- binary64 (finite values; Flocq) ---- *)
From PV Require Import Base.NumF Base.NumFOrd.
Definition C04_pdomb_is_pareto_float := C04_pdomb_is_pareto Fn fin Fn_ord.
Definition C04_infeasible_by_cv_float := C04_infeasible_by_cv Fn fin Fn_ord.
Print Assumptions C04_pdomb_is_pareto_float.

(* ... and on all binary64 values but NaN (infinite objective values included) *)
Definition C04_pdomb_is_pareto_float_nn := C04_pdomb_is_pareto Fn nonnanf Fn_ord_nn.
Definition C04_infeasible_by_cv_float_nn := C04_infeasible_by_cv Fn nonnanf Fn_ord_nn.
Print Assumptions C04_pdomb_is_pareto_float_nn.
