(* C05  GDE3 applies the one-to-one rule before truncation.  Statements only.
   cdom a b (constraint domination): cv a < cv b, or the violations are equal and a Pareto-dominates b. *)
From Coq Require Import List Bool Arith ZArith.
From PV Require Import Base.Num Base.Res Base.ListX Model.Dominance Model.RankCrowd Model.Algo
  Proofs.DominanceP Proofs.RankCrowdP Proofs.AlgoP.
Import ListNotations.

(* pymoo's get_relation (violation first, then the objective loop with early exit) decides constraint domination *)
Theorem C05_get_relation_is_cdom :
  forall (N : num) (ok : N -> Prop), ord_laws N ok ->
  forall fa fb cva cvb, length fa = length fb -> Forall ok fa -> Forall ok fb -> ok cva -> ok cvb ->
    (get_relation fa fb cva cvb = 1%Z <-> cdom fa fb cva cvb) /\
    (get_relation fa fb cva cvb = (-1)%Z <-> cdom fb fa cvb cva).
Proof. intros N ok L. exact (get_relation_spec L). Qed.
Print Assumptions C05_get_relation_is_cdom.

(* slot k: parent only / offspring only / both, exactly according to constraint domination (ties -> both) *)
Theorem C05_slot_rule :
  forall (N : num) (ok : N -> Prop), ord_laws N ok ->
  forall n k (p o : mind N), okind (ok := ok) p -> okind (ok := ok) o -> length (m_f p) = length (m_f o) ->
    (cdom_ind p o -> gde3_slot n k p o = [k]) /\
    (cdom_ind o p -> gde3_slot n k p o = [n + k]) /\
    (~ cdom_ind p o -> ~ cdom_ind o p -> gde3_slot n k p o = [k; n + k]).
Proof. intros N ok L. exact (gde3_slot_spec L). Qed.
Print Assumptions C05_slot_rule.

(* the next population consists of candidates only (so a dominated offspring never enters and a dominated
   parent never stays), nobody twice, and it is cut back to pop_size; for both survivals, every crowding
   metric and every oracle stream *)
Theorem C05_generation :
  forall (N : num) sk constr (pop off : list (mind N)) s surv attrs s',
    gde3_step sk constr pop off (length pop) s = Ok ((surv, attrs), s') ->
    pop <> [] -> length off = length pop ->
    incl surv (gde3_candidates pop off) /\ NoDup surv /\ length surv = length pop.
Proof. exact @gde3_step_spec. Qed.
Print Assumptions C05_generation.

Theorem C05_candidates_distinct :
  forall (N : num) n (pop off : list (mind N)) k, k + length pop <= n -> NoDup (gde3_cands_aux n k pop off).
Proof. exact @gde3_cands_nodup. Qed.
Print Assumptions C05_candidates_distinct.

(* non-vacuity: three slots: offspring dominated, parent dominated, tie *)
From Coq Require Import QArith.
From PV Require Import Base.NumQ.
Example C05_nonvacuous :
  gde3_candidates (N := Qn)
    [@Build_mind Qn 0 [1; 1]%Q 0%Q true []; @Build_mind Qn 1 [2; 2]%Q 0%Q true []; @Build_mind Qn 2 [1; 2]%Q 1%Q false []]
    [@Build_mind Qn 3 [2; 1]%Q 0%Q true []; @Build_mind Qn 4 [1; 2]%Q 0%Q true []; @Build_mind Qn 5 [1; 2]%Q 1%Q false []]
  = [0; 4; 2; 5]%nat.
Proof. vm_compute. reflexivity. Qed.

(* ---- binary64 (finite values; Flocq) ---- *)
From PV Require Import Base.NumF Base.NumFOrd.
Definition C05_get_relation_is_cdom_float := C05_get_relation_is_cdom Fn fin Fn_ord.
Definition C05_slot_rule_float := C05_slot_rule Fn fin Fn_ord.
Print Assumptions C05_slot_rule_float.

(* ... and on all binary64 values but NaN (infinite objective values included) *)
Definition C05_get_relation_is_cdom_float_nn := C05_get_relation_is_cdom Fn nonnanf Fn_ord_nn.
Definition C05_slot_rule_float_nn := C05_slot_rule Fn nonnanf Fn_ord_nn.
Print Assumptions C05_slot_rule_float_nn.
