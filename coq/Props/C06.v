(* C06  Multi-objective runs are elitist in every generation.  Statements only.
   One generation of NSDE / EvolutionaryAlgorithm is [mu_plus_lambda]: the survival applied to pop ++ off;
   one generation of GDE3 is [gde3_step] (C05).  The survival's guarantees are those of C03 / C04 / C16; they hold
   for every generation because each generation is a fresh application to arbitrary populations. *)
From Coq Require Import List Bool Arith.
From PV Require Import Base.Num Base.Res Base.ListX Model.Dominance Model.RankCrowd Model.Algo
  Proofs.RankCrowdP Proofs.AlgoP.
Import ListNotations.

(* the new population consists of members of the current population and of its offspring, nobody twice,
   exactly min(quota, candidates) of them *)
Theorem C06_members_of_pop_or_offspring :
  forall (N : num) constr (pop off : list (mind N)) n s surv attrs s',
    mu_plus_lambda SRnC constr pop off n s = Ok ((surv, attrs), s') -> pop ++ off <> [] -> 1 <= n ->
    length surv = Nat.min n (length (pop ++ off)) /\ NoDup surv /\ Forall (fun i => i < length (pop ++ off)) surv.
Proof.
  intros N constr pop off n s surv attrs s' H Hne Hn.
  exact (proj2 (rnc_survival_spec constr (pop ++ off) n s surv attrs s' H Hne Hn)).
Qed.
Print Assumptions C06_members_of_pop_or_offspring.

(* and they are selected as C04 says: structure of the survivor set over the merged candidates *)
Theorem C06_rank_respecting :
  forall (N : num) constr (pop off : list (mind N)) n s surv attrs s',
    mu_plus_lambda SRnC constr pop off n s = Ok ((surv, attrs), s') -> pop ++ off <> [] -> 1 <= n ->
    rnc_wrapped constr (pop ++ off) (Nat.min n (length (pop ++ off))) surv.
Proof.
  intros N constr pop off n s surv attrs s' H Hne Hn.
  exact (proj1 (rnc_survival_spec constr (pop ++ off) n s surv attrs s' H Hne Hn)).
Qed.
Print Assumptions C06_rank_respecting.

(* no feasible survivor is dominated by a discarded feasible candidate; F = objectives of the feasible candidates *)
Theorem C06_no_dominated_survivor :
  forall (N : num) (F : list (list N)) n fronts surv s d,
    rnc_result F n fronts surv -> In s surv -> d < length F ->
    pdomb (nth d F []) (nth s F []) = true -> In d surv.
Proof. exact @no_discarded_dominates. Qed.
Print Assumptions C06_no_dominated_survivor.

(* no infeasible candidate survives while a feasible one is discarded *)
Theorem C06_feasible_first :
  forall (N : num) (cands : list (mind N)) ns surv i j,
    rnc_wrapped true cands ns surv -> In i surv -> pop_infeas cands i = true ->
    j < length cands -> pop_feas cands j = true -> In j surv.
Proof. exact @feasible_first. Qed.
Print Assumptions C06_feasible_first.

(* whenever the feasible non-dominated candidates (first front) fit, all of them survive *)
Theorem C06_first_front_survives_if_it_fits :
  forall (N : num) (F : list (list N)) n fronts surv f0 rest d,
    rnc_result F n fronts surv -> length surv = n -> fronts = f0 :: rest -> In d f0 -> length f0 <= n -> In d surv.
Proof.
  intros N F n fronts surv f0 rest d Hr Hl Hf Hd Hle.
  destruct (in_dec Nat.eq_dec d surv) as [Hin|Hnin]; [assumption|].
  destruct (front0_dropped_only_if_too_big F n fronts surv f0 rest d Hr Hl Hf Hd Hnin) as [_ Hlt]. exfalso. apply (Nat.lt_irrefl n). eapply Nat.lt_le_trans; eauto.
Qed.
Print Assumptions C06_first_front_survives_if_it_fits.

(* GDE3: the same, over the candidates that passed the one-to-one comparison *)
Theorem C06_gde3 :
  forall (N : num) sk constr (pop off : list (mind N)) s surv attrs s',
    gde3_step sk constr pop off (length pop) s = Ok ((surv, attrs), s') ->
    pop <> [] -> length off = length pop ->
    incl surv (gde3_candidates pop off) /\ NoDup surv /\ length surv = length pop.
Proof. exact @gde3_step_spec. Qed.
Print Assumptions C06_gde3.
