(* C07  Every generation keeps the books: sizes, budget, provenance.  Statements only.
   In the model an individual is an immutable value created by evaluation, so "nothing alters an individual
   after it has been evaluated" holds by construction; on CPython objects it is an observation (snapshots and
   re-evaluation in the harness).  The theorems below are the size / identity part. *)
From Coq Require Import List Bool Arith.
From PV Require Import Base.Num Base.Res Base.ListX Model.Replace Model.Dominance Model.RankCrowd Model.Algo Model.Variant
  Proofs.ReplaceP Proofs.RankCrowdP Proofs.AlgoP Proofs.VariantP.
Import ListNotations.

(* exactly pop_size offspring are proposed: the mating pipeline of every DE variant returns one trial vector per
   population member, for every configuration and every draw stream *)
Theorem C07_offspring_count :
  forall (N : num) (c : vcfg (N := N)) popX ranks xl xu s U s',
    variant_do c popX ranks (Some (xl, xu)) s = Ok (U, s') -> 0 < length (hd [] popX) -> length U = length popX.
Proof. exact @variant_do_length. Qed.
Print Assumptions C07_offspring_count.

(* DE: pop_size members after every generation, nobody twice *)
Theorem C07_DE_size :
  forall (N : num) constr (pop off : list (sind N)), length off = length pop -> length (de_step constr pop off) = length pop.
Proof. intros N. exact (@de_step_length N). Qed.
Print Assumptions C07_DE_size.

Theorem C07_DE_nodup :
  forall (N : num) (ok : N -> Prop), ord_laws N ok -> ok (zero N) ->
  forall constr (pop off : list (sind N)),
    length off = length pop -> good_pop (ok := ok) constr pop -> good_pop (ok := ok) constr off ->
    NoDup (map (@s_id N) (pop ++ off)) -> NoDup (map (@s_id N) (de_step constr pop off)).
Proof. intros N ok L ok0. exact (de_step_nodup L ok0). Qed.
Print Assumptions C07_DE_nodup.

(* NSDE / EvolutionaryAlgorithm (mu + lambda): with pop_size parents and pop_size offspring the next
   population has exactly pop_size distinct members of the merged candidates *)
Theorem C07_mu_plus_lambda_size :
  forall (N : num) constr (pop off : list (mind N)) s surv attrs s',
    mu_plus_lambda SRnC constr pop off (length pop) s = Ok ((surv, attrs), s') -> pop <> [] ->
    length surv = length pop /\ NoDup surv /\ Forall (fun i => i < length (pop ++ off)) surv.
Proof.
  intros N constr pop off s surv attrs s' H Hne.
  assert (Hne2 : pop ++ off <> []) by (destruct pop; [congruence|discriminate]).
  assert (Hn : 1 <= length pop) by (destruct pop; [congruence|cbn; apply le_n_S, Nat.le_0_l]).
  destruct (proj2 (rnc_survival_spec constr (pop ++ off) (length pop) s surv attrs s' H Hne2 Hn)) as (H1 & H2 & H3).
  split; [|split; assumption]. rewrite H1, app_length. apply Nat.min_l. apply Nat.le_add_r.
Qed.
Print Assumptions C07_mu_plus_lambda_size.

(* GDE3 *)
Theorem C07_gde3_size :
  forall (N : num) sk constr (pop off : list (mind N)) s surv attrs s',
    gde3_step sk constr pop off (length pop) s = Ok ((surv, attrs), s') ->
    pop <> [] -> length off = length pop ->
    incl surv (gde3_candidates pop off) /\ NoDup surv /\ length surv = length pop.
Proof. exact @gde3_step_spec. Qed.
Print Assumptions C07_gde3_size.

(* budget: if every generation evaluates exactly its pop_size offspring, n_eval after g generations
   (generation 0 = the initial sample) is pop_size * (g + 1) *)
Theorem C07_budget :
  forall pop_size gens, fold_left (fun acc (_ : unit) => acc + pop_size) (repeat tt gens) pop_size = pop_size * (gens + 1).
Proof. exact budget_sum. Qed.
Print Assumptions C07_budget.

(* ---- binary64, all values but NaN (Base/NumFOrd.v, Flocq) ---- *)
From PV Require Import Base.NumF Base.NumFOrd.
Lemma C07_nonnanf_zero : nonnanf (Num.zero Fn).
Proof. reflexivity. Qed.
Definition C07_DE_nodup_float_nn := C07_DE_nodup Fn nonnanf Fn_ord_nn C07_nonnanf_zero.
Print Assumptions C07_DE_nodup_float_nn.
