(* C08  The reported optimum is feasible, non-dominated and complete.  Statements only. *)
From Coq Require Import List Bool Arith.
From PV Require Import Base.Num Base.Res Base.ListX Model.Dominance Model.RankCrowd Model.Algo
  Proofs.RankCrowdP Proofs.AlgoP.
Import ListNotations.

(* no member feasible: exactly one member is reported *)
Theorem C08_nothing_feasible :
  forall (N : num) (pop : list (mind N)) ranks, pop <> [] -> existsb (@m_feas N) pop = false ->
    exists i, set_optimum pop ranks = [i] /\ i < length pop.
Proof. exact @set_optimum_infeasible. Qed.
Print Assumptions C08_nothing_feasible.

(* some member feasible: the reported members are exactly those whose rank attribute is 0 *)
Theorem C08_rank_zero :
  forall (N : num) (pop : list (mind N)) ranks i, existsb (@m_feas N) pop = true ->
    (In i (set_optimum pop ranks) <-> i < length pop /\ nth i ranks None = Some 0).
Proof. exact @set_optimum_feasible. Qed.
Print Assumptions C08_rank_zero.

(* rank 0 is only ever written on members of the first front of the feasible candidates, which no candidate
   dominates: nobody dominates a member of the first validated front *)
Theorem C08_first_front_non_dominated :
  forall (N : num) (F : list (list N)) f0 rest i d,
    fronts_ok F (length F) [] (f0 :: rest) = true -> In i f0 -> d < length F ->
    pdomb (nth d F []) (nth i F []) = true -> False.
Proof.
  intros N F f0 rest i d H Hi Hd Hdom.
  exact (dominator_earlier F [] f0 rest i d H Hi Hd Hdom).
Qed.
Print Assumptions C08_first_front_non_dominated.

(* the survivors of the first front keep all of it when it fits (completeness of the reported set) *)
Theorem C08_first_front_complete :
  forall (N : num) (F : list (list N)) n fronts surv f0 rest d,
    rnc_result F n fronts surv -> length surv = n -> fronts = f0 :: rest -> In d f0 -> ~ In d surv ->
    rest = [] /\ n < length f0.
Proof. exact @front0_dropped_only_if_too_big. Qed.
Print Assumptions C08_first_front_complete.

(* exactly the feasible non-dominated members: among the survivors of a truncation, the members of the first front (the ones
   that receive rank 0, C08_rank_attribute) are exactly those that no survivor dominates (finite descent: every dominated
   individual is dominated by a member of the first front, and the first front survives entirely unless it is the only one) *)
Theorem C08_rank0_members_are_the_nondominated_ones :
  forall (N : num) (ok : N -> Prop), ord_laws N ok ->
  forall (F : list (list N)) m n fronts surv f0 rest s,
    well_formed_objs (ok := ok) F m -> rnc_result F n fronts surv -> fronts = f0 :: rest -> In s surv -> s < length F ->
    (In s f0 <-> forall d, In d surv -> pdomb (nth d F []) (nth s F []) = false).
Proof. intros N ok L. exact (rank0_iff_nondominated L). Qed.
Print Assumptions C08_rank0_members_are_the_nondominated_ones.

(* the rank attributes written by a truncation are the front indices: (member of the k-th front, k) *)
Theorem C08_rank_attribute :
  forall (N : num) (F : list (list N)) n s surv attrs s',
    rnc_do F n s = Ok ((surv, attrs), s') ->
    exists fronts, is_ndsb F n fronts = true /\ map (fun a : nat * nat * N => fst a) attrs = rank_pairs 0 fronts.
Proof. exact @rnc_do_attrs. Qed.
Print Assumptions C08_rank_attribute.

(* ---- binary64, all values but NaN (Base/NumFOrd.v, Flocq) ---- *)
From PV Require Import Base.NumF Base.NumFOrd.
Definition C08_rank0_members_are_the_nondominated_ones_float_nn := C08_rank0_members_are_the_nondominated_ones Fn nonnanf Fn_ord_nn.
Print Assumptions C08_rank0_members_are_the_nondominated_ones_float_nn.
