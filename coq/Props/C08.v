(* C08  The reported optimum is feasible, non-dominated and complete.  Statements only. *)
From Coq Require Import List Bool Arith.
From PV Require Import Base.Num Base.Res Base.ListX Model.Dominance Model.RankCrowd Model.Algo
  Proofs.RankCrowdP Proofs.AlgoP.
Import ListNotations.

(* no member feasible: exactly one member is reported *)
Theorem C08_nothing_feasible :
  forall (N : num) (pop : list (mind N)) ranks, pop <> [] -> existsb (@m_feas N) pop = false ->
    exists i, set_optimum pop ranks = [i] /\ i < length pop.
Proof. exact @set_optimum_infeasible. Qed.
Print Assumptions C08_nothing_feasible.

(* some member feasible: the reported members are exactly those whose rank attribute is 0 *)
Theorem C08_rank_zero :
  forall (N : num) (pop : list (mind N)) ranks i, existsb (@m_feas N) pop = true ->
    (In i (set_optimum pop ranks) <-> i < length pop /\ nth i ranks None = Some 0).
Proof. exact @set_optimum_feasible. Qed.
Print Assumptions C08_rank_zero.

(* rank 0 is only ever written on members of the first front of the feasible candidates, which no candidate
   dominates: nobody dominates a member of the first validated front *)
Theorem C08_first_front_non_dominated :
  forall (N : num) (F : list (list N)) f0 rest i d,
    fronts_ok F (length F) [] (f0 :: rest) = true -> In i f0 -> d < length F ->
    pdomb (nth d F []) (nth i F []) = true -> False.
Proof.
  intros N F f0 rest i d H Hi Hd Hdom.
  exact (dominator_earlier F [] f0 rest i d H Hi Hd Hdom).
Qed.
Print Assumptions C08_first_front_non_dominated.

(* the survivors of the first front keep all of it when it fits (completeness of the reported set) *)
Theorem C08_first_front_complete :
  forall (N : num) (F : list (list N)) n fronts surv f0 rest d,
    rnc_result F n fronts surv -> length surv = n -> fronts = f0 :: rest -> In d f0 -> ~ In d surv ->
    rest = [] /\ n < length f0.
Proof. exact @front0_dropped_only_if_too_big. Qed.
Print Assumptions C08_first_front_complete.
