(* C09  Parent selection yields valid, distinct parents in documented roles.  Statements only.
   A selection run consumes np.random.choice events; every theorem is of the form
   "if the run returns an index matrix P then ...": termination of the rejection loops is not claimed.
   [good n_pop j fixed t row] : row = fixed ++ rnd, rnd has j mutually distinct entries, each < n_pop,
   different from the target t and from every fixed entry. *)
From Coq Require Import List Bool Arith Permutation.
From PV Require Import Base.Res Base.ListX Model.Select Proofs.SelectP.
Import ListNotations.

Theorem C09_rand : forall (T : Type) n_pop n_sel n_par ranks s P s',
  select (T := T) SRand n_pop n_sel n_par ranks s = Ok (P, s') ->
  Forall2 (fun t row => good n_pop n_par [] t row) (seq 0 n_sel) P.
Proof. exact @select_rand_spec. Qed.
Print Assumptions C09_rand.

(* base column is the top-ranked individual 0, drawn parents avoid it *)
Theorem C09_best : forall (T : Type) n_pop n_sel n_par ranks s P s',
  select (T := T) SBest n_pop n_sel n_par ranks s = Ok (P, s') ->
  Forall2 (fun t row => good n_pop (n_par - 1) [0] t row) (seq 0 n_sel) P.
Proof. exact @select_best_spec. Qed.
Print Assumptions C09_best.

(* row = [current; best; current] ++ random pairs *)
Theorem C09_current_to_best : forall (T : Type) n_pop n_sel n_par ranks s P s',
  select (T := T) SCurToBest n_pop n_sel n_par ranks s = Ok (P, s') ->
  n_sel = n_pop /\ 3 <= n_par /\
  Forall2 (fun t row => good n_pop (n_par - 3) [t; 0; t] t row) (seq 0 n_sel) P.
Proof. exact @select_ctb_spec. Qed.
Print Assumptions C09_current_to_best.

(* row = [current; r1; current] ++ rnd with r1 :: rnd distinct and different from the target *)
Theorem C09_current_to_rand : forall (T : Type) n_pop n_sel n_par ranks s P s',
  select (T := T) SCurToRand n_pop n_sel n_par ranks s = Ok (P, s') ->
  n_sel = n_pop /\ 3 <= n_par /\ Forall2 (ctr_row n_pop n_par) (seq 0 n_sel) P.
Proof. exact @select_ctr_spec. Qed.
Print Assumptions C09_current_to_rand.

(* row = r1 :: best :: rnd *)
Theorem C09_rand_to_best : forall (T : Type) n_pop n_sel n_par ranks s P s', 2 <= n_par ->
  select (T := T) SRandToBest n_pop n_sel n_par ranks s = Ok (P, s') ->
  Forall2 (rtb_row n_pop n_par) (seq 0 n_sel) P.
Proof. exact @select_rtb_spec. Qed.
Print Assumptions C09_rand_to_best.

(* ranked: the row is a permutation of a row drawn as in 'rand' (so all parents are distinct and differ
   from the target); its base has the least rank of all; in every pair (P[2j-1], P[2j]) the first has
   rank <= the second, so no difference vector is built from one individual twice *)
Theorem C09_ranked : forall (T : Type) n_pop n_sel n_par ranks s P s',
  select (T := T) SRanked n_pop n_sel n_par ranks s = Ok (P, s') ->
  Forall2 (fun t row => exists row0, good n_pop n_par [] t row0 /\ Permutation row row0 /\
                                    ranked_row (fun i => nth i (ranks_from ranks) 0) row)
          (seq 0 n_sel) P.
Proof. exact @select_ranked_spec. Qed.
Print Assumptions C09_ranked.

(* non-vacuity: DE/ranked/1 on 5 individuals; first draws collide with targets and earlier columns *)
Example C09_nonvacuous :
  select (T := nat) SRanked 5 5 3 [Some 3; Some 1; Some 4; Some 0; Some 2]
    [EChoice 5 5 [0; 2; 3; 4; 0]; EChoice 5 1 [1]; EChoice 5 5 [1; 2; 3; 4; 0]; EChoice 5 5 [0; 4; 1; 3; 0];
     EChoice 5 3 [1; 0; 4]; EChoice 5 2 [3; 0]; EChoice 5 1 [0]; EChoice 5 1 [4]; EChoice 5 1 [1];
     EChoice 5 5 [0; 3; 4; 3; 1]; EChoice 5 3 [4; 2; 1]; EChoice 5 1 [1]; EChoice 5 1 [2]]
  = Ok ([[3; 1; 4]; [3; 4; 2]; [3; 1; 4]; [4; 0; 2]; [1; 0; 2]], []).
Proof. vm_compute. reflexivity. Qed.
