(* C10  Mutants follow the DE formula with scale factors in range.  Statements only. *)
From Coq Require Import List Bool Arith QArith.
From PV Require Import Base.Num Base.NumQ Base.Res Base.ListX Model.Mutate Proofs.MutateP.
Import ListNotations.

(* For every parent tensor X0 :: rest (rest = the difference parents, an even number of matrices),
   every F configuration (scalar / dithered), jitter setting and draw stream with values in [0,1):
   if the mutation returns (V, diffs) then there are factor vectors F_k (one value per mutant and
   difference pair) and jitter matrices J_k such that
        diffs = ((0 + d_1) + d_2) + ...   with  d_k[i][j] = Feff_k[i][j] * (X_{2k-1}[i][j] - X_{2k}[i][j])
        V     = X0 + diffs
   where Feff = F_k[i] * (1 + gamma * (u - 1/2)) (jitter) or F_k[i] (no jitter); a dithered F_k[i]
   lies in [lo, hi], a scalar one is the given value, and every jitter draw u lies in [0,1). *)
Theorem C10_mutant_formula :
  forall (fc : fcfg (N := Qn)) gamma X0 rest s V d s',
    all_unit s ->
    de_mutation (N := Qn) fc gamma (X0 :: rest) s = Ok ((V, d), s') ->
    let n := length X0 in let v := length (hd [] X0) in
    exists FJ, length FJ = Nat.div2 (length rest) /\ length rest = (2 * length FJ)%nat /\
               Forall (fun fj => length (fst fj) = n) FJ /\ factors_in_range fc FJ /\
               d = sum_diffs gamma rest FJ (zeros n v) /\ V = madd X0 d.
Proof. exact mutant_formula. Qed.
Print Assumptions C10_mutant_formula.

(* jitter perturbs the factor relatively by at most gamma/2 in either direction, and is centred on 1 *)
Theorem C10_jitter_range :
  forall g f u : Q, (0 <= g)%Q -> unitq u ->
    exists c, (eff (N := Qn) g f u == f * c /\ 1 - g * (1 # 2) <= c /\ c < 1 + g * (1 # 2))%Q
              \/ (g == 0 /\ eff (N := Qn) g f u == f)%Q.
Proof. exact eff_range. Qed.
Print Assumptions C10_jitter_range.

Theorem C10_jitter_centred :
  forall g f e : Q, (eff (N := Qn) g f ((1 # 2) + e) == f * (1 + g * e))%Q.
Proof. exact eff_centred. Qed.
Print Assumptions C10_jitter_centred.

(* a dithered factor is an affine image of its draw inside [lo, hi] *)
Theorem C10_dither_range :
  forall lo hi u : Q, (lo <= hi)%Q -> unitq u -> (lo <= scale_of (N := Qn) lo hi u <= hi)%Q.
Proof. exact scale_in_range. Qed.
Print Assumptions C10_dither_range.

(* scalar F, no jitter: nothing is drawn and the formula is exact with the given F *)
Theorem C10_exact_when_scalar :
  forall (f : Q) X0 rest s V d s',
    de_mutation (N := Qn) (FScalar (N := Qn) f) None (X0 :: rest) s = Ok ((V, d), s') ->
    let n := length X0 in let v := length (hd [] X0) in
    s' = s /\ V = madd X0 (sum_diffs None rest (repeat (repeat (f : Qn) n, None) (Nat.div2 (length rest))) (zeros n v)).
Proof. exact exact_when_scalar. Qed.
Print Assumptions C10_exact_when_scalar.

(* non-vacuity: DE/rand/1 with dither (0.5, 1.0) and jitter 1/2 on two mutants of two variables *)
Example C10_nonvacuous :
  exists V d, de_mutation (N := Qn) (FDither (N := Qn) (1 # 2) 1) (Some (1 # 2)%Q)
      [[[0; 0]; [1; 1]]; [[2; 4]; [3; 5]]; [[1; 1]; [1; 2]]]%Q
      [ERand [2]%nat [0; 1 # 2]%Q; ERand [2; 2]%nat [1 # 2; 1 # 2; 0; 3 # 4]%Q] = Ok ((V, d), [])
    /\ nth 0 (nth 0 V []) 0%Q == (1 # 2)%Q.
Proof. eexists. eexists. split. vm_compute. reflexivity. vm_compute. reflexivity. Qed.
