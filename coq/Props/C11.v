(* C11  Repair touches only violating coordinates, as each strategy says.
   This file contains statements only; proofs are in Proofs/RepairP.v. *)
From Coq Require Import List QArith.
From PV Require Import Base.Num Base.NumQ Base.Res Model.Repair Proofs.RepairP.
Import ListNotations.
Open Scope Q_scope.

(* For every mutant matrix xs (flattened), base matrix bs, tiled bounds ls hs, every
   strategy and every draw stream with values in [0,1): if the repair returns zs then,
   coordinate by coordinate (b inside [l,h]):
     - a coordinate inside its bounds is returned unchanged (Leibniz-equal);
     - a violating coordinate is placed between the violated bound and the base (bounce-back),
       exactly midway, exactly on the bound (to-bounds), anywhere in the range (rand-init);
     - the result is inside the box. *)
Theorem C11_repair_spec :
  forall (s : strat) (xs bs ls hs : list Q) (evs : list (event Qn)) zs evs',
    unit_events evs ->
    repair (N := Qn) s xs bs ls hs evs = Ok (zs, evs') ->
    all5 (repaired s) xs bs ls hs zs.
Proof. exact repair_spec. Qed.
Print Assumptions C11_repair_spec.

(* shape: one output coordinate per input coordinate *)
Theorem C11_repair_length :
  forall (s : strat) (xs bs ls hs : list Q) evs zs evs',
    unit_events evs ->
    repair (N := Qn) s xs bs ls hs evs = Ok (zs, evs') -> length zs = length xs.
Proof. exact repair_length. Qed.
Print Assumptions C11_repair_length.

(* the premise "base inside the box" is necessary *)
Theorem C11_needs_base_in_box_refuted :
  exists x b l h u z, unit_q u /\ pass_step (N := Qn) true BounceBack [u] x b l h z /\ ~ (l <= z <= h).
Proof. exact repair_needs_base_in_box_refuted. Qed.
Print Assumptions C11_needs_base_in_box_refuted.

(* non-vacuity: a concrete run with a lower violation, an upper violation and an untouched coordinate *)
Example C11_nonvacuous :
  repair (N := Qn) BounceBack [-1; 1 # 2; 3] [1 # 4; 1 # 4; 1 # 4] [0; 0; 0] [1; 1; 1]
         [ERand [1%nat] [1 # 2]; ERand [1%nat] [1 # 4]]
  = Ok ([0 + (1 # 2) * ((1 # 4) - 0); 1 # 2; 1 - (1 # 4) * (1 - (1 # 4))], []).
Proof. vm_compute. reflexivity. Qed.
