(* C12  Trial vectors inherit every coordinate from target or mutant.  Statements only. *)
From Coq Require Import List Bool Arith QArith.
From PV Require Import Base.Num Base.NumQ Base.Res Base.ListX Model.Cross Proofs.CrossP.
Import ListNotations.
Local Open Scope nat_scope.

(* For every number type, crossover kind, CR, population X (targets) and V (mutants) of the same
   rectangular shape with n_var >= 1, and every draw stream: if DEX returns U then every row u of U
   is, coordinate by coordinate, the target's or the mutant's coordinate, and some coordinate j holds
   the mutant's value v_j (taken through a mask bit that is true). *)
Theorem C12_coordwise_and_at_least_one :
  forall (N : num) (c : cx) (cr : N) (X V : list (list N)) s U s',
    let v := length (hd [] X) in
    0 < v -> length V = length X ->
    Forall (fun x => length x = v) X -> Forall (fun x => length x = v) V ->
    dex c cr true X V s = Ok (U, s') ->
    Forall2 (fun xv u => row_from (fst xv) (snd xv) u) (combine X V) U.
Proof. exact @dex_spec. Qed.
Print Assumptions C12_coordwise_and_at_least_one.

(* every mask row has n_var entries and at least one true entry *)
Theorem C12_mask_rows :
  forall (N : num) (c : cx) n v (cr : N) s rows s', 0 < v ->
    cross_mask c n v cr true s = Ok (rows, s') -> length rows = n /\ Forall (mask_ok v) rows.
Proof. exact @cross_mask_ok. Qed.
Print Assumptions C12_mask_rows.

(* CR = 1, draws in [0,1): the trial equals the mutant *)
Theorem C12_cr_one :
  forall (c : cx) (X V : list (list Q)) s U s',
    let v := length (hd [] X) in
    0 < v -> length V = length X ->
    Forall (fun x => length x = v) X -> Forall (fun x => length x = v) V ->
    unit_draws s -> dex (N := Qn) c 1%Q true X V s = Ok (U, s') -> U = V.
Proof. exact dex_cr_one_q. Qed.
Print Assumptions C12_cr_one.

(* CR = 0, draws in [0,1): exactly one coordinate per row is taken from the mutant *)
Theorem C12_cr_zero :
  forall (c : cx) n v s rows s', 0 < v -> unit_draws s ->
    cross_mask (N := Qn) c n v 0%Q true s = Ok (rows, s') ->
    length rows = n /\ Forall (fun r => length r = v /\ count_true r = 1) rows.
Proof. exact cr_zero_mask_q. Qed.
Print Assumptions C12_cr_zero.

(* exponential crossover: the row mask is the circular block start, start+1, ... of length L, where
   L is the number of leading scalar draws below CR (at most n_var); exactly those draws are consumed *)
Theorem C12_exp_block :
  forall (N : num) (cr : N) v start fuel j mask s mask' s',
    exp_row cr v start j fuel mask s = Ok (mask', s') ->
    0 < v -> length mask = v ->
    exists us,
      Forall (fun u => ltb N u cr = true) us /\ length us <= fuel /\
      ((length us = fuel /\ s = map sc us ++ s') \/
       (length us < fuel /\ exists u, ltb N u cr = false /\ s = map sc us ++ sc u :: s')) /\
      length mask' = v /\
      forall p, p < v -> nth p mask' false = nth p mask false || in_block v start j (j + length us) p.
Proof. intros N cr v start fuel j. exact (exp_row_spec cr v start fuel j). Qed.
Print Assumptions C12_exp_block.

(* non-vacuity: a 2 x 3 binomial crossover with one forced coordinate, and an exponential one that wraps around *)
Example C12_nonvacuous_bin :
  dex (N := Qn) Bin (1 # 2) true [[1; 2; 3]; [4; 5; 6]]%Q [[10; 20; 30]; [40; 50; 60]]%Q
      [ERand [2; 3]%nat [1 # 4; 3 # 4; 3 # 4; 3 # 4; 3 # 4; 3 # 4]%Q; ERandint 0 3 None [2]]
  = Ok ([[10; 2; 3]; [4; 5; 60]]%Q, []).
Proof. vm_compute. reflexivity. Qed.
Example C12_nonvacuous_exp :
  dex (N := Qn) Exp (1 # 2) true [[1; 2; 3]]%Q [[10; 20; 30]]%Q
      [ERandint 0 3 (Some 1) [2]; ERand [] [1 # 4]%Q; ERand [] [1 # 4]%Q; ERand [] [3 # 4]%Q]
  = Ok ([[10; 2; 30]]%Q, []).
Proof. vm_compute. reflexivity. Qed.
