From PV Require Import Model.Crowding.
Theorem placeholder : True. Proof. exact I. Qed.
Print Assumptions placeholder.
