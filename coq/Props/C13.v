(* C13  Crowding metrics are safe, well-formed and match their definitions.  Statements only.
   Positive statements are about the wrappers of metrics.py (any number type).  The statements that are FALSE on the
   pinned tree are proved as refutations on the binary64 instance of the kernel models, with concrete witnesses
   (these are the known findings recorded in known_findings.json); the same witnesses are replayed on the real
   kernels by the harness.  Equality of cd / ce / the pruning metrics with their published definitions is NOT
   proved here: it is decided by correspondence (bit-exact model) plus an independent reference implementation. *)
From Coq Require Import List Bool Arith ZArith PrimFloat.
From PV Require Import Base.Num Base.NumF Base.Res Base.ListX Base.Cmp Model.Crowding Model.Fallback Model.Kernels Proofs.CrowdingP.
Import ListNotations.

(* one value per point of the caller's front, for every metric and every inner function *)
Theorem C13_one_value_per_point :
  forall (X : xnum) eps fdups mnn f (F : list (list X)) d,
    functional_diversity (X := X) eps fdups mnn f F = Some d -> length d = length F.
Proof. exact @functional_diversity_length. Qed.
Print Assumptions C13_one_value_per_point.

Theorem C13_cd_one_value_per_point :
  forall (X : xnum) (F : list (list X)), length (calc_crowding_distance (X := X) F) = length F.
Proof. exact @calc_crowding_distance_length. Qed.
Print Assumptions C13_cd_one_value_per_point.

(* fronts of at most two points: everybody is infinitely uncrowded *)
Theorem C13_short_fronts :
  forall (X : xnum) eps fdups mnn f (F : list (list X)), length F <= 2 ->
    functional_diversity (X := X) eps fdups mnn f F = Some (repeat (pinf X) (length F)).
Proof. exact @functional_diversity_short. Qed.
Print Assumptions C13_short_fronts.

(* ---- the crowding distance (the default metric), in exact arithmetic with IEEE rules for +inf, -inf and NaN (EQx):
   the SAME Gallina term calc_crowding_distance that is run bit-for-bit against NumPy on binary64 ---- *)
From Coq Require Import QArith.
From PV Require Import Base.NumEQ Proofs.CdP.

(* one value per point; every value is a non-negative rational or +inf: never NaN, never negative *)
Theorem C13_cd_wellformed :
  forall (F : list (list eq)) m, fin_matrix F m -> (0 < m)%nat -> length (hd [] F) = m ->
    length (calc_crowding_distance (X := EQx) F) = length F /\ Forall good (calc_crowding_distance (X := EQx) F).
Proof. exact cd_wellformed. Qed.
Print Assumptions C13_cd_wellformed.

(* for every non-constant objective j some holder i0 of its minimum and some holder i1 of its maximum get +inf *)
Theorem C13_cd_extremes_infinite :
  forall (F : list (list eq)) m j, fin_matrix F m -> (0 < m)%nat -> length (hd [] F) = m -> (j < m)%nat ->
    (exists a b, In a (col (X := EQx) F j) /\ In b (col (X := EQx) F j) /\ eltb a b = true) ->
    exists i0 i1, (i0 < length F)%nat /\ (i1 < length F)%nat /\
      (forall i, (i < length F)%nat -> fle (nth i0 (col (X := EQx) F j) ENaN) (nth i (col (X := EQx) F j) ENaN) /\
                                       fle (nth i (col (X := EQx) F j) ENaN) (nth i1 (col (X := EQx) F j) ENaN)) /\
      nth i0 (calc_crowding_distance (X := EQx) F) ENaN = PInf /\ nth i1 (calc_crowding_distance (X := EQx) F) ENaN = PInf.
Proof. exact cd_extremes_infinite. Qed.
Print Assumptions C13_cd_extremes_infinite.

(* non-vacuity: a 4-point front; the interior values are 1/2 and 3/4 *)
Example C13_cd_nonvacuous :
  calc_crowding_distance (X := EQx) [[Fin 0; Fin 4]; [Fin 1; Fin 3]; [Fin 2; Fin 2]; [Fin 4; Fin 0]]
  = [PInf; Fin (256 # 512); Fin (384 # 512); PInf].
Proof. vm_compute. reflexivity. Qed.

(* ---- known finding compiled/pcd/OOB : memory safety of the compiled pcd kernel is refuted ---- *)
Definition W_pcd : list (list float) := [[4; 0; 3]; [0; 3; 1]; [1; 1; 3]; [3; 1; 2]]%float.
Theorem C13_pcd_memsafe_refuted :
  exists (F : list (list float)) (k : Z), kernel_pcd (X := Fx) F k = Err (OOB 2).
Proof. exists W_pcd, 0%Z. vm_compute. reflexivity. Qed.
Print Assumptions C13_pcd_memsafe_refuted.

(* ---- known findings compiled/mnn/OOB-read and compiled/mnn/dup-neighbour ---- *)
Definition W_mnn : list (list float) :=
  [[1; 2; 5]; [6; 3; 0]; [5; 0; 1]; [0; 4; 6]; [4; 1; 4]; [3; 6; 2]; [2; 5; 3]]%float.
Definition W_mnn0 : list Z := [3; 4; 6; 2; 5; 4; 1; 4; 0; 0; 6; 4; 2; 0; 6; 6; 1; 3; 5; 3; 0]%Z.

(* the model reads D[0, -1] (flag), although the run goes on with correct control flow *)
Theorem C13_mnn_memsafe_refuted :
  exists d dup, kernel_mnn (X := Fx) false W_mnn 2%Z W_mnn0 = Ok (d, (dup, true)).
Proof. eexists. eexists. vm_compute. reflexivity. Qed.
Print Assumptions C13_mnn_memsafe_refuted.

(* on a front without coordinate ties the compiled mnn value of point 4 differs from the value obtained by greedy
   removal and re-computation from scratch (the pure-Python engine), because a neighbour is listed twice *)
Theorem C13_mnn_value_refuted :
  exists d, kernel_mnn (X := Fx) false W_mnn 2%Z W_mnn0 = Ok (d, (true, true)) /\
            fsame (nth 4 d nan) (nth 4 (fallback_mnn (X := Fx) false W_mnn 2%Z) nan) = false.
Proof. eexists. split; vm_compute; reflexivity. Qed.
Print Assumptions C13_mnn_value_refuted.

(* the same witness is handled identically by both engines when nothing has to be pruned *)
Example C13_engines_agree_without_pruning :
  match kernel_mnn (X := Fx) false W_mnn 0%Z W_mnn0 with
  | Ok (d, _) => flist_same d (fallback_mnn (X := Fx) false W_mnn 0%Z)
  | Err _ => false end = true.
Proof. vm_compute. reflexivity. Qed.

(* ---- the pruning metrics of the pure-Python engine (misc/mnn.py, misc/pruning_cd.py), exact arithmetic with IEEE rules
   for +inf, -inf and NaN: the SAME Gallina terms fallback_mnn / fallback_pcd that are run bit-for-bit against the
   implementation on binary64.  For every finite front, every number of removals (any integer): one value per point,
   every value a non-negative rational or +inf - never NaN (in particular never 0 * inf), never negative -, and for every
   objective (constant or not) the first holder of its minimum and the first holder of its maximum are at +inf. ---- *)
From PV Require Import Proofs.FallbackP.

Theorem C13_mnn_fallback_wellformed :
  forall twonn (F : list (list eq)) m (n_remove : Z), fin_matrix F m -> (2 <= m)%nat -> length (hd [] F) = m ->
    length (fallback_mnn (X := EQx) twonn F n_remove) = length F /\ Forall good (fallback_mnn (X := EQx) twonn F n_remove).
Proof. exact fallback_mnn_wellformed. Qed.
Print Assumptions C13_mnn_fallback_wellformed.

Theorem C13_mnn_fallback_extremes_infinite :
  forall twonn (F : list (list eq)) m (n_remove : Z) j, fin_matrix F m -> (2 <= m)%nat -> length (hd [] F) = m -> (j < m)%nat ->
    exists a b, holds_min (col (X := EQx) F j) a /\ holds_max (col (X := EQx) F j) b /\
                nth a (fallback_mnn (X := EQx) twonn F n_remove) ENaN = PInf /\
                nth b (fallback_mnn (X := EQx) twonn F n_remove) ENaN = PInf.
Proof. exact fallback_mnn_extremes. Qed.
Print Assumptions C13_mnn_fallback_extremes_infinite.

Theorem C13_pcd_fallback_wellformed :
  forall (F : list (list eq)) m (n_remove : Z), fin_matrix F m -> (1 <= m)%nat -> length (hd [] F) = m ->
    length (fallback_pcd (X := EQx) F n_remove) = length F /\ Forall good (fallback_pcd (X := EQx) F n_remove).
Proof. exact fallback_pcd_wellformed. Qed.
Print Assumptions C13_pcd_fallback_wellformed.

Theorem C13_pcd_fallback_extremes_infinite :
  forall (F : list (list eq)) m (n_remove : Z) j, fin_matrix F m -> (1 <= m)%nat -> length (hd [] F) = m -> (j < m)%nat ->
    exists a b, holds_min (col (X := EQx) F j) a /\ holds_max (col (X := EQx) F j) b /\
                nth a (fallback_pcd (X := EQx) F n_remove) ENaN = PInf /\
                nth b (fallback_pcd (X := EQx) F n_remove) ENaN = PInf.
Proof. exact fallback_pcd_extremes. Qed.
Print Assumptions C13_pcd_fallback_extremes_infinite.

(* non-vacuity: a 5-point front with pruning; a front with a constant objective (its NaN column contributes 0) *)
Definition shown (e : eq) : option Q := match e with Fin q => Some (Qred q) | PInf => None | _ => Some (-1 # 1)%Q end.
Definition W5 : list (list eq) := [[Fin 0; Fin 4]; [Fin 1; Fin 3]; [Fin 2; Fin 1]; [Fin 3; Fin (1 # 2)]; [Fin 4; Fin 0]].
Example C13_fallback_nonvacuous :
  map shown (fallback_mnn (X := EQx) false W5 2%Z) = [None; Some (5 # 128); Some (25 # 256); Some (25 # 4096); None]%Q /\
  map shown (fallback_mnn (X := EQx) true W5 1%Z) = [None; Some (5 # 128); Some (25 # 1024); Some (25 # 4096); None]%Q /\
  map shown (fallback_pcd (X := EQx) W5 2%Z) = [None; Some (5 # 8); Some (3 # 4); Some (3 # 8); None]%Q /\
  map shown (fallback_pcd (X := EQx) [[Fin 0; Fin 4; Fin 7]; [Fin 1; Fin 3; Fin 7]; [Fin 2; Fin 1; Fin 7]; [Fin 4; Fin 0; Fin 7]] 0%Z)
    = [None; Some (5 # 12); Some (1 # 2); None]%Q.
Proof. repeat split; vm_compute; reflexivity. Qed.

(* ---- the crowding entropy (one engine only).  log2 is an oracle table in the model; the theorem assumes of the table
   only what log2 satisfies where it is used: a non-positive finite value on (0, 1] and -inf at 0.  For every finite
   front on which the table answers every lookup: one value per point, each a non-negative rational or +inf, never NaN
   (0 * -inf of a point coinciding with a neighbour, 0/0 of duplicates and of a constant objective all end as 0). ---- *)
From PV Require Import Proofs.CeP.

Theorem C13_ce_wellformed :
  forall (feq : eq -> eq -> bool) (lg : list (eq * eq)),
    (forall arg y, lookup_log (X := EQx) feq lg arg = Some y ->
       (forall q, arg = Fin q -> (0 < q)%Q -> (q <= 1)%Q -> exists l, y = Fin l /\ (l <= 0)%Q) /\
       (forall q, arg = Fin q -> (q == 0)%Q -> y = NInf)) ->
    forall (F : list (list eq)) m d, fin_matrix F m -> (0 < m)%nat -> length (hd [] F) = m ->
      calc_crowding_entropy (X := EQx) feq lg F = Some d -> length d = length F /\ Forall good d.
Proof. exact ce_wellformed. Qed.
Print Assumptions C13_ce_wellformed.

(* non-vacuity: three equally spaced points, log2(1/2) = -1; the table satisfies the hypothesis and answers every lookup *)
Definition lg_half : list (eq * eq) := [(Fin (1 # 2), Fin (- (1)))]%Q.
Example C13_ce_nonvacuous :
  map shown (match calc_crowding_entropy (X := EQx) eeqb lg_half [[Fin 0; Fin 2]; [Fin 1; Fin 1]; [Fin 2; Fin 0]] with Some d => d | None => [] end)
  = [None; Some 2; None]%Q.
Proof. vm_compute. reflexivity. Qed.
Example C13_ce_table_ok :
  forall arg y, lookup_log (X := EQx) eeqb lg_half arg = Some y ->
    (forall q, arg = Fin q -> (0 < q)%Q -> (q <= 1)%Q -> exists l, y = Fin l /\ (l <= 0)%Q) /\
    (forall q, arg = Fin q -> (q == 0)%Q -> y = NInf).
Proof.
  intros arg y H. unfold lookup_log, lg_half in H. cbn [find fst snd] in H.
  destruct (eeqb (Fin (1 # 2)) arg) eqn:E; [|discriminate]. injection H as <-. split.
  - intros q _ _ _. exists (- (1))%Q. split; [reflexivity|]. discriminate.
  - intros q -> Hq. cbn in E. apply Qeq_bool_iff in E. rewrite Hq in E. discriminate E.
Qed.

(* ce: for every non-constant objective a holder i0 of its minimum and a holder i1 of its maximum get +inf (same table hypothesis) *)
Theorem C13_ce_extremes_infinite :
  forall (feq : eq -> eq -> bool) (lg : list (eq * eq)),
    (forall arg y, lookup_log (X := EQx) feq lg arg = Some y ->
       (forall q, arg = Fin q -> (0 < q)%Q -> (q <= 1)%Q -> exists l, y = Fin l /\ (l <= 0)%Q) /\
       (forall q, arg = Fin q -> (q == 0)%Q -> y = NInf)) ->
    forall (F : list (list eq)) m j d, fin_matrix F m -> (0 < m)%nat -> length (hd [] F) = m -> (j < m)%nat ->
      (exists a b, In a (col (X := EQx) F j) /\ In b (col (X := EQx) F j) /\ eltb a b = true) ->
      calc_crowding_entropy (X := EQx) feq lg F = Some d ->
      exists i0 i1, (i0 < length F)%nat /\ (i1 < length F)%nat /\
        (forall i, (i < length F)%nat -> fle (nth i0 (col (X := EQx) F j) ENaN) (nth i (col (X := EQx) F j) ENaN) /\
                                         fle (nth i (col (X := EQx) F j) ENaN) (nth i1 (col (X := EQx) F j) ENaN)) /\
        nth i0 d ENaN = PInf /\ nth i1 d ENaN = PInf.
Proof. exact ce_extremes_infinite. Qed.
Print Assumptions C13_ce_extremes_infinite.

(* ---- "on fronts without coordinate ties the values equal the published definitions", crowding distance: the
   contribution of one objective (column v, no two equal values) to a point i that is not an extreme of it is
   (hi - lo) / (max - min), where lo = v[jl] is the largest value below v[i], hi = v[jh] the smallest value above it,
   max = v[jmax] and min = v[jmin] (all characterised by order only).  calc_crowding_distance is, by its definition in
   the model, the mean over the objectives of these contributions; extremes get +inf (C13_cd_extremes_infinite). ---- *)
From PV Require Import Proofs.DefP.
Theorem C13_cd_objective_matches_definition :
  forall (v : list eq), Forall isfin v ->
    (forall a b, (a < length v)%nat -> (b < length v)%nat -> a <> b -> eltb (key v a) (key v b) = true \/ eltb (key v b) (key v a) = true) ->
    forall i jl jh jmin jmax, (i < length v)%nat -> (jl < length v)%nat -> (jh < length v)%nat -> (jmin < length v)%nat -> (jmax < length v)%nat ->
      eltb (key v jl) (key v i) = true -> (forall j, (j < length v)%nat -> eltb (key v j) (key v i) = true -> fle (key v j) (key v jl)) ->
      eltb (key v i) (key v jh) = true -> (forall j, (j < length v)%nat -> eltb (key v i) (key v j) = true -> fle (key v jh) (key v j)) ->
      (forall j, (j < length v)%nat -> fle (key v jmin) (key v j)) -> (forall j, (j < length v)%nat -> fle (key v j) (key v jmax)) ->
      exists q, nth i (cd_col (X := EQx) v) ENaN = Fin q /\
                (q == (qof (key v jh) - qof (key v jl)) / (qof (key v jmax) - qof (key v jmin)))%Q.
Proof. exact cd_col_definition. Qed.
Print Assumptions C13_cd_objective_matches_definition.

(* non-vacuity: the column [0; 1; 2; 4], point 2 (value 2): (4 - 1) / (4 - 0) = 3/4 *)
Example C13_cd_definition_nonvacuous :
  map shown (cd_col (X := EQx) [Fin 0; Fin 1; Fin 2; Fin 4]) = [None; Some (1 # 2); Some (3 # 4); None]%Q.
Proof. vm_compute. reflexivity. Qed.

(* ---- "for mnn and 2nn these are the values left after greedily removing the most crowded point and re-computing its
   neighbours": the pure-Python engine (misc/mnn.py) on every finite front without duplicate points, every n_remove.
   is_def H d: every point p of H that is not an extreme carries the product of the squared normalised distances to
   M DISTINCT OTHER POINTS OF H, listed nearest first, such that every further point of H is at least as far
   (nn_product: its M nearest neighbours among the remaining points H); extremes carry +inf.
   greedy ... s H d Hf df: s times, a remaining point of smallest value was removed, the removed points kept their
   value and the values of the others satisfy is_def with respect to the new remaining set.  (M = 2 for 2nn, else the
   number of objectives; D0 = matrix of squared distances of the range-normalised front.) ---- *)
From Coq Require Import Lia.
From PV Require Import Proofs.MonoP Proofs.MnnDefP.
Theorem C13_mnn_fallback_matches_definition :
  forall (twonn : bool) (F : list (list eq)) m (n_remove : Z),
    fin_matrix F m -> (2 <= m)%nat -> length (hd [] F) = m -> ((if twonn then 2 else m) < length F)%nat -> no_duplicates F m ->
    let n := length F in
    let M := if twonn then 2%nat else m in
    let ext := extremes_of (X := EQx) F in
    let Xn := normalize (X := EQx) true F in
    let D0 := map (fun a => map (fun b => sqdist (X := EQx) a b) Xn) Xn in
    let d0 := set_inf (X := EQx) ext (map (mnn_row (X := EQx) M) D0) in
    is_def M ext D0 (seq 0 n) d0 /\
    greedy n M ext D0 (clamp_remove n_remove n m - 1) (seq 0 n) d0 (mnn_remaining twonn F n_remove) (fallback_mnn (X := EQx) twonn F n_remove) /\
    is_def M ext D0 (mnn_remaining twonn F n_remove) (fallback_mnn (X := EQx) twonn F n_remove).
Proof. exact fallback_mnn_is_greedy_nearest_neighbour. Qed.
Print Assumptions C13_mnn_fallback_matches_definition.

(* non-vacuity: a 6-point front with 3 objectives meets the hypotheses (3 removals: the loop runs twice) *)
Definition W6 : list (list eq) :=
  [[Fin 0; Fin 5; Fin 3]; [Fin 1; Fin 4; Fin 1]; [Fin 2; Fin 2; Fin 4]; [Fin 3; Fin 3; Fin 0]; [Fin 4; Fin 1; Fin 2]; [Fin 5; Fin 0; Fin 5]].
Example C13_mnn_definition_nonvacuous :
  fin_matrix W6 3 /\ no_duplicates W6 3 /\ (3 < length W6)%nat /\ mnn_remaining false W6 3%Z = [0; 2; 3; 5]%nat /\
  map shown (fallback_mnn (X := EQx) false W6 3%Z) = [None; Some (504 # 15625); Some (3528 # 15625); None; Some (891 # 15625); None]%Q.
Proof.
  split; [repeat constructor; eexists; reflexivity|]. split; [|split; [cbn; lia|split; vm_compute; reflexivity]].
  intros p q Hp Hq Hne. cbn in Hp, Hq. exists 0%nat.
  destruct p as [|[|[|[|[|[|p]]]]]]; try lia; destruct q as [|[|[|[|[|[|q]]]]]]; try lia; try congruence;
    cbn; eexists; eexists; (split; [lia|split; [reflexivity|split; [reflexivity|intro Hx; discriminate Hx]]]).
Qed.

(* ---- the pruning crowding distance of the pure-Python engine (misc/pruning_cd.py) on fronts without coordinate ties.
   Per objective (column v of the normalised remaining points): an extreme contributes +inf, any other point the
   difference between the nearest value above and the nearest value below (order-only characterisation, as for cd).
   The whole function: [isdef_pcd ext Xn H d] says that every remaining point that is not an extreme of the whole front
   carries the value computed FROM SCRATCH for the remaining points H (pcd_eval = sum over the objectives of the column
   contributions), the extremes of the whole front carry +inf; [greedy_gen] is the published procedure (remove a point of
   smallest value, recompute the others, removed points keep their value).  The result is the loop's vector divided by
   the number of objectives. ---- *)
From PV Require Import Proofs.PcdDefP.
Theorem C13_pcd_objective_matches_definition :
  forall (v : list eq) i, Forall isfin v -> tiefree_col v -> (i < length v)%nat ->
    ((forall j, (j < length v)%nat -> eltb (key v j) (key v i) = false) \/ (forall j, (j < length v)%nat -> eltb (key v i) (key v j) = false) ->
       nth i (pcd_col (X := EQx) v) ENaN = PInf) /\
    (forall jl jh, (jl < length v)%nat -> (jh < length v)%nat ->
       eltb (key v jl) (key v i) = true -> (forall j, (j < length v)%nat -> eltb (key v j) (key v i) = true -> fle (key v j) (key v jl)) ->
       eltb (key v i) (key v jh) = true -> (forall j, (j < length v)%nat -> eltb (key v i) (key v j) = true -> fle (key v jh) (key v j)) ->
       exists q, nth i (pcd_col (X := EQx) v) ENaN = Fin q /\ (q == qof (key v jh) - qof (key v jl))%Q).
Proof. exact pcd_col_definition. Qed.
Print Assumptions C13_pcd_objective_matches_definition.

Theorem C13_pcd_fallback_matches_definition :
  forall (F : list (list eq)) m (n_remove : Z),
    fin_matrix F m -> (1 <= m)%nat -> length (hd [] F) = m -> (m < length F)%nat -> (2 <= length F)%nat -> no_coordinate_ties F m ->
    let n := length F in
    let ext := extremes_of (X := EQx) F in
    let Xn := normalize (X := EQx) false F in
    let d0 := set_inf (X := EQx) ext (pcd_eval (X := EQx) Xn (seq 0 n)) in
    let L := pcd_loop (X := EQx) (clamp_remove n_remove n m - 1) ext Xn d0 (seq 0 n) in
    let d := fallback_pcd (X := EQx) F n_remove in
    let Hf := pcd_remaining F n_remove in
    d = map (fun x => ediv x (Fin (inject_Z (Z.of_nat m)))) L /\
    isdef_pcd ext Xn (seq 0 n) d0 /\
    greedy_gen n (isdef_pcd ext Xn) (clamp_remove n_remove n m - 1) (seq 0 n) d0 Hf L /\
    isdef_pcd ext Xn Hf L /\
    NoDup Hf /\ (length Hf + (clamp_remove n_remove n m - 1) = n)%nat /\
    forall r p, (r < n)%nat -> ~ In r Hf -> In p Hf -> gle (nth r d ENaN) (nth p d ENaN).
Proof. exact fallback_pcd_prunes_one_at_a_time. Qed.
Print Assumptions C13_pcd_fallback_matches_definition.

(* non-vacuity: W6 has no coordinate ties; 3 removals *)
Example C13_pcd_definition_nonvacuous :
  no_coordinate_ties W6 3 /\ pcd_remaining W6 3%Z = [0; 3; 4; 5]%nat /\
  map shown (fallback_pcd (X := EQx) W6 3%Z) = [None; Some (2 # 5); Some (7 # 15); None; Some (8 # 15); None]%Q.
Proof.
  split; [|split; vm_compute; reflexivity].
  intros j p q Hj Hp Hq Hne. cbn in Hp, Hq.
  destruct j as [|[|[|j]]]; try lia;
    (destruct p as [|[|[|[|[|[|p]]]]]]; try lia; destruct q as [|[|[|[|[|[|q]]]]]]; try lia; try congruence;
     vm_compute; ((left; reflexivity) || (right; reflexivity))).
Qed.

(* ---- known finding metrics/dup-eps-absolute: the metrics are defined on range-normalised objectives, yet the duplicate filter of
   FunctionalDiversity._do compares raw distances with the absolute tolerance 1e-32.  The same front in two units: with the
   objectives multiplied by 2^-120 the two boundary points other than the first are filtered as "duplicates" and get 0
   instead of +inf (binary64 instance of the wrapper model around the pure-Python mnn; replayed on the implementation). ---- *)
Definition W_units : list (list float) := [[1; 0]; [0; 1]; [0.5; 0.5]]%float.
Definition W_tiny : list (list float) := [[0x1p-120; 0]; [0; 0x1p-120]; [0x1p-121; 0x1p-121]]%float.
Definition eps32 : float := (0x1.9f623d5a8a732p-107)%float.      (* 1e-32 *)
Theorem C13_tiny_units_refuted :
  functional_diversity (X := Fx) eps32 true true (fun F => Some (fallback_mnn (X := Fx) false F 0%Z)) W_units = Some [infinity; infinity; 0.25]%float /\
  functional_diversity (X := Fx) eps32 true true (fun F => Some (fallback_mnn (X := Fx) false F 0%Z)) W_tiny = Some [infinity; 0; 0]%float.
Proof. split; vm_compute; reflexivity. Qed.
Print Assumptions C13_tiny_units_refuted.
