From PV Require Import Model.Kernels.
Theorem placeholder : True. Proof. exact I. Qed.
Print Assumptions placeholder.
