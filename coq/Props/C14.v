(* C14  Results do not depend on whether the extensions compiled.  Statements only.
   Both engines are modelled (Model/Fallback.v, Model/Kernels.v); they share the normalisation (with the zero-range
   guard, after the fix of misc/mnn.py) and the detection of extremes BY CONSTRUCTION (the same Gallina functions
   [normalize true] and [extremes_of]).  That the incremental neighbour update of the compiled kernels refines the
   from-scratch recomputation of the fallbacks on tie-free runs is NOT proved: it is decided by running both
   engines on the same fronts (correspondence of each engine with its model + comparison of the engines).
   What IS machine-checked here: the agreement fails on the recorded witness (known finding), and holds on it
   when nothing is pruned. *)
From Coq Require Import List Bool Arith ZArith PrimFloat.
From PV Require Import Base.Num Base.NumF Base.Res Base.ListX Base.Cmp Model.Crowding Model.Fallback Model.Kernels.
Import ListNotations.

Definition W_mnn : list (list float) :=
  [[1; 2; 5]; [6; 3; 0]; [5; 0; 1]; [0; 4; 6]; [4; 1; 4]; [3; 6; 2]; [2; 5; 3]]%float.
Definition W_mnn0 : list Z := [3; 4; 6; 2; 5; 4; 1; 4; 0; 0; 6; 4; 2; 0; 6; 6; 1; 3; 5; 3; 0]%Z.

(* known finding compiled/mnn/dup-neighbour: the engines disagree on a front without coordinate ties *)
Theorem C14_mnn_engines_agree_refuted :
  exists F k M0 d, kernel_mnn (X := Fx) false F k M0 = Ok (d, (true, true)) /\
                   flist_same d (fallback_mnn (X := Fx) false F k) = false.
Proof. exists W_mnn, 2%Z, W_mnn0. eexists. split; vm_compute; reflexivity. Qed.
Print Assumptions C14_mnn_engines_agree_refuted.

(* ... and agree bit for bit on the same front when nothing has to be pruned *)
Theorem C14_mnn_engines_agree_without_pruning_witness :
  match kernel_mnn (X := Fx) false W_mnn 0%Z W_mnn0 with
  | Ok (d, _) => flist_same d (fallback_mnn (X := Fx) false W_mnn 0%Z)
  | Err _ => false end = true.
Proof. vm_compute. reflexivity. Qed.
Print Assumptions C14_mnn_engines_agree_without_pruning_witness.

(* constant objective: the pure-Python mnn (after the fix) returns no NaN and agrees with the compiled model *)
Definition W_const : list (list float) := [[0; 4; 1]; [1; 3; 1]; [2; 2; 1]; [3; 1; 1]; [4; 0; 1]]%float.
Theorem C14_constant_objective_witness :
  forallb (fun x => negb (is_nan x)) (fallback_mnn (X := Fx) false W_const 0%Z) = true /\
  match kernel_mnn (X := Fx) false W_const 0%Z [1; 2; 3; 0; 2; 3; 1; 3; 0; 2; 4; 1; 3; 2; 1]%Z with
  | Ok (d, _) => flist_same d (fallback_mnn (X := Fx) false W_const 0%Z)
  | Err _ => false end = true.
Proof. split; vm_compute; reflexivity. Qed.
Print Assumptions C14_constant_objective_witness.

(* ---- the nearest-neighbour helper of spacing_neighbors.pyx (cached symmetric city-block distances, pruned scan)
   against the NumPy computation of the spacing indicator (second smallest entry of each row of
   squareform(pdist(X, "cityblock"))).  Exact arithmetic (helper: EQx, because its running minimum starts at +inf;
   NumPy path: Qx); arbitrary finite points, duplicates included; the SAME Gallina terms spacing_helper / nn_dists /
   dist_matrix that are run bit-for-bit against the extension and against NumPy on binary64. ---- *)
From Coq Require Import QArith.
From PV Require Import Base.NumQ Base.NumEQ Model.Spacing Proofs.HelperP.

(* every value is a lower bound of the distances to all other points and is attained by one of them (+inf iff there is no other point) *)
Theorem C14_spacing_helper_is_nearest_neighbour :
  forall (Xs : list (list Q)),
    let ds := spacing_helper (X := EQx) (map (map Fin) Xs) in
    length ds = length Xs /\ forall i, (i < length Xs)%nat -> spec Xs i (nth i ds ENaN).
Proof. exact spacing_helper_spec. Qed.
Print Assumptions C14_spacing_helper_is_nearest_neighbour.

Theorem C14_spacing_helper_matches_numpy :
  forall (Xs : list (list Q)) i, (2 <= length Xs)%nat -> (i < length Xs)%nat ->
    exists q, nth i (spacing_helper (X := EQx) (map (map Fin) Xs)) ENaN = Fin q /\
              (q == nth i (nn_dists (X := Qx) (dist_matrix (X := Qx) Cityblock Xs)) 0)%Q.
Proof. exact helper_matches_numpy. Qed.
Print Assumptions C14_spacing_helper_matches_numpy.

(* non-vacuity: four points, two of them identical *)
Example C14_spacing_helper_nonvacuous :
  spacing_helper (X := EQx) (map (map Fin) [[0; 0]; [1; 2]; [1; 2]; [4; 0]]%Q) = [Fin 3; Fin 0; Fin 0; Fin 4]%Q /\
  nn_dists (X := Qx) (dist_matrix (X := Qx) Cityblock [[0; 0]; [1; 2]; [1; 2]; [4; 0]]%Q) = [3; 0; 0; 4]%Q.
Proof. split; vm_compute; reflexivity. Qed.
