(* C14  Results do not depend on whether the extensions compiled.  Statements only.
   Both engines are modelled (Model/Fallback.v, Model/Kernels.v); they share the normalisation (with the zero-range
   guard, after the fix of misc/mnn.py) and the detection of extremes BY CONSTRUCTION (the same Gallina functions
   [normalize true] and [extremes_of]).  That the incremental neighbour update of the compiled kernels refines the
   from-scratch recomputation of the fallbacks on tie-free runs is NOT proved: it is decided by running both
   engines on the same fronts (correspondence of each engine with its model + comparison of the engines).
   What IS machine-checked here: the agreement fails on the recorded witness (known finding), and holds on it
   when nothing is pruned. *)
From Coq Require Import List Bool Arith ZArith PrimFloat.
From PV Require Import Base.Num Base.NumF Base.Res Base.ListX Base.Cmp Model.Crowding Model.Fallback Model.Kernels.
Import ListNotations.

Definition W_mnn : list (list float) :=
  [[1; 2; 5]; [6; 3; 0]; [5; 0; 1]; [0; 4; 6]; [4; 1; 4]; [3; 6; 2]; [2; 5; 3]]%float.
Definition W_mnn0 : list Z := [3; 4; 6; 2; 5; 4; 1; 4; 0; 0; 6; 4; 2; 0; 6; 6; 1; 3; 5; 3; 0]%Z.

(* known finding compiled/mnn/dup-neighbour: the engines disagree on a front without coordinate ties *)
Theorem C14_mnn_engines_agree_refuted :
  exists F k M0 d, kernel_mnn (X := Fx) false F k M0 = Ok (d, (true, true)) /\
                   flist_same d (fallback_mnn (X := Fx) false F k) = false.
Proof. exists W_mnn, 2%Z, W_mnn0. eexists. split; vm_compute; reflexivity. Qed.
Print Assumptions C14_mnn_engines_agree_refuted.

(* ... and agree bit for bit on the same front when nothing has to be pruned *)
Theorem C14_mnn_engines_agree_without_pruning_witness :
  match kernel_mnn (X := Fx) false W_mnn 0%Z W_mnn0 with
  | Ok (d, _) => flist_same d (fallback_mnn (X := Fx) false W_mnn 0%Z)
  | Err _ => false end = true.
Proof. vm_compute. reflexivity. Qed.
Print Assumptions C14_mnn_engines_agree_without_pruning_witness.

(* constant objective: the pure-Python mnn (after the fix) returns no NaN and agrees with the compiled model *)
Definition W_const : list (list float) := [[0; 4; 1]; [1; 3; 1]; [2; 2; 1]; [3; 1; 1]; [4; 0; 1]]%float.
Theorem C14_constant_objective_witness :
  forallb (fun x => negb (is_nan x)) (fallback_mnn (X := Fx) false W_const 0%Z) = true /\
  match kernel_mnn (X := Fx) false W_const 0%Z [1; 2; 3; 0; 2; 3; 1; 3; 0; 2; 4; 1; 3; 2; 1]%Z with
  | Ok (d, _) => flist_same d (fallback_mnn (X := Fx) false W_const 0%Z)
  | Err _ => false end = true.
Proof. split; vm_compute; reflexivity. Qed.
Print Assumptions C14_constant_objective_witness.
