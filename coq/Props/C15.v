(* C15  Truncating a front keeps boundary points and prunes one at a time.  Statements only.
   The split front is cut by a descending sort of its crowding values (an arbitrary, validated permutation: any
   tie-break of pymoo's randomized argsort) and the first m positions are kept, m = quota - members already kept. *)
From Coq Require Import List Bool Arith.
From PV Require Import Base.Num Base.Res Base.ListX Model.Dominance Model.RankCrowd Proofs.RankCrowdP.
Import ListNotations.

(* every run of RankAndCrowding._do cuts its last front this way *)
Theorem C15_cut_structure :
  forall (N : num) (F : list (list N)) n s surv attrs s',
    rnc_do F n s = Ok ((surv, attrs), s') -> n <= length F ->
    exists fronts sel, is_ndsb F n fronts = true /\ surv = concat (removelast fronts) ++ sel /\
                       cut_desc (N := N) (last fronts []) (n - length (concat (removelast fronts))) sel.
Proof. exact @rnc_do_cut. Qed.
Print Assumptions C15_cut_structure.

(* boundary clause, for EVERY crowding metric (any crowding vector): a member of the cut front whose crowding
   value is maximal (top = +inf) survives whenever at most m members have such a value.  Every built-in metric puts
   +inf on a holder of the minimum and of the maximum of each objective, i.e. on at most 2*n_obj members (C13), so
   the surviving part still attains all minima and maxima when m >= 2*n_obj. *)
Theorem C15_infinite_members_survive :
  forall (N : num) (ok : N -> Prop), ord_laws N ok ->
  forall (front : list nat) m sel crowd perm sv top,
    length crowd = length front -> length perm = length crowd -> NoDup perm -> Forall (fun i => i < length crowd) perm ->
    pick crowd perm = Some sv -> sorted_by (N := N) true sv = true -> pick front (firstn m perm) = Some sel ->
    Forall ok crowd -> ok top ->
    length (filter (fun j => negb (ltb N (nth j crowd top) top)) (seq 0 (length crowd))) <= m ->
    forall j x, nth_error front j = Some x -> ltb N (nth j crowd top) top = false -> In x sel.
Proof. intros N ok L. exact (cut_keeps_top L). Qed.
Print Assumptions C15_infinite_members_survive.

(* one-shot metrics (cd, ce): the dropped members are those of smallest crowding value computed once:
   every dropped position has a value <= every kept position, whatever the tie-break *)
Theorem C15_dropped_have_smallest_crowding :
  forall (N : num) (ok : N -> Prop), ord_laws N ok ->
  forall (crowd : list N) perm sv m a b,
    length perm = length crowd -> pick crowd perm = Some sv -> sorted_by (N := N) true sv = true -> Forall ok crowd ->
    In a (firstn m perm) -> In b (skipn m perm) ->
    exists va vb, nth_error crowd a = Some va /\ nth_error crowd b = Some vb /\ leb N vb va = true.
Proof. intros N ok L. exact (cut_drops_smallest L). Qed.
Print Assumptions C15_dropped_have_smallest_crowding.

(* non-vacuity: a front of 5 cut to 4: the two infinite members and the two largest finite ones stay *)
From Coq Require Import QArith.
From PV Require Import Base.NumQ.
Example C15_nonvacuous :
  rnc_do (N := Qn) [[0; 4]; [1; 3]; [2; 2]; [3; 1]; [4; 0]]%Q 4
    [@ONds Qn 4 [[0; 1; 2; 3; 4]]%nat; @OCrowd Qn 1 [100; 2; 1; 3; 100]%Q; @OSort Qn true [4; 0; 3; 1; 2]%nat]
  = Ok (([4; 0; 3; 1]%nat, [(0, 0, 100%Q); (1, 0, 2%Q); (2, 0, 1%Q); (3, 0, 3%Q); (4, 0, 100%Q)]%nat), []).
Proof. vm_compute. reflexivity. Qed.

(* ---- known finding pcd/tied-max-extra-infinite: the boundary clause is refuted for the pruning crowding distance with
   3 objectives.  Nine distinct, mutually non-dominated points; the maximum of objective 0 is held by two different
   points; SEVEN members get +inf (more than 2 x 3), among them the only holder (index 1) of the maximum of objective 1:
   when six members are kept, a tie-break among the seven infinite values can drop it. ---- *)
From Coq Require Import ZArith.
From PV Require Import Base.NumEQ Model.Crowding Model.Fallback.
Definition W_pcd3 : list (list eq) :=
  map (map (fun z => Fin (inject_Z z))) [[0; 3; 2]; [0; 4; 1]; [1; 2; 4]; [2; 0; 3]; [2; 2; 1]; [2; 3; 0]; [3; 1; 2]; [4; 0; 1]; [4; 1; 0]]%Z.
Definition is_pinf (e : eq) : bool := match e with PInf => true | _ => false end.
Local Open Scope nat_scope.
Theorem C15_pcd_boundary_refuted :
  exists (F : list (list eq)) (k : nat),
    length (hd [] F) = 3 /\ 2 * 3 <= k < length F /\
    is_ndsb (N := EQn) F (length F) [seq 0 (length F)] = true /\ NoDup F /\
    let d := fallback_pcd (X := EQx) F (Z.of_nat (length F - k)) in
    k < length (filter is_pinf d) /\
    is_pinf (nth 1 d ENaN) = true /\
    forall i, i < length F -> i <> 1 -> eltb (nth 1 (nth i F []) ENaN) (nth 1 (nth 1 F []) ENaN) = true.
Proof.
  exists W_pcd3, 6. split; [reflexivity|]. split; [cbn; split; repeat constructor|]. split; [vm_compute; reflexivity|]. split.
  - unfold W_pcd3. cbn [map]. repeat (constructor; [cbn; intuition discriminate|]). constructor.
  - cbv zeta. split; [vm_compute; repeat constructor|]. split; [vm_compute; reflexivity|].
    intros i Hi Hne. cbn in Hi. do 9 (destruct i as [|i]; [try congruence; vm_compute; reflexivity|]). exfalso.
    do 9 apply Nat.succ_lt_mono in Hi. inversion Hi.
Qed.
Print Assumptions C15_pcd_boundary_refuted.

(* ---- the boundary clause end to end for the mnn / 2nn metrics of the pure-Python engine (exact arithmetic, EQx): the crowding
   vector of misc/mnn.py is finite outside the 2 x n_obj extreme rows, so for EVERY permutation that sorts it descending (every
   tie-break), keeping quota >= 2 x n_obj members of the front keeps a holder of the minimum and a holder of the maximum of
   every objective; any finite front with more points than neighbours, any n_remove. ---- *)
From PV Require Import Proofs.CdP Proofs.FallbackP Proofs.BoundaryP.
Theorem C15_boundary_mnn_fallback :
  forall (twonn : bool) (F : list (list eq)) m (n_remove : Z) (front : list nat) quota sel perm sv,
    fin_matrix F m -> 2 <= m -> length (hd [] F) = m -> (if twonn then 2 else m) < length F ->
    let crowd := fallback_mnn (X := EQx) twonn F n_remove in
    length front = length F -> length perm = length crowd -> NoDup perm -> Forall (fun i => i < length crowd) perm ->
    pick crowd perm = Some sv -> sorted_by (N := EQn) true sv = true -> pick front (firstn quota perm) = Some sel ->
    2 * m <= quota ->
    forall j, j < m -> exists a b, holds_min (col (X := EQx) F j) a /\ holds_max (col (X := EQx) F j) b /\
      (forall x, nth_error front a = Some x -> In x sel) /\ (forall x, nth_error front b = Some x -> In x sel).
Proof. exact mnn_boundary_kept. Qed.
Print Assumptions C15_boundary_mnn_fallback.

(* ---- the same for the crowding distance (the default metric): calc_crowding_distance is finite outside the first and the
   last row of each objective's stable sorted order (at most 2 x n_obj rows); hence, for every tie-break, keeping at least
   2 x n_obj members keeps a holder i0 of the minimum and a holder i1 of the maximum of every non-constant objective. ---- *)
From PV Require Import Proofs.CdBoundaryP.
Theorem C15_boundary_cd :
  forall (F : list (list eq)) m (front : list nat) quota sel perm sv,
    fin_matrix F m -> 0 < m -> length (hd [] F) = m ->
    let crowd := calc_crowding_distance (X := EQx) F in
    length front = length F -> length perm = length crowd -> NoDup perm -> Forall (fun i => i < length crowd) perm ->
    pick crowd perm = Some sv -> sorted_by (N := EQn) true sv = true -> pick front (firstn quota perm) = Some sel ->
    2 * m <= quota ->
    forall j, j < m -> (exists a b, In a (col (X := EQx) F j) /\ In b (col (X := EQx) F j) /\ eltb a b = true) ->
    exists i0 i1, i0 < length F /\ i1 < length F /\
      (forall i, i < length F -> fle (nth i0 (col (X := EQx) F j) ENaN) (nth i (col (X := EQx) F j) ENaN) /\
                                 fle (nth i (col (X := EQx) F j) ENaN) (nth i1 (col (X := EQx) F j) ENaN)) /\
      (forall x, nth_error front i0 = Some x -> In x sel) /\ (forall x, nth_error front i1 = Some x -> In x sel).
Proof. exact cd_boundary_kept. Qed.
Print Assumptions C15_boundary_cd.

(* ---- "pruning one at a time" for the mnn / 2nn metrics of the pure-Python engine: [mnn_remaining] is the set of points left
   after the loop of misc/mnn.py has removed clamp(n_remove) - 1 points, each the least crowded of its time, recomputing the
   others after every removal.  Removing a point never decreases the value of a remaining one (mnn_row_mono), so in the FINAL
   vector every removed point is <= every remaining point: the cut of RankAndCrowding (drop the n_remove smallest, any
   tie-break among equal values) drops the removed points and then the least crowded remaining one. ---- *)
From PV Require Import Proofs.MonoP.
Theorem C15_pruning_order_mnn_fallback :
  forall (twonn : bool) (F : list (list eq)) m (n_remove : Z),
    fin_matrix F m -> 2 <= m -> length (hd [] F) = m -> (if twonn then 2 else m) < length F ->
    let d := fallback_mnn (X := EQx) twonn F n_remove in
    let Hf := mnn_remaining twonn F n_remove in
    NoDup Hf /\ (forall i, In i Hf -> i < length F) /\
    length Hf + (clamp_remove n_remove (length F) m - 1) = length F /\
    forall r p, r < length F -> ~ In r Hf -> In p Hf -> gle (nth r d ENaN) (nth p d ENaN).
Proof. exact fallback_mnn_pruning_order. Qed.
Print Assumptions C15_pruning_order_mnn_fallback.

(* ---- the same engine, full pruning clause on fronts without duplicate points: the removed points were removed ONE AT A TIME,
   each a point of smallest value among those then remaining, all values being the M-nearest-neighbour products with respect to
   the points then remaining (Proofs/MnnDefP.v: greedy / is_def / nn_product, see C13_mnn_fallback_matches_definition), and
   they are the smallest entries of the final vector. ---- *)
From PV Require Import Proofs.MnnDefP.
Theorem C15_mnn_fallback_prunes_one_at_a_time :
  forall (twonn : bool) (F : list (list eq)) m (n_remove : Z),
    fin_matrix F m -> 2 <= m -> length (hd [] F) = m -> (if twonn then 2 else m) < length F -> no_duplicates F m ->
    let n := length F in
    let M := if twonn then 2 else m in
    let ext := extremes_of (X := EQx) F in
    let Xn := normalize (X := EQx) true F in
    let D0 := map (fun a => map (fun b => sqdist (X := EQx) a b) Xn) Xn in
    let d0 := set_inf (X := EQx) ext (map (mnn_row (X := EQx) M) D0) in
    let d := fallback_mnn (X := EQx) twonn F n_remove in
    let Hf := mnn_remaining twonn F n_remove in
    greedy n M ext D0 (clamp_remove n_remove n m - 1) (seq 0 n) d0 Hf d /\
    NoDup Hf /\ length Hf + (clamp_remove n_remove n m - 1) = n /\
    forall r p, r < n -> ~ In r Hf -> In p Hf -> gle (nth r d ENaN) (nth p d ENaN).
Proof. exact fallback_mnn_prunes_one_at_a_time. Qed.
Print Assumptions C15_mnn_fallback_prunes_one_at_a_time.

(* ---- the pruning crowding distance of the same engine (misc/pruning_cd.py), fronts without coordinate ties: the removed points
   were removed one at a time, each of smallest value among the remaining ones, the others recomputed from scratch for the
   remaining set (greedy_gen / isdef_pcd, Proofs/PcdDefP.v); removing a point never decreases the value of a remaining one
   (per objective the nearest value above can only grow and the nearest below only shrink, pcd_col_sub_mono), so in the final
   vector the removed points are <= every remaining point: the descending cut drops exactly them. ---- *)
From PV Require Import Proofs.PcdDefP.
Theorem C15_pcd_fallback_prunes_one_at_a_time :
  forall (F : list (list eq)) m (n_remove : Z),
    fin_matrix F m -> 1 <= m -> length (hd [] F) = m -> m < length F -> 2 <= length F -> no_coordinate_ties F m ->
    let n := length F in
    let ext := extremes_of (X := EQx) F in
    let Xn := normalize (X := EQx) false F in
    let d0 := set_inf (X := EQx) ext (pcd_eval (X := EQx) Xn (seq 0 n)) in
    let L := pcd_loop (X := EQx) (clamp_remove n_remove n m - 1) ext Xn d0 (seq 0 n) in
    let d := fallback_pcd (X := EQx) F n_remove in
    let Hf := pcd_remaining F n_remove in
    d = map (fun x => ediv x (Fin (inject_Z (Z.of_nat m)))) L /\
    isdef_pcd ext Xn (seq 0 n) d0 /\
    greedy_gen n (isdef_pcd ext Xn) (clamp_remove n_remove n m - 1) (seq 0 n) d0 Hf L /\
    isdef_pcd ext Xn Hf L /\
    NoDup Hf /\ length Hf + (clamp_remove n_remove n m - 1) = n /\
    forall r p, r < n -> ~ In r Hf -> In p Hf -> gle (nth r d ENaN) (nth p d ENaN).
Proof. exact fallback_pcd_prunes_one_at_a_time. Qed.
Print Assumptions C15_pcd_fallback_prunes_one_at_a_time.

(* ---- boundary clause for the same engine's pcd on fronts without coordinate ties (the known finding above needs tied maxima):
   if the removals leave at least 2 x n_obj members, the loop never removes a holder of an extreme, every other point ends with
   a finite value, and every tie-break of the cut keeps a holder of the minimum and of the maximum of every objective. ---- *)
From PV Require Import Proofs.PcdBoundaryP.
Theorem C15_boundary_pcd_fallback_without_ties :
  forall (F : list (list eq)) m (n_remove : Z) (front : list nat) quota sel perm sv,
    fin_matrix F m -> 1 <= m -> length (hd [] F) = m -> 2 <= length F -> no_coordinate_ties F m ->
    clamp_remove n_remove (length F) m + 2 * m <= length F + 1 ->
    let crowd := fallback_pcd (X := EQx) F n_remove in
    length front = length F -> length perm = length crowd -> NoDup perm -> Forall (fun i => i < length crowd) perm ->
    pick crowd perm = Some sv -> sorted_by (N := EQn) true sv = true -> pick front (firstn quota perm) = Some sel ->
    2 * m <= quota ->
    forall j, j < m -> exists a b, holds_min (col (X := EQx) F j) a /\ holds_max (col (X := EQx) F j) b /\
      (forall x, nth_error front a = Some x -> In x sel) /\ (forall x, nth_error front b = Some x -> In x sel).
Proof. exact pcd_boundary_kept_tiefree. Qed.
Print Assumptions C15_boundary_pcd_fallback_without_ties.

(* ---- boundary clause for the crowding entropy, end to end (log2 an oracle table with the sign behaviour of log2, as in C13_ce_wellformed):
   the vector is finite outside the first and last row of every objective's sorted order, so every tie-break keeps a holder of the minimum
   and of the maximum of every non-constant objective when >= 2 x n_obj members are kept ---- *)
From PV Require Import Proofs.CeP Proofs.CeBoundaryP.
Theorem C15_boundary_ce :
  forall (feq : eq -> eq -> bool) (lg : list (eq * eq)),
    (forall arg y, lookup_log (X := EQx) feq lg arg = Some y ->
       (forall q, arg = Fin q -> (0 < q)%Q -> (q <= 1)%Q -> exists l, y = Fin l /\ (l <= 0)%Q) /\
       (forall q, arg = Fin q -> (q == 0)%Q -> y = NInf)) ->
    forall (F : list (list eq)) m crowd (front : list nat) quota sel perm sv,
      fin_matrix F m -> 0 < m -> length (hd [] F) = m ->
      calc_crowding_entropy (X := EQx) feq lg F = Some crowd ->
      length front = length F -> length perm = length crowd -> NoDup perm -> Forall (fun i => i < length crowd) perm ->
      pick crowd perm = Some sv -> sorted_by (N := EQn) true sv = true -> pick front (firstn quota perm) = Some sel ->
      2 * m <= quota ->
      forall j, j < m -> (exists a b, In a (col (X := EQx) F j) /\ In b (col (X := EQx) F j) /\ eltb a b = true) ->
      exists i0 i1, i0 < length F /\ i1 < length F /\
        (forall i, i < length F -> fle (nth i0 (col (X := EQx) F j) ENaN) (nth i (col (X := EQx) F j) ENaN) /\
                                   fle (nth i (col (X := EQx) F j) ENaN) (nth i1 (col (X := EQx) F j) ENaN)) /\
        (forall x, nth_error front i0 = Some x -> In x sel) /\ (forall x, nth_error front i1 = Some x -> In x sel).
Proof. exact ce_boundary_kept. Qed.
Print Assumptions C15_boundary_ce.

(* ---- binary64: the comparisons of IEEE doubles form a strict weak order on all values but NaN, infinities included
   (Base/NumFOrd.v, Flocq), so the cut theorems hold for the crowding vectors the code actually computes ---- *)
From Coq Require Import PrimFloat.
From PV Require Import Base.NumF Base.NumFOrd.
Theorem C15_infinite_members_survive_float :
  forall (front : list nat) m sel (crowd : list float) perm sv,
    length crowd = length front -> length perm = length crowd -> NoDup perm -> Forall (fun i => i < length crowd) perm ->
    pick crowd perm = Some sv -> sorted_by (N := Fn) true sv = true -> pick front (firstn m perm) = Some sel ->
    Forall nonnanf crowd ->
    length (filter (fun j => negb (PrimFloat.ltb (nth j crowd infinity) infinity)) (seq 0 (length crowd))) <= m ->
    forall j x, nth_error front j = Some x -> PrimFloat.ltb (nth j crowd infinity) infinity = false -> In x sel.
Proof. intros front m sel crowd perm sv H1 H2 H3 H4 H5 H6 H7 H8. exact (C15_infinite_members_survive Fn nonnanf Fn_ord_nn front m sel crowd perm sv infinity H1 H2 H3 H4 H5 H6 H7 H8 nonnanf_inf). Qed.
Print Assumptions C15_infinite_members_survive_float.

Theorem C15_dropped_have_smallest_crowding_float :
  forall (crowd : list float) perm sv m a b,
    length perm = length crowd -> pick crowd perm = Some sv -> sorted_by (N := Fn) true sv = true -> Forall nonnanf crowd ->
    In a (firstn m perm) -> In b (skipn m perm) ->
    exists va vb, nth_error crowd a = Some va /\ nth_error crowd b = Some vb /\ PrimFloat.leb vb va = true.
Proof. exact (C15_dropped_have_smallest_crowding Fn nonnanf Fn_ord_nn). Qed.
Print Assumptions C15_dropped_have_smallest_crowding_float.
