(* C16  ConstrRankAndCrowding orders infeasible solutions in violation space.  Statements only. *)
From Coq Require Import List Bool Arith.
From PV Require Import Base.Num Base.Res Base.ListX Model.Dominance Model.RankCrowd Proofs.DominanceP Proofs.RankCrowdP.
Import ListNotations.

(* Structure of every successful run (crnc_wrapped):
   - feasible individuals first: the feasible survivors fs are what RankAndCrowding (with pymoo's wrapper)
     selects on the feasible sub-population (rnc_wrapped true sub ...), |fs| = min(#feasible, quota);
   - infeasible ones are added only when quota - |fs| > 0, i.e. when every feasible individual survives;
   - they are taken front by front of a validated non-dominated sorting of the violation vectors m_c
     (all fronts but the last whole, a duplicate-free part of the last one), and the last front is cut by
     an ascending sort of the total violations (cut_by_cv);
   - on unconstrained problems the result is exactly RankAndCrowding's (rnc_wrapped false). *)
Theorem C16_structure :
  forall (N : num) constr (pop : list (mind N)) n s surv attrs cvr s',
    crnc_survival constr pop n s = Ok ((surv, attrs, cvr), s') -> pop <> [] -> 1 <= n ->
    let ns := Nat.min n (length pop) in
    crnc_wrapped constr pop ns surv /\ length surv = ns /\ NoDup surv /\ Forall (fun i => i < length pop) surv.
Proof. exact @crnc_survival_spec. Qed.
Print Assumptions C16_structure.

(* in violation space the kept infeasible individuals are never dominated by a discarded infeasible one;
   C = violation vectors of the infeasible sub-population, kept = concat (removelast fronts) ++ sel *)
Theorem C16_violation_fronts :
  forall (N : num) (C : list (list N)) n fronts sel s d,
    is_ndsb C n fronts = true -> incl sel (last fronts []) -> NoDup sel ->
    In s (concat (removelast fronts) ++ sel) -> d < length C ->
    pdomb (nth d C []) (nth s C []) = true -> In d (concat (removelast fronts) ++ sel).
Proof.
  intros N C n fronts sel s d H1 H2 H3. apply (no_discarded_dominates C n fronts).
  split; [assumption|]. exists sel. auto.
Qed.
Print Assumptions C16_violation_fronts.

(* on problems without constraints it is RankAndCrowding *)
Theorem C16_unconstrained_is_rnc :
  forall (N : num) (pop : list (mind N)) n s surv attrs cvr s',
    crnc_survival false pop n s = Ok ((surv, attrs, cvr), s') -> pop <> [] -> 1 <= n ->
    rnc_wrapped false pop (Nat.min n (length pop)) surv.
Proof. intros N pop n s surv attrs cvr s' H Hne Hn. exact (proj1 (crnc_survival_spec false pop n s surv attrs cvr s' H Hne Hn)). Qed.
Print Assumptions C16_unconstrained_is_rnc.

(* total violations: kept infeasible <= dropped infeasible in the order supplied by the split *)
Theorem C16_sorted_cut :
  forall (N : num) (ok : N -> Prop), ord_laws N ok ->
  forall sv m, Forall ok sv -> sorted_by (N := N) false sv = true ->
  forall x y, In x (firstn m sv) -> In y (skipn m sv) -> leb N x y = true.
Proof. intros N ok L. exact (sorted_asc_split L). Qed.
Print Assumptions C16_sorted_cut.

(* ---- binary64, all values but NaN (Base/NumFOrd.v, Flocq) ---- *)
From PV Require Import Base.NumF Base.NumFOrd.
Definition C16_sorted_cut_float_nn := C16_sorted_cut Fn nonnanf Fn_ord_nn.
Print Assumptions C16_sorted_cut_float_nn.
