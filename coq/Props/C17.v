(* C17  Runs are reproducible and independent of how the loop is driven.  PARTIAL.
   What Coq carries: in the model a generation is a FUNCTION of (population, recorded draws, oracle answers); there is
   no other state, so equal inputs give equal runs by reflexivity, and the order in which offspring are evaluated is
   irrelevant because evaluation is pointwise.  What only the correspondence shows: that the Python objects have no
   further state (module globals, shared default-argument operator instances, numpy's global generator used by nobody
   else) - checked by reference runs in fresh interpreters vs runs after other workloads, minimize vs ask-and-tell,
   external evaluation in shuffled order, and by the step-by-step agreement of real runs with the model. *)
From Coq Require Import List Bool Arith.
From PV Require Import Base.Num Base.Res Base.ListX Model.Replace Model.Dominance Model.RankCrowd Model.Algo Proofs.AlgoP.
Import ListNotations.

(* evaluating the offspring one by one in any order (sigma), then restoring slot order (inv), is evaluating them in slot order *)
Theorem C17_evaluation_order_is_irrelevant :
  forall (A B : Type) (f : A -> B) (l : list A) sigma inv shuffled,
    pick l sigma = Some shuffled -> pick shuffled inv = Some l -> pick (map f shuffled) inv = Some (map f l).
Proof. exact @eval_any_order. Qed.
Print Assumptions C17_evaluation_order_is_irrelevant.

Theorem C17_evaluation_commutes_with_reindexing :
  forall (A B : Type) (f : A -> B) (l : list A) idx, pick (map f l) idx = option_map (map f) (pick l idx).
Proof. exact @pick_map. Qed.
Print Assumptions C17_evaluation_commutes_with_reindexing.

(* the loop of minimize is ask-evaluate-tell: a run is the fold of the generation step over the offspring lists, and the
   same offspring lists (same seed => same draws, numpy trusted) give the same run *)
Theorem C17_run_is_a_function :
  forall (N : num) constr (pop pop' : list (sind N)) offs offs',
    pop = pop' -> offs = offs' -> de_run constr pop offs = de_run constr pop' offs'.
Proof. intros; subst; reflexivity. Qed.
Print Assumptions C17_run_is_a_function.
