(* C18  A run can be checkpointed after any generation and resumed.  PARTIAL.
   What Coq carries: the state of a run is a first-class value and a run of k + m generations is the run of m generations
   started from the state reached after k, for every k (no hidden state to lose at the cut).  What pickle, dill and
   copy.deepcopy do to bound methods, to C-extension state and to numpy's generator cannot be expressed in the model:
   it is observed by checkpointing real runs after EVERY generation and comparing all later generations. *)
From Coq Require Import List Bool Arith.
From PV Require Import Base.Num Base.ListX Model.Replace.
Import ListNotations.

Theorem C18_run_can_be_cut_anywhere :
  forall (N : num) constr (pop : list (sind N)) (before after : list (list (sind N))),
    de_run constr pop (before ++ after) = de_run constr (de_run constr pop before) after.
Proof. intros. unfold de_run. apply fold_left_app. Qed.
Print Assumptions C18_run_can_be_cut_anywhere.

(* the same for any generation step (NSDE, GDE3, NSDE-R: state = population, inputs = offspring + draws + oracle answers) *)
Theorem C18_any_state_machine :
  forall (S I : Type) (step : S -> I -> S) (s : S) (before after : list I),
    fold_left step (before ++ after) s = fold_left step after (fold_left step before s).
Proof. intros. apply fold_left_app. Qed.
Print Assumptions C18_any_state_machine.
