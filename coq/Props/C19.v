(* C19  Stochastic operators sample the distributions their parameters name.  Statements only (functional characterisation).
   Each stochastic operator is a deterministic function of the uniform draws it consumes; the theorems say which
   function.  Under i.i.d. U[0,1) draws (numpy, trusted) the named distributions follow: a coordinate whose mask bit is
   [u < CR] for its own draw is Bernoulli(CR) and independent of the others; a block length equal to the number of leading
   draws below CR, capped at n_var, is geometric in CR truncated at n_var; an increasing affine image of a uniform draw is
   uniform on the image interval. *)
From Coq Require Import List Bool Arith QArith.
From PV Require Import Base.Num Base.NumQ Base.Res Base.ListX Model.Repair Model.Mutate Model.Cross
  Proofs.RepairP Proofs.MutateP Proofs.CrossP.
Import ListNotations.

(* binomial crossover: one draw per coordinate; bit (i, j) = [u_ij < CR], a function of its own draw only *)
Theorem C19_binomial_bits :
  forall (N : num) n v (cr : N) s rows s',
    cross_binomial n v cr false s = Ok (rows, s') ->
    exists us, s = ERand [n; v] us :: s' /\ length us = (n * v)%nat /\ rows = reshape n v (map (fun u => ltb N u cr) us).
Proof. exact @bin_mask_bits. Qed.
Print Assumptions C19_binomial_bits.

(* exponential crossover: starting at the row's start index the block grows while the scalar draws stay below CR, at most
   n_var times; exactly those draws (and the first failing one) are consumed *)
Theorem C19_exponential_block_length :
  forall (N : num) (cr : N) v start fuel j mask s mask' s',
    exp_row cr v start j fuel mask s = Ok (mask', s') -> (0 < v)%nat -> length mask = v ->
    exists us,
      Forall (fun u => ltb N u cr = true) us /\ (length us <= fuel)%nat /\
      ((length us = fuel /\ s = map sc us ++ s') \/
       ((length us < fuel)%nat /\ exists u, ltb N u cr = false /\ s = map sc us ++ sc u :: s')) /\
      length mask' = v /\
      forall p, (p < v)%nat -> nth p mask' false = nth p mask false || in_block v start j (j + length us) p.
Proof. intros N cr v start fuel j. exact (exp_row_spec cr v start fuel j). Qed.
Print Assumptions C19_exponential_block_length.

(* dither: F = lo + u * (hi - lo): affine and increasing in the draw, inside [lo, hi] *)
Theorem C19_dither_affine : forall lo hi u : Q, (scale_of (N := Qn) lo hi u == lo + u * (hi - lo))%Q.
Proof. exact scale_affine. Qed.
Print Assumptions C19_dither_affine.
Theorem C19_dither_range : forall lo hi u : Q, (lo <= hi)%Q -> unitq u -> (lo <= scale_of (N := Qn) lo hi u <= hi)%Q.
Proof. exact scale_in_range. Qed.
Print Assumptions C19_dither_range.

(* jitter: Feff / F = 1 + gamma * (u - 1/2): uniform and centred on 1 *)
Theorem C19_jitter_centred : forall g f e : Q, (eff (N := Qn) g f ((1 # 2) + e) == f * (1 + g * e))%Q.
Proof. exact eff_centred. Qed.
Print Assumptions C19_jitter_centred.

(* bounce-back and rand-init: bound + u * (reference - bound) with the coordinate's own draw *)
Theorem C19_repair_affine : forall l h b u : Q,
  lower_val (N := Qn) BounceBack l h b u = (l + u * (b - l))%Q /\ upper_val (N := Qn) BounceBack l h b u = (h - u * (h - b))%Q /\
  lower_val (N := Qn) RandInit l h b u = (l + u * (h - l))%Q /\ upper_val (N := Qn) RandInit l h b u = (h - u * (h - l))%Q.
Proof. intros. repeat split; reflexivity. Qed.
Print Assumptions C19_repair_affine.
