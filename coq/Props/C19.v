(* C19  Stochastic operators sample the distributions their parameters name.  Statements only (functional characterisation).
   Each stochastic operator is a deterministic function of the uniform draws it consumes; the theorems say which
   function.  Under i.i.d. U[0,1) draws (numpy, trusted) the named distributions follow: a coordinate whose mask bit is
   [u < CR] for its own draw is Bernoulli(CR) and independent of the others; a block length equal to the number of leading
   draws below CR, capped at n_var, is geometric in CR truncated at n_var; an increasing affine image of a uniform draw is
   uniform on the image interval. *)
From Coq Require Import List Bool Arith QArith.
From PV Require Import Base.Num Base.NumQ Base.Res Base.ListX Model.Repair Model.Mutate Model.Cross
  Proofs.RepairP Proofs.MutateP Proofs.CrossP.
Import ListNotations.

(* binomial crossover: one draw per coordinate; bit (i, j) = [u_ij < CR], a function of its own draw only *)
Theorem C19_binomial_bits :
  forall (N : num) n v (cr : N) s rows s',
    cross_binomial n v cr false s = Ok (rows, s') ->
    exists us, s = ERand [n; v] us :: s' /\ length us = (n * v)%nat /\ rows = reshape n v (map (fun u => ltb N u cr) us).
Proof. exact @bin_mask_bits. Qed.
Print Assumptions C19_binomial_bits.

(* exponential crossover: starting at the row's start index the block grows while the scalar draws stay below CR, at most
   n_var times; exactly those draws (and the first failing one) are consumed *)
Theorem C19_exponential_block_length :
  forall (N : num) (cr : N) v start fuel j mask s mask' s',
    exp_row cr v start j fuel mask s = Ok (mask', s') -> (0 < v)%nat -> length mask = v ->
    exists us,
      Forall (fun u => ltb N u cr = true) us /\ (length us <= fuel)%nat /\
      ((length us = fuel /\ s = map sc us ++ s') \/
       ((length us < fuel)%nat /\ exists u, ltb N u cr = false /\ s = map sc us ++ sc u :: s')) /\
      length mask' = v /\
      forall p, (p < v)%nat -> nth p mask' false = nth p mask false || in_block v start j (j + length us) p.
Proof. intros N cr v start fuel j. exact (exp_row_spec cr v start fuel j). Qed.
Print Assumptions C19_exponential_block_length.

(* dither: F = lo + u * (hi - lo): affine and increasing in the draw, inside [lo, hi] *)
Theorem C19_dither_affine : forall lo hi u : Q, (scale_of (N := Qn) lo hi u == lo + u * (hi - lo))%Q.
Proof. exact scale_affine. Qed.
Print Assumptions C19_dither_affine.
Theorem C19_dither_range : forall lo hi u : Q, (lo <= hi)%Q -> unitq u -> (lo <= scale_of (N := Qn) lo hi u <= hi)%Q.
Proof. exact scale_in_range. Qed.
Print Assumptions C19_dither_range.

(* jitter: Feff / F = 1 + gamma * (u - 1/2): uniform and centred on 1 *)
Theorem C19_jitter_centred : forall g f e : Q, (eff (N := Qn) g f ((1 # 2) + e) == f * (1 + g * e))%Q.
Proof. exact eff_centred. Qed.
Print Assumptions C19_jitter_centred.

(* bounce-back and rand-init: bound + u * (reference - bound) with the coordinate's own draw *)
Theorem C19_repair_affine : forall l h b u : Q,
  lower_val (N := Qn) BounceBack l h b u = (l + u * (b - l))%Q /\ upper_val (N := Qn) BounceBack l h b u = (h - u * (h - b))%Q /\
  lower_val (N := Qn) RandInit l h b u = (l + u * (h - l))%Q /\ upper_val (N := Qn) RandInit l h b u = (h - u * (h - l))%Q.
Proof. intros. repeat split; reflexivity. Qed.
Print Assumptions C19_repair_affine.

(* randomly drawn parents: the rejection sampling of des.py, column by column.  [cols_hit targets rows segs P]: the parent
   matrix P grows from the fixed prefix `rows` by one column per segment (col0, hs, fuel); [rows_hit]/[row_hit]: for every row
   the full history of draws made for it in that column is col0[r] :: hs[r], the entry it ends with is the LAST of them, it is
   admissible (not the target, not yet in the row) and every earlier one was inadmissible; [col_events]: the stream consumed
   is exactly the initial draw for all rows followed by the redraw rounds, each round delivering the next history element of
   every row that is still unfinished, in row order - so every delivered value belongs to exactly one row's history, and a row
   receives nothing after its first admissible value.  Under i.i.d. uniform draws the first admissible element of a row's
   own history is uniform on its admissible individuals, independently of the other rows (that step is probability: on paper). *)
From PV Require Import Model.Select Proofs.SelectHitP.
Theorem C19_parents_are_first_admissible_draws :
  forall (T : Type) n_pop targets k rows (s : list (event T)) P s',
    fill_cols (T := T) k n_pop rows targets s = Ok (P, s') -> length targets = length rows ->
    exists segs, length segs = k /\ cols_hit targets rows segs P /\ s = concat (map (col_events n_pop (length targets)) segs) ++ s'.
Proof. intros T n_pop targets. exact (fill_cols_first_hit n_pop targets). Qed.
Print Assumptions C19_parents_are_first_admissible_draws.

Theorem C19_rand_parents_are_first_admissible_draws :
  forall (T : Type) n_pop n_select n_parents ranks (s : list (event T)) P s',
    select (T := T) SRand n_pop n_select n_parents ranks s = Ok (P, s') ->
    exists segs, length segs = n_parents /\ cols_hit (seq 0 n_select) (repeat [] n_select) segs P /\
      s = concat (map (col_events n_pop n_select) segs) ++ s'.
Proof. intros T. exact (select_rand_first_hit (T := T)). Qed.
Print Assumptions C19_rand_parents_are_first_admissible_draws.

(* the same for the variants that fix the best individual and for 'ranked' (which only reorders the drawn parents afterwards) *)
Theorem C19_best_parents_are_first_admissible_draws :
  forall (T : Type) n_pop n_select n_parents ranks (s : list (event T)) P s',
    select (T := T) SBest n_pop n_select n_parents ranks s = Ok (P, s') ->
    exists segs, length segs = (n_parents - 1)%nat /\ cols_hit (seq 0 n_select) (repeat [0%nat] n_select) segs P /\
      s = concat (map (col_events n_pop n_select) segs) ++ s'.
Proof. intros T. exact (select_best_first_hit (T := T)). Qed.
Print Assumptions C19_best_parents_are_first_admissible_draws.

Theorem C19_ranked_parents_are_first_admissible_draws :
  forall (T : Type) n_pop n_select n_parents ranks (s : list (event T)) P s',
    select (T := T) SRanked n_pop n_select n_parents ranks s = Ok (P, s') ->
    exists P0 segs, P = map (rank_sort_row (fun i => nth i (ranks_from ranks) 0%nat)) P0 /\ length segs = n_parents /\
      cols_hit (seq 0 n_select) (repeat [] n_select) segs P0 /\ s = concat (map (col_events n_pop n_select) segs) ++ s'.
Proof. intros T. exact (select_ranked_first_hit (T := T)). Qed.
Print Assumptions C19_ranked_parents_are_first_admissible_draws.

(* non-vacuity: 4 individuals, 2 rows; row 0 first draws its own target (0) and is redrawn once, row 1 is accepted at once *)
Example C19_first_hit_nonvacuous :
  fill_cols (T := Q) 1 4 [[]; []] [0; 1]%nat [EChoice 4 2 [0; 2]%nat; EChoice 4 1 [3]%nat] = Ok ([[3]; [2]]%nat, []) /\
  rows_hit [[]; []] [0; 1]%nat [0; 2]%nat [3; 2]%nat [[3]; []]%nat.
Proof. split; [vm_compute; reflexivity|]. cbn. unfold row_hit. cbn. repeat split; auto; discriminate. Qed.

(* The probability step, in counting form (no measure theory, every bound L on the number of draws): among ALL n_pop^L sequences of L
   draws - equally likely under i.i.d. uniform draws - the number of sequences whose first admissible element is a is the same for
   every admissible a; an inadmissible individual (the target, an earlier column, the fixed best) is delivered by none; the loop is
   still undecided after L draws on exactly (number of inadmissible individuals)^L sequences.  Together with the theorems above (the
   parent a row ends with is the first admissible draw of its own history) the delivered parent is uniform over the admissible
   individuals, conditionally on termination within L draws, for every L. *)
From PV Require Import Proofs.FirstHitCountP.
Theorem C19_first_admissible_draw_is_uniform :
  forall (n_pop : nat) (adm : nat -> bool) (a b L : nat),
    admissible n_pop adm a = true -> admissible n_pop adm b = true ->
    count (hit_is adm a) (seqs n_pop L) = count (hit_is adm b) (seqs n_pop L).
Proof. exact first_admissible_draw_is_uniform. Qed.
Print Assumptions C19_first_admissible_draw_is_uniform.

Theorem C19_inadmissible_individual_is_never_delivered :
  forall (n_pop : nat) (adm : nat -> bool) (a L : nat),
    admissible n_pop adm a = false -> count (hit_is adm a) (seqs n_pop L) = 0%nat.
Proof. exact inadmissible_never_delivered. Qed.
Print Assumptions C19_inadmissible_individual_is_never_delivered.

Theorem C19_hit_counts_closed_form :
  forall (n_pop : nat) (adm : nat -> bool) (a L : nat), admissible n_pop adm a = true ->
    (count (hit_is adm a) (seqs n_pop L) * (n_pop - nonadm n_pop adm) + nonadm n_pop adm ^ L = n_pop ^ L)%nat /\
    count (no_hit adm) (seqs n_pop L) = (nonadm n_pop adm ^ L)%nat /\
    length (seqs n_pop L) = (n_pop ^ L)%nat.
Proof.
  intros n_pop adm a L Ha. split; [exact (hit_count_closed n_pop adm a L Ha)|].
  split; [exact (no_hit_count n_pop adm L)|exact (seqs_length n_pop L)].
Qed.
Print Assumptions C19_hit_counts_closed_form.

(* the sequences counted are exactly the possible histories, and the parent of a row (row_hit of the theorems above: history c :: h,
   delivered value c') is the first admissible element of its history *)
Theorem C19_row_parent_is_first_hit_of_its_history :
  forall (n_pop : nat) (row : list nat) (t c c' : nat) (h : list nat),
    row_hit row t c c' h ->
    first_hit (fun x => negb (is_bad row t x)) (c :: h) = Some c' /\
    (Forall (fun x => (x < n_pop)%nat) (c :: h) -> In (c :: h) (seqs n_pop (S (length h)))).
Proof.
  intros n_pop row t c c' h [Hl [Hf [Hc _]]]. split.
  - apply (first_hit_of_history (is_bad row t) (c :: h) c c'); [discriminate| |exact Hf|exact Hc].
    rewrite Hl. destruct h as [|y h']; [reflexivity|]. cbn [last]. destruct h' as [|z h'']; [reflexivity|].
    apply last_indep.
  - intros Hb. apply seqs_spec. split; [reflexivity|exact Hb].
Qed.
Print Assumptions C19_row_parent_is_first_hit_of_its_history.

Example C19_uniform_counting_nonvacuous :
  let adm := fun x => negb ((x =? 2) || (x =? 4))%nat in
  map (fun a => count (hit_is adm a) (seqs 6 3)) [0; 1; 2; 3; 4; 5]%nat = [52; 52; 0; 52; 0; 52]%nat
  /\ count (no_hit adm) (seqs 6 3) = 8%nat /\ admissible 6 adm 3 = true.
Proof. vm_compute. repeat split; reflexivity. Qed.
