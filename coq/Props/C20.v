(* C20  Spacing indicator equals the RMS deviation of neighbour distances.  Statements only.
   The model computes   S = sqrt( spacing_radicand (nn_dists D) ),   D = squareform(pdist(F)),
   nn_dists D = second smallest entry of every row, spacing_radicand d = np_sum((d - np_mean d)^2) / n with NumPy's
   pairwise summation.  In exact rational arithmetic (instance Qx; sqrt is monotone, so statements about the
   radicand carry over to S):  *)
From Coq Require Import List Bool Arith QArith Qabs Permutation.
From PV Require Import Base.Num Base.NumQ Base.ListX Model.Crowding Model.Fallback Model.Spacing Proofs.SpacingP.
Import ListNotations.
Local Open Scope Q_scope.

(* NumPy's pairwise summation (any length: sequential below 8, 8 accumulators up to 128, recursive halving above)
   is the mathematical sum *)
Theorem C20_numpy_sum_is_the_sum : forall a : list Q, np_sum (X := Qx) a == qsum a.
Proof. exact np_sum_exact. Qed.
Print Assumptions C20_numpy_sum_is_the_sum.

(* hence the model's radicand is the mean squared deviation from the mean *)
Theorem C20_radicand_is_msd : forall d : list Q, d <> [] -> spacing_radicand (X := Qx) d == radicand d.
Proof. exact spacing_radicand_exact. Qed.
Print Assumptions C20_radicand_is_msd.

(* the second smallest entry of a row l1 ++ m :: l2 whose own entry m is minimal is the distance to the nearest
   other point: a lower bound of the other entries that is attained (duplicates give 0) *)
Theorem C20_second_smallest_is_nearest_neighbour :
  forall (l1 l2 : list Q) (m : Q),
    (forall y, In y (l1 ++ l2) -> m <= y) -> l1 ++ l2 <> [] ->
    let s := nth 1 (sort_vals (X := Qx) (l1 ++ m :: l2)) 0 in
    (forall y, In y (l1 ++ l2) -> s <= y) /\ (exists y, In y (l1 ++ l2) /\ s == y).
Proof. exact second_smallest_is_nn. Qed.
Print Assumptions C20_second_smallest_is_nearest_neighbour.

Theorem C20_nonnegative : forall d : list Q, d <> [] -> 0 <= radicand d.
Proof. exact radicand_nonneg. Qed.
Print Assumptions C20_nonnegative.

Theorem C20_zero_if_equally_spaced : forall (d : list Q) c, d <> [] -> (forall x, In x d -> x == c) -> radicand d == 0.
Proof. exact radicand_zero_if_equal. Qed.
Print Assumptions C20_zero_if_equally_spaced.

Theorem C20_reordering : forall d d' : list Q, Permutation d d' -> radicand d == radicand d'.
Proof. exact radicand_perm. Qed.
Print Assumptions C20_reordering.

(* uniform scaling by c multiplies every (city-block) distance by |c| and the radicand by c^2, i.e. S by |c| *)
Theorem C20_scaling_radicand : forall c (d : list Q), d <> [] -> radicand (map (Qmult c) d) == c * c * radicand d.
Proof. exact radicand_scale. Qed.
Print Assumptions C20_scaling_radicand.

Theorem C20_cityblock_scaling : forall c (a b : list Q),
  dist (X := Qx) Cityblock (map (Qmult c) a) (map (Qmult c) b) == Qabs c * dist (X := Qx) Cityblock a b.
Proof. exact cityblock_scaling. Qed.
Print Assumptions C20_cityblock_scaling.

(* translating all points leaves every (city-block) distance, hence S, unchanged *)
Theorem C20_cityblock_translation : forall a b t : list Q,
  dist (X := Qx) Cityblock (map2 Qplus a t) (map2 Qplus b t) == dist (X := Qx) Cityblock a b
  \/ length a <> length t \/ length b <> length t.
Proof. exact cityblock_translation. Qed.
Print Assumptions C20_cityblock_translation.

Theorem C20_cityblock_is_a_distance : forall a b : list Q,
  0 <= dist (X := Qx) Cityblock a b /\ dist (X := Qx) Cityblock a b == dist (X := Qx) Cityblock b a.
Proof. intros a b. split; [apply cityblock_nonneg|apply cityblock_sym]. Qed.
Print Assumptions C20_cityblock_is_a_distance.

(* non-vacuity: four points on a line, unequal gaps *)
Example C20_nonvacuous :
  spacing_radicand (X := Qx) (nn_dists (X := Qx) (dist_matrix (X := Qx) Cityblock [[0]; [1]; [3]; [4]]%Q)) == 0
  /\ ~ spacing_radicand (X := Qx) (nn_dists (X := Qx) (dist_matrix (X := Qx) Cityblock [[0]; [1]; [3]; [7]]%Q)) == 0.
Proof. split; vm_compute; [reflexivity|discriminate]. Qed.

(* "with zero_to_one it equals the value computed on objectives rescaled by the ideal and nadir points": the coordinate map of the
   modelled ZeroToOneNormalization (extended rationals: the NaN trick for ideal = nadir is part of the model): (x - ideal) / (nadir - ideal),
   inside [0, 1] for ideal <= x <= nadir; a dimension with ideal = nadir is only translated *)
From PV Require Import Base.NumEQ Model.Spacing Proofs.Z2oP.
Theorem C20_zero_to_one_is_the_affine_rescaling :
  forall l u x : Q,
    ((l < u)%Q -> z2o_coord (X := EQx) (Fin l) (Fin u) (Fin x) = Fin ((x + - l) / (u + - l)) /\
                  ((l <= x)%Q -> (x <= u)%Q -> (0 <= (x + - l) / (u + - l))%Q /\ ((x + - l) / (u + - l) <= 1)%Q)) /\
    ((l == u)%Q -> z2o_coord (X := EQx) (Fin l) (Fin u) (Fin x) = Fin (x + - l)).
Proof. exact z2o_coord_spec. Qed.
Print Assumptions C20_zero_to_one_is_the_affine_rescaling.
