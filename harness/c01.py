"""C01  Offspring never leave the problem's box bounds."""
import numpy as np
from harness.core import *
from harness import gens
from harness.c09 import VARS, ranks_term
from harness.c10 import fc_term, gamma_term
from harness.c11 import NAMES as REPAIR_NAMES

SELS = list(VARS)


def box_oracle(X, xl, xu, what, tag="C01"):
    X = np.asarray(X)
    bad = np.argwhere((X < xl) | (X > xu) | np.isnan(X))
    if len(bad):
        i, j = bad[0]
        return "%s-box: %s (%d,%d) = %r outside [%r, %r]" % (tag, what, i, j, X[i, j], xl[j], xu[j])
    return None


def gen_variant_case(rng, with_pm=True):
    sel = rng.choice(SELS); y = rng.choice([1, 1, 2]) if "-to-" in sel else rng.choice([1, 1, 2, 3])
    nd = y + (1 if "-to-" in sel else 0)
    n_par = 1 + 2 * nd
    n = n_par + rng.choice([1, 2, 4, 7]); v = rng.choice([1, 2, 3, 5])
    xl, xu, kinds = gens.bounds(rng, v)
    X = gens.in_box(rng, xl, xu, n, grid=rng.random() < 0.3)
    mode = rng.choice(["perm", "ties", "none"])
    ranks = list(range(n)) if mode == "perm" else [rng.randrange(0, 3) for _ in range(n)] if mode == "ties" else [None] * n
    if mode == "perm" and rng.random() < 0.5:
        rng.shuffle(ranks)
    case = {"sel": sel, "y": y, "cx": rng.choice(["bin", "exp"]),
            "CR": float(rng.choice([0.0, 1.0, 0.5, 0.9, 0.2])).hex(),
            "F": rng.choice([None, 0.5, 2.0, 7.0, (0.5, 1.0), (0.0, 1.0), (0.5, 3.0)]),
            "gamma": rng.choice([None, 1e-4, 1.9]),
            "repair": rng.choice(list(REPAIR_NAMES)),
            "xl": enc(xl), "xu": enc(xu), "kinds": kinds, "X": enc(X), "ranks": ranks,
            "pm": bool(with_pm and rng.random() < 0.15), "seed": rng.randrange(2 ** 31)}
    if rng.random() < 0.12:
        # integer-coded population on an integral box (decision vectors stored as int64; offspring are real-valued)
        lo = np.array([float(rng.randint(-6, 0)) for _ in range(v)]); hi = lo + np.array([float(rng.randint(0, 9)) for _ in range(v)])
        Xi = np.array([[float(rng.randint(int(lo[j]), int(hi[j]))) for j in range(v)] for _ in range(n)])
        if rng.random() < 0.5:      # the usual half-unit margins of integer-coded variables
            lo = lo - 0.5; hi = hi + 0.5
        case.update(xl=enc(lo), xu=enc(hi), X=enc(Xi), kinds=["integral"] * v, xdtype="int64", pm=False)
    if rng.random() < 0.25:
        case["rand_values"] = [float(rng.choice([0.0, gens.ONE_M, 0.5, 2.0 ** -53, rng.random()])).hex() for _ in range(13)]
    if rng.random() < 0.25:
        case["prime"] = rng.choice([True, "inplace"])
    return case


def make_problem(xl, xu, n_obj=1, n_ieq=0):
    from pymoo.core.problem import Problem
    return Problem(n_var=len(xl), n_obj=n_obj, n_ieq_constr=n_ieq, xl=np.array(xl), xu=np.array(xu))


def run_variant(case):
    from pymoode.operators.variant import DifferentialVariant
    from pymoo.core.population import Population
    from pymoo.operators.mutation.pm import PM
    xl, xu, X = decarr(case["xl"]), decarr(case["xu"]), decarr(case["X"], 2)
    F = tuple(case["F"]) if isinstance(case["F"], list) else case["F"]
    variant = "DE/%s/%d/%s" % (case["sel"], case["y"], case["cx"])
    dv = DifferentialVariant(variant=variant, CR=float.fromhex(case["CR"]), F=F, gamma=case["gamma"], de_repair=case["repair"],
                             genetic_mutation=PM() if case["pm"] else None)
    pop = Population.new("X", X.astype(case["xdtype"]) if "xdtype" in case else X.copy())
    for ind, r in zip(pop, case["ranks"]):
        if r is not None:
            ind.set("rank", r)
    prob = make_problem(xl, xu)
    rv = [float.fromhex(h) for h in case["rand_values"]] if "rand_values" in case else None
    if case.get("prime"):
        # the operator object has been used before, on a problem with the same number of variables and a wider box
        # ("inplace": the SAME problem object, whose bound arrays are then tightened in place - a zoom-in restart)
        prob0 = make_problem(xl - 1.0 - 0.5 * np.abs(xl), xu + 2.0 + 0.5 * np.abs(xu))
        pop0 = Population.new("X", X.copy())
        for ind, r in zip(pop0, case["ranks"]):
            if r is not None:
                ind.set("rank", r)
        np.random.seed(case["seed"] + 7)
        dv.do(prob0, pop0, len(pop0))
        if case["prime"] == "inplace":
            prob = prob0
            prob.xl[:] = xl; prob.xu[:] = xu
    np.random.seed(case["seed"])
    mark = {}
    with Recorder(rand_values=rv) as rec:
        gm = dv.genetic_mutation

        class Wrap:
            def __call__(self, problem, trials, **kw):
                mark["n_events"] = len(rec.events)
                mark["trials"] = trials.get("X").copy()
                return gm(problem, trials, **kw)
        dv.genetic_mutation = Wrap()
        off = dv.do(prob, pop, len(pop))
    return {"off": enc(off.get("X")), "trials": enc(mark["trials"]), "events": enc_events(rec.events[:mark["n_events"]]),
            "n_parents": dv.n_parents, "frame": bool(np.array_equal(pop.get("X"), X))}


def vcfg_term(case):
    nd = case["y"] + (1 if "-to-" in case["sel"] else 0)
    F = tuple(case["F"]) if isinstance(case["F"], list) else case["F"]
    return ("{| v_sel := %s; v_ndiffs := %d; v_fc := %s; v_gamma := %s; v_strat := %s; v_cx := %s; v_cr := %s |}" % (
        VARS[case["sel"]], nd, fc_term(F), gamma_term(case["gamma"]), REPAIR_NAMES[case["repair"]],
        "Bin" if case["cx"] == "bin" else "Exp", cfs(float.fromhex(case["CR"]))))


def variant_term(case, obs, popX=None, ranks=None, bounds=True):
    X = decarr(case["X"], 2) if popX is None else popX
    b = "(Some (%s, %s))" % (cfl(decarr(case["xl"])), cfl(decarr(case["xu"]))) if bounds else "None"
    return ("match variant_do (N:=Fn) %s %s %s %s %s with\n  | Ok (U, rest) => no_events rest && fmat_same U %s\n  | Err _ => false end" % (
        vcfg_term(case), cfmat(X), ranks_term(case["ranks"] if ranks is None else ranks), b, cevents(dec_events(obs["events"])), cfmat(decarr(obs["trials"], 2))))


class C01(Check):
    ID = "C01"
    IMPORTS = "From PV Require Import Model.Repair Model.Mutate Model.Cross Model.Select Model.Variant."
    RULE = ("DifferentialVariant(variant, CR, F, gamma, de_repair[, PM]).do on bounded problems with in-box parents (15% of coordinates on each bound; "
            "zero-width / 1-ulp / tiny / asymmetric / large ranges; 12% integer-coded int64 populations on integral or half-integral boxes; in 20% of the cases the operator object has served a problem with a wider box before), all 6 selections x 1..3 differences x bin/exp x 4 repairs, F up to 7, gamma up to 1.9, "
            "recorded and boundary-scripted draws; the whole pipeline (selection -> mutation -> repair -> crossover) is compared bit-exactly with the model, "
            "PM (if any) is an oracle whose output is checked against the box; non-trivial = at least one repair draw or a tiny/zero range; distinct by hash")
    ASSUMPTIONS = ["exact-arithmetic theorem (Q): rounding in bounce-back/rand-init is covered only by the bit-exact runs plus the float box check on every offspring",
                   "pymoo genetic mutation (PM) is an oracle with contract 'maps the box into the box', validated per call"]
    QUICK_N = 400
    THOROUGH_N = 6000

    def gen(self, n):
        for _ in range(n):
            yield gen_variant_case(self.rng)

    def run(self, case):
        return run_variant(case)

    def oracle(self, case, obs):
        xl, xu = decarr(case["xl"]), decarr(case["xu"])
        if not obs["frame"]:
            return "C01-frame: parent population modified by the mating"
        nd = case["y"] + (1 if "-to-" in case["sel"] else 0)
        if obs["n_parents"] != 1 + 2 * nd:
            return "C01-nparents: variant DE/%s/%d uses %d parents" % (case["sel"], case["y"], obs["n_parents"])
        off = decarr(obs["off"], 2)
        if off.shape != decarr(case["X"], 2).shape:
            return "C01-shape: %s offspring for %s parents" % (off.shape, decarr(case["X"], 2).shape)
        return box_oracle(decarr(obs["trials"], 2), xl, xu, "trial vector") or box_oracle(off, xl, xu, "offspring")

    def coq(self, case, obs):
        return variant_term(case, obs)

    def nontrivial(self, case, obs):
        n_rand1 = sum(1 for e in obs["events"] if e[0] == "rand" and len(e[1]) == 1)
        return n_rand1 > 0 or any(k in ("zero", "ulp", "tiny") for k in case["kinds"])

    def classes(self, case, obs):
        out = [case["sel"], case["cx"], case["repair"], "y=%d" % case["y"]]
        if case["pm"]: out.append("with-PM")
        if "rand_values" in case: out.append("scripted-draws")
        out += ["range-" + k for k in set(case["kinds"])]
        if case.get("prime"): out.append("operator-reused" + ("-bounds-tightened-in-place" if case["prime"] == "inplace" else ""))
        if "xdtype" in case: out.append("population-" + case["xdtype"])
        return out

    def explain(self, case, obs):
        return eval_print(self.ID, self.IMPORTS, ["variant_do (N:=Fn) %s %s %s (Some (%s, %s)) %s" % (
            vcfg_term(case), cfmat(decarr(case["X"], 2)), ranks_term(case["ranks"]), cfl(decarr(case["xl"])), cfl(decarr(case["xu"])),
            cevents(dec_events(obs["events"])))])


if __name__ == "__main__":
    cli(C01)
