"""C02  Single-objective DE replaces one-to-one and never loses ground."""
import numpy as np
from harness.core import *
from harness import gens


def sind_term(i, x, f, cv, feas):
    return "(@Build_sind Fn %d %s %s %s %s)" % (i, cfl(x), cfs(f), cfs(cv), cbool(feas))


def pop_term(ids, X, F, CV, FEAS):
    return "[" + ";\n    ".join(sind_term(i, x, f, cv, fe) for i, x, f, cv, fe in zip(ids, X, F, CV, FEAS)) + "]"


def repl_oracle(constr, pX, pF, pCV, pFeas, oX, oF, oCV, oFeas, new_ids, new_ranks, tag="C02"):
    """ids: parents 0..n-1, offspring n..2n-1"""
    n = len(pX)
    if len(new_ids) != n:
        return "%s-size: population size changed from %d to %d" % (tag, n, len(new_ids))
    if len(set(new_ids)) != n:
        return "%s-dup-entry: an individual appears twice" % tag
    S = set(new_ids)
    for k in range(n):
        if constr:
            better = ((not pFeas[k]) and (not oFeas[k]) and oCV[k] < pCV[k]) or ((not pFeas[k]) and oFeas[k]) or (pFeas[k] and oFeas[k] and oF[k] < pF[k])
        else:
            better = oF[k] < pF[k]
        dup = any(np.array_equal(oX[k], oX[j]) for j in range(k)) or any(np.array_equal(oX[k], pX[j]) for j in range(n))
        want_off = bool(better and not dup)
        has_p, has_o = (k in S), (n + k in S)
        if has_p == has_o:
            return "%s-slot: slot %d holds %s" % (tag, k, "both parent and offspring" if has_p else "neither parent nor offspring")
        if has_o != want_off:
            return "%s-rule: slot %d: offspring %s (better=%s duplicate=%s; parent F=%r CV=%r, offspring F=%r CV=%r)" % (
                tag, k, "accepted" if has_o else "rejected", better, dup, pF[k], pCV[k], oF[k], oCV[k])
    allF = list(pF) + list(oF); allCV = list(pCV) + list(oCV)
    keys = [(allCV[i], allF[i]) for i in new_ids]
    for a in range(n - 1):
        if keys[a] > keys[a + 1]:
            return "%s-order: population not ordered best-first at position %d: %r then %r" % (tag, a, keys[a], keys[a + 1])
    if list(new_ranks) != list(range(n)):
        return "%s-rank: rank attributes %s are not the positions" % (tag, list(new_ranks))
    old_best = min((pCV[k], pF[k]) for k in range(n))
    if keys[0] > old_best:
        return "%s-worse: best went from %r to %r" % (tag, old_best, keys[0])
    return None


def gen_repl_case(rng):
    n = rng.choice([1, 2, 3, 5, 8]); v = rng.choice([1, 2, 3])
    constr = rng.random() < 0.65
    grid = rng.random() < 0.6
    scales = rng.random() < 0.25     # objective magnitudes that dwarf the violations, tiny violation differences, infinite objectives
    def val():
        if scales:
            return rng.choice([1e18, -1e18, 2e18, 1e9, 1e9 + 1, float("inf"), 1.0, 0.0, 1e18 + 4096])
        return float(rng.randint(0, 3)) if grid else rng.uniform(0, 3)
    pX = [[float(rng.randint(0, 2)) if grid else rng.random() for _ in range(v)] for _ in range(n)]
    oX = []
    for k in range(n):
        r = rng.random()
        if r < 0.15: oX.append(list(pX[k]))
        elif r < 0.3: oX.append(list(pX[rng.randrange(n)]))
        elif r < 0.4 and oX: oX.append(list(oX[rng.randrange(len(oX))]))
        elif r < 0.5:
            # almost a copy (of its target, of another member, of an earlier trial): one coordinate differs by an ulp or by 1e-17 .. 1e-12.
            # Not a duplicate: only exact copies are refused
            src = list(rng.choice([pX[k], pX[rng.randrange(n)]] + ([oX[rng.randrange(len(oX))]] if oX else [])))
            j = rng.randrange(v); x = src[j]
            d = rng.choice(["ulp", 1e-17, 3e-17, 1e-16, 1e-12])
            src[j] = (float(np.nextafter(x, 10.0)) if x != 0.0 else 1e-17) if d == "ulp" else x + d if x + d != x else float(np.nextafter(x, 10.0))
            oX.append(src)
        else: oX.append([float(rng.randint(0, 2)) + 0.5 if grid else rng.random() for _ in range(v)])
    mode = rng.choice(["mixed", "mixed", "allfeas", "allinfeas"]) if constr else "unconstrained"
    def gval():
        if not constr: return None
        if scales and mode != "allfeas":
            return [rng.choice([1.0, 1.0 + 1e-8, 2.0, 1e-8, 2e-8, 0.5, -1.0, 0.0] if mode == "mixed" else [1.0, 1.0 + 1e-8, 2.0, 1e-8, 2e-8, 0.5])]
        if mode == "allfeas": return [-1.0]
        if mode == "allinfeas": return [float(rng.randint(1, 3)) if grid else rng.uniform(0.001, 2)]
        return [float(rng.randint(-1, 2)) if grid else rng.choice([-1.0, 0.0, 1e-12, rng.uniform(-1, 2)])]
    case = {"constr": constr, "pX": pX, "oX": oX, "pF": [val() for _ in range(n)], "oF": [val() for _ in range(n)],
            "pG": [gval() for _ in range(n)], "oG": [gval() for _ in range(n)], "mode": mode, "scales": scales,
            "api": rng.choice(["do", "do", "indices", "inplace"])}
    if rng.random() < 0.3:
        case["prime"] = rng.choice(["unconstrained", "allfeas"])
    return case


def build_pops(case):
    from pymoo.core.population import Population
    from pymoo.core.problem import Problem
    n = len(case["pX"]); v = len(case["pX"][0])
    prob = Problem(n_var=v, n_obj=1, n_ieq_constr=1 if case["constr"] else 0, xl=np.zeros(v) - 10, xu=np.zeros(v) + 10)
    def mk(X, F, G):
        kw = ["X", np.array(X, dtype=float), "F", np.array(F, dtype=float).reshape(-1, 1)]
        if case["constr"]:
            kw += ["G", np.array(G, dtype=float).reshape(-1, 1)]
        return Population.new(*kw)
    return prob, mk(case["pX"], case["pF"], case["pG"]), mk(case["oX"], case["oF"], case["oG"])


def run_repl(case):
    from pymoode.survival.replacement import ImprovementReplacement
    prob, pop, off = build_pops(case)
    n = len(pop)
    ids = {id(ind): i for i, ind in enumerate(list(pop) + list(off))}
    pCV, pFeas = pop.get("CV")[:, 0].copy(), pop.get("feasible")[:, 0].copy()
    oCV, oFeas = off.get("CV")[:, 0].copy(), off.get("feasible")[:, 0].copy()
    slots_before = [id(ind) for ind in pop]
    obs = {"pCV": enc(pCV), "pFeas": pFeas.tolist(), "oCV": enc(oCV), "oFeas": oFeas.tolist()}
    surv = ImprovementReplacement()
    if case.get("prime"):
        # the same operator object has been used before (an algorithm object keeps one for all generations and runs):
        # on a population without constraints, or with every member feasible
        pcase = dict(case); pcase["constr"] = case["prime"] == "allfeas"
        pcase["pG"] = [[-1.0]] * n; pcase["oG"] = [[-1.0]] * n
        prob0, pop0, off0 = build_pops(pcase)
        surv.do(prob0, pop0, off0)
    if case["api"] == "indices":
        I = surv.do(prob, pop, off, return_indices=True)
        obs["mask"] = np.asarray(I).astype(bool).tolist()
        obs["pop_untouched"] = [id(ind) for ind in pop] == slots_before
        return obs
    new = surv.do(prob, pop, off, inplace=(case["api"] == "inplace"))
    obs["new_ids"] = [ids.get(id(ind), -1) for ind in new]
    obs["new_ranks"] = [ind.get("rank") for ind in new]
    obs["pop_untouched"] = True if case["api"] == "inplace" else ([id(ind) for ind in pop] == slots_before)
    obs["frame"] = bool(np.array_equal(pop.get("X") if case["api"] != "inplace" else np.array(case["pX"]), np.array(case["pX"], dtype=float)) and
                        np.array_equal(off.get("X"), np.array(case["oX"], dtype=float)) and np.array_equal(off.get("F")[:, 0], np.array(case["oF"], dtype=float)))
    return obs


def repl_terms(case, obs):
    n = len(case["pX"])
    P = pop_term(range(n), case["pX"], case["pF"], decarr(obs["pCV"]), obs["pFeas"])
    O = pop_term(range(n, 2 * n), case["oX"], case["oF"], decarr(obs["oCV"]), obs["oFeas"])
    return P, O


def dehist_oracle(cfg, obs):
    """every generation of a real DE run obeys the one-to-one rule (parents = population before, offspring = infills, slot by slot)"""
    from harness.core import dec
    constr = bool(obs["constr"])
    for G in obs["gens"]:
        if G["gen"] == 0 or not G["pre"]:
            continue
        pre, inf, post = G["pre"], G["infills"], G["post"]
        if len(inf) != len(pre):
            return "C02-offspring: generation %d proposes %d offspring for %d members" % (G["gen"], len(inf), len(pre))
        D = lambda i: obs["data"][str(i)]
        pX = np.array([dec(D(i)["X"]) for i in pre]); oX = np.array([dec(D(i)["X"]) for i in inf])
        pF = [dec(D(i)["F"])[0] for i in pre]; oF = [dec(D(i)["F"])[0] for i in inf]
        pCV = [float.fromhex(D(i)["CV"]) for i in pre]; oCV = [float.fromhex(D(i)["CV"]) for i in inf]
        pFe = [D(i)["feas"] for i in pre]; oFe = [D(i)["feas"] for i in inf]
        pos = {i: k for k, i in enumerate(pre)}; pos.update({i: len(pre) + k for k, i in enumerate(inf)})
        if any(i not in pos for i in post):
            return "C02-foreign: generation %d: the new population contains an individual that is neither a member nor an offspring" % G["gen"]
        m = repl_oracle(constr, pX, pF, pCV, pFe, oX, oF, oCV, oFe, [pos[i] for i in post], G["post_rank"], tag="C02-generation-%d" % G["gen"])
        if m:
            return m
    return None


class C02(Check):
    ID = "C02"
    IMPORTS = ("From PV Require Import Model.Repair Model.Mutate Model.Cross Model.Select Model.Variant Model.Replace "
               "Model.Dominance Model.RankCrowd Model.Algo.")
    RULE = ("ImprovementReplacement().do(problem, pop, off) (also return_indices / inplace) on parent/offspring populations with grid values (ties in F and CV, "
            "CV = 0 vs tiny positive), offspring equal to own parent / another member / an earlier offspring, unconstrained / mixed / all-feasible / "
            "all-infeasible; in 30% of the cases the operator object has served an unconstrained / all-feasible population before; 8% of the cases are whole DE runs (6 generations by ask / evaluate / tell, mostly constrained, plateau-valued or constant objectives) whose every generation is "
            "judged slot by slot and compared with the model's de_step; survivors identified by object identity; non-trivial = at least one tie, duplicate or feasibility change; distinct by hash; one trial in ten is almost a copy (one coordinate an ulp .. 1e-12 away) of its target, another member or an earlier trial")
    ASSUMPTIONS = ["pymoo's duplicate test (Euclidean distance <= 0) is modelled as equality of decision vectors (differs only under underflow of squared differences)",
                   "CV >= 0 and feasible = (CV <= 0) are taken from pymoo's Individual and used as hypotheses of best_never_worse"]
    QUICK_N = 500
    THOROUGH_N = 8000

    def gen(self, n):
        from harness import hist
        for _ in range(n):
            if self.rng.random() < 0.08:
                # whole DE generations (ask / evaluate / tell on the real algorithm object), mostly constrained, with plateau-valued
                # or constant objectives so that offspring often tie with or exceed every objective value of the population
                cfg = hist.gen_hist_case(self.rng, algs=("DE",), n_gen=6)
                cfg["kind"] = "dehist"; cfg["digits"] = self.rng.choice([0, 0, 1, 2])
                if self.rng.random() < 0.35:
                    cfg["fscale"] = 0.0          # constant objective: a pure feasibility problem
                yield cfg
                continue
            yield gen_repl_case(self.rng)

    def run(self, case):
        if case.get("kind") == "dehist":
            from harness import hist
            return hist.run_history(case)
        return run_repl(case)

    def oracle(self, case, obs):
        if case.get("kind") == "dehist":
            return dehist_oracle(case, obs)
        if not obs["pop_untouched"]:
            return "C02-inplace: the caller's population object was changed although inplace=False"
        n = len(case["pX"])
        pX, oX = np.array(case["pX"]), np.array(case["oX"])
        if "mask" in obs:
            for k in range(n):
                o = repl_oracle(case["constr"], pX, case["pF"], decarr(obs["pCV"]), obs["pFeas"], oX, case["oF"], decarr(obs["oCV"]), obs["oFeas"],
                                None, None) if False else None
            # mask mode: compare with the rule directly
            exp = []
            for k in range(n):
                pF, oF, pCV, oCV, pf, of = case["pF"][k], case["oF"][k], decarr(obs["pCV"])[k], decarr(obs["oCV"])[k], obs["pFeas"][k], obs["oFeas"][k]
                better = (((not pf) and (not of) and oCV < pCV) or ((not pf) and of) or (pf and of and oF < pF)) if case["constr"] else oF < pF
                dup = any(np.array_equal(oX[k], oX[j]) for j in range(k)) or any(np.array_equal(oX[k], pX[j]) for j in range(n))
                exp.append(bool(better and not dup))
            if exp != obs["mask"]:
                return "C02-rule: replacement mask %s differs from the rule %s" % (obs["mask"], exp)
            return None
        if not obs["frame"]:
            return "C02-frame: decision vectors or objectives changed"
        return repl_oracle(case["constr"], pX, case["pF"], decarr(obs["pCV"]), obs["pFeas"], oX, case["oF"], decarr(obs["oCV"]), obs["oFeas"],
                           obs["new_ids"], obs["new_ranks"])

    def coq(self, case, obs):
        if case.get("kind") == "dehist":
            from harness import hist
            return hist.history_term(case, obs, ("tell",))
        P, O = repl_terms(case, obs)
        c = cbool(case["constr"])
        if "mask" in obs:
            return "blist_same (repl_mask (N:=Fn) %s %s %s) %s" % (c, P, O, cbl(obs["mask"]))
        if any(r is None for r in obs["new_ranks"]) or -1 in obs["new_ids"]:
            return "false"
        return "nlist_same (map (s_id (N:=Fn)) (de_step (N:=Fn) %s %s %s)) %s && nlist_same %s (seq 0 %d)" % (
            c, P, O, cnl(obs["new_ids"]), cnl(obs["new_ranks"]), len(case["pX"]))

    def nontrivial(self, case, obs):
        if case.get("kind") == "dehist":
            return len(obs["gens"]) >= 3
        pX, oX = case["pX"], case["oX"]
        dup = any(o in pX for o in oX) or len({tuple(o) for o in oX}) < len(oX)
        ties = len(set(case["pF"] + case["oF"])) < 2 * len(pX)
        return bool(dup or ties or case["mode"] == "mixed")

    def classes(self, case, obs):
        if case.get("kind") == "dehist":
            return ["DE-generations", "constant-objective" if case.get("fscale") == 0.0 else "objective-digits-%d" % case["digits"],
                    "constrained" if case["n_ieq"] or case.get("n_eq") else "unconstrained"]
        return [case["mode"], case["api"], "n=%d" % len(case["pX"])] + (["huge-or-infinite-objectives"] if case.get("scales") else []) + (["operator-reused"] if case.get("prime") else [])

    def explain(self, case, obs):
        P, O = repl_terms(case, obs)
        return eval_print(self.ID, self.IMPORTS, ["map (s_id (N:=Fn)) (de_step (N:=Fn) %s %s %s)" % (cbool(case["constr"]), P, O),
                                                   "repl_mask (N:=Fn) %s %s %s" % (cbool(case["constr"]), P, O)])


if __name__ == "__main__":
    cli(C02)
