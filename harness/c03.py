"""C03  Survival returns exactly n_survive distinct, untouched members."""
from harness.core import *
from harness import surv


class C03(Check):
    ID = "C03"
    IMPORTS = "From PV Require Import Model.Dominance Model.RankCrowd."
    ISOLATE = True
    RULE = ("RankAndCrowding / ConstrRankAndCrowding .do(problem, pop, n_survive=k) on synthetic populations (1..5 objectives, 1..24 members, grid values with ties, "
            "duplicates, chains of singleton fronts, single fronts; unconstrained / mixed / all-feasible / all-infeasible with 0..2 inequality and 0..2 equality "
            "constraints), k in 1..n incl. 1 and n, metrics cd/ce/mnn/2nn/pcd(2 obj); survivors identified by id(); every answer of pymoo (split, fronts, "
            "random argsort) and of the crowding function is recorded and validated by the model; non-trivial = a front is split or infeasibles are needed; "
            "distinct by hash. Runs in a forked worker so that a kernel crash is an observation.")
    ASSUMPTIONS = ["pymoo's split_by_feasibility, NonDominatedSorting, randomized_argsort and the crowding values are oracles whose contracts are checked per call by the model",
                   "compiled pcd with 3+ objectives is excluded here (known finding, handled by C13 under isolation/ASan)"]
    QUICK_N = 500
    THOROUGH_N = 8000

    def gen(self, n):
        for _ in range(n):
            yield surv.gen_pop_case(self.rng)

    def run(self, case):
        return surv.run_survival(case)

    def oracle(self, case, obs):
        return surv.oracle_c03(case, obs)

    def coq(self, case, obs):
        return surv.survival_term(case, obs)

    def nontrivial(self, case, obs):
        return any(e[0] == "sort" for e in obs["events"]) or (obs["constr"] and not all(obs["feas"]))

    def classes(self, case, obs):
        out = [case["cls"], case["cf"], case["style"], case["feasmode"], "obj=%d" % len(case["F"][0])]
        if any(e[0] == "sort" for e in obs["events"]): out.append("split-front")
        if case["n_survive"] == len(case["F"]): out.append("k=n")
        if case["n_survive"] == 1: out.append("k=1")
        return out

    def explain(self, case, obs):
        f = "rnc_survival" if case["cls"] == "RankAndCrowding" else "crnc_survival"
        return eval_print(self.ID, self.IMPORTS, ["%s (N:=Fn) %s %s %d %s" % (f, cbool(obs["constr"]), surv.pop_term(case, obs), case["n_survive"], surv.oevents_term(obs["events"]))])


if __name__ == "__main__":
    cli(C03)
