"""C04  Truncation respects dominance ranks and prefers feasible solutions."""
from harness.core import *
from harness import surv
from harness.c03 import C03


class C04(C03):
    ID = "C04"
    RULE = ("RankAndCrowding.do on the populations of C03 (ties, duplicates, chains, single fronts; unconstrained / mixed / all-(in)feasible), all metrics; the survivor set and "
            "the rank attributes are compared with an independent dominance-depth computation on (F, CV, feasible); non-trivial = at least two fronts among "
            "the feasible members or a mixed-feasibility population; distinct by hash")

    def gen(self, n):
        for _ in range(n):
            yield surv.gen_pop_case(self.rng, crnc_bias=0.0)

    def oracle(self, case, obs):
        return surv.oracle_c03(case, obs) or surv.oracle_c04(case, obs)

    def nontrivial(self, case, obs):
        ranks = {r for r, f in zip(obs["rank"], obs["feas"]) if r is not None}
        return len(ranks) >= 2 or (obs["constr"] and len(set(obs["feas"])) == 2)


if __name__ == "__main__":
    cli(C04)
