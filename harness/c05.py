"""C05  GDE3 applies the one-to-one rule before truncation."""
from harness.core import *
from harness import hist
from harness.histcheck import HistCheck


class C05(HistCheck):
    ID = "C05"
    ALGS = ("GDE3", "GDE3", "GDE3MNN", "GDE32NN", "GDE3P")
    PARTS = ("tell",)
    ORACLES = (hist.oracle_c05,)
    RULE = ("GDE3 / GDE3MNN / GDE32NN / GDE3P driven by ask-and-tell for 4 generations on random bounded problems whose objectives and violations are rounded "
            "(ties in every objective, equal CV), 0..2 constraints, both survivals; the candidate list handed to the survival is recorded (class-level wrapper) and "
            "compared with the model slot by slot, then the truncation with recorded oracle answers; non-trivial = run of >= 2 generations; distinct by hash"
            "; 30% of NSDE/GDE3 cases use the algorithm's default survival object, 30% of all cases run after a default-constructed algorithm of the same class was stepped on another (constrained <-> unconstrained) problem in the same process; one case in four or five is a multi-feature scenario taken in turn and run in a process of its own (the algorithm's default survival object after a run on an unconstrained problem, now on a problem with 20-80% feasible points; constraint-ranking or default survival with a small feasible region reached one member at a time; single-objective DE with a minimal population on a coarse plateau, 8 generations; constraint-ranking survival with two constraints and at most 30% feasible points; the dither range as one shared float array; an objective that is +inf on part of the box (cd / ce); advance_after_initial_infill=False); 15% of the two-objective cd / ce cases have such an infinite region and 12% of the DE cases that flag")
    ASSUMPTIONS = ["pymoo get_relation is modelled (CV first, then the objective loop with early exit) and proved equal to constraint domination",
                   "survival oracles as in C03"]


if __name__ == "__main__":
    cli(C05)
