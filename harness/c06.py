"""C06  Multi-objective runs are elitist in every generation."""
from harness.core import *
from harness import hist
from harness.histcheck import HistCheck


class C06(HistCheck):
    ID = "C06"
    ALGS = ("NSDE", "NSDE", "GDE3", "GDE3MNN", "GDE32NN", "GDE3P", "NSDER", "GA", "GA")
    PARTS = ("tell",)
    ORACLES = (hist.oracle_c06,)
    RULE = ("NSDE / GDE3(+MNN, 2NN, P) / NSDE-R driven by ask-and-tell for 4 generations on random bounded problems (2..3 objectives, 0..2 constraints, rounded values), "
            "both rank-and-crowding survivals with every metric, Das-Dennis reference directions for NSDE-R; per generation the new population is compared with the "
            "model step (recorded oracle answers) and judged by an independent dominance oracle; NSDE-R's reference-direction survival is pymoo code: oracle only; "
            "non-trivial = run of >= 2 generations; distinct by hash"
            "; 30% of NSDE/GDE3 cases use the algorithm's default survival object, 30% of all cases run after a default-constructed algorithm of the same class was stepped on another (constrained <-> unconstrained) problem in the same process; one case in four or five is a multi-feature scenario taken in turn and run in a process of its own (the algorithm's default survival object after a run on an unconstrained problem, now on a problem with 20-80% feasible points; constraint-ranking or default survival with a small feasible region reached one member at a time; single-objective DE with a minimal population on a coarse plateau, 8 generations; constraint-ranking survival with two constraints and at most 30% feasible points; the dither range as one shared float array; an objective that is +inf on part of the box (cd / ce); advance_after_initial_infill=False); 15% of the two-objective cd / ce cases have such an infinite region and 12% of the DE cases that flag")
    ASSUMPTIONS = ["NSGA-III ReferenceDirectionSurvival (NSDE-R) is not modelled: its output is judged by the independent oracle only (validated contract)",
                   "survival oracles as in C03"]


if __name__ == "__main__":
    cli(C06)
