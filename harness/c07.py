"""C07  Every generation keeps the books: sizes, budget, provenance."""
from harness.core import *
from harness import hist
from harness.histcheck import HistCheck


class C07(HistCheck):
    ID = "C07"
    ALGS = ("DE", "NSDE", "GDE3", "GDE3MNN", "GDE32NN", "GDE3P", "NSDER", "GA")
    PARTS = ("ask", "tell")
    ORACLES = (hist.oracle_c07,)
    RULE = ("all algorithms (DE, NSDE, GDE3, GDE3MNN, GDE32NN, GDE3P, NSDE-R) driven by ask-and-tell for 4 generations, population sizes n_parents+{1,2,4,7}; per generation: "
            "number of offspring, evaluator.n_eval, population size, object identities, stored F/G re-computed from stored X and compared bitwise, snapshots of every "
            "individual before/after ask and tell; the mating (ask) and the replacement/survival (tell) are compared with the model; distinct by hash"
            "; 30% of NSDE/GDE3 cases use the algorithm's default survival object, 30% of all cases run after a default-constructed algorithm of the same class was stepped on another (constrained <-> unconstrained) problem in the same process; one case in four or five is a multi-feature scenario taken in turn and run in a process of its own (the algorithm's default survival object after a run on an unconstrained problem, now on a problem with 20-80% feasible points; constraint-ranking or default survival with a small feasible region reached one member at a time; single-objective DE with a minimal population on a coarse plateau, 8 generations; constraint-ranking survival with two constraints and at most 30% feasible points; the dither range as one shared float array; an objective that is +inf on part of the box (cd / ce); advance_after_initial_infill=False); 15% of the two-objective cd / ce cases have such an infinite region and 12% of the DE cases that flag")
    ASSUMPTIONS = ["'nothing alters an individual after evaluation' is a property of the functional model and an observation (snapshots) on CPython objects"]


if __name__ == "__main__":
    cli(C07)
