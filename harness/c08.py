"""C08  The reported optimum is feasible, non-dominated and complete."""
from harness.core import *
from harness import hist
from harness.histcheck import HistCheck


class C08(HistCheck):
    ID = "C08"
    PARTS = ("tell", "opt")
    ORACLES = (hist.oracle_c08,)
    RULE = ("all algorithms driven by ask-and-tell for 4 generations on constrained problems whose feasible region is reached immediately / late / never "
            "(constraint shift -5, 0, 0.5, 3) and on unconstrained ones; algorithm.opt after every tell is compared with the model's _set_optimum applied to the model's "
            "population and rank attributes, and judged by an independent oracle (feasible, non-dominated, complete); distinct by hash"
            "; 30% of NSDE/GDE3 cases use the algorithm's default survival object, 30% of all cases run after a default-constructed algorithm of the same class was stepped on another (constrained <-> unconstrained) problem in the same process; one case in four or five is a multi-feature scenario taken in turn and run in a process of its own (the algorithm's default survival object after a run on an unconstrained problem, now on a problem with 20-80% feasible points; constraint-ranking or default survival with a small feasible region reached one member at a time; single-objective DE with a minimal population on a coarse plateau, 8 generations; constraint-ranking survival with two constraints and at most 30% feasible points; the dither range as one shared float array; an objective that is +inf on part of the box (cd / ce); advance_after_initial_infill=False); 15% of the two-objective cd / ce cases have such an infinite region and 12% of the DE cases that flag")
    ASSUMPTIONS = ["NSDE-R takes its optimum from pymoo's survival: judged by the oracle only"]


if __name__ == "__main__":
    cli(C08)
