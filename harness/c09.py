"""C09  Parent selection yields valid, distinct parents in documented roles."""
import numpy as np
from harness.core import *

VARS = {"rand": "SRand", "best": "SBest", "current-to-best": "SCurToBest", "current-to-rand": "SCurToRand",
        "rand-to-best": "SRandToBest", "ranked": "SRanked"}


def ranks_eff(ranks):
    return [i if r is None else r for i, r in enumerate(ranks)]


def sel_oracle(variant, n_pop, n_parents, ranks, P, tag="C09"):
    P = np.asarray(P)
    if P.shape != (n_pop, n_parents):
        return "%s-shape: P has shape %s, expected %s" % (tag, P.shape, (n_pop, n_parents))
    if P.min() < 0 or P.max() >= n_pop:
        return "%s-valid: parent index outside 0..%d" % (tag, n_pop - 1)
    rk = ranks_eff(ranks)
    for i, row in enumerate(P.tolist()):
        if variant in ("rand", "ranked"):
            fixed, rnd = [], row
        elif variant == "best":
            if row[0] != 0: return "%s-layout: best variant, row %d base is %d not the top-ranked 0" % (tag, i, row[0])
            fixed, rnd = [0], row[1:]
        elif variant == "rand-to-best":
            if row[1] != 0: return "%s-layout: rand-to-best, row %d column 1 is %d not the best" % (tag, i, row[1])
            fixed, rnd = [0], [row[0]] + row[2:]
        elif variant == "current-to-best":
            if row[0] != i or row[2] != i or row[1] != 0: return "%s-layout: current-to-best row %d = %s" % (tag, i, row[:3])
            fixed, rnd = [0], row[3:]
        else:
            if row[0] != i or row[2] != i: return "%s-layout: current-to-rand row %d = %s" % (tag, i, row[:3])
            fixed, rnd = [], [row[1]] + row[3:]
        if len(set(rnd)) != len(rnd):
            return "%s-distinct: row %d uses a randomly drawn parent twice: %s" % (tag, i, row)
        if i in rnd:
            return "%s-target: row %d draws its own target: %s" % (tag, i, row)
        if any(f in rnd for f in fixed):
            return "%s-best: row %d draws the fixed best individual again: %s" % (tag, i, row)
        if variant == "ranked":
            if any(rk[row[0]] > rk[c] for c in row[1:]):
                return "%s-ranked-base: row %d base %d (rank %d) is not best-ranked in %s" % (tag, i, row[0], rk[row[0]], row)
            for j in range(1, (n_parents - 1) // 2 + 1):
                if rk[row[2 * j - 1]] > rk[row[2 * j]]:
                    return "%s-ranked-pair: row %d pair %d points from better to worse rank: %s" % (tag, i, j, row)
    return None


def gen_sel_case(rng):
    variant = rng.choice(list(VARS))
    k = rng.choice([1, 1, 2, 3])
    n_parents = 1 + 2 * k
    n_pop = n_parents + rng.choice([1, 1, 2, 3, 5, 10])
    mode = rng.choice(["perm", "ties", "none", "somenone", "sorted"])
    if mode == "perm":
        ranks = list(range(n_pop)); rng.shuffle(ranks)
    elif mode == "ties":
        ranks = [rng.randrange(0, 3) for _ in range(n_pop)]
    elif mode == "none":
        ranks = [None] * n_pop
    elif mode == "somenone":
        ranks = [None if rng.random() < 0.4 else rng.randrange(0, n_pop) for _ in range(n_pop)]
    else:
        ranks = list(range(n_pop))
    case = {"variant": variant, "n_pop": n_pop, "n_parents": n_parents, "ranks": ranks, "rank_mode": mode, "seed": rng.randrange(2 ** 31)}
    if rng.random() < 0.4:
        # scripted draws that collide with the target and with earlier columns again and again
        case["int_values"] = [rng.choice([0, 0, 1, rng.randrange(0, n_pop)]) for _ in range(11)] + list(range(n_pop))
    return case


def run_sel(case):
    from pymoode.operators.des import DES
    from pymoo.core.population import Population
    n_pop = case["n_pop"]
    pop = Population.new("X", np.arange(n_pop, dtype=float).reshape(-1, 1))
    for ind, r in zip(pop, case["ranks"]):
        if r is not None:
            ind.set("rank", r)
    np.random.seed(case["seed"])
    with Recorder(int_values=case.get("int_values")) as rec:
        P = DES(case["variant"]).do(None, pop, n_pop, case["n_parents"], to_pop=False)
    ranks_after = [ind.get("rank") for ind in pop]
    return {"P": np.asarray(P).tolist(), "events": enc_events(rec.events), "ranks_after": ranks_after}


def ranks_term(ranks):
    return "[" + "; ".join("None" if r is None else "Some %d" % r for r in ranks) + "]"


def sel_term(case, obs):
    return ("match select (T:=float) %s %d %d %d %s %s with\n  | Ok (P, rest) => no_events rest && nmat_same P %s\n  | Err _ => false end" % (
        VARS[case["variant"]], case["n_pop"], case["n_pop"], case["n_parents"], ranks_term(case["ranks"]),
        cevents(dec_events(obs["events"])), cnmat(obs["P"])))


class C09(Check):
    ID = "C09"
    IMPORTS = "From PV Require Import Model.Select."
    RULE = ("DES(variant)._do on populations of size n_parents+{1,2,3,5,10}, 3/5/7 parents, rank assignments (permutation, ties, all None, some None, sorted), "
            "recorded choice draws or scripted draws that keep hitting the target and earlier columns; non-trivial = at least one redraw happened "
            "or variant is ranked; distinct by hash")
    ASSUMPTIONS = ["termination of the rejection loops is not claimed (almost-sure only); theorems are about returned matrices",
                   "n_select = population size (the documented use)"]
    QUICK_N = 500
    THOROUGH_N = 8000

    def gen(self, n):
        for _ in range(n):
            yield gen_sel_case(self.rng)

    def run(self, case):
        return run_sel(case)

    def oracle(self, case, obs):
        return sel_oracle(case["variant"], case["n_pop"], case["n_parents"], case["ranks"], obs["P"])

    def coq(self, case, obs):
        return sel_term(case, obs)

    def nontrivial(self, case, obs):
        n_choice = sum(1 for e in obs["events"] if e[0] == "choice")
        return case["variant"] == "ranked" or n_choice > case["n_parents"]

    def classes(self, case, obs):
        n_choice = sum(1 for e in obs["events"] if e[0] == "choice")
        out = [case["variant"], "parents=%d" % case["n_parents"], "ranks-" + case["rank_mode"]]
        if n_choice > case["n_parents"]: out.append("redraws")
        if case["n_pop"] == case["n_parents"] + 1: out.append("max-rejection")
        if "int_values" in case: out.append("scripted-draws")
        return out

    def explain(self, case, obs):
        return eval_print(self.ID, self.IMPORTS, ["select (T:=float) %s %d %d %d %s %s" % (
            VARS[case["variant"]], case["n_pop"], case["n_pop"], case["n_parents"], ranks_term(case["ranks"]), cevents(dec_events(obs["events"])))])


if __name__ == "__main__":
    cli(C09)
