"""C10  Mutants follow the DE formula with scale factors in range."""
import numpy as np
from harness.core import *
from harness import gens


def fc_term(F):
    if F is None:
        return "(FDither (N:=Fn) 0 1)%float"
    if isinstance(F, (list, tuple)):
        return "(FDither (N:=Fn) %s %s)" % (cfs(F[0]), cfs(F[1]))
    return "(FScalar (N:=Fn) %s)" % cfs(F)


def gamma_term(g):
    return "None" if g is None else "(Some %s)" % cfs(g)


def tensor_term(X):
    return "[" + ";\n   ".join(cfmat(m) for m in X) + "]"


def gen_mut_case(rng, bounded=False):
    k = rng.choice([1, 1, 2, 3]); n = rng.choice([1, 2, 3, 5]); v = rng.choice([1, 2, 3, 4])
    F = rng.choice([None, 0.5, 2.0, 7.0, 0.0, (0.5, 1.0), (0.0, 1.0), (0.5, 2.5), (1.0, 1.0), (0.3, 3.0)])
    gamma = rng.choice([None, 1e-4, 0.5, 1.9, 0.0])
    grid = rng.random() < 0.4
    X = np.array([[[gens.dyadic(rng) if grid else rng.uniform(-5, 5) for _ in range(v)] for _ in range(n)] for _ in range(1 + 2 * k)])
    case = {"k": k, "F": F, "gamma": gamma, "X": [enc(m) for m in X], "seed": rng.randrange(2 ** 31), "api": rng.choice(["de_mutation", "do"])}
    if rng.random() < 0.2:
        # integer-coded parents (int64 arrays); the mutants are real-valued
        X = np.array([[[float(rng.randint(-9, 9)) for _ in range(v)] for _ in range(n)] for _ in range(1 + 2 * k)])
        case["X"] = [enc(m) for m in X]; case["xdtype"] = "int64"
    if rng.random() < 0.3:
        case["rand_values"] = [float(rng.choice([0.0, gens.ONE_M, 0.5, 2.0 ** -53, rng.random()])).hex() for _ in range(7)]
    return case


def mut_reference(F, gamma, X, events):
    """independent re-statement of the formula, given the recorded draws"""
    n_par, n, v = X.shape
    lo, hi = (F if isinstance(F, (list, tuple)) else ((0.0, 1.0) if F is None else (None, None)))
    ev = list(events)
    diffs = np.zeros((n, v))
    Fs = []
    for p in range((n_par - 1) // 2):
        if lo is None:
            Fk = np.full(n, F)
        else:
            e = ev.pop(0)
            if e[0] != "rand" or tuple(e[1]) != (n,):
                return None, "C10-draws: scale factor of pair %d not drawn once per mutant (event %s %s)" % (p, e[0], e[1])
            Fk = lo + np.array(e[2]) * (hi - lo)
            if np.any(Fk < min(lo, hi)) or np.any(Fk > max(lo, hi)):
                return None, "C10-range"
        if gamma is not None:
            e = ev.pop(0)
            if e[0] != "rand" or tuple(e[1]) != (n, v):
                return None, "C10-draws: jitter of pair %d not drawn per coordinate" % p
            J = 1 + gamma * (np.array(e[2]).reshape(n, v) - 0.5)
        else:
            J = np.ones((n, v))
        Fs.append(Fk)
        diffs = diffs + Fk[:, None] * J * (X[2 * p + 1] - X[2 * p + 2])
    if ev:
        return None, "C10-draws: %d unexpected extra draw events" % len(ev)
    return (X[0] + diffs, diffs, Fs), None


def mut_property_oracle(F, gamma, X, V, d, tag="C10", scripted=False):
    """the property itself, independent of HOW and WHEN the implementation draws its random numbers: mutant - base is a sum of parent
    differences scaled by factors inside [lo * (1 - gamma/2), hi * (1 + gamma/2)] (one factor per mutant and difference vector when no
    jitter is configured), exactly the formula for scalar F without jitter"""
    n_par, n, v = X.shape
    K = (n_par - 1) // 2
    lo, hi = (F if isinstance(F, (list, tuple)) else ((0.0, 1.0) if F is None else (F, F)))
    lo, hi = float(min(lo, hi)), float(max(lo, hi))
    if V.shape != (n, v):
        return "%s-formula: mutants have shape %s, expected %s" % (tag, V.shape, (n, v))
    D = [np.asarray(X[2 * p + 1], dtype=float) - np.asarray(X[2 * p + 2], dtype=float) for p in range(K)]
    R = V - np.asarray(X[0], dtype=float)
    if d is not None and not np.allclose(d, R, rtol=0, atol=1e-9 * (1 + np.abs(R).max())):
        return "%s-diffs: returned differentials differ from mutant - base" % tag
    g = 0.0 if gamma is None else abs(float(gamma)) / 2
    a, b = lo * (1 - g) if lo >= 0 else lo * (1 + g), hi * (1 + g) if hi >= 0 else hi * (1 - g)
    tol = 1e-9 * (1 + np.abs(X).max()) * (1 + max(abs(a), abs(b)))
    if lo == hi and gamma is None:
        ref = lo * sum(D) if K else np.zeros((n, v))
        if not np.allclose(R, ref, rtol=0, atol=tol):
            return "%s-formula: scalar F, no jitter: mutants differ from base + F * sum of differences: max dev %r" % (tag, float(np.abs(R - ref).max()))
        return None
    # every coordinate: R must lie in the interval spanned by factors in [a, b]
    lows = sum(np.minimum(a * Dk, b * Dk) for Dk in D); highs = sum(np.maximum(a * Dk, b * Dk) for Dk in D)
    if np.any(R < lows - tol) or np.any(R > highs + tol):
        i, j = np.argwhere((R < lows - tol) | (R > highs + tol))[0]
        return "%s-range: mutant (%d,%d): mutant - base = %r cannot be written with scale factors in [%r, %r] (differences %s)" % (
            tag, i, j, float(R[i, j]), a, b, [float(Dk[i, j]) for Dk in D])
    if gamma is None and K >= 2 and v >= K:
        # no jitter: the K factors of a mutant can be read off when its difference vectors are linearly independent
        shared = 0; solved = 0
        for i in range(n):
            A = np.array([Dk[i] for Dk in D]).T                      # v x K
            if np.linalg.matrix_rank(A, tol=1e-6 * (1 + np.abs(A).max())) < K:
                continue
            f, *_ = np.linalg.lstsq(A, R[i], rcond=None)
            if np.abs(A @ f - R[i]).max() > 1e-6 * (1 + np.abs(R[i]).max()):
                return "%s-formula: no jitter, but mutant %d - base is not a combination of its difference vectors with one factor each" % (tag, i)
            if f.min() < a - 1e-6 * (1 + abs(a)) or f.max() > b + 1e-6 * (1 + abs(b)):
                return "%s-range: mutant %d uses scale factors %s outside [%r, %r]" % (tag, i, f.tolist(), a, b)
            solved += 1
            if f.max() - f.min() <= 1e-9 * (1 + abs(f).max()):
                shared += 1
        if lo < hi and not scripted and solved >= 4 and shared == solved:
            return "%s-shared: F is dithered from [%r, %r], yet all %d mutants use ONE value for all of their %d difference vectors (not one value per mutant and difference vector)" % (tag, lo, hi, solved, K)
    if gamma is None and K == 1:
        # one factor per mutant: all coordinates of a row share it
        for i in range(n):
            nz = np.abs(D[0][i]) > 1e-6 * (1 + np.abs(D[0][i]).max())
            if nz.sum() >= 2:
                f = R[i][nz] / D[0][i][nz]
                if f.max() - f.min() > 1e-6 * (1 + abs(f).max()):
                    return "%s-formula: no jitter, but the coordinates of mutant %d imply different scale factors %s" % (tag, i, f.tolist())
    return None


def mut_oracle(F, gamma, X, events, V, d, tag="C10"):
    """draw-protocol reference (which draw feeds which factor): part of the correspondence, not of the property"""
    ref, msg = mut_reference(F, gamma, X, events)
    if msg:
        return msg
    Vr, dr, Fs = ref
    scale = 1e-9 * (1 + np.abs(X).max()) * (1 + max(abs(f).max() for f in Fs))
    if V.shape != Vr.shape or not np.allclose(V, Vr, rtol=0, atol=scale):
        return "%s-formula: mutants differ from base + sum F*(a-b): max dev %r" % (tag, float(np.abs(V - Vr).max()) if V.shape == Vr.shape else "shape")
    if d is not None and not np.allclose(d, dr, rtol=0, atol=scale):
        return "%s-diffs: returned differentials differ from sum F*(a-b)" % tag
    return None


def run_mut(case):
    from pymoode.operators.dem import DEM
    from pymoo.core.population import Population
    from pymoo.core.problem import Problem
    X = np.array([decarr(m, 2) for m in case["X"]])
    if "xdtype" in case:
        X = X.astype(case["xdtype"])
    F = tuple(case["F"]) if isinstance(case["F"], list) else case["F"]
    X0 = X.copy()
    rv = [float.fromhex(h) for h in case["rand_values"]] if "rand_values" in case else None
    np.random.seed(case["seed"])
    dem = DEM(F=F, gamma=case["gamma"], n_diffs=case["k"])
    with Recorder(rand_values=rv) as rec:
        if case["api"] == "de_mutation":
            V, d = dem.de_mutation(X, return_differentials=True)
            frame = bool(np.array_equal(X, X0))
        else:
            n_par, n, v = X.shape
            # population whose member (p*n + i) is parent p of mating i
            pop = Population.new("X", X.reshape(n_par * n, v).copy())
            P = np.arange(n_par * n).reshape(n_par, n).T
            prob = Problem(n_var=v, n_obj=1, xl=None, xu=None)
            off = dem.do(prob, pop, P)
            V, d = off.get("X"), None
            frame = bool(np.array_equal(pop.get("X"), X0.reshape(n_par * n, v)))
    return {"V": enc(np.asarray(V, dtype=float)), "d": None if d is None else enc(np.asarray(d, dtype=float)), "events": enc_events(rec.events), "frame": frame,
            "n_parents": dem.n_parents}


def mut_term(case, obs):
    X = [decarr(m, 2) for m in case["X"]]
    F = tuple(case["F"]) if isinstance(case["F"], list) else case["F"]
    dcheck = "true" if obs["d"] is None else "fmat_same d %s" % cfmat(decarr(obs["d"], 2))
    return ("match de_mutation (N:=Fn) %s %s %s %s with\n  | Ok ((V, d), rest) => no_events rest && fmat_same V %s && %s\n  | Err _ => false end" % (
        fc_term(F), gamma_term(case["gamma"]), tensor_term(X), cevents(dec_events(obs["events"])), cfmat(decarr(obs["V"], 2)), dcheck))


def gen_variant_case(rng):
    from harness.c01 import SELS
    sel = rng.choice(SELS); y = rng.choice([1, 1, 2])
    nd = y + (1 if "-to-" in sel else 0)
    n = 1 + 2 * nd + rng.choice([1, 2, 4]); v = rng.choice([1, 2, 3])
    X = [[gens.dyadic(rng) for _ in range(v)] for _ in range(n)]
    ranks = list(range(n)); rng.shuffle(ranks)
    return {"api": "variant", "sel": sel, "y": y, "cx": rng.choice(["bin", "exp"]), "CR": (1.0).hex(), "F": rng.choice([0.5, 2.0, 0.25]), "gamma": None,
            "repair": "bounce-back", "X": enc(np.array(X)), "ranks": ranks, "seed": rng.randrange(2 ** 31), "k": nd}


def run_variant_unbounded(case):
    from pymoode.operators.variant import DifferentialVariant
    from pymoo.core.population import Population
    from pymoo.core.problem import Problem
    X = decarr(case["X"], 2)
    dv = DifferentialVariant(variant="DE/%s/%d/%s" % (case["sel"], case["y"], case["cx"]), CR=1.0, F=case["F"], gamma=None)
    pop = Population.new("X", X.copy())
    for ind, r in zip(pop, case["ranks"]):
        ind.set("rank", r)
    prob = Problem(n_var=X.shape[1], n_obj=1, xl=None, xu=None)
    seen = {}
    orig = dv.de_mutation.do

    def do(problem, pop_, parents=None, **kw):
        seen["P"] = np.asarray(parents).tolist()
        return orig(problem, pop_, parents, **kw)
    dv.de_mutation.do = do
    np.random.seed(case["seed"])
    with Recorder() as rec:
        off = dv.do(prob, pop, len(pop))
    return {"V": enc(off.get("X")), "trials": enc(off.get("X")), "d": None, "events": enc_events(rec.events), "frame": bool(np.array_equal(pop.get("X"), X)),
            "n_parents": dv.n_parents, "P": seen.get("P")}


class C10(Check):
    ID = "C10"
    IMPORTS = "From PV Require Import Model.Repair Model.Mutate Model.Cross Model.Select Model.Variant."
    RULE = ("DEM.de_mutation(X, return_differentials=True) and DEM.do on an unbounded problem; 3/5/7 parents, F scalar (0, .5, 2, 7) / range / None, "
            "gamma None/0/1e-4/.5/1.9, dyadic, continuous and integer-coded (int64) parents, recorded and boundary-scripted draws; compared bit-exactly incl. order of additions; "
            "non-trivial = F dithered or jitter on or more than one difference; distinct by hash")
    ASSUMPTIONS = ["exact-arithmetic theorem (Q); binary64 rounding only through the bit-exact runs"]
    QUICK_N = 400
    THOROUGH_N = 6000

    def gen(self, n):
        for _ in range(n):
            yield gen_variant_case(self.rng) if self.rng.random() < 0.25 else gen_mut_case(self.rng)

    def run(self, case):
        return run_variant_unbounded(case) if case["api"] == "variant" else run_mut(case)

    def oracle(self, case, obs):
        if not obs["frame"]:
            return "C10-frame: parent vectors were modified"
        if obs["n_parents"] != 1 + 2 * case["k"]:
            return "C10-nparents: n_parents=%d for %d difference vectors" % (obs["n_parents"], case["k"])
        if case["api"] == "variant":
            X = decarr(case["X"], 2); P = np.array(obs["P"]); V = decarr(obs["V"], 2)
            if P.shape != (len(X), 1 + 2 * case["k"]):
                return "C10-variant-parents: DE/%s/%d selects %s parents per mating, expected %d" % (case["sel"], case["y"], P.shape[1:], 1 + 2 * case["k"])
            ref = X[P[:, 0]] + case["F"] * sum(X[P[:, 2 * j - 1]] - X[P[:, 2 * j]] for j in range(1, case["k"] + 1))
            if not np.allclose(V, ref, rtol=0, atol=1e-9):
                return "C10-variant-formula: DE/%s/%d/%s with CR=1, scalar F: offspring differ from base + F * sum of differences" % (case["sel"], case["y"], case["cx"])
            return None
        X = np.array([decarr(m, 2) for m in case["X"]])
        F = tuple(case["F"]) if isinstance(case["F"], list) else case["F"]
        return mut_property_oracle(F, case["gamma"], X, decarr(obs["V"], 2), None if obs["d"] is None else decarr(obs["d"], 2), scripted="rand_values" in case)

    def coq(self, case, obs):
        if case["api"] == "variant":
            from harness.c01 import variant_term
            return variant_term(case, obs, bounds=False)
        X = np.array([decarr(m, 2) for m in case["X"]])
        F = tuple(case["F"]) if isinstance(case["F"], list) else case["F"]
        if mut_oracle(F, case["gamma"], X, dec_events(obs["events"]), decarr(obs["V"], 2), None if obs["d"] is None else decarr(obs["d"], 2)):
            return "false"       # the draws are not consumed the way the model consumes them: a correspondence break, not a property verdict
        return mut_term(case, obs)

    def nontrivial(self, case, obs):
        if case["api"] == "variant":
            return True
        return case["k"] > 1 or case["gamma"] is not None or not isinstance(case["F"], float)

    def classes(self, case, obs):
        if case["api"] == "variant":
            return ["variant-string", case["sel"], "y=%d" % case["y"]]
        F = case["F"]
        return ["k=%d" % case["k"], "F-none" if F is None else "F-range" if isinstance(F, list) else "F-scalar",
                "jitter" if case["gamma"] is not None else "no-jitter", case["api"]] + (["scripted-draws"] if "rand_values" in case else []) + (
                    ["parents-" + case["xdtype"]] if "xdtype" in case else [])

    def explain(self, case, obs):
        if case["api"] == "variant":
            return None
        X = [decarr(m, 2) for m in case["X"]]
        F = tuple(case["F"]) if isinstance(case["F"], list) else case["F"]
        return eval_print(self.ID, self.IMPORTS, ["de_mutation (N:=Fn) %s %s %s %s" % (fc_term(F), gamma_term(case["gamma"]), tensor_term(X), cevents(dec_events(obs["events"])))])


if __name__ == "__main__":
    cli(C10)
