"""C11  Repair touches only violating coordinates, as each strategy says."""
import math
import numpy as np
from harness.core import *
from harness import gens, layouts

NAMES = {"bounce-back": "BounceBack", "midway": "Midway", "to-bounds": "ToBounds", "rand-init": "RandInit"}


def repair_term(name, X, Xb, xl, xu, events, expected):
    n = len(X)
    return ("match repair (N:=Fn) %s %s %s (tile %d %s) (tile %d %s) %s with\n"
            "  | Ok (zs, rest) => no_events rest && flist_same zs %s\n  | Err _ => false end") % (
        NAMES[name], cfl(X), cfl(Xb), n, cfl(xl), n, cfl(xu), cevents(events), cfl(expected))


def repair_oracle(name, X, Xb, xl, xu, Z, tag="C11"):
    """independent statement of C11 for one call (Xb inside the box)"""
    X, Xb, Z = np.asarray(X), np.asarray(Xb), np.asarray(Z)
    if Z.shape != X.shape:
        return "%s-shape: result shape %s for input %s" % (tag, Z.shape, X.shape)
    for i in range(X.shape[0]):
        for j in range(X.shape[1]):
            x, b, l, h, z = X[i, j], Xb[i, j], xl[j], xu[j], Z[i, j]
            tol = 1e-9 * max(1.0, abs(l), abs(h), abs(b)) if name == "midway" else 0.0
            if l <= x <= h:
                if not (z == x and math.copysign(1, z) == math.copysign(1, x)):
                    return "%s-untouched: coordinate (%d,%d)=%r inside [%r,%r] changed to %r by %s" % (tag, i, j, x, l, h, z, name)
                continue
            low = x < l
            bound = l if low else h
            if not (l <= z <= h):
                return "%s-outside: repaired coordinate (%d,%d) %r -> %r outside [%r,%r] (%s)" % (tag, i, j, x, z, l, h, name)
            if name == "bounce-back":
                if not (min(bound, b) <= z <= max(bound, b)):
                    return "%s-bounce: (%d,%d) %r -> %r not between bound %r and base %r" % (tag, i, j, x, z, bound, b)
            elif name == "midway":
                if abs(z - (bound + b) / 2) > tol:
                    return "%s-midway: (%d,%d) %r -> %r is not the midpoint of bound %r and base %r" % (tag, i, j, x, z, bound, b)
            elif name == "to-bounds":
                if z != bound:
                    return "%s-tobounds: (%d,%d) %r -> %r is not the violated bound %r" % (tag, i, j, x, z, bound)
    return None


def gen_repair_case(rng, scripted_ok=True):
    n = rng.choice([1, 1, 2, 3, 4, 6]); v = rng.choice([1, 2, 3, 5])
    xl, xu, kinds = gens.bounds(rng, v)
    Xb = gens.in_box(rng, xl, xu, n)
    X = np.empty((n, v))
    for i in range(n):
        for j in range(v):
            r = rng.random(); w = max(xu[j] - xl[j], 1e-3 * max(1.0, abs(xl[j])))
            if r < 0.3:
                X[i, j] = xl[j] - rng.choice([w * rng.random() * 3, 1e-12, 1e6]) if rng.random() < 0.8 else math.nextafter(xl[j], -math.inf)
            elif r < 0.6:
                X[i, j] = xu[j] + rng.choice([w * rng.random() * 3, 1e-12, 1e6]) if rng.random() < 0.8 else math.nextafter(xu[j], math.inf)
            elif r < 0.7:
                X[i, j] = rng.choice([xl[j], xu[j]])
            else:
                X[i, j] = Xb[i, j] if rng.random() < 0.3 else min(max(xl[j] + rng.random() * (xu[j] - xl[j]), xl[j]), xu[j])
    name = rng.choice(list(NAMES))
    case = {"name": name, "seed": rng.randrange(2 ** 31), "X": enc(X), "Xb": enc(Xb), "xl": enc(xl), "xu": enc(xu), "kinds": kinds}
    if rng.random() < 0.3:
        case["prime"] = rng.choice(["upper", "lower", "both"])
    lay = layouts.pick_layout(rng, 0.25)
    if lay != "C":
        case["layout"] = lay            # the mutant matrix is Fortran-ordered / a column slice / every other row of a larger array
    if scripted_ok and name in ("bounce-back", "rand-init") and rng.random() < 0.35:
        case["script_vals"] = [rng.choice([0.0, gens.ONE_M, 0.5, 2.0 ** -53, 2.0 ** -1074]).hex() for _ in range(2 * n * v)]
    return case


def gen_dem_case(rng):
    """DEM.do on a bounded problem: the repair as the mutation operator applies it (per-variable ranges of very different scale)"""
    k = rng.choice([1, 1, 2]); n = rng.choice([1, 2, 3, 5]); v = rng.choice([2, 3, 4])
    xl, xu, kinds = gens.bounds(rng, v)
    if rng.random() < 0.6:          # ranges nested inside each other: a violation of a narrow range stays inside the widest one
        wide = rng.randrange(v)
        for j in range(v):
            c = rng.uniform(-1, 1); w = rng.choice([1e-3, 0.1, 1.0]) if j != wide else rng.choice([10.0, 100.0])
            xl[j], xu[j] = c - w, c + w
        kinds = ["nested"] * v
    X = np.array([gens.in_box(rng, xl, xu, n) for _ in range(1 + 2 * k)])
    extra = {}
    if rng.random() < 0.3:
        # integer-coded population (decision vectors stored as int64) on a box with the usual half-unit margins
        lo = np.array([float(rng.randint(-6, 0)) for _ in range(v)]); hi = lo + np.array([float(rng.randint(1, 9)) for _ in range(v)])
        X = np.array([[[float(rng.randint(int(lo[j]), int(hi[j]))) for j in range(v)] for _ in range(n)] for _ in range(1 + 2 * k)])
        xl, xu = lo - 0.5, hi + 0.5; kinds = ["half-integral"] * v; extra["xdtype"] = "int64"
    if rng.random() < 0.3:
        extra["prime"] = rng.choice([True, "inplace"])
    Fs = [0.5, 1.0, 2.0, 0.25] + ([1, 2, 1, 2] if "xdtype" in extra else [1])      # integer-coded populations usually come with an integer F
    return {**extra, "api": "dem", "k": k, "F": rng.choice(Fs), "name": rng.choice(list(NAMES)), "X": [enc(m) for m in X],
            "xl": enc(xl), "xu": enc(xu), "kinds": kinds, "seed": rng.randrange(2 ** 31)}


def run_dem(case):
    from pymoode.operators.dem import DEM
    from pymoo.core.population import Population
    from pymoo.core.problem import Problem
    X = np.array([decarr(m, 2) for m in case["X"]])
    n_par, n, v = X.shape
    xl, xu = decarr(case["xl"]), decarr(case["xu"])
    P = np.arange(n_par * n).reshape(n_par, n).T
    out = {}
    for tag, prob in (("V0", Problem(n_var=v, n_obj=1, xl=None, xu=None)), ("Z", Problem(n_var=v, n_obj=1, xl=xl.copy(), xu=xu.copy()))):
        Xp = X.reshape(n_par * n, v).copy()
        pop = Population.new("X", Xp.astype(case["xdtype"]) if "xdtype" in case else Xp)
        dem = DEM(F=case["F"], gamma=None, de_repair=case["name"], n_diffs=case["k"])
        if case.get("prime") and tag == "Z":
            # the operator object has served a problem with a wider box before
            np.random.seed(case["seed"] + 7)
            prob0 = Problem(n_var=v, n_obj=1, xl=xl - 1.0 - 0.5 * np.abs(xl), xu=xu + 2.0 + 0.5 * np.abs(xu))
            dem.do(prob0, Population.new("X", Xp.copy()), P)
            if case["prime"] == "inplace":        # the same problem object, its bound arrays tightened in place
                prob = prob0; prob.xl[:] = xl; prob.xu[:] = xu
        np.random.seed(case["seed"])
        with Recorder() as rec:
            off = dem.do(prob, pop, P)
        out[tag] = enc(np.asarray(off.get("X"), dtype=float)); out["events_" + tag] = enc_events(rec.events)
        out["frame_" + tag] = bool(np.array_equal(pop.get("X"), X.reshape(n_par * n, v)))
    return {"Z": out["Z"], "V0": out["V0"], "events": out["events_Z"], "events0": out["events_V0"],
            "args_unchanged": out["frame_Z"] and out["frame_V0"]}


def dem_term(case, obs):
    from harness.c10 import tensor_term
    X = [decarr(m, 2) for m in case["X"]]
    if any(e[0] != "rand" or len(e[2]) for e in dec_events(obs["events0"])):
        # the model's mutation with scalar F and no jitter draws nothing; V0 is still the unrepaired mutant of this call (it is a function
        # of the parents alone), so the property oracle is unaffected: this is a disagreement of the draw protocol, not a failing input
        raise ValueError("mutation with scalar F and no jitter consumed random draws")
    return ("match dem_do (N:=Fn) (FScalar (N:=Fn) %s) None %s (Some (%s, %s)) %s %s with\n"
            "  | Ok (V, rest) => no_events rest && fmat_same V %s\n  | Err _ => false end") % (
        cfs(case["F"]), NAMES[case["name"]], cfl(decarr(case["xl"])), cfl(decarr(case["xu"])), tensor_term(X),
        cevents(dec_events(obs["events"])), cfmat(decarr(obs["Z"], 2)))


class C11(Check):
    ID = "C11"
    IMPORTS = "From PV Require Import Model.Repair Model.Mutate."
    RULE = ("repair functions of dem.py called on X.copy() with generated mutant matrices (coordinates below / above / on / inside "
            "the bounds; zero-width, 1-ulp, tiny and asymmetric ranges; bases on bounds), draws recorded or scripted "
            "(0, 2^-1074, 2^-53, 0.5, 1-2^-53); 30% of the calls follow a call of the same repair on a box of the same shape with a different upper / lower / both bounds; a quarter of the direct calls pass the mutant matrix in another memory layout (Fortran order, column slice of a wider array, every other row of a longer one); one case in four goes through DifferentialMutation.do on a bounded problem (scalar F, no jitter, "
            "ranges of very different width, some nested in each other; integer-coded int64 populations on half-integral boxes; operator objects that have served a wider box before) and is judged against the unrepaired mutants of the same call on an "
            "unbounded problem; non-trivial = at least one coordinate violates a bound; distinct by hash of the case")
    ASSUMPTIONS = ["exact-arithmetic theorem (Q); rounding is covered only by the bit-exact runs and the float oracle",
                   "base vectors inside the box (hypothesis of the theorem, guaranteed by C01's induction)"]
    QUICK_N = 400
    THOROUGH_N = 6000

    def gen(self, n):
        for _ in range(n):
            yield gen_dem_case(self.rng) if self.rng.random() < 0.25 else gen_repair_case(self.rng)

    def run(self, case):
        if case.get("api") == "dem":
            return run_dem(case)
        from pymoode.operators.dem import REPAIRS
        X, Xb = decarr(case["X"]), decarr(case["Xb"])
        xl, xu = decarr(case["xl"]), decarr(case["xu"])
        Xb0, xl0, xu0 = Xb.copy(), xl.copy(), xu.copy()
        vals = [float.fromhex(h) for h in case["script_vals"]] if "script_vals" in case else None
        if case.get("prime"):
            # the same repair has just been used on a box of the same shape that shares one of its bounds (or none) with this one
            w = 1.0 + np.abs(xu - xl)
            pl = xl - (w if case["prime"] in ("lower", "both") else 0.0); pu = xu + (w if case["prime"] in ("upper", "both") else 0.0)
            np.random.seed(case.get("seed", 1) + 7)
            REPAIRS[case["name"]](X.copy(), Xb.copy(), pl, pu)
        np.random.seed(case.get("seed", 1))
        with Recorder(rand_values=vals) as rec:
            Z = REPAIRS[case["name"]](layouts.relayout(X.copy(), case.get("layout")), layouts.relayout(Xb, case.get("layout")) if case.get("layout") else Xb, xl, xu)
        return {"Z": enc(np.array(Z)), "events": enc_events(rec.events),
                "args_unchanged": bool(np.array_equal(Xb, Xb0) and np.array_equal(xl, xl0) and np.array_equal(xu, xu0))}

    def oracle(self, case, obs):
        if not obs["args_unchanged"]:
            return "C11-frame: base vectors or bounds were modified"
        if case.get("api") == "dem":
            V0 = decarr(obs["V0"], 2); Xb = decarr(case["X"][0], 2)
            return repair_oracle(case["name"], V0, Xb, decarr(case["xl"]), decarr(case["xu"]), decarr(obs["Z"], 2), tag="C11-dem")
        return repair_oracle(case["name"], decarr(case["X"]), decarr(case["Xb"]), decarr(case["xl"]), decarr(case["xu"]), decarr(obs["Z"]))

    def coq(self, case, obs):
        if case.get("api") == "dem":
            return dem_term(case, obs)
        return repair_term(case["name"], decarr(case["X"]), decarr(case["Xb"]), decarr(case["xl"]), decarr(case["xu"]),
                           dec_events(obs["events"]), decarr(obs["Z"]))

    def nontrivial(self, case, obs):
        xl, xu = decarr(case["xl"]), decarr(case["xu"])
        X = decarr(obs["V0"], 2) if case.get("api") == "dem" else decarr(case["X"])
        return bool(np.any(X < xl) or np.any(X > xu))

    def classes(self, case, obs):
        xl, xu = decarr(case["xl"]), decarr(case["xu"])
        X = decarr(obs["V0"], 2) if case.get("api") == "dem" else decarr(case["X"])
        out = [case["name"]] + (["through-DEM.do"] if case.get("api") == "dem" else [])
        if np.any(X < xl): out.append("lower-violation")
        if np.any(X > xu): out.append("upper-violation")
        if np.any(xl == xu): out.append("zero-width")
        if case.get("layout"): out.append("layout-" + case["layout"])
        if "script_vals" in case: out.append("scripted-draws")
        if case.get("prime"): out.append("after-call-on-other-box")
        if not (np.any(X < xl) or np.any(X > xu)): out.append("no-violation")
        return out

    def explain(self, case, obs):
        if case.get("api") == "dem":
            return None
        n = len(case["X"])
        return eval_print(self.ID, self.IMPORTS, ["repair (N:=Fn) %s %s %s (tile %d %s) (tile %d %s) %s" % (
            NAMES[case["name"]], cfl(decarr(case["X"])), cfl(decarr(case["Xb"])), n, cfl(decarr(case["xl"])), n, cfl(decarr(case["xu"])),
            cevents(dec_events(obs["events"])))])


if __name__ == "__main__":
    cli(C11)
