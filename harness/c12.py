"""C12  Trial vectors inherit every coordinate from target or mutant."""
import numpy as np
from harness.core import *
from harness import gens


def mask_block_ok(mask):
    """mask (1-d bool) is one circularly contiguous block (or everything)"""
    v = len(mask); k = int(mask.sum())
    if k == 0 or k == v:
        return k == v
    for s in range(v):
        if all(mask[(s + i) % v] for i in range(k)):
            return True
    return False


def dex_oracle(variant, CR, X, V, U, tag="C12"):
    """X and V differ in every coordinate, so the mask is (U == V)"""
    X, V, U = np.asarray(X), np.asarray(V), np.asarray(U)
    if U.shape != X.shape:
        return "%s-shape: trial shape %s vs target %s" % (tag, U.shape, X.shape)
    fromV, fromX = (U == V), (U == X)
    if not np.all(fromV | fromX):
        i, j = np.argwhere(~(fromV | fromX))[0]
        return "%s-coord: trial (%d,%d)=%r is neither target %r nor mutant %r" % (tag, i, j, U[i, j], X[i, j], V[i, j])
    for i in range(len(U)):
        k = int(fromV[i].sum())
        if k == 0:
            return "%s-none: trial %d took no coordinate from its mutant (%s, CR=%r)" % (tag, i, variant, CR)
        if CR >= 1.0 and k != U.shape[1]:
            return "%s-cr1: CR=1 but trial %d differs from its mutant" % (tag, i)
        if CR <= 0.0 and k != 1:
            return "%s-cr0: CR=0 but trial %d took %d coordinates from its mutant" % (tag, i, k)
        if variant == "exp" and not mask_block_ok(fromV[i]):
            return "%s-block: exponential crossover mask of row %d is not one circular block: %s" % (tag, i, fromV[i].astype(int).tolist())
    return None


def gen_dex_case(rng):
    n = rng.choice([1, 2, 3, 5, 8]); v = rng.choice([1, 1, 2, 3, 4, 6])
    variant = rng.choice(["bin", "exp"])
    CR = rng.choice([0.0, 0.0, 1.0, 1.0, 0.5, 0.9, 0.1, 2.0 ** -53, 0.7, rng.random()])
    X = [[gens.dyadic(rng) for _ in range(v)] for _ in range(n)]
    V = [[x + 100.0 + rng.randint(0, 7) for x in row] for row in X]
    case = {"variant": variant, "CR": float(CR).hex(), "X": enc(np.array(X)), "V": enc(np.array(V)), "seed": rng.randrange(2 ** 31),
            "api": rng.choice(["do", "mask"])}
    if case["api"] == "do" and rng.random() < 0.3:
        # integer-coded or single-precision targets (e.g. after a rounding repair) with double-precision mutants
        case["xdtype"] = rng.choice(["int64", "float32"])
        if case["xdtype"] == "int64":
            X = [[float(rng.randint(-20, 20)) for _ in range(v)] for _ in range(n)]
            V = [[x + 100.0 + rng.randint(0, 7) + rng.choice([0.25, 0.5, 0.41]) for x in row] for row in X]
        else:
            V = [[x + 100.0 + rng.randint(0, 7) + rng.choice([1e-9, 0.1, 2.0 ** -40]) for x in row] for row in X]
        case["X"] = enc(np.array(X)); case["V"] = enc(np.array(V))
    elif rng.random() < 0.25:
        # a converged population or other units: mutants differ from their targets in every coordinate, but only slightly
        kind = rng.choice(["tiny-units", "offset", "converged"])
        if kind == "tiny-units":
            k = 2.0 ** rng.choice([-70, -40, -30])
            X = [[x * k for x in row] for row in X]; V = [[x + (1 + rng.randint(0, 7)) * k * 2.0 ** -3 for x in row] for row in X]
        elif kind == "offset":
            off = rng.choice([300.0, 1.7e9, -4096.0])
            X = [[off + x * 2.0 ** -12 for x in row] for row in X]; V = [[x + (1 + rng.randint(0, 7)) * 2.0 ** -18 for x in row] for row in X]
        else:
            X = [[x if x != 0.0 else 1.0 for x in row] for row in X]; V = [[x * (1.0 + (1 + rng.randint(0, 7)) * 2.0 ** -30) for x in row] for row in X]
        assert all(a != b for rx, rv_ in zip(X, V) for a, b in zip(rx, rv_))
        case["near"] = kind
        case["X"] = enc(np.array(X)); case["V"] = enc(np.array(V))
    if case["api"] == "do" and rng.random() < 0.15:
        # the operator was built with another rate and re-tuned afterwards (self-adaptive schemes set operator.CR between generations)
        case["CR_built"] = float(rng.choice([0.0, 1.0, 0.5, 0.9, 0.2])).hex()
    r = rng.random()
    if r < 0.4:
        # boundary draws: 0.0, exactly CR, just below/above CR, 1 - 2^-53
        pool = [0.0, float(CR), gens.ONE_M, 2.0 ** -1074, np.nextafter(float(CR), 2.0) if CR < 1 else gens.ONE_M, max(np.nextafter(float(CR), -1.0), 0.0)]
        pool = [p for p in pool if 0.0 <= p < 1.0]
        case["rand_values"] = [float(rng.choice(pool)).hex() for _ in range(n * v + 3)]
    if r < 0.6:
        case["int_values"] = [rng.randrange(0, 64) for _ in range(n + 5)]
    return case


def run_dex(case):
    from pymoode.operators.dex import DEX, cross_binomial, cross_exp
    from pymoo.core.population import Population
    X, V = decarr(case["X"], 2), decarr(case["V"], 2)
    CR = float.fromhex(case["CR"])
    X0, V0 = X.copy(), V.copy()
    rv = [float.fromhex(h) for h in case["rand_values"]] if "rand_values" in case else None
    np.random.seed(case["seed"])
    with Recorder(rand_values=rv, int_values=case.get("int_values")) as rec:
        if case["api"] == "do":
            pop = Population.new("X", X.astype(case["xdtype"]) if "xdtype" in case else X); mut = Population.new("X", V)
            matings = np.column_stack([pop, mut]).view(Population)
            if "CR_built" in case:
                op = DEX(variant=case["variant"], CR=float.fromhex(case["CR_built"])); op.CR = CR
            else:
                op = DEX(variant=case["variant"], CR=CR)
            off = op.do(None, matings)
            U = off.get("X")
            Xa, Va = pop.get("X").astype(float), mut.get("X")
        else:
            f = cross_binomial if case["variant"] == "bin" else cross_exp
            M = f(X.shape[0], X.shape[1], CR, True)
            U = np.where(M, V, X)
            Xa, Va = X, V
    return {"U": enc(U), "events": enc_events(rec.events), "frame": bool(np.array_equal(Xa, X0) and np.array_equal(Va, V0))}


def dex_term(variant, CR, X, V, events, U):
    return ("match dex (N:=Fn) %s %s true %s %s %s with\n  | Ok (U, rest) => no_events rest && fmat_same U %s\n  | Err _ => false end" % (
        "Bin" if variant == "bin" else "Exp", cfs(CR), cfmat(X), cfmat(V), cevents(events), cfmat(U)))


class C12(Check):
    ID = "C12"
    IMPORTS = "From PV Require Import Model.Cross."
    RULE = ("DEX(variant, CR).do on merged (target, mutant) populations and cross_binomial/cross_exp directly; targets dyadic, mutants = target+100+k so "
            "the mask is observable; targets also integer-coded (int64) or single precision with double-precision mutants; 15% of the DEX.do calls on an operator built with another rate whose CR attribute was set afterwards; 25% of the rest with mutants within a few ulps/2^-30 of their targets (tiny units, large offset with small spread, converged population); CR in {0, 2^-53, .1, .5, .7, .9, 1, random}; draws recorded, or scripted with boundary values (0, CR, CR+-1ulp, 1-2^-53) "
            "and scripted randint; non-trivial = n_var >= 2; distinct by hash")
    ASSUMPTIONS = ["order-only theorems (any number type); CR=0/1 corollaries stated over Q with draws in [0,1)",
                   "'target and mutant are not modified' is a property of the functional model and an observation (array snapshots) on the implementation"]
    QUICK_N = 500
    THOROUGH_N = 8000

    def gen(self, n):
        for _ in range(n):
            yield gen_dex_case(self.rng)

    def run(self, case):
        return run_dex(case)

    def oracle(self, case, obs):
        if not obs["frame"]:
            return "C12-frame: target or mutant population modified"
        return dex_oracle(case["variant"], float.fromhex(case["CR"]), decarr(case["X"], 2), decarr(case["V"], 2), decarr(obs["U"], 2))

    def coq(self, case, obs):
        return dex_term(case["variant"], float.fromhex(case["CR"]), decarr(case["X"], 2), decarr(case["V"], 2), dec_events(obs["events"]), decarr(obs["U"], 2))

    def nontrivial(self, case, obs):
        return len(case["X"][0]) >= 2

    def classes(self, case, obs):
        CR = float.fromhex(case["CR"])
        out = [case["variant"], case["api"], "CR=0" if CR == 0 else "CR=1" if CR == 1 else "CR-mid"]
        if "rand_values" in case: out.append("scripted-boundary-draws")
        if any(e[0] == "randint" and e[3] is None for e in obs["events"]): out.append("forced-coordinate")
        if len(case["X"][0]) == 1: out.append("n_var=1")
        if "xdtype" in case: out.append("targets-" + case["xdtype"])
        if "near" in case: out.append("near-" + case["near"])
        if "CR_built" in case: out.append("CR-retuned-after-construction")
        return out

    def explain(self, case, obs):
        return eval_print(self.ID, self.IMPORTS, ["dex (N:=Fn) %s %s true %s %s %s" % (
            "Bin" if case["variant"] == "bin" else "Exp", cfs(float.fromhex(case["CR"])), cfmat(decarr(case["X"], 2)), cfmat(decarr(case["V"], 2)),
            cevents(dec_events(obs["events"])))])


if __name__ == "__main__":
    cli(C12)
