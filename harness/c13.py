"""C13  Crowding metrics are safe, well-formed and match their definitions."""
import numpy as np
from harness.core import *
from harness import crowd


ENGINES = {}


def engine(name):
    if name not in ENGINES:
        ENGINES[name] = crowd.EngineProc(name)
    return ENGINES[name]


def run_metric(case):
    r = engine(case["engine"]).call(case["label"], decarr(case["F"], 2), case["n_remove"])
    if r.get("crash"):
        return {"exception": "ProcessCrash: %s engine died with exit code %s: %s" % (case["engine"], r.get("exit"), r.get("stderr", "")[-300:]), "crash": True}
    if "exception" in r:
        return {"exception": r["exception"]}
    return {"d": r["d"], "frame": r["frame"], "logs": r["log"], "argpart": r["argpart"]}


class C13(Check):
    ID = "C13"
    IMPORTS = "From PV Require Import Model.Crowding Model.Fallback."
    ISOLATE = False
    LABELS = ["cd", "ce", "mnn", "2nn", "pcd"]
    RULE = "get_crowding_function(label).do(F, n_remove=k)"
    QUICK_N = 400
    THOROUGH_N = 6000

    def gen(self, n):
        for _ in range(n):
            F, style = crowd.gen_front(self.rng)
            label = self.rng.choice(self.LABELS)
            eng = self.rng.choice(["compiled", "fallback"])
            yield {"F": enc(F), "style": style, "label": label, "n_remove": self.rng.randint(0, len(F)), "engine": eng}

    def run(self, case):
        return run_metric(case)

    def oracle(self, case, obs):
        if not obs["frame"]:
            return "C13-frame: the caller's array was modified"
        F = decarr(case["F"], 2); d = np.array([float.fromhex(h) for h in obs["d"]])
        m = crowd.wellformed(case["label"], F, d)
        if m:
            return m
        if case["label"] == "cd" and len(F) > 2 and not crowd.coordinate_ties(F):
            ref = crowd.ref_cd(F)
            if not np.allclose(np.where(np.isinf(d), 1e300, d), np.where(np.isinf(ref), 1e300, ref), rtol=1e-9, atol=1e-12):
                return "C13-definition: cd differs from the crowding-distance definition"
        return None

    def coq(self, case, obs):
        logs = [(float.fromhex(a), float.fromhex(b)) for a, b in obs["logs"]]
        return crowd.metric_term(case["label"], decarr(case["F"], 2), case["n_remove"], np.array([float.fromhex(h) for h in obs["d"]]), logs=logs, engine=case["engine"])

    def nontrivial(self, case, obs):
        return len(case["F"]) > 2

    def classes(self, case, obs):
        return [case["label"], case["style"], "obj=%d" % len(case["F"][0]), case["engine"]]


if __name__ == "__main__":
    cli(C13)
