"""C13  Crowding metrics are safe, well-formed and match their definitions."""
import numpy as np
from harness.core import *
from harness import crowd, layouts


ENGINES = {}


def asan_summary(err):
    import re
    m = re.search(r"ERROR: AddressSanitizer: (\S+).*?\n(?:.*\n)*?\s+#0 .* in (\S+)", err or "")
    return "[ASan: %s in %s]" % (m.group(1), m.group(2)) if m else ""



def engine(name):
    if name not in ENGINES:
        ENGINES[name] = crowd.EngineProc(name)
    return ENGINES[name]


def run_metric(case):
    r = engine(case["engine"]).call(case["label"], decarr(case["F"], 2), case["n_remove"], layout=case.get("layout"), prime_n_remove=case.get("prime_n_remove"))
    if r.get("crash"):
        return {"crash": True, "exit": r.get("exit"), "stderr": r.get("stderr", "")[-1500:], "d": None, "frame": True, "logs": [], "argpart": []}
    if "exception" in r:
        return {"exception": r["exception"]}
    return {"d": r["d"], "frame": r["frame"], "logs": r["log"], "argpart": r["argpart"]}


class C13(Check):
    ID = "C13"
    IMPORTS = "From PV Require Import Model.Crowding Model.Fallback Model.Kernels."
    ISOLATE = False
    LABELS = ["cd", "ce", "mnn", "2nn", "pcd"]
    RULE = ("get_crowding_function(label).do(F, n_remove=k) for cd / ce / mnn / 2nn / pcd with BOTH engines (each in its own worker process, so a kernel crash is an "
            "observation), non-dominated fronts of 1..24 points and 2..5 objectives: continuous simplex, grid, permutation-valued, constant objective, tied extremes, "
            "duplicates, curve-like (two points hold all extremes); k in 0..N with the limits of the pruning range over-represented, and blocks that sweep every k from N-M-1 to N "
            "on small 3+ objective fronts for all pruning metrics and both engines; values compared bit-exactly with the models of metrics.py, misc/*.py and of the compiled kernels (checked flat buffers; np.log2 and "
            "np.argpartition answers recorded as oracles); independent reference implementations of the published definitions on tie-free fronts; "
            "15% of the random cases hand the front over in another memory layout, 15% ask the same operator object about the same front with another n_remove first; non-trivial = more than two points; distinct by hash; 2% of the draws expand into a front with no more points than objectives (+1), curve-like half of the time, on which every metric is run on both engines with n_remove in {0, 1, N-1}")
    ASSUMPTIONS = ["np.log2 (libm) and np.argpartition (introselect tie choice) are oracles; the argpartition answer is validated (mnn0_ok) by the model",
                   "the compiled kernels are modelled from the .pyx and tied to the shipped .so by bit-exact runs; the Cython -> C++ translation and the compiler are trusted",
                   "equality with the published definitions is decided by correspondence + independent reference implementations, not by a theorem (partial)"]
    QUICK_N = 400
    THOROUGH_N = 6000

    def gen(self, n):
        for _ in range(n):
            if self.rng.random() < 0.02:
                # the limits of the pruning range, systematically: a small front with 3+ objectives (curve-like half of the time, so that
                # interior points remain when almost everything is pruned), all pruning metrics on both engines, every n_remove from N-M-1 to N
                for _try in range(20):
                    F, style = crowd.gen_front(self.rng, max_n=10, objs=(3, 3, 4), styles=["curve", "simplex"])
                    if len(F) >= F.shape[1] + 2:
                        break
                N, M = F.shape
                for label in ("mnn", "2nn", "pcd"):
                    for eng in ("fallback", "compiled"):
                        if label == "pcd" and eng == "compiled":
                            continue          # compiled pcd with 3+ objectives: known finding, exercised by the random cases
                        for k in range(max(0, N - M - 1), N + 1):
                            yield {"F": enc(F), "style": style, "label": label, "n_remove": k, "engine": eng}
                continue
            if self.rng.random() < 0.02:
                # fronts with no more points than objectives (+1), systematically: every metric on both engines.  On a curve-like front
                # only the two end points hold extremes, so the other points have finite values although N <= n_obj
                M = self.rng.choice([3, 4, 5])
                for _try in range(40):
                    F, style = crowd.gen_front(self.rng, max_n=M + 1, objs=(M,), styles=["curve", "curve", "simplex", "perm"])
                    if len(F) >= 3:
                        break
                N = len(F)
                for label in self.LABELS:
                    for eng in ("fallback", "compiled"):
                        if label == "pcd" and eng == "compiled":
                            continue          # compiled pcd with 3+ objectives: known finding, exercised by the random cases
                        for k in sorted({0, 1, N - 1}):
                            yield {"F": enc(F), "style": style + "-short", "label": label, "n_remove": k, "engine": eng}
                continue
            F, style = crowd.gen_front(self.rng)
            label = self.rng.choice(self.LABELS)
            eng = self.rng.choice(["compiled", "fallback"])
            case = {"F": enc(F), "style": style, "label": label, "n_remove": crowd.pick_n_remove(self.rng, len(F), F.shape[1]), "engine": eng}
            if self.rng.random() < 0.15:
                case["layout"] = self.rng.choice(layouts.LAYOUTS[1:])          # the caller's array is Fortran-ordered / a slice of a larger one
            if self.rng.random() < 0.15 and not (label == "pcd" and eng == "compiled" and F.shape[1] >= 3):
                case["prime_n_remove"] = self.rng.choice([0, 1, max(0, case["n_remove"] - 1), case["n_remove"] + 1])    # operator object reused
            yield case

    def run(self, case):
        return run_metric(case)

    def oracle(self, case, obs):
        if obs.get("crash"):
            return "C13-crash: %s engine, metric %s, n_remove=%d: the process died (exit code %s) %s" % (
                case["engine"], case["label"], case["n_remove"], obs.get("exit"), asan_summary(obs.get("stderr", "")))
        if not obs["frame"]:
            return "C13-frame: the caller's array was modified"
        F = decarr(case["F"], 2); d = np.array([float.fromhex(h) for h in obs["d"]])
        m = crowd.wellformed(case["label"], F, d)
        if m:
            return m
        if len(F) > 2 and not crowd.coordinate_ties(F):
            ref = crowd.reference(case["label"], F, case["n_remove"])
            if ref is not None and not np.allclose(np.where(np.isinf(d), 1e300, d), np.where(np.isinf(ref), 1e300, ref), rtol=1e-9, atol=1e-12):
                return "C13-definition: %s (%s engine, n_remove=%d) differs from its published definition" % (case["label"], case["engine"], case["n_remove"])
        return None

    def coq(self, case, obs):
        logs = [(float.fromhex(a), float.fromhex(b)) for a, b in obs["logs"]]
        exp = None if obs.get("d") is None else np.array([float.fromhex(h) for h in obs["d"]])
        F = decarr(case["F"], 2)
        return crowd.with_tinydup(case["label"], F, crowd.metric_term(case["label"], F, case["n_remove"], exp, logs=logs, argpart=obs.get("argpart"), engine=case["engine"]))

    def model_flags(self, results):
        out = []
        for i, (c, o) in enumerate(results):
            a = getattr(self, "aux", {}).get(i, {})
            if c.get("engine") == "compiled" and c["label"] in ("mnn", "2nn") and a.get("oob") and not o.get("crash"):
                out.append((i, "compiled/mnn/OOB-read", "C13-memory: the model of c_calc_mnn_iter reads D[0, -1] (one element before the distance matrix) on this input"))
        return out

    def known(self, case, obs, msg):
        """a failure is a known finding only if it happens in a compiled kernel and the MODEL predicts it:
        a memory error first occurring at one of the recorded sites, or the duplicated-neighbour event of mnn"""
        a = getattr(self, "aux", {}).get(getattr(self, "cur", None), {})
        F = decarr(case["F"], 2)
        if a.get("tinydup") and len(np.unique(F, axis=0)) == len(F) and msg.split(":")[0] in ("C13-extreme", "C13-definition"):
            return "metrics/dup-eps-absolute"      # distinct points closer than 1e-32 in raw units are filtered as duplicates: the MODEL's filter flags one
        if case.get("engine") != "compiled" or case["label"] not in ("pcd", "mnn", "2nn"):
            return None
        if a.get("oob"):
            return "compiled/pcd/OOB" if case["label"] == "pcd" else "compiled/mnn/OOB-read"
        if a.get("dup") and case["label"] == "mnn" and msg.startswith("C13-definition"):
            return "compiled/mnn/dup-neighbour"
        return None

    def nontrivial(self, case, obs):
        return len(case["F"]) > 2

    def classes(self, case, obs):
        return [case["label"], case["style"], "obj=%d" % len(case["F"][0]), case["engine"]] + (["layout-" + case["layout"]] if case.get("layout") else []) + (
            ["operator-reused-with-other-n_remove"] if case.get("prime_n_remove") is not None else [])


if __name__ == "__main__":
    cli(C13)
