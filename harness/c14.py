"""C14  Results do not depend on whether the extensions compiled."""
import numpy as np
from harness.core import *
from harness import crowd, layouts
from harness.c13 import engine, asan_summary


def survivors(d, n_remove, seed):
    """RankAndCrowding's cut of a split front: randomized descending argsort (pymoo), last n_remove dropped"""
    rs = np.random.RandomState(seed)
    P = rs.permutation(len(d))
    I = P[np.argsort(d[P], kind="quicksort")][::-1]
    return sorted(int(i) for i in (I[:-n_remove] if n_remove > 0 else I))


class C14(Check):
    ID = "C14"
    IMPORTS = "From PV Require Import Model.Crowding Model.Fallback Model.Kernels Model.Spacing."
    RULE = ("calc_mnn / calc_2nn / calc_pcd through get_crowding_function(label).do(F, n_remove=k) evaluated by BOTH engines (two worker processes; the fallback is selected by "
            "blocking pymoode.cython.info) on the same non-dominated fronts (incl. constant objectives, tied extremes, duplicates, tiny / huge objective ranges): values "
            "compared (relative 1e-9, same infinities) and the surviving set after the cut with the same random permutation; each engine's values are also compared "
            "bit-for-bit with its model; fronts on which the pruning order is tied (no meaning of 'the same up to rounding') are counted and excluded from the "
            "engine-agreement verdict; 12% of the metric cases call the engine functions directly (calc_*_nds) on the front in another memory layout (Fortran order, column slice, strided rows): the engines must agree and each must return bit-identical values for every layout; the compiled spacing helper is compared with the NumPy computation of the spacing indicator; "
            "non-trivial = n_remove >= 2 and more than n_obj + 2 points; distinct by hash")
    ASSUMPTIONS = ["both models share normalisation and extreme detection by construction; the incremental update of the compiled kernels is tied to the from-scratch "
                   "recomputation of the fallbacks by testing only (kernel_refines_fallback is not proved): partial",
                   "exact ties in the pruning order are excluded (C15 makes the same exclusion)"]
    QUICK_N = 300
    THOROUGH_N = 4000

    def gen(self, n):
        for _ in range(n):
            if self.rng.random() < 0.15:
                N = self.rng.randint(2, 30); M = self.rng.randint(1, 5)
                X = [[self.rng.choice([self.rng.random(), float(self.rng.randint(0, 3))]) for _ in range(M)] for _ in range(N)]
                yield {"kind": "spacing", "X": enc(np.array(X, dtype=float))}
                continue
            if self.rng.random() < 0.12:
                # the engine functions called directly (calc_*_nds, without the FunctionalDiversity wrapper that copies its input) on the same
                # front in another memory layout (Fortran order, a column slice of a wider array, every other row of a longer one);
                # continuous tie-free fronts, 2nn with any number of objectives, pcd / mnn with two (outside the known findings)
                label = self.rng.choice(["2nn", "pcd", "mnn"])
                if label == "2nn" and self.rng.random() < 0.4:
                    F, style = crowd.gen_front(self.rng, max_n=5, objs=(3, 4, 5), styles=["simplex"])       # not more points than objectives
                else:
                    F, style = crowd.gen_front(self.rng, objs=(2, 3, 4) if label == "2nn" else (2,), styles=["simplex", "curve"])
                yield {"kind": "metric", "F": enc(F), "style": style, "label": label, "n_remove": crowd.pick_n_remove(self.rng, len(F), F.shape[1]),
                       "seed": self.rng.randrange(2 ** 31), "raw": True, "layout": self.rng.choice(layouts.LAYOUTS[1:])}
                continue
            # fronts with a constant objective are named by the property: one case in five
            r = self.rng.random()
            F, style = crowd.gen_front(self.rng, styles=["const"] if r < 0.2 else ["fewdistinct"] if r < 0.27 else None)
            label = self.rng.choice(["mnn", "2nn", "pcd"])
            yield {"kind": "metric", "F": enc(F), "style": style, "label": label, "n_remove": crowd.pick_n_remove(self.rng, len(F), F.shape[1]), "seed": self.rng.randrange(2 ** 31)}

    def run(self, case):
        if case["kind"] == "spacing":
            from pymoode.cython.spacing_neighbors import calc_spacing_distances
            from scipy.spatial.distance import pdist, squareform
            X = decarr(case["X"], 2)
            a = np.asarray(calc_spacing_distances(X.copy()), dtype=float)
            D = squareform(pdist(X, metric="cityblock"))
            b = np.partition(D, 1, axis=1)[:, 1]
            return {"helper": enc(a), "numpy": enc(b)}
        F = decarr(case["F"], 2)
        out = {}
        for eng in ("compiled", "fallback"):
            r = engine(eng).call(case["label"], F, case["n_remove"], raw=bool(case.get("raw")), layout=case.get("layout"))
            if r.get("crash"):
                out[eng] = {"crash": True, "exit": r.get("exit"), "stderr": r.get("stderr", "")[-800:]}
            elif "exception" in r:
                out[eng] = {"error": r["exception"]}
            else:
                out[eng] = {"d": r["d"], "argpart": r["argpart"], "frame": r["frame"]}
                if case.get("raw"):
                    r2 = engine(eng).call(case["label"], F, case["n_remove"], raw=True, layout="C")
                    out[eng]["d_C"] = r2.get("d")
        return out

    def _d(self, obs, eng):
        return np.array([float.fromhex(h) for h in obs[eng]["d"]])

    def oracle(self, case, obs):
        if case["kind"] == "spacing":
            a, b = decarr(obs["helper"]), decarr(obs["numpy"])
            if a.shape != b.shape or not np.allclose(a, b, rtol=1e-12, atol=0):
                return "C14-spacing: compiled nearest-neighbour helper differs from the NumPy computation"
            return None
        for eng in ("compiled", "fallback"):
            if obs[eng].get("crash"):
                return "C14-crash: %s engine died on %s (exit %s) %s" % (eng, case["label"], obs[eng].get("exit"), asan_summary(obs[eng].get("stderr", "")))
            if "error" in obs[eng]:
                return "C14-error: %s engine raised %s" % (eng, obs[eng]["error"])
        F = decarr(case["F"], 2)
        if case.get("raw"):
            for eng in ("compiled", "fallback"):
                if obs[eng].get("d_C") != obs[eng]["d"]:
                    return "C14-layout: the %s %s function returns different values for the same front in %s layout" % (eng, case["label"], case["layout"])
        dc, df = self._d(obs, "compiled"), self._d(obs, "fallback")
        if np.any(np.isnan(df)) or np.any(np.isnan(dc)):
            return "C14-nan: %s engine returns NaN for %s" % ("fallback" if np.any(np.isnan(df)) else "compiled", case["label"])
        ref = crowd.reference(case["label"], F, case["n_remove"]) if (len(F) > 2 and len(np.unique(F, axis=0)) == len(F)) else "skip"
        if ref is None:
            return None         # tied pruning order: excluded
        same = dc.shape == df.shape and np.array_equal(np.isinf(dc), np.isinf(df)) and np.allclose(np.where(np.isinf(dc), 0, dc), np.where(np.isinf(df), 0, df), rtol=1e-9, atol=1e-300)
        if not same:
            return "C14-values: %s: compiled and pure-Python engines differ (n_remove=%d)" % (case["label"], case["n_remove"])
        k = crowd._clamp(case["n_remove"], len(F), F.shape[1]) if False else case["n_remove"]
        if 0 < k < len(F) and len(np.unique(dc)) == len(dc):
            if survivors(dc, k, case["seed"]) != survivors(df, k, case["seed"]):
                return "C14-survivors: the surviving set differs between the engines"
        return None

    def coq(self, case, obs):
        if case["kind"] == "spacing":
            return "flist_same (spacing_helper (X:=Fx) %s) %s" % (cfmat(decarr(case["X"], 2)), cfl(decarr(obs["helper"])))
        F = decarr(case["F"], 2)
        if case.get("raw"):
            return None        # direct calls: judged by the engines agreeing with each other and with themselves across layouts
        for eng in ("compiled", "fallback"):
            if "d" not in obs[eng]:
                return None
        tf = crowd.metric_term(case["label"], F, case["n_remove"], self._d(obs, "fallback"), engine="fallback")
        pre, tc, aux = crowd.metric_term(case["label"], F, case["n_remove"], self._d(obs, "compiled"), argpart=obs["compiled"].get("argpart"), engine="compiled")
        return pre, "(%s) && (%s)" % (tc, tf), aux

    def known(self, case, obs, msg):
        if case.get("kind") != "metric":
            return None
        a = getattr(self, "aux", {}).get(getattr(self, "cur", None), {})
        if a.get("oob") and case["label"] == "pcd":
            return "compiled/pcd/OOB"
        if a.get("dup") and case["label"] == "mnn":
            return "compiled/mnn/dup-neighbour"
        if case["label"] == "pcd" and obs.get("compiled", {}).get("crash"):
            return "compiled/pcd/OOB" if self._model_oob(case) else None
        return None

    def _model_oob(self, case):
        F = decarr(case["F"], 2)
        pre, t, aux = crowd.metric_term(case["label"], F, case["n_remove"], None, engine="compiled")
        try:
            bad, _ = eval_cases(self.ID + "k", self.IMPORTS, [(pre, [aux["oob"]])])
            return not bad
        except Exception:
            return False

    def nontrivial(self, case, obs):
        return case["kind"] == "metric" and case["n_remove"] >= 2 and len(case["F"]) > len(case["F"][0]) + 2

    def classes(self, case, obs):
        if case["kind"] == "spacing":
            return ["spacing-helper"]
        return [case["label"], case["style"], "obj=%d" % len(case["F"][0])] + (["direct-call-layout-" + case["layout"]] if case.get("raw") else [])


if __name__ == "__main__":
    cli(C14)
