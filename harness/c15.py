"""C15  Truncating a front keeps boundary points and prunes one at a time."""
import numpy as np
from harness.core import *
from harness import crowd, surv
from harness.c13 import engine


def greedy_drop(label, F, n_drop):
    """reference: drop the most crowded member, recompute the crowding of the rest, repeat; None if a tie occurs"""
    F = np.asarray(F, dtype=float); N, M = F.shape
    K = 2 if label == "2nn" else M
    score = crowd._score_cd if label == "pcd" else crowd._score_mnn(K)
    den = F.max(axis=0) - F.min(axis=0); den[den == 0] = 1.0
    Xn = (F - F.min(axis=0)) / den
    ext = crowd._extremes(F)
    H = list(range(N)); dropped = []
    for _ in range(n_drop):
        vals = [np.inf if i in ext else v for i, v in zip(H, score(Xn, H))]
        mn = min(vals)
        if not np.isfinite(mn) or sum(1 for v in vals if v == mn) != 1:
            return None
        k = H[vals.index(mn)]; H.remove(k); dropped.append(k)
    return sorted(dropped)


def boundary_all_tiebreaks(label, F, d, k):
    """boundary clause decided for EVERY tie-break of the descending sort: members with a crowding value above the k-th largest
    are kept for sure, the group tied at the k-th largest value fills the remaining slots in any way"""
    N, M = F.shape
    if not (2 * M <= k < N) or np.isnan(d).any():
        return None
    v = np.sort(d)[::-1][k - 1]
    sure = set(np.where(d > v)[0].tolist()); tie = set(np.where(d == v)[0].tolist()); free = k - len(sure)
    for m in range(M):
        for what, val in (("minimum", F[:, m].min()), ("maximum", F[:, m].max())):
            holders = set(np.where(F[:, m] == val)[0].tolist())
            if holders & sure:
                continue
            if len(tie - holders) >= free:
                return ("C15-boundary: %s: keeping %d of %d members (>= 2 x %d objectives): %d members share the crowding value %r that decides the cut, so a tie-break "
                        "can drop every holder of the %s of objective %d (holders %s)" % (label, k, N, M, len(tie), float(v), what, m, sorted(holders)))
    return None


class C15(Check):
    ID = "C15"
    IMPORTS = "From PV Require Import Model.Dominance Model.RankCrowd Model.Crowding Model.Fallback Model.Kernels."
    ISOLATE = True
    RULE = ("RankAndCrowding(crowding_func=cf).do on populations whose first front is a generated non-dominated front (2..4 objectives, continuous and tie-rich) that has to be "
            "truncated, every number of members to drop, cf in cd / pcd (2 objectives on the compiled engine) / ce / mnn / 2nn; per-objective min and max of the front before "
            "and after (boundary clause when >= 2*n_obj members are kept); dropped members compared with the reference 'drop the most crowded, recompute, repeat' for the "
            "pruning metrics when that sequence has no ties, and with 'smallest crowding computed once' for cd / ce; the survival itself is compared with the model "
            "(recorded crowding values and permutation); for 15% of the fronts (most of them tie-rich, with extremes held by several different points) the crowding vectors "
            "of all metrics on both engines (worker processes; pcd with 3+ objectives on the pure-Python engine only) are judged for EVERY tie-break of the cut: no holder "
            "set of a minimum / maximum may be droppable when >= 2*n_obj members are kept; 30% of the survival calls are made on an operator object that has truncated another front, or the same front to another size (or not at all), before; non-trivial = at least 2 members dropped; distinct by hash; 30% of the survival cases put one or two better layers (2-4 members each) in front, so that the truncated front is not the first")
    ASSUMPTIONS = ["the boundary clause is a theorem about any crowding vector that is +inf on a set E with |{inf}| <= kept; that each metric puts +inf on holders of every "
                   "objective's minimum and maximum is established by C13's correspondence and oracle, not proved (partial)",
                   "'pruning one at a time' for the compiled engine relies on the tested (not proved) agreement of the incremental kernels with recomputation from scratch"]
    QUICK_N = 300
    THOROUGH_N = 4000

    def gen(self, n):
        for _ in range(n):
            F, style = crowd.gen_front(self.rng, max_n=20, objs=(2, 2, 3, 3, 4))
            N = len(F)
            if self.rng.random() < 0.15:
                # the crowding vectors of both engines on one front, judged for every tie-break of the cut (quota >= 2 x n_obj);
                # half of these fronts are tie-rich with extremes held by several different points
                if self.rng.random() < 0.7:
                    F, style = crowd.gen_front(self.rng, max_n=20, objs=(3, 3, 4), styles=["tiedfront"])
                N, M = F.shape
                if N > 2 * M:
                    for rep in range(3 if style == "tiedfront" else 1):      # the order of the rows decides which of several tied holders comes first / last
                        Fp = F[self.rng.sample(range(N), N)] if rep else F
                        k = 2 * M if self.rng.random() < 0.8 else self.rng.randint(2 * M, N - 1)
                        for label in crowd.LABELS:
                            for eng in (["fallback"] if label in ("cd", "ce") or (label == "pcd" and M >= 3) else ["fallback", "compiled"]):
                                # compiled pcd with 3+ objectives: known finding compiled/pcd/OOB, exercised by C13
                                yield {"kind": "dvec", "F": enc(Fp), "style": style, "label": label, "engine": eng, "n_remove": N - k}
                    continue
            cf = self.rng.choice(crowd.LABELS)
            if cf == "pcd" and F.shape[1] >= 3:
                cf = self.rng.choice(["cd", "ce", "mnn", "2nn"])
            k = self.rng.randint(1, N)
            G = [[] for _ in range(N)]
            case = {"F": F.tolist(), "G": G, "H": G, "n_survive": k, "cls": "RankAndCrowding", "cf": cf, "style": style, "feasmode": "unconstrained",
                    "seed": self.rng.randrange(2 ** 31)}
            if self.rng.random() < 0.3:
                # the survival object of an algorithm lives for the whole run: it has truncated another front, or the same front to another size, before
                case["prime"] = self.rng.choice(["other", "same", "samefull"])
            if self.rng.random() < 0.3 and N >= 3:
                # the truncated front is not the first one: one or two better layers (each a shifted copy of part of the front, so its members
                # dominate the whole front and not each other) are accepted in full before it
                rngF = float(F.max() - F.min()) + 1.0
                lead = []
                for layer in range(self.rng.choice([1, 1, 2])):
                    idx = sorted(self.rng.sample(range(N), self.rng.randint(2, min(N, 4))))
                    lead = [(F[i] - (layer + 1) * rngF * 2.0).tolist() for i in idx] + lead
                case["F"] = lead + F.tolist(); case["n_lead"] = len(lead)
                case["G"] = [[] for _ in range(len(case["F"]))]; case["H"] = case["G"]
                case["n_survive"] = len(lead) + k
            yield case

    def run(self, case):
        if case.get("kind") == "dvec":
            from harness.c13 import run_metric
            return run_metric(case)
        return surv.run_survival(case)

    def oracle(self, case, obs):
        if case.get("kind") == "dvec":
            if obs.get("crash") or obs.get("d") is None:
                return "C15-crash: %s engine, metric %s: the process died" % (case["engine"], case["label"])
            F = decarr(case["F"], 2); d = np.array([float.fromhex(h) for h in obs["d"]])
            if len(d) != len(F) or len(np.unique(F, axis=0)) < len(F) or not crowd.nondominated(F):
                return None
            return boundary_all_tiebreaks("%s (%s engine)" % (case["label"], case["engine"]), F, d, len(F) - case["n_remove"])
        m = surv.oracle_c03(case, obs)
        if m:
            return m
        n0 = case.get("n_lead", 0)
        if n0 and not set(range(n0)) <= set(obs["surv"]):
            return None          # a member of a better layer was dropped: C04's business
        F = np.array(case["F"], dtype=float)[n0:]; N, M = F.shape          # the split front
        S = sorted(i - n0 for i in obs["surv"] if i >= n0); k = case["n_survive"] - n0
        if len(np.unique(F, axis=0)) < N or not crowd.nondominated(F):
            return None
        if k >= 2 * M and k < N:
            for m_ in range(M):
                if F[S, m_].min() != F[:, m_].min() or F[S, m_].max() != F[:, m_].max():
                    return "C15-boundary: %s: truncating %d -> %d members lost the %s of objective %d" % (
                        case["cf"], N, k, "minimum" if F[S, m_].min() != F[:, m_].min() else "maximum", m_)
        dropped = sorted(set(range(N)) - set(S))
        if not dropped or N <= 2:
            return None
        crowd_ev = [e for e in obs["events"] if e[0] == "crowd"]
        if case["cf"] in ("cd", "ce"):
            d = np.array([float.fromhex(h) for h in crowd_ev[-1][2]]) if crowd_ev else None
            if d is not None and len(d) == N:
                kept_min = min(d[i] for i in S)
                if any(d[i] > kept_min for i in dropped):
                    return "C15-oneshot: %s dropped a member whose crowding exceeds that of a kept member" % case["cf"]
        else:
            if N <= M + (0 if case["cf"] != "2nn" else 0):
                return None
            if len(dropped) > N - M:
                return None        # beyond the pruning range n_remove is clamped and the final sort decides
            ref = greedy_drop(case["cf"], F, len(dropped))
            if ref is not None and ref != dropped:
                return "C15-pruning: %s dropped %s, pruning one at a time drops %s" % (case["cf"], dropped, ref)
        return None

    def coq(self, case, obs):
        """the truncation with recorded oracle answers AND every crowding vector it used against the metric models"""
        if case.get("kind") == "dvec":
            logs = [(float.fromhex(a), float.fromhex(b)) for a, b in obs["logs"]]
            exp = None if obs.get("d") is None else np.array([float.fromhex(h) for h in obs["d"]])
            t = crowd.metric_term(case["label"], decarr(case["F"], 2), case["n_remove"], exp, logs=logs, argpart=obs.get("argpart"), engine=case["engine"])
            if not (case["label"] == "pcd" and case["engine"] == "fallback"):
                return crowd.with_tinydup(case["label"], decarr(case["F"], 2), t)
            if case["label"] == "pcd" and case["engine"] == "fallback" and not isinstance(t, tuple):
                # model verdict for the known finding pcd/tied-max-extra-infinite: more than 2 x n_obj values of the MODEL are +inf
                crowd._UID += 1
                v = "pd%d" % crowd._UID; F = decarr(case["F"], 2)
                pre = "Definition %s := Eval vm_compute in (fallback_pcd (X:=Fx) %s (%d)%%Z)." % (v, cfmat(F), case["n_remove"])
                return pre, t, {"extra_inf": "(%d <? length (filter (fun x => PrimFloat.eqb x (pinf Fx)) %s))%%nat" % (2 * F.shape[1], v), "tinydup": crowd.tinydup_term(F)}
            return t
        main = surv.survival_term(case, obs)
        pre, parts, aux = [], [main], {}
        for cc in obs.get("crowd_calls", []):
            F = decarr(cc["F"], 2)
            if F.size == 0:
                continue
            d = np.array([float.fromhex(h) for h in cc["d"]])
            logs = [(float.fromhex(a), float.fromhex(b)) for a, b in cc["logs"]]
            t = crowd.with_tinydup(case["cf"], F, crowd.metric_term(case["cf"], F, cc["n_remove"], d, logs=logs, argpart=cc["argpart"], engine="compiled"))
            if isinstance(t, tuple):
                pre.append(t[0]); parts.append(t[1])
                for k, v in t[2].items():
                    aux[k] = "(%s) || (%s)" % (aux[k], v) if k in aux else v
            elif t is not None:
                parts.append(t)
        term = " && ".join("(%s)" % p for p in parts)
        if pre:
            return "\n".join(pre), term, aux
        return term

    def known(self, case, obs, msg):
        a = getattr(self, "aux", {}).get(getattr(self, "cur", None), {})
        Fk = decarr(case["F"], 2) if case.get("kind") == "dvec" else np.array(case["F"], dtype=float)[case.get("n_lead", 0):]
        if a.get("tinydup") and len(np.unique(Fk, axis=0)) == len(Fk) and msg.split(":")[0] in ("C15-boundary", "C15-pruning", "C15-oneshot"):
            return "metrics/dup-eps-absolute"      # see C13: the model's duplicate filter flags a point of a front of distinct points
        if case.get("kind") == "dvec":
            if case["engine"] == "compiled" and case["label"] == "pcd" and a.get("oob"):
                return "compiled/pcd/OOB"
            if case["label"] == "pcd" and msg.startswith("C15-boundary") and a.get("extra_inf"):
                return "pcd/tied-max-extra-infinite"
            return None
        if msg == "correspondence" and a.get("oob") and case["cf"] == "pcd":
            return "compiled/pcd/OOB"
        # the duplicated-neighbour defect of the compiled mnn kernel changes the drop order: only if the kernel model confirms it
        if case["cf"] == "mnn" and msg.startswith("C15-pruning"):
            F = np.array(case["F"], dtype=float)[case.get("n_lead", 0):]
            n_remove = len(F) - (case["n_survive"] - case.get("n_lead", 0))
            r = engine("compiled").call("mnn", F, n_remove)
            if r.get("crash") or "exception" in r:
                return None
            pre, t, aux = crowd.metric_term("mnn", F, n_remove, None, argpart=r["argpart"], engine="compiled")
            try:
                bad, _ = eval_cases(self.ID + "k", "From PV Require Import Model.Crowding Model.Fallback Model.Kernels.", [(pre, [aux["dup"]])])
                return "compiled/mnn/dup-neighbour" if not bad else None
            except Exception:
                return None
        return None

    def nontrivial(self, case, obs):
        if case.get("kind") == "dvec":
            return case["n_remove"] >= 2
        return len(case["F"]) - case["n_survive"] >= 2

    def classes(self, case, obs):
        if case.get("kind") == "dvec":
            return [case["label"], case["style"], "obj=%d" % len(case["F"][0]), "crowding-vector-" + case["engine"], "boundary-clause"]
        return [case["cf"], case["style"], "obj=%d" % len(case["F"][0])] + (["boundary-clause"] if case["n_survive"] - case.get("n_lead", 0) >= 2 * len(case["F"][0]) else []) + (
            ["split-front-is-not-the-first"] if case.get("n_lead") else [])


if __name__ == "__main__":
    cli(C15)
