"""C15  Truncating a front keeps boundary points and prunes one at a time."""
import numpy as np
from harness.core import *
from harness import crowd, surv
from harness.c13 import engine


def greedy_drop(label, F, n_drop):
    """reference: drop the most crowded member, recompute the crowding of the rest, repeat; None if a tie occurs"""
    F = np.asarray(F, dtype=float); N, M = F.shape
    K = 2 if label == "2nn" else M
    score = crowd._score_cd if label == "pcd" else crowd._score_mnn(K)
    den = F.max(axis=0) - F.min(axis=0); den[den == 0] = 1.0
    Xn = (F - F.min(axis=0)) / den
    ext = crowd._extremes(F)
    H = list(range(N)); dropped = []
    for _ in range(n_drop):
        vals = [np.inf if i in ext else v for i, v in zip(H, score(Xn, H))]
        mn = min(vals)
        if not np.isfinite(mn) or sum(1 for v in vals if v == mn) != 1:
            return None
        k = H[vals.index(mn)]; H.remove(k); dropped.append(k)
    return sorted(dropped)


class C15(Check):
    ID = "C15"
    IMPORTS = "From PV Require Import Model.Dominance Model.RankCrowd Model.Crowding Model.Fallback Model.Kernels."
    ISOLATE = True
    RULE = ("RankAndCrowding(crowding_func=cf).do on populations whose first front is a generated non-dominated front (2..4 objectives, continuous and tie-rich) that has to be "
            "truncated, every number of members to drop, cf in cd / pcd (2 objectives on the compiled engine) / ce / mnn / 2nn; per-objective min and max of the front before "
            "and after (boundary clause when >= 2*n_obj members are kept); dropped members compared with the reference 'drop the most crowded, recompute, repeat' for the "
            "pruning metrics when that sequence has no ties, and with 'smallest crowding computed once' for cd / ce; the survival itself is compared with the model "
            "(recorded crowding values and permutation); non-trivial = at least 2 members dropped; distinct by hash")
    ASSUMPTIONS = ["the boundary clause is a theorem about any crowding vector that is +inf on a set E with |{inf}| <= kept; that each metric puts +inf on holders of every "
                   "objective's minimum and maximum is established by C13's correspondence and oracle, not proved (partial)",
                   "'pruning one at a time' for the compiled engine relies on the tested (not proved) agreement of the incremental kernels with recomputation from scratch"]
    QUICK_N = 300
    THOROUGH_N = 4000

    def gen(self, n):
        for _ in range(n):
            F, style = crowd.gen_front(self.rng, max_n=20, objs=(2, 2, 3, 3, 4))
            N = len(F)
            cf = self.rng.choice(crowd.LABELS)
            if cf == "pcd" and F.shape[1] >= 3:
                cf = self.rng.choice(["cd", "ce", "mnn", "2nn"])
            k = self.rng.randint(1, N)
            G = [[] for _ in range(N)]
            yield {"F": F.tolist(), "G": G, "H": G, "n_survive": k, "cls": "RankAndCrowding", "cf": cf, "style": style, "feasmode": "unconstrained",
                   "seed": self.rng.randrange(2 ** 31)}

    def run(self, case):
        return surv.run_survival(case)

    def oracle(self, case, obs):
        m = surv.oracle_c03(case, obs)
        if m:
            return m
        F = np.array(case["F"], dtype=float); N, M = F.shape
        S = sorted(obs["surv"]); k = case["n_survive"]
        if len(np.unique(F, axis=0)) < N or not crowd.nondominated(F):
            return None
        if k >= 2 * M and k < N:
            for m_ in range(M):
                if F[S, m_].min() != F[:, m_].min() or F[S, m_].max() != F[:, m_].max():
                    return "C15-boundary: %s: truncating %d -> %d members lost the %s of objective %d" % (
                        case["cf"], N, k, "minimum" if F[S, m_].min() != F[:, m_].min() else "maximum", m_)
        dropped = sorted(set(range(N)) - set(S))
        if not dropped or N <= 2:
            return None
        crowd_ev = [e for e in obs["events"] if e[0] == "crowd"]
        if case["cf"] in ("cd", "ce"):
            d = np.array([float.fromhex(h) for h in crowd_ev[-1][2]]) if crowd_ev else None
            if d is not None and len(d) == N:
                kept_min = min(d[i] for i in S)
                if any(d[i] > kept_min for i in dropped):
                    return "C15-oneshot: %s dropped a member whose crowding exceeds that of a kept member" % case["cf"]
        else:
            if N <= M + (0 if case["cf"] != "2nn" else 0):
                return None
            if len(dropped) > N - M:
                return None        # beyond the pruning range n_remove is clamped and the final sort decides
            ref = greedy_drop(case["cf"], F, len(dropped))
            if ref is not None and ref != dropped:
                return "C15-pruning: %s dropped %s, pruning one at a time drops %s" % (case["cf"], dropped, ref)
        return None

    def coq(self, case, obs):
        """the truncation with recorded oracle answers AND every crowding vector it used against the metric models"""
        main = surv.survival_term(case, obs)
        pre, parts, aux = [], [main], {}
        for cc in obs.get("crowd_calls", []):
            F = decarr(cc["F"], 2)
            if F.size == 0:
                continue
            d = np.array([float.fromhex(h) for h in cc["d"]])
            logs = [(float.fromhex(a), float.fromhex(b)) for a, b in cc["logs"]]
            t = crowd.metric_term(case["cf"], F, cc["n_remove"], d, logs=logs, argpart=cc["argpart"], engine="compiled")
            if isinstance(t, tuple):
                pre.append(t[0]); parts.append(t[1])
                for k, v in t[2].items():
                    aux[k] = "(%s) || (%s)" % (aux[k], v) if k in aux else v
            elif t is not None:
                parts.append(t)
        term = " && ".join("(%s)" % p for p in parts)
        if pre:
            return "\n".join(pre), term, aux
        return term

    def known(self, case, obs, msg):
        a = getattr(self, "aux", {}).get(getattr(self, "cur", None), {})
        if msg == "correspondence" and a.get("oob") and case["cf"] == "pcd":
            return "compiled/pcd/OOB"
        # the duplicated-neighbour defect of the compiled mnn kernel changes the drop order: only if the kernel model confirms it
        if case["cf"] == "mnn" and msg.startswith("C15-pruning"):
            F = np.array(case["F"], dtype=float)
            n_remove = len(F) - case["n_survive"]
            r = engine("compiled").call("mnn", F, n_remove)
            if r.get("crash") or "exception" in r:
                return None
            pre, t, aux = crowd.metric_term("mnn", F, n_remove, None, argpart=r["argpart"], engine="compiled")
            try:
                bad, _ = eval_cases(self.ID + "k", "From PV Require Import Model.Crowding Model.Fallback Model.Kernels.", [(pre, [aux["dup"]])])
                return "compiled/mnn/dup-neighbour" if not bad else None
            except Exception:
                return None
        return None

    def nontrivial(self, case, obs):
        return len(case["F"]) - case["n_survive"] >= 2

    def classes(self, case, obs):
        return [case["cf"], case["style"], "obj=%d" % len(case["F"][0])] + (["boundary-clause"] if case["n_survive"] >= 2 * len(case["F"][0]) else [])


if __name__ == "__main__":
    cli(C15)
