"""C16  ConstrRankAndCrowding orders infeasible solutions in violation space."""
import numpy as np
from harness.core import *
from harness import surv
from harness.c03 import C03


class C16(C03):
    ID = "C16"
    RULE = ("ConstrRankAndCrowding.do on populations with 0..2 inequality and 0..2 equality constraints (grid-valued violations with ties and zeros in some constraints, "
            "continuous ones), all n_survive, all metrics; survivors compared with an independent oracle (feasible first, feasible part by dominance depth, infeasible "
            "by fronts of the violation vectors, cut by total violation); on unconstrained problems the same seed must give RankAndCrowding's survivors; "
            "non-trivial = infeasible members had to be selected, or unconstrained; distinct by hash")

    def gen(self, n):
        for _ in range(n):
            yield surv.gen_pop_case(self.rng, crnc_bias=1.0)

    def run(self, case):
        obs = surv.run_survival(case)
        if not obs["constr"]:
            c2 = dict(case); c2["cls"] = "RankAndCrowding"
            obs["rnc_surv"] = surv.run_survival(c2)["surv"]
        return obs

    def oracle(self, case, obs):
        if "rnc_surv" in obs and obs["rnc_surv"] != obs["surv"]:
            return "C16-unconstrained: survivors %s differ from RankAndCrowding's %s on a problem without constraints" % (obs["surv"], obs["rnc_surv"])
        return surv.oracle_c03(case, obs) or surv.oracle_c16(case, obs)

    def nontrivial(self, case, obs):
        return (not obs["constr"]) or any(not obs["feas"][s] for s in obs["surv"])


if __name__ == "__main__":
    cli(C16)
