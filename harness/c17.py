"""C17  Runs are reproducible and independent of how the loop is driven."""
import random
import numpy as np
from harness.core import *
from harness import hist, runs

ALGS = ("DE", "NSDE", "GDE3", "GDE3MNN", "NSDER")


class C17(Check):
    ID = "C17"
    IMPORTS = hist.IMPORTS
    QUICK_N = 24
    THOROUGH_N = 120
    CASE_TIMEOUT = 300
    RULE = ("for random configurations of DE / NSDE / GDE3 / GDE3MNN / NSDE-R: (1) the run in a fresh interpreter is the reference; (2) in this process, after other workloads "
            "(a different algorithm via minimize, an aborted ask-and-tell run, a complete ask-and-tell run of the same class with the default termination), the same "
            "configuration and seed must reproduce the reference generation by generation (fingerprints of X, F, G and of the optimum), also when the run itself uses the "
            "default termination; (3) minimize must end in the reference's last population; (4) ask-and-tell with the offspring evaluated outside the algorithm one by one "
            "other problems driven through ask-and-tell / minimize(copy_algorithm=False) on algorithm objects that share the default operator instances; in shuffled order, and in batches, must reproduce the reference; (5) __dict__ of the shared default operator instances is compared before/after; "
            "(6) the run repeated while numpy.empty / empty_like return arrays pre-filled with small in-range integers / 0.5 must reproduce the reference (nothing may read uninitialised memory); in addition one run per case is compared with the Coq model step by step (as in C06-C08); non-trivial = at least 3 generations compared; distinct by hash; one case in four or five is a multi-feature scenario taken in turn and run in a process of its own (the algorithm's default survival object after a run on an unconstrained problem, now on a problem with 20-80% feasible points; constraint-ranking or default survival with a small feasible region reached one member at a time; single-objective DE with a minimal population on a coarse plateau, 8 generations; constraint-ranking survival with two constraints and at most 30% feasible points; the dither range as one shared float array; an objective that is +inf on part of the box (cd / ce); advance_after_initial_infill=False); 15% of the two-objective cd / ce cases have such an infinite region and 12% of the DE cases that flag; one case in six warm-starts every run of the configuration from one evaluated Population object that the caller keeps")
    ASSUMPTIONS = ["the model is a function of the recorded draws and oracle answers (no hidden state by construction); that the Python objects have no further state "
                   "(module globals, shared default-argument instances, numpy's global generator) is an observation of these paired runs: partial",
                   "numpy.random.seed(seed) determines the draw stream (numpy, trusted)"]

    def gen(self, n):
        for i in range(n):
            cfg = hist.gen_hist_case(self.rng, algs=ALGS, n_gen=self.rng.choice([4, 5]))
            if i % 4 == 3:
                cfg = hist.gen_scenario_case(self.rng, 5 + i // 4, ALGS, n_gen=5) or cfg       # multi-feature scenarios in turn, starting with the shared F array
            cfg["default_termination"] = self.rng.random() < 0.35
            cfg["workloads"] = self.rng.sample(["other-minimize", "aborted", "default-term-asktell", "none", "other-asktell", "other-asktell", "other-nocopy"], 2)
            if i % 4 == 2 and cfg["alg"] != "NSDER":
                # the smallest population the variant admits (one spare member), after an aborted run of the same configuration
                if i % 8 == 2:
                    cfg["sel"] = "rand"
                nd = cfg["y"] + (1 if "-to-" in cfg["sel"] else 0)
                cfg["pop_size"] = 1 + 2 * nd + 1
                cfg["workloads"] = ["aborted", self.rng.choice(["other-asktell", "none", "default-term-asktell"])]
            if i % 6 == 1 and cfg["alg"] != "NSDER":
                # warm start from an evaluated Population object that the caller keeps and re-uses for every run of this configuration
                cfg["warm_pop"] = True
            cfg["wl_seed"] = self.rng.randrange(10 ** 6)
            yield cfg

    def run(self, cfg):
        from pymoo.optimize import minimize
        G = cfg["n_gen"]
        dt = cfg["default_termination"]
        ref = runs.reference_in_new_process(cfg, G, dt)
        shared_before = shared_snapshot()
        wrng = random.Random(cfg["wl_seed"])
        done = []
        for w in cfg["workloads"]:
            if w == "other-minimize":
                c2 = hist.gen_hist_case(wrng, algs=("NSDE", "DE"), n_gen=3)
                minimize(hist.make_problem(c2), hist.make_algorithm(c2), ("n_gen", 3), seed=c2["seed"], verbose=False)
            elif w in ("other-asktell", "other-nocopy"):
                # another problem (same algorithm family, same shapes half of the time, unconstrained half of the time) on algorithm objects that are NOT deep-copied
                c2 = hist.gen_hist_case(wrng, algs=(cfg["alg"], cfg["alg"], cfg["alg"], "DE", "NSDE", "GDE3"), n_gen=3)
                if wrng.random() < 0.5:
                    c2["n_ieq"] = 0; c2["shift"] = 0.0; c2.pop("fscale", None); c2.pop("gscale", None)
                if wrng.random() < 0.5 and cfg["alg"] != "NSDER" and c2["alg"] != "NSDER":
                    c2["n_var"] = cfg["n_var"]; c2["pop_size"] = cfg["pop_size"]; c2["sel"] = cfg["sel"]; c2["y"] = cfg["y"]
                    c2["xl"] = enc(decarr(cfg["xl"]) - 1.0); c2["xu"] = enc(decarr(cfg["xu"]) + 2.0)
                    c2["A"] = [[wrng.gauss(0, 1) for _ in range(c2["n_var"])] for _ in range(c2["n_obj"])]
                    c2["B"] = [[wrng.gauss(0, 1) for _ in range(c2["n_var"])] for _ in range(max(c2["n_ieq"], 1))]
                    if c2.get("n_eq"):
                        c2["Bh"] = [[wrng.gauss(0, 1) for _ in range(c2["n_var"])]]
                if w == "other-asktell":
                    runs.fresh_run(c2, 3)
                else:
                    minimize(hist.make_problem(c2), hist.make_algorithm(c2), ("n_gen", 3), seed=c2["seed"], verbose=False, copy_algorithm=False)
            elif w == "aborted":
                c2 = dict(cfg); c2["seed"] = cfg["seed"] + 1
                runs.fresh_run(c2, 2)
            elif w == "default-term-asktell":
                c2 = dict(cfg); c2["seed"] = cfg["seed"] + 2
                runs.fresh_run(c2, 400, default_termination=True)       # runs until the default termination stops it (or 400 generations)
            done.append(w)
        again, alg, prob = runs.fresh_run(cfg, G, dt)
        out = {"ref": ref, "again": again, "workloads": done}
        if not dt:
            res = minimize(hist.make_problem(cfg), hist.make_algorithm(cfg), ("n_gen", G), seed=cfg["seed"], verbose=False)
            out["minimize_last"] = runs.fingerprint_pop(res.pop)
            out["again_last_pop"] = alg._last_pop_fp
            # one algorithm object handed to minimize twice (minimize works on deep copies: no constructor runs in between)
            algx = hist.make_algorithm(cfg)
            out["twice"] = [runs.fingerprint_pop(minimize(hist.make_problem(cfg), algx, ("n_gen", G), seed=cfg["seed"], verbose=False).pop) for _ in range(2)]
            for mode, batch in (("one-by-one", 1), ("batches", 3)):
                prob2 = hist.make_problem(cfg); alg2 = hist.make_algorithm(cfg)
                alg2.setup(prob2, seed=cfg["seed"], termination=("n_gen", G + 1), verbose=False)
                orng = random.Random(cfg["wl_seed"] + batch)
                out[mode] = runs.drive(alg2, prob2, G, ext=lambda p, inf: runs.external_eval(p, inf, orng, batch))
        if not dt:
            # the same run while numpy.empty / empty_like hand out recycled-looking memory (small in-range integers, 0.5 for floats):
            # nothing may depend on what an uninitialised array happens to contain
            with JunkEmpty():
                out["junk-empty"] = runs.fresh_run(cfg, G, dt)[0]
        out["shared_same"] = shared_snapshot() == shared_before
        # the model-level tie of one of these runs
        obs = hist.run_history(cfg)
        out["hist"] = obs
        return out

    def oracle(self, cfg, obs):
        ref = obs["ref"]
        if obs["again"] != ref:
            k = next((i for i, (a, b) in enumerate(zip(obs["again"], ref)) if a != b), min(len(obs["again"]), len(ref)))
            return "C17-repeat: same configuration and seed after %s differs from the run in a fresh process at generation %d (%d vs %d generations)" % (
                obs["workloads"], k, len(obs["again"]), len(ref))
        if "minimize_last" in obs and ref and obs["minimize_last"] != obs["again_last_pop"]:
            return "C17-minimize: minimize ends in a different population than the ask-and-tell run"
        if "twice" in obs and ref and (obs["twice"][0] != obs["again_last_pop"] or obs["twice"][1] != obs["again_last_pop"]):
            return "C17-same-object: one algorithm object passed to minimize twice: run %d ends in a different population than the reference" % (
                1 if obs["twice"][0] != obs["again_last_pop"] else 2)
        for mode in ("one-by-one", "batches"):
            if mode in obs and obs[mode] != ref:
                return "C17-external-%s: evaluating the offspring outside the algorithm (%s, shuffled) changes the run" % (mode, mode)
        if "junk-empty" in obs and obs["junk-empty"] != ref:
            return "C17-uninitialised: the run changes when numpy.empty returns arrays with other (in-range) contents: something reads uninitialised memory"
        if not obs["shared_same"]:
            return "C17-shared-state: a shared default operator instance was modified by a run"
        return None

    def coq(self, cfg, obs):
        return hist.history_term(cfg, obs["hist"], ("ask", "tell"))

    def nontrivial(self, cfg, obs):
        return len(obs["ref"]) >= 3

    def classes(self, cfg, obs):
        return [cfg["alg"], "default-termination" if cfg["default_termination"] else "n_gen"] + ["after-" + w for w in obs["workloads"]]


class JunkEmpty:
    """numpy.empty / numpy.empty_like return arrays whose numeric contents look like recycled heap memory"""

    def __enter__(self):
        self.e, self.el = np.empty, np.empty_like

        def fill(a):
            if a.dtype.kind in "iu":
                a[...] = 1
            elif a.dtype.kind == "f":
                a[...] = 0.5
            elif a.dtype.kind == "b":
                a[...] = True
            return a

        def empty(*a, **k): return fill(self.e(*a, **k))
        def empty_like(*a, **k): return fill(self.el(*a, **k))
        np.empty, np.empty_like = empty, empty_like
        return self

    def __exit__(self, *a):
        np.empty, np.empty_like = self.e, self.el
        return False


def shared_snapshot():
    """state of the operator instances created once in signatures and shared by all algorithm objects"""
    import inspect
    from pymoode.algorithms.base import differential
    from pymoode.algorithms import de, gde3, nsde
    out = []
    for cls in (differential.DifferentialEvolution, differential.MODE, de.DE, gde3.GDE3, nsde.NSDE):
        sig = inspect.signature(cls.__init__)
        for name, p in sig.parameters.items():
            v = p.default
            if v is inspect.Parameter.empty or isinstance(v, (int, float, str, tuple, type(None), bool)):
                continue
            out.append((cls.__name__, name, type(v).__name__, repr(sorted((k, repr(x)[:200]) for k, x in vars(v).items() if not k.startswith("_")))[:3000]))
    return out


if __name__ == "__main__":
    cli(C17)
