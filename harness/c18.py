"""C18  A run can be checkpointed after any generation and resumed."""
import copy, pickle, random
import numpy as np
from harness.core import *
from harness import hist, runs

ALGS = ("DE", "NSDE", "GDE3", "GDE3MNN", "NSDER")


def my_repair(X, Xb, xl, xu):      # user-supplied operator: module-level function (picklable)
    return np.clip(X, xl, xu)


class StatefulRepair:
    """user-supplied repair operator that carries state: a callable object whose pull towards the base vector weakens with every call"""

    def __init__(self):
        self.calls = 0

    def __call__(self, X, Xb, xl, xu):
        self.calls += 1
        w = 1.0 / (1.0 + self.calls)
        XL = np.tile(xl, (len(X), 1)); XU = np.tile(xu, (len(X), 1))
        X = np.where(X < XL, XL + w * (Xb - XL), X)
        X = np.where(X > XU, XU - w * (XU - Xb), X)
        return X


class StatefulCross:
    """user-supplied crossover given to DEX(variant=...): a callable object whose rate is annealed with every call"""

    def __init__(self):
        self.calls = 0

    def __call__(self, n_matings, n_var, CR, at_least_once=True):
        from pymoode.operators.dex import cross_binomial
        self.calls += 1
        return cross_binomial(n_matings, n_var, CR / (1.0 + 0.25 * self.calls), at_least_once)


class UserOps:
    def cross(self, n_matings, n_var, CR, at_least_once=True):      # user-supplied operator: bound method
        from pymoode.operators.dex import cross_binomial
        return cross_binomial(n_matings, n_var, CR, at_least_once)


class C18(Check):
    ID = "C18"
    IMPORTS = hist.IMPORTS
    QUICK_N = 15
    THOROUGH_N = 80
    CASE_TIMEOUT = 400
    RULE = ("for random configurations of DE / NSDE / GDE3 / GDE3MNN / NSDE-R (stateful reference-direction survival), F given or left at its default, some with a user-supplied "
            "repair (a plain function or a stateful callable object, passed through the constructor) and a bound-method crossover, or a stateful callable crossover object given to DEX(variant=...): the run is interrupted after EVERY generation k; the algorithm is checkpointed by copy.deepcopy, pickle and dill "
            "together with numpy.random.get_state(); each checkpoint is resumed (deepcopy/dill/pickle in this process after disturbing the generator, pickle also in a fresh "
            "interpreter) with the saved generator state and must reproduce every later generation of the uninterrupted run (fingerprints of X, F, G, optimum); "
            "minimize(save_history=True) must end in the same population as save_history=False; the uninterrupted run is also compared with the Coq model step by step; "
            "non-trivial = at least 3 interruption points; distinct by hash; one case in four or five is a multi-feature scenario taken in turn and run in a process of its own (the algorithm's default survival object after a run on an unconstrained problem, now on a problem with 20-80% feasible points; constraint-ranking or default survival with a small feasible region reached one member at a time; single-objective DE with a minimal population on a coarse plateau, 8 generations; constraint-ranking survival with two constraints and at most 30% feasible points; the dither range as one shared float array; an objective that is +inf on part of the box (cd / ce); advance_after_initial_infill=False); 15% of the two-objective cd / ce cases have such an infinite region and 12% of the DE cases that flag")
    ASSUMPTIONS = ["what pickle / dill / deepcopy do to bound methods, C-extension state and numpy's generator is runtime behaviour the model cannot exhibit: observation only (partial)",
                   "the model-level statement is: a run of k + m generations is the run of m generations from the state after k (state is a first-class value)"]

    def gen(self, n):
        kinds = ["plain", "stateful", "cross-object"]
        for i in range(n):
            # every third case carries user-supplied operators, the three kinds in turn (so that even the 10 cases of the quick tier cover each of them)
            user = i % 3 == 1
            cfg = hist.gen_hist_case(self.rng, algs=tuple(a for a in ALGS if a != "NSDER") if user else ALGS, n_gen=self.rng.choice([4, 5]))
            if i % 5 == 2:
                # multi-feature scenarios in turn, starting with stagnant generations of single-objective DE (a checkpoint follows every generation)
                cfg = hist.gen_scenario_case(self.rng, [2, 2, 3, 4, 5, 0, 1][(i // 5) % 7], ALGS, n_gen=5) or cfg
            if self.rng.random() < 0.4 and cfg["alg"] != "DE":
                cfg["F"] = None
            cfg["user_ops"] = kinds[(i // 3) % 3] if user else False
            cfg["disturb"] = self.rng.randrange(10 ** 6)
            yield cfg

    def build(self, cfg):
        prob = hist.make_problem(cfg)
        if cfg.get("user_ops"):
            # user-supplied operators: the repair goes through the constructor (a plain function or a stateful callable object),
            # the crossover function is a bound method
            cfgx = dict(cfg); cfgx["repair"] = StatefulRepair() if cfg.get("user_ops") == "stateful" else my_repair
            alg = hist.make_algorithm(cfgx)
            if cfg.get("user_ops") == "cross-object":
                from pymoode.operators.dex import DEX
                alg = hist.make_algorithm(cfg)
                alg.mating.crossover = DEX(variant=StatefulCross(), CR=float.fromhex(cfg["CR"]))     # the documented way to plug in a crossover function
            else:
                alg.mating.crossover.cross_function = UserOps().cross
        else:
            alg = hist.make_algorithm(cfg)
        alg.setup(prob, seed=cfg["seed"], termination=("n_gen", cfg["n_gen"] + 1), verbose=False)
        return alg, prob

    def run(self, cfg):
        import dill
        from pymoo.optimize import minimize
        G = cfg["n_gen"]
        alg, prob = self.build(cfg)
        H, snaps = [], []
        for g in range(G):
            H += runs.drive(alg, prob, 1)
            if g < G - 1:
                st = np.random.get_state()
                snaps.append((g + 1, st, copy.deepcopy(alg), pickle.dumps(alg), dill.dumps(alg)))
        np.random.set_state(np.random.get_state())
        fails = []
        for k, st, dc, pk, dl in snaps:
            for mode, mk in (("deepcopy", lambda: dc), ("pickle", lambda: pickle.loads(pk)), ("dill", lambda: dill.loads(dl))):
                np.random.seed(cfg["disturb"]); np.random.random(17)          # something else used the generator in between
                a2 = mk()
                np.random.set_state(st)
                h = runs.drive(a2, a2.problem, G - k)
                if h != H[k:]:
                    j = next((i for i, (x, y) in enumerate(zip(h, H[k:])) if x != y), min(len(h), len(H) - k))
                    fails.append([mode, k, k + j])
        # one resume in a fresh interpreter (pickle), from the middle of the run
        k, st, dc, pk, dl = snaps[len(snaps) // 2]
        try:
            h = runs.resume_in_new_process(pk, st, G - k)
            if h != H[k:]:
                fails.append(["pickle-new-process", k, k])
        except Exception as e:
            if not cfg.get("user_ops"):      # user operators defined in this module need the module on the path: provided; others must load
                fails.append(["pickle-new-process-error: %s" % str(e)[-200:], k, k])
        # save_history
        r1 = minimize(hist.make_problem(cfg), self._plain(cfg), ("n_gen", G), seed=cfg["seed"], verbose=False, save_history=True)
        r2 = minimize(hist.make_problem(cfg), self._plain(cfg), ("n_gen", G), seed=cfg["seed"], verbose=False, save_history=False)
        same_hist = runs.fingerprint_pop(r1.pop) == runs.fingerprint_pop(r2.pop)
        return {"H": H, "fails": fails, "n_cuts": len(snaps), "save_history_same": bool(same_hist), "hist": hist.run_history(cfg) if not cfg.get("user_ops") else None}

    def _plain(self, cfg):
        return hist.make_algorithm(cfg)

    def oracle(self, cfg, obs):
        if obs["fails"]:
            mode, k, j = obs["fails"][0]
            return "C18-resume: %s checkpoint after generation %d: the resumed run differs from the uninterrupted one at generation %d (%d of %d checkpoint/mode pairs differ)" % (
                mode, k, j, len(obs["fails"]), 3 * obs["n_cuts"])
        if not obs["save_history_same"]:
            return "C18-history: recording the history changes the run"
        return None

    def coq(self, cfg, obs):
        if obs["hist"] is None:
            return None
        return hist.history_term(cfg, obs["hist"], ("ask", "tell"))

    def nontrivial(self, cfg, obs):
        return obs["n_cuts"] >= 3

    def classes(self, cfg, obs):
        return [cfg["alg"], "F-default" if cfg["F"] is None else "F-given"] + (["user-operators-%s" % cfg["user_ops"]] if cfg.get("user_ops") else []) + (
            ["scenario-" + cfg["scenario"]] if cfg.get("scenario") else [])


if __name__ == "__main__":
    cli(C18)
