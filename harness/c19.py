"""C19  Stochastic operators sample the distributions their parameters name.
Decision = the operators are deterministic functions of their uniform draws and the bit-exact correspondence with
the recorded / scripted draw streams shows that these functions are the ones the theorems characterise.  Statistics
are used only to look for a concrete deviating configuration once the correspondence is broken."""
import math
import numpy as np
from harness.core import *
from harness import gens
from harness import c09, c10, c11, c12


def forced_rows_oracle(events, rows, mask, v, tag):
    """every mating whose mask came out empty gets a forced coordinate from a draw of its own (uniform over 0..n_var-1), so that
    the forced coordinates of different matings are independent"""
    ri = [e for e in events if e[0] == "randint"]
    vals = [x for e in ri for x in e[4]]           # scalar draws or draws with size=: one value per mating either way
    if any((e[1], e[2]) != (0, v) for e in ri) or len(vals) != len(rows):
        return "C19-%s-forced-draws: %d matings without a drawn coordinate but %d index draws over 0..%d: forced coordinates are not drawn independently per mating" % (
            tag, len(rows), len(vals), v - 1)
    for x, i in zip(vals, rows):
        if not mask[i][x]:
            return "C19-%s-forced-draws: the forced coordinate of mating %d is not its own uniform draw" % (tag, i)
    return None


class C19(Check):
    ID = "C19"
    IMPORTS = "From PV Require Import Model.Repair Model.Mutate Model.Cross Model.Select Model.Variant."
    RULE = ("the stochastic operators called with recorded numpy.random streams and with scripted boundary draws (0, CR, CR +- 1 ulp, 1 - 2^-53, 2^-1074): cross_binomial / "
            "cross_exp / DEX.do (mask bit = [u < CR], block length = number of leading draws below CR, one start index per row), DEM.de_mutation (one dither draw per "
            "mutant and difference, one jitter draw per coordinate, affine maps), bounce_back / rand_init (one draw per violating coordinate, affine in the draw), "
            "DES._do (redraw exactly the inadmissible rows); every output is compared bit-for-bit with the model, whose draw-to-output maps are the ones characterised by "
            "the theorems; non-trivial = at least one draw consumed; distinct by hash. No statistical test takes part in the verdict.")
    ASSUMPTIONS = ["numpy.random delivers i.i.d. uniform draws on [0,1) / uniform integers (outside the repository); measure theory itself is not formalised: "
                   "'preimage is a box of volume p, hence probability p' is mathematics on paper",
                   "uniformity of the randomly drawn parents over the admissible individuals follows from 'redraw exactly the inadmissible entries' (rejection sampling); "
                   "the symmetry argument is not formalised (partial)"]
    QUICK_N = 600
    THOROUGH_N = 8000

    def gen(self, n):
        for _ in range(n):
            k = self.rng.choice(["cross", "cross", "mutate", "repair", "select"])
            if k == "cross": c = c12.gen_dex_case(self.rng)
            elif k == "mutate": c = c10.gen_mut_case(self.rng)
            elif k == "repair": c = c11.gen_repair_case(self.rng)
            else: c = c09.gen_sel_case(self.rng)
            c["kind"] = k
            yield c

    def run(self, case):
        k = case["kind"]
        if k == "cross": return c12.run_dex(case)
        if k == "mutate": return c10.run_mut(case)
        if k == "repair": return c11.C11.run(self, case)
        return c09.run_sel(case)

    def oracle(self, case, obs):
        """what every correct implementation satisfies on every single call, however it draws its random numbers (the distributional
        clauses themselves can only be refuted statistically: see search)"""
        k = case["kind"]
        if k == "cross":
            return c12.dex_oracle(case["variant"], float.fromhex(case["CR"]), decarr(case["X"], 2), decarr(case["V"], 2), decarr(obs["U"], 2), tag="C19")
        if k == "mutate":
            X = np.array([decarr(m, 2) for m in case["X"]])
            F = tuple(case["F"]) if isinstance(case["F"], list) else case["F"]
            return c10.mut_property_oracle(F, case["gamma"], X, decarr(obs["V"], 2), None if obs["d"] is None else decarr(obs["d"], 2), tag="C19", scripted="rand_values" in case)
        if k == "repair":
            return c11.repair_oracle(case["name"], decarr(case["X"]), decarr(case["Xb"]), decarr(case["xl"]), decarr(case["xu"]), decarr(obs["Z"]), tag="C19")
        return c09.sel_oracle(case["variant"], case["n_pop"], case["n_parents"], case["ranks"], obs["P"], tag="C19")

    def draw_protocol(self, case, obs):
        """which draw feeds which output (the map the theorems characterise): belongs to the correspondence"""
        k = case["kind"]
        ev = dec_events(obs["events"])
        if k == "cross":
            X = decarr(case["X"], 2); n, v = X.shape; CR = float.fromhex(case["CR"])
            U, V = decarr(obs["U"], 2), decarr(case["V"], 2)
            mask = (U == V)
            if case["variant"] == "bin":
                if not ev or ev[0][0] != "rand" or tuple(ev[0][1]) != (n, v):
                    return "C19-bin-draws: binomial crossover does not draw one uniform per coordinate"
                u = np.array(ev[0][2]).reshape(n, v)
                want = u < CR
                forced = ~want.any(axis=1)
                if not np.array_equal(mask[~forced], want[~forced]):
                    return "C19-bin: a coordinate is not taken exactly when its own draw is below CR=%r" % CR
                if np.any(mask[forced].sum(axis=1) != 1):
                    return "C19-bin-forced: a row without success does not get exactly one forced coordinate"
                msg = forced_rows_oracle(ev[1:], np.where(forced)[0], mask, v, "bin")
                if msg:
                    return msg
            else:
                if not ev or ev[0][0] != "randint" or ev[0][3] != n:
                    return "C19-exp-draws: exponential crossover does not draw one start index per row"
                starts = ev[0][4]; scal = [e for e in ev[1:] if e[0] == "rand" and tuple(e[1]) == ()]
                pos = 0; empty_rows = []
                for i in range(n):
                    L = 0
                    while L < v:
                        if pos >= len(scal):
                            return "C19-exp-draws: too few scalar draws"
                        ok = scal[pos][2][0] < CR; pos += 1
                        if not ok: break
                        L += 1
                    want = np.zeros(v, bool)
                    for j in range(L): want[(starts[i] + j) % v] = True
                    if L == 0:
                        empty_rows.append(i)
                        if mask[i].sum() != 1:
                            return "C19-exp-forced: empty block without exactly one forced coordinate"
                    elif not np.array_equal(mask[i], want):
                        return "C19-exp: row %d: block is not {start..start+L-1} with L = number of leading draws below CR (L=%d, start=%d, mask=%s)" % (
                            i, L, starts[i], mask[i].astype(int).tolist())
                msg = forced_rows_oracle(ev[1:], empty_rows, mask, v, "exp")
                if msg:
                    return msg
            return None
        if k == "mutate":
            X = np.array([decarr(m, 2) for m in case["X"]])
            F = tuple(case["F"]) if isinstance(case["F"], list) else case["F"]
            return c10.mut_oracle(F, case["gamma"], X, ev, decarr(obs["V"], 2), None if obs["d"] is None else decarr(obs["d"], 2), tag="C19")
        if k == "repair":
            X, Xb, xl, xu, Z = decarr(case["X"]), decarr(case["Xb"]), decarr(case["xl"]), decarr(case["xu"]), decarr(obs["Z"])
            name = case["name"]
            if name in ("bounce-back", "rand-init"):
                XL = np.tile(xl, (len(X), 1)); XU = np.tile(xu, (len(X), 1))
                lo = np.argwhere(X < XL); evs = [e for e in ev if e[0] == "rand"]
                e_i = 0
                Y = X.copy()
                if len(lo):
                    if e_i >= len(evs) or tuple(evs[e_i][1]) != (len(lo),):
                        return "C19-repair-draws: not one draw per coordinate below its bound"
                    u = np.array(evs[e_i][2]); e_i += 1
                    ref = Xb if name == "bounce-back" else XU
                    for (i, j), r in zip(lo, u):
                        Y[i, j] = XL[i, j] + r * (ref[i, j] - XL[i, j])
                hi = np.argwhere(Y > XU)
                if len(hi):
                    if e_i >= len(evs) or tuple(evs[e_i][1]) != (len(hi),):
                        return "C19-repair-draws: not one draw per coordinate above its bound"
                    u = np.array(evs[e_i][2])
                    ref = Xb if name == "bounce-back" else XL
                    for (i, j), r in zip(hi, u):
                        Y[i, j] = XU[i, j] - r * (XU[i, j] - ref[i, j])
                if not np.allclose(Y, Z, rtol=0, atol=1e-9 * (1 + np.abs(Y).max())):
                    return "C19-repair-affine: repaired coordinates are not bound + u * (reference - bound) of their own draw"
            return None
        # selection: every returned random entry is one of the values drawn for that row, the first admissible one
        n_pop, n_par = case["n_pop"], case["n_parents"]
        return c09.sel_oracle(case["variant"], n_pop, n_par, case["ranks"], obs["P"], tag="C19")

    def coq(self, case, obs):
        k = case["kind"]
        try:
            if self.draw_protocol(case, obs):
                return "false"
        except Exception:
            return "false"
        if k == "cross":
            return c12.dex_term(case["variant"], float.fromhex(case["CR"]), decarr(case["X"], 2), decarr(case["V"], 2), dec_events(obs["events"]), decarr(obs["U"], 2))
        if k == "mutate":
            return c10.mut_term(case, obs)
        if k == "repair":
            return c11.repair_term(case["name"], decarr(case["X"]), decarr(case["Xb"]), decarr(case["xl"]), decarr(case["xu"]), dec_events(obs["events"]), decarr(obs["Z"]))
        return c09.sel_term(case, obs)

    def nontrivial(self, case, obs):
        return len(obs["events"]) > 0

    def classes(self, case, obs):
        out = [case["kind"]]
        if "rand_values" in case or "script_vals" in case or "int_values" in case: out.append("scripted-draws")
        if case["kind"] == "cross": out.append(case["variant"])
        return out

    # ---- search: only when a proof or the correspondence is broken ----
    def search(self):
        """chi-square / exact-count tests on large samples with a Bonferroni-corrected level of 1e-9: looks for a configuration
        whose empirical distribution deviates from the named one; returns it as the failing input"""
        from pymoode.operators import dex
        from pymoode.operators.dem import DEM, bounce_back, rand_init
        from scipy import stats
        n_tests = 220; alpha = 1e-9 / n_tests
        rs = np.random.RandomState(12345 + self.seed); st = np.random.get_state(); np.random.seed(777 + self.seed)
        n_cases = 0
        try:
            for CR in (0.0, 0.1, 0.5, 0.9, 1.0):
                for v in (1, 2, 3, 5):
                    N = 40000; n_cases += 2
                    M = dex.cross_binomial(N, v, CR, at_least_once=False)
                    p = M.mean()
                    se = math.sqrt(max(CR * (1 - CR), 1e-12) / (N * v))
                    if abs(p - CR) > 7 * se + 1e-12:
                        return ({"kind": "stat", "test": "bin-frequency", "CR": CR, "n_var": v, "observed": float(p)}, {}, "C19-stat: binomial crossover takes coordinates with frequency %.5f instead of CR=%.2f (n_var=%d, %d samples)" % (p, CR, v, N * v)), None, n_cases
                    M = dex.cross_exp(N, v, CR, at_least_once=False)
                    L = M.sum(axis=1)
                    exp = np.array([(CR ** k) * (1 - CR) for k in range(v)] + [CR ** v]) * N
                    obs_ = np.bincount(L, minlength=v + 1)[:v + 1].astype(float)
                    keep = exp > 0
                    if np.any(obs_[~keep] > 0):
                        return ({"kind": "stat", "test": "exp-length-support", "CR": CR, "n_var": v, "observed": obs_.tolist()}, {}, "C19-stat: exponential block length takes a value of probability 0 (CR=%.2f n_var=%d: counts %s)" % (CR, v, obs_.tolist())), None, n_cases
                    if keep.sum() > 1:
                        chi = ((obs_[keep] - exp[keep]) ** 2 / exp[keep]).sum(); pv = stats.chi2.sf(chi, keep.sum() - 1)
                        if pv < alpha:
                            return ({"kind": "stat", "test": "exp-length", "CR": CR, "n_var": v, "observed": obs_.tolist(), "expected": exp.tolist()}, {}, "C19-stat: exponential block length is not geometric in CR truncated at n_var (CR=%.2f n_var=%d, p=%.1e)" % (CR, v, pv)), None, n_cases
            for lo, hi in ((0.0, 1.0), (0.5, 1.0), (0.2, 2.5)):
                n_cases += 1
                # through the documented entry point only: X1 - X2 = 1 in one coordinate, base 0, no jitter, so the mutant IS the factor
                n = 100000; X = np.zeros((3, n, 1)); X[1] = 1.0
                V = DEM(F=(lo, hi), gamma=None, n_diffs=1).de_mutation(X.copy()); V = V[0] if isinstance(V, tuple) else V
                F = np.asarray(V, dtype=float).ravel()
                pv = stats.kstest((F - lo) / (hi - lo), "uniform").pvalue
                if pv < alpha or F.min() < lo or F.max() > hi:
                    return ({"kind": "stat", "test": "dither", "range": [lo, hi]}, {}, "C19-stat: dithered scale factor is not uniform over [%r, %r] (KS p=%.1e)" % (lo, hi, pv)), None, n_cases
            # the remaining clauses, through the public operators only (no assumption on how they draw)
            def fail(test, info, msg):
                return ({"kind": "stat", "test": test, **info}, {}, "C19-stat: " + msg), None, n_cases
            N = 40000
            # forced coordinate (CR = 0): exactly one coordinate, uniform over the variables, for both crossovers
            for variant in ("bin", "exp"):
                for v in (2, 3, 5):
                    n_cases += 1
                    f = dex.cross_binomial if variant == "bin" else dex.cross_exp
                    M = f(N, v, 0.0, True)
                    if np.any(M.sum(axis=1) != 1):
                        return fail("forced-count", {"variant": variant, "n_var": v}, "%s crossover with CR=0 does not take exactly one coordinate from the mutant" % variant)
                    cnt = M.sum(axis=0).astype(float); pv = stats.chisquare(cnt).pvalue
                    if pv < alpha:
                        return fail("forced-uniform", {"variant": variant, "n_var": v, "observed": cnt.tolist()}, "the forced coordinate of %s crossover is not uniform over the variables (p=%.1e)" % (variant, pv))
            # exponential block: start uniform over the variables
            for v in (3, 5):
                n_cases += 1
                M = dex.cross_exp(N, v, 0.5, True)
                one = M.sum(axis=1) == 1
                cnt = M[one].sum(axis=0).astype(float); pv = stats.chisquare(cnt).pvalue
                if pv < alpha:
                    return fail("exp-start", {"n_var": v, "observed": cnt.tolist()}, "the start of the exponential block is not uniform over the variables (p=%.1e)" % pv)
            # jitter: Feff / F - 1 uniform on [-gamma/2, gamma/2), for large, default and small gamma
            for gamma in (1.0, 1e-2, 1e-4, 1e-5, 1e-6):
                n_cases += 1
                n, v = 20000, 2
                X = np.zeros((3, n, v)); X[1] = 1.0
                V = DEM(F=0.8, gamma=gamma, n_diffs=1).de_mutation(X.copy())
                V = V[0] if isinstance(V, tuple) else V
                z = (np.asarray(V, dtype=float).ravel() / 0.8 - 1.0) / gamma + 0.5
                pv = stats.kstest(z, "uniform").pvalue
                if pv < alpha or z.min() < -1e-6 or z.max() > 1 + 1e-6:
                    return fail("jitter", {"gamma": gamma}, "jitter with gamma=%g is not uniform and centred on 1 (KS p=%.1e, range of (Feff/F-1)/gamma: [%.3f, %.3f])" % (gamma, pv, z.min() - 0.5, z.max() - 0.5))
            # dither through de_mutation: one factor per mutant AND difference vector (independent)
            n_cases += 1
            n = 20000; X = np.zeros((5, n, 2)); X[1, :, 0] = 1.0; X[3, :, 1] = 1.0
            V = DEM(F=(0.2, 1.2), gamma=None, n_diffs=2).de_mutation(X.copy()); V = V[0] if isinstance(V, tuple) else V
            f1, f2 = np.asarray(V)[:, 0], np.asarray(V)[:, 1]
            for nm, f in (("first", f1), ("second", f2)):
                pv = stats.kstest((f - 0.2), "uniform").pvalue
                if pv < alpha:
                    return fail("dither-mutation", {"which": nm}, "the dithered factor of the %s difference vector is not uniform over the range (KS p=%.1e)" % (nm, pv))
            r = abs(np.corrcoef(f1, f2)[0, 1])
            if r > 8 / math.sqrt(n):
                return fail("dither-independent", {"corr": float(r)}, "the scale factors of two difference vectors of one mutant are not drawn independently (correlation %.3f)" % r)
            # dither and jitter together: the effective factor F*(1 + gamma*(u - 0.5)), F uniform over the range, against an independent simulation
            for lo, hi, gamma in ((0.6, 0.6, 0.5), (0.4, 0.8, 1.0), (0.5, 1.0, 0.3), (0.0, 1.0, 1.9), (0.9, 1.0, 0.5)):
                n_cases += 1
                n = 100000; X = np.zeros((3, n, 1)); X[1] = 1.0
                V = DEM(F=(lo, hi), gamma=gamma, n_diffs=1).de_mutation(X.copy()); V = V[0] if isinstance(V, tuple) else V
                f = np.asarray(V, dtype=float).ravel()
                ref = (lo + rs.random_sample(n) * (hi - lo)) * (1 + gamma * (rs.random_sample(n) - 0.5))
                pv = stats.ks_2samp(f, ref).pvalue
                if pv < alpha:
                    return fail("dither-jitter", {"range": [lo, hi], "gamma": gamma}, "with F dithered over [%g, %g] and gamma=%g the effective scale factors do not follow F*(1+gamma*(u-0.5)) (two-sample KS p=%.1e; share above the range: %.4f, simulated %.4f)" % (
                        lo, hi, gamma, pv, float((f > hi).mean()), float((ref > hi).mean())))
            # repairs: bounce-back / rand-init uniform on their segment
            for nm, f in (("bounce-back", bounce_back), ("rand-init", rand_init)):
                for side in ("lower", "upper"):
                    n_cases += 1
                    n = 40000; xl = np.array([0.0]); xu = np.array([2.0]); Xb = np.full((n, 1), 0.5)
                    X = np.full((n, 1), -1.0 if side == "lower" else 3.0)
                    Z = np.asarray(f(X.copy(), Xb, xl, xu), dtype=float).ravel()
                    if nm == "bounce-back":
                        z = (Z - 0.0) / 0.5 if side == "lower" else (2.0 - Z) / 1.5
                    else:
                        z = Z / 2.0
                    pv = stats.kstest(z, "uniform").pvalue
                    if pv < alpha or z.min() < 0 or z.max() > 1:
                        return fail("repair", {"strategy": nm, "side": side}, "%s does not place %s violations uniformly on its segment (KS p=%.1e)" % (nm, side, pv))
            # parents: every randomly drawn entry uniform over the admissible individuals, per row and column, for every variant;
            # for 'ranked' with tied ranks every role uniform as well
            from pymoode.operators.des import DES
            from pymoo.core.population import Population
            from pymoo.core.problem import Problem
            n_pop = 8; reps = 6000
            prob = Problem(n_var=1, n_obj=1, xl=0.0, xu=1.0)
            for variant, n_par, ranks in (("rand", 3, None), ("best", 3, None), ("current-to-best", 5, None), ("current-to-rand", 5, None), ("rand-to-best", 5, None),
                                          ("ranked", 3, [0] * n_pop), ("ranked", 3, [0, 0, 0, 0, 1, 1, 1, 1]), ("rand", 7, None)):
                n_cases += 1
                pop = Population.new("X", np.zeros((n_pop, 1)))
                if ranks is not None:
                    for ind, r_ in zip(pop, ranks): ind.set("rank", r_)
                else:
                    for i_, ind in enumerate(pop): ind.set("rank", i_)
                counts = np.zeros((n_pop, n_par, n_pop))
                sel = DES(variant)
                for _ in range(reps):
                    P = np.asarray(sel.do(prob, pop, n_pop, n_par, to_pop=False))
                    for c in range(n_par):
                        counts[np.arange(n_pop), c, P[:, c]] += 1
                for i in range(n_pop):
                    for c in range(n_par):
                        col = counts[i, c]
                        if col.max() == reps:
                            continue                                   # a fixed role (best / current)
                        adm = col > 0
                        # individuals that are never admissible here: the target, and the best where it is fixed
                        must = np.ones(n_pop, bool); must[i] = False
                        if variant in ("best", "current-to-best", "rand-to-best"): must[0] = False
                        if ranks is not None and len(set(ranks)) > 1:
                            continue                                   # mixed ranks: roles are not exchangeable, only judged on the tied case
                        if np.any(adm & ~must):
                            return fail("parents-support", {"variant": variant, "row": i, "column": c, "observed": col.tolist()}, "DE/%s: row %d column %d draws an inadmissible individual" % (variant, i, c))
                        pv = stats.chisquare(col[must]).pvalue
                        if pv < alpha / 10:
                            return fail("parents-uniform", {"variant": variant, "row": i, "column": c, "observed": col.tolist()},
                                        "DE/%s: the parent in row %d column %d is not uniform over the admissible individuals (counts %s, p=%.1e)" % (variant, i, c, col[must].astype(int).tolist(), pv))
        finally:
            np.random.set_state(st)
        return (None, None, n_cases)


if __name__ == "__main__":
    cli(C19)
