"""C20  Spacing indicator equals the RMS deviation of neighbour distances."""
import math
import numpy as np
from harness.core import *
from harness import gens

MODELLED = {"cityblock": "Cityblock", "euclidean": "Euclidean", "sqeuclidean": "SqEuclidean", "chebyshev": "Chebyshev"}
OTHER = ["canberra", "braycurtis", "minkowski", "seuclidean", "mahalanobis", "cosine", "correlation", "hamming"]


def ref_spacing(F, metric):
    """direct implementation of the formula (no NumPy reductions)"""
    F = [list(map(float, r)) for r in F]; n = len(F)
    def dist(a, b):
        if metric == "cityblock": return sum(abs(x - y) for x, y in zip(a, b))
        if metric == "euclidean": return math.sqrt(sum((x - y) ** 2 for x, y in zip(a, b)))
        if metric == "sqeuclidean": return sum((x - y) ** 2 for x, y in zip(a, b))
        if metric == "chebyshev": return max(abs(x - y) for x, y in zip(a, b))
        return None
    d = []
    if metric not in MODELLED:
        # any metric accepted by scipy's pdist: the pairwise distances of THESE points as pdist defines them (data-dependent parameters included)
        from scipy.spatial.distance import pdist, squareform
        try:
            with np.errstate(all="ignore"):
                D = squareform(pdist(np.array(F, dtype=float), metric=metric))
        except Exception:
            return None
        if not np.all(np.isfinite(D)):
            return None
        for i in range(n):
            d.append(min(D[i, j] for j in range(n) if j != i))
    for i in range(n if metric in MODELLED else 0):
        vals = [dist(F[i], F[j]) for j in range(n) if j != i]
        if vals[0] is None:
            return None
        d.append(min(vals))
    m = math.fsum(d) / n
    return math.sqrt(math.fsum((x - m) ** 2 for x in d) / n)


def gen_case(rng, max_n=40):
    N = rng.choice([2, 2, 3, 5, 8, 9, 17, rng.randint(2, max_n)]); M = rng.randint(1, 5)
    style = rng.choice(["grid", "cont", "dups", "equispaced", "narrow"])
    if style == "narrow":        # a range that is tiny relative to the magnitude of the objective (or tiny in absolute terms)
        offs = [rng.choice([(1e6, 4.0), (1e3, 1e-3), (0.0, 5e-9), (0.0, 1.0), (-1e9, 100.0)]) for _ in range(M)]
        F = [[o + w * rng.random() for (o, w) in offs] for _ in range(N)]
    elif style == "grid":
        F = [[gens.dyadic(rng, 0, 4, 4) for _ in range(M)] for _ in range(N)]
    elif style == "cont":
        F = [[rng.random() for _ in range(M)] for _ in range(N)]
    elif style == "dups":
        base = [[gens.dyadic(rng, 0, 4, 4) for _ in range(M)] for _ in range(max(1, N // 2))]
        F = [list(base[rng.randrange(len(base))]) for _ in range(N)]
    else:
        F = [[float(i)] + [float(N - i)] * (M - 1) for i in range(N)]
    metric = rng.choice(["cityblock", "cityblock", "cityblock", "euclidean", "euclidean", "sqeuclidean", "chebyshev", "chebyshev"] + OTHER)
    norm = rng.choice(["none", "none", "ideal-nadir", "pf", "pf+ideal", "pf+nadir"])
    xdtype = None
    if style in ("grid", "dups", "equispaced") and rng.random() < 0.3:
        # count-valued objectives handed over as an integer array (no normalisation: pymoo's own rescaling is not defined for integer arrays)
        F = [[float(int(4 * x)) for x in r] for r in F]; xdtype = "int64"; norm = "none"
    if metric == "mahalanobis" and not (norm == "none" and style == "cont" and N >= M + 3):
        metric = "seuclidean"          # a covariance matrix needs enough points in general position
    case = {"F": F, "metric": metric, "norm": norm, "style": style, "seed": rng.randrange(2 ** 31)}
    if xdtype:
        case["xdtype"] = xdtype
    if rng.random() < 0.4:
        case["prime"] = True
    A = np.array(F, dtype=float)
    if norm != "none":
        lo = A.min(axis=0) - rng.choice([0.0, 0.5, 1.0]); hi = A.max(axis=0) + rng.choice([0.0, 0.5, 2.0])
        if style == "narrow":
            lo = A.min(axis=0); hi = A.max(axis=0)
        if rng.random() < 0.25:
            j = rng.randrange(M); hi[j] = lo[j]                      # ideal == nadir in one dimension
        if norm in ("ideal-nadir", "pf+ideal") and A.min() >= 0 and rng.random() < 0.3:
            lo = np.zeros(M)                                         # the ideal point is the origin, given explicitly
        if norm in ("ideal-nadir", "pf+nadir") and rng.random() < 0.15:
            A = A - (A.max(axis=0) + rng.choice([0.0, 0.5])); F = A.tolist(); case["F"] = F       # negative objectives: nadir at / above the origin
            lo = A.min(axis=0) - 0.5; hi = np.zeros(M)
        hi = np.maximum(hi, lo)                                      # a nadir below the ideal is not a legitimate setting (pymoo rejects it)
        case["ideal"] = lo.tolist(); case["nadir"] = hi.tolist()
        if norm in ("pf", "pf+ideal", "pf+nadir"):
            K = rng.randint(2, 6)
            pf = [[lo[j] + (hi[j] - lo[j]) * rng.choice([0.0, 1.0, rng.random()]) for j in range(M)] for _ in range(K)]
            pf[0] = lo.tolist(); pf[1] = hi.tolist()
            if norm != "pf" and rng.random() < 0.7:
                # the reference point given directly differs from the corresponding extreme of the Pareto front
                pf = [[lo[j] + (hi[j] - lo[j]) * (0.25 + 0.5 * rng.random()) for j in range(M)] for _ in range(K)]
            case["pf"] = pf
    return case


def make_indicator(case):
    from pymoode.performance._spacing import SpacingIndicator
    kw = {"metric": case["metric"]}
    if case["norm"] == "ideal-nadir":
        kw.update(zero_to_one=True, ideal=np.array(case["ideal"]), nadir=np.array(case["nadir"]))
    elif case["norm"] == "pf":
        kw.update(zero_to_one=True, pf=np.array(case["pf"]))
    elif case["norm"] == "pf+ideal":
        kw.update(zero_to_one=True, pf=np.array(case["pf"]), ideal=np.array(case["ideal"]))
    elif case["norm"] == "pf+nadir":
        kw.update(zero_to_one=True, pf=np.array(case["pf"]), nadir=np.array(case["nadir"]))
    return SpacingIndicator(**kw)


def prime(case, F):
    """other indicator objects, configured differently, have been applied to the very same points before"""
    if not case.get("prime"):
        return
    for kw in ({"metric": "chebyshev" if case["metric"] != "chebyshev" else "euclidean"}, {"metric": case["metric"], "zero_to_one": case["norm"] == "none"}):
        try:
            from pymoode.performance._spacing import SpacingIndicator
            SpacingIndicator(**kw).do(F)
        except Exception:
            pass


def run_case(case):
    import pymoode.performance._spacing as sp
    F = np.array(case["F"], dtype=float).astype(case.get("xdtype", "float64")); F0 = F.copy()
    try:
        with np.errstate(all="ignore"):
            prime(case, F)
            ind = make_indicator(case)
            S = float(ind.do(F))
            # invariances on the implementation
            perm = np.random.RandomState(case["seed"]).permutation(len(F))
            S_perm = float(make_indicator(case).do(F[perm]))
            S_scaled = float(make_indicator({**case, "norm": "none"}).do(F * 2.0)) if case["norm"] == "none" else None
            S_shift = float(make_indicator({**case, "norm": "none"}).do(F + 8.0)) if case["norm"] == "none" else None
            # the same indicator object, called again with the same array object after its contents have changed
            ind2 = make_indicator(case); buf = F.copy()
            S_first = float(ind2.do(buf))
            buf[:] = buf[perm][::-1] * (2.0 if case["norm"] == "none" else 1.0)
            if len(buf) > 2:
                buf[0] = buf[-1]                                       # and one point overwritten by another
            S_reused = float(ind2.do(buf))
            S_fresh = float(make_indicator(case).do(buf.copy()))
    finally:
        pass
    from scipy.spatial.distance import squareform
    ideal = None if ind.ideal is None else np.asarray(ind.ideal, dtype=float).tolist()
    nadir = None if ind.nadir is None else np.asarray(ind.nadir, dtype=float).tolist()
    return {"S": float(S).hex(), "S_perm": float(S_perm).hex(), "S_scaled": None if S_scaled is None else float(S_scaled).hex(),
            "S_shift": None if S_shift is None else float(S_shift).hex(), "frame": bool(np.array_equal(F, F0)),
            "S_first": float(S_first).hex(), "S_reused": float(S_reused).hex(), "S_fresh": float(S_fresh).hex(),
            "ideal": ideal, "nadir": nadir}


def run_first(case):
    """the first call only (for the model): normalised points, distance matrix, value.  The points and the matrix are taken from the
    implementation's own call of scipy's pdist (or cdist) when it makes one; otherwise they are recomputed from the normalisation object"""
    import pymoode.performance._spacing as sp
    from scipy.spatial.distance import squareform, pdist as sp_pdist
    F = np.array(case["F"], dtype=float).astype(case.get("xdtype", "float64"))
    seen = {}
    origs = {nm: getattr(sp, nm) for nm in ("pdist", "cdist") if hasattr(sp, nm)}

    def wrap(nm):
        def f(Xin, *a, **k):
            out = origs[nm](Xin, *a, **k)
            Xa = np.array(Xin, dtype=float); o = np.array(out, dtype=float); n = len(F)
            # only a call on the whole point set that yields the whole distance matrix is taken over; anything else (blocks, single rows)
            # is ignored and the matrix is recomputed below from the normalised points
            if Xa.shape == F.shape and (o.shape == (n, n) or o.shape == (n * (n - 1) // 2,)):
                seen.setdefault("X", Xa.copy())
                seen.setdefault("D", squareform(o) if o.ndim == 1 else o.copy())
            return out
        return f
    for nm in origs:
        setattr(sp, nm, wrap(nm))
    try:
        with np.errstate(all="ignore"):
            prime(case, F)
            seen.clear()
            ind = make_indicator(case); S = float(ind.do(F))
    finally:
        for nm, f in origs.items():
            setattr(sp, nm, f)
    nz = ind.normalization
    xl = getattr(nz, "xl", None); xu = getattr(nz, "xu", None)
    if "X" not in seen:
        with np.errstate(all="ignore"):
            Xn = np.asarray(nz.forward(F.copy()), dtype=float) if nz is not None else F.copy()
            seen["X"] = Xn; seen["D"] = squareform(sp_pdist(Xn, metric=case["metric"]))
    D = np.array(seen["D"], dtype=float)
    if D.shape[0] == D.shape[1]:
        D = D.copy(); np.fill_diagonal(D, 0.0)
    return {"Xn": enc(seen["X"]), "D": enc(D), "S0": float(S).hex(),
            "ideal": None if xl is None else enc(np.asarray(xl, dtype=float)),
            "nadir": None if xu is None else enc(np.asarray(xu, dtype=float))}


class C20(Check):
    ID = "C20"
    IMPORTS = "From PV Require Import Base.ListX Model.Crowding Model.Fallback Model.Spacing."
    RULE = ("SpacingIndicator(metric, pf, zero_to_one, ideal, nadir).do(F) on point sets of 2..40 points (quick) / 2..150 (thorough) (plus, every 150 cases, one set of 513..1030 points judged by the independent reference only), 1..5 objectives, grid-valued, continuous, "
            "with duplicates, equally spaced, with ranges that are tiny relative to the objective's magnitude; metrics cityblock / euclidean / sqeuclidean / chebyshev (pdist modelled) and canberra (distance matrix as oracle); normalisation "
            "off / ideal+nadir / derived from a Pareto front / mixed, with ideal = nadir in one dimension; compared bit-for-bit with the model (normalisation, distance matrix, "
            "second-smallest entry, NumPy pairwise summation, sqrt); independent formula, permutation / translation / scaling checks on the implementation; one indicator object called twice with the same array object whose contents changed in between; in 40% of the cases differently configured indicator objects have been applied to the same points before; "
            "non-trivial = at least 3 points; distinct by hash")
    ASSUMPTIONS = ["theorems are about the radicand in exact rational arithmetic and about an abstract summation that is extensionally the mathematical sum; NumPy's pairwise "
                   "order only matters for rounding and is covered by the bit-exact runs",
                   "scipy pdist for other metrics than the four modelled ones is an oracle (symmetric, zero diagonal, non-negative: checked)"]
    QUICK_N = 300
    THOROUGH_N = 3000

    def gen(self, n):
        mx = 40 if self.tier == "quick" else 150
        for i in range(n):
            if i % 150 == 5:
                # a large point set (more points than any block / chunk size an implementation is likely to use): judged by the independent
                # reference only, the quadratic distance matrix is too large a literal for the model evaluation
                N = self.rng.choice([513, 600, 777, 1030]); M = self.rng.randint(1, 3)
                style = self.rng.choice(["cont", "equispaced"])
                F = [[self.rng.random() for _ in range(M)] for _ in range(N)] if style == "cont" else [[float(k)] + [float(N - k)] * (M - 1) for k in range(N)]
                yield {"F": F, "metric": self.rng.choice(["cityblock", "euclidean", "chebyshev"]), "norm": "none", "style": style, "seed": self.rng.randrange(2 ** 31), "large": True}
                continue
            yield gen_case(self.rng, mx)

    def run(self, case):
        if case.get("large"):
            from pymoode.performance._spacing import SpacingIndicator
            F = np.array(case["F"], dtype=float); F0 = F.copy()
            S = float(SpacingIndicator(metric=case["metric"]).do(F))
            perm = np.random.RandomState(case["seed"]).permutation(len(F))
            Sp = float(SpacingIndicator(metric=case["metric"]).do(F[perm]))
            return {"S": S.hex(), "S_perm": Sp.hex(), "frame": bool(np.array_equal(F, F0))}
        o = run_case(case); o.update(run_first(case))
        return o

    def on_exception(self, case, obs):
        if case["metric"] not in MODELLED:
            # scipy rejects some inputs for data-dependent metrics (too few points for a covariance matrix, ...): not a statement about the indicator
            from scipy.spatial.distance import pdist
            try:
                with np.errstate(all="ignore"):
                    pdist(np.array(case["F"], dtype=float), metric=case["metric"])
            except Exception:
                return None
        return "implementation raised " + obs["exception"]

    def oracle(self, case, obs):
        S = float.fromhex(obs["S"])
        if case.get("large"):
            if not obs["frame"]:
                return "C20-frame: the caller's array was modified"
            ref = ref_spacing(np.array(case["F"], dtype=float), case["metric"])
            if ref is not None and abs(S - ref) > 1e-9 * max(1.0, abs(ref)):
                return "C20-formula: spacing %r of %d points differs from the RMS deviation of nearest-neighbour distances %r" % (S, len(case["F"]), ref)
            if abs(float.fromhex(obs["S_perm"]) - S) > 1e-9 * max(1.0, abs(S)):
                return "C20-permutation: reordering %d points changed the value from %r to %r" % (len(case["F"]), S, float.fromhex(obs["S_perm"]))
            return None
        if case["metric"] not in MODELLED and ref_spacing(decarr(obs["Xn"], 2), case["metric"]) is None:
            return None          # the metric is undefined (NaN / inf distances) on these points
        if not obs["frame"]:
            return "C20-frame: the caller's array was modified"
        if not (S >= 0) or S != S:
            return "C20-nonneg: spacing = %r" % S
        Xn = decarr(obs["Xn"], 2)
        ref = ref_spacing(Xn, case["metric"])
        if ref is not None and abs(S - ref) > 1e-9 * max(1.0, abs(ref)):
            return "C20-formula: spacing %r differs from the RMS deviation of nearest-neighbour distances %r" % (S, ref)
        if case["style"] == "equispaced" and case["norm"] == "none" and case["metric"] in MODELLED and S > 1e-9:
            return "C20-equispaced: equally spaced points give spacing %r" % S
        if float.fromhex(obs["S_first"]) != S and not (S != S):
            return "C20-repeat: a second indicator object gives %r for the same points (first %r)" % (float.fromhex(obs["S_first"]), S)
        if obs["S_reused"] != obs["S_fresh"]:
            return "C20-reuse: the same indicator object called again with the same array object (contents changed in place) returns %r, a fresh indicator %r" % (
                float.fromhex(obs["S_reused"]), float.fromhex(obs["S_fresh"]))
        Sp = float.fromhex(obs["S_perm"])
        if abs(Sp - S) > 1e-9 * max(1.0, abs(S)):
            return "C20-permutation: reordering the points changed the value from %r to %r" % (S, Sp)
        if obs["S_scaled"] is not None and case["metric"] in ("cityblock", "euclidean", "chebyshev"):
            if abs(float.fromhex(obs["S_scaled"]) - 2.0 * S) > 1e-9 * max(1.0, abs(S)):
                return "C20-scaling: doubling the points gave %r, expected %r" % (float.fromhex(obs["S_scaled"]), 2 * S)
        if obs["S_shift"] is not None and case["metric"] in ("cityblock", "euclidean", "chebyshev", "sqeuclidean"):
            if abs(float.fromhex(obs["S_shift"]) - S) > 1e-7 * max(1.0, abs(S)):
                return "C20-translation: translating the points changed the value from %r to %r" % (S, float.fromhex(obs["S_shift"]))
        if case["norm"] != "none":
            # zero_to_one = value computed on objectives rescaled by ideal and nadir (a dimension with ideal = nadir is only translated)
            lo = np.array(case["ideal"]) if case["norm"] in ("ideal-nadir", "pf+ideal") else np.array(case["pf"]).min(axis=0)
            hi = np.array(case["nadir"]) if case["norm"] in ("ideal-nadir", "pf+nadir") else np.array(case["pf"]).max(axis=0)
            if case["norm"] == "pf+nadir":
                lo = np.array(case["pf"]).min(axis=0)
            F = np.array(case["F"], dtype=float)
            w = np.where(hi == lo, 1.0, hi - lo)
            R = (F - lo) / w
            ref2 = ref_spacing(R, case["metric"])
            if ref2 is not None and abs(S - ref2) > 1e-9 * max(1.0, abs(ref2)):
                return "C20-zero-to-one: value %r differs from the value on rescaled objectives %r" % (S, ref2)
        return None

    def coq(self, case, obs):
        if case.get("large"):
            return None
        F = np.array(case["F"], dtype=float)
        Xn = decarr(obs["Xn"], 2); D = decarr(obs["D"], 2)
        if case["metric"] not in MODELLED and not np.all(np.isfinite(D)):
            return None          # the metric is undefined on these points (0/0): NumPy's NaN ordering in partition is outside the model
        parts = []
        if case["norm"] == "none":
            fn = cfmat(F)
        else:
            fn = "(normalize_z2o (X:=Fx) %s %s %s)" % (cfl(decarr(obs["ideal"])), cfl(decarr(obs["nadir"])), cfmat(F))
        parts.append("fmat_same %s %s" % (fn, cfmat(Xn)))
        if case["norm"] in ("pf", "pf+ideal", "pf+nadir"):
            pf = np.array(case["pf"], dtype=float); M = pf.shape[1]
            if case["norm"] == "pf":
                parts.append("flist_same (map (col_min (X:=Fx) %s) (seq 0 %d)) %s" % (cfmat(pf), M, cfl(decarr(obs["ideal"]))))
                parts.append("flist_same (map2 (fun l u => if PrimFloat.eqb l u then nan else u) (map (col_min (X:=Fx) %s) (seq 0 %d)) (map (col_max (X:=Fx) %s) (seq 0 %d))) %s" % (
                    cfmat(pf), M, cfmat(pf), M, cfl(decarr(obs["nadir"]))))
        if case["metric"] in MODELLED:
            parts.append("fmat_same (dist_matrix (X:=Fx) %s %s) %s" % (MODELLED[case["metric"]], cfmat(Xn), cfmat(D)))
        parts.append("fsame (spacing_of_matrix (X:=Fx) %s) %s" % (cfmat(D), cfs(float.fromhex(obs["S0"]))))
        return " && ".join("(%s)" % p for p in parts)

    def nontrivial(self, case, obs):
        return len(case["F"]) >= 3

    def classes(self, case, obs):
        return [case["metric"], case["norm"], case["style"], "n>=8" if len(case["F"]) >= 8 else "n<8"] + (["n>128"] if len(case["F"]) > 128 else []) + (["n>512-reference-only"] if case.get("large") else []) + (["integer-array"] if case.get("xdtype") else [])


if __name__ == "__main__":
    cli(C20)
