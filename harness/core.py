"""Shared machinery of the correspondence harness.

Every property module (harness/cNN.py) supplies generators, a runner of the real
implementation, an independent oracle of the property text and a Coq emitter;
this module builds the Coq development, evaluates the model on the recorded
cases (coqc + vm_compute), applies the verdict protocol and writes the evidence.
"""
import os, sys, json, time, math, hashlib, subprocess, random, re, glob, shutil, traceback

VERIF = os.path.dirname(os.path.dirname(os.path.abspath(__file__)))
REPO = os.environ.get("PYMOODE_REPO", "/repo")
COQ = os.path.join(VERIF, "coq")
RUN = os.path.join(COQ, "Run")
REPLAYS = os.path.join(VERIF, "replays")
EVIDENCE = os.path.join(VERIF, "evidence")
NCPU = min(16, os.cpu_count() or 4)

if REPO not in sys.path:
    sys.path.insert(0, REPO)
os.environ.setdefault("PYTHONHASHSEED", "0")

import warnings
warnings.simplefilter("ignore")
import numpy as np
try:
    from pymoo.config import Config
    Config.warnings['not_compiled'] = False
except Exception:
    pass

# ----------------------------------------------------------------------------------------------
# Coq literals
# ----------------------------------------------------------------------------------------------

def cf(x):
    """binary64 -> exact Coq primitive-float literal"""
    x = float(x)
    if x != x:
        return "nan"
    if x == math.inf:
        return "infinity"
    if x == -math.inf:
        return "neg_infinity"
    if x == 0.0:
        return "neg_zero" if math.copysign(1.0, x) < 0 else "0"
    h = x.hex()
    if h.startswith("-"):
        return "(-" + h[1:] + ")"
    return h


def cfs(x):
    """scalar float literal with its scope"""
    return "(%s)%%float" % cf(x)


def clist(items, f=str):
    return "[" + "; ".join(f(i) for i in items) + "]"


def cfl(v):
    return "[" + "; ".join(cf(x) for x in np.asarray(v, dtype=float).ravel()) + "]%float"


def cfmat(m):
    m = np.asarray(m, dtype=float)
    return "[" + "; ".join(cfl(r) for r in m) + "]"


def cnl(v):
    return "[" + "; ".join(str(int(x)) for x in np.asarray(v).ravel()) + "]%nat"


def cnmat(m):
    return "[" + "; ".join(cnl(r) for r in m) + "]"


def czl(v):
    return "[" + "; ".join("(%d)" % int(x) for x in np.asarray(v).ravel()) + "]%Z"


def cbl(v):
    return "[" + "; ".join("true" if bool(x) else "false" for x in np.asarray(v).ravel()) + "]"


def cbool(b):
    return "true" if b else "false"


def cevents(events):
    out = []
    for e in events:
        k = e[0]
        if k == "rand":
            shape = e[1]
            sh = "[" + "; ".join(str(int(s)) for s in shape) + "]%nat"
            out.append("ERand %s %s" % (sh, cfl(e[2])))
        elif k == "choice":
            out.append("EChoice %d %d %s" % (e[1], e[2], cnl(e[3])))
        elif k == "randint":
            size = "None" if e[3] is None else "(Some %d)" % e[3]
            out.append("ERandint %d %d %s %s" % (e[1], e[2], size, cnl(e[4])))
        elif k == "perm":
            out.append("EPerm %d %s" % (e[1], cnl(e[2])))
        else:
            raise ValueError(k)
    return "[" + ";\n    ".join(out) + "]"


# exact JSON encoding of floats (hex strings)
def enc(a):
    a = np.asarray(a)
    if a.dtype.kind == "f":
        if a.ndim == 0:
            return float(a).hex()
        return [enc(x) for x in a]
    if a.dtype.kind in "iub":
        return a.tolist()
    if a.ndim == 0:
        return a.item()
    return [enc(x) for x in a]


def dec(x):
    if isinstance(x, str):
        return float.fromhex(x)
    if isinstance(x, list):
        return [dec(i) for i in x]
    return x


def decarr(x, ndim=None):
    a = np.array(dec(x), dtype=float)
    if ndim == 2 and a.ndim == 1:
        a = a.reshape(len(x), -1) if len(x) else a.reshape(0, 0)
    return a


def enc_events(events):
    out = []
    for e in events:
        if e[0] == "rand":
            out.append(["rand", list(e[1]), [float(v).hex() for v in e[2]]])
        else:
            out.append([x if not isinstance(x, (list, tuple, np.ndarray)) else [int(i) for i in x] for x in e])
    return out


def dec_events(events):
    out = []
    for e in events:
        if e[0] == "rand":
            out.append(("rand", tuple(e[1]), [float.fromhex(v) for v in e[2]]))
        else:
            out.append(tuple(e))
    return out


# ----------------------------------------------------------------------------------------------
# numpy.random recorder / scripter
# ----------------------------------------------------------------------------------------------

class Desync(Exception):
    pass


class Recorder:
    """Records (or scripts) every call the code makes to numpy.random.{random,choice,randint,permutation} (and to the pure aliases
    random_sample / ranf / sample / rand of random).

    events: ('rand', shape, vals) | ('choice', n, k, vals) | ('randint', lo, hi, size|None, vals) | ('perm', n, vals)
    """

    def __init__(self, script=None, rand_values=None, int_values=None):
        self.events = []
        self.script = list(script) if script is not None else None
        self.rand_values = list(rand_values) if rand_values else None   # cyclic supply of floats for random()
        self.int_values = list(int_values) if int_values else None      # cyclic supply of raw ints (reduced mod range)
        self._ri = 0
        self._ii = 0
        self._orig = {}

    def _take_rand(self, k):
        out = [self.rand_values[(self._ri + i) % len(self.rand_values)] for i in range(k)]
        self._ri += k
        return np.array(out, dtype=float)

    def _take_int(self, k, lo, hi):
        """scripted prefix (reduced mod range), then the real generator: a cyclic script could trap a rejection loop"""
        out = []
        for i in range(k):
            if self._ii < len(self.int_values):
                out.append(lo + self.int_values[self._ii] % (hi - lo))
            else:
                out.append(int(self._orig["randint"](lo, hi)))
            self._ii += 1
        return np.array(out, dtype=int)

    def _next(self, kind):
        if not self.script:
            raise Desync("script exhausted at %s" % kind)
        e = self.script.pop(0)
        if e[0] != kind:
            raise Desync("script has %s, code asked %s" % (e[0], kind))
        return e

    def __enter__(self):
        r = np.random
        self._orig = dict(random=r.random, choice=r.choice, randint=r.randint, permutation=r.permutation)
        rec = self

        def random_(size=None):
            if size is None:
                shape = ()
            elif isinstance(size, (int, np.integer)):
                shape = (int(size),)
            else:
                shape = tuple(int(s) for s in size)
            if rec.script is not None:
                e = rec._next("rand")
                if tuple(e[1]) != shape:
                    raise Desync("rand shape %s vs scripted %s" % (shape, e[1]))
                vals = np.array(e[2], dtype=float)
            elif rec.rand_values is not None:
                vals = rec._take_rand(int(np.prod(shape)) if shape != () else 1)
            else:
                vals = np.asarray(rec._orig["random"](shape), dtype=float).ravel()
            rec.events.append(("rand", shape, [float(v) for v in vals]))
            if shape == ():
                return float(vals[0])
            return vals.reshape(shape).copy()

        def choice_(a, size=None, replace=True, p=None):
            if not isinstance(a, (int, np.integer)) or p is not None or not replace or size is None or not isinstance(size, (int, np.integer)):
                out = rec._orig["choice"](a, size=size, replace=replace, p=p)
                rec.events.append(("other", "choice", int(np.size(out))))
                return out
            n, k = int(a), int(size)
            if rec.script is not None:
                e = rec._next("choice")
                if (e[1], e[2]) != (n, k):
                    raise Desync("choice(%d,%d) vs scripted (%d,%d)" % (n, k, e[1], e[2]))
                vals = np.array(e[3], dtype=int)
            elif rec.int_values is not None:
                vals = rec._take_int(k, 0, n)
            else:
                vals = np.asarray(rec._orig["choice"](n, k)).astype(int)
            rec.events.append(("choice", n, k, [int(v) for v in vals]))
            return vals.copy()

        def randint_(low, high=None, size=None, dtype=int):
            if np.ndim(low) or np.ndim(high) or not (size is None or isinstance(size, (int, np.integer))):
                # a call shape the model has no event for (array-valued bounds, tuple sizes): the code runs on numpy's own generator and
                # the record only says that it happened, so the correspondence fails on it and the property oracle judges the outcome
                out = rec._orig["randint"](low, high, size=size, dtype=dtype)
                rec.events.append(("other", "randint", int(np.size(out))))
                return out
            lo, hi = (0, int(low)) if high is None else (int(low), int(high))
            sz = None if size is None else int(size)
            if rec.script is not None:
                e = rec._next("randint")
                if (e[1], e[2], e[3]) != (lo, hi, sz):
                    raise Desync("randint mismatch")
                vals = np.array(e[4], dtype=int)
            elif rec.int_values is not None:
                vals = rec._take_int(1 if sz is None else sz, lo, hi)
            else:
                vals = np.atleast_1d(np.asarray(rec._orig["randint"](lo, hi, size=sz))).astype(int)
            rec.events.append(("randint", lo, hi, sz, [int(v) for v in vals]))
            if sz is None:
                return int(vals[0])
            return vals.copy()

        def permutation_(x):
            if not isinstance(x, (int, np.integer)):
                out = rec._orig["permutation"](x)
                rec.events.append(("other", "permutation", int(np.size(out))))
                return out
            n = int(x)
            if rec.script is not None:
                e = rec._next("perm")
                vals = np.array(e[2], dtype=int)
            else:
                vals = np.asarray(rec._orig["permutation"](n)).astype(int)
            rec.events.append(("perm", n, [int(v) for v in vals]))
            return vals.copy()

        r.random, r.choice, r.randint, r.permutation = random_, choice_, randint_, permutation_
        # pure aliases of random() in numpy's legacy API draw the same stream: record them as the same event
        self._alias = {k: getattr(r, k) for k in ("random_sample", "ranf", "sample", "rand") if hasattr(r, k)}
        for k in self._alias:
            setattr(r, k, (lambda *dims: random_(dims if dims else None)) if k == "rand" else random_)
        return self

    def __exit__(self, *a):
        r = np.random
        r.random, r.choice, r.randint, r.permutation = (self._orig[k] for k in ("random", "choice", "randint", "permutation"))
        for k, f in getattr(self, "_alias", {}).items():
            setattr(r, k, f)
        return False


# ----------------------------------------------------------------------------------------------
# Coq build and evaluation
# ----------------------------------------------------------------------------------------------

def sh(cmd, timeout=1800, cwd=None):
    p = subprocess.run(cmd, shell=True, cwd=cwd, stdout=subprocess.PIPE, stderr=subprocess.STDOUT, timeout=timeout, text=True)
    out = "\n".join(l for l in p.stdout.splitlines() if "conda" not in l.lower())
    return p.returncode, out


LINT_PAT = re.compile(r"\b(Admitted|admit|Axiom|Axioms|Parameter|Parameters|Conjecture|Abort|bypass_check|Unset\s+Guard|Unset\s+Positivity|Unset\s+Universe|type-in-type|impredicative-set)\b")


def strip_comments(text):
    out, depth, i = [], 0, 0
    while i < len(text):
        if text.startswith("(*", i):
            depth += 1; i += 2
        elif text.startswith("*)", i) and depth:
            depth -= 1; i += 2
        else:
            if depth == 0:
                out.append(text[i])
            i += 1
    return "".join(out)


def lint():
    """no axioms, admits or disabled kernel checks anywhere in the development"""
    bad = []
    for f in sorted(glob.glob(os.path.join(COQ, "**", "*.v"), recursive=True)):
        if os.sep + "Run" + os.sep in f and os.path.basename(f).startswith("cases_"):
            continue
        src = strip_comments(open(f).read())
        depth = 0
        for ln, line in enumerate(src.splitlines(), 1):
            if LINT_PAT.search(line):
                bad.append("%s:%d: %s" % (os.path.relpath(f, VERIF), ln, line.strip()))
            if re.match(r"\s*Section\b", line):
                depth += 1
            if re.match(r"\s*End\b", line) and depth:
                depth -= 1
            if depth == 0 and re.match(r"\s*(Variable|Variables|Hypothesis|Hypotheses|Context)\b", line):
                bad.append("%s:%d: %s outside a section" % (os.path.relpath(f, VERIF), ln, line.strip()))
    return bad


def coq_sources():
    fs = []
    for d in ("Base", "Model", "Proofs", "Props"):
        fs += sorted(glob.glob(os.path.join(COQ, d, "*.v")))
    return [os.path.relpath(f, COQ) for f in fs]


def harness_fault(obs):
    """True when the innermost frame of the recorded traceback lies in the harness itself"""
    files = re.findall(r'File "([^"]+)", line \d+', obs.get("trace", "") or "")
    return bool(files) and files[-1].startswith(os.path.join(VERIF, "harness") + os.sep)


class FileLock:
    """blocking advisory lock: checks may be started side by side (the Makefile is regenerated by each of them, and two runs of the same
    check share their generated case files)"""

    def __init__(self, name):
        self.path = os.path.join(COQ, ".lock_" + name)

    def __enter__(self):
        import fcntl
        self.f = open(self.path, "w")
        fcntl.flock(self.f, fcntl.LOCK_EX)
        return self

    def __exit__(self, *a):
        import fcntl
        fcntl.flock(self.f, fcntl.LOCK_UN)
        self.f.close()
        return False


def build(clean=False):
    """full .vo build of the development; returns (ok, log)"""
    with FileLock("build"):
        if clean and os.path.exists(os.path.join(COQ, "Makefile")):
            sh("make clean", cwd=COQ)
        rc, out = sh("coq_makefile -f _CoqProject %s -o Makefile" % " ".join(coq_sources()), cwd=COQ)
        if rc != 0:
            return False, out
        rc, out = sh("timeout 3000 make -j%d" % NCPU, cwd=COQ, timeout=3100)
        return rc == 0, out


def props_assumptions(pid):
    """recompile Props/<pid>.v and return (ok, theorems, assumptions text per theorem)"""
    f = os.path.join(COQ, "Props", pid + ".v")
    rc, out = sh("timeout 900 coqc -Q . PV -w -inexact-float,-deprecated-hint-without-locality,-notation-overridden Props/%s.v" % pid, cwd=COQ, timeout=1000)
    src = strip_comments(open(f).read())
    thms = re.findall(r"^\s*(?:Theorem|Example|Corollary)\s+(\w+)", src, re.M)
    prints = re.findall(r"^\s*Print Assumptions\s+(\w+)", src, re.M)
    blocks = []
    cur = None
    for line in out.splitlines():
        if line.startswith("Closed under the global context"):
            blocks.append("Closed under the global context")
            cur = None
        elif line.startswith("Axioms:"):
            cur = []
            blocks.append(cur)
        elif cur is not None:
            cur.append(line.rstrip())
    blocks = [b if isinstance(b, str) else " ".join(x.strip() for x in b) for b in blocks]
    return rc == 0, thms, prints, blocks, out


HEADER = """From Coq Require Import PrimFloat List Bool Arith ZArith.
From PV Require Import Base.Num Base.NumF Base.Res Base.Cmp.
%s
Import ListNotations.
Local Open Scope nat_scope.
"""


def eval_cases(tag, imports, terms, shard=250, extra_defs=""):
    """terms: list of Coq bool expressions, or groups (prelude, [exprs]) whose prelude (vernacular, e.g. a value
    computed once with 'Definition x := Eval vm_compute in ...') is shared by the expressions of the group.
    Returns (set of failing flat indices, log); raises on Coq failure."""
    os.makedirs(RUN, exist_ok=True)
    for f in glob.glob(os.path.join(RUN, "cases_%s_*" % tag)):
        os.remove(f)
    groups = []
    k = 0
    for t in terms:
        if isinstance(t, tuple):
            groups.append((t[0], [(k + j, e) for j, e in enumerate(t[1])])); k += len(t[1])
        else:
            groups.append(("", [(k, t)])); k += 1
    files, cur, cnt = [], [], 0
    shards = []
    for g in groups:
        if cnt + len(g[1]) > shard and cur:
            shards.append(cur); cur, cnt = [], 0
        cur.append(g); cnt += len(g[1])
    if cur:
        shards.append(cur)
    for si, sh_ in enumerate(shards):
        name = "cases_%s_%d" % (tag, si)
        path = os.path.join(RUN, name + ".v")
        with open(path, "w") as fh:
            fh.write(HEADER % imports)
            fh.write(extra_defs + "\n")
            ids = []
            for prelude, items in sh_:
                if prelude:
                    fh.write(prelude + "\n")
                for i, t in items:
                    fh.write("Definition c%d : bool :=\n  %s.\n" % (i, t)); ids.append(i)
            fh.write("Definition results : list bool := [%s].\n" % "; ".join("c%d" % i for i in ids))
            fh.write("Definition ids : list nat := [%s]%%nat.\n" % "; ".join(str(i) for i in ids))
            fh.write("Eval vm_compute in (map (fun j => nth j ids 0%nat) (failing 0 results)).\n")
        files.append(name)
    if not files:
        return set(), ""
    cmd = "printf '%%s\\n' %s | xargs -P%d -I{} sh -c 'ulimit -s unlimited 2>/dev/null; timeout 1500 coqc -Q .. PV -w -inexact-float {}.v > {}.log 2>&1 || echo FAILED >> {}.log'" % (" ".join(files), NCPU)
    rc, out = sh(cmd, cwd=RUN, timeout=3600)
    failing, logs = set(), []
    for name in files:
        log = open(os.path.join(RUN, name + ".log")).read()
        log = "\n".join(l for l in log.splitlines() if "conda" not in l.lower())
        if "FAILED" in log or "Error" in log:
            raise RuntimeError("coqc failed on %s:\n%s" % (name, log[-3000:]))
        m = re.search(r"=\s*\[(.*?)\]\s*:\s*list nat", log, re.S)
        if not m:
            raise RuntimeError("cannot parse coqc output of %s:\n%s" % (name, log[-2000:]))
        body = m.group(1).strip()
        if body:
            failing |= {int(x) for x in re.findall(r"\d+", body)}
        logs.append(log)
    for f in glob.glob(os.path.join(RUN, "cases_%s_*" % tag)):
        if not f.endswith(".v"):
            os.remove(f)
    return failing, "\n".join(logs)


def eval_print(tag, imports, exprs, extra_defs=""):
    """evaluate arbitrary expressions and return coqc's printed output (for replay files)"""
    os.makedirs(RUN, exist_ok=True)
    name = "cases_%s_print" % tag
    path = os.path.join(RUN, name + ".v")
    with open(path, "w") as fh:
        fh.write(HEADER % imports)
        fh.write(extra_defs + "\n")
        for e in exprs:
            fh.write("Eval vm_compute in (%s).\n" % e)
    rc, out = sh("timeout 600 coqc -Q .. PV -w -inexact-float %s.v" % name, cwd=RUN, timeout=700)
    for f in glob.glob(os.path.join(RUN, name + "*")):
        os.remove(f)
    return out


# ----------------------------------------------------------------------------------------------
# known findings
# ----------------------------------------------------------------------------------------------

def known_findings(pid):
    p = os.path.join(VERIF, "known_findings.json")
    if not os.path.exists(p):
        return []
    return [k for k in json.load(open(p)).get("findings", []) if pid in k.get("properties", [k.get("property")]) and k.get("status") == "known"]


# ----------------------------------------------------------------------------------------------
# check driver
# ----------------------------------------------------------------------------------------------

TRUSTED_BASE_COMMON = [
    "Coq 8.16.1 kernel (coqc); vm_compute used for correspondence evaluation, finite checkers and refutation witnesses; no native_compute",
    "Coq primitive binary64 floats and their OCaml/C implementation (only for the correspondence runs and *_float statements)",
    "hand-written Gallina model (coq/Model/*.v) tied to /repo by this correspondence harness (harness/*.py): generators, numpy.random recorder, emitters, comparison inside Coq",
    "NumPy / SciPy / pymoo primitives are modelled or treated as oracles whose contracts are checked per recorded call; CPython object semantics observed, not proved",
    "no extraction is used; no Axiom/Parameter/Admitted of our own (bin/lint enforces this on every run)",
]


def case_hash(obj):
    return hashlib.sha256(json.dumps(obj, sort_keys=True, default=str).encode()).hexdigest()[:16]


class Check:
    """Base class of a property check.  Subclasses define:
       ID, PROPS (Props file stem), IMPORTS (Coq imports for cases), RULE,
       gen(rng, tier) -> iterable of cases (JSON-able dicts),
       run(case) -> obs (JSON-able dict)   [executes the implementation],
       oracle(case, obs) -> None | str     [independent statement of the property],
       coq(case, obs) -> str | None        [bool term: model agrees with obs],
       nontrivial(case, obs) -> bool, classes(case, obs) -> list of str
    """
    ID = None
    PROPS = None
    IMPORTS = ""
    EXTRA_DEFS = ""
    RULE = ""
    LEVEL = "proof"
    ASSUMPTIONS = []
    SHARD = 250
    CASE_TIMEOUT = 60
    QUICK_N = 300
    THOROUGH_N = 5000
    SEARCH_S = {"quick": 30, "thorough": 300}

    def __init__(self, tier="quick", seed=0):
        self.tier = tier
        self.seed = seed
        self.rng = random.Random("%s-%s" % (self.ID, seed))
        self.nprng = np.random.default_rng(abs(hash((self.ID, seed))) % (2 ** 32)) if False else np.random.default_rng([seed, int(self.ID[1:])])
        self.t0 = time.time()
        self.extra_cov = {}

    # --- hooks -------------------------------------------------------------------------------
    def gen(self, n):
        raise NotImplementedError

    def corpus(self):
        d = os.path.join(VERIF, "corpus", self.ID)
        out = []
        for f in sorted(glob.glob(os.path.join(d, "*.json"))):
            try:
                out.append(json.load(open(f))["case"])
            except Exception:
                pass
        return out

    def known(self, case, obs, msg):
        """return the signature of a known finding that explains this failure, or None"""
        return None

    def model_flags(self, results):
        return []

    def extra_checks(self):
        """additional whole-run checks; returns list of (msg, case) violations"""
        return []

    # --- protocol ----------------------------------------------------------------------------
    def write_replay(self, kind, case, obs, msg, extra=None):
        os.makedirs(REPLAYS, exist_ok=True)
        body = {"property": self.ID, "kind": kind, "what": msg, "case": case, "observed": obs}
        if extra:
            body.update(extra)
        h = case_hash(body)
        path = os.path.join(REPLAYS, "%s-%s.json" % (self.ID, h))
        json.dump(body, open(path, "w"), indent=1, default=str)
        return path

    def safe_run(self, c):
        import signal

        def _alarm(sig, frm):
            raise TimeoutError("implementation did not return within %ds" % self.CASE_TIMEOUT)
        signal.signal(signal.SIGALRM, _alarm)
        try:
            signal.alarm(self.CASE_TIMEOUT)
            try:
                return self.run(c)
            finally:
                signal.alarm(0)
        except Exception as e:
            return {"exception": "%s: %s" % (type(e).__name__, str(e)[:300]), "trace": traceback.format_exc()[-1500:]}

    ISOLATE = False      # run the implementation in a forked worker so that a crash of a compiled kernel is an observation

    def run_cases(self, cases):
        if not self.ISOLATE:
            return [(c, self.safe_run(c)) for c in cases]
        return self.run_cases_isolated(cases)

    def run_cases_isolated(self, cases):
        import multiprocessing as mp
        ctx = mp.get_context("fork")
        results = [None] * len(cases)
        # cases that ask for it run in a process of their own, forked from this one (which has not run the implementation): what they
        # observe does not depend on the cases that happen to precede them in the shared worker
        for i, c in enumerate(cases):
            if isinstance(c, dict) and c.get("fresh_process"):
                parent, child = ctx.Pipe(duplex=False)

                def one(conn, k):
                    try:
                        conn.send(self.safe_run(cases[k]))
                    finally:
                        conn.close()
                pr = ctx.Process(target=one, args=(child, i))
                pr.start(); child.close()
                try:
                    results[i] = parent.recv() if parent.poll(self.CASE_TIMEOUT + 30) else {"exception": "ProcessCrash: no answer", "crash": True}
                except (EOFError, OSError):
                    results[i] = {"exception": "ProcessCrash: worker died (exit code %s) while running this case" % pr.exitcode, "crash": True}
                pr.join(5)
                if pr.is_alive():
                    pr.kill(); pr.join()
        start = 0
        while start < len(cases):
            parent, child = ctx.Pipe(duplex=False)

            def work(conn, lo):
                try:
                    for i in range(lo, len(cases)):
                        if results[i] is not None:
                            continue
                        conn.send((i, self.safe_run(cases[i])))
                    conn.send((-1, None))
                finally:
                    conn.close()
            pr = ctx.Process(target=work, args=(child, start))
            pr.start()
            child.close()
            done = False
            last = start - 1
            while True:
                try:
                    if parent.poll(self.CASE_TIMEOUT + 30):
                        i, obs = parent.recv()
                    else:
                        raise EOFError
                except (EOFError, OSError):
                    break
                if i == -1:
                    done = True
                    break
                results[i] = obs
                last = i
            pr.join(5)
            if pr.is_alive():
                pr.kill(); pr.join()
            if done:
                break
            crashed = last + 1
            while crashed < len(cases) and results[crashed] is not None:
                crashed += 1
            if crashed < len(cases):
                results[crashed] = {"exception": "ProcessCrash: worker died (exit code %s) while running this case" % pr.exitcode, "crash": True}
            start = crashed + 1
        return [(c, r if r is not None else {"exception": "ProcessCrash: not run"}) for c, r in zip(cases, results)]

    def judge(self, results):
        """oracle + correspondence on a list of (case, obs).  returns dict"""
        oracle_fail, terms, idx = [], [], []
        for i, (c, o) in enumerate(results):
            if "exception" in o:
                if harness_fault(o):
                    # the exception was raised by code of this harness (a generated problem, a recorder), not by the implementation: the
                    # check could not run this case - a broken check, never a failing input
                    self.oracle_crashes = getattr(self, "oracle_crashes", []) + ["%s: harness code raised %s" % (case_hash(c), o["exception"])]
                    continue
                msg = self.on_exception(c, o)
                if msg:
                    oracle_fail.append((i, msg))
                continue
            try:
                msg = self.oracle(c, o)
            except Exception as e:
                # the observation has a shape the oracle cannot read: the check could not judge this case.  That is reported as a broken
                # check (search for a real failing input, else no-failing-input-found), never as a failing input of the property
                msg = None
                self.oracle_crashes = getattr(self, "oracle_crashes", []) + ["%s: %r" % (case_hash(c), e)]
            if msg:
                oracle_fail.append((i, msg))
            try:
                t = self.coq(c, o)
            except Exception as e:      # the observation has a shape the model term cannot be written for: that is a disagreement, not a crash of the check
                t = "false"
                self.term_errors = getattr(self, "term_errors", []) + ["%s: %r" % (case_hash(c), e)]
            if t is None:
                continue
            if isinstance(t, tuple):          # (prelude, agreement term, {name: auxiliary model verdict})
                prelude, main, aux = t
                names = sorted(aux)
                terms.append((prelude, [main] + [aux[nm] for nm in names]))
                idx.append((i, names))
            else:
                terms.append(t); idx.append((i, []))
        corr_fail = []
        coq_error = None
        self.aux = {}
        n_corr = len(terms)
        if terms:
            try:
                failing, _ = eval_cases(self.ID, self.IMPORTS, terms, shard=self.SHARD, extra_defs=self.EXTRA_DEFS)
                k = 0
                for (i, names) in idx:
                    if k in failing:
                        corr_fail.append(i)
                    k += 1
                    for nm in names:
                        self.aux.setdefault(i, {})[nm] = k not in failing
                        k += 1
            except Exception as e:
                coq_error = str(e)
        return {"oracle_fail": oracle_fail, "corr_fail": corr_fail, "n_corr": n_corr, "coq_error": coq_error}

    def on_exception(self, case, obs):
        return "implementation raised " + obs["exception"]

    def safe_explain(self, case, obs):
        try:
            return self.explain(case, obs)
        except Exception as e:
            return "the model term for this observation cannot be written: %r" % (e,)

    def known_in_search(self, case, obs, msg):
        """known() for a case met during the search: the model's verdicts on it (self.aux) have to be computed first, because a listed
        finding explains a failure only where the model predicts it"""
        saved = (getattr(self, "aux", None), getattr(self, "cur", None), list(getattr(self, "oracle_crashes", [])), list(getattr(self, "term_errors", [])))
        try:
            self.judge([(case, obs)])
            self.cur = 0
            sig = self.known(case, obs, msg)
            return sig if sig and sig in {k["signature"] for k in known_findings(self.ID)} else None
        except Exception:
            return None
        finally:
            self.aux, self.cur, self.oracle_crashes, self.term_errors = saved

    def main(self, replay=None):
        with FileLock(self.ID):
            return self.main_locked(replay)

    def main_locked(self, replay=None):
        pid = self.ID
        out_lines = []
        violations = []      # (replay_path, suffix)
        known_hits = {}
        # 1. lint + build + proof obligations
        lint_bad = lint()
        ok_build, blog = build(clean=False)
        ok_props, thms, prints, blocks, plog = (False, [], [], [], "")
        if ok_build:
            ok_props, thms, prints, blocks, plog = props_assumptions(self.PROPS or pid)
        proof_ok = ok_build and ok_props and not lint_bad and len(blocks) == len(prints) and len(prints) > 0
        if replay:
            body = json.load(open(replay))
            cases = [body["case"]]
        else:
            n = self.QUICK_N if self.tier == "quick" else self.THOROUGH_N
            cases = self.corpus() + list(self.gen(n))
        results = self.run_cases(cases)
        j = self.judge(results) if ok_build else {"oracle_fail": [], "corr_fail": [], "n_corr": 0, "coq_error": "build failed"}
        # oracles also run when the build is broken
        if not ok_build:
            for i, (c, o) in enumerate(results):
                try:
                    msg = (None if harness_fault(o) else self.on_exception(c, o)) if "exception" in o else self.oracle(c, o)
                except Exception as e:
                    msg = None
                    self.oracle_crashes = getattr(self, "oracle_crashes", []) + ["%s: %r" % (case_hash(c), e)]
                if msg:
                    j["oracle_fail"].append((i, msg))
        # 2. direct violations of the property text on the implementation
        seen_sig = set()
        for i, msg in j["oracle_fail"]:
            c, o = results[i]
            self.cur = i
            sig = self.known(c, o, msg)
            if sig and sig in {k["signature"] for k in known_findings(pid)}:
                known_hits.setdefault(sig, (c, o, msg))
                continue
            key = msg.split(":")[0]
            if key in seen_sig:
                continue
            seen_sig.add(key)
            c2, o2 = self.shrink(c, o, msg)
            violations.append((self.write_replay("oracle", c2, o2, msg), ""))
        # 2b. defects that only the model can see (e.g. a harmless out-of-bounds read): (index, signature, message)
        listed = {k["signature"] for k in known_findings(pid)}
        for i, sig, msg in (self.model_flags(results) if ok_build else []):
            c, o = results[i]
            if sig in listed:
                known_hits.setdefault(sig, (c, o, msg))
            elif sig not in seen_sig:
                seen_sig.add(sig)
                violations.append((self.write_replay("model-flag", c, o, msg), ""))
        # 3. broken proof / broken correspondence -> search, else no-failing-input-found
        broken = []
        if lint_bad:
            broken.append("lint: " + "; ".join(lint_bad[:5]))
        if not ok_build:
            broken.append("coq build failed: " + blog[-1500:])
        elif not ok_props or len(blocks) != len(prints) or not prints:
            broken.append("Props/%s.v does not check: %s" % (pid, plog[-1500:]))
        if j["coq_error"] and ok_build:
            broken.append("correspondence evaluation failed in Coq: " + j["coq_error"][-1500:])
        unexplained_corr = []
        for i in j["corr_fail"]:
            c, o = results[i]
            self.cur = i
            sig = self.known(c, o, "correspondence")
            if sig and sig in {k["signature"] for k in known_findings(pid)}:
                known_hits.setdefault(sig, (c, o, "correspondence"))
            else:
                unexplained_corr.append(i)
        if unexplained_corr:
            broken.append("correspondence: model and implementation differ on %d of %d cases" % (len(unexplained_corr), j["n_corr"]))
        if getattr(self, "oracle_crashes", None):
            broken.append("the oracle could not read the observation of %d cases (first: %s)" % (len(self.oracle_crashes), self.oracle_crashes[0][:300]))
        for msg, c in self.extra_checks():
            violations.append((self.write_replay("extra", c, {}, msg), ""))
        searched = 0
        if broken and not violations and not replay:
            try:
                found = self.search()
            except Exception as e:
                # the search uses the implementation beyond the interface the property names (helper functions, operator protocol):
                # a rewrite may have changed that.  No failing input was found; say why the search stopped
                found = None
                broken.append("the search for a failing input stopped: %r" % (e,))
            searched = found[2] if found else 0
            if found and found[0] is not None:
                c, o, msg = found[0]
                violations.append((self.write_replay("oracle-search", c, o, msg, {"broken": broken}), ""))
        if broken and not violations:
            first = results[unexplained_corr[0]] if unexplained_corr else (None, None)
            extra = {"broken": broken, "theorems": thms, "model_output": self.safe_explain(first[0], first[1]) if first[0] is not None else None}
            violations.append((self.write_replay("no-failing-input", first[0], first[1], "; ".join(b[:300] for b in broken), extra), " no-failing-input-found"))
        # 4. evidence
        nontriv = set()
        classes = {}
        for c, o in results:
            if "exception" in o:
                classes["exception"] = classes.get("exception", 0) + 1
                continue
            try:
                if self.nontrivial(c, o):
                    nontriv.add(case_hash(c))
                for k in self.classes(c, o):
                    classes[k] = classes.get(k, 0) + 1
            except Exception:
                pass
        samples = []
        for c, o in results[:2] + results[-1:]:
            samples.append({"case": c, "observed": {k: v for k, v in o.items() if k != "trace"}})
        ev = {
            "property_id": pid, "tier": self.tier, "seed": self.seed, "level": self.LEVEL,
            "coverage": {
                "obligations": len(prints), "discharged": len(blocks) if (ok_build and ok_props) else 0,
                "checker_cmd": "cd /verif/coq && coq_makefile -f _CoqProject ... -o Makefile && make -j16 && coqc -Q . PV Props/%s.v" % (self.PROPS or pid),
                "trusted_base": TRUSTED_BASE_COMMON + ["Print Assumptions %s: %s" % (p, b) for p, b in zip(prints, blocks)],
                "theorems": thms,
                "evaluations": len(results),
                "distinct_nontrivial": len(nontriv),
                "rule": self.RULE,
                "samples": samples,
                "traces_validated_against_impl": j["n_corr"],
                "correspondence_disagreements": len(j["corr_fail"]),
                "oracle_failures": len(j["oracle_fail"]),
                "known_findings_reproduced": sorted(known_hits),
                "class_histogram": classes,
                "search_cases": searched,
            },
            "assumptions": list(self.ASSUMPTIONS),
            "wall_s": round(time.time() - self.t0, 2),
            "violations": len(violations),
        }
        ev["coverage"].update(self.extra_cov)
        os.makedirs(EVIDENCE, exist_ok=True)
        json.dump(ev, open(os.path.join(EVIDENCE, pid + ".json"), "w"), indent=1, default=str)
        # 5. verdict
        for k in known_findings(pid):
            sig = k["signature"]
            if sig in known_hits or k.get("always_report"):
                print("KNOWN-FINDING: property=%s %s -- %s" % (pid, sig, k["what"]))
        for sig in known_hits:
            if sig not in [k["signature"] for k in known_findings(pid)]:
                pass
        for path, suffix in violations:
            print("VIOLATION property=%s replay=%s%s" % (pid, path, suffix))
        print("%s %s: theorems=%d/%d cases=%d corr=%d nontrivial=%d oracle_fail=%d corr_fail=%d wall=%.1fs" % (
            pid, self.tier, len(blocks), len(prints), len(results), j["n_corr"], len(nontriv), len(j["oracle_fail"]), len(j["corr_fail"]), time.time() - self.t0))
        return 1 if violations else 0

    # --- defaults ----------------------------------------------------------------------------
    def shrink(self, case, obs, msg):
        return case, obs

    def explain(self, case, obs):
        return None

    def search(self):
        """look for an input on which the property itself fails on the implementation"""
        budget = self.SEARCH_S[self.tier]
        t0 = time.time()
        n = 0
        rounds = 0
        while time.time() - t0 < budget:
            rounds += 1
            self.rng = random.Random("%s-%s-search-%d" % (self.ID, self.seed, rounds))
            self.nprng = np.random.default_rng([self.seed, int(self.ID[1:]), rounds])
            for c in self.gen(200):
                n += 1
                o = self.safe_run(c)
                try:
                    msg = (None if harness_fault(o) else self.on_exception(c, o)) if "exception" in o else self.oracle(c, o)
                except Exception as e:
                    msg = None
                if msg and not self.known_in_search(c, o, msg):
                    c2, o2 = self.shrink(c, o, msg)
                    return ((c2, o2, msg), None, n)
                if time.time() - t0 > budget:
                    break
        return (None, None, n)


def cli(cls):
    import argparse
    ap = argparse.ArgumentParser()
    ap.add_argument("--tier", default=os.environ.get("VERIF_TIER", "quick"))
    ap.add_argument("--replay", default=None)
    a = ap.parse_args(sys.argv[2:] if len(sys.argv) > 1 and not sys.argv[1].startswith("-") else None)
    seed = int(os.environ.get("VERIF_SEED", "0"))
    chk = cls(tier=a.tier, seed=seed)
    sys.exit(chk.main(replay=a.replay))
