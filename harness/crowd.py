"""Shared harness for the crowding metrics (C13, C14, C15): front generators, log2 recorder, Coq terms, reference definitions."""
import math, itertools
import numpy as np
from harness.core import *

LABELS = ["cd", "ce", "mnn", "2nn", "pcd"]


def nondominated(F):
    F = np.asarray(F); n = len(F)
    for i in range(n):
        for j in range(n):
            if i != j and np.all(F[j] <= F[i]) and np.any(F[j] < F[i]):
                return False
    return True


def pick_n_remove(rng, N, M):
    """uniform over 0..N half of the time, otherwise one of the limits of the pruning range"""
    if rng.random() < 0.5:
        return rng.randint(0, N)
    return max(0, min(N, rng.choice([0, 1, N - M - 1, N - M, N - M + 1, N - 3, N - 2, N - 1, N])))


def gen_front(rng, max_n=24, objs=(2, 2, 3, 3, 4, 5), styles=None):
    """non-dominated fronts: continuous simplex, grid-valued, with constant objectives, tied extremes, duplicates"""
    for _ in range(400):
        M = rng.choice(objs); N = rng.randint(1, max_n)
        style = rng.choice(styles or ["simplex", "simplex", "grid", "gridfront", "gridfront", "perm", "const", "dups", "fewdistinct", "tiedext", "tinyrange", "hugerange", "curve", "tinyscale"])
        tied = style == "tiedfront"
        if tied:
            style = "gridfront"
        if style == "gridfront":
            # the non-dominated subset of a cloud of grid points: distinct points, many coordinate ties, tied minima / maxima held by different points
            g = rng.choice([3, 5, 8])
            P = np.unique(np.array([[float(rng.randint(0, g)) for _ in range(M)] for _ in range(rng.choice([15, 40, 80]))]), axis=0)
            keep = [i for i in range(len(P)) if not any(np.all(P[j] <= P[i]) and np.any(P[j] < P[i]) for j in range(len(P)))]
            F = P[keep]
            if len(F) > max_n:
                F = F[sorted(rng.sample(range(len(F)), max_n))]
            if tied:
                # at least two objectives whose maximum is held by several different points
                nt = sum(1 for m in range(M) if (F[:, m] == F[:, m].max()).sum() > 1)
                if nt < 2:
                    continue
                style = "tiedfront"
        elif style == "curve":
            # a curve-like (degenerate) front: every objective is a monotone function of one parameter, so the two end points hold
            # the extremes of ALL objectives and every other point is interior
            ts = sorted(rng.random() for _ in range(N))
            up = [lambda t: t, lambda t: t * t, lambda t: t ** 0.5, lambda t: 0.25 + 0.5 * t]
            down = [lambda t: 1 - t, lambda t: (1 - t) ** 2, lambda t: 1 - t ** 0.5, lambda t: 2.0 - t * t]
            gs = [rng.choice(up)] + [rng.choice(down)] + [rng.choice(up + down) for _ in range(M - 2)]
            rng.shuffle(gs)
            F = np.array([[g(t) for g in gs[:M]] for t in ts]) if M >= 2 else np.array([[t] for t in ts])
            if len(np.unique(F, axis=0)) < N:
                continue
        elif style == "tinyscale":
            # an ordinary continuous front expressed in very small units (the metrics are defined on range-normalised objectives)
            F = np.array([[rng.random() for _ in range(M)] for _ in range(N)]); F = F / F.sum(axis=1, keepdims=True)
            F = F * 2.0 ** rng.choice([-58, -64, -70, -120])
        elif style == "simplex":
            F = np.array([[rng.random() for _ in range(M)] for _ in range(N)]); F = F / F.sum(axis=1, keepdims=True)
        elif style == "grid":
            F = np.array([[float(rng.randint(0, 4)) for _ in range(M)] for _ in range(N)])
        elif style == "perm":
            cols = []
            for m in range(M):
                c = list(range(N)); rng.shuffle(c); cols.append(c)
            F = np.array(cols, dtype=float).T.reshape(N, M)
        elif style in ("tinyrange", "hugerange"):
            F = np.array([[rng.random() for _ in range(M)] for _ in range(N)]); F = F / F.sum(axis=1, keepdims=True)
            F[:, rng.randrange(M)] *= rng.choice([1e-9, 1e-12, 1e-300]) if style == "tinyrange" else rng.choice([1e9, 1e150])
        elif style == "const":
            F = np.array([[rng.random() for _ in range(M)] for _ in range(N)]); F = F / F.sum(axis=1, keepdims=True)
            F[:, rng.randrange(M)] = 0.5
        elif style == "dups":
            base = [[float(rng.randint(0, 3)) for _ in range(M)] for _ in range(max(1, N // 2))]
            F = np.array([base[rng.randrange(len(base))] for _ in range(N)])
        elif style == "fewdistinct":
            # more points than objectives, but only 3 .. n_obj DISTINCT ones (continuous values): after the duplicate filter the metric
            # sees a front that is not longer than the number of objectives
            M = max(M, 3); K = rng.randint(3, M); N = K + rng.randint(1, 3)
            base = [[rng.random() for _ in range(M)] for _ in range(K)]; base = [[x / sum(r) for x in r] for r in base]
            F = np.array(base + [base[rng.randrange(K)] for _ in range(N - K)])
            F = F[rng.sample(range(N), N)]
        else:
            F = np.array([[rng.random() for _ in range(M)] for _ in range(N)]); F = F / F.sum(axis=1, keepdims=True)
            if N >= 3:
                m = rng.randrange(M); F[rng.randrange(N), m] = F[:, m].max(); F[rng.randrange(N), m] = F[:, m].min()
        if style not in ("dups", "fewdistinct") and not nondominated(F):
            continue
        if style in ("dups", "fewdistinct") and not nondominated(np.unique(F, axis=0)):
            continue
        return F, style
    return np.array([[0.0, 1.0], [1.0, 0.0]]), "fallback"


class Log2Rec:
    def __enter__(self):
        self.pairs = []
        self.orig = np.log2
        rec = self

        def log2(x, *a, **k):
            with np.errstate(all="ignore"):
                y = rec.orig(x, *a, **k)
            xs = np.asarray(x, dtype=float).ravel(); ys = np.asarray(y, dtype=float).ravel()
            rec.pairs += list(zip(xs.tolist(), ys.tolist()))
            return y
        np.log2 = log2
        return self

    def __exit__(self, *a):
        np.log2 = self.orig
        return False


def log_term(pairs):
    seen = {}
    for x, y in pairs:
        k = "nan" if x != x else float(x).hex()
        seen.setdefault(k, (x, y))
    return "[" + "; ".join("(%s, %s)" % (cfs(x), cfs(y)) for x, y in seen.values()) + "]"


_UID = 0
EPS = "(0x1.9f623d5a8a732p-107)%float"     # 1e-32


def metric_term(label, F, n_remove, exp, logs=None, argpart=None, engine="compiled"):
    """returns a bool term, or (term, aux) for the compiled kernels: aux['oob'] = the model predicts a memory error at a
    site of a known finding, aux['dup'] = the model saw a duplicated neighbour (known mnn finding)"""
    Fm = cfmat(F)
    ex = "false" if exp is None else "flist_same d %s" % cfl(exp)
    if label == "cd":
        inner = "(fun F => Some (calc_crowding_distance (X:=Fx) F))"; fd = "false false"
    elif label == "ce":
        inner = "(calc_crowding_entropy (X:=Fx) fsame %s)" % log_term(logs or []); fd = "true false"
    elif engine == "fallback" and label in ("mnn", "2nn"):
        inner = "(fun F => Some (fallback_mnn (X:=Fx) %s F (%d)%%Z))" % ("true" if label == "2nn" else "false", n_remove); fd = "true true"
    elif engine == "fallback" and label == "pcd":
        inner = "(fun F => Some (fallback_pcd (X:=Fx) F (%d)%%Z))" % n_remove; fd = "true false"
    else:
        if label == "pcd":
            inner = "(fun F => match kernel_pcd (X:=Fx) F (%d)%%Z with Ok d => Ok (d, (false, false)) | Err e => Err e end)" % n_remove; fd = "true false"
        else:
            m0 = czl(np.asarray(argpart[-1]).ravel()) if argpart else "[]%Z"
            inner = "(fun F => kernel_mnn (X:=Fx) %s F (%d)%%Z %s)" % ("true" if label == "2nn" else "false", n_remove, m0); fd = "true true"
        global _UID
        _UID += 1
        v = "kr%d" % _UID
        prelude = "Definition %s := Eval vm_compute in (functional_diversity_res (X:=Fx) %s %s %s %s)." % (v, EPS, fd, inner, Fm)
        term = "match %s with Ok (d, _) => %s | Err _ => false end" % (v, ex)
        aux = {"oob": "match %s with Err (OOB s) => known_oob_site s | Ok (_, (_, ob)) => ob | _ => false end" % v,
               "dup": "match %s with Ok (_, (b, _)) => b | Err _ => false end" % v,
               "modelok": "match %s with Ok _ => true | Err _ => false end" % v}
        return prelude, term, aux
    return "match functional_diversity (X:=Fx) %s %s %s %s with Some d => %s | None => false end" % (EPS, fd, inner, Fm, ex)


def tinydup_term(F):
    """model verdict for the known finding metrics/dup-eps-absolute: the duplicate filter of FunctionalDiversity._do (absolute
    epsilon 1e-32 on the raw objectives) flags a point of this front"""
    return "existsb (fun b : bool => b) (dup_flags (X:=Fx) %s [] %s)" % (EPS, cfmat(F))


def with_tinydup(label, F, t):
    if label == "cd":
        return t
    if isinstance(t, tuple):
        aux = dict(t[2]); aux["tinydup"] = tinydup_term(F)
        return t[0], t[1], aux
    return "", t, {"tinydup": tinydup_term(F)}


# ---- reference definitions (independent of NumPy tricks) ----
def ref_cd(F):
    F = np.asarray(F, dtype=float); n, M = F.shape
    d = np.zeros(n)
    for m in range(M):
        order = sorted(range(n), key=lambda i: F[i, m])
        rng_ = F[order[-1], m] - F[order[0], m]
        for pos, i in enumerate(order):
            if rng_ == 0:
                continue
            if pos == 0 or pos == n - 1:
                d[i] = math.inf
            else:
                d[i] += (F[order[pos + 1], m] - F[order[pos - 1], m]) / rng_
    return d / M


def wellformed(label, F, d, tag="C13"):
    F = np.asarray(F, dtype=float); n, M = F.shape
    d = np.asarray(d, dtype=float)
    if d.shape != (n,):
        return "%s-shape: %s values for %d points (%s)" % (tag, d.shape, n, label)
    if np.any(np.isnan(d)):
        return "%s-nan: %s returns NaN" % (tag, label)
    if np.any(d < 0):
        return "%s-negative: %s returns a negative value" % (tag, label)
    for m in range(M):
        c = F[:, m]
        if c.max() > c.min():
            if not np.any(np.isinf(d[c == c.min()])):
                return "%s-extreme: %s: no holder of the minimum of objective %d is infinite" % (tag, label, m)
            if not np.any(np.isinf(d[c == c.max()])):
                return "%s-extreme: %s: no holder of the maximum of objective %d is infinite" % (tag, label, m)
    return None


def coordinate_ties(F):
    F = np.asarray(F)
    return any(len(np.unique(F[:, m])) < len(F) for m in range(F.shape[1]))


class EngineProc:
    """persistent worker for one engine; a dead worker is reported as a crash of the pending call and restarted"""

    def __init__(self, engine, asan=None):
        self.engine = engine; self.asan = asan; self.p = None

    def start(self):
        import subprocess
        env = dict(os.environ); env["PYTHONPATH"] = "%s:%s" % (VERIF, REPO); env["PYTHONHASHSEED"] = "0"
        if self.asan:
            env.update(self.asan)
        self.p = subprocess.Popen(["/venv/bin/python", "-W", "ignore", os.path.join(VERIF, "harness", "engine_worker.py"), self.engine],
                                  stdin=subprocess.PIPE, stdout=subprocess.PIPE, stderr=subprocess.PIPE, text=True, env=env)

    def call(self, label, F, n_remove, raw=False, timeout=60, layout=None, prime_n_remove=None):
        """The compiled pcd kernel writes outside its buffers on some fronts (known finding compiled/pcd/OOB): the heap damage can kill
        the worker during a LATER, innocent call.  Such calls therefore get a process of their own, and a crash of any other call is
        attributed to that call only if it also happens in a fresh process."""
        A = np.asarray(F, dtype=float)
        risky = self.engine == "compiled" and label == "pcd" and (A.ndim != 2 or A.shape[1] != 2 or coordinate_ties(A))
        if risky and not getattr(self, "_oneshot", False):
            one = EngineProc(self.engine, asan=self.asan); one._oneshot = True
            try:
                return one._call(label, F, n_remove, raw, timeout, layout, prime_n_remove)
            finally:
                one.close()
        r = self._call(label, F, n_remove, raw, timeout, layout, prime_n_remove)
        if r.get("crash") and not getattr(self, "_oneshot", False):
            one = EngineProc(self.engine, asan=self.asan); one._oneshot = True
            try:
                r2 = one._call(label, F, n_remove, raw, timeout, layout, prime_n_remove)
            finally:
                one.close()
            if not r2.get("crash"):
                r2["contaminated_worker_restarted"] = True
                return r2
        return r

    def _call(self, label, F, n_remove, raw=False, timeout=60, layout=None, prime_n_remove=None):
        import select
        if self.p is None or self.p.poll() is not None:
            self.start()
        req = {"label": label, "F": [[float(x).hex() for x in r] for r in np.asarray(F, dtype=float)], "n_remove": int(n_remove), "raw": raw, "layout": layout, "prime_n_remove": prime_n_remove}
        try:
            self.p.stdin.write(json.dumps(req) + "\n"); self.p.stdin.flush()
            r, _, _ = select.select([self.p.stdout], [], [], timeout)
            line = self.p.stdout.readline() if r else ""
        except (BrokenPipeError, OSError):
            line = ""
        if not line:
            try:
                self.p.kill()
            except Exception:
                pass
            try:
                err = self.p.stderr.read()[-3000:]
            except Exception:
                err = ""
            rc = self.p.wait()
            self.p = None
            return {"crash": True, "exit": rc, "stderr": err}
        return json.loads(line)

    def close(self):
        if self.p is not None and self.p.poll() is None:
            try:
                self.p.stdin.close(); self.p.wait(5)
            except Exception:
                self.p.kill()
        self.p = None


def _extremes(F):
    ext = set()
    for m in range(F.shape[1]):
        ext.add(int(np.argmin(F[:, m]))); ext.add(int(np.argmax(F[:, m])))
    return ext


def _clamp(n_remove, N, M):
    if n_remove <= N - M:
        return max(n_remove, 0)
    return N - M


def ref_ce(F):
    F = np.asarray(F, dtype=float); n, M = F.shape
    ce = np.zeros(n)
    for m in range(M):
        order = sorted(range(n), key=lambda i: F[i, m]); rng_ = F[order[-1], m] - F[order[0], m]
        if rng_ == 0:
            continue
        for pos, i in enumerate(order):
            if pos == 0 or pos == n - 1:
                ce[i] = math.inf; continue
            dl = F[i, m] - F[order[pos - 1], m]; du = F[order[pos + 1], m] - F[i, m]; c = dl + du
            pl, pu = dl / c, du / c
            e = -(pl * math.log2(pl) + pu * math.log2(pu))
            ce[i] += c * e / rng_
    return ce


def _greedy(F, n_remove, score):
    """drop the unique minimum, recompute everything from scratch, n_remove-1 times; None if a minimum is tied"""
    F = np.asarray(F, dtype=float); N, M = F.shape
    nr = _clamp(n_remove, N, M)
    ext = _extremes(F)
    den = F.max(axis=0) - F.min(axis=0); den[den == 0] = 1.0
    Xn = (F - F.min(axis=0)) / den
    H = list(range(N)); d = np.full(N, np.inf)
    def evaluate():
        vals = score(Xn, H)
        for i, v in zip(H, vals):
            d[i] = np.inf if i in ext else v
    evaluate()
    for _ in range(max(nr - 1, 0)):
        dh = [d[i] for i in H]; mn = min(dh)
        if sum(1 for v in dh if v == mn) != 1 or not np.isfinite(mn):
            return None
        H.remove(H[dh.index(mn)])
        evaluate()
    return d


def _score_mnn(K):
    def f(Xn, H):
        out = []
        for i in H:
            ds = sorted(float(((Xn[i] - Xn[j]) ** 2).sum()) for j in H if j != i)
            out.append(float(np.prod(ds[:K])) if len(ds) >= K else np.inf)
        return out
    return f


def _score_cd(Xn, H):
    M = Xn.shape[1]; out = {i: 0.0 for i in H}
    for m in range(M):
        order = sorted(H, key=lambda i: Xn[i, m])
        for pos, i in enumerate(order):
            if 0 < pos < len(order) - 1:
                out[i] += (Xn[order[pos + 1], m] - Xn[order[pos - 1], m]) / M
            else:
                out[i] = np.inf
    return [out[i] for i in H]


def reference(label, F, n_remove):
    """published definitions; None when not applicable (short fronts, tied drop order)"""
    F = np.asarray(F, dtype=float); N, M = F.shape
    if label == "cd":
        return ref_cd(F)
    if label == "ce":
        return ref_ce(F)
    K = 2 if label == "2nn" else M
    if label in ("mnn", "2nn"):
        if N <= M or N <= K:
            return np.full(N, np.inf)
        return _greedy(F, n_remove, _score_mnn(K))
    if label == "pcd":
        return _greedy(F, n_remove, _score_cd)
    return None
