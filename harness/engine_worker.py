"""Worker process that evaluates crowding metrics with one engine (compiled kernels or pure-Python fallback).
usage: engine_worker.py compiled|fallback ; reads JSON lines on stdin, writes JSON lines on stdout.
A separate process is needed because the engine is chosen when metrics.py is imported, and because a faulty
compiled kernel may kill the process (which is then an observation of the caller)."""
import sys, json, os
engine = sys.argv[1]
if engine == "fallback":
    sys.modules["pymoode.cython.info"] = None      # makes 'from pymoode.cython.info import info' fail -> IS_COMPILED False
import warnings
warnings.simplefilter("ignore")
import io, contextlib
import numpy as np
sys.path.insert(0, os.path.dirname(os.path.dirname(os.path.abspath(__file__))))
from harness.layouts import relayout
with contextlib.redirect_stdout(io.StringIO()):
    import pymoode.survival.rank_and_crowding.metrics as metrics
assert metrics.IS_COMPILED == (engine == "compiled"), "engine selection failed"

state = {"log": [], "argpart": []}
_log2 = np.log2
_argpartition = np.argpartition


def log2(x, *a, **k):
    with np.errstate(all="ignore"):
        y = _log2(x, *a, **k)
    state["log"] += list(zip(np.asarray(x, dtype=float).ravel().tolist(), np.asarray(y, dtype=float).ravel().tolist()))
    return y


def argpartition(a, kth, *args, **kw):
    r = _argpartition(a, kth, *args, **kw)
    try:
        ks = list(kth)
        state["argpart"].append(np.asarray(r)[:, ks[0]:ks[-1] + 1].astype(int).tolist())
    except Exception:
        pass
    return r


np.log2 = log2
np.argpartition = argpartition
out = sys.stdout
for line in sys.stdin:
    req = json.loads(line)
    state["log"] = []; state["argpart"] = []
    F = np.array([[float.fromhex(h) for h in r] for r in req["F"]], dtype=float).reshape(len(req["F"]), -1)
    F = relayout(F, req.get("layout"))
    F0 = F.copy()
    res = {}
    try:
        with np.errstate(all="ignore"):
            if req.get("raw"):
                # raw kernel / fallback function without the FunctionalDiversity wrapper
                f = {"mnn": metrics.calc_mnn_nds, "2nn": metrics.calc_2nn_nds, "pcd": metrics.calc_pcd_nds}[req["label"]]
                d = f(relayout(F.copy(), req.get("layout")), n_remove=req["n_remove"])
            else:
                op = metrics.get_crowding_function(req["label"])
                if req.get("prime_n_remove") is not None:
                    # the same operator object has just been asked about the same front with another number of removals
                    op.do(F, n_remove=req["prime_n_remove"])
                    state["log"] = []; state["argpart"] = []
                d = op.do(F, n_remove=req["n_remove"])
        d = np.asarray(d, dtype=float)
        res = {"d": [float(x).hex() for x in d.ravel()], "shape": list(d.shape), "frame": bool(np.array_equal(F, F0))}
    except Exception as e:
        res = {"exception": "%s: %s" % (type(e).__name__, str(e)[:200])}
    res["log"] = [[float(a).hex(), float(b).hex()] for a, b in state["log"]]
    res["argpart"] = state["argpart"]
    out.write(json.dumps(res) + "\n"); out.flush()
