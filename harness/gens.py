"""Structured value generators shared by the property modules (one PRNG drives everything)."""
import math
import numpy as np

ONE_M = 1.0 - 2.0 ** -53     # largest double below 1


def bounds(rng, v):
    """box bounds with the boundary classes: zero-width, 1-ulp, tiny, asymmetric, ordinary"""
    xl, xu, kinds = [], [], []
    for _ in range(v):
        k = rng.choice(["unit", "unit", "zero", "ulp", "tiny", "asym", "neg", "big"])
        if k == "unit":
            l, u = 0.0, 1.0
        elif k == "zero":
            l = rng.choice([0.0, -1.5, 3.25]); u = l
        elif k == "ulp":
            l = rng.choice([1.0, -2.0, 0.1]); u = math.nextafter(l, math.inf)
        elif k == "tiny":
            l = rng.uniform(-1, 1); u = l + rng.choice([1e-12, 1e-9, 1e-300])
            if u == l:
                u = math.nextafter(l, math.inf)
        elif k == "asym":
            l, u = -1e6, 1e-3
        elif k == "neg":
            l = -rng.uniform(1, 10); u = l + rng.uniform(0.1, 5)
        else:
            l = rng.uniform(-100, 0); u = rng.uniform(0, 1000)
        xl.append(l); xu.append(u); kinds.append(k)
    return np.array(xl), np.array(xu), kinds


def in_box(rng, xl, xu, n, grid=False):
    """n points inside the box, some coordinates exactly on a bound"""
    v = len(xl)
    X = np.empty((n, v))
    for i in range(n):
        for j in range(v):
            r = rng.random()
            if r < 0.15:
                X[i, j] = xl[j]
            elif r < 0.3:
                X[i, j] = xu[j]
            else:
                t = rng.choice([0.25, 0.5, 0.75]) if grid else rng.random()
                x = xl[j] + t * (xu[j] - xl[j])
                X[i, j] = min(max(x, xl[j]), xu[j])
    return X


def dyadic(rng, lo=-4, hi=4, den=8):
    return rng.randint(lo * den, hi * den) / den
